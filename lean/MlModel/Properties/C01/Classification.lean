import MlModel.Lemmas.ConfusionSharding
import MlModel.Lemmas.ConfusionSamplewise
import MlModel.Lemmas.ConfusionTopKShard
import MlModel.Lemmas.ConfusionNoVocab
/-!
# C01 (classification family) — confusion-matrix aggregates are invariant to batching / sharding

Model: `MlModel.Agg.Confusion` (`ConfusionMatrixAggFn` / the `ClassificationAggFn` wrapper:
`create_state = None`, `update_state`, `merge_states` as repaired, `get_result`).
The dataset is `shards : List (List (List X))` — shards of batches of examples; every shard has its
own accumulator fed batch by batch, all accumulators go through one `merge_states`.
No bound on the number of shards, batches or examples; empty batches and empty shards included.

Hypotheses, each forced by the code (see the Witness file for the first):
* the class universe is fixed by the configuration — an explicit vocabulary for
  `multiclass`/`multiclass-multioutput` input, none needed for `binary`/`multiclass-indicator`;
  `merge_states` additionally refuses `macro` without a vocabulary for *every* input type;
* at least one batch is fed (`get_result(create_state())` is an `AttributeError`);
* indicator batches are non-empty lists of rows of one width (an empty list has no width).
-/
namespace MlModel.C01
open MlModel.Agg MlModel.Agg.Confusion

/-! ## the dense stage is a lawful mergeable metric (instance of `MlModel.Agg.Lawful`) -/

/-- tp/tn/fp/fn are sums of per-example indicator vectors: `ofBatch` is a monoid homomorphism -/
theorem C01_classification_dense_lawful (axis : Option Nat) (W : Nat) (h : axis = none ∨ axis = some 0) :
    Lawful (denseAgg axis W) Eq := denseAgg_lawful axis W h

/-- hence (generic lemma `Lawful.sharded_result`) any composition of a dense dataset into shards and
batches gives the counts of the whole dataset -/
theorem C01_classification_dense_sharding (axis : Option Nat) (W : Nat) (h : axis = none ∨ axis = some 0)
    (shards : List (List (List DenseEx))) :
    (denseAgg axis W).result ((denseAgg axis W).sharded shards)
      = (denseAgg axis W).result ((denseAgg axis W).ofBatch (shards.map List.flatten).flatten) :=
  (denseAgg_lawful axis W h).sharded_result shards

/-! ## the aggregate-function API, generic in the input encoding -/

section generic
variable {X : Type} {c : Cfg} {axis : Option Nat} {W : Nat} {okB : List X → Prop}
  {toBatch : List X → Batch} {enc : X → DenseEx}

/-- **C01 for the API**: shard accumulators (`update_state` from `create_state()`, batch by batch)
merged by `merge_states` end in the same state as one accumulator fed the whole dataset in one batch -/
theorem C01_classification_sharding (h : Encodes c axis W okB toBatch enc)
    (shards : List (List (List X))) (hok : ∀ sh ∈ shards, ∀ b ∈ sh, okB b)
    (hall : okB shards.flatten.flatten) (hne : shards.flatten ≠ []) :
    runSharded c (shards.map (·.map toBatch)) = feedApi c [toBatch shards.flatten.flatten] := by
  rw [h.sharded shards hok, h.one_batch _ hall, if_neg hne]

/-- … and therefore reports the same result (every metric, every averaging handled by `get_result`) -/
theorem C01_classification_sharding_result (sqrt : Rat → Rat) (h : Encodes c axis W okB toBatch enc)
    (shards : List (List (List X))) (hok : ∀ sh ∈ shards, ∀ b ∈ sh, okB b)
    (hall : okB shards.flatten.flatten) (hne : shards.flatten ≠ []) :
    (runSharded c (shards.map (·.map toBatch)) >>= getResult sqrt c)
      = (feedApi c [toBatch shards.flatten.flatten] >>= getResult sqrt c) := by
  rw [C01_classification_sharding h shards hok hall hne]

/-- shards without any batch contribute nothing; if *no* shard has a batch the merged state is the
fresh state `None` -/
theorem C01_classification_sharding_empty (h : Encodes c axis W okB toBatch enc)
    (shards : List (List (List X))) (hempty : shards.flatten = []) :
    runSharded c (shards.map (·.map toBatch)) = .ok none := by
  have hok : ∀ sh ∈ shards, ∀ b ∈ sh, okB b := by
    intro sh hsh b hb
    have : b ∈ shards.flatten := List.mem_flatten.mpr ⟨sh, hsh, hb⟩
    rw [hempty] at this; exact absurd this (by simp)
  rw [h.sharded shards hok, if_pos hempty]

end generic

/-! ## the input encodings satisfy the generic hypothesis -/

/-- binary input, `average = binary` (pos_label decides the single class) -/
theorem C01_classification_binary_binary (c : Cfg) (hk : c.kind = .cm) (hi : c.input = some .binary)
    (ha : c.average = .binary) :
    Encodes c none 1 (fun _ => True) binBatch (encBinary c.posLabel) where
  axis_ok := Or.inl rfl
  guard := by simp [ha]
  batch_eq := fun xs _ => batchCM_binary_binary c hk hi ha xs

/-- binary input, `average = micro` (two classes: positive / not positive) -/
theorem C01_classification_binary_micro (c : Cfg) (hk : c.kind = .cm) (hi : c.input = some .binary)
    (ha : c.average = .micro) :
    Encodes c none 2 (fun _ => True) binBatch (encBinary2 c.posLabel) where
  axis_ok := Or.inl rfl
  guard := by simp [ha]
  batch_eq := fun xs _ => batchCM_binary_micro c hk hi ha xs

/-- binary input, `average = macro`: `merge_states` insists on *some* vocabulary being configured -/
theorem C01_classification_binary_macro (c : Cfg) (hk : c.kind = .cm) (hi : c.input = some .binary)
    (ha : c.average = .macro) (hv : c.vocab.isSome) :
    Encodes c (some 0) 2 (fun _ => True) binBatch (encBinary2 c.posLabel) where
  axis_ok := Or.inr rfl
  guard := by cases hvv : c.vocab <;> simp_all
  batch_eq := fun xs _ => batchCM_binary_macro c hk hi ha xs

/-- multiclass input with an explicit vocabulary (class ids `0 … n-1` in key order), `micro`/`macro`;
batches may contain only labels of the vocabulary (anything else is a `KeyError`) -/
theorem C01_classification_multiclass (c : Cfg) (keys : List Label) (hn : keys.Nodup) (hne : keys ≠ [])
    (hk : c.kind = .cm) (hi : c.input = some .multiclass) (hv : c.vocab = some keys.zipIdx)
    (axis : Option Nat) (hax : axisOf c.average = .ok axis) (h01 : axis = none ∨ axis = some 0)
    (hb : c.average ≠ .binary) :
    Encodes c axis keys.length (fun xs => ∀ x ∈ xs, x.1 ∈ keys ∧ x.2 ∈ keys) mcBatch
      (encMulticlass keys) where
  axis_ok := h01
  guard := by simp [hv]
  batch_eq := fun xs hx => by
    simp only [batchCM, hk, hi, hv]
    exact multiclassCM_explicit keys hn hne c.average axis hax hb xs hx

/-- multiclass-multioutput input (ragged label lists) with an explicit vocabulary -/
theorem C01_classification_multioutput (c : Cfg) (keys : List Label) (hn : keys.Nodup) (hne : keys ≠ [])
    (hk : c.kind = .cm) (hi : c.input = some .multioutput) (hv : c.vocab = some keys.zipIdx)
    (axis : Option Nat) (hax : axisOf c.average = .ok axis) (h01 : axis = none ∨ axis = some 0)
    (hb : c.average ≠ .binary) :
    Encodes c axis keys.length
      (fun xs => ∀ x ∈ xs, (∀ e ∈ x.1, e ∈ keys) ∧ (∀ e ∈ x.2, e ∈ keys)) moBatch
      (encMultioutput keys) where
  axis_ok := h01
  guard := by simp [hv]
  batch_eq := fun xs hx => by
    simp only [batchCM, hk, hi, hv]
    exact multioutputCM_explicit keys hn hne c.average axis hax hb xs hx

/-- multiclass-indicator input of width `W`, `micro` (no vocabulary needed) or `macro` (vocabulary
demanded by `merge_states`); batches are non-empty -/
theorem C01_classification_indicator (c : Cfg) (W : Nat) (hk : c.kind = .cm)
    (hi : c.input = some .indicator) (axis : Option Nat) (hax : axisOf c.average = .ok axis)
    (h01 : axis = none ∨ axis = some 0) (hb : c.average ≠ .binary)
    (hg : c.average = .macro → c.vocab.isSome) :
    Encodes c axis W (fun xs => xs ≠ [] ∧ ∀ x ∈ xs, x.1.length = W ∧ x.2.length = W) indBatch
      (encIndicator c.posLabel) where
  axis_ok := h01
  guard := by
    cases hav : c.average <;> simp_all [axisOf]
  batch_eq := fun xs hx => by
    simp only [batchCM, hk, hi]
    exact indicatorCM_dense c.posLabel c.average axis hax hb W xs hx.1 hx.2

/-- non-vacuity: a concrete configuration and dataset satisfy all hypotheses of
`C01_classification_sharding` (3 shards, one of them empty, one empty batch) -/
example :
    let c : Cfg := { kind := .cm, metrics := [.PRECISION], single := false, posLabel := 1,
                     input := some .binary, average := .micro, vocab := none, kList := [] }
    let shards : List (List (List (Label × Label))) := [[[(1, 1), (0, 1)], []], [], [[(1, 0)]]]
    runSharded c (shards.map (·.map binBatch)) = feedApi c [binBatch shards.flatten.flatten] :=
  C01_classification_sharding (C01_classification_binary_micro _ rfl rfl rfl) _
    (fun _ _ _ _ => trivial) trivial (by decide)

/-! ## a per-example value never depends on its batch-mates (samples average) -/

/-- with the samples axis every count array has one entry per example, computed from that example's
row alone: the arrays of a batch are the concatenation of the arrays of its examples -/
theorem C01_classification_row_independence (W : Nat) (xs ys : List DenseEx)
    (hx : ∀ x ∈ xs, x.1.length = x.2.length) (hy : ∀ x ∈ ys, x.1.length = x.2.length) :
    denseCM (some 1) W (xs ++ ys) =
      { tp := appendV (denseCM (some 1) W xs).tp (denseCM (some 1) W ys).tp,
        tn := appendV (denseCM (some 1) W xs).tn (denseCM (some 1) W ys).tn,
        fp := appendV (denseCM (some 1) W xs).fp (denseCM (some 1) W ys).fp,
        fn := appendV (denseCM (some 1) W xs).fn (denseCM (some 1) W ys).fn } :=
  denseCM_samples_append W xs ys hx hy

/-! ## `SamplewiseClassification` (samples average): state = Σ per-example scores -/

section samplewise
variable {X : Type} {c : Cfg} {W : Nat} {okB : List X → Prop} {toBatch : List X → Batch}
  {enc : X → DenseEx}

/-- `add` returns, for every metric, one score per example, each computed from that example alone
(`scoresOf` maps the metric's rate over `exampleCM (enc x)`): the value of an example in a batch is
its value in the singleton batch -/
theorem C01_classification_samplewise_rows (h : EncodesSamples c W okB toBatch enc) (sqrt : Rat → Rat)
    (hm : ∀ m ∈ c.metrics, ∃ f, Generated.derive sqrt m = .rate f) (st : SwState) (xs : List X)
    (hok : okB xs) :
    (swAdd sqrt c st (toBatch xs)).map (·.1)
      = .ok (c.metrics.map fun m => (m, xs.flatMap fun x => scoresOf sqrt enc m [x])) := by
  have key : ∀ (m : Generated.Metric) (zs : List X),
      scoresOf sqrt enc m zs = zs.flatMap fun x => scoresOf sqrt enc m [x] := by
    intro m zs
    induction zs with
    | nil => unfold scoresOf; split <;> rfl
    | cons x zs ih =>
      have := scoresOf_append sqrt enc m [x] zs
      simp only [List.singleton_append] at this
      rw [this, List.flatMap_cons, ih]
  rw [swAdd_closed h sqrt hm st xs hok]
  simp only [Except.map]
  congr 2
  funext m
  rw [← key m xs]

/-- **batching**: one accumulator fed `xs ++ ys` in one batch, or `xs` then `ys`, holds the same state -/
theorem C01_classification_samplewise_batching (h : EncodesSamples c W okB toBatch enc)
    (sqrt : Rat → Rat) (hm : ∀ m ∈ c.metrics, ∃ f, Generated.derive sqrt m = .rate f) (st : SwState)
    (xs ys : List X) (hx : okB xs) (hy : okB ys) (hxy : okB (xs ++ ys)) :
    (swAdd sqrt c st (toBatch (xs ++ ys))).map (·.2)
      = (swAdd sqrt c st (toBatch xs) >>= fun r => swAdd sqrt c r.2 (toBatch ys)).map (·.2) := by
  rw [swAdd_closed h sqrt hm st _ hxy, swAdd_closed h sqrt hm st _ hx]
  simp only [bind, Except.bind, swAdd_closed h sqrt hm _ _ hy, Except.map]
  congr 1
  have := contribOf_append sqrt enc c.metrics xs ys st SwState.empty
  rw [swMerge_empty_right] at this
  rw [this, ← contribOf_start]

/-- **sharding**: two accumulators fed `xs` and `ys` and merged hold the state of one accumulator fed
`xs ++ ys` (and by `C11_classification_samplewise_*` any merge order / grouping gives the same) -/
theorem C01_classification_samplewise_sharding (h : EncodesSamples c W okB toBatch enc)
    (sqrt : Rat → Rat) (hm : ∀ m ∈ c.metrics, ∃ f, Generated.derive sqrt m = .rate f)
    (xs ys : List X) (hx : okB xs) (hy : okB ys) (hxy : okB (xs ++ ys)) :
    (do let a ← swAdd sqrt c SwState.empty (toBatch xs)
        let b ← swAdd sqrt c SwState.empty (toBatch ys)
        pure (swMerge a.2 b.2))
      = (swAdd sqrt c SwState.empty (toBatch (xs ++ ys))).map (·.2) := by
  rw [swAdd_closed h sqrt hm _ _ hxy, swAdd_closed h sqrt hm _ _ hx, swAdd_closed h sqrt hm _ _ hy]
  simp only [bind, Except.bind, pure, Except.pure, Except.map]
  have := contribOf_append sqrt enc c.metrics xs ys SwState.empty SwState.empty
  rw [swMerge_empty_right] at this
  rw [this]

/-- multiclass input with an explicit vocabulary satisfies the hypothesis (samplewise accumulator) -/
theorem C01_classification_samplewise_multiclass (c : Cfg) (keys : List Label) (hn : keys.Nodup)
    (hne : keys ≠ []) (hk : c.kind = .samplewise) (hi : c.input = some .multiclass)
    (hv : c.vocab = some keys.zipIdx) (ha : c.average = .samples) :
    EncodesSamples c keys.length (fun xs => ∀ x ∈ xs, x.1 ∈ keys ∧ x.2 ∈ keys) mcBatch
      (encMulticlass keys) where
  batch_eq := fun xs hx => by
    simp only [batchCM, hk, hi, hv, ha]
    exact multiclassCM_explicit keys hn hne .samples (some 1) rfl (by decide) xs hx
  aligned := fun x => by simp [encMulticlass, mark]

/-- multiclass-multioutput input with an explicit vocabulary (samplewise accumulator) -/
theorem C01_classification_samplewise_multioutput (c : Cfg) (keys : List Label) (hn : keys.Nodup)
    (hne : keys ≠ []) (hk : c.kind = .samplewise) (hi : c.input = some .multioutput)
    (hv : c.vocab = some keys.zipIdx) (ha : c.average = .samples) :
    EncodesSamples c keys.length
      (fun xs => ∀ x ∈ xs, (∀ e ∈ x.1, e ∈ keys) ∧ (∀ e ∈ x.2, e ∈ keys)) moBatch
      (encMultioutput keys) where
  batch_eq := fun xs hx => by
    simp only [batchCM, hk, hi, hv, ha]
    exact multioutputCM_explicit keys hn hne .samples (some 1) rfl (by decide) xs hx
  aligned := fun x => by simp [encMultioutput, mark]

end samplewise

/-! ## the same theorem for ANY family of equally shaped count arrays (needed for top-k)

`EncodesG c G okB toBatch D` (`Lemmas/ConfusionGen`): on admissible batches the accumulator computes
`D`, `D` is a homomorphism `(List X, ++) → (count arrays, pointwise +)`, and the arrays belong to a
family `G` on which numpy's broadcasting `+` / `+=` are that pointwise sum.  The fixed shapes above
(`Encodes`) are the instances `G = GoodArr axis W` (`Encodes.toG`). -/

section anyshape
variable {X : Type} {c : Cfg} {G : Arr Int → Prop} {okB : List X → Prop} {toBatch : List X → Batch}
  {D : List X → CMArr}

/-- **C01, any shape**: every composition into shards and batches (empty batches and empty shards
included) merged by `merge_states` ends in the state of one accumulator fed everything in one batch -/
theorem C01_classification_sharding_any_shape (h : EncodesG c G okB toBatch D)
    (shards : List (List (List X))) (hok : ∀ sh ∈ shards, ∀ b ∈ sh, okB b)
    (hall : okB shards.flatten.flatten) (hne : shards.flatten ≠ []) :
    runSharded c (shards.map (·.map toBatch)) = feedApi c [toBatch shards.flatten.flatten] := by
  rw [h.sharded shards hok, h.one_batch _ hall, if_neg hne]

/-- one accumulator: feeding the batches one after the other = feeding their concatenation once -/
theorem C01_classification_batching_any_shape (h : EncodesG c G okB toBatch D)
    (sh : List (List X)) (hok : ∀ b ∈ sh, okB b) (hall : okB sh.flatten) (hne : sh ≠ []) :
    feedApi c (sh.map toBatch) = feedApi c [toBatch sh.flatten] := by
  rw [h.feed_closed sh hok, h.one_batch _ hall, if_neg hne]

/-- any two merge plans (bracketing, order) over the same shard states agree -/
theorem C01_classification_merge_tree_any_shape (h : EncodesG c G okB toBatch D)
    (shards : List (List (List X))) (hok : ∀ sh ∈ shards, ∀ b ∈ sh, okB b)
    (t₁ t₂ : MTree) (h₁ : ∀ i ∈ t₁.leaves, i < shards.length) (hp : t₁.leaves.Perm t₂.leaves) :
    (do let sts ← shards.mapM fun (sh : List (List X)) => feedApi c (sh.map toBatch)
        evalTree c sts t₁)
      = (do let sts ← shards.mapM fun (sh : List (List X)) => feedApi c (sh.map toBatch)
            evalTree c sts t₂) := by
  rw [mapM_ok (fun (sh : List (List X)) => feedApi c (sh.map toBatch))
    (fun sh => (sh.map fun xs => some (D xs)).foldl oadd none) shards
    (fun sh hsh => h.feed sh (hok sh hsh))]
  simp only [bind, Except.bind]
  exact evalTree_permG h.laws c h.guard _ (by
    intro s hs; obtain ⟨sh, _, rfl⟩ := List.mem_map.mp hs; exact h.feed_good sh) t₁ t₂
    (by simpa using h₁) hp

end anyshape

/-! ## an ARBITRARY explicit vocabulary (permuted ids, labels sharing a class id)

`Vocab.Has v e`: `e` is a key of the vocabulary and its class id is `< len(vocab)` — exactly the
labels `_apply_vocab` accepts (`vocabStep_not_has`: anything else is a `KeyError` / `IndexError`).
The theorems above for `keys.zipIdx` are the special case `has_zipIdx`. -/

theorem C01_classification_multiclass_vocab (c : Cfg) (v : Vocab) (hne : v ≠ [])
    (hk : c.kind = .cm) (hi : c.input = some .multiclass) (hv : c.vocab = some v)
    (axis : Option Nat) (hax : axisOf c.average = .ok axis) (h01 : axis = none ∨ axis = some 0)
    (hb : c.average ≠ .binary) :
    Encodes c axis v.length (fun xs => ∀ x ∈ xs, v.Has x.1 ∧ v.Has x.2) mcBatch (encMulticlassV v) where
  axis_ok := h01
  guard := by simp [hv]
  batch_eq := fun xs hx => by
    simp only [batchCM, hk, hi, hv]
    exact multiclassCM_vocab v hne c.average axis hax hb [] xs hx

theorem C01_classification_multioutput_vocab (c : Cfg) (v : Vocab) (hne : v ≠ [])
    (hk : c.kind = .cm) (hi : c.input = some .multioutput) (hv : c.vocab = some v)
    (axis : Option Nat) (hax : axisOf c.average = .ok axis) (h01 : axis = none ∨ axis = some 0)
    (hb : c.average ≠ .binary) :
    Encodes c axis v.length
      (fun xs => ∀ x ∈ xs, (∀ e ∈ x.1, v.Has e) ∧ (∀ e ∈ x.2, v.Has e)) moBatch (encMultioutputV v) where
  axis_ok := h01
  guard := by simp [hv]
  batch_eq := fun xs hx => by
    simp only [batchCM, hk, hi, hv]
    exact multioutputCM_vocab v hne c.average axis hax hb [] xs hx

theorem C01_classification_samplewise_multiclass_vocab (c : Cfg) (v : Vocab) (hne : v ≠ [])
    (hk : c.kind = .samplewise) (hi : c.input = some .multiclass) (hv : c.vocab = some v)
    (ha : c.average = .samples) :
    EncodesSamples c v.length (fun xs => ∀ x ∈ xs, v.Has x.1 ∧ v.Has x.2) mcBatch (encMulticlassV v) where
  batch_eq := fun xs hx => by
    simp only [batchCM, hk, hi, hv, ha]
    exact multiclassCM_vocab v hne .samples (some 1) rfl (by decide) [] xs hx
  aligned := fun x => by simp [encMulticlassV]

theorem C01_classification_samplewise_multioutput_vocab (c : Cfg) (v : Vocab) (hne : v ≠ [])
    (hk : c.kind = .samplewise) (hi : c.input = some .multioutput) (hv : c.vocab = some v)
    (ha : c.average = .samples) :
    EncodesSamples c v.length
      (fun xs => ∀ x ∈ xs, (∀ e ∈ x.1, v.Has e) ∧ (∀ e ∈ x.2, v.Has e)) moBatch (encMultioutputV v) where
  batch_eq := fun xs hx => by
    simp only [batchCM, hk, hi, hv, ha]
    exact multioutputCM_vocab v hne .samples (some 1) rfl (by decide) [] xs hx
  aligned := fun x => by simp [encMultioutputV]

/-! ## `TopKConfusionMatrixAggFn` (and the wrapper with a `k_list`)

State of one batch = `topkD`: for the configuration's fixed `ksOf k_list` (distinct positive members
of `k_list`, increasing — `mem_ksOf`, `ksOf_sorted`) entry `i` of every array is the ordinary count
array of the batch with every prediction row cut to its first `ks[i]` entries; a row shorter than `k`
is taken whole, an empty batch gives zeros of the same shape.  No hypothesis on the row lengths, on
`k_list` beyond "some positive `k`" (otherwise every call raises), or on the batches. -/

/-- multiclass-multioutput input (ragged rankings), explicit vocabulary, `micro` / `macro` -/
theorem C01_classification_topk_multioutput (c : Cfg) (v : Vocab) (hne : v ≠ [])
    (hk : c.kind = .topk) (hi : c.input = some .multioutput) (hv : c.vocab = some v)
    (axis : Option Nat) (hax : axisOf c.average = .ok axis) (h01 : axis = none ∨ axis = some 0)
    (hb : c.average ≠ .binary) (hks : ksOf c.kList ≠ []) :
    EncodesG c (GoodK axis (ksOf c.kList).length v.length)
      (fun xs => ∀ x ∈ xs, (∀ e ∈ x.1, v.Has e) ∧ (∀ e ∈ x.2, v.Has e)) moBatch
      (topkD axis v.length (ksOf c.kList) (encTopKmo v)) where
  laws := goodK_laws axis _ _
  guard := by simp [hv]
  good := topkD_good axis h01 v.length _ _
  hom := topkD_append axis h01 v.length _ _
  batch_eq := fun xs hx => by
    simp only [batchCM, hk, hi, hv]
    exact topkCM_closed_mo v hne c.average hb axis hax h01 c.kList hks [] xs hx

/-- multiclass input (one label per example; every `k ≥ 1` sees the single prediction) -/
theorem C01_classification_topk_multiclass (c : Cfg) (v : Vocab) (hne : v ≠ [])
    (hk : c.kind = .topk) (hi : c.input = some .multiclass) (hv : c.vocab = some v)
    (axis : Option Nat) (hax : axisOf c.average = .ok axis) (h01 : axis = none ∨ axis = some 0)
    (hb : c.average ≠ .binary) (hks : ksOf c.kList ≠ []) :
    EncodesG c (GoodK axis (ksOf c.kList).length v.length)
      (fun xs => ∀ x ∈ xs, v.Has x.1 ∧ v.Has x.2) mcBatch
      (topkD axis v.length (ksOf c.kList) (encTopKmc v)) where
  laws := goodK_laws axis _ _
  guard := by simp [hv]
  good := topkD_good axis h01 v.length _ _
  hom := topkD_append axis h01 v.length _ _
  batch_eq := fun xs hx => by
    simp only [batchCM, hk, hi, hv]
    exact topkCM_closed_mc v hne c.average hb axis hax h01 c.kList hks [] xs hx

/-- **C01 for top-k, spelled out**: ragged rankings, any `k_list` with a positive member, any explicit
vocabulary, `micro` or `macro`; any number of shards and batches — empty ones, and batches whose
longest ranking is shorter than some `k`, included — merged by `merge_states`: same per-`k` counts,
hence the same derived rates, as the whole dataset in one batch -/
theorem C01_classification_topk_sharding (sqrt : Rat → Rat) (c : Cfg) (v : Vocab) (hne : v ≠ [])
    (hk : c.kind = .topk) (hi : c.input = some .multioutput) (hv : c.vocab = some v)
    (ha : c.average = .micro ∨ c.average = .macro) (hks : ∃ k ∈ c.kList, 0 < k)
    (shards : List (List (List (List Label × List Label))))
    (hok : ∀ sh ∈ shards, ∀ b ∈ sh, ∀ x ∈ b, (∀ e ∈ x.1, v.Has e) ∧ (∀ e ∈ x.2, v.Has e))
    (hdata : shards.flatten ≠ []) :
    runSharded c (shards.map (·.map moBatch)) = feedApi c [moBatch shards.flatten.flatten] ∧
    (runSharded c (shards.map (·.map moBatch)) >>= getResult sqrt c)
      = (feedApi c [moBatch shards.flatten.flatten] >>= getResult sqrt c) := by
  have hks' : ksOf c.kList ≠ [] := by
    obtain ⟨k, hk1, hk2⟩ := hks
    have : k.toNat ∈ ksOf c.kList := (mem_ksOf c.kList k.toNat).mpr ⟨by omega, by
      rw [Int.toNat_of_nonneg (by omega)]; exact hk1⟩
    intro h; rw [h] at this; cases this
  have hall : ∀ x ∈ shards.flatten.flatten, (∀ e ∈ x.1, v.Has e) ∧ (∀ e ∈ x.2, v.Has e) := by
    intro x hx
    obtain ⟨b, hb, hxb⟩ := List.mem_flatten.mp hx
    obtain ⟨sh, hsh, hbsh⟩ := List.mem_flatten.mp hb
    exact hok sh hsh b hbsh x hxb
  have key : runSharded c (shards.map (·.map moBatch)) = feedApi c [moBatch shards.flatten.flatten] := by
    rcases ha with ha | ha
    · exact C01_classification_sharding_any_shape
        (C01_classification_topk_multioutput c v hne hk hi hv none (by rw [ha]; rfl) (Or.inl rfl)
          (by rw [ha]; decide) hks') shards hok hall hdata
    · exact C01_classification_sharding_any_shape
        (C01_classification_topk_multioutput c v hne hk hi hv (some 0) (by rw [ha]; rfl) (Or.inr rfl)
          (by rw [ha]; decide) hks') shards hok hall hdata
  exact ⟨key, by rw [key]⟩

/-- non-vacuity / the shape of the seeded change C01-m1: `k_list = [1, 3]`, a batch whose rankings
all have ≤ 2 entries, an empty batch, an empty shard, a permuted vocabulary -/
example :
    let c : Cfg := { kind := .topk, metrics := [.PRECISION], single := false, posLabel := 1,
                     input := some .multioutput, average := .macro,
                     vocab := some [(7, 2), (8, 0), (9, 1)], kList := [1, 3] }
    let shards : List (List (List (List Label × List Label))) :=
      [[[([7], [8, 7]), ([8], [8])], []], [], [[([9, 7], [9, 8, 7])]]]
    runSharded c (shards.map (·.map moBatch)) = feedApi c [moBatch shards.flatten.flatten] :=
  (C01_classification_topk_sharding id _ [(7, 2), (8, 0), (9, 1)] (by decide) rfl rfl rfl (Or.inr rfl)
    ⟨1, by decide, by decide⟩ _ (by decide) (by decide)).1

/-- test (by evaluation): the state of that run, per `k ∈ [1, 3]` and per class id -/
example :
    let c : Cfg := { kind := .topk, metrics := [.PRECISION], single := false, posLabel := 1,
                     input := some .multioutput, average := .macro,
                     vocab := some [(7, 2), (8, 0), (9, 1)], kList := [1, 3] }
    runSharded c [[moBatch [([7], [8, 7]), ([8], [8])], moBatch []], [], [moBatch [([9, 7], [9, 8, 7])]]]
      = .ok (some { tp := .m [[1, 1, 0], [1, 1, 2]], tn := .m [[1, 2, 1], [0, 2, 1]],
                    fp := .m [[1, 0, 0], [2, 0, 0]], fn := .m [[0, 0, 2], [0, 0, 0]] }) := by
  rfl

/-! ## WITHOUT a vocabulary (open finding F8): exactly what is invariant and what is not

`multiclass` / `multiclass-multioutput` input, `vocab=None` (or `{}`), `average='micro'`.  Every batch
`b` deduces its own vocabulary; `ord b` is CPython's enumeration order of its label set (any
duplicate-free list containing the labels of `b`: `ValidOrd`).  `exTP x = |T ∩ P|`,
`exFN x = |T \ P|`, `exFP x = |P \ T|` are functions of the example alone.

The full-strength statement "`runSharded … = feedApi [one batch]`" is FALSE here
(`Witness.C01.C01_classification_F8_witness`); what holds is: -/

/-- **closed form of the state after ANY composition into shards and batches** (multi-output):
`tp`, `fp`, `fn` are sums over the examples of quantities that do not mention the batch; every
example contributes `|V_b| − |T ∪ P|` to `tn`, `V_b` the vocabulary of the batch it was fed in
(`noVocabD` on the examples tagged with `|V_b|`; `noVocabD_tp/_fp/_fn/_tn` read it off) -/
theorem C01_classification_novocab_state_partial (c : Cfg) (hk : c.kind = .cm)
    (hi : c.input = some .multioutput) (hv : c.vocab = none ∨ c.vocab = some []) (ha : c.average = .micro)
    (ord : List LabelSets → List Label) (shards : List (List (List LabelSets)))
    (hord : ∀ sh ∈ shards, ∀ b ∈ sh, ValidOrd id (ord b) b) :
    runSharded c (shards.map (·.map fun b => moBatchO (ord b) b))
      = .ok (if shards.flatten = [] then none
             else some (noVocabD id (tagShards ord shards).flatten.flatten)) := by
  have h := (noVocab_multioutput c hk hi hv ha ord).sharded (tagShards ord shards) (by
    intro sh hsh b hb
    obtain ⟨sh', hsh', rfl⟩ := List.mem_map.mp hsh
    obtain ⟨b', hb', rfl⟩ := List.mem_map.mp hb
    exact tagOK_tag id ord b' (hord sh' hsh' b' hb'))
  have e : (tagShards ord shards).map (·.map (moBatchT ord))
      = shards.map (·.map fun b => moBatchO (ord b) b) := by
    simp only [tagShards, List.map_map]
    apply List.map_congr_left; intro sh _
    simp only [Function.comp, List.map_map]
    apply List.map_congr_left; intro b _
    simp only [Function.comp, moBatchT, moBatchO, map_fst_tag]
  rw [e] at h
  rw [h]
  by_cases hn : shards.flatten = []
  · rw [if_pos hn, if_pos ((tagShards_flatten_nil ord shards).mpr hn)]
  · rw [if_neg hn, if_neg (fun h' => hn ((tagShards_flatten_nil ord shards).mp h'))]

/-- the same for `multiclass` input (one label on each side) -/
theorem C01_classification_novocab_state_multiclass_partial (c : Cfg) (hk : c.kind = .cm)
    (hi : c.input = some .multiclass) (hv : c.vocab = none ∨ c.vocab = some []) (ha : c.average = .micro)
    (ord : List (Label × Label) → List Label) (shards : List (List (List (Label × Label))))
    (hord : ∀ sh ∈ shards, ∀ b ∈ sh, ValidOrd labMc (ord b) b) :
    runSharded c (shards.map (·.map fun b => mcBatchO (ord b) b))
      = .ok (if shards.flatten = [] then none
             else some (noVocabD labMc (tagShards ord shards).flatten.flatten)) := by
  have h := (noVocab_multiclass c hk hi hv ha ord).sharded (tagShards ord shards) (by
    intro sh hsh b hb
    obtain ⟨sh', hsh', rfl⟩ := List.mem_map.mp hsh
    obtain ⟨b', hb', rfl⟩ := List.mem_map.mp hb
    exact tagOK_tag labMc ord b' (hord sh' hsh' b' hb'))
  have e : (tagShards ord shards).map (·.map (mcBatchT ord))
      = shards.map (·.map fun b => mcBatchO (ord b) b) := by
    simp only [tagShards, List.map_map]
    apply List.map_congr_left; intro sh _
    simp only [Function.comp, List.map_map]
    apply List.map_congr_left; intro b _
    simp only [Function.comp, mcBatchT, mcBatchO, map_fst_tag]
  rw [e] at h
  rw [h]
  by_cases hn : shards.flatten = []
  · rw [if_pos hn, if_pos ((tagShards_flatten_nil ord shards).mpr hn)]
  · rw [if_neg hn, if_neg (fun h' => hn ((tagShards_flatten_nil ord shards).mp h'))]

/-- **`tp`, `fp`, `fn` do not depend on the batching, `tn` does — by exactly the difference of the
vocabulary sizes the examples are counted against.**  Two arbitrary compositions (with their own set
orders) of the same dataset: both runs succeed, agree on `tp`, `fp`, `fn`, and
`tn₁ − tn₂ = Σ_{b ∈ run 1} |b|·|V_b| − Σ_{b ∈ run 2} |b|·|V_b|` (each sum taken example by example).
So finding F8 is confined to `tn` (and, for `macro`, to the class axis, which `merge_states` refuses). -/
theorem C01_classification_novocab_tp_fp_fn (c : Cfg) (hk : c.kind = .cm)
    (hi : c.input = some .multioutput) (hv : c.vocab = none ∨ c.vocab = some []) (ha : c.average = .micro)
    (ord₁ ord₂ : List LabelSets → List Label) (shards₁ shards₂ : List (List (List LabelSets)))
    (h₁ : ∀ sh ∈ shards₁, ∀ b ∈ sh, ValidOrd id (ord₁ b) b)
    (h₂ : ∀ sh ∈ shards₂, ∀ b ∈ sh, ValidOrd id (ord₂ b) b)
    (hsame : shards₁.flatten.flatten = shards₂.flatten.flatten)
    (hne₁ : shards₁.flatten ≠ []) (hne₂ : shards₂.flatten ≠ []) :
    ∃ s₁ s₂ : CMArr,
      runSharded c (shards₁.map (·.map fun b => moBatchO (ord₁ b) b)) = .ok (some s₁) ∧
      runSharded c (shards₂.map (·.map fun b => moBatchO (ord₂ b) b)) = .ok (some s₂) ∧
      s₁.tp = s₂.tp ∧ s₁.fp = s₂.fp ∧ s₁.fn = s₂.fn ∧
      s₁.tn.toS - s₂.tn.toS
        = ((tagShards ord₁ shards₁).flatten.flatten.map fun y => (y.2 : Int)).sum
          - ((tagShards ord₂ shards₂).flatten.flatten.map fun y => (y.2 : Int)).sum := by
  refine ⟨noVocabD id (tagShards ord₁ shards₁).flatten.flatten,
    noVocabD id (tagShards ord₂ shards₂).flatten.flatten, ?_, ?_, ?_, ?_, ?_, ?_⟩
  · rw [C01_classification_novocab_state_partial c hk hi hv ha ord₁ shards₁ h₁, if_neg hne₁]
  · rw [C01_classification_novocab_state_partial c hk hi hv ha ord₂ shards₂ h₂, if_neg hne₂]
  · rw [noVocabD_tp, noVocabD_tp, tagShards_fst, tagShards_fst, hsame]
  · rw [noVocabD_fp, noVocabD_fp, tagShards_fst, tagShards_fst, hsame]
  · rw [noVocabD_fn, noVocabD_fn, tagShards_fst, tagShards_fst, hsame]
  · rw [noVocabD_tn, noVocabD_tn, tagShards_fst, tagShards_fst, hsame]
    simp only [Arr.toS]; omega

/-- hence every rate that does not read `tn` (precision, recall, F1, miss rate, FDR, threat score …)
reports the same value for every batching, vocabulary or not: equal `tp`, `fp`, `fn` ⇒ equal value -/
theorem C01_classification_novocab_tn_free_rates (a b : Generated.CM Rat) (h1 : a.tp = b.tp)
    (h2 : a.fp = b.fp) (h3 : a.fn = b.fn) :
    Generated.Rates.precision a = Generated.Rates.precision b ∧
    Generated.Rates.recall a = Generated.Rates.recall b ∧
    Generated.Rates.f1 a = Generated.Rates.f1 b ∧
    Generated.Rates.miss_rate a = Generated.Rates.miss_rate b ∧
    Generated.Rates.false_discovery_rate a = Generated.Rates.false_discovery_rate b ∧
    Generated.Rates.threat_score a = Generated.Rates.threat_score b ∧
    Generated.Rates.accuracy a = Generated.Rates.accuracy b := by
  simp [Generated.Rates.precision, Generated.Rates.recall, Generated.Rates.f1, Generated.Rates.miss_rate,
    Generated.Rates.false_discovery_rate, Generated.Rates.threat_score, Generated.Rates.accuracy,
    Generated.CM.p, Generated.CM.t, h1, h2, h3]

/-- non-vacuity: the dataset of the F8 witness (`y = ŷ = [[0],[1]]`) in one batch and in two -/
example :
    let c : Cfg := { kind := .cm, metrics := [.PRECISION], single := true, posLabel := 1,
                     input := some .multioutput, average := .micro, vocab := none, kList := [] }
    let ord : List LabelSets → List Label := fun b => (b.flatMap fun x => x.1 ++ x.2).dedup
    ∃ s₁ s₂ : CMArr,
      runSharded c ([[[([0], [0]), ([1], [1])]]].map (·.map fun b => moBatchO (ord b) b)) = .ok (some s₁) ∧
      runSharded c ([[[([0], [0])]], [[([1], [1])]]].map (·.map fun b => moBatchO (ord b) b)) = .ok (some s₂) ∧
      s₁.tp = s₂.tp ∧ s₁.fp = s₂.fp ∧ s₁.fn = s₂.fn ∧ s₁.tn.toS - s₂.tn.toS = 2 := by
  intro c ord
  obtain ⟨s₁, s₂, e1, e2, h3, h4, h5, h6⟩ := C01_classification_novocab_tp_fp_fn c rfl rfl (Or.inl rfl) rfl
    ord ord [[[([0], [0]), ([1], [1])]]] [[[([0], [0])]], [[([1], [1])]]]
    (by decide) (by decide) rfl (by decide) (by decide)
  exact ⟨s₁, s₂, e1, e2, h3, h4, h5, by rw [h6]; decide⟩

end MlModel.C01
