import MlModel.Model.Sched
import MlModel.Model.Agg.Core
import MlModel.Lemmas.AggCore
import MlModel.Lemmas.SchedOk
import MlModel.Lemmas.SchedRun
import MlModel.Properties.C04
import MlModel.Properties.C06
/-!
# C16 — Fault-free distributed execution equals in-process execution

* `C16_sharded*`: `sharded_pipelines_as_iterator` in the environment that answers every call
  (`env = ok` everywhere), for every pool size, shard count, batch count per shard, retry threshold
  and every schedule of main loop, coroutines and merger (`Model/Sched.lean: IT`).
* `C16_interleaved`: the stage workers of `_async_run_single_stage` drain ONE shared input queue
  (`RemoteIteratorQueue` over the previous stage's `IteratorQueue`): reuses the queue LTS of C04
  (`C04_exactly_once`) - every input batch is received by exactly one worker - and the lawful-merge
  lemma: the merge of the workers' accumulators equals the in-process accumulator; exactly one
  AggregateResult is left in `result_q.returned`.
* `C16_strict_count`: `merge_states(states, strict_states_cnt = n)` of both runner variants.

Not modelled (as for C06): the asyncio event loop, RPC timing, pickling.
-/
namespace MlModel.C16
open MlModel.Sched MlModel.Agg

section Sharded
variable {c : ICfg} {nw : Nat} {s : IT}

/-- **Sharded, fault-free = in-process (outputs).**  When every call is answered, whatever the
schedule: the iteration can only end normally (never RuntimeError / TimeoutError, not a single
retry is counted), and when it has ended the yielded batches are, as a multiset, exactly the
output batches of all shards - each once. -/
theorem C16_sharded (hok : ∀ w i, c.env w i = .ok) (h : IReach c (IT.init nw c.n) s) :
    s.timeoutCnt = 0 ∧ s.failed = [] ∧
    (∀ o, s.outcome = some o → o = .returned) ∧
    (s.outcome = some .returned → s.yieldedB.Perm ((List.range c.n).flatMap (allB c))) := by
  have inv : OkInv c s := by
    induction h with
    | refl => exact okInv_init c nw
    | step l _ hs ih => exact okInv_step hok ih (itStep_sound hs)
  obtain ⟨hz, ht, hf⟩ := inv.quiet
  refine ⟨ht, hf, ?_, ?_⟩
  · intro o ho
    have := (C06.C06_verdict h o ho).1
    simpa [hf, ht] using this
  · intro hr
    obtain ⟨hq, hrun⟩ := inv.done (by simp [hr])
    have hb := inv.bat
    simp only [hq, hrun, List.append_nil, List.flatMap_nil] at hb
    have hperm := ((C06.C06_errors_surface h _ hr).2.1 rfl).2.2
    exact hb.trans (hperm.flatMap_right _)

/-- **Sharded, fault-free = in-process (aggregate).**  The single AggregateResult published on
`result_queue` has the result of one in-process accumulator fed the whole data source
(instance of `C06_aggregate`; with `C16_sharded` the hypothesis "returned normally" is the only
possible ending). -/
theorem C16_sharded_aggregate {X S R : Type} (m : Mergeable X S R) (Eqv : S → S → Prop) (hl : Lawful m Eqv)
    (hperm : ∀ xs ys : List X, xs.Perm ys → Eqv (m.ofBatch xs) (m.ofBatch ys))
    (d : Shard.DS) (hwf : d.WF) (xs : List X) (hlen : xs.length = d.dataLen) (hk : 1 ≤ c.n)
    (bat : Nat → List (List X))
    (hbat : ∀ i : Nat, i < c.n → (bat i).flatten = (d.shardCore (i : Int) (c.n : Int) 0).elems xs)
    (h : IReach c (IT.init nw c.n) s) (hfix : c.directPut = false)
    (hr : s.outcome = some .returned) (l : List Nat) (hx : s.result = some (some l)) :
    m.result (m.mergeStates (l.map fun i => m.feed (bat i))) = m.result (m.ofBatch (d.elems xs)) :=
  C06.C06_aggregate m Eqv hl hperm d hwf xs hlen hk bat hbat h hfix hr l hx

/-- exactly one final aggregate result, and it contains every shard -/
theorem C16_sharded_one_result (h : IReach c (IT.init nw c.n) s) (hfix : c.directPut = false)
    (hr : s.outcome = some .returned) (x : Option (List Nat)) (hx : s.result = some x) :
    ∃ l, x = some l ∧ l.Perm (List.range c.n) :=
  (C06.C06_result h hfix x hx).1 hr

end Sharded

/-! ## interleaved stages -/

section Interleaved
open MlModel.Queue

variable {cap maxEnq : Nat} {to ig : Bool} {progs : List Prog} {cfg : Cfg}

/-- **Interleaved stage = in-process.**  The workers of a stage are consumers of one shared input
queue (any number of them, `get` or `get_batch` loops of any batch size, any schedule - the LTS of
C04).  In every configuration in which the queue has been drained and no consumer holds a batch
in hand, every batch that the previous stage produced has been received by **exactly one**
worker (`C04_exactly_once`); hence, for a row-wise stage function `f` and a lawful
order-insensitive metric, merging the workers' accumulators gives the result of one in-process
accumulator over all produced batches. -/
theorem C16_interleaved {Y S R : Type} (m : Mergeable Y S R) (Eqv : S → S → Prop) (hl : Lawful m Eqv)
    (hperm : ∀ xs ys : List Y, xs.Perm ys → Eqv (m.ofBatch xs) (m.ofBatch ys)) (f : Elem → Y)
    (h : Reachable (init cap maxEnq to ig progs) cfg)
    (hq : cfg.sh.q = []) (hlost : cfg.sh.lost = [])
    (hidle : ∀ t ∈ cfg.ths, t.result = [] ∧ inHand t = []) :
    cfg.sh.produced.Perm (cfg.ths.flatMap (·.received)) ∧
    m.result (m.mergeStates (cfg.ths.map fun t => m.feed (t.received.map fun e => [f e])))
      = m.result (m.ofBatch (cfg.sh.produced.map f)) := by
  have hex := C04.C04_exactly_once h
  have hsum : sumSeq cfg.ths = cfg.ths.flatMap (·.received) := by
    unfold sumSeq
    have : ∀ (ths : List Thread), (∀ t ∈ ths, t.result = [] ∧ inHand t = []) →
        (ths.map seqOf).flatten = ths.flatMap (·.received) := by
      intro ths
      induction ths with
      | nil => intro _; rfl
      | cons t ths ih =>
        intro hh
        have ht := hh t List.mem_cons_self
        simp only [List.map_cons, List.flatten_cons, List.flatMap_cons]
        rw [ih (fun t' ht' => hh t' (List.mem_cons_of_mem _ ht'))]
        simp [seqOf, ht.1, ht.2]
    exact this _ hidle
  have hp : cfg.sh.produced.Perm (cfg.ths.flatMap (·.received)) := by
    simpa [hq, hlost, hsum] using hex
  refine ⟨hp, ?_⟩
  have h1 := hl.sharded_eq (cfg.ths.map fun t => t.received.map fun e => [f e])
  have e1 : m.sharded (cfg.ths.map fun t => t.received.map fun e => [f e]) =
      m.mergeStates (cfg.ths.map fun t => m.feed (t.received.map fun e => [f e])) := by
    simp [Mergeable.sharded, List.map_map, Function.comp_def]
  have e2 : (((cfg.ths.map fun t => t.received.map fun e => [f e])).map List.flatten).flatten =
      (cfg.ths.flatMap (·.received)).map f := by
    have : ∀ (ths : List Thread),
        ((ths.map fun t => t.received.map fun e => [f e]).map List.flatten).flatten =
          (ths.flatMap (·.received)).map f := by
      intro ths
      induction ths with
      | nil => rfl
      | cons t ths ih =>
        simp only [List.map_cons, List.flatten_cons, List.flatMap_cons, List.map_append]
        rw [ih]
        congr 1
        induction t.received with
        | nil => rfl
        | cons e es ihe => simp [ihe]
    exact this _
  rw [e1, e2] at h1
  exact hl.result_congr (hl.trans h1 (hperm _ _ (hp.symm.map f)))

/-- **Exactly one AggregateResult is left**: after the stage's workers are done the stage runner
replaces the per-worker results in `result_q.returned` by a single merged one
(orchestrate.py:367-391), whatever number of workers contributed. -/
theorem C16_one_result {S : Type} (mergeStates : List S → S) (returned : List (Option S))
    (hne : returned ≠ []) :
    stageReturned mergeStates returned = [mergeStates (returned.filterMap id)] ∧
    (stageReturned mergeStates returned).length = 1 := by
  unfold stageReturned
  cases returned with
  | nil => exact absurd rfl hne
  | cons a l => simp

end Interleaved

/-! ## strict count -/

section StrictCount
variable {S : Type} (merge : S → S → S) (empty : S)

/-- the full merge both variants compute (`merge_states` without a count) -/
def fullMerge : List S → S
  | [] => empty
  | st :: rest => rest.foldl merge st

theorem trFold (states : List S) : ∀ (acc : Option S) (k : Nat),
    states.foldl (trFoldStep merge) (acc, k)
    = (match acc, states with
        | none, [] => none
        | none, st :: rest => some (rest.foldl merge st)
        | some a, l => some (l.foldl merge a), k + states.length) := by
  induction states with
  | nil => intro acc k; cases acc <;> simp
  | cons st rest ih =>
    intro acc k
    simp only [List.foldl_cons, trFoldStep, ih, List.length_cons]
    cases acc <;> simp <;> omega

theorem trMerge_eq (states : List S) (n : Nat) :
    trMergeStates merge empty states n =
      if n != 0 && states.length != n then .error .value else .ok (fullMerge merge empty states) := by
  unfold trMergeStates
  rw [trFold merge states none 0]
  cases states <;> simp [fullMerge]

theorem chMerge_eq (states : List S) (n : Nat) :
    chMergeStates merge empty states n =
      if n != 0 && states.length != n then .error .value else .ok (fullMerge merge empty states) := by
  unfold chMergeStates
  cases states <;> simp [fullMerge]

/-- **Strict count.**  For `n >= 1`, `merge_states(states, strict_states_cnt = n)` raises
`ValueError` iff the number of states differs from `n` - for `TransformRunner` (which counts while
folding) and for `ChainedRunner` (which checks before merging) alike - and otherwise returns the
full merge of all states.  (`n = 0` switches the check off: `C16_strict_count_off`.) -/
theorem C16_strict_count (states : List S) (n : Nat) (hn : 1 ≤ n) :
    (trMergeStates merge empty states n = .error .value ↔ states.length ≠ n) ∧
    (chMergeStates merge empty states n = .error .value ↔ states.length ≠ n) ∧
    (states.length = n →
      trMergeStates merge empty states n = .ok (fullMerge merge empty states) ∧
      chMergeStates merge empty states n = .ok (fullMerge merge empty states)) := by
  have hn0 : (n != 0) = true := by simp; omega
  rw [trMerge_eq, chMerge_eq]
  refine ⟨?_, ?_, ?_⟩
  · by_cases hl : states.length = n <;> simp [hl, hn0]
  · by_cases hl : states.length = n <;> simp [hl, hn0]
  · intro hl; simp [hl]

theorem C16_strict_count_off (states : List S) :
    trMergeStates merge empty states 0 = .ok (fullMerge merge empty states) ∧
    chMergeStates merge empty states 0 = .ok (fullMerge merge empty states) := by
  rw [trMerge_eq, chMerge_eq]; simp

/-- non-vacuity / test: three states, expected three -> merged; expected two -> ValueError -/
example : trMergeStates (· + ·) 0 [1, 2, 3] 3 = .ok 6 ∧ chMergeStates (· + ·) 0 [1, 2, 3] 3 = .ok 6 ∧
    trMergeStates (· + ·) 0 [1, 2, 3] 2 = .error .value ∧ chMergeStates (· + ·) 0 [1, 2, 3] 2 = .error .value :=
  ⟨rfl, rfl, rfl, rfl⟩

end StrictCount

/-! ## non-vacuity -/

/-- a complete fault-free run of two shards on two workers exists (the hypotheses of
`C16_sharded` / `C16_sharded_aggregate` are satisfiable) -/
example : ∃ s, IReach { env := fun _ _ => .ok, n := 2, nb := fun _ => 1, threshold := 0 } (IT.init 2 2) s ∧
    (s.outcome == some .returned && s.result == some (some [0, 1]) && s.yieldedB == [(0, 0), (1, 0)]) = true :=
  ireach_witness
    [.submit 0, .submit 1, .co 0 0 false, .co 0 0 false, .co 0 1 true, .co 0 0 false,
     .co 1 0 false, .co 1 0 false, .co 1 1 true, .co 1 0 false, .check 0, .check 0, .submit 0,
     .drain, .finish, .merge, .merge, .mergeStop] _ (by decide)

end MlModel.C16
