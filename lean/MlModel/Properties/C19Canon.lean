import MlModel.Lemmas.Rebatch
import MlModel.Lemmas.RebatchChunks
import MlModel.Properties.C19
/-!
# C19 — the re-batched stream is a *canonical form* of the row sequence

`C19_conserve` / `C19_sizes` say what the emitted stream contains and how it is cut.  Together they
determine the emitted columns completely, which this file states outright:

* `C19_input_batching_invariant` — two well-formed input streams that carry the same rows per
  column (however differently they are batched) are re-batched to the SAME column chunks, batch by
  batch: the output does not depend on where the input's batch boundaries fall.
* `C19_chunks` — every column of the output is cut exactly like `Chunked t` says: all emitted
  batches but the last have `t` rows, the last between 1 and `t`.
* `C19_rebatch_twice` — re-batching an already re-batched (un-padded) stream to any other target
  raises nothing and conserves every column; `C19_rebatch_twice_same` — the chunks emitted by
  `rebatch t₂ ∘ rebatch t₁` are the chunks `rebatch t₂` emits on the original stream.
* `C19_rebatch_idempotent` — re-batching to the same target twice changes no chunk.

`Chunked t L` (`Lemmas/RebatchChunks.lean`) is the vocabulary: `L` is a list of chunks, every one but the last of length `t`,
the last (if any) of length `1..t`.  `Chunked.unique`: such a cutting of a given flat list is unique.
-/
namespace MlModel.C19
open MlModel.Rebatch

variable {α : Type}

/-- The cutting of every column of the emitted stream: all batches but the last carry `t` rows,
the last `1..t` (exactly `t` when padding — `C19_sizes`). -/
theorem C19_chunks {t nc numColumns : Nat} (ht : 0 < t) (hnc : 0 < nc)
    (hcols : numColumns = nc ∨ numColumns = 0) (pad : Option α) {bs : List (Batch α)}
    (hwf : WF nc bs) {c : Nat} (hc : c < nc) :
    Chunked t ((run t numColumns pad bs).out.map (colRows · c)) := by
  obtain ⟨fin, m, hrun, hfull, _, hmt, h0, h1, _⟩ := run_spec ht hnc hcols pad hwf
  rw [hrun]; simp only [List.map_append]
  apply Chunked.of_full_append ht
  · intro x hx
    obtain ⟨b, hb, rfl⟩ := List.mem_map.mp hx
    exact (hfull b hb).colRows_len hc
  · rcases Nat.eq_zero_or_pos m with hm | hm
    · left; rw [h0 hm]; rfl
    · right
      obtain ⟨last, hl, hr⟩ := h1 hm
      refine ⟨colRows last c, by rw [hl]; rfl, ?_⟩
      rw [hr.colRows_len hc]
      cases pad <;> simp <;> omega

/-- **Independence of the input's batch boundaries.**  Two well-formed streams with the same rows
per column are re-batched to the same chunks, column by column and batch by batch. -/
theorem C19_input_batching_invariant {t nc numColumns numColumns' : Nat} (ht : 0 < t) (hnc : 0 < nc)
    (hcols : numColumns = nc ∨ numColumns = 0) (hcols' : numColumns' = nc ∨ numColumns' = 0)
    (pad : Option α) {bs bs' : List (Batch α)} (hwf : WF nc bs) (hwf' : WF nc bs')
    (hsame : ∀ c, c < nc → colConcat bs c = colConcat bs' c) {c : Nat} (hc : c < nc) :
    (run t numColumns pad bs).out.map (colRows · c)
      = (run t numColumns' pad bs').out.map (colRows · c) := by
  apply Chunked.unique ht _ _ (C19_chunks ht hnc hcols pad hwf hc) (C19_chunks ht hnc hcols' pad hwf' hc)
  have h1 := C19_conserve ht hnc hcols pad hwf hc
  have h2 := C19_conserve ht hnc hcols' pad hwf' hc
  have htot : totalRows bs = totalRows bs' := by
    rw [← length_colConcat hwf hnc, ← length_colConcat hwf' hnc, hsame 0 hnc]
  unfold colConcat at h1 h2
  rw [h1, h2, htot]
  congr 1
  exact hsame c hc

/-- Re-batching a re-batched (un-padded) stream to another target raises nothing and conserves
every column of the ORIGINAL stream. -/
theorem C19_rebatch_twice {t₁ t₂ nc n₁ n₂ : Nat} (ht₁ : 0 < t₁) (ht₂ : 0 < t₂) (hnc : 0 < nc)
    (hc₁ : n₁ = nc ∨ n₁ = 0) (hc₂ : n₂ = nc ∨ n₂ = 0) {bs : List (Batch α)} (hwf : WF nc bs) :
    (run t₂ n₂ none (run t₁ n₁ none bs).out).err = none ∧
    ∀ c, c < nc → colConcat (run t₂ n₂ none (run t₁ n₁ none bs).out).out c = colConcat bs c := by
  have hwf1 := C19_rect ht₁ hnc hc₁ (none : Option α) hwf
  refine ⟨C19_no_error ht₂ hnc hc₂ none hwf1, fun c hc => ?_⟩
  rw [C19_conserve ht₂ hnc hc₂ none hwf1 hc, C19_conserve ht₁ hnc hc₁ none hwf hc]
  simp [padding]

/-- `rebatch t₂ ∘ rebatch t₁` emits the chunks `rebatch t₂` emits on the original stream. -/
theorem C19_rebatch_twice_same {t₁ t₂ nc n₁ n₂ n₃ : Nat} (ht₁ : 0 < t₁) (ht₂ : 0 < t₂) (hnc : 0 < nc)
    (hc₁ : n₁ = nc ∨ n₁ = 0) (hc₂ : n₂ = nc ∨ n₂ = 0) (hc₃ : n₃ = nc ∨ n₃ = 0)
    {bs : List (Batch α)} (hwf : WF nc bs) {c : Nat} (hc : c < nc) :
    (run t₂ n₂ none (run t₁ n₁ none bs).out).out.map (colRows · c)
      = (run t₂ n₃ none bs).out.map (colRows · c) := by
  have hwf1 := C19_rect ht₁ hnc hc₁ (none : Option α) hwf
  refine C19_input_batching_invariant ht₂ hnc hc₂ hc₃ none hwf1 hwf (fun c hc => ?_) hc
  rw [C19_conserve ht₁ hnc hc₁ none hwf hc]; simp [padding]

/-- Re-batching to the same target a second time changes no chunk. -/
theorem C19_rebatch_idempotent {t nc n₁ n₂ : Nat} (ht : 0 < t) (hnc : 0 < nc)
    (hc₁ : n₁ = nc ∨ n₁ = 0) (hc₂ : n₂ = nc ∨ n₂ = 0)
    {bs : List (Batch α)} (hwf : WF nc bs) {c : Nat} (hc : c < nc) :
    (run t n₂ none (run t n₁ none bs).out).out.map (colRows · c)
      = (run t n₁ none bs).out.map (colRows · c) :=
  C19_rebatch_twice_same ht ht hnc hc₁ hc₂ hc₁ hwf hc

/-! ## Non-vacuity (concrete instances) -/

/-- the same 6 rows as `sampleStream`, cut 2 + 4 instead of 5 + 1 -/
def sampleStream' : List (Batch Nat) :=
  [[⟨.list, [0, 1]⟩, ⟨.array, [10, 11]⟩], [⟨.list, [2, 3, 4, 5]⟩, ⟨.array, [12, 13, 14, 15]⟩]]

-- hypotheses of `C19_input_batching_invariant` hold for two differently batched streams
example : WF 2 sampleStream ∧ WF 2 sampleStream' ∧ sampleStream ≠ sampleStream' ∧
    ∀ c, c < 2 → colConcat sampleStream c = colConcat sampleStream' c := by decide
-- ... and its conclusion on them is not an equation between empty lists (test, target 4)
example : (run 4 0 none sampleStream).out.map (colRows · 1) = [[10, 11, 12, 13], [14, 15]] ∧
    (run 4 2 none sampleStream').out.map (colRows · 1) = [[10, 11, 12, 13], [14, 15]] := by
  decide +kernel
-- `Chunked` accepts / rejects what it should
example : Chunked 2 [[1, 2], [3, 4], [5]] ∧ ¬ Chunked 2 [[1], [2, 3]] ∧ ¬ Chunked 2 [[1, 2], ([] : List Nat)] ∧
    ¬ Chunked 2 [[1, 2, 3]] := by simp [Chunked]

end MlModel.C19
