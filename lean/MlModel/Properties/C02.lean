import MlModel.Lemmas.PipeAggResult
import MlModel.Lemmas.PipeAggInst
import MlModel.Lemmas.PipeAggExtra
import MlModel.Lemmas.PipeAggDtype
import MlModel.Lemmas.PipeAggCarry
/-!
# C02 — pipeline aggregation and slicing equal a brute-force group-by

Model: `Model/PipeAgg.lean` (`aggResult P bs` = what
`TreeTransform…aggregate(..).add_aggregate(..).add_slice(..).make().iterate(bs).agg_result` reports).
Vocabulary of the statements: `Lemmas/PipeAggDefs.lean`
(`inSlice`, `Slicer.featRows`, `groupRows`, `replaceRows`, `occursIn`, `sliceRows`, `sliceKeysOf`, `RowWise`, `Agg.outputAt`).

Everything is stated for **every** pipeline `P` accepted by the builder (`P.WF`: distinct output keys,
distinct non-empty slicer names), **every** finite stream of batches `bs` (empty stream, empty
batches, slices that first occur in a late batch included), every aggregate given as an abstract
**lawful** `Mergeable` (the C01 interface; `Lawful a.m Eqv`), every user slice function / mask function.
The hypothesis `aggResult P bs = .ok res` says that the real run raised nothing; which runs raise is
part of the model (`Except`) and is tied to the code by the correspondence.

* `C02_unsliced`            `agg_result[out_i]` = output `i` of `result (ofBatch (all selected rows))`
* `C02_slice_keys`          the reported keys are exactly: every output key unsliced, and — for aggregates
                            with slicing enabled — under every slice key some slicer yields for some batch
* `C02_slice_keys_rows`     … which for the built-in slicers are the slice values of the rows, none else
* `C02_slices_masked`       every slicer kind (incl. `slice_mask_fn`, filter / replace): the entry is the one-shot
                            aggregate of the masked inputs of the `(k, masks)` pairs the slicer yields
* `C02_slices`              row-level slicers (single feature, cross, `within_values`, fan-out `slice_fn`), filter
                            mode: the entry is the one-shot aggregate of the rows of the stream that belong to the slice
* `C02_slices_replace_partial`  replace mode: as the code behaves (finding F-C02-replace-absent); the
                            batch-independent statement holds when the slice occurs in every batch
                            (`C02_slices_replace_every_batch`); counter-example in `Witness/C02.lean`
* `C02_slices_replace_typed_partial`  the same for a decoder that is row-wise only on inputs numpy does not convert
                            (string / bool replacement values: `RowWiseReplOn`, `Val.StrSafe`)
* `C02_slices_replace_nonempty_batches`  the batch-independent form needs the slice value only in the batches
                            that have rows (empty batches never matter): narrows F-C02-replace-absent
* `C02_replace_exact_np`, `C02_replaced_row_is_value`, `C02_replace_plain_safe`, `C02_replace_exact_list`,
  `C02_replace_exact_ndarray_listmask`
                            values are heterogeneous scalars (int | float | str | bool | None): in replace mode every
                            replaced entry is EXACTLY the replacement value and every kept entry is untouched — for the
                            numpy path whenever numpy's common dtype is not a string dtype forced on non-strings (always for
                            int / float / None values), for list columns under list masks always.  A model of an
                            implementation that casts the value into the column's dtype violates it (`Witness/C02.lean`)
* `C02_slicer_independence` unsliced entries do not depend on the slicer set; a slicer's entries do not depend
                            on the other slicers
* `C02_disable_slicing`, `C02_empty_stream`
* `C02_default_slices`, `C02_within_slices`  what the built-in slice functions select
* `C02_run_no_key_error`     started from `create_state`, `update_state` never takes its `KeyError` branch: the stream
                            fails exactly when, and with the error with which, the first failing batch does
* `C02_builder_wf`           a pipeline that passes the builder's duplicate checks is well-formed (`P.WF`)
* `C02_carried_state`, `C02_carried_state_rest`, `C02_init_keeps_every_key`, `C02_update_state_fold`,
  `C02_carried_state_chain`, `C02_carried_state_slices`  (round 10) an aggregation state with DYNAMIC keys handed back to
                            the code (`iterate(rest, state=prev.agg_state)`, folding `ChainedRunner.update_state`, the union
                            state of a chain): `_RunnerIterator.__init__`'s filter keeps EVERY entry of a state the runner
                            produced — un-sliced or per-slice — so a stream consumed in any number of carried steps reports
                            exactly what one pass reports, and every theorem above holds for it verbatim
* `C02_statM_lawful`, `C02_decCols_rowWise`, `C02_decCols_rowWiseRepl`, `C02_decField_rowWise`  the concrete aggregate /
                            decoders of the tie satisfy the hypotheses (non-vacuity)
-/
namespace MlModel.C02
open MlModel MlModel.Agg MlModel.PipeAgg

variable {X S Rv : Type}

/-- **Unsliced result** = the aggregate applied once to all selected rows of the stream
(`rowss` = the selected rows batch by batch; for the empty stream `ofBatch []`). -/
theorem C02_unsliced {P : Pipeline X S Rv} (hWF : P.WF) {bs : List Batch} {res : Result Rv}
    (hrun : aggResult P bs = .ok res) {a : Agg X S Rv} (ha : a ∈ P.aggs)
    {Eqv : S → S → Prop} (hL : Lawful a.m Eqv) :
    ∃ rowss, mapE a.rowsOf bs = .ok rowss ∧
      ∀ i (hi : i < a.out.length),
        (∃ v, AList.get? res ⟨a.out[i], SliceKey.none⟩ = some v) ∧
        AList.get? res ⟨a.out[i], SliceKey.none⟩ = a.outputAt (a.m.ofBatch rowss.flatten) i := by
  obtain ⟨st, hst, hres⟩ := aggResult_ok hrun
  obtain ⟨rowss, hrows, hget⟩ := run_unsliced hWF hst ha
  refine ⟨rowss, hrows, fun i hi => ?_⟩
  have h1 := getResult_get? hWF (nodup_keys_run hst) hres ha SliceKey.none hi
  rw [hget] at h1
  simp only [Option.bind_some] at h1
  have hc := Agg.outputAt_congr (a := a) (hL.result_congr (hL.feed_eq rowss)) i
  obtain ⟨v, hv⟩ := getResult_outputs_ok hWF hres ha hget hi
  exact ⟨⟨v, by rw [h1, hv]⟩, by rw [h1, hc]⟩

/-- **No key invented, none dropped**: `agg_result` has an entry under `(metric, slice)` iff `metric`
is an output key of an aggregate `a` and either `slice` is the unsliced key, or `a` has slicing
enabled and some slicer yields `slice` for some batch of the stream. -/
theorem C02_slice_keys {P : Pipeline X S Rv} (hWF : P.WF) {bs : List Batch} {res : Result Rv}
    (hrun : aggResult P bs = .ok res) (rk : ResKey) :
    rk ∈ AList.keys res ↔
      ∃ a ∈ P.aggs, rk.metric ∈ a.out ∧
        (rk.slice = SliceKey.none ∨
          (a.noSlice = false ∧ ∃ sl ∈ P.slicers, ∃ b ∈ bs, rk.slice ∈ sliceKeysOf sl b)) := by
  obtain ⟨st, hst, hres⟩ := aggResult_ok hrun
  constructor
  · intro h
    obtain ⟨a, ha, hm, hk⟩ := getResult_keys hres rk h
    refine ⟨a, ha, hm, ?_⟩
    rcases (run_keys hst _).mp hk with ⟨a', _, he⟩ | ⟨a', ha', hns, hme, sl, hsl, b, hb, hkb⟩
    · left; injection he
    · right
      have : a' = a := eq_of_nodup_map (fun x : Agg X S Rv => x.out) hWF.outs_map_nodup ha' ha hme.symm
      subst this
      exact ⟨hns, sl, hsl, b, hb, hkb⟩
  · rintro ⟨a, ha, hm, hk⟩
    obtain ⟨i, hi, hie⟩ := List.getElem_of_mem hm
    have hkey : (⟨a.out, rk.slice⟩ : MetricKey) ∈ AList.keys st := by
      rw [run_keys hst]
      rcases hk with hk | ⟨hns, sl, hsl, b, hb, hkb⟩
      · left; exact ⟨a, ha, by rw [hk]⟩
      · right; exact ⟨a, ha, hns, rfl, sl, hsl, b, hb, hkb⟩
    rw [AList.mem_keys_iff] at hkey
    cases hs : AList.get? st ⟨a.out, rk.slice⟩ with
    | none => rw [hs] at hkey; cases hkey
    | some s =>
      have h1 := getResult_get? hWF (nodup_keys_run hst) hres ha rk.slice hi
      obtain ⟨v, hv⟩ := getResult_outputs_ok hWF hres ha hs hi
      rw [hs, Option.bind_some, hv] at h1
      rw [AList.mem_keys_iff]
      have : rk = ⟨a.out[i], rk.slice⟩ := by cases rk; simp only at hie ⊢; rw [hie]
      rw [this, h1]; rfl

/-- The slice keys of a **built-in (row-level) slicer** for one batch: the slicer's name with the
slice values that occur in some row of the batch — each once, no other. -/
theorem C02_slice_keys_rows {sl : Slicer} {f : List Val → Except ErrKind (List (List Int))}
    (hfn : sl.fn = .rows f) {b : Batch} {kms : List (SliceKey × List TopMask)}
    (hs : sl.slice b = .ok kms) (k : SliceKey) :
    (sliceKeysOf sl b).Nodup ∧
    (k ∈ sliceKeysOf sl b ↔
      k.features = sl.name ∧ ∃ row ∈ sl.featRows b, inSlice f k.values row = true) := by
  obtain ⟨h1, h2, _⟩ := rowSlicer_slice hfn hs
  unfold sliceKeysOf
  rw [hs]
  refine ⟨h1, ?_⟩
  rw [h2 k]
  unfold occursIn
  rw [List.any_eq_true]

/-- **Every slicer kind** (in particular `slice_mask_fn` with one mask for all inputs or one per input,
filter or replace semantics): if slice key `k` of slicer `sl` is reported, its value is the aggregate
applied once to the concatenation, over the batches, of the masked inputs (`sliceRows`) of the
`(k, masks)` pairs the slicer yields. -/
theorem C02_slices_masked {P : Pipeline X S Rv} (hWF : P.WF) {bs : List Batch} {res : Result Rv}
    (hrun : aggResult P bs = .ok res) {a : Agg X S Rv} (ha : a ∈ P.aggs) (hns : a.noSlice = false)
    {Eqv : S → S → Prop} (hL : Lawful a.m Eqv) {sl : Slicer} (hsl : sl ∈ P.slicers) {k : SliceKey}
    (hk : k.features = sl.name) :
    ∃ fedss, mapE (sliceRows a sl k) bs = .ok fedss ∧
      ∀ i (hi : i < a.out.length),
        AList.get? res ⟨a.out[i], k⟩ =
          if ∃ b ∈ bs, k ∈ sliceKeysOf sl b then a.outputAt (a.m.ofBatch fedss.flatten) i else none := by
  obtain ⟨st, hst, hres⟩ := aggResult_ok hrun
  obtain ⟨fedss, feeds, hfed, hflat, hget, hocc, _⟩ := run_sliced hWF hst ha hns hsl hk
  refine ⟨fedss, hfed, fun i hi => ?_⟩
  have h1 := getResult_get? hWF (nodup_keys_run hst) hres ha k hi
  rw [hget] at h1
  by_cases hf : feeds = []
  · have : ¬ ∃ b ∈ bs, k ∈ sliceKeysOf sl b := fun h => (hocc.mpr h) hf
    simp only [hf, if_true, Option.bind_none] at h1
    simp [this, h1]
  · have : ∃ b ∈ bs, k ∈ sliceKeysOf sl b := hocc.mp hf
    simp only [hf, if_false, Option.bind_some] at h1
    have hc := Agg.outputAt_congr (a := a) (hL.result_congr (hL.feed_eq feeds)) i
    simp only [this, if_true]
    rw [h1, hc, hflat]

/-- **Row-level slicers** (single feature, feature cross, `within_values`, fan-out `slice_fn`), filter
semantics: the value reported for slice `(sl.name, v)` is the aggregate applied once to exactly the
rows of the whole stream whose feature row belongs to the slice (`groupRows`: row `i` of the selected
inputs goes with row `i` of the features), however the rows are spread over the batches; if no row of
the stream is in the slice, nothing is reported. -/
theorem C02_slices {P : Pipeline X S Rv} (hWF : P.WF) {bs : List Batch} {res : Result Rv}
    (hrun : aggResult P bs = .ok res) {a : Agg X S Rv} (ha : a ∈ P.aggs) (hns : a.noSlice = false)
    {Eqv : S → S → Prop} (hL : Lawful a.m Eqv) (hdec : RowWise a.dec)
    {sl : Slicer} (hsl : sl ∈ P.slicers) {f : List Val → Except ErrKind (List (List Int))}
    (hfn : sl.fn = .rows f) (hrep : sl.replace = none) (v : List Int) :
    ∃ rowss, mapE a.rowsOf bs = .ok rowss ∧
      ∀ i (hi : i < a.out.length),
        AList.get? res ⟨a.out[i], ⟨sl.name, v⟩⟩ =
          if ∃ b ∈ bs, ∃ row ∈ sl.featRows b, inSlice f v row = true then
            a.outputAt (a.m.ofBatch
              (((bs.zip rowss).map fun p => groupRows f v (sl.featRows p.1) p.2).flatten)) i
          else none := by
  obtain ⟨rowss, hrows, _⟩ := C02_unsliced hWF hrun ha hL
  obtain ⟨fedss, hfed, hval⟩ := C02_slices_masked hWF hrun ha hns hL hsl (k := ⟨sl.name, v⟩) rfl
  refine ⟨rowss, hrows, fun i hi => ?_⟩
  have hz := mapE_zip_eq (fun (b : Batch) (rows : List X) => groupRows f v (sl.featRows b) rows)
    hrows hfed (by
      intro b rows fed _ h1 h2
      exact sliceRows_rowSlicer_filter hdec hfn hrep h1 v h2)
  have hcond : (∃ b ∈ bs, (⟨sl.name, v⟩ : SliceKey) ∈ sliceKeysOf sl b) ↔
      ∃ b ∈ bs, ∃ row ∈ sl.featRows b, inSlice f v row = true := by
    constructor
    · rintro ⟨b, hb, hk⟩
      obtain ⟨fed, hfb, _⟩ := mapE_ok_mem hfed hb
      unfold sliceRows at hfb
      cases hs : sl.slice b with
      | error e => simp [hs] at hfb
      | ok kms => exact ⟨b, hb, ((C02_slice_keys_rows hfn hs _).2.mp hk).2⟩
    · rintro ⟨b, hb, hrow⟩
      obtain ⟨fed, hfb, _⟩ := mapE_ok_mem hfed hb
      unfold sliceRows at hfb
      cases hs : sl.slice b with
      | error e => simp [hs] at hfb
      | ok kms => exact ⟨b, hb, (C02_slice_keys_rows hfn hs _).2.mpr ⟨rfl, hrow⟩⟩
  rw [hval i hi, hz]
  simp only [hcond]

/-- **Replace semantics for every kind of replacement value** (int, float, str, bool, `None`), as the code
behaves.  The decoder has to be row-wise only on argument lists satisfying `A`, and the aggregate's inputs
of every batch satisfy `A` — for the column decoder `A` = "numpy does not force a string dtype on
non-strings" (`C02_decCols_rowWiseReplOn`); outside `A` the kept rows are converted (finding
F-C02-replace-str-promote, `Witness/C02.lean`).  Conclusion as in `C02_slices_replace_partial`: every
replaced row is `rr row` (for `decCols`: every scalar of it exactly `r`, `C02_replaced_row_is_value`). -/
theorem C02_slices_replace_typed_partial {P : Pipeline X S Rv} (hWF : P.WF) {bs : List Batch} {res : Result Rv}
    (hrun : aggResult P bs = .ok res) {a : Agg X S Rv} (ha : a ∈ P.aggs) (hns : a.noSlice = false)
    {Eqv : S → S → Prop} (hL : Lawful a.m Eqv) {r : Scalar} {rr : X → X} {A : List Val → Prop}
    (hdec : RowWiseReplOn A a.dec r rr) (hA : ∀ b ∈ bs, ∀ args, a.inputs b = .ok args → A args)
    {sl : Slicer} (hsl : sl ∈ P.slicers) {f : List Val → Except ErrKind (List (List Int))}
    (hfn : sl.fn = .rows f) (hrep : sl.replace = some r) (v : List Int) :
    ∃ rowss, mapE a.rowsOf bs = .ok rowss ∧
      ∀ i (hi : i < a.out.length),
        AList.get? res ⟨a.out[i], ⟨sl.name, v⟩⟩ =
          if ∃ b ∈ bs, ∃ row ∈ sl.featRows b, inSlice f v row = true then
            a.outputAt (a.m.ofBatch
              (((bs.zip rowss).map fun p =>
                if occursIn f v (sl.featRows p.1) then replaceRows f v rr (sl.featRows p.1) p.2 else []).flatten)) i
          else none := by
  obtain ⟨rowss, hrows, _⟩ := C02_unsliced hWF hrun ha hL
  obtain ⟨fedss, hfed, hval⟩ := C02_slices_masked hWF hrun ha hns hL hsl (k := ⟨sl.name, v⟩) rfl
  refine ⟨rowss, hrows, fun i hi => ?_⟩
  have hz := mapE_zip_eq (fun (b : Batch) (rows : List X) =>
      if occursIn f v (sl.featRows b) then replaceRows f v rr (sl.featRows b) rows else [])
    hrows hfed (by
      intro b rows fed hb h1 h2
      exact sliceRows_rowSlicer_replace_on hdec hfn hrep (hA b hb) h1 v h2)
  have hcond : (∃ b ∈ bs, (⟨sl.name, v⟩ : SliceKey) ∈ sliceKeysOf sl b) ↔
      ∃ b ∈ bs, ∃ row ∈ sl.featRows b, inSlice f v row = true := by
    constructor
    · rintro ⟨b, hb, hk⟩
      obtain ⟨fed, hfb, _⟩ := mapE_ok_mem hfed hb
      unfold sliceRows at hfb
      cases hs : sl.slice b with
      | error e => simp [hs] at hfb
      | ok kms => exact ⟨b, hb, ((C02_slice_keys_rows hfn hs _).2.mp hk).2⟩
    · rintro ⟨b, hb, hrow⟩
      obtain ⟨fed, hfb, _⟩ := mapE_ok_mem hfed hb
      unfold sliceRows at hfb
      cases hs : sl.slice b with
      | error e => simp [hs] at hfb
      | ok kms => exact ⟨b, hb, (C02_slice_keys_rows hfn hs _).2.mpr ⟨rfl, hrow⟩⟩
  rw [hval i hi, hz]
  simp only [hcond]


/-- **Replace semantics** (`replace_mask_false_with = r`) of a row-level slicer, as the code behaves:
the entry aggregates, for every batch *in which the slice value occurs*, all selected rows of that
batch with the rows outside the slice replaced (`rr row`); batches in which it does not occur
contribute nothing.

Full-strength statement (brute-force group-by with replacement over the whole stream, i.e. the same
with `replaceRows` for **every** batch) is *false* in general — finding F-C02-replace-absent,
`Witness/C02.lean: C02_replace_absent_witness` — and holds under the hypothesis of
`C02_slices_replace_every_batch` below. -/
theorem C02_slices_replace_partial {P : Pipeline X S Rv} (hWF : P.WF) {bs : List Batch} {res : Result Rv}
    (hrun : aggResult P bs = .ok res) {a : Agg X S Rv} (ha : a ∈ P.aggs) (hns : a.noSlice = false)
    {Eqv : S → S → Prop} (hL : Lawful a.m Eqv) {r : Scalar} {rr : X → X} (hdec : RowWiseRepl a.dec r rr)
    {sl : Slicer} (hsl : sl ∈ P.slicers) {f : List Val → Except ErrKind (List (List Int))}
    (hfn : sl.fn = .rows f) (hrep : sl.replace = some r) (v : List Int) :
    ∃ rowss, mapE a.rowsOf bs = .ok rowss ∧
      ∀ i (hi : i < a.out.length),
        AList.get? res ⟨a.out[i], ⟨sl.name, v⟩⟩ =
          if ∃ b ∈ bs, ∃ row ∈ sl.featRows b, inSlice f v row = true then
            a.outputAt (a.m.ofBatch
              (((bs.zip rowss).map fun p =>
                if occursIn f v (sl.featRows p.1) then replaceRows f v rr (sl.featRows p.1) p.2 else []).flatten)) i
          else none := by
  exact C02_slices_replace_typed_partial hWF hrun ha hns hL (A := fun _ => True)
    (fun args rows bits args' _ h1 h2 => hdec args rows bits args' h1 h2) (fun _ _ _ _ => trivial) hsl hfn hrep v

/-- Replace semantics, batch-independent form: when the slice value occurs in **every** batch of the
(non-empty) stream, the entry is the aggregate of all selected rows of the stream with the rows outside the slice
replaced. -/
theorem C02_slices_replace_every_batch {P : Pipeline X S Rv} (hWF : P.WF) {bs : List Batch} {res : Result Rv}
    (hrun : aggResult P bs = .ok res) {a : Agg X S Rv} (ha : a ∈ P.aggs) (hns : a.noSlice = false)
    {Eqv : S → S → Prop} (hL : Lawful a.m Eqv) {r : Scalar} {rr : X → X} (hdec : RowWiseRepl a.dec r rr)
    {sl : Slicer} (hsl : sl ∈ P.slicers) {f : List Val → Except ErrKind (List (List Int))}
    (hfn : sl.fn = .rows f) (hrep : sl.replace = some r) (v : List Int)
    (hne : bs ≠ []) (hall : ∀ b ∈ bs, occursIn f v (sl.featRows b) = true) :
    ∃ rowss, mapE a.rowsOf bs = .ok rowss ∧
      ∀ i (hi : i < a.out.length),
        AList.get? res ⟨a.out[i], ⟨sl.name, v⟩⟩ =
          a.outputAt (a.m.ofBatch
            (((bs.zip rowss).map fun p => replaceRows f v rr (sl.featRows p.1) p.2).flatten)) i := by
  obtain ⟨rowss, hrows, hval⟩ := C02_slices_replace_partial hWF hrun ha hns hL hdec hsl hfn hrep v
  refine ⟨rowss, hrows, fun i hi => ?_⟩
  rw [hval i hi]
  have hex : ∃ b ∈ bs, ∃ row ∈ sl.featRows b, inSlice f v row = true := by
    cases bs with
    | nil => exact absurd rfl hne
    | cons b bs =>
      have := hall b List.mem_cons_self
      unfold occursIn at this
      rw [List.any_eq_true] at this
      exact ⟨b, List.mem_cons_self, this⟩
  simp only [hex, if_true]
  have : ((bs.zip rowss).map fun p =>
      if occursIn f v (sl.featRows p.1) then replaceRows f v rr (sl.featRows p.1) p.2 else []) =
      ((bs.zip rowss).map fun p => replaceRows f v rr (sl.featRows p.1) p.2) := by
    apply List.map_congr_left
    intro p hp
    rw [hall p.1 (List.of_mem_zip hp).1]
    rfl
  rw [this]

/-- Replace semantics, batch-independent form, **narrowed**: the slice value has to occur only in the batches
that have feature rows at all — empty batches contribute nothing to the brute-force group-by either.  So the
value reported for a replace-mode slice differs from the group-by with replacement over the whole stream
(finding F-C02-replace-absent) only if some NON-EMPTY batch lacks the slice value. -/
theorem C02_slices_replace_nonempty_batches {P : Pipeline X S Rv} (hWF : P.WF) {bs : List Batch} {res : Result Rv}
    (hrun : aggResult P bs = .ok res) {a : Agg X S Rv} (ha : a ∈ P.aggs) (hns : a.noSlice = false)
    {Eqv : S → S → Prop} (hL : Lawful a.m Eqv) {r : Scalar} {rr : X → X} (hdec : RowWiseRepl a.dec r rr)
    {sl : Slicer} (hsl : sl ∈ P.slicers) {f : List Val → Except ErrKind (List (List Int))}
    (hfn : sl.fn = .rows f) (hrep : sl.replace = some r) (v : List Int)
    (hex : ∃ b ∈ bs, occursIn f v (sl.featRows b) = true)
    (hall : ∀ b ∈ bs, sl.featRows b = [] ∨ occursIn f v (sl.featRows b) = true) :
    ∃ rowss, mapE a.rowsOf bs = .ok rowss ∧
      ∀ i (hi : i < a.out.length),
        AList.get? res ⟨a.out[i], ⟨sl.name, v⟩⟩ =
          a.outputAt (a.m.ofBatch
            (((bs.zip rowss).map fun p => replaceRows f v rr (sl.featRows p.1) p.2).flatten)) i := by
  obtain ⟨rowss, hrows, hval⟩ := C02_slices_replace_partial hWF hrun ha hns hL hdec hsl hfn hrep v
  refine ⟨rowss, hrows, fun i hi => ?_⟩
  rw [hval i hi]
  have hex' : ∃ b ∈ bs, ∃ row ∈ sl.featRows b, inSlice f v row = true := by
    obtain ⟨b, hb, ho⟩ := hex
    unfold occursIn at ho
    rw [List.any_eq_true] at ho
    exact ⟨b, hb, ho⟩
  simp only [hex', if_true]
  have : ((bs.zip rowss).map fun p =>
      if occursIn f v (sl.featRows p.1) then replaceRows f v rr (sl.featRows p.1) p.2 else []) =
      ((bs.zip rowss).map fun p => replaceRows f v rr (sl.featRows p.1) p.2) := by
    apply List.map_congr_left
    intro p hp
    rcases hall p.1 (List.of_mem_zip hp).1 with he | ho
    · rw [he]; simp [occursIn, replaceRows]
    · rw [ho]; rfl
  rw [this]

/-- **Slicer independence.**  Two pipelines with the same aggregates and arbitrary slicer sets, run
on the same stream: (1) every unsliced entry is identical; (2) the entries of a slicer that both
pipelines contain are identical (present or absent alike), whatever the other slicers are. -/
theorem C02_slicer_independence {aggs : List (Agg X S Rv)} {slicers slicers' : List Slicer}
    (hWF : (Pipeline.mk aggs slicers).WF) (hWF' : (Pipeline.mk aggs slicers').WF)
    {bs : List Batch} {res res' : Result Rv}
    (hrun : aggResult ⟨aggs, slicers⟩ bs = .ok res) (hrun' : aggResult ⟨aggs, slicers'⟩ bs = .ok res')
    {a : Agg X S Rv} (ha : a ∈ aggs) {i : Nat} (hi : i < a.out.length) :
    AList.get? res ⟨a.out[i], SliceKey.none⟩ = AList.get? res' ⟨a.out[i], SliceKey.none⟩ ∧
    ∀ sl ∈ slicers, sl ∈ slicers' → ∀ k : SliceKey, k.features = sl.name →
      AList.get? res ⟨a.out[i], k⟩ = AList.get? res' ⟨a.out[i], k⟩ := by
  obtain ⟨st, hst, hres⟩ := aggResult_ok hrun
  obtain ⟨st', hst', hres'⟩ := aggResult_ok hrun'
  have g := getResult_get? hWF (nodup_keys_run hst) hres ha
  have g' := getResult_get? hWF' (nodup_keys_run hst') hres' ha
  constructor
  · obtain ⟨rowss, h1, h2⟩ := run_unsliced hWF hst ha
    obtain ⟨rowss', h1', h2'⟩ := run_unsliced hWF' hst' ha
    rw [h1] at h1'; cases h1'
    rw [g SliceKey.none hi, g' SliceKey.none hi, h2, h2']
  · intro sl hsl hsl' k hk
    rw [g k hi, g' k hi]
    by_cases hns : a.noSlice = true
    · have hkne : k ≠ SliceKey.none := by
        intro e; rw [e] at hk; exact hWF.names_ne sl hsl hk.symm
      rw [run_noSlice hWF hst ha hns hkne, run_noSlice hWF' hst' ha hns hkne]
    · have hns' : a.noSlice = false := by simpa using hns
      obtain ⟨_, feeds, _, _, h2, _, h3⟩ := run_sliced hWF hst ha hns' hsl hk
      obtain ⟨_, feeds', _, _, h2', _, h3'⟩ := run_sliced hWF' hst' ha hns' hsl' hk
      rw [h2, h2', h3, h3']

/-- **`disable_slicing`**: an aggregate with slicing disabled reports nothing under any slice key. -/
theorem C02_disable_slicing {P : Pipeline X S Rv} (hWF : P.WF) {bs : List Batch} {res : Result Rv}
    (hrun : aggResult P bs = .ok res) {a : Agg X S Rv} (ha : a ∈ P.aggs) (hns : a.noSlice = true)
    {k : SliceKey} (hk : k ≠ SliceKey.none) {i : Nat} (hi : i < a.out.length) :
    AList.get? res ⟨a.out[i], k⟩ = none := by
  obtain ⟨st, hst, hres⟩ := aggResult_ok hrun
  rw [getResult_get? hWF (nodup_keys_run hst) hres ha k hi, run_noSlice hWF hst ha hns hk]
  rfl

/-- **Empty stream**: every aggregate reports the result of a fresh accumulator, and there is no
sliced entry. -/
theorem C02_empty_stream {P : Pipeline X S Rv} (hWF : P.WF) {res : Result Rv}
    (hrun : aggResult P [] = .ok res) {a : Agg X S Rv} (ha : a ∈ P.aggs) {i : Nat} (hi : i < a.out.length) :
    AList.get? res ⟨a.out[i], SliceKey.none⟩ = a.outputAt a.m.empty i ∧
    ∀ k, k ≠ SliceKey.none → AList.get? res ⟨a.out[i], k⟩ = none := by
  obtain ⟨st, hst, hres⟩ := aggResult_ok hrun
  have hst' : st = createState P := by
    simp only [run, runFrom] at hst; cases hst; rfl
  subst hst'
  have g := getResult_get? hWF (nodup_keys_createState P) hres ha
  constructor
  · rw [g SliceKey.none hi, get?_createState_unsliced hWF ha]; rfl
  · intro k hk
    rw [g k hi, get?_createState_sliced P _ _ hk]; rfl

/-- **Default slicer** (`add_slice('a')`, `add_slice(('a','b'))`): a row is in exactly one slice — the
tuple of its feature values. -/
theorem C02_default_slices (v : List Int) (row : List Val) :
    inSlice defaultFn v row = true ↔ mapE Val.asKey row = .ok v :=
  inSlice_defaultFn v row

/-- **`within_values`** (`add_slice({'a': (1, 3), 'b': (2,)})`): the same, restricted to the rows
every feature value of which is among the values requested for that feature. -/
theorem C02_within_slices (w : List (List Int)) (v : List Int) (row : List Val) :
    inSlice (withinFn w) v row = true ↔
      mapE Val.asKey row = .ok v ∧ v.length = w.length ∧
        (v.zip w).all (fun vw => vw.2.contains vw.1) = true :=
  inSlice_withinFn w v row

/-- **No `KeyError`, no hidden failure**: the run over a stream is "plan every batch (select, slice,
mask, decode — the only steps that can raise), then apply all state updates in order, starting from
`create_state`"; in particular the `KeyError` branch of `update_state` (transform.py:337-340) is
unreachable from `iterate()`, and a failing stream fails with the error of its first failing batch. -/
theorem C02_run_no_key_error (P : Pipeline X S Rv) (bs : List Batch) :
    run P bs =
      match mapE (plan P) bs with
      | .error e => .error e
      | .ok uss => .ok (uss.flatten.foldl Upd.apply (createState P)) :=
  run_eq P bs

/-- **The builder establishes well-formedness**: if `add_aggregate` / `add_slice` raised nothing
(`validate`), every aggregate lists distinct output keys (at least one) and every slicer is named,
then `P.WF` — the hypothesis of the theorems above. -/
theorem C02_builder_wf {P : Pipeline X S Rv} (h : P.validate = .ok ())
    (hout : ∀ a ∈ P.aggs, a.out.Nodup ∧ a.out ≠ []) (hname : ∀ sl ∈ P.slicers, sl.name ≠ []) : P.WF :=
  WF_of_validate h hout hname

/-! ### heterogeneous values: the replaced entry is exactly the replacement value -/

/-- **numpy path** (`np.where(mask[:, None, ..], column, r)`; row-level slicers, `np` masks), any kind of
column and of replacement value `r`: when numpy does not force a string dtype on non-strings
(`Val.StrSafe`), the result has one entry per row; where the bit is set it is the input row, untouched,
where it is clear it is `Val.fill r row`, all of whose scalars are exactly `r` (`C02_replaced_row_is_value`).
An implementation that writes `r` INTO the column's dtype (0.5 → 0, → True, `'<pad>'` → `'<'`) fails this:
`C02_casting_impl_witness`. -/
theorem C02_replace_exact_np {r : Scalar} {bits : List Bool} {xs : List Val} {y : Val}
    (hsafe : Val.StrSafe r (.seq true xs)) (h : applyNp (some r) bits xs = .ok y) :
    ∃ ys, y = .seq true ys ∧ ys.length = xs.length ∧ bits.length = xs.length ∧
      ∀ (i : Nat) (b : Bool) (x : Val), bits[i]? = some b → xs[i]? = some x →
        ys[i]? = some (if b = true then x else Val.fill r x) := by
  obtain ⟨rfl, hl⟩ := applyNp_some_exact hsafe h
  exact ⟨_, rfl, replBits_length _ _ _ hl, hl, fun i b x hb hx => replBits_getElem? _ bits xs i b x hb hx⟩

/-- every scalar of a replaced row is the replacement value itself — same kind, same value
(`0.5` stays the float 0.5 in an int column, `'<pad>'` keeps its length, `None` stays `None`) -/
theorem C02_replaced_row_is_value (r : Scalar) (x : Val) : ∀ s ∈ (Val.fill r x).scalars, s = r :=
  Val.fill_scalars r x

/-- int, float and `None` replacement values are exact on EVERY column (numpy promotes numerically, or to
`object`, or raises): no hypothesis on the column is needed -/
theorem C02_replace_plain_safe {r : Scalar} (hr : r.Plain) (x : Val) : x.StrSafe r :=
  Val.strSafe_of_plain hr x

/-- **Python-level path** (a `list` column under a list mask, tree.py:141-162), any kinds: the result is a
list with one element per input element — exactly the replacement value where the mask says `False`
(`None` included), the input element where it says `True`; numpy is not involved. -/
theorem C02_replace_exact_list {r : Scalar} {xs : List Val} {ms : List Mask} {y : Val}
    (h : applyMask (some r) (.seq false xs) (.seq ms) = .ok y) :
    ∃ ys, y = .seq false ys ∧ ys.length = xs.length ∧ ms.length = xs.length ∧
      ∀ i : Nat, (ms[i]? = some Mask.ff → ys[i]? = some r.toVal) ∧ (ms[i]? = some Mask.tt → ys[i]? = xs[i]?) := by
  obtain ⟨ys, h1, rfl⟩ := applyMask_list_ok h
  obtain ⟨h2, h3, h4⟩ := applySeq_replace_exact r xs ms ys h1
  exact ⟨ys, rfl, h2, h3, h4⟩

/-- **Element-wise path on an ndarray column** (list mask; the result is rebuilt by `np.asarray`): the same
exactness as for a list column whenever the dtype numpy infers for the result is not a string dtype forced
on non-strings (e.g. int column and 0.5, bool column and `None`, string column and `'<pad>'`). -/
theorem C02_replace_exact_ndarray_listmask {r : Scalar} {xs : List Val} {ms : List Mask} {y : Val}
    (h : applyMask (some r) (.seq true xs) (.seq ms) = .ok y)
    (hsafe : ∀ ys, applySeq (some r) xs ms = .ok ys →
      inferDType (scalarsList ys) ≠ .str ∨ ∀ s ∈ scalarsList ys, s.dtype = .str) :
    ∃ ys, y = .seq true ys ∧ ys.length = xs.length ∧ ms.length = xs.length ∧
      ∀ i : Nat, (ms[i]? = some Mask.ff → ys[i]? = some r.toVal) ∧ (ms[i]? = some Mask.tt → ys[i]? = xs[i]?) := by
  obtain ⟨ys, h1, rfl⟩ := applyMask_ndarray_ok h
  obtain ⟨h2, h3, h4⟩ := applySeq_replace_exact r xs ms ys h1
  rw [npCast_infer_id (hsafe ys h1)]
  exact ⟨ys, rfl, h2, h3, h4⟩

/-! ### non-vacuity: the hypotheses are met by the aggregate and the decoder used in the tie -/

/-- the concrete aggregate of the correspondence (`Stat`, any view) is lawful -/
theorem C02_statM_lawful {Rv : Type} (view : Stat → List Rv) : Lawful (statM view) Eq :=
  statM_lawful view

/-- the column decoder (`zip(*args)`) is row-wise in filter mode … -/
theorem C02_decCols_rowWise : RowWise decCols := decCols_rowWise

/-- … and in replace mode (an unselected row has every scalar replaced) -/
theorem C02_decCols_rowWiseRepl (r : Int) :
    RowWiseRepl decCols r (fun row : List Val => row.map (Val.fill r)) :=
  decCols_rowWiseRepl r ⟨by simp [Scalar.dtype], by simp [Scalar.dtype]⟩

/-- … for every int, float or `None` replacement value, on every column … -/
theorem C02_decCols_rowWiseRepl_plain (r : Scalar) (hr : r.Plain) :
    RowWiseRepl decCols r (fun row : List Val => row.map (Val.fill r)) := decCols_rowWiseRepl r hr

/-- … and for EVERY replacement value (strings and bools included) on columns numpy does not convert -/
theorem C02_decCols_rowWiseReplOn (r : Scalar) :
    RowWiseReplOn (fun args => ∀ x ∈ args, x.StrSafe r) decCols r
      (fun row : List Val => row.map (Val.fill r)) := decCols_rowWiseReplOn r

/-- the dict-field decoder (a `dict` / `SELF` input whose ndarray leaves are masked by broadcasting,
tree.py:181-189) is row-wise as well -/
theorem C02_decField_rowWise (k : String) : RowWise (decField k) := decField_rowWise k

/-! ## Carried-in aggregation states (`Model/PipeAggCarry.lean`)

A sliced aggregation state has dynamic keys.  When it is handed back — `iterate(rest, state=prev.agg_state)`,
`ChainedRunner.update_state(state, batch)` folded over the batches — `_RunnerIterator.__init__` filters it by
`k.metrics in runner.agg_fns`.  The seeded regression `C02-m6` (look the keys `MetricKey(output_key)` up instead)
keeps the un-sliced entries only: `Witness/C02.lean: C02_carried_unsliced_only_witness`. -/

/-- **`__init__` keeps EVERY key of a state this runner produced**, whether `create_state()` made it or
`update_state` added it for a slice value that showed up in some batch. -/
theorem C02_init_keeps_every_key {P : Pipeline X S Rv} {xs : List Batch} {st : State S}
    (h : run P xs = .ok st) : initFilter P st = st ∧ startState P (some st) = st :=
  ⟨initFilter_of_owned (owned_run h), startState_owned (owned_run h) (run_nil_createState h)⟩

/-- **Running the rest of the stream from a carried-in state = running the whole stream**: the whole
state map, hence every output key × every slice key (and the same failure, if a batch of the rest fails). -/
theorem C02_carried_state_rest {P : Pipeline X S Rv} {xs : List Batch} {st : State S}
    (h : run P xs = .ok st) (ys : List Batch) :
    iterateWith P (some st) ys = run P (xs ++ ys) ∧
      ∀ st', iterateWith P (some st) ys = .ok st' →
        ∀ mk, AList.get? st' mk = (run P (xs ++ ys)).toOption.bind (AList.get? · mk) := by
  have e : iterateWith P (some st) ys = run P (xs ++ ys) := by
    rw [iterateWith_run h]
    unfold run at h ⊢
    rw [runFrom_append, h]
  refine ⟨e, fun st' h' mk => ?_⟩
  rw [← e, h']; rfl

/-- **A stream consumed in any number of carried steps** (`iterate(part₀)`, then
`iterate(partᵢ, state=previous.agg_state)`) reports exactly what ONE `iterate` over the whole stream
reports — same keys, same values, same error — for every pipeline, every stream, every way of cutting
it (empty parts, a slice value seen only before / only after a hand-over included).  Every theorem of
this file about `aggResult P bs` therefore holds for the carried run (`C02_carried_state_slices`). -/
theorem C02_carried_state (P : Pipeline X S Rv) (parts : List (List Batch)) :
    carriedResult P parts = aggResult P parts.flatten := by
  unfold carriedResult aggResult
  rw [carried_eq_run]
  cases P.validate with
  | error e => rfl
  | ok u => cases run P parts.flatten <;> rfl

/-- folding `ChainedRunner.update_state` over the batches from `create_state()` and reading
`get_result(state)` = one pass (a new iterator is built from the carried state for EVERY batch) -/
theorem C02_update_state_fold (P : Pipeline X S Rv) (bs : List Batch) :
    foldResult P bs = aggResult P bs := by
  unfold foldResult aggResult
  rw [foldUpdate_eq_run]
  cases P.validate with
  | error e => rfl
  | ok u => cases run P bs <;> rfl

/-- The state of a CHAINED runner is the union of its stages' states and every stage is handed the
whole union: each stage takes back exactly its own state — per-slice entries included — wherever it
sits in the chain, provided the stages' output-key tuples are distinct. -/
theorem C02_carried_state_chain {P : Pipeline X S Rv} (qs₁ qs₂ : List (Pipeline X S Rv × State S))
    {xs : List Batch} {st : State S} (h : run P xs = .ok st)
    (h₁ : ∀ q ∈ qs₁, Owned q.1 q.2 ∧ OutsDisjoint P q.1)
    (h₂ : ∀ q ∈ qs₂, Owned q.1 q.2 ∧ OutsDisjoint P q.1) :
    initFilter P ((qs₁.map (·.2)).flatten ++ st ++ (qs₂.map (·.2)).flatten) = st :=
  initFilter_chain qs₁ qs₂ (owned_run h) h₁ h₂

/-- `C02_slices` for a carried run: the per-slice entry is the one-shot aggregate of exactly the rows of
the WHOLE stream (all parts) that belong to the slice. -/
theorem C02_carried_state_slices {P : Pipeline X S Rv} (hWF : P.WF) {parts : List (List Batch)} {res : Result Rv}
    (hrun : carriedResult P parts = .ok res) {a : Agg X S Rv} (ha : a ∈ P.aggs) (hns : a.noSlice = false)
    {Eqv : S → S → Prop} (hL : Lawful a.m Eqv) (hdec : RowWise a.dec)
    {sl : Slicer} (hsl : sl ∈ P.slicers) {f : List Val → Except ErrKind (List (List Int))}
    (hfn : sl.fn = .rows f) (hrep : sl.replace = none) (v : List Int) :
    ∃ rowss, mapE a.rowsOf parts.flatten = .ok rowss ∧
      ∀ i (hi : i < a.out.length),
        AList.get? res ⟨a.out[i], ⟨sl.name, v⟩⟩ =
          if ∃ b ∈ parts.flatten, ∃ row ∈ sl.featRows b, inSlice f v row = true then
            a.outputAt (a.m.ofBatch
              (((parts.flatten.zip rowss).map fun p => groupRows f v (sl.featRows p.1) p.2).flatten)) i
          else none :=
  C02_slices hWF (by rw [← C02_carried_state]; exact hrun) ha hns hL hdec hsl hfn hrep v


/-! ### non-vacuity: a concrete pipeline (two stacked aggregates, one with slicing disabled; a default,
a replace-mode and a `within_values` cross slicer; a stream in which slice `a = 2` first occurs in the third
batch and the second batch is empty) satisfies the hypotheses, runs, and reports what the theorems say
(tests, by evaluation) -/

/-- `StrSafe` is met: 0.5 / `None` into an int column, `'pad'` into a string column, `'pad'` into an object column;
and it is a real restriction: `'pad'` into an int column is not safe -/
example : (Scalar.flt 5 1).Plain ∧ Scalar.none.Plain ∧ ¬ (Scalar.str "pad").Plain := by decide
example : Val.StrSafe (.str "pad") (.seq true [.leaf (.str "a"), .leaf (.str "b")]) :=
  Or.inr ⟨rfl, by decide⟩
example : Val.StrSafe (.str "pad") (.seq true [.leaf 1, .null, .leaf (.str "b")]) := Or.inl (by decide)
example : Val.StrSafe (.bool true) (exCol [1, 2]) := Or.inl (by decide)
example : applyNp (some (.flt 5 1)) [true, false, true] [.leaf 1, .leaf 9, .leaf 5]
    = .ok (.seq true [.leaf 1, .leaf (.flt 5 1), .leaf 5]) := by rfl
example : applyNp (some (.str "<pad>")) [true, false] [.leaf (.str "a"), .leaf (.str "b")]
    = .ok (.seq true [.leaf (.str "a"), .leaf (.str "<pad>")]) := by rfl
example : applyNp (some .none) [false, true] [.seq true [.leaf 1, .leaf 2], .seq true [.leaf 3, .leaf 4]]
    = .ok (.seq true [.seq true [.null, .null], .seq true [.leaf 3, .leaf 4]]) := by rfl
example : applyMask (some (.flt 5 1)) (.seq false [.leaf 1, .leaf 9]) (.seq [.tt, .ff])
    = .ok (.seq false [.leaf 1, .leaf (.flt 5 1)]) := by
  simp [applyMask, applySeq, rewrap, Except.map, Scalar.toVal]

/-- an int ndarray column under a list mask with 0.5: numpy infers float64, nothing is converted -/
example : applyMask (some (.flt 5 1)) (.seq true [.leaf 1, .leaf 9]) (.seq [.tt, .ff])
    = .ok (.seq true [.leaf 1, .leaf (.flt 5 1)]) := by
  simp [applyMask, applySeq, rewrap, Except.map, Scalar.toVal, Val.shape?, shapes, npCast, inferDType,
    scalarsList, Val.scalars, Scalar.dtype, DType.infer]

example : exPipeline.WF := exPipeline_WF
example : exPipeline.validate = .ok () := rfl
example : exAgg ∈ exPipeline.aggs ∧ exAgg.noSlice = false ∧ Lawful exAgg.m Eq ∧ RowWise exAgg.dec :=
  ⟨by simp [exPipeline], rfl, statM_lawful _, decCols_rowWise⟩
example : (aggResult exPipeline exStream).toOption.isSome = true := by decide
/-- unsliced: sum 26 over 4 rows, whatever the batching -/
example : (aggResult exPipeline exStream).toOption.bind (AList.get? · ⟨"o", SliceKey.none⟩)
    = some (.one (.nums [(26, 1), (4, 1)])) := by decide
example : (aggResult exPipeline exStreamOne).toOption.bind (AList.get? · ⟨"o", SliceKey.none⟩)
    = some (.one (.nums [(26, 1), (4, 1)])) := by decide
/-- slice a = 1: rows 5, 6, 8 spread over two batches; slice a = 2 first seen in the last batch -/
example : (aggResult exPipeline exStream).toOption.bind (AList.get? · ⟨"o", ⟨["a"], [1]⟩⟩)
    = some (.one (.nums [(19, 1), (3, 1)])) := by decide
example : (aggResult exPipeline exStream).toOption.bind (AList.get? · ⟨"o", ⟨["a"], [2]⟩⟩)
    = some (.one (.nums [(7, 1), (1, 1)])) := by decide
/-- the restricted cross keeps (1,0) and (1,1) only -/
example : (aggResult exPipeline exStream).toOption.map (fun res => (AList.keys res).filter (·.slice.features = ["a", "b"]))
    = some [⟨"o", ⟨["a", "b"], [1, 0]⟩⟩, ⟨"o", ⟨["a", "b"], [1, 1]⟩⟩] := by decide
/-- the aggregate with `disable_slicing` reports its two output keys unsliced only -/
example : (aggResult exPipeline exStream).toOption.map (fun res => (AList.keys res).filter (·.metric = "q"))
    = some [⟨"q", SliceKey.none⟩] := by decide
/-- empty stream -/
example : (aggResult exPipeline []).toOption.map AList.keys
    = some [⟨"o", SliceKey.none⟩, ⟨"p", SliceKey.none⟩, ⟨"q", SliceKey.none⟩] := by decide

/-- carried states: the example stream consumed in two steps / batch by batch through `update_state` reports the
one-pass result; the state handed over after the first batch already holds per-slice entries -/
example : carriedResult exPipeline [exStream.take 1, exStream.drop 1] = aggResult exPipeline exStream := by
  rw [C02_carried_state]; rfl
example : ((run exPipeline (exStream.take 1)).toOption.map fun st => (AList.keys st).filter (·.slice ≠ SliceKey.none))
    = some [⟨["o"], ⟨["a"], [1]⟩⟩, ⟨["o"], ⟨["a0"], [1]⟩⟩, ⟨["o"], ⟨["a", "b"], [1, 0]⟩⟩] := by decide
example : (carriedResult exPipeline [exStream.take 1, exStream.drop 1]).toOption.bind (AList.get? · ⟨"o", ⟨["a"], [1]⟩⟩)
    = some (.one (.nums [(19, 1), (3, 1)])) := by decide

end MlModel.C02
