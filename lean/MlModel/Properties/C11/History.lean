import MlModel.Lemmas.AggHistory
import MlModel.Lemmas.AggMergeLaws
import MlModel.Properties.C01.History
import MlModel.Lemmas.AggHeapObs
/-!
# C11 — "reading a result is repeatable and does not disturb subsequent updates", for every history

The last sentence of C11 quantifies over "all interleavings of add/merge/result calls".  In
`Agg.Hist` the read is an operation of the history and is allowed to write into the object it
reads (`RMergeable.read : S → S × R` — a `functools.cached_property`, a lazily normalised field, …).
For every metric obeying the merge laws (`LawfulU`) whose read obeys the two LOCAL laws `ReadLaws`

    read_val : (read s).2 = result s          read_eqv : (read s).1 ≈ s

reads are **transparent** in every history over any number of accumulators:

* `C11_history_reads_transparent` : two histories with the same mutations in the same order —
  reads inserted, deleted or moved anywhere — cannot be told apart by any later read, and leave
  every accumulator in equivalent states (`C11_history_states_eqv`);
* `C11_history_read_erase` : deleting one read deletes exactly its own observation;
* `C11_history_read_commutes` : a read commutes with everything that follows it;
* `C11_history_read_repeatable` : two reads in a row return the same value.

The models of the four metric families have the pure read, which satisfies `ReadLaws` outright
(`C11_history_pure_read_laws`); what the real `result()` does to its object is tied to that by the
histories-with-reads check (harness/agg/histories.py, oracle "read-transparency").  A model of the
seeded regression C07-m3 (totals cached by the first read, not invalidated by an in-place merge)
breaks `read_eqv` for every equivalence that `result` respects: `Witness/C11History.lean`.
-/
namespace MlModel.C11
open MlModel.Agg MlModel.Agg.Hist

variable {X S R : Type} {m : RMergeable X S R} {Eqv : S → S → Prop}

/-- **Reads are transparent.**  Same mutations, any reads ⇒ every later read returns the same. -/
theorem C11_history_reads_transparent (hl : LawfulU m.toMergeable Eqv) (hr : ReadLaws m Eqv)
    {ops ops' : List (Op X)} (h : ops.filter Op.isMut = ops'.filter Op.isMut) (i : Nat) :
    m.result ((run m ops).accs i) = m.result ((run m ops').accs i) :=
  result_eq_of_same_mutations hl hr h i

/-- … and every accumulator is left in an equivalent state -/
theorem C11_history_states_eqv (hl : LawfulU m.toMergeable Eqv) (hr : ReadLaws m Eqv)
    {ops ops' : List (Op X)} (h : ops.filter Op.isMut = ops'.filter Op.isMut) (i : Nat) :
    Eqv ((run m ops).accs i) ((run m ops').accs i) :=
  accs_eqv_of_same_mutations hl hr h i

/-- **Deleting one read deletes exactly its own observation.** -/
theorem C11_history_read_erase (hl : LawfulU m.toMergeable Eqv) (hr : ReadLaws m Eqv)
    (pre post : List (Op X)) (i : Nat) :
    ∃ v rest, (run m (pre ++ Op.read i :: post)).obs = (run m pre).obs ++ v :: rest ∧
      (run m (pre ++ post)).obs = (run m pre).obs ++ rest :=
  ⟨_, _, read_erase hl hr pre post i⟩

/-- **A read commutes with everything that follows it**: the states after `pre; read i; post` and
after `pre; post` are equivalent, for every accumulator. -/
theorem C11_history_read_commutes (hl : LawfulU m.toMergeable Eqv) (hr : ReadLaws m Eqv)
    (pre post : List (Op X)) (i k : Nat) :
    Eqv ((run m (pre ++ Op.read i :: post)).accs k) ((run m (pre ++ post)).accs k) :=
  accs_eqv_of_same_mutations hl hr (by simp [List.filter_append, List.filter, Op.isMut]) k

/-- **Reading is repeatable**: two reads in a row return the same value. -/
theorem C11_history_read_repeatable (hl : LawfulU m.toMergeable Eqv) (hr : ReadLaws m Eqv)
    (pre : List (Op X)) (i : Nat) :
    ∃ v, (run m (pre ++ [Op.read i, Op.read i])).obs = (run m pre).obs ++ [v, v] := by
  refine ⟨m.result ((prov pre i).canon m.toMergeable), ?_⟩
  have := (read_erase hl hr pre [Op.read i] i).1
  simpa [obsP, readP, stepP] using this

/-- the read of the family models (pure `result`) obeys the read laws -/
theorem C11_history_pure_read_laws (m : Mergeable X S R) {Eqv : S → S → Prop} (hl : LawfulU m Eqv) :
    ReadLaws m.pureRead Eqv :=
  m.pureRead_laws Eqv hl.refl

/-! ## the heap models: `result()` writes nothing, for EVERY class obeying `HLawsR`

`Lemmas/AggHeapObs.lean` proves the frame for all operations but states the `result` case per
instance (ThrHeap, CmStateHeap, HistHeap).  Generic form: in every population reachable by any
interleaving of make / add / merge / result / poke, a `result()` on ANY accumulator leaves EVERY
accumulator — the one that is read included — with the same record and the same content in every
cell it references (it may only allocate).  This is the heap-level `read_eqv`.  (That the methods'
later behaviour depends on nothing but the record and those cells is the locality of the model's
method definitions; it is not part of `HLawsR` and is not claimed here.) -/

open MlModel.Agg.Heap in
theorem C11_history_heap_result_writes_nothing {C B : Type} [Inhabited C] {cls : HClassR C B}
    (laws : HLawsR cls) (ops : List (OpR B C)) (i j : Nat) (oj : cls.Obj)
    (hj : ((SysR.init cls).run ops).objs[j]? = some oj) :
    (((SysR.init cls).run ops).step (.result i)).objs[j]? = some oj ∧
      ∀ r ∈ (cls.fp oj).refs,
        (((SysR.init cls).run ops).step (.result i)).heap.read r = ((SysR.init cls).run ops).heap.read r :=
  frameR_step laws (InvR.run laws ops) (.result i) j oj hj (by simp [OpR.receiver])

/-! ## non-vacuity (tests): `LawfulU` + `ReadLaws` hold for a shipped model, and a concrete history -/

open MlModel.Agg.Rolling in
example : LawfulU meanState.pureRead.toMergeable Eq ∧ ReadLaws meanState.pureRead Eq :=
  ⟨meanState_lawful.toLawfulU, C11_history_pure_read_laws meanState meanState_lawful.toLawfulU⟩

open MlModel.Agg.Rolling in
example :
    ([.new 0, .new 1, .add 0 [1, 2], .read 0, .add 1 [6], .read 0, .merge 0 1, .read 1] : List (Op Rat)).filter
        Op.isMut = [.new 0, .new 1, .add 0 [1, 2], .add 1 [6], .merge 0 1] ∧
    meanState.result ((run meanState.pureRead
      [.new 0, .new 1, .add 0 [1, 2], .read 0, .add 1 [6], .read 0, .merge 0 1, .read 1]).accs 0) = 3 := by
  decide +kernel

end MlModel.C11
