import MlModel.Properties.C11.Retrieval
/-!
# C11 — retrieval family: `merge_states` over any number of accumulators writes the first one only

Object-level model `Model/Agg/RetrievalHeap.lean` (`MeanState` objects whose `total` is a number or an
ndarray cell written in place by `+=`).  `merge_states([a0, a1, …, an])` of the AggregateFn API
(base.py:195–200) is `a0.merge(a1); …; a0.merge(an)`; `TopKRetrieval.merge` merges, metric by metric,
the receiver's `MeanState` with the operand's (retrieval.py:607–609).  So the call is a sequence of
object-level `Op.merge (recv k) (oper j k)` whose targets are all `MeanState`s of the FIRST accumulator.
After any history, every other `MeanState` — those of the merged-in accumulators at every position,
never-updated ones, bystanders — has the value it had.
-/
namespace MlModel.C11
open MlModel.Agg.Retrieval MlModel.Agg.Retrieval.Heap

/-- `merge_states` over single `MeanState` objects: `objs[i].merge(objs[j])` for `j` in `js` -/
theorem C11_merge_states_retrieval_mean_writes_first_only (ops : List Op) (nk i : Nat) (js : List Nat)
    (l : Nat) (hl : l < (World.empty.run ops).objs.length) (hne : l ≠ i) :
    ((World.empty.run ops).run (js.map (Op.merge i))).cell nk l = (World.empty.run ops).cell nk l := by
  refine C11_retrieval_no_leak _ nk _ (C11_retrieval_separation ops) l hl (fun op hm => ?_)
  obtain ⟨j, _, rfl⟩ := List.mem_map.mp hm
  simp only [Op.target]
  exact fun e => hne (Option.some.inj e).symm

/-- `merge_states` over `TopKRetrieval` accumulators with `nm` metrics: `recv k` is the first
accumulator's k-th `MeanState`, `oper j k` the k-th one of the j-th listed accumulator -/
theorem C11_merge_states_retrieval_topk_writes_first_only (ops : List Op) (nk nm : Nat) (recv : Nat → Nat)
    (oper : Nat → Nat → Nat) (js : List Nat) (l : Nat) (hl : l < (World.empty.run ops).objs.length)
    (hne : ∀ k, k < nm → l ≠ recv k) :
    ((World.empty.run ops).run
        (js.flatMap fun j => (List.range nm).map fun k => Op.merge (recv k) (oper j k))).cell nk l
      = (World.empty.run ops).cell nk l := by
  refine C11_retrieval_no_leak _ nk _ (C11_retrieval_separation ops) l hl (fun op hm => ?_)
  obtain ⟨j, _, hm2⟩ := List.mem_flatMap.mp hm
  obtain ⟨k, hk, rfl⟩ := List.mem_map.mp hm2
  simp only [Op.target]
  exact fun e => hne k (List.mem_range.mp hk) (Option.some.inj e).symm

end MlModel.C11
