import MlModel.Lemmas.CmStateMS
import MlModel.Lemmas.CmStateHeap
/-!
# C11 — the n-ary `merge_states` loops, statement by statement, are the population operation

`Properties/C11/MergeStates.lean` proves "only the first state is written" for `Sys.mergeStates`, the
fold of binary merges into the first listed accumulator.  Here the two shipped loops are tied to it:

* `C11_merge_states_is_the_loop_on_objects` (every class): on distinct existing accumulators
  `Sys.mergeStates` is `for state in iter_states: result.merge(state)` (base.py:198–199) run on the
  listed object records — the heap it leaves, the receiver's final record in the first slot, every
  other slot untouched;
* `C11_classification_merge_states_n_eq_fold`: the loop of `ConfusionMatrixAggFn.merge_states`
  (classification.py:651–660: skip `None`, first non-`None` state itself iff it is the FIRST of the
  list else a deep copy, then `+=`) over any list = the left fold of its two-state form
  (`Model/Agg/CmStateHeap.lean`), and `C11_classification_merge_states_n_is_population_op`: that is
  what `Sys.mergeStates` computes on a population of states;
* `C11_classification_merge_states_n_writes_first_only`: hence the n-ary confusion-matrix loop leaves
  every listed state but the first, and every bystander, with its object and its four arrays.
-/
namespace MlModel.C11
open MlModel.Agg.Heap

/-- **the population operation is the Python loop on the listed objects**, for every class -/
theorem C11_merge_states_is_the_loop_on_objects {C B : Type} {cls : HClass C B} (σ : Sys cls) (i : Nat)
    (js : List Nat) (s : cls.Obj) (hi : σ.objs[i]? = some s) (hjs : ∀ j ∈ js, j ≠ i ∧ j < σ.objs.length) :
    σ.mergeStates (i :: js) =
      ⟨(foldMerge cls (σ.heap, s) (js.map fun j => (σ.objs[j]?).getD s)).1,
       σ.objs.set i (foldMerge cls (σ.heap, s) (js.map fun j => (σ.objs[j]?).getD s)).2⟩ :=
  mergeInto_eq_foldMerge i js σ s hi hjs

open MlModel.Agg.Confusion.SH

/-- the confusion-matrix loop over any list = the left fold of the two-state call; an empty list returns `None` -/
theorem C11_classification_merge_states_n_eq_fold (h : Heap Cell) (s : St) (rest : List St) :
    mergeStatesN h (s :: rest) = foldBinary (h, s) rest ∧ mergeStatesN h [] = (h, none) :=
  ⟨mergeStatesN_cons h s rest, rfl⟩

/-- … and that fold is the population operation: `s[i] = fn.merge_states([s[i], s[j1], s[j2], …])` -/
theorem C11_classification_merge_states_n_is_population_op (σ : Sys (cls true).toHClass) (i : Nat)
    (js : List Nat) (s : St) (hi : σ.objs[i]? = some s) (hjs : ∀ j ∈ js, j ≠ i ∧ j < σ.objs.length) :
    σ.mergeStates (i :: js) =
      ⟨(mergeStatesN σ.heap (s :: js.map fun j => (σ.objs[j]?).getD s)).1,
       σ.objs.set i (mergeStatesN σ.heap (s :: js.map fun j => (σ.objs[j]?).getD s)).2⟩ := by
  rw [mergeStatesN_cons]
  exact mergeInto_eq_foldMerge i js σ s hi hjs

/-- **the n-ary confusion-matrix loop writes the first state only**: after any history, calling the
loop on the states numbered `i :: js` leaves every state `k ≠ i` — merged-in or bystander, `None` or
not — with its object and the content of its four count arrays -/
theorem C11_classification_merge_states_n_writes_first_only (ops : List (OpRM Batch Cell)) (i : Nat)
    (js : List Nat) (s : St) (k : Nat) (sk : St)
    (hi : ((SysR.init (cls true)).runM ops).objs[i]? = some s)
    (hjs : ∀ j ∈ js, j ≠ i ∧ j < ((SysR.init (cls true)).runM ops).objs.length)
    (hk : ((SysR.init (cls true)).runM ops).objs[k]? = some sk) (hne : k ≠ i) :
    let σ := (SysR.init (cls true)).runM ops
    let states : List St := s :: js.map fun j => (σ.objs[j]?).getD s
    absSt (mergeStatesN σ.heap states).1 sk = absSt σ.heap sk := by
  intro σ states
  have inv := InvR.runM laws ops
  have hpop := C11_classification_merge_states_n_is_population_op σ.base i js s hi hjs
  obtain ⟨_, h2⟩ := frame_mergeStates laws.base inv.sep (i :: js) k sk hk
    (by simp only [List.head?_cons]; exact fun e => hne (Option.some.inj e).symm)
  have hheap : (σ.base.mergeStates (i :: js)).heap = (mergeStatesN σ.heap states).1 := by rw [hpop]; rfl
  rw [← hheap]
  cases sk with
  | none => rfl
  | some a =>
    have m : ∀ r ∈ a.refs, r ∈ ((cls true).fp (some a)).refs := fun r h => by
      show r ∈ (⟨a.refs, []⟩ : Footprint).refs
      simpa [Footprint.refs] using h
    simp only [absSt, readCM]
    rw [h2 _ (m _ (by simp [CM.refs])), h2 _ (m _ (by simp [CM.refs])), h2 _ (m _ (by simp [CM.refs])),
      h2 _ (m _ (by simp [CM.refs]))]
    rfl

/-- (test) `merge_states([None, a, None, b])`: the result is a copy holding a + b; a and b keep theirs -/
example :
    let h : Heap Cell := ⟨[[1], [2], [3], [4], [10], [20], [30], [40]]⟩
    let a : CM := ⟨0, 1, 2, 3⟩
    let b : CM := ⟨4, 5, 6, 7⟩
    let r := mergeStatesN h [none, some a, none, some b]
    r.2 = some ⟨8, 9, 10, 11⟩ ∧ absSt r.1 r.2 = some ⟨[11], [22], [33], [44]⟩ ∧
    absSt r.1 (some a) = some ⟨[1], [2], [3], [4]⟩ ∧ absSt r.1 (some b) = some ⟨[10], [20], [30], [40]⟩ := by
  decide +kernel

end MlModel.C11
