import MlModel.Lemmas.GenWiringLemmas
/-!
# C11 — the confusion-matrix state operations, read off the source on every run

`Generated/Wiring.lean` (translate/wiring.py) holds `_ConfusionMatrix.__iadd__` / `__add__` as field-wise sums
(`Wiring.CM.iadd`, `Wiring.CM.add`: which count of which operand goes into which count, constructor arguments
resolved through `__init__`), `ConfusionMatrixAggFn.update_state` (`Wiring.updateState`: operand order, what an
absent state means), one iteration of the loop of `merge_states` (`Wiring.mergeStep`: `None` states skipped, the
first state taken by reference or by copy, later ones `+=`-ed) and its guard (`Wiring.mergeGuard`).
The theorems say that these ARE the hand model's `CMArr.iadd` / `CMArr.add` / `updateState` / `mergeStates`
(the functions all C01 / C11 classification theorems are about).
-/
set_option linter.unusedSimpArgs false
namespace MlModel.C11
open MlModel.Generated MlModel.Generated.Wiring MlModel.GenWiring MlModel.Agg.Confusion

/-- `+=` on 0-d count arrays (micro / binary average) is the generated field-wise sum -/
theorem C11_gen_cm_iadd_scalar (a b : CM Int) :
    CMArr.iadd (ofCM a) (ofCM b) = .ok (ofCM (Wiring.CM.iadd a b)) := by
  simp [CMArr.iadd, ofCM, Wiring.CM.iadd, Arr.iaddB, Arr.zipWithB, Arr.shape, bind, Except.bind, pure, Except.pure]

/-- `+` on 0-d count arrays is the generated field-wise sum of the NEW matrix -/
theorem C11_gen_cm_add_scalar (a b : CM Int) :
    CMArr.add (ofCM a) (ofCM b) = .ok (ofCM (Wiring.CM.add a b)) := by
  simp [CMArr.add, ofCM, Wiring.CM.add, Arr.zipWithB, bind, Except.bind, pure, Except.pure]

/-- `+=` on per-class (macro) / per-k (top-k) count vectors of equal length: cell by cell the generated sum -/
theorem C11_gen_cm_iadd_vector (xs ys : List (CM Int)) (h : xs.length = ys.length) :
    CMArr.iadd (ofCMs xs) (ofCMs ys) = .ok (ofCMs (List.zipWith Wiring.CM.iadd xs ys)) := by
  simp [CMArr.iadd, ofCMs, Wiring.CM.iadd, Arr.iaddB, Arr.zipWithB, Arr.shape, bcast1, h, bind, Except.bind, pure,
    Except.pure, Functor.map, Except.map, List.zipWith_map, List.map_zipWith, List.length_zipWith]

/-- `+` on count vectors of equal length -/
theorem C11_gen_cm_add_vector (xs ys : List (CM Int)) (h : xs.length = ys.length) :
    CMArr.add (ofCMs xs) (ofCMs ys) = .ok (ofCMs (List.zipWith Wiring.CM.add xs ys)) := by
  simp [CMArr.add, ofCMs, Wiring.CM.add, Arr.zipWithB, bcast1, h, bind, Except.bind, pure,
    Except.pure, Functor.map, Except.map, List.zipWith_map, List.map_zipWith]

/-- the generated sums are commutative and `__add__` computes what `__iadd__` leaves in the receiver: the order
`cm + state` of `update_state` and the choice `+` / `+=` are invisible in the counts -/
theorem C11_gen_cm_add_comm (a b : CM Int) :
    Wiring.CM.add a b = Wiring.CM.add b a ∧ Wiring.CM.iadd a b = Wiring.CM.iadd b a ∧
    Wiring.CM.add a b = Wiring.CM.iadd a b := by
  refine ⟨?_, ?_, rfl⟩ <;> simp [Wiring.CM.add, Wiring.CM.iadd, Int.add_comm]

/-- the generated sums are associative (any bracketing of merges gives the same counts) -/
theorem C11_gen_cm_iadd_assoc (a b c : CM Int) :
    Wiring.CM.iadd (Wiring.CM.iadd a b) c = Wiring.CM.iadd a (Wiring.CM.iadd b c) := by
  simp [Wiring.CM.iadd, Int.add_assoc]

/-- **`update_state` as translated = the hand model's `updateState`**: the new batch's matrix, `cm + state` when there
is a state, the matrix itself when the state is still `create_state()` -/
theorem C11_gen_cm_update_state (c : Cfg) (st : Option CMArr) (b : Batch) :
    Agg.Confusion.updateState c st b
      = (batchCM c b >>= fun cm => some <$> Wiring.updateState CMArr.add cm st) := by
  unfold Agg.Confusion.updateState Wiring.updateState
  cases hb : batchCM c b with
  | error e => cases st <;> simp [hb, bind, Except.bind]
  | ok cm =>
    cases st with
    | none => simp [hb, bind, Except.bind, pure, Except.pure, Functor.map, Except.map]
    | some s =>
      cases ha : CMArr.add cm s <;>
        simp [hb, ha, bind, Except.bind, pure, Except.pure, Functor.map, Except.map]

/-- **the loop of `merge_states` as translated = the hand model's `mergeStates`** (guard, `None` states skipped, the
first remaining state is the receiver of `+=`) -/
theorem C11_gen_cm_merge_states (c : Cfg) (states : List (Option CMArr)) :
    mergeStates c states
      = (evalGuard c mergeGuard >>= fun _ => Prod.fst <$> mergeFold CMArr.iadd states 0 (none, [])) := by
  have hg : evalGuard c mergeGuard
      = if (c.average == .weighted || c.average == .macro) && c.vocab.isNone then .error .value else .ok () :=
    evalGuard_mergeGuard c
  rw [hg, mergeStates]
  by_cases h : ((c.average == .weighted || c.average == .macro) && c.vocab.isNone) = true
  · simp [h, bind, Except.bind, throw, throwThe, MonadExceptOf.throw]
  · simp only [h, bind, Except.bind, Bool.false_eq_true, if_false]
    rw [mergeFold_fst]
    cases List.filterMap id states <;> rfl

/-- **only the first state of the list may become the result object**: whenever the translated loop takes a state by
reference (`Take.alias`) that state is `states[0]`; a later state is taken by copy (the repaired
F-C11-cm-merge-first-none) -/
theorem C11_gen_cm_merge_states_alias_first {S : Type} (iadd : S → S → Except ErrKind S)
    (states : List (Option S)) (r : Option S) (takes : List Take)
    (h : mergeFold iadd states 0 (none, []) = .ok (r, takes)) (ha : Take.alias ∈ takes) :
    ∃ s, states.head? = some (some s) :=
  mergeFold_alias_first iadd states r takes h ha

/-- non-vacuity: `[None, s]` takes `s` by copy, `[s, t]` takes `s` by reference -/
example : (mergeFold (fun (a b : Nat) => Except.ok (a + b)) [none, some 3] 0 (none, [])) = .ok (some 3, [.copy]) ∧
    (mergeFold (fun (a b : Nat) => Except.ok (a + b)) [some 3, some 4] 0 (none, [])) = .ok (some 7, [.alias]) := by
  exact ⟨rfl, rfl⟩

end MlModel.C11
