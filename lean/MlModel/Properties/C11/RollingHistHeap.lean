import MlModel.Lemmas.HistHeap
/-!
# C11 — `Histogram`: the bin arrays are never written in place, `result()` returns copies

`Model/Agg/HistHeap.lean`: `_hist` / `_bin_edges` as heap cells; `merge` rebinds `_hist` to a fresh
array, `add` returns the batch `Histogram` (two fresh arrays), `result()` returns copies
(rolling_stats.py:254–257 — the anchor "result() returns copies for histograms" of the property).
Histories: any interleaving of make / add / merge / result / poke (`Model/Agg/HeapObs.lean`).
-/
namespace MlModel.C11
open MlModel.Agg.Heap MlModel.Agg.Rolling.HistH

abbrev histRun (edges : List Rat) (ops : List (OpR (List Rat) Cell)) : SysR (cls edges) :=
  (SysR.init (cls edges)).run ops

/-- **separation** (trivially strong here: no accumulator may write any cell at all) -/
theorem C11_rolling_hist_separation (edges : List Rat) (ops : List (OpR (List Rat) Cell)) :
    Sep (histRun edges ops).base ∧
    ∀ (i : Nat) (o : Obj), (histRun edges ops).objs[i]? = some o → ((cls edges).fp o).owned = [] :=
  ⟨(InvR.run (laws edges) ops).sep, fun _ _ _ => rfl⟩

/-- **frame**: an operation leaves every accumulator other than its receiver with the same arrays
holding the same bins and edges; `result()` and caller writes into returned arrays change nobody -/
theorem C11_rolling_hist_frame (edges : List Rat) (ops : List (OpR (List Rat) Cell))
    (op : OpR (List Rat) Cell) (j : Nat) (oj : Obj)
    (hj : (histRun edges ops).objs[j]? = some oj) (hr : op.receiver ≠ some j) :
    ((histRun edges ops).step op).objs[j]? = some oj ∧
    ((histRun edges ops).step op).heap.read oj.hist = (histRun edges ops).heap.read oj.hist ∧
    ((histRun edges ops).step op).heap.read oj.edges = (histRun edges ops).heap.read oj.edges := by
  obtain ⟨h1, h2⟩ := frameR_step (laws edges) (InvR.run (laws edges) ops) op j oj hj hr
  have m : ∀ r ∈ [oj.hist, oj.edges], r ∈ ((cls edges).fp oj).refs := fun r h => by
    show r ∈ (⟨[], [oj.hist, oj.edges]⟩ : Footprint).refs
    simpa [Footprint.refs] using h
  exact ⟨h1, h2 _ (m _ (by simp)), h2 _ (m _ (by simp))⟩

/-- **returned values are private and stable**: the arrays of a batch `Histogram` returned by `add`
and of a `HistogramResult` are referenced by no accumulator, and keep their content through every
later history in which the caller does not overwrite them -/
theorem C11_rolling_hist_returned (edges : List Rat) (ops more : List (OpR (List Rat) Cell)) (out : Out)
    (hout : out ∈ (histRun edges ops).outs) (r : Nat) (hr : r ∈ out.priv)
    (hp : ∀ k n c, OpR.poke k n c ∈ more → (histRun edges ops).pokeRef k n ≠ some r) :
    Private (histRun edges ops) r ∧
    ((histRun edges ops).run more).heap.read r = (histRun edges ops).heap.read r := by
  have inv := InvR.run (laws edges) ops
  exact ⟨inv.priv out hout r hr,
    notOwned_read_run (laws edges) more _ inv r (inv.priv out hout r hr).notOwned hp⟩

/-- **`result()` returns copies** of the current bins and edges in two fresh arrays -/
theorem C11_rolling_hist_result_copies (h : Heap Cell) (s : Obj) (hv : s.hist < h.size ∧ s.edges < h.size) :
    (result h s).2 = ⟨[h.size, h.size + 1], []⟩ ∧
    (result h s).1.read h.size = h.read s.hist ∧ (result h s).1.read (h.size + 1) = h.read s.edges :=
  ⟨(result_facts h s).2.1, result_reads h s hv⟩

/-- `merge` computes the bin-wise sum into a fresh array and keeps the edges -/
theorem C11_rolling_hist_merge_value (h : Heap Cell) (s o : Obj) :
    (merge h s o).2 = ⟨h.size, s.edges⟩ ∧
    (merge h s o).1.read h.size = vadd (h.read s.hist) (h.read o.hist) :=
  ⟨(mergeArr_facts h s o.hist).2.1, (mergeArr_facts h s o.hist).2.2.2⟩

/-- (test) a.add(x); b.add(y); a.merge(b); r = a.result(); the caller overwrites r.hist; b.add(z) -/
example :
    let σ := histRun [0, 1, 2] [.base .make, .base .make, .base (.add 0 [1, 0]), .base (.add 1 [0, 2]),
      .base (.merge 0 1), .result 0, .poke 2 0 [9, 9], .base (.add 1 [1, 1])]
    (σ.objs[0]?.map fun o => σ.heap.read o.hist) = some [1, 2] ∧
    (σ.objs[1]?.map fun o => σ.heap.read o.hist) = some [1, 3] := by
  decide +kernel

/-- (test) sensitivity: a `result()` that returns the internal array instead of a copy lets a caller
write change the accumulator -/
theorem C11_rolling_hist_result_view_witness :
    let bad : HClassR Cell (List Rat) :=
      { cls [0, 1, 2] with result := fun h (s : Obj) => (h, ⟨[s.hist, s.edges], []⟩) }
    let σ := (SysR.init bad).run [.base .make, .base (.add 0 [1, 0]), .result 0, .poke 1 0 [9, 9]]
    (σ.objs[0]?.map fun (o : Obj) => σ.heap.read o.hist) = some [9, 9] := by
  decide +kernel

end MlModel.C11
