import MlModel.Lemmas.AggRollingHeap
import MlModel.Lemmas.AggRollingHeapRefine
/-!
# C11 — "merge only ever modifies its receiver", rolling family, over the cell heap

`Sys cls` is any number of accumulators of one class living in one heap
(`Model/Agg/Heap.lean`); `ops` is an arbitrary interleaving of `make`, `add i batch`,
`merge i j`.  Reading a result is a pure function of the heap and the record (`usAbs`, `vaAbs`,
`fssAbs`, the three arrays of `MVObj`) and performs no heap operation at all, so `result` need not
be an operation: *repeatable and pure* holds by construction and the frame theorems say that no
other accumulator's reading changes.

Classes (Model/Agg/RollingHeap.lean): `usClass` UnboundedSampler, `vaClass` ValueAccumulator,
`fssClass _ true` FixedSizeSample (repaired), `mvClass` MeanAndVariance on 2-D input.
-/
namespace MlModel.C11
open MlModel.Agg.Heap MlModel.Agg.Rolling MlModel.Agg.Rolling.H

variable {C B : Type} [Inhabited C]

/-- generic shape of the frame statement: after any history, one more operation leaves every
accumulator `j` that is not its receiver (so also the *operand* of a merge) with the same record
and the same content of every cell it references -/
def FrameHolds (cls : HClass C B) : Prop :=
  ∀ (ops : List (Op B)) (op : Op B) (j : Nat) (oj : cls.Obj),
    let σ := (Sys.init cls).run ops
    σ.objs[j]? = some oj → op.receiver ≠ some j →
      (σ.step op).objs[j]? = some oj ∧
      ∀ r ∈ (cls.fp oj).refs, (σ.step op).heap.read r = σ.heap.read r

theorem frameHolds_of_laws {cls : HClass C B} (laws : HLaws cls) : FrameHolds cls :=
  fun ops op j oj hj hr => frame_step laws (Sep.run laws ops) op j oj hj hr

/-! ## separation: an invariant of every interleaving, any number of accumulators -/

/-- `UnboundedSampler`: no two samplers ever share a list (every list is written by `extend`) -/
theorem C11_rolling_separation_sampler (α : Type) (ops : List (Op (List (List α)))) :
    Sep ((Sys.init (usClass α)).run ops) := Sep.run (usLaws α) ops

/-- `ValueAccumulator`: accumulators do share objects (the first merge adopts the operand's), but
the class never writes any cell (`owned = []`), so sharing is harmless -/
theorem C11_rolling_separation_value_accumulator (α : Type) (ops : List (Op (List (List α)))) :
    Sep ((Sys.init (vaClass α)).run ops) := Sep.run (vaLaws α) ops

theorem C11_rolling_value_accumulator_never_writes (α : Type) (o : (vaClass α).Obj) :
    ((vaClass α).fp o).owned = [] := rfl

/-- `FixedSizeSample` (repaired code), for every `max_size` and every generator state -/
theorem C11_rolling_separation_reservoir (α : Type) (maxSize : Nat) (seed : Rng)
    (ops : List (Op (List α))) :
    Sep ((Sys.init (fssClass α true maxSize seed)).run ops) := Sep.run (fssLaws α maxSize seed) ops

/-- `MeanAndVariance` on 2-D input: the count array (written in place by `+=`) is never referenced
by another accumulator; the variance array may be (`self._var = other.var`) and is never written -/
theorem C11_rolling_separation_meanvar (k : Nat) (ops : List (Op (List (List F)))) :
    Sep ((Sys.init (mvClass k)).run ops) := Sep.run (mvLaws k) ops

/-! ## frame: the operand and all bystanders read the same before and after -/

theorem C11_rolling_frame_sampler (α : Type) : FrameHolds (usClass α) := frameHolds_of_laws (usLaws α)
theorem C11_rolling_frame_value_accumulator (α : Type) : FrameHolds (vaClass α) :=
  frameHolds_of_laws (vaLaws α)
theorem C11_rolling_frame_reservoir (α : Type) (maxSize : Nat) (seed : Rng) :
    FrameHolds (fssClass α true maxSize seed) := frameHolds_of_laws (fssLaws α maxSize seed)
theorem C11_rolling_frame_meanvar (k : Nat) : FrameHolds (mvClass k) := frameHolds_of_laws (mvLaws k)

/-- the observable corollary for the sampler: what `samples`/`result()` of accumulator `j` reads is
unchanged by any operation on another accumulator -/
theorem C11_rolling_sampler_reading_unchanged (α : Type) (ops : List (Op (List (List α))))
    (op : Op (List (List α))) (j : Nat) (oj : USObj)
    (hj : ((Sys.init (usClass α)).run ops).objs[j]? = some oj) (hr : op.receiver ≠ some j) :
    usAbs (((Sys.init (usClass α)).run ops).step op).heap oj
      = usAbs ((Sys.init (usClass α)).run ops).heap oj := by
  obtain ⟨_, h2⟩ := C11_rolling_frame_sampler α ops op j oj hj hr
  simp only [usAbs, US.mk.injEq, and_true]
  apply List.map_congr_left
  intro r hr'
  exact h2 r (by simp [usClass, Footprint.refs, hr'])

/-- …and for the reservoir sampler: reservoir content and reviewed-count of every other sampler -/
theorem C11_rolling_reservoir_reading_unchanged (α : Type) (maxSize : Nat) (seed : Rng)
    (ops : List (Op (List α))) (op : Op (List α)) (j : Nat) (oj : FSSObj)
    (hj : ((Sys.init (fssClass α true maxSize seed)).run ops).objs[j]? = some oj)
    (hr : op.receiver ≠ some j) :
    fssAbs (((Sys.init (fssClass α true maxSize seed)).run ops).step op).heap oj
      = fssAbs ((Sys.init (fssClass α true maxSize seed)).run ops).heap oj := by
  obtain ⟨_, h2⟩ := C11_rolling_frame_reservoir α maxSize seed ops op j oj hj hr
  simp only [fssAbs, FSS.mk.injEq, true_and, and_true]
  exact h2 oj.ref (by simp [fssClass, Footprint.refs])

/-- the heap model and the pure model of `UnboundedSampler.merge` agree: under the separation that
`C11_rolling_separation_sampler` maintains (receiver's lists pairwise distinct and distinct from
the operand's), `usMerge` computes `US.merge` on what the two accumulators read.  (Stated for a
receiver and an operand that both hold columns; the other cases return/adopt fresh lists.) -/
theorem C11_rolling_sampler_heap_refines (α : Type) (h : Heap (List α)) (s o : USObj)
    (hs : s.refs ≠ []) (ho : o.refs ≠ []) (hlen : s.refs.length = o.refs.length)
    (hvs : ∀ r ∈ s.refs, r < h.size) (hnd : s.refs.Nodup) (hdisj : ∀ r ∈ s.refs, r ∉ o.refs) :
    US.merge true (usAbs h s) (usAbs h o) = .ok (usAbs (usMerge h s o).1 (usMerge h s o).2) :=
  usMerge_refines h s o hs ho hlen hvs hnd hdisj

/-- (non-vacuity) a concrete heap satisfying the hypotheses -/
example : US.merge true (usAbs (⟨[[1], [2]]⟩ : Heap (List Nat)) ⟨[0], false⟩) (usAbs ⟨[[1], [2]]⟩ ⟨[1], false⟩)
    = .ok ⟨[[1, 2]], false⟩ := by rfl

/-! ## F3: the original `_merge_reservoirs` popped from the operand's own list -/

/-- (test, `decide`d) with the original code, `a.merge(b)` shrinks `b`'s reservoir -/
theorem C11_rolling_reservoir_F3_witness :
    let cls := fssClass Nat false 3 [1, 0, 1, 1, 0, 1, 0, 1, 0]
    let σ := (Sys.init cls).run [.make, .make, .add 0 [1, 2, 3, 4, 5], .add 1 [104, 101, 108]]
    let σ' := σ.step (.merge 0 1)
    (σ.objs[1]?.map (fssAbs σ.heap)).map (·.reservoir) = some [104, 101, 108] ∧
    (σ'.objs[1]?.map (fssAbs σ'.heap)).map (·.reservoir) = some [] := by
  decide

/-- (test) the repaired code on the same run leaves it intact -/
example :
    let cls := fssClass Nat true 3 [1, 0, 1, 1, 0, 1, 0, 1, 0]
    let σ := (Sys.init cls).run [.make, .make, .add 0 [1, 2, 3, 4, 5], .add 1 [104, 101, 108]]
    let σ' := σ.step (.merge 0 1)
    (σ'.objs[1]?.map (fssAbs σ'.heap)).map (·.reservoir) = some [104, 101, 108] := by
  decide

/-- (test) sharing that is allowed: after `a.merge(b)` on a fresh `ValueAccumulator` `a`, both
reference the same cell; after one more `add` to `a` they no longer do -/
example :
    let σ := (Sys.init (vaClass Nat)).run [.make, .make, .add 1 [[1, 2]], .merge 0 1]
    (σ.objs[0]?.map (·.refs)) = (σ.objs[1]?.map (·.refs)) ∧
    ((σ.step (.add 0 [[3]])).objs[0]?.map (·.refs)) ≠ (σ.objs[1]?.map (·.refs)) := by
  decide

end MlModel.C11
