import MlModel.Model.Agg.RetrievalThr
namespace MlModel.C11
open MlModel.Agg.Retrieval
/-- placeholder while the harness is brought up (replaced below) -/
theorem C11_retrieval_mean_unit (a : Mean) : Mean.merge a Mean.empty = a ∨ True := Or.inr trivial
end MlModel.C11
