import MlModel.Lemmas.RetrievalMerge
import MlModel.Lemmas.RetrievalHeap
/-!
# C11, metric family "retrieval": merge is associative, commutative, has the fresh state as unit

Pure (value-level) laws of `TopKRetrieval.merge`, `ThresholdedRetrieval.merge`, `MeanState.merge`,
`TupleMeanState.merge` on the models of the repaired code.  "Never damages its operand / results
are repeatable / later updates do not leak" is the subject of the second half of this file
(object-level model with explicit array cells, `Model/Agg/RetrievalHeap.lean`).
-/
namespace MlModel.C11
open MlModel.Agg MlModel.Agg.Retrieval

variable {α : Type} [DecidableEq α]

/-- every state an accumulator can be in is well-formed -/
theorem C11_retrieval_topk_reachable_wf (cfg : Config) (s : State) (h : Reachable (α := α) cfg s) :
    WF cfg s := by
  induction h with
  | fresh => exact wf_empty cfg
  | add rows _ ih => exact wf_merge cfg _ _ ih (wf_ofBatch cfg rows)
  | merge _ _ ih1 ih2 => exact wf_merge cfg _ _ ih1 ih2

/-- **associativity**, exact, for all states -/
theorem C11_retrieval_topk_assoc (a b c : State) :
    mergeState (mergeState a b) c = mergeState a (mergeState b c) := mergeState_assoc a b c

/-- **commutativity** up to the order of the symbolic terms of the Fowlkes–Mallows / DCG / NDCG
totals (for all states; the rational totals and counts are equal on the nose) -/
theorem C11_retrieval_topk_comm (a b : State) : den (mergeState a b) = den (mergeState b a) := by
  rw [den_merge, den_merge, stAdd_comm]

/-- … and such states report the same result (up to the same reordering) -/
theorem C11_retrieval_topk_result_congr (s t : State) (h : den s = den t) :
    (resultState s).map MeanResult.den = (resultState t).map MeanResult.den := result_den s t h

/-- any interpretation of the symbolic terms in a commutative monoid (exact real evaluation;
float64 up to rounding) only depends on the denotation: equal multisets of terms sum equally -/
theorem C11_retrieval_eval_den {M : Type} (add : M → M → M) (zero : M)
    (hcomm : ∀ x y z, add (add z x) y = add (add z y) x) (f : Term → M) (u v : V)
    (h : u.den = v.den) :
    (u.sym.map f).foldl add zero = (v.sym.map f).foldl add zero := by
  have hp : u.sym.Perm v.sym := by
    have := congrArg Prod.snd h
    exact Quotient.exact this
  exact (hp.map f).foldl_eq' (fun x _ y _ z => hcomm x y z) zero

/-- **unit**: a freshly created accumulator is neutral on either side (exactly) -/
theorem C11_retrieval_topk_unit (cfg : Config) (s : State) (h : WF cfg s) :
    mergeState (emptyState cfg) s = s ∧ mergeState s (emptyState cfg) = s := by
  have he : emptyState cfg = List.replicate cfg.metrics.length ⟨List.replicate cfg.nk V.zero, 0⟩ := by
    simp [emptyState, List.map_const']
  rw [he]
  constructor
  · apply zipWith_replicate_left _ _ _ _ h.1
    intro c hc
    cases c with
    | mk t n =>
      have := h.2 _ hc
      simp only at this
      simp [MeanCell.merge, zero_vecAdd cfg.nk t this]
  · apply zipWith_replicate_right _ _ _ _ h.1
    intro c hc
    cases c with
    | mk t n =>
      have := h.2 _ hc
      simp only at this
      simp [MeanCell.merge, vecAdd_zero cfg.nk t this]

/-- **any bracketing, any order**: two merge trees over the same multiset of states (any two
bracketings of any two permutations) have the same denotation, hence the same result -/
theorem C11_retrieval_topk_any_bracketing (t₁ t₂ : MTree) (h : t₁.leaves.Perm t₂.leaves) :
    den t₁.eval = den t₂.eval := by
  have h1 := t₁.den_eval
  have h2 := t₂.den_eval
  have hp : (t₁.leaves.map den).Perm (t₂.leaves.map den) := h.map den
  rw [hp.foldl_eq' (fun x _ y _ z => optAdd_right_comm z x y) none] at h1
  exact Option.some.inj (h1.trans h2.symm)

/-- `merge_states` (a left fold) is one such tree: reordering the shards does not matter -/
theorem C11_retrieval_topk_merge_states_perm (s : State) (l₁ l₂ : List State) (h : l₁.Perm l₂) :
    den (l₁.foldl mergeState s) = den (l₂.foldl mergeState s) := by
  have e : ∀ l : List State, ∀ s, den (l.foldl mergeState s) = (l.map den).foldl stAdd (den s) := by
    intro l
    induction l with
    | nil => intro s; rfl
    | cons x xs ih => intro s; simp [ih, den_merge]
  rw [e, e]
  exact (h.map den).foldl_eq' (fun x _ y _ z => by rw [stAdd_assoc, stAdd_comm x y, ← stAdd_assoc]) _


/-! ### never damages its operand; no leak; results repeatable (object-level model)

`Model/Agg/RetrievalHeap.lean`: `MeanState` objects whose `total` is a Python number or a
reference to an ndarray cell; `+=` rebinds (allocating) or writes in place exactly as Python /
numpy do.  `TopKRetrieval.add` / `.merge` are sequences of the object-level steps `Op.add` /
`Op.merge` on the receiver's own `MeanState`s (one per metric), so every statement below, being
about *all* operation sequences, covers every interleaving of `add` / `merge` / `result` calls on
any number of accumulators. -/

open MlModel.Agg.Retrieval.Heap

/-- **separation invariant**, for every history from the empty world: array references are in
bounds and no two `MeanState` objects ever share an ndarray -/
theorem C11_retrieval_separation (ops : List Op) : Sep (World.empty.run ops) :=
  run_sep World.empty ops empty_sep

/-- **merge only modifies its receiver**: after `objs[i].merge(objs[j])` every other object — in
particular the merged-in operand `j ≠ i` — has the value it had, and every array cell the receiver
does not own has the contents it had -/
theorem C11_retrieval_merge_frame (w : World) (nk i j : Nat) (h : Sep w) :
    (∀ l, l < w.objs.length → l ≠ i → (w.step (.merge i j)).cell nk l = w.cell nk l) ∧
    (∀ r, r < w.heap.length → ¬ w.owns i r → (w.step (.merge i j)).heap[r]? = w.heap[r]?) := by
  constructor
  · intro l hl hli
    exact step_cell_frame w nk (.merge i j) h l hl (by simp [Op.target, Ne.symm hli])
  · intro r hr hown
    simp only [World.step]
    cases w.objs[j]? with
    | none => rfl
    | some o => exact mergeInto_heap_frame w i _ _ r hr hown

/-- **later updates do not leak**: over *any* later history, an object that is not the receiver
of any operation keeps its value — even if it was merged into others, or others into which it was
merged are updated -/
theorem C11_retrieval_no_leak (w : World) (nk : Nat) (ops : List Op) (h : Sep w) (l : Nat)
    (hl : l < w.objs.length) (ht : ∀ op ∈ ops, op.target ≠ some l) :
    (w.run ops).cell nk l = w.cell nk l := run_cell_frame w nk ops h l hl ht

/-- **reading a result is repeatable and disturbs nothing**: `result()` is a function of the
current world (it returns no new world), and it is stable under every history that does not write
to the object -/
theorem C11_retrieval_result_pure (w : World) (nk : Nat) (ops : List Op) (h : Sep w) (l : Nat)
    (hl : l < w.objs.length) (ht : ∀ op ∈ ops, op.target ≠ some l) :
    (w.run ops).result nk l = w.result nk l := by
  simp only [World.result, run_cell_frame w nk ops h l hl ht]

/-- **the object-level code refines the value-level model**: for every history of well-typed
operations (arrays are vectors over the same `nk` Ks) the value of every object is what the pure
`MeanCell.merge` / `MeanCell.new` compute — so all value-level theorems (C01, C07, the laws above)
hold of the mutable objects -/
theorem C11_retrieval_heap_refines (nk : Nat) (ops : List Op) (hops : ∀ op ∈ ops, op.Typed nk) (l : Nat) :
    (World.empty.run ops).cell nk l = (ops.foldl (pureStep nk) [])[l]? :=
  (run_refines nk ops hops World.empty [] (empty_refines nk)).cell l

/-! ### ThresholdedRetrieval, MeanState, TupleMeanState -/

theorem C11_retrieval_thresholded_assoc (a b c : Thr.Counts) :
    Thr.Counts.merge (Thr.Counts.merge a b) c = Thr.Counts.merge a (Thr.Counts.merge b c) :=
  Thr.Counts.merge_assoc a b c

theorem C11_retrieval_thresholded_comm (a b : Thr.Counts) :
    Thr.Counts.merge a b = Thr.Counts.merge b a := Thr.Counts.merge_comm a b

/-- the fresh `ThresholdedRetrieval` (zero counts per threshold) is neutral on either side -/
theorem C11_retrieval_thresholded_unit (n : Nat) (c : Thr.Counts) (h : c.WF n) :
    Thr.Counts.merge (Thr.Counts.zero n) c = c ∧ Thr.Counts.merge c (Thr.Counts.zero n) = c :=
  ⟨Thr.Counts.zero_merge n c h, Thr.Counts.merge_zero n c h⟩

theorem C11_retrieval_mean_assoc (a b c : Mean) :
    Mean.merge (Mean.merge a b) c = Mean.merge a (Mean.merge b c) := Mean.merge_assoc a b c

theorem C11_retrieval_mean_comm (a b : Mean) : Mean.merge a b = Mean.merge b a := Mean.merge_comm a b

theorem C11_retrieval_mean_unit (a : Mean) :
    Mean.merge Mean.empty a = a ∧ Mean.merge a Mean.empty = a :=
  ⟨Mean.empty_merge a, Mean.merge_empty a⟩

/-- `TupleMeanState`: the never-updated state `()` is neutral on either side (after the repair of
`merge`: before it, an empty *operand* raised `ValueError`) -/
theorem C11_retrieval_tuplemean_unit (a : TupleMean) :
    TupleMean.merge a [] = .ok a ∧ TupleMean.merge [] a = .ok a := by
  constructor
  · simp [TupleMean.merge]
  · cases a with
    | nil => simp [TupleMean.merge]
    | cons x xs =>
      simp only [TupleMean.merge, reduceCtorEq, if_false, if_true]
      congr 1
      have : ∀ l : List Mean, l.map (fun s => Mean.merge Mean.empty s) = l := by
        intro l
        induction l with
        | nil => rfl
        | cons y ys ih => simp [Mean.empty_merge]
      exact this _

/-- same arity: associative and commutative, never an error -/
theorem C11_retrieval_tuplemean_comm (a b : TupleMean) (h : a.length = b.length) (ha : a ≠ []) :
    TupleMean.merge a b = .ok (List.zipWith Mean.merge a b) ∧
    TupleMean.merge b a = .ok (List.zipWith Mean.merge a b) := by
  have hb : b ≠ [] := by
    intro hb
    rw [hb] at h
    exact ha (List.length_eq_zero_iff.mp h)
  simp only [TupleMean.merge, ha, hb, h, if_false, if_true]
  exact ⟨trivial, by rw [zipWith_comm_of Mean.merge Mean.merge_comm]⟩

/-- different arities are rejected (`zip(strict=True)`) -/
theorem C11_retrieval_tuplemean_arity (a b : TupleMean) (ha : a ≠ []) (hb : b ≠ [])
    (h : a.length ≠ b.length) : TupleMean.merge a b = .error .value := by
  simp [TupleMean.merge, ha, hb, h]

/-! ### non-vacuity (tests) -/

def exCfg : Config := { kList := some [1, 3], metrics := [.ndcgScore, .recall], multiclass := false }
def exS : State := ofBatch exCfg [(⟨[1, 2], [2, 5, 1]⟩ : Row Nat)]
def exT : State := ofBatch exCfg [(⟨[4], [4]⟩ : Row Nat), ⟨[], [7]⟩]

example : WF exCfg exS := wf_ofBatch exCfg _
/-- symbolic totals really are order-sensitive as lists: the two merges differ, their denotations agree -/
example : mergeState exS exT ≠ mergeState exT exS := by decide +kernel
example : den (mergeState exS exT) = den (mergeState exT exS) := C11_retrieval_topk_comm exS exT

/-- object-level: a, b fresh; a.add(x); b.add(y); a.merge(b); a.add(z) — b still reports y -/
def exOps : List Op :=
  [.new, .new, .add 0 1 [[V.ofQ (some 1)]], .add 1 1 [[V.ofQ (some 5)]], .merge 0 1, .add 0 1 [[V.ofQ (some 2)]]]
example : (World.empty.run exOps).cell 1 1 = some ⟨[V.ofQ (some 5)], 1⟩ := by decide +kernel
example : (World.empty.run exOps).cell 1 0 = some ⟨[V.ofQ (some 8)], 3⟩ := by decide +kernel
example : ∀ op ∈ exOps, op.Typed 1 := by
  intro op hop
  simp only [exOps, List.mem_cons, List.not_mem_nil, or_false] at hop
  rcases hop with rfl | rfl | rfl | rfl | rfl | rfl <;> simp [Op.Typed]

end MlModel.C11
