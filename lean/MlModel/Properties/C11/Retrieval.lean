import MlModel.Lemmas.RetrievalMerge
/-!
# C11, metric family "retrieval": merge is associative, commutative, has the fresh state as unit

Pure (value-level) laws of `TopKRetrieval.merge`, `ThresholdedRetrieval.merge`, `MeanState.merge`,
`TupleMeanState.merge` on the models of the repaired code.  "Never damages its operand / results
are repeatable / later updates do not leak" is the subject of `Properties/C11/RetrievalHeap.lean`
(object-level model with explicit cells).
-/
namespace MlModel.C11
open MlModel.Agg MlModel.Agg.Retrieval

variable {α : Type} [DecidableEq α]

/-- a state of the shape accumulators of configuration `cfg` have: one `MeanState` per metric,
every total a vector over the Ks -/
def WF (cfg : Config) (s : State) : Prop :=
  s.length = cfg.metrics.length ∧ ∀ c ∈ s, c.total.length = cfg.nk

/-- states reachable through the API: fresh, after `add`, after `merge` -/
inductive Reachable (cfg : Config) : State → Prop where
  | fresh : Reachable cfg (emptyState cfg)
  | add {s : State} (rows : List (Row α)) : Reachable cfg s → Reachable cfg (mergeState s (ofBatch cfg rows))
  | merge {s t : State} : Reachable cfg s → Reachable cfg t → Reachable cfg (mergeState s t)

theorem wf_empty (cfg : Config) : WF cfg (emptyState cfg) := by
  simp [WF, emptyState]

theorem wf_ofBatch (cfg : Config) (rows : List (Row α)) : WF cfg (ofBatch cfg rows) := by
  constructor
  · simp [ofBatch, batchVals]
  · intro c hc
    simp only [ofBatch, batchVals, List.map_map, List.mem_map, List.mem_range] at hc
    obtain ⟨j, hj, rfl⟩ := hc
    simp only [Function.comp, MeanCell.new]
    apply foldl_vecAdd_length
    · simp
    · intro b hb
      obtain ⟨r, _, rfl⟩ := List.mem_map.mp hb
      show ((rowVals cfg (cfg.width rows) r).getD j []).length = cfg.nk
      unfold rowVals
      simp only []
      rw [List.getD_eq_getElem?_getD, List.getElem?_map, List.getElem?_eq_getElem hj]
      simp [rowKs_length]

theorem wf_merge (cfg : Config) (a b : State) (ha : WF cfg a) (hb : WF cfg b) :
    WF cfg (mergeState a b) := by
  constructor
  · simp [mergeState, ha.1, hb.1]
  · intro c hc
    simp only [mergeState] at hc
    obtain ⟨i, hi, rfl⟩ := List.mem_iff_getElem.mp hc
    simp only [List.getElem_zipWith, MeanCell.merge, vecAdd_length]
    rw [ha.2 _ (List.getElem_mem _), hb.2 _ (List.getElem_mem _)]
    omega

/-- every state an accumulator can be in is well-formed -/
theorem C11_retrieval_topk_reachable_wf (cfg : Config) (s : State) (h : Reachable (α := α) cfg s) :
    WF cfg s := by
  induction h with
  | fresh => exact wf_empty cfg
  | add rows _ ih => exact wf_merge cfg _ _ ih (wf_ofBatch cfg rows)
  | merge _ _ ih1 ih2 => exact wf_merge cfg _ _ ih1 ih2

/-- **associativity**, exact, for all states -/
theorem C11_retrieval_topk_assoc (a b c : State) :
    mergeState (mergeState a b) c = mergeState a (mergeState b c) := mergeState_assoc a b c

/-- **commutativity** up to the order of the symbolic terms of the Fowlkes–Mallows / DCG / NDCG
totals (for all states; the rational totals and counts are equal on the nose) -/
theorem C11_retrieval_topk_comm (a b : State) : den (mergeState a b) = den (mergeState b a) := by
  rw [den_merge, den_merge, stAdd_comm]

/-- … and such states report the same result (up to the same reordering) -/
theorem C11_retrieval_topk_result_congr (s t : State) (h : den s = den t) :
    (resultState s).map MeanResult.den = (resultState t).map MeanResult.den := result_den s t h

/-- any interpretation of the symbolic terms in a commutative monoid (exact real evaluation;
float64 up to rounding) only depends on the denotation: equal multisets of terms sum equally -/
theorem C11_retrieval_eval_den {M : Type} (add : M → M → M) (zero : M)
    (hcomm : ∀ x y z, add (add z x) y = add (add z y) x) (f : Term → M) (u v : V)
    (h : u.den = v.den) :
    (u.sym.map f).foldl add zero = (v.sym.map f).foldl add zero := by
  have hp : u.sym.Perm v.sym := by
    have := congrArg Prod.snd h
    exact Quotient.exact this
  exact (hp.map f).foldl_eq' (fun x _ y _ z => hcomm x y z) zero

theorem zipWith_replicate_left {β : Type} (f : β → β → β) (e : β) (s : List β) (n : Nat)
    (hn : s.length = n) (h : ∀ c ∈ s, f e c = c) : List.zipWith f (List.replicate n e) s = s := by
  induction s generalizing n with
  | nil => simp
  | cons x xs ih =>
    cases n with
    | zero => simp at hn
    | succ n =>
      simp only [List.replicate_succ, List.zipWith_cons_cons]
      rw [h x (by simp), ih n (by simpa using hn) (fun c hc => h c (by simp [hc]))]

theorem zipWith_replicate_right {β : Type} (f : β → β → β) (e : β) (s : List β) (n : Nat)
    (hn : s.length = n) (h : ∀ c ∈ s, f c e = c) : List.zipWith f s (List.replicate n e) = s := by
  induction s generalizing n with
  | nil => simp
  | cons x xs ih =>
    cases n with
    | zero => simp at hn
    | succ n =>
      simp only [List.replicate_succ, List.zipWith_cons_cons]
      rw [h x (by simp), ih n (by simpa using hn) (fun c hc => h c (by simp [hc]))]

/-- **unit**: a freshly created accumulator is neutral on either side (exactly) -/
theorem C11_retrieval_topk_unit (cfg : Config) (s : State) (h : WF cfg s) :
    mergeState (emptyState cfg) s = s ∧ mergeState s (emptyState cfg) = s := by
  have he : emptyState cfg = List.replicate cfg.metrics.length ⟨List.replicate cfg.nk V.zero, 0⟩ := by
    simp [emptyState, List.map_const']
  rw [he]
  constructor
  · apply zipWith_replicate_left _ _ _ _ h.1
    intro c hc
    cases c with
    | mk t n =>
      have := h.2 _ hc
      simp only at this
      simp [MeanCell.merge, zero_vecAdd cfg.nk t this]
  · apply zipWith_replicate_right _ _ _ _ h.1
    intro c hc
    cases c with
    | mk t n =>
      have := h.2 _ hc
      simp only at this
      simp [MeanCell.merge, vecAdd_zero cfg.nk t this]

/-- **any bracketing, any order**: two merge trees over the same multiset of states (any two
bracketings of any two permutations) have the same denotation, hence the same result -/
theorem C11_retrieval_topk_any_bracketing (t₁ t₂ : MTree) (h : t₁.leaves.Perm t₂.leaves) :
    den t₁.eval = den t₂.eval := by
  have h1 := t₁.den_eval
  have h2 := t₂.den_eval
  have hp : (t₁.leaves.map den).Perm (t₂.leaves.map den) := h.map den
  rw [hp.foldl_eq' (fun x _ y _ z => optAdd_right_comm z x y) none] at h1
  exact Option.some.inj (h1.trans h2.symm)

/-- `merge_states` (a left fold) is one such tree: reordering the shards does not matter -/
theorem C11_retrieval_topk_merge_states_perm (s : State) (l₁ l₂ : List State) (h : l₁.Perm l₂) :
    den (l₁.foldl mergeState s) = den (l₂.foldl mergeState s) := by
  have e : ∀ l : List State, ∀ s, den (l.foldl mergeState s) = (l.map den).foldl stAdd (den s) := by
    intro l
    induction l with
    | nil => intro s; rfl
    | cons x xs ih => intro s; simp [ih, den_merge]
  rw [e, e]
  exact (h.map den).foldl_eq' (fun x _ y _ z => by rw [stAdd_assoc, stAdd_comm x y, ← stAdd_assoc]) _

/-! ### ThresholdedRetrieval, MeanState, TupleMeanState -/

theorem C11_retrieval_thresholded_assoc (a b c : Thr.Counts) :
    Thr.Counts.merge (Thr.Counts.merge a b) c = Thr.Counts.merge a (Thr.Counts.merge b c) :=
  Thr.Counts.merge_assoc a b c

theorem C11_retrieval_thresholded_comm (a b : Thr.Counts) :
    Thr.Counts.merge a b = Thr.Counts.merge b a := Thr.Counts.merge_comm a b

/-- the fresh `ThresholdedRetrieval` (zero counts per threshold) is neutral on either side -/
theorem C11_retrieval_thresholded_unit (n : Nat) (c : Thr.Counts) (h : c.WF n) :
    Thr.Counts.merge (Thr.Counts.zero n) c = c ∧ Thr.Counts.merge c (Thr.Counts.zero n) = c :=
  ⟨Thr.Counts.zero_merge n c h, Thr.Counts.merge_zero n c h⟩

theorem C11_retrieval_mean_assoc (a b c : Mean) :
    Mean.merge (Mean.merge a b) c = Mean.merge a (Mean.merge b c) := Mean.merge_assoc a b c

theorem C11_retrieval_mean_comm (a b : Mean) : Mean.merge a b = Mean.merge b a := Mean.merge_comm a b

theorem C11_retrieval_mean_unit (a : Mean) :
    Mean.merge Mean.empty a = a ∧ Mean.merge a Mean.empty = a :=
  ⟨Mean.empty_merge a, Mean.merge_empty a⟩

/-- `TupleMeanState`: the never-updated state `()` is neutral on either side (after the repair of
`merge`: before it, an empty *operand* raised `ValueError`) -/
theorem C11_retrieval_tuplemean_unit (a : TupleMean) :
    TupleMean.merge a [] = .ok a ∧ TupleMean.merge [] a = .ok a := by
  constructor
  · simp [TupleMean.merge]
  · cases a with
    | nil => simp [TupleMean.merge]
    | cons x xs =>
      simp only [TupleMean.merge, reduceCtorEq, if_false, if_true]
      congr 1
      have : ∀ l : List Mean, l.map (fun s => Mean.merge Mean.empty s) = l := by
        intro l
        induction l with
        | nil => rfl
        | cons y ys ih => simp [Mean.empty_merge]
      exact this _

/-- same arity: associative and commutative, never an error -/
theorem C11_retrieval_tuplemean_comm (a b : TupleMean) (h : a.length = b.length) (ha : a ≠ []) :
    TupleMean.merge a b = .ok (List.zipWith Mean.merge a b) ∧
    TupleMean.merge b a = .ok (List.zipWith Mean.merge a b) := by
  have hb : b ≠ [] := by
    intro hb
    rw [hb] at h
    exact ha (List.length_eq_zero_iff.mp h)
  simp only [TupleMean.merge, ha, hb, h, if_false, if_true]
  exact ⟨trivial, by rw [zipWith_comm_of Mean.merge Mean.merge_comm]⟩

/-- different arities are rejected (`zip(strict=True)`) -/
theorem C11_retrieval_tuplemean_arity (a b : TupleMean) (ha : a ≠ []) (hb : b ≠ [])
    (h : a.length ≠ b.length) : TupleMean.merge a b = .error .value := by
  simp [TupleMean.merge, ha, hb, h]

/-! ### non-vacuity (tests) -/

def exCfg : Config := { kList := some [1, 3], metrics := [.ndcgScore, .recall], multiclass := false }
def exS : State := ofBatch exCfg [(⟨[1, 2], [2, 5, 1]⟩ : Row Nat)]
def exT : State := ofBatch exCfg [(⟨[4], [4]⟩ : Row Nat), ⟨[], [7]⟩]

example : WF exCfg exS := wf_ofBatch exCfg _
/-- symbolic totals really are order-sensitive as lists: the two merges differ, their denotations agree -/
example : mergeState exS exT ≠ mergeState exT exS := by decide +kernel
example : den (mergeState exS exT) = den (mergeState exT exS) := C11_retrieval_topk_comm exS exT

end MlModel.C11
