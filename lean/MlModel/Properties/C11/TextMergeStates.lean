import MlModel.Lemmas.AggTextHeap
/-!
# C11 — text family: `merge_states` over any number of accumulators writes the first one only

The text accumulators have their own objects-on-a-heap model (`Model/Agg/TextHeap.lean`: every
accumulator references a `collections.Counter` cell; `FrequencyState.merge` is one in-place write to
the receiver's cell).  `mergeStatesW` is the call `merge_states([accs[i]] + [accs[j] for j in js])`
exactly as the compiled driver executes it (`Driver/AggText.lean`, base.py:195–200: the left fold of
`merge` into the first state).  After ANY program, for ANY list, every accumulator other than the
first of the list denotes the value it denoted before — for the `HClass` families this is
`C11_merge_states_writes_first_only`; here it follows from the separation invariant of the text heap.
-/
namespace MlModel.C11
open MlModel.Agg.Text

/-- `result = accs[i]; for j in js: result.merge(accs[j])` on the heap world -/
def mergeStatesW (m : Metric) (w : World) (i : Nat) (js : List Nat) : World :=
  js.foldl (fun w j => (step m w (.merge i j)).1) w

/-- from ANY separated world: the call keeps separation and the value of every accumulator but the first of the list -/
theorem C11_merge_states_text_frame_any_world (m : Metric) (i : Nat) (js : List Nat) :
    ∀ (w : World), w.Inv → ∀ (l : Nat), l < w.accs.length → l ≠ i →
      (mergeStatesW m w i js).Inv ∧ (mergeStatesW m w i js).abs[l]? = w.abs[l]? := by
  induction js with
  | nil => intro w h l _ _; exact ⟨h, rfl⟩
  | cons j js ih =>
    intro w h l hl hne
    have hf := step_frame m w h (.merge i j) l hl (fun _ _ e => by cases e)
      (fun i' j' e => by cases e; exact hne)
    have hinv := (step_refines m w h (.merge i j)).1
    have hl' : l < (step m w (.merge i j)).1.accs.length := by
      have : (step m w (.merge i j)).1.abs[l]? = some (w.abs[l]'(by simpa [World.abs] using hl)) := by
        rw [hf]; exact List.getElem?_eq_getElem _
      obtain ⟨hlt, _⟩ := List.getElem?_eq_some_iff.mp this
      simpa [World.abs] using hlt
    obtain ⟨h1, h2⟩ := ih (step m w (.merge i j)).1 hinv l hl' hne
    exact ⟨h1, by rw [show mergeStatesW m w i (j :: js) = mergeStatesW m (step m w (.merge i j)).1 i js from rfl,
      h2, hf]⟩

/-- **merge_states writes the first state only** (TopKWordNGrams / PatternFrequency): after any
program, the n-ary call leaves every accumulator `l ≠ i` — merged-in states at every position,
never-updated ones, bystanders — denoting the same `FreqState` (hence reporting the same result) -/
theorem C11_merge_states_text_writes_first_only (m : Metric) (prog : List Op) (i : Nat) (js : List Nat)
    (l : Nat) (hl : l < (run m {} prog).1.accs.length) (hne : l ≠ i) :
    (mergeStatesW m (run m {} prog).1 i js).abs[l]? = (run m {} prog).1.abs[l]? :=
  (C11_merge_states_text_frame_any_world m i js _ (run_refines m prog {} World.inv_empty).1 l hl hne).2

/-- the separation invariant survives the call -/
theorem C11_merge_states_text_separation (m : Metric) (prog : List Op) (i : Nat) (js : List Nat) :
    (mergeStatesW m (run m {} prog).1 i js).Inv := by
  have key : ∀ (js : List Nat) (w : World), w.Inv → (mergeStatesW m w i js).Inv := by
    intro js
    induction js with
    | nil => intro w hw; exact hw
    | cons j js ih => intro w hw; exact ih _ (step_refines m w hw (.merge i j)).1
  exact key js _ (run_refines m prog {} World.inv_empty).1

/-- (test) five accumulators, merge_states in the order 3, 0, 2, 4 (2 never updated): 0, 2, 4 keep their counts -/
example :
    let m : Metric := .patterns ⟨[['a'], ['b']], true⟩
    let w := (run m {} [.make, .make, .make, .make, .make, .add 0 [['a']], .add 1 [['b']], .add 3 [['a', 'b']],
      .add 4 [['b', 'a'], ['a']]]).1
    (mergeStatesW m w 3 [0, 2, 4]).abs.map (·.count) = [1, 1, 0, 4, 2] := by
  decide +kernel

end MlModel.C11
