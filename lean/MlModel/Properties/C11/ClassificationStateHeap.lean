import MlModel.Lemmas.CmStateHeap
/-!
# C11 — `ConfusionMatrixAggFn.merge_states` only ever modifies the first state (tp/tn/fp/fn arrays under `__iadd__`)

`Model/Agg/CmStateHeap.lean`: a state is `None` or a `_ConfusionMatrix` whose four count arrays are
heap cells; `update_state` allocates (`cm + state` is a new object and the previous one stays with the
caller), `merge_states` writes the first state's four arrays in place (`result += accumulator`).
`cls true` is the repaired `merge_states` (a first non-`None` state that is not the first state of
the list is copied), `cls false` the code before the repair.

A history is any interleaving of `make` (`create_state()`), `add i b`
(`s[i] = fn.update_state(s[i], b)`, the previous object is handed to the caller), `merge i j`
(`s[i] = fn.merge_states([s[i], s[j]])`), `result i` (`get_result`), `poke k n c` (the caller
overwrites an array of a previous state object it kept).
-/
namespace MlModel.C11
open MlModel.Agg.Heap MlModel.Agg.Confusion.SH

abbrev cmRun (ops : List (OpR Batch Cell)) : SysR (cls true) := (SysR.init (cls true)).run ops

/-- **separation**: after every history the four arrays of a state are referenced by no other
state variable — also when fresh (`None`) states were merged on either side -/
theorem C11_classification_state_separation (ops : List (OpR Batch Cell)) : Sep (cmRun ops).base :=
  (InvR.run laws ops).sep

/-- **merge_states / update_state only modify the receiver**: every other state — the merged-in
operand included — keeps its object and the content of its four arrays -/
theorem C11_classification_state_frame (ops : List (OpR Batch Cell)) (op : OpR Batch Cell) (j : Nat)
    (sj : St) (hj : (cmRun ops).objs[j]? = some sj) (hr : op.receiver ≠ some j) :
    ((cmRun ops).step op).objs[j]? = some sj ∧
    absSt ((cmRun ops).step op).heap sj = absSt (cmRun ops).heap sj := by
  obtain ⟨h1, h2⟩ := frameR_step laws (InvR.run laws ops) op j sj hj hr
  refine ⟨h1, ?_⟩
  cases sj with
  | none => rfl
  | some a =>
    have m : ∀ r ∈ a.refs, r ∈ ((cls true).fp (some a)).refs := fun r h => by
      show r ∈ (⟨a.refs, []⟩ : Footprint).refs
      simpa [Footprint.refs] using h
    simp only [absSt, readCM]
    rw [h2 _ (m _ (by simp [CM.refs])), h2 _ (m _ (by simp [CM.refs])), h2 _ (m _ (by simp [CM.refs])),
      h2 _ (m _ (by simp [CM.refs]))]

/-- **`update_state` does not touch the state it is given**: the previous state object, which stays
with the caller, is from then on referenced by no state variable, and keeps the content of its four
arrays through every later history in which the caller does not overwrite it itself -/
theorem C11_classification_state_previous_kept (ops more : List (OpR Batch Cell)) (out : Out)
    (hout : out ∈ (cmRun ops).outs) (r : Nat) (hr : r ∈ out.refs)
    (hp : ∀ k n c, OpR.poke k n c ∈ more → (cmRun ops).pokeRef k n ≠ some r) :
    Private (cmRun ops) r ∧ ((cmRun ops).run more).heap.read r = (cmRun ops).heap.read r := by
  have inv := InvR.run laws ops
  refine ⟨?_, notOwned_read_run laws more _ inv r (inv.out_notOwned hout hr) hp⟩
  rcases List.mem_append.mp hr with h | h
  · exact inv.priv out hout r h
  · -- no returned value of this class has exposed arrays
    have : ∀ (ops : List (OpR Batch Cell)), ∀ out ∈ (cmRun ops).outs, out.exposed = [] := by
      intro ops
      have gen : ∀ (σ : SysR (cls true)), (∀ out ∈ σ.outs, out.exposed = []) →
          ∀ out ∈ (σ.run ops).outs, out.exposed = [] := by
        induction ops with
        | nil => intro σ h; exact h
        | cons op ops ih =>
          intro σ h
          refine ih (σ.step op) ?_
          intro out hout
          cases op with
          | base op =>
            rcases outs_base_old σ op out hout with h' | ⟨i, b, o, _, _, rfl⟩
            · exact h out h'
            · rfl
          | result i =>
            simp only [SysR.step] at hout
            cases hi : σ.objs[i]? with
            | none => rw [hi] at hout; exact h out hout
            | some o =>
              rw [hi] at hout
              rcases List.mem_append.mp hout with h' | h'
              · exact h out h'
              · have : out = ((cls true).result σ.heap o).2 := by simpa using h'
                rw [this]; rfl
          | poke k n c =>
            simp only [SysR.step] at hout
            cases hk : σ.pokeRef k n with
            | none => rw [hk] at hout; exact h out hout
            | some t => rw [hk] at hout; exact h out hout
      exact gen _ (by simp [SysR.init])
    rw [this ops out hout] at h
    cases h

/-- **the in-place merge refines the value-level sum**: under the separation the invariant
maintains (the receiver's four arrays are four different allocated arrays, none of them an array of
the operand) `result += accumulator` leaves the receiver with the field-wise sums -/
theorem C11_classification_state_iadd_refines (h : Heap Cell) (a b : CM) (hv : ∀ r ∈ a.refs, r < h.size)
    (hnd : a.refs.Nodup) (hd : ∀ r ∈ b.refs, r ∉ a.refs) :
    readCM (iadd h a b) a = (readCM h a).add (readCM h b) ∧
    (∀ r, r ∉ a.refs → (iadd h a b).read r = h.read r) :=
  ⟨iadd_refines h a b hv hnd hd, fun r hr => iadd_read_other h a b r hr⟩

/-- `_ConfusionMatrix(..)` / the copy made by the repaired `merge_states`: four fresh arrays holding
the given counts -/
theorem C11_classification_state_alloc (h : Heap Cell) (b : Batch) :
    readCM (allocCM h b).1 (allocCM h b).2 = b ∧ (∀ r ∈ (allocCM h b).2.refs, h.size ≤ r) :=
  ⟨allocCM_read h b, fun r hr => by
    rw [(allocCM_facts h b).2.1] at hr; exact (mem_fresh_refs hr).1⟩

/-! ## the defect that was repaired, and non-vacuity (tests, `decide`d) -/

def cmB1 : Batch := ⟨[2], [0], [1], [1]⟩
def cmB2 : Batch := ⟨[3], [1], [0], [0]⟩
/-- s0 = create_state(); s1, s2 updated once; merge_states([s0, s1, s2]) as two binary merges -/
def cmEx : List (OpR Batch Cell) :=
  [.base .make, .base .make, .base .make, .base (.add 1 cmB1), .base (.add 2 cmB2),
   .base (.merge 0 1), .base (.merge 0 2)]

/-- (test) code before the repair (finding F-C11-cm-merge-first-none): the first state is `None`, so
the "first state" that `merge_states` modifies in place is `s1` — afterwards `s1` reports
`s1 + s2` and the returned state is the very object `s1` -/
theorem C11_classification_state_merge_first_none_witness :
    let σ := (SysR.init (cls false)).run cmEx
    (σ.objs[0]?.map stRefs) = (σ.objs[1]?.map stRefs) ∧
    (σ.objs[1]?.map (absSt σ.heap)) = some (some ⟨[5], [1], [1], [1]⟩) := by
  decide +kernel

/-- (test) the repaired code on the same history: `s1` still reports its own counts, the merged
state is a different object -/
example :
    let σ := cmRun cmEx
    (σ.objs[0]?.map stRefs) ≠ (σ.objs[1]?.map stRefs) ∧ (σ.objs[1]?.map (absSt σ.heap)) = some (some cmB1) ∧
    (σ.objs[0]?.map (absSt σ.heap)) = some (some ⟨[5], [1], [1], [1]⟩) := by
  decide +kernel

/-- (test) the previous state object of an `update_state` is returned to the caller and untouched -/
example :
    let σ := cmRun [.base .make, .base (.add 0 cmB1), .base (.add 0 cmB2), .poke 1 0 [9]]
    σ.outs = [⟨[], []⟩, ⟨[0, 1, 2, 3], []⟩] ∧ (σ.objs[0]?.map (absSt σ.heap)) = some (some ⟨[5], [1], [1], [1]⟩) := by
  decide +kernel

end MlModel.C11
