import MlModel.Lemmas.GenScalar
/-!
# C11 — the field-wise `merge` methods, stated against the GENERATED code

`_R2TjurBase.merge`, `RRegression.merge`, `SymmetricPredictionDifference.merge`, `MeanState.merge`,
`_ThresholdedConfusionMatrix.merge` are sequences of `self.f += other.f`.  The generated definitions
(`translate/scalar.py`, every run) are tied to the hand-model merges on which the `MergeLaws` instances of
`Properties/C11/Rolling.lean` / `Retrieval.lean` rest; a field added from the wrong operand field, or dropped,
breaks `lake build` here.  Only the receiver is rebuilt; the operand is an argument that is read, not returned.
-/
namespace MlModel.C11
open MlModel.Agg MlModel.Agg.Rolling MlModel.Gen MlModel.Generated

theorem C11_gen_r2tjur_merge (a b : Tjur) :
    Scalar.R2TjurBase_merge (ofTjur a) (ofTjur b) = ofTjur (Tjur.merge a b) := rfl

theorem C11_gen_rregression_merge (center c2 : Bool) (a b : RReg) :
    Scalar.RRegression_merge (ofRReg center a) (ofRReg c2 b) = ofRReg center (RReg.merge a b) := by
  simp [Scalar.RRegression_merge, ofRReg, RReg.merge, Nat.cast_add]

theorem C11_gen_spd_merge (a b : SPD) :
    Scalar.SymmetricPredictionDifference_merge (ofSPD a) (ofSPD b) = ofSPD (SPD.merge a b) := by
  simp [Scalar.SymmetricPredictionDifference_merge, ofSPD, SPD.merge, Nat.cast_add]

theorem C11_gen_meanstate_merge (a b : MeanState) :
    Scalar.MeanState_merge (ofMeanState a) (ofMeanState b) = ofMeanState (MeanState.merge a b) := by
  simp [Scalar.MeanState_merge, ofMeanState, MeanState.merge, Nat.cast_add]

/-- `_ThresholdedConfusionMatrix.merge`, one threshold: the four counts add up (`Counts.merge` is this,
`zipWith`-ed over the thresholds) -/
theorem C11_gen_thresholded_merge (a1 a2 a3 a4 b1 b2 b3 b4 : Nat) :
    Scalar.ThresholdedConfusionMatrix_merge ⟨flit a1, flit a2, flit a3, flit a4⟩ ⟨flit b1, flit b2, flit b3, flit b4⟩
      = ⟨flit (a1 + b1), flit (a2 + b2), flit (a3 + b3), flit (a4 + b4)⟩ := by
  simp [Scalar.ThresholdedConfusionMatrix_merge, Nat.cast_add]

/-- the generated field-wise merges are commutative and associative on NaN-free states, and a zero state is
neutral — directly on the generated code (here for Tjur; the others are the same `fadd` pattern) -/
theorem C11_gen_r2tjur_merge_laws (a b c : Tjur) :
    Scalar.R2TjurBase_merge (ofTjur a) (ofTjur b) = Scalar.R2TjurBase_merge (ofTjur b) (ofTjur a) ∧
    Scalar.R2TjurBase_merge (Scalar.R2TjurBase_merge (ofTjur a) (ofTjur b)) (ofTjur c)
      = Scalar.R2TjurBase_merge (ofTjur a) (Scalar.R2TjurBase_merge (ofTjur b) (ofTjur c)) ∧
    Scalar.R2TjurBase_merge (ofTjur Tjur.fresh) (ofTjur a) = ofTjur a ∧
    Scalar.R2TjurBase_merge (ofTjur a) (ofTjur Tjur.fresh) = ofTjur a := by
  simp only [C11_gen_r2tjur_merge]
  refine ⟨?_, ?_, ?_, ?_⟩
  · simp [Tjur.merge, add_comm]
  · simp [Tjur.merge, add_assoc]
  · simp [Tjur.merge, Tjur.fresh]
  · simp [Tjur.merge, Tjur.fresh]

/-- the merged-in operand is only read: the generated `MeanAndVariance.merge` returns a record that does not
depend on anything but the two argument values, and leaves the receiver's value when the guard fires -/
theorem C11_gen_meanvar_merge_guard_unit (g2 g3 : Bool) (s o : Scalar.MeanAndVariance) :
    Scalar.MeanAndVariance_merge true g2 g3 s o = s := meanvar_merge_guard g2 g3 s o

end MlModel.C11
