import MlModel.Lemmas.ThrHeapRefine
/-!
# C11 — `ThresholdedRetrieval` never damages its operands: count arrays as buffer cells

`Model/Agg/ThrHeap.lean` mirrors `ThresholdedRetrieval` / `_ThresholdedConfusionMatrix`
(aggregates/retrieval.py) statement by statement over a heap of array buffers: `__post_init__`
allocates the thresholds array and three zero count arrays, `add` allocates the batch object's three
arrays, merges them into the receiver **in place** (`ndarray +=`) and returns the batch object,
`merge` writes the receiver's three arrays reading the operand's, `result()` allocates one array per
metric and hands out the accumulator's own thresholds array.

`SysR` (`Model/Agg/HeapObs.lean`) is any number of accumulators in one heap together with every
value the caller was ever handed; a history is an arbitrary interleaving of

  make | add i batch | merge i j | result i | poke k n c   (the caller overwrites the n-th private
                                                              array of the k-th returned value)

All theorems quantify over every history, every number of accumulators, every threshold list and
metric configuration.
-/
namespace MlModel.C11
open MlModel.Agg.Heap MlModel.Agg.Retrieval.Thr MlModel.Agg.Retrieval.Thr.H

variable {α : Type} [DecidableEq α]

/-- the state after a history -/
abbrev thrRun (α : Type) [DecidableEq α] (ts : List Rat) (ms : List (Kind × Option Rat))
    (ops : List (OpR (List (Row α)) Cell)) : SysR (cls α ts ms) :=
  (SysR.init (cls α ts ms)).run ops

/-- **separation**: after every history no accumulator references a count array that another one
may write, all references are allocated, and the thresholds array of an accumulator is none of the
arrays it writes -/
theorem C11_retrieval_thr_separation (ts : List Rat) (ms : List (Kind × Option Rat))
    (ops : List (OpR (List (Row α)) Cell)) : Sep (thrRun α ts ms ops).base :=
  (InvR.run (laws α ts ms) ops).sep

/-- **what the caller is handed**: every array of a batch object returned by `add` and every metric
array returned by `result()` is referenced by no accumulator, at the time it is returned and for
ever after; the `'thresholds'` entry is the accumulator's own array, which no method of any
accumulator ever writes -/
theorem C11_retrieval_thr_returned_arrays (ts : List Rat) (ms : List (Kind × Option Rat))
    (ops : List (OpR (List (Row α)) Cell)) (out : Out) (hout : out ∈ (thrRun α ts ms ops).outs) :
    (∀ r ∈ out.priv, Private (thrRun α ts ms ops) r) ∧
    (∀ r ∈ out.exposed, NotOwned (thrRun α ts ms ops) r) :=
  ⟨(InvR.run (laws α ts ms) ops).priv out hout, (InvR.run (laws α ts ms) ops).exposed out hout⟩

/-- **merge / add only modify the receiver; `result()` and writes of the caller into returned
arrays modify nobody**: after any history, one more operation leaves every accumulator `j` that is
not its receiver — the operand of a merge included — with the same record and the same content of
every array it references -/
theorem C11_retrieval_thr_frame (ts : List Rat) (ms : List (Kind × Option Rat))
    (ops : List (OpR (List (Row α)) Cell)) (op : OpR (List (Row α)) Cell) (j : Nat) (oj : Obj)
    (hj : (thrRun α ts ms ops).objs[j]? = some oj) (hr : op.receiver ≠ some j) :
    ((thrRun α ts ms ops).step op).objs[j]? = some oj ∧
    ∀ r ∈ ((cls α ts ms).fp oj).refs,
      ((thrRun α ts ms ops).step op).heap.read r = (thrRun α ts ms ops).heap.read r :=
  frameR_step (laws α ts ms) (InvR.run (laws α ts ms) ops) op j oj hj hr

/-- the observable corollary: the counts an accumulator reports (`confusion_matrix`, hence every
rate of `result()`) are unchanged by every operation on another accumulator -/
theorem C11_retrieval_thr_counts_unchanged (ts : List Rat) (ms : List (Kind × Option Rat))
    (ops : List (OpR (List (Row α)) Cell)) (op : OpR (List (Row α)) Cell) (j : Nat) (oj : Obj)
    (hj : (thrRun α ts ms ops).objs[j]? = some oj) (hr : op.receiver ≠ some j) :
    abs ((thrRun α ts ms ops).step op).heap oj = abs (thrRun α ts ms ops).heap oj := by
  obtain ⟨_, h2⟩ := C11_retrieval_thr_frame ts ms ops op j oj hj hr
  have m : ∀ r ∈ [oj.tpTrues, oj.tpPreds, oj.pPreds], r ∈ ((cls α ts ms).fp oj).refs := fun r h => by
    show r ∈ (⟨[oj.tpTrues, oj.tpPreds, oj.pPreds], [oj.thr]⟩ : Footprint).refs
    simp only [Footprint.refs, List.mem_append]; exact Or.inl h
  simp only [abs]
  rw [h2 _ (m _ (by simp)), h2 _ (m _ (by simp)), h2 _ (m _ (by simp))]

/-- **reading a result is repeatable and disturbs nothing**: `result()` (and any write of the caller
into an array it was handed) leaves the counts of *every* accumulator as they were -/
theorem C11_retrieval_thr_result_pure (ts : List Rat) (ms : List (Kind × Option Rat))
    (ops : List (OpR (List (Row α)) Cell)) (op : OpR (List (Row α)) Cell)
    (hop : (∃ i, op = .result i) ∨ ∃ k n c, op = .poke k n c) (j : Nat) (oj : Obj)
    (hj : (thrRun α ts ms ops).objs[j]? = some oj) :
    ((thrRun α ts ms ops).step op).objs[j]? = some oj ∧
    abs ((thrRun α ts ms ops).step op).heap oj = abs (thrRun α ts ms ops).heap oj := by
  have hr : op.receiver ≠ some j := by
    rcases hop with ⟨i, rfl⟩ | ⟨k, n, c, rfl⟩ <;> simp [OpR.receiver]
  exact ⟨(C11_retrieval_thr_frame ts ms ops op j oj hj hr).1,
    C11_retrieval_thr_counts_unchanged ts ms ops op j oj hj hr⟩

/-- **a value once returned stays what it was**: every array of every value handed to the caller (a
batch object, a result) has the same content after any later history `more` of make / add / merge /
result / poke in which the caller does not overwrite that very array -/
theorem C11_retrieval_thr_returned_stable (ts : List Rat) (ms : List (Kind × Option Rat))
    (ops more : List (OpR (List (Row α)) Cell)) (out : Out) (hout : out ∈ (thrRun α ts ms ops).outs)
    (r : Nat) (hr : r ∈ out.refs)
    (hp : ∀ k n c, OpR.poke k n c ∈ more → (thrRun α ts ms ops).pokeRef k n ≠ some r) :
    ((thrRun α ts ms ops).run more).heap.read r = (thrRun α ts ms ops).heap.read r :=
  notOwned_read_run (laws α ts ms) more _ (InvR.run (laws α ts ms) ops) r
    ((InvR.run (laws α ts ms) ops).out_notOwned hout hr) hp

/-- **the heap model refines the value model**: after every history the counts accumulator `i`
holds in its arrays are the `Counts` value that the pure `Thr.Counts.merge` / `Thr.batchCounts`
(Model/Agg/RetrievalThr.lean — the model of C01 / C07 and of the merge laws above) compute along the
same history; its thresholds array holds the configured thresholds -/
theorem C11_retrieval_thr_heap_refines (ts : List Rat) (ms : List (Kind × Option Rat))
    (ops : List (OpR (List (Row α)) Cell)) (i : Nat) (o : Obj)
    (hi : (thrRun α ts ms ops).objs[i]? = some o) :
    (ops.foldl (pureStepR ts) [])[i]? = some (abs (thrRun α ts ms ops).heap o) ∧
    (thrRun α ts ms ops).heap.read o.thr = .rat ts := by
  obtain ⟨c, hc, ok⟩ := (refines_run ts ms ops).2 i o hi
  exact ⟨by rw [hc, ok.abs_eq], ok.thr⟩

/-- … and both populations have the same number of accumulators -/
theorem C11_retrieval_thr_heap_refines_length (ts : List Rat) (ms : List (Kind × Option Rat))
    (ops : List (OpR (List (Row α)) Cell)) :
    (thrRun α ts ms ops).objs.length = (ops.foldl (pureStepR (α := α) ts) []).length :=
  (refines_run ts ms ops).1

/-- **`result()` returns fresh arrays holding the rates of the current counts**, plus the
accumulator's thresholds array -/
theorem C11_retrieval_thr_result_value (ms : List (Kind × Option Rat)) (h : Heap Cell) (o : Obj) :
    (H.result ms h o).2.priv.map (H.result ms h o).1.read = (resultArrays (abs h o) ms).map Cell.rat ∧
    (H.result ms h o).2.exposed = [o.thr] ∧
    (∀ r ∈ (H.result ms h o).2.priv, h.size ≤ r) :=
  ⟨allocs_reads h _, rfl, fun r hr =>
    ((MlModel.Agg.Rolling.H.allocs_spec h ((resultArrays (abs h o) ms).map Cell.rat)).2.1 r hr).1⟩

/-! ## non-vacuity and sensitivity (tests, `decide`d) -/

/-- a.add(x); b.add(y); a.merge(b); r = b.result(); a.add(z); the caller overwrites r's array -/
def thrEx : List (OpR (List (Row Nat)) Cell) :=
  [.base .make, .base .make,
   .base (.add 0 [⟨[1, 2], [2, 5, 1], none⟩]), .base (.add 1 [⟨[4], [4], none⟩, ⟨[], [7], none⟩]),
   .base (.merge 0 1), .result 1, .base (.add 0 [⟨[3], [3], none⟩]), .poke 1 0 (.rat [9])]

/-- (test) the operand `b` still reports its own counts after the merge, the later add and the poke -/
example :
    let σ := thrRun Nat [0] [(.precision, none), (.recall, some 0)] thrEx
    (σ.objs[1]?.map (abs σ.heap)) = some ⟨[1], [1], 1, [2]⟩ ∧
    (σ.objs[0]?.map (abs σ.heap)) = some ⟨[4], [4], 4, [6]⟩ ∧ σ.outs.length = 4 := by
  decide +kernel

/-- (test) sensitivity: a `merge` that **keeps a reference to the operand's array**
(`self.tp_trues = other.tp_trues` when the receiver is still empty — the adopting shortcut) breaks
separation: the next `add` to the receiver changes the operand -/
def adoptingMerge (h : Heap Cell) (s o : Obj) : Heap Cell × Obj :=
  if s.pTrues = 0 then (h, { s with tpTrues := o.tpTrues, pTrues := o.pTrues }) else H.merge h s o

theorem C11_retrieval_thr_adopting_merge_witness :
    let bad : HClassR Cell (List (Row Nat)) := { cls Nat [0] [] with merge := adoptingMerge }
    let σ := (SysR.init bad).run [.base .make, .base .make, .base (.add 1 [⟨[4], [4], none⟩]), .base (.merge 0 1)]
    let σ' := σ.step (.base (.add 0 [⟨[3], [3], none⟩]))
    (σ.objs[1]?.map (abs σ.heap)) = some ⟨[1], [1], 1, [1]⟩ ∧
    (σ'.objs[1]?.map (abs σ'.heap)) = some ⟨[2], [1], 1, [1]⟩ := by
  decide +kernel

/-- (test) the one array `result()` shares with the accumulator is the thresholds array, and the
model says what that sharing means: `add` reads the thresholds from that array, so a caller that
overwrites `result()['thresholds']` in place changes what later batches are counted against
(thresholds `[0]` → `[2]`: the probability-1 match is no longer above the threshold) -/
theorem C11_retrieval_thr_exposed_thresholds_witness :
    let σ := thrRun Nat [0] [(.precision, none)] [.base .make, .result 0]
    let batch : List (Row Nat) := [⟨[4], [4], none⟩]
    let σ₁ := σ.step (.base (.add 0 batch))
    let σ₂ : SysR (cls Nat [0] [(.precision, none)]) :=
      (⟨σ.heap.write 0 (.rat [2]), σ.objs, σ.outs⟩ : SysR _).step (.base (.add 0 batch))
    σ.outs.map (·.exposed) = [[0]] ∧
    (σ₁.objs[0]?.map (abs σ₁.heap)) = some ⟨[1], [1], 1, [1]⟩ ∧
    (σ₂.objs[0]?.map (abs σ₂.heap)) = some ⟨[0], [0], 1, [0]⟩ := by
  decide +kernel

end MlModel.C11
