import MlModel.Lemmas.ConfusionSharding
import MlModel.Lemmas.ConfusionHeap
import MlModel.Lemmas.ConfusionSamplewise
/-!
# C11 (classification family) — merge is associative, commutative, has the fresh state as unit and
never modifies its operand

Part 1: algebra of `merge_states` on the states a fixed configuration can produce (`OGood`: `None`,
or count arrays of the configuration's shape), and **every merge plan** (`evalTree`: any bracketing
of any permutation of the shard states) gives the same state.
Part 2: aliasing, on the cell-heap view (`ConfusionHeap`): `merge_states` writes only the four
arrays of its receiver; `update_state` only allocates; distinct accumulators never share a cell.
`get_result` is a function of the state alone (it writes nothing), so reading it is repeatable and
commutes with later updates.
-/
namespace MlModel.C11
open MlModel.Agg.Confusion

section algebra
variable {axis : Option Nat} {W : Nat} (c : Cfg)
  (hguard : ((c.average == .weighted || c.average == .macro) && c.vocab.isNone) = false)
include hguard

/-- the fresh state (`create_state() = None`) is neutral on either side -/
theorem C11_classification_merge_unit (s : Option CMArr) (hs : OGood axis W s) :
    mergeStates c [none, s] = .ok s ∧ mergeStates c [s, none] = .ok s := by
  constructor
  · rw [mergeStates_eq (axis := axis) (W := W) c hguard _ (by intro x hx; simp at hx; rcases hx with rfl | rfl <;> trivial)]
    simp
  · rw [mergeStates_eq (axis := axis) (W := W) c hguard _ (by intro x hx; simp at hx; rcases hx with rfl | rfl <;> trivial)]
    simp

theorem C11_classification_merge_comm (a b : Option CMArr) (ha : OGood axis W a) (hb : OGood axis W b) :
    mergeStates c [a, b] = mergeStates c [b, a] := by
  rw [mergeStates_eq (axis := axis) (W := W) c hguard _ (by intro x hx; simp at hx; rcases hx with rfl | rfl <;> assumption),
    mergeStates_eq (axis := axis) (W := W) c hguard _ (by intro x hx; simp at hx; rcases hx with rfl | rfl <;> assumption)]
  simp [ogood_comm ha hb]

theorem C11_classification_merge_assoc (a b d : Option CMArr) (ha : OGood axis W a) (hb : OGood axis W b)
    (hd : OGood axis W d) :
    (mergeStates c [a, b] >>= fun ab => mergeStates c [ab, d])
      = (mergeStates c [b, d] >>= fun bd => mergeStates c [a, bd]) := by
  have two : ∀ x y, OGood axis W x → OGood axis W y → mergeStates c [x, y] = .ok (oadd x y) := by
    intro x y hx hy
    rw [mergeStates_eq (axis := axis) (W := W) c hguard _ (by intro z hz; simp at hz; rcases hz with rfl | rfl <;> assumption)]
    simp
  simp only [two a b ha hb, two b d hb hd, bind, Except.bind, two _ d (ogood_oadd ha hb) hd,
    two a _ ha (ogood_oadd hb hd), ogood_assoc ha hb hd]

/-- **every bracketing of every permutation**: two merge plans over the same shard states end in the
same state (hence report the same result) -/
theorem C11_classification_any_bracketing (states : List (Option CMArr))
    (hg : ∀ s ∈ states, OGood axis W s) (t₁ t₂ : MTree)
    (h₁ : ∀ i ∈ t₁.leaves, i < states.length) (hp : t₁.leaves.Perm t₂.leaves) :
    evalTree c states t₁ = evalTree c states t₂ :=
  evalTree_perm c hguard states hg t₁ t₂ h₁ hp

/-- a merge plan computes the sum of the states at its leaves, the fresh state counting as nothing -/
theorem C11_classification_merge_plan (states : List (Option CMArr))
    (hg : ∀ s ∈ states, OGood axis W s) (t : MTree) (h : ∀ i ∈ t.leaves, i < states.length) :
    evalTree c states t = .ok (leafSum states t.leaves) :=
  evalTree_eq c hguard states hg t h

end algebra

/-- the states reachable by `update_state` on well-formed batches are `OGood` (so the laws apply) -/
theorem C11_classification_reachable_good {X : Type} {c : Cfg} {axis : Option Nat} {W : Nat}
    {okB : List X → Prop} {toBatch : List X → Batch} {enc : X → DenseEx}
    (h : Encodes c axis W okB toBatch enc) (sh : List (List X)) (hok : ∀ b ∈ sh, okB b) :
    ∃ s, feedApi c (sh.map toBatch) = .ok s ∧ OGood axis W s :=
  ⟨_, h.feed sh hok, h.feed_good sh⟩

/-- non-vacuity: two different plans over three concrete states (one of them fresh) -/
example :
    let c : Cfg := { kind := .cm, metrics := [.RECALL], single := true, posLabel := 1,
                     input := some .binary, average := .binary, vocab := none, kList := [] }
    let s (tp tn fp fn : Int) : Option CMArr := some { tp := .s tp, tn := .s tn, fp := .s fp, fn := .s fn }
    evalTree c [s 1 2 3 4, none, s 5 6 7 8] (.node [.node [.leaf 0, .leaf 1], .leaf 2])
      = evalTree c [s 1 2 3 4, none, s 5 6 7 8] (.node [.leaf 2, .node [.leaf 1, .leaf 0]]) := by
  rfl

/-! ## Part 2 — aliasing on the cell heap -/

section heap

/-- **frame**: `result += accumulator` changes no cell outside the receiver's four arrays, and
allocates nothing -/
theorem C11_classification_frame (h h' : Heap) (a b : CMRef) (hm : Heap.iadd h a b = .ok h') :
    h'.length = h.length ∧ ∀ i, i ∉ a.refs → h'.cell i = h.cell i := by
  simp only [Heap.iadd, bind, Except.bind, pure, Except.pure] at hm
  split at hm <;> try contradiction
  split at hm <;> try contradiction
  split at hm <;> try contradiction
  split at hm <;> try contradiction
  injection hm with hm
  subst hm
  refine ⟨by simp, fun i hi => ?_⟩
  simp only [CMRef.refs, List.mem_cons, List.not_mem_nil, or_false, not_or] at hi
  obtain ⟨h1, h2, h3, h4⟩ := hi
  rw [cell_set_ne _ _ _ _ (Ne.symm h4), cell_set_ne _ _ _ _ (Ne.symm h3),
    cell_set_ne _ _ _ _ (Ne.symm h2), cell_set_ne _ _ _ _ (Ne.symm h1)]

/-- **the operand still reports its own value**: if receiver and operand share no array, merging
leaves the operand (and any other accumulator disjoint from the receiver) untouched -/
theorem C11_classification_operand_intact (h h' : Heap) (a b : CMRef) (hm : Heap.iadd h a b = .ok h')
    (hdisj : ∀ i ∈ b.refs, i ∉ a.refs) : h'.read b = h.read b := by
  obtain ⟨_, hf⟩ := C11_classification_frame h h' a b hm
  simp only [Heap.read]
  rw [hf _ (hdisj _ (by simp [CMRef.refs])), hf _ (hdisj _ (by simp [CMRef.refs])),
    hf _ (hdisj _ (by simp [CMRef.refs])), hf _ (hdisj _ (by simp [CMRef.refs]))]

/-- `update_state` (`cm + state`) and `_ConfusionMatrix(...)` only allocate: every existing cell
keeps its value (heap extension), and the new object's arrays are brand-new, pairwise distinct cells -/
theorem C11_classification_alloc_fresh (h : Heap) (cm : CMArr) :
    (∀ i, i < h.length → (h.alloc cm).1.cell i = h.cell i) ∧
    (∀ i ∈ (h.alloc cm).2.refs, h.length ≤ i ∧ i < (h.alloc cm).1.length) ∧
      (h.alloc cm).2.refs.Nodup ∧ (h.alloc cm).1.read (h.alloc cm).2 = cm := by
  refine ⟨fun i hi => ?_, ?_, ?_, ?_⟩
  · simp [Heap.alloc, Heap.cell, List.getD_eq_getElem?_getD, List.getElem?_append_left hi]
  · intro i hi
    simp only [Heap.alloc, CMRef.refs, List.mem_cons, List.not_mem_nil, or_false] at hi
    simp only [Heap.alloc, List.length_append, List.length_cons, List.length_nil]
    omega
  · simp [Heap.alloc, CMRef.refs]
  · simp [Heap.alloc, Heap.read, Heap.cell, List.getD_eq_getElem?_getD]

/-- separation: live accumulators own pairwise disjoint, allocated cells -/
def Separated (h : Heap) (live : List CMRef) : Prop :=
  (live.flatMap CMRef.refs).Nodup ∧ ∀ r ∈ live, ∀ i ∈ r.refs, i < h.length

/-- … and this is an invariant of every step the API can take: allocation of a new object
(`update_state`, first batch or `cm + state`) … -/
theorem C11_classification_separation_alloc (h : Heap) (live : List CMRef) (cm : CMArr)
    (hs : Separated h live) : Separated (h.alloc cm).1 (live ++ [(h.alloc cm).2]) := by
  obtain ⟨hn, hb⟩ := hs
  obtain ⟨_, hfresh, hnd, _⟩ := C11_classification_alloc_fresh h cm
  constructor
  · rw [List.flatMap_append, List.nodup_append]
    refine ⟨hn, by simpa using hnd, ?_⟩
    intro i hi j hj hij
    subst hij
    obtain ⟨r, hr, hir⟩ := List.mem_flatMap.mp hi
    have h1 := hb r hr i hir
    have h2 := (hfresh i (by simpa using hj)).1
    omega
  · intro r hr i hi
    rcases List.mem_append.mp hr with hr | hr
    · have := hb r hr i hi
      simp only [Heap.alloc, List.length_append]; omega
    · simp only [List.mem_singleton] at hr; subst hr
      exact (hfresh i hi).2

/-- … and the in-place merge (references and heap size are unchanged) -/
theorem C11_classification_separation_merge (h h' : Heap) (live : List CMRef) (a b : CMRef)
    (hm : Heap.iadd h a b = .ok h') (hs : Separated h live) : Separated h' live := by
  obtain ⟨hl, _⟩ := C11_classification_frame h h' a b hm
  exact ⟨hs.1, fun r hr i hi => by rw [hl]; exact hs.2 r hr i hi⟩

/-- the heap step refines the functional `CMArr.iadd` used in Part 1 (receiver's arrays distinct) -/
theorem C11_classification_heap_refines (h : Heap) (a b : CMRef) (ha : a.refs.Nodup)
    (hb : ∀ i ∈ b.refs, i ∉ a.refs) (hin : ∀ i ∈ a.refs, i < h.length) (r : CMArr)
    (hr : (h.read a).iadd (h.read b) = .ok r) :
    ∃ h', Heap.iadd h a b = .ok h' ∧ h'.read a = r := by
  simp only [CMRef.refs, List.nodup_cons, List.mem_cons, List.not_mem_nil, or_false, not_or,
    List.nodup_nil, and_true, not_false_eq_true] at ha
  obtain ⟨⟨a12, a13, a14⟩, ⟨a23, a24⟩, a34⟩ := ha
  have b1 := hb b.tp (by simp [CMRef.refs]); have b2 := hb b.tn (by simp [CMRef.refs])
  have b3 := hb b.fp (by simp [CMRef.refs]); have b4 := hb b.fn (by simp [CMRef.refs])
  simp only [CMRef.refs, List.mem_cons, List.not_mem_nil, or_false, not_or] at b1 b2 b3 b4
  have i1 := hin a.tp (by simp [CMRef.refs]); have i2 := hin a.tn (by simp [CMRef.refs])
  have i3 := hin a.fp (by simp [CMRef.refs]); have i4 := hin a.fn (by simp [CMRef.refs])
  simp only [CMArr.iadd, Heap.read, bind, Except.bind, pure, Except.pure] at hr
  split at hr <;> try contradiction
  rename_i tp htp
  split at hr <;> try contradiction
  rename_i tn htn
  split at hr <;> try contradiction
  rename_i fp hfp
  split at hr <;> try contradiction
  rename_i fn hfn
  injection hr with hr
  subst hr
  have cs : ∀ (g : Heap) (i : Nat) (v : Arr Int), i < g.length → Heap.cell (g.set i v) i = v := by
    intro g i v hi
    simp [Heap.cell, List.getD_eq_getElem?_getD, List.getElem?_set_self hi]
  have e : Heap.iadd h a b = .ok ((((h.set a.tp tp).set a.tn tn).set a.fp fp).set a.fn fn) := by
    simp only [Heap.iadd, bind, Except.bind, pure, Except.pure, htp,
      cell_set_ne _ _ _ _ a12, cell_set_ne _ _ _ _ (Ne.symm b2.1), htn,
      cell_set_ne _ _ _ _ a13, cell_set_ne _ _ _ _ a23, cell_set_ne _ _ _ _ (Ne.symm b3.1),
      cell_set_ne _ _ _ _ (Ne.symm b3.2.1), hfp,
      cell_set_ne _ _ _ _ a14, cell_set_ne _ _ _ _ a24, cell_set_ne _ _ _ _ a34,
      cell_set_ne _ _ _ _ (Ne.symm b4.1), cell_set_ne _ _ _ _ (Ne.symm b4.2.1),
      cell_set_ne _ _ _ _ (Ne.symm b4.2.2.1), hfn]
  refine ⟨_, e, ?_⟩
  simp only [Heap.read]
  rw [cell_set_ne _ _ _ _ (Ne.symm a14), cell_set_ne _ _ _ _ (Ne.symm a13),
    cell_set_ne _ _ _ _ (Ne.symm a12), cs _ _ _ i1,
    cell_set_ne _ _ _ _ (Ne.symm a24), cell_set_ne _ _ _ _ (Ne.symm a23), cs _ _ _ (by simpa using i2),
    cell_set_ne _ _ _ _ (Ne.symm a34), cs _ _ _ (by simpa using i3), cs _ _ _ (by simpa using i4)]

end heap
/-! ## `SamplewiseClassification.merge` -/

/-- `merge` of samplewise accumulators is commutative and associative with the fresh accumulator as
unit (states are compared observationally: the map metric ↦ `MeanState(total, count)` that
`result()` reads) -/
theorem C11_classification_samplewise_merge (a b d : SwState) :
    swMerge a b = swMerge b a ∧ swMerge (swMerge a b) d = swMerge a (swMerge b d) ∧
    swMerge SwState.empty a = a ∧ swMerge a SwState.empty = a :=
  ⟨swMerge_comm a b, swMerge_assoc a b d, swMerge_empty_left a, swMerge_empty_right a⟩

/-- `add` never looks at the state it updates: it is `merge` with the batch's own contribution
(so updates of one accumulator cannot leak into another, and `result()` — a pure function of the
state — can be read between updates without changing anything) -/
theorem C11_classification_samplewise_add_is_merge (sqrt : Rat → Rat) (c : Cfg) (st : SwState) (b : Batch) :
    swAdd sqrt c st b = (swAdd sqrt c SwState.empty b).map
      fun (r : List (Generated.Metric × List Rat) × SwState) => (r.1, swMerge st r.2) :=
  swAdd_eq sqrt c st b

end MlModel.C11
