import MlModel.Lemmas.AggTextTree
import MlModel.Lemmas.AggTextHeap
/-!
# C11 (text family) — merging `FrequencyState`s is a commutative monoid; merge never touches its operand

Two layers:

* **values** (`FreqState`, `Model/Agg/Text.lean`): `merge` is associative and commutative, the fresh
  state is a unit on both sides, hence every bracketing and every order of the same states gives the
  same `result()`.  The hypothesis `WF` (the `dict` keys are unique) holds for every state any
  program can build (`C11_text_reachable_wf`).
* **objects** (`World`, `Model/Agg/TextHeap.lean`): accumulators hold *references* to `Counter`
  cells; `merge`/`add` write to the receiver's cell.  For **every** program of
  `make/add/merge/result` calls over any number of accumulators the heap run is
  indistinguishable from the value run (`C11_text_no_aliasing`), distinct accumulators never share
  a cell (`C11_text_separation`), a call changes only its receiver (`C11_text_frame`), and
  `result()` changes nothing and is repeatable (`C11_text_result_pure`).
  `Witness/C11Text.lean` shows that a merge which adopts the operand's container is *not* a
  refinement, i.e. the heap model does distinguish copying from referencing.
-/
namespace MlModel.C11
open MlModel.Agg MlModel.Agg.Text

theorem C11_text_assoc (m : Metric) (a b c : FreqState Str) (ha : a.WF) (hb : b.WF) (hc : c.WF) :
    m.result ((a.merge b).merge c) = m.result (a.merge (b.merge c)) :=
  m.result_congr (FreqState.wf_merge c (FreqState.wf_merge b ha))
    (FreqState.wf_merge _ ha) (FreqState.merge_assoc a b c hb hc)

theorem C11_text_comm (m : Metric) (a b : FreqState Str) (ha : a.WF) (hb : b.WF) :
    m.result (a.merge b) = m.result (b.merge a) :=
  m.result_congr (FreqState.wf_merge b ha) (FreqState.wf_merge a hb) (FreqState.merge_comm a b ha hb)

/-- a freshly created state is neutral on either side -/
theorem C11_text_unit (m : Metric) (a : FreqState Str) (ha : a.WF) :
    m.result (FreqState.empty.merge a) = m.result a ∧ m.result (a.merge FreqState.empty) = m.result a :=
  ⟨m.result_congr (FreqState.wf_merge a FreqState.wf_empty) ha (FreqState.merge_empty_left a ha),
   by rw [FreqState.merge_empty_right]⟩

/-- every grouping (any binary merge tree) and every order of the same states gives the same result -/
theorem C11_text_any_bracketing (m : Metric) (t t' : STree) (h : ∀ s ∈ t.leaves, s.WF)
    (hp : t.leaves.Perm t'.leaves) : m.result t.eval = m.result t'.eval := by
  obtain ⟨w1, w2, ho⟩ := STree.eval_perm t t' h hp
  exact m.result_congr w1 w2 ho

/-- the hypothesis of the laws is met by every state of every program (empty states included) -/
theorem C11_text_reachable_wf (m : Metric) (prog : List Op) :
    ∀ s ∈ (prun m [] prog).1, s.WF :=
  prun_wf m prog [] (by simp)

/-- **No aliasing, ever**: for every program the objects-on-a-heap semantics returns exactly the
observations of the value semantics (in which nothing can be shared), and ends in the same values.  In
particular a merged-in operand keeps reporting its own result, and later updates of either side do not
show through the other. -/
theorem C11_text_no_aliasing (m : Metric) (prog : List Op) :
    (run m {} prog).2 = (prun m [] prog).2 ∧ (run m {} prog).1.abs = (prun m [] prog).1 := by
  obtain ⟨_, h2, h3⟩ := run_refines m prog {} World.inv_empty
  exact ⟨h3, h2⟩

/-- separation: after any program, distinct accumulators reference distinct allocated cells -/
theorem C11_text_separation (m : Metric) (prog : List Op) : (run m {} prog).1.Inv :=
  (run_refines m prog {} World.inv_empty).1

/-- frame: in any reachable world, a call changes no accumulator except its receiver — the operand
`j` of `merge i j` and all bystanders denote the same value before and after -/
theorem C11_text_frame (m : Metric) (prog : List Op) (op : Op) (l : Nat)
    (hl : l < (run m {} prog).1.accs.length)
    (hadd : ∀ i texts, op = .add i texts → l ≠ i) (hmerge : ∀ i j, op = .merge i j → l ≠ i) :
    (step m (run m {} prog).1 op).1.abs[l]? = (run m {} prog).1.abs[l]? :=
  step_frame m _ (C11_text_separation m prog) op l hl hadd hmerge

/-- `result()` is a read: the world is unchanged, so reading twice gives the same rows and later calls
are not disturbed -/
theorem C11_text_result_pure (m : Metric) (w : World) (i : Nat) :
    (step m w (.result i)).1 = w ∧
      (step m (step m w (.result i)).1 (.result i)).2 = (step m w (.result i)).2 := by
  have h : (step m w (.result i)).1 = w := by
    simp only [step, stepWith]
    cases w.accs[i]? <;> rfl
  exact ⟨h, by rw [h]⟩

/-! Non-vacuity (tests, evaluated by the kernel). -/

/-- test: the states built by a small program are well formed and non-trivial -/
example : ((prun (.patterns { patterns := [['a'], ['b']] }) []
    [.make, .make, .add 0 [['a', 'b'], ['a']], .add 1 [['b']], .merge 0 1]).1.map (·.count)) = [3, 1] := by
  decide

/-- test: `merge 0 1` leaves accumulator 1 (the operand) alone in that program -/
example : ((run (.patterns { patterns := [['a'], ['b']] }) {}
    [.make, .make, .add 0 [['a', 'b'], ['a']], .add 1 [['b']], .merge 0 1]).1.abs)[1]?
    = some ⟨[(['a'], 0), (['b'], 1)], 1⟩ := by decide

end MlModel.C11
