import MlModel.Lemmas.AggHeapMS
import MlModel.Lemmas.AggRollingHeap
import MlModel.Lemmas.ThrHeap
import MlModel.Lemmas.ThrHeapMS
import MlModel.Lemmas.CmStateHeap
import MlModel.Lemmas.HistHeap
/-!
# C11 — `merge_states` over ANY number of states only ever modifies the FIRST one

"merge only ever modifies its receiver, so the merged-in state still reports its own result"
(C11) and "Only the first state may be modified and returned" (`Aggregatable.merge_states`,
aggregates/base.py:130) — for the n-ary call `merge_states(states)` of the AggregateFn API, which
`Model/Agg/HeapMS.lean` makes ONE operation of the history alphabet
(`for state in iter_states: result.merge(state)`, base.py:195–200).

Everything is generic in the accumulator class: it is proved from the per-class heap contract
`HLaws` (make / add / merge) resp. `HLawsR` (… plus `result()` and the values handed to the caller),
so it holds for every modelled class — UnboundedSampler, ValueAccumulator, FixedSizeSample,
MeanAndVariance-2D, ThresholdedRetrieval, the ConfusionMatrixAggFn state API, Histogram — for every
number of states, every position in the list, never-updated states anywhere, after every history
whose alphabet itself contains `mergeStates`.

* `C11_merge_states_writes_first_only`      every other accumulator keeps its record and every cell it references
* `C11_merge_states_writes_first_only_returned`   … in populations with returned values; every array ever handed
                                             to the caller keeps its content as well
* `C11_merge_states_only_first_owned_cells` of ALL pre-existing cells only those in the first state's
                                             `owned` footprint may change
* `C11_merge_states_separation(_returned)`  separation / the returned-value invariant after every such history
* `C11_merge_states_history_flatten(_returned)`   such a history reaches what the history of binary merges reaches
* `C11_merge_states_frame_every_op`         the frame for every operation of the larger alphabet
* per class: the READING (`usAbs`, `fssAbs`, `Thr.H.abs`, `absSt`, hist / edges) of every non-first state is unchanged;
  ThresholdedRetrieval: the arrays hold exactly what the pure n-ary left fold of `Counts.merge` computes.

`Witness/C11MergeStates.lean`: the pairwise-rounds reduction of the seeded regression C11-m3 writes
state 2 once there are four states (and is indistinguishable with one to three).
-/
namespace MlModel.C11
open MlModel.Agg.Heap

variable {C B : Type} [Inhabited C]

/-! ## generic: every class obeying `HLaws` -/

/-- **merge_states writes the first state only.**  After any history of make / add / merge /
merge_states, one more `merge_states(ids)` — any length, any order, never-updated states anywhere —
leaves every accumulator `k` that is not `ids[0]` with the same record and the same content in every
cell it references. -/
theorem C11_merge_states_writes_first_only {cls : HClass C B} (laws : HLaws cls) (ops : List (OpM B))
    (ids : List Nat) (k : Nat) (ok : cls.Obj)
    (hk : ((Sys.init cls).runM ops).objs[k]? = some ok) (hne : ids.head? ≠ some k) :
    (((Sys.init cls).runM ops).mergeStates ids).objs[k]? = some ok ∧
    ∀ r ∈ (cls.fp ok).refs,
      (((Sys.init cls).runM ops).mergeStates ids).heap.read r = ((Sys.init cls).runM ops).heap.read r :=
  frame_mergeStates laws (Sep.runM laws ops) ids k ok hk hne

/-- **which cells can change at all**: of the cells that exist before the call, only those in the
`owned` footprint that the first state has before the call (the containers its methods write in
place).  Covers every other accumulator, every value the caller holds, and unreferenced cells. -/
theorem C11_merge_states_only_first_owned_cells {cls : HClass C B} (laws : HLaws cls) (ops : List (OpM B))
    (i : Nat) (js : List Nat) (s : cls.Obj) (hi : ((Sys.init cls).runM ops).objs[i]? = some s)
    (r : Nat) (hr : r < ((Sys.init cls).runM ops).heap.size) (hno : r ∉ (cls.fp s).owned) :
    (((Sys.init cls).runM ops).mergeStates (i :: js)).heap.read r = ((Sys.init cls).runM ops).heap.read r :=
  (mergeStates_extends laws (Sep.runM laws ops) i js s hi).2 r hr hno

/-- separation is an invariant of every history whose alphabet contains `merge_states` -/
theorem C11_merge_states_separation {cls : HClass C B} (laws : HLaws cls) (ops : List (OpM B)) :
    Sep ((Sys.init cls).runM ops) :=
  Sep.runM laws ops

omit [Inhabited C] in
/-- a history with n-ary calls reaches exactly the population of the history in which every call
is written as its left fold of binary merges into the first state -/
theorem C11_merge_states_history_flatten {cls : HClass C B} (ops : List (OpM B)) :
    (Sys.init cls).runM ops = (Sys.init cls).run (ops.flatMap OpM.flatten) :=
  runM_eq_run ops _

/-- the frame for EVERY operation of the larger alphabet: whoever is not the receiver is not written -/
theorem C11_merge_states_frame_every_op {cls : HClass C B} (laws : HLaws cls) (ops : List (OpM B))
    (op : OpM B) (k : Nat) (ok : cls.Obj)
    (hk : ((Sys.init cls).runM ops).objs[k]? = some ok) (hrecv : op.receiver ≠ some k) :
    (((Sys.init cls).runM ops).stepM op).objs[k]? = some ok ∧
    ∀ r ∈ (cls.fp ok).refs,
      (((Sys.init cls).runM ops).stepM op).heap.read r = ((Sys.init cls).runM ops).heap.read r :=
  frame_stepM laws (Sep.runM laws ops) op k ok hk hrecv

omit [Inhabited C] in
/-- an empty list raises (`next()` of an exhausted iterator) before anything is touched -/
theorem C11_merge_states_empty_raises_unchanged {cls : HClass C B} (σ : Sys cls) :
    mergeStatesRaises [] = true ∧ σ.mergeStates [] = σ := ⟨rfl, rfl⟩

/-! ## generic: every class obeying `HLawsR` (values handed to the caller, reads, caller writes) -/

/-- **merge_states writes the first state only**, in populations that also hold every value the
caller was ever handed (batch objects returned by `add`, arrays of a `result()`, previous state
objects of `update_state`), after any history of make / add / merge / merge_states / result / poke:
every non-first accumulator keeps record and cells, and every array of every returned value keeps its
content. -/
theorem C11_merge_states_writes_first_only_returned {cls : HClassR C B} (laws : HLawsR cls)
    (ops : List (OpRM B C)) (ids : List Nat) :
    (∀ (k : Nat) (ok : cls.Obj), ((SysR.init cls).runM ops).objs[k]? = some ok → ids.head? ≠ some k →
      (((SysR.init cls).runM ops).mergeStates ids).objs[k]? = some ok ∧
      ∀ r ∈ (cls.fp ok).refs,
        (((SysR.init cls).runM ops).mergeStates ids).heap.read r = ((SysR.init cls).runM ops).heap.read r) ∧
    (∀ out ∈ ((SysR.init cls).runM ops).outs, ∀ r ∈ out.refs,
      (((SysR.init cls).runM ops).mergeStates ids).heap.read r = ((SysR.init cls).runM ops).heap.read r) ∧
    (((SysR.init cls).runM ops).mergeStates ids).outs = ((SysR.init cls).runM ops).outs :=
  ⟨fun k ok hk hne => frameR_mergeStates laws (InvR.runM laws ops) ids k ok hk hne,
   fun _ hout _ hr => notOwned_read_mergeStates laws (InvR.runM laws ops) ids
     ((InvR.runM laws ops).out_notOwned hout hr),
   (mergeStatesR_base _ ids).2⟩

/-- the invariant of `Lemmas/AggHeapObs.lean` (separation; private returned arrays referenced by no
accumulator; exposed ones written by none) after every history with `merge_states` -/
theorem C11_merge_states_separation_returned {cls : HClassR C B} (laws : HLawsR cls)
    (ops : List (OpRM B C)) : InvR ((SysR.init cls).runM ops) :=
  InvR.runM laws ops

omit [Inhabited C] in
theorem C11_merge_states_history_flatten_returned {cls : HClassR C B} (ops : List (OpRM B C)) :
    (SysR.init cls).runM ops = (SysR.init cls).run (ops.flatMap OpRM.flatten) :=
  runRM_eq_run ops _

/-! ## per class: what every non-first state REPORTS is unchanged -/

open MlModel.Agg.Rolling MlModel.Agg.Rolling.H in
/-- `UnboundedSampler`: the samples every non-first state reads -/
theorem C11_merge_states_sampler_reading_unchanged (α : Type) (ops : List (OpM (List (List α))))
    (ids : List Nat) (k : Nat) (ok : USObj)
    (hk : ((Sys.init (usClass α)).runM ops).objs[k]? = some ok) (hne : ids.head? ≠ some k) :
    (((Sys.init (usClass α)).runM ops).mergeStates ids).objs[k]? = some ok ∧
    usAbs (((Sys.init (usClass α)).runM ops).mergeStates ids).heap ok
      = usAbs ((Sys.init (usClass α)).runM ops).heap ok := by
  obtain ⟨h1, h2⟩ := C11_merge_states_writes_first_only (usLaws α) ops ids k ok hk hne
  refine ⟨h1, ?_⟩
  simp only [usAbs, US.mk.injEq, and_true]
  apply List.map_congr_left
  intro r hr'
  exact h2 r (by simp [usClass, Footprint.refs, hr'])

open MlModel.Agg.Rolling MlModel.Agg.Rolling.H in
/-- `FixedSizeSample`: reservoir content and reviewed-count of every non-first state -/
theorem C11_merge_states_reservoir_reading_unchanged (α : Type) (maxSize : Nat) (seed : Rng)
    (ops : List (OpM (List α))) (ids : List Nat) (k : Nat) (ok : FSSObj)
    (hk : ((Sys.init (fssClass α true maxSize seed)).runM ops).objs[k]? = some ok)
    (hne : ids.head? ≠ some k) :
    (((Sys.init (fssClass α true maxSize seed)).runM ops).mergeStates ids).objs[k]? = some ok ∧
    fssAbs (((Sys.init (fssClass α true maxSize seed)).runM ops).mergeStates ids).heap ok
      = fssAbs ((Sys.init (fssClass α true maxSize seed)).runM ops).heap ok := by
  obtain ⟨h1, h2⟩ := C11_merge_states_writes_first_only (fssLaws α maxSize seed) ops ids k ok hk hne
  refine ⟨h1, ?_⟩
  simp only [fssAbs, FSS.mk.injEq, true_and, and_true]
  exact h2 ok.ref (by simp [fssClass, Footprint.refs])

open MlModel.Agg.Rolling MlModel.Agg.Rolling.H in
/-- `ValueAccumulator`: the objects every non-first state holds -/
theorem C11_merge_states_value_accumulator_reading_unchanged (α : Type)
    (ops : List (OpM (List (List α)))) (ids : List Nat) (k : Nat) (ok : VAObj)
    (hk : ((Sys.init (vaClass α)).runM ops).objs[k]? = some ok) (hne : ids.head? ≠ some k) :
    (((Sys.init (vaClass α)).runM ops).mergeStates ids).objs[k]? = some ok ∧
    vaAbs (((Sys.init (vaClass α)).runM ops).mergeStates ids).heap ok
      = vaAbs ((Sys.init (vaClass α)).runM ops).heap ok := by
  obtain ⟨h1, h2⟩ := C11_merge_states_writes_first_only (vaLaws α) ops ids k ok hk hne
  refine ⟨h1, ?_⟩
  simp only [vaAbs]
  apply List.map_congr_left
  intro r hr'
  exact h2 r (by simp [vaClass, Footprint.refs, hr'])

open MlModel.Agg.Retrieval.Thr MlModel.Agg.Retrieval.Thr.H in
/-- `ThresholdedRetrieval`: the counts of every non-first state -/
theorem C11_merge_states_thr_counts_unchanged {α : Type} [DecidableEq α] (ts : List Rat)
    (ms : List (Kind × Option Rat)) (ops : List (OpRM (List (Row α)) Cell)) (ids : List Nat) (k : Nat)
    (ok : Obj) (hk : ((SysR.init (cls α ts ms)).runM ops).objs[k]? = some ok) (hne : ids.head? ≠ some k) :
    (((SysR.init (cls α ts ms)).runM ops).mergeStates ids).objs[k]? = some ok ∧
    abs (((SysR.init (cls α ts ms)).runM ops).mergeStates ids).heap ok
      = abs ((SysR.init (cls α ts ms)).runM ops).heap ok := by
  obtain ⟨h1, h2⟩ := (C11_merge_states_writes_first_only_returned (laws α ts ms) ops ids).1 k ok hk hne
  refine ⟨h1, ?_⟩
  have m : ∀ r ∈ [ok.tpTrues, ok.tpPreds, ok.pPreds], r ∈ ((cls α ts ms).fp ok).refs := fun r h => by
    show r ∈ (⟨[ok.tpTrues, ok.tpPreds, ok.pPreds], [ok.thr]⟩ : Footprint).refs
    simp only [Footprint.refs, List.mem_append]; exact Or.inl h
  simp only [abs]
  rw [h2 _ (m _ (by simp)), h2 _ (m _ (by simp)), h2 _ (m _ (by simp))]

open MlModel.Agg.Confusion.SH in
/-- `ConfusionMatrixAggFn` state API: the four count arrays of every non-first state -/
theorem C11_merge_states_cm_state_unchanged (ops : List (OpRM Batch Cell)) (ids : List Nat) (k : Nat)
    (sk : St) (hk : ((SysR.init (cls true)).runM ops).objs[k]? = some sk) (hne : ids.head? ≠ some k) :
    (((SysR.init (cls true)).runM ops).mergeStates ids).objs[k]? = some sk ∧
    absSt (((SysR.init (cls true)).runM ops).mergeStates ids).heap sk
      = absSt ((SysR.init (cls true)).runM ops).heap sk := by
  obtain ⟨h1, h2⟩ := (C11_merge_states_writes_first_only_returned laws ops ids).1 k sk hk hne
  refine ⟨h1, ?_⟩
  cases sk with
  | none => rfl
  | some a =>
    have m : ∀ r ∈ a.refs, r ∈ ((cls true).fp (some a)).refs := fun r h => by
      show r ∈ (⟨a.refs, []⟩ : Footprint).refs
      simpa [Footprint.refs] using h
    simp only [absSt, readCM]
    rw [h2 _ (m _ (by simp [CM.refs])), h2 _ (m _ (by simp [CM.refs])), h2 _ (m _ (by simp [CM.refs])),
      h2 _ (m _ (by simp [CM.refs]))]

open MlModel.Agg.Rolling.HistH in
/-- `Histogram`: bins and edges of every non-first state -/
theorem C11_merge_states_hist_unchanged (edges : List Rat) (ops : List (OpRM (List Rat) Cell))
    (ids : List Nat) (k : Nat) (ok : Obj)
    (hk : ((SysR.init (cls edges)).runM ops).objs[k]? = some ok) (hne : ids.head? ≠ some k) :
    (((SysR.init (cls edges)).runM ops).mergeStates ids).objs[k]? = some ok ∧
    (((SysR.init (cls edges)).runM ops).mergeStates ids).heap.read ok.hist
      = ((SysR.init (cls edges)).runM ops).heap.read ok.hist ∧
    (((SysR.init (cls edges)).runM ops).mergeStates ids).heap.read ok.edges
      = ((SysR.init (cls edges)).runM ops).heap.read ok.edges := by
  obtain ⟨h1, h2⟩ := (C11_merge_states_writes_first_only_returned (laws edges) ops ids).1 k ok hk hne
  have m : ∀ r ∈ [ok.hist, ok.edges], r ∈ ((cls edges).fp ok).refs := fun r h => by
    show r ∈ (⟨[], [ok.hist, ok.edges]⟩ : Footprint).refs
    simpa [Footprint.refs] using h
  exact ⟨h1, h2 _ (m _ (by simp)), h2 _ (m _ (by simp))⟩

/-! ## ThresholdedRetrieval: the heap model refines the pure n-ary left fold -/


open MlModel.Agg.Retrieval.Thr MlModel.Agg.Retrieval.Thr.H in
/-- for every history of make / add / merge / **merge_states** / result / poke the three count
arrays and the int of every accumulator hold exactly what the value model computes, where the value
of `merge_states` is the left fold of the pure `Counts.merge` into the first state -/
theorem C11_merge_states_thr_heap_refines {α : Type} [DecidableEq α] (ts : List Rat)
    (ms : List (Kind × Option Rat)) (ops : List (OpRM (List (Row α)) Cell)) (i : Nat) (o : Obj)
    (hi : ((SysR.init (cls α ts ms)).runM ops).objs[i]? = some o) :
    (ops.foldl (pureStepRM ts) [])[i]? = some (abs ((SysR.init (cls α ts ms)).runM ops).heap o) := by
  rw [pureRunRM_flatten]
  rw [C11_merge_states_history_flatten_returned] at hi ⊢
  obtain ⟨c, hc, ok⟩ := (refines_run ts ms (ops.flatMap OpRM.flatten)).2 i o hi
  rw [hc, ok.abs_eq]

/-! ## tests (non-vacuity) -/

open MlModel.Agg.Rolling MlModel.Agg.Rolling.H in
/-- (test) five samplers, the third never updated; `merge_states` in the order 3, 0, 2, 4, 1: the
first of the list holds everything in list order, every other one what it held -/
example :
    let σ := (Sys.init (usClass Nat)).runM [.base .make, .base .make, .base .make, .base .make, .base .make,
      .base (.add 0 [[1]]), .base (.add 1 [[2]]), .base (.add 3 [[4]]), .base (.add 4 [[5, 6]]),
      .mergeStates [3, 0, 2, 4, 1]]
    σ.objs.map (fun o => (usAbs σ.heap o).samples) = [[[1]], [[2]], [], [[4, 1, 5, 6, 2]], [[5, 6]]] := by
  decide +kernel

open MlModel.Agg.Confusion.SH in
/-- (test) `ConfusionMatrixAggFn`: first state never updated (None) — the merged value lands in a
copy, states 1..3 keep their arrays -/
example :
    let b : Nat → Batch := fun n => ⟨[n], [0], [1], [2]⟩
    let σ := (SysR.init (cls true)).runM [.r (.base .make), .r (.base .make), .r (.base .make),
      .r (.base .make), .r (.base (.add 1 (b 1))), .r (.base (.add 2 (b 2))), .r (.base (.add 3 (b 3))),
      .mergeStates [0, 1, 2, 3]]
    σ.objs.map (absSt σ.heap) = [some ⟨[6], [0], [3], [6]⟩, some (b 1), some (b 2), some (b 3)] := by
  decide +kernel

end MlModel.C11
