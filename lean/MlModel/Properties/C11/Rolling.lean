import MlModel.Lemmas.AggRollingSimple
import MlModel.Lemmas.AggRollingMeanVar
import MlModel.Lemmas.AggMergeLaws
/-!
# C11 — merge is associative, commutative, unital, "rolling" metric family (algebraic part)

`MergeLaws m Eqv` (Lemmas/AggMergeLaws.lean) bundles, for the states that arise from data:
associativity and commutativity of `merge` up to the result equivalence, fresh = two-sided unit,
equal results for equivalent states, and the closed form "any bracketing, any order: two
histories over the same multiset of examples have the same result".  The order-carrying
accumulators satisfy `OrderedMergeLaws` (no commutativity; the result is the concatenation in
merge order).  The frame / aliasing part of C11 is in `C11/RollingHeap.lean`.
-/
namespace MlModel.C11
open MlModel.Agg MlModel.Agg.Rolling

theorem C11_rolling_meanvar_1d_laws : MergeLaws mv1 MVEqv :=
  mv1_lawful.toLawfulU.mergeLaws mv1_perm

theorem C11_rolling_meanvar_2d_laws (k : Nat) : MergeLaws (mv2 k) MVEqv :=
  (mv2_lawful k).toLawfulU.mergeLaws (mv2_perm k)

theorem C11_rolling_mean_1d_laws : MergeLaws mean1 MVEqv :=
  mean1_lawful.toLawfulU.mergeLaws mean1_perm

theorem C11_rolling_mean_2d_laws (k : Nat) : MergeLaws (mean2 k) MVEqv :=
  (mean2_lawful k).toLawfulU.mergeLaws (mean2_perm k)

theorem C11_rolling_meanstate_laws : MergeLaws meanState Eq :=
  meanState_lawful.toLawfulU.mergeLaws meanState_perm

theorem C11_rolling_tuplemeanstate_laws (k : Nat) : MergeLaws (tupleMeanState k) Eq :=
  (tupleMeanState_lawfulU k).mergeLaws (tupleMeanState_perm k)

theorem C11_rolling_counter_laws : MergeLaws counter CounterEqv :=
  counter_lawful.toLawfulU.mergeLaws counter_perm

theorem C11_rolling_histogram_laws (edges : List Rat) : MergeLaws (histogram edges) Eq :=
  (histogram_lawful edges).toLawfulU.mergeLaws (histogram_perm edges)

theorem C11_rolling_minmax_laws : MergeLaws minMaxAndCount Eq :=
  minMaxAndCount_lawful.toLawfulU.mergeLaws minMaxAndCount_perm

theorem C11_rolling_r2tjur_laws : MergeLaws r2Tjur Eq :=
  r2Tjur_lawful.toLawfulU.mergeLaws r2Tjur_perm

theorem C11_rolling_r2tjur_relative_laws : MergeLaws r2TjurRelative Eq :=
  r2TjurRelative_lawful.toLawfulU.mergeLaws r2TjurRelative_perm

theorem C11_rolling_rregression_laws (center : Bool) : MergeLaws (rRegression center) Eq :=
  (rRegression_lawful center).toLawfulU.mergeLaws (rRegression_perm center)

theorem C11_rolling_spd_laws : MergeLaws symPredDiff Eq :=
  symPredDiff_lawful.toLawfulU.mergeLaws symPredDiff_perm

/-- `UnboundedSampler`: associative, fresh is a unit, result = concatenation in merge order -/
theorem C11_rolling_sampler_laws (α : Type) [Inhabited α] (k : Nat) :
    OrderedMergeLaws (unboundedSampler α k) Eq :=
  (unboundedSampler_lawfulU α k).orderedMergeLaws

/-- `ValueAccumulator` -/
theorem C11_rolling_value_accumulator_laws (α : Type) [Inhabited α] (k : Nat) :
    OrderedMergeLaws (valueAccumulator α k) Eq :=
  (valueAccumulator_lawfulU α k).orderedMergeLaws

/-- for the metrics whose fresh state is the state of an empty batch, "same multiset of examples
⇒ same result" holds for *all* pairs of histories (no side condition) -/
theorem C11_rolling_meanvar_2d_any_history (k : Nat) {e₁ e₂ : Expr (Row k)}
    (h : e₁.data.Perm e₂.data) :
    (mv2 k).result (e₁.eval (mv2 k)) = (mv2 k).result (e₂.eval (mv2 k)) :=
  (mv2_lawful k).any_history (mv2_perm k) h

theorem C11_rolling_histogram_any_history (edges : List Rat) {e₁ e₂ : Expr (F × Rat)}
    (h : e₁.data.Perm e₂.data) :
    (histogram edges).result (e₁.eval (histogram edges))
      = (histogram edges).result (e₂.eval (histogram edges)) :=
  (histogram_lawful edges).any_history (histogram_perm edges) h

/-! ## FrequencyState (utils.py:63–82): no `add`; the laws hold for *all* states -/

/-- same multiplicities and same total -/
def FreqEqv (s t : FreqState) : Prop := CounterEqv s.counter t.counter ∧ s.count = t.count

theorem C11_rolling_frequencystate_assoc (a b c : FreqState) :
    FreqEqv ((a.merge b).merge c) (a.merge (b.merge c)) :=
  ⟨fun k => by simp only [FreqState.merge, CounterS.get_merge]; omega,
   by simp only [FreqState.merge]; omega⟩

theorem C11_rolling_frequencystate_comm (a b : FreqState) : FreqEqv (a.merge b) (b.merge a) :=
  ⟨fun k => by simp only [FreqState.merge, CounterS.get_merge]; omega,
   by simp only [FreqState.merge]; omega⟩

theorem C11_rolling_frequencystate_unit (a : FreqState) :
    FreqEqv (FreqState.fresh.merge a) a ∧ FreqEqv (a.merge FreqState.fresh) a :=
  ⟨⟨fun k => by simp [FreqState.merge, FreqState.fresh, CounterS.get_merge, CounterS.get_nil],
    by simp [FreqState.merge, FreqState.fresh]⟩,
   ⟨fun k => by simp [FreqState.merge, FreqState.fresh, CounterS.get_merge, CounterS.get_nil],
    by simp [FreqState.merge, FreqState.fresh]⟩⟩

/-- the reported relative frequencies depend only on the equivalence class -/
theorem C11_rolling_frequencystate_result {s t : FreqState} (h : FreqEqv s t) (k : Int) :
    s.freq k = t.freq k := by
  simp only [FreqState.freq, h.1 k, h.2]

/-! ## non-vacuity (tests) -/

example : Reach (mv2 2) ((mv2 2).ofBatch [⟨[some 1, none], rfl⟩]) := ⟨.batch _, rfl⟩
example : (Expr.merge (.batch [1, 2]) (.batch [3])).data.Perm
    (Expr.merge (.batch [3]) (.merge .fresh (.batch [2, 1]))).data (α := Rat) := by decide

end MlModel.C11
