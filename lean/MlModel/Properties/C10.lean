import MlModel.Model.Resume
namespace MlModel.C10
open MlModel.Resume
theorem C10_placeholder : (Src.root 3).start = 0 := rfl
end MlModel.C10
