import MlModel.Lemmas.Resume
import MlModel.Lemmas.ResumeChain
import MlModel.Lemmas.AggCore
import MlModel.Lemmas.ResumeSliced
import MlModel.Lemmas.PipeAggInst
/-!
# C10 — checkpoint and resume continue exactly where iteration stopped

Histories are lists of `take k` / `ckpt` / `restore` (`Model/Resume.lean: Op`); a restore abandons
the running iterator and rebuilds one from the last captured state, rolling back what was
delivered since that checkpoint.  The brief's `checkpointRestore` is `[ckpt, restore]`.
No bound on the source, the shard chain, the offsets, the history or the `take` sizes.

Full statement of the property (English): *for every recoverable source or pipeline over it,
every history and every supported execution configuration, the elements delivered across all
generations are exactly the source's, none repeated, none skipped, and the final aggregate equals
the uninterrupted run's.*  Proved at full strength for sources (`C10_source*`), for sequential
(`num_threads = 0`) pipelines whose chain is row-wise (`C10_pipeline_seq*`) and for chains of such
runners (`C10_pipeline_chain`).  For chains that
buffer (re-batching, finding F16) and for `num_threads > 0` (finding F12) the real code does not
satisfy the property; the `_partial` theorems state exactly what is lost — the rows held between
the source cursor and the consumer at a checkpoint from which the pipeline is restored — and
`Witness/C10.lean` exhibits concrete instances.
-/
namespace MlModel.C10
open MlModel.Resume

variable {α β T X S Res ρ : Type}

/-! ## Sources -/

/-- the elements of a (sharded, offset) `SequenceDataSource`: `data[start:end]` -/
def seqElems (data : List α) (s : Src) : List α := (data.take s.stop).drop s.start

/-- Refinement for `SequenceIterator`: a restore from the captured state is at the same position
in the same list (`abs (restore (state it)) = abs it`), for every shard chain and offset. -/
theorem C10_refinement_seq (data : List α) (it : SeqIt) (hi : SeqIt.Inv data.length it) :
    ∃ it', SeqIt.restore data.length it.state = .ok it' ∧ SeqIt.Inv data.length it' ∧
      SeqIt.rem data it' = SeqIt.rem data it :=
  (seqRec_refines data).restore_state it hi

/-- Refinement for `DataIterator` (`ShardedIterable`). -/
theorem C10_refinement_iter (data : List α) (it : IterIt) (hi : 1 ≤ it.cfg.num) :
    ∃ it', IterIt.restore it.state = .ok it' ∧ 1 ≤ it'.cfg.num ∧
      IterIt.rem data it' = IterIt.rem data it :=
  (iterRec_refines data).restore_state it hi

/-- **C10 for `SequenceDataSource`**: for every chain of `shard(i, k, offset)` calls that the
source accepts and every history, what was delivered on the surviving timeline followed by what
the current iterator will still deliver is exactly `data[start:end]` — nothing repeated, nothing
skipped, at every point of every history. -/
theorem C10_source (data : List α) (chain : Chain) (s : Src)
    (hs : chain.foldlM Src.shard (Src.root data.length) = .ok s) (ops : List Op) :
    ∃ r, SrcRun.run (seqRec data) (SrcRun.init (seqRec data) s.iterate) ops = .ok r ∧
      r.delivered ++ SeqIt.rem data r.it = seqElems data s :=
  have hw : s.WF data.length := Src.WF.fromState (n := data.length) (ch := chain) hs
  let ⟨r, h1, _, h3⟩ := (seqRec_refines data).history s.iterate ⟨hw, Nat.le_refl _⟩ ops
  ⟨r, h1, h3⟩

/-- … hence after a final `take k` that drains, everything delivered across all generations is the
source's element list. -/
theorem C10_source_drained (data : List α) (chain : Chain) (s : Src)
    (hs : chain.foldlM Src.shard (Src.root data.length) = .ok s) (ops : List Op) (k : Nat)
    (hk : data.length ≤ k) :
    ∃ r, SrcRun.run (seqRec data) (SrcRun.init (seqRec data) s.iterate) (ops ++ [.take k]) = .ok r ∧
      r.delivered = seqElems data s := by
  have hw : s.WF data.length := Src.WF.fromState (n := data.length) (ch := chain) hs
  refine (seqRec_refines data).history_drained s.iterate ⟨hw, Nat.le_refl _⟩ ops k ?_
  show ((data.take s.stop).drop s.start).length ≤ k
  simp only [List.length_drop, List.length_take]; omega

/-- the elements of a `ShardedIterable` with config `(idx, num, start_index)`: positions
`p ≥ start_index` with `p % num = idx`, in order -/
def iterElems (data : List α) (cfg : Cfg) : List α := shardElems cfg.idx cfg.num cfg.off 0 data

theorem C10_iterElems_eq_filter (data : List α) (cfg : Cfg) :
    iterElems data cfg =
      (data.zipIdx.filter fun p => decide (cfg.off ≤ p.2 ∧ p.2 % cfg.num = cfg.idx)).map (·.1) :=
  shardElems_eq_filter _ _ _ _ _

/-- **C10 for `ShardedIterable`** (round-robin shards of any iterable, any start index). -/
theorem C10_source_iter (data : List α) (cfg : Cfg) (hn : 1 ≤ cfg.num) (ops : List Op) :
    ∃ r, SrcRun.run (iterRec data) (SrcRun.init (iterRec data) ⟨cfg, 0⟩) ops = .ok r ∧
      r.delivered ++ IterIt.rem data r.it = iterElems data cfg := by
  obtain ⟨r, h1, _, h3⟩ := (iterRec_refines data).history (⟨cfg, 0⟩ : IterIt) hn ops
  exact ⟨r, h1, by simpa [IterIt.rem, iterElems] using h3⟩

/-- configurations the code rejects are rejected by the model with the same error kind -/
theorem C10_source_errors (s : Src) (c : Cfg) (h : c.num = 0) : s.shard c = .error .value ∧
    IterIt.restore c = .error .value := by
  simp [Src.shard, shardIval, IterIt.restore, h]

/-! ## Sequential pipelines (`num_threads = 0`) over any recoverable source -/

section pipelines
variable {R : Recoverable α} {Inv : R.It → Prop} {rem : R.It → List α}

/-- **C10 for sequential row-wise pipelines** (`apply`/`assign`/`select`/`filter`/error skipping
without batch sizes: at most one output per source element; any recoverable source, any aggregate).
For every history: the outputs delivered on the surviving timeline, followed by the outputs the
current iterator will still deliver, are exactly the outputs of the uninterrupted run
`(elements).flatMap f`; nothing is ever lost; and `agg_state` is the aggregate fed exactly the
delivered outputs. -/
theorem C10_pipeline_seq (h : Refines R Inv rem) (f : α → List β) (hf : ∀ a, (f a).length ≤ 1)
    (m : Agg.Mergeable X S Res) (batchOf : β → List X) (it : R.It) (hi : Inv it) (ops : List Op) :
    ∃ r, PipeRun.run R (rowPipe f m batchOf) (rowViewOf f) (PipeRun.init R (rowPipe f m batchOf) it) ops = .ok r ∧
      Ev.delivered r.trace ++ PipeIt.futRows rem (rowViewOf f) r.p = (rem it).flatMap f ∧
      Ev.lostRows r.trace = [] ∧
      r.p.agg = aggOf (rowPipe f m batchOf) (Ev.delivered r.trace) m.empty := by
  have hc := rowPipe_conserves f m batchOf
  obtain ⟨r, h1, g⟩ := (PipeRun.Good.init h (rowPipe f m batchOf) (rowViewOf f) hc it hi).run h _ _ hc ops
  have hw : RowWise1 (rowPipe f m batchOf).tr := ⟨fun _ a => hf a, fun _ => rfl⟩
  have c := (PipeRun.Clean.init (ρ := β) (rowPipe f m batchOf) it).run _ (rowViewOf f) hw (fun _ => rfl) ops h1
  refine ⟨r, h1, ?_, ?_, g.agg⟩
  · have := g.cur
    rw [c.trace, Ev.allRows_dlv] at this
    simpa [rowViewOf, flatMap_singleton] using this
  · rw [c.trace, Ev.lostRows_dlv]

/-- … hence: **delivered outputs and final aggregate equal the uninterrupted run**, for every
history, when both runs end with a `take k` that drains. -/
theorem C10_pipeline_seq_uninterrupted (h : Refines R Inv rem) (f : α → List β)
    (hf : ∀ a, (f a).length ≤ 1) (m : Agg.Mergeable X S Res) (batchOf : β → List X) (it : R.It)
    (hi : Inv it) (ops : List Op) (k : Nat) (hk : ((rem it).flatMap f).length < k) :
    ∃ r u,
      PipeRun.run R (rowPipe f m batchOf) (rowViewOf f) (PipeRun.init R (rowPipe f m batchOf) it)
        (ops ++ [.take k]) = .ok r ∧
      PipeRun.run R (rowPipe f m batchOf) (rowViewOf f) (PipeRun.init R (rowPipe f m batchOf) it)
        [.take k] = .ok u ∧
      Ev.delivered r.trace = (rem it).flatMap f ∧
      Ev.delivered r.trace = Ev.delivered u.trace ∧ r.p.agg = u.p.agg ∧
      m.result r.p.agg = m.result u.p.agg := by
  obtain ⟨r, h1, h2, h3, _⟩ := PipeRun.drained h f hf m batchOf it hi ops k hk
  obtain ⟨u, u1, u2, u3, _⟩ := PipeRun.drained h f hf m batchOf it hi [] k hk
  exact ⟨r, u, h1, by simpa using u1, h2, by rw [h2, u2], by rw [h3, u3], by rw [h3, u3]⟩

/-- With a lawful aggregate (`Lemmas/AggCore.lean`, the C01 laws) the final result of any
interrupted run is the result of one accumulator fed all rows of the uninterrupted run as a single
batch. -/
theorem C10_pipeline_seq_onebatch (h : Refines R Inv rem) (f : α → List β)
    (hf : ∀ a, (f a).length ≤ 1) (m : Agg.Mergeable X S Res) (Eqv : S → S → Prop)
    (hl : Agg.Lawful m Eqv) (batchOf : β → List X) (it : R.It)
    (hi : Inv it) (ops : List Op) (k : Nat) (hk : ((rem it).flatMap f).length < k) :
    ∃ r, PipeRun.run R (rowPipe f m batchOf) (rowViewOf f) (PipeRun.init R (rowPipe f m batchOf) it)
        (ops ++ [.take k]) = .ok r ∧
      m.result r.p.agg = m.result (m.ofBatch ((((rem it).flatMap f).map batchOf).flatten)) := by
  obtain ⟨r, u, h1, _, h3, _, _, _⟩ := C10_pipeline_seq_uninterrupted h f hf m batchOf it hi ops k hk
  obtain ⟨r', h1', _, _, h4⟩ := C10_pipeline_seq h f hf m batchOf it hi (ops ++ [.take k])
  rw [h1] at h1'
  injection h1' with e
  subst e
  refine ⟨r, h1, ?_⟩
  rw [h4, h3]
  exact hl.result_congr (hl.feed_eq _)

/-- **Chains of runners** (several named transforms, `TreeTransform.chain`): the downstream
runner's data source is the upstream runner's iterator, a checkpoint of the chain nests the upstream
`_IteratorState` in the downstream one, and a restore rebuilds the upstream iterator as the data
source of the downstream one (`Model/Resume.lean: pipeRec`).  For every history of the chained
iterator that ends drained: the delivered outputs equal the uninterrupted run's, and so do the
aggregates of **both** runners — the upstream aggregate is the aggregate of all upstream outputs.
(Chains of any length, with an aggregate at any subset of the stages, and the bookkeeping of
`_ChainedRunnerIterator.from_state`: `C10_pipeline_chain_any` below.) -/
theorem C10_pipeline_chain {γ X₂ S₂ Res₂ : Type} (h : Refines R Inv rem) (f : α → List β)
    (hf : ∀ a, (f a).length ≤ 1) (g : β → List γ) (hg : ∀ b, (g b).length ≤ 1)
    (m : Agg.Mergeable X S Res) (batchOf : β → List X)
    (m₂ : Agg.Mergeable X₂ S₂ Res₂) (batchOf₂ : γ → List X₂) (it : R.It) (hi : Inv it)
    (ops : List Op) (k : Nat) (hk : (((rem it).flatMap f).flatMap g).length < k) :
    let Ra := pipeRec R (rowPipe f m batchOf)
    let start := PipeRun.init (ρ := γ) Ra (rowPipe g m₂ batchOf₂) (PipeIt.fresh R (rowPipe f m batchOf) it m.empty)
    ∃ r u,
      PipeRun.run Ra (rowPipe g m₂ batchOf₂) (rowViewOf g) start (ops ++ [.take k]) = .ok r ∧
      PipeRun.run Ra (rowPipe g m₂ batchOf₂) (rowViewOf g) start [.take k] = .ok u ∧
      Ev.delivered r.trace = ((rem it).flatMap f).flatMap g ∧
      Ev.delivered r.trace = Ev.delivered u.trace ∧
      r.p.agg = u.p.agg ∧
      r.p.src.agg = aggOf (rowPipe f m batchOf) ((rem it).flatMap f) m.empty ∧
      r.p.src.agg = u.p.src.agg := by
  intro Ra start
  have h' := pipeRec_refines h f hf m batchOf ((rem it).flatMap f)
  have hi' := PipeIt.SrcInv.fresh (Inv := Inv) (rem := rem) f m batchOf it hi
  have up : ∀ p : PipeIt Ra γ Unit S₂,
      PipeIt.PInv (PipeIt.SrcInv Inv rem f m batchOf ((rem it).flatMap f)) (fun q : PipeIt R β Unit S => (rem q.src).flatMap f) p →
      p.done = true → p.src.agg = aggOf (rowPipe f m batchOf) ((rem it).flatMap f) m.empty := by
    intro p hp hd
    obtain ⟨⟨_, _, D, hD, ha⟩, hrem⟩ := hp
    have := hrem hd
    rw [this, List.append_nil] at hD
    rw [ha, hD]
  obtain ⟨r, h1, h2, h3, h4, h5⟩ := PipeRun.drained h' g hg m₂ batchOf₂ _ hi' ops k hk
  obtain ⟨u, u1, u2, u3, u4, u5⟩ := PipeRun.drained h' g hg m₂ batchOf₂ _ hi' [] k hk
  refine ⟨r, u, h1, by simpa using u1, h2, by rw [h2, u2], by rw [h3, u3], up r.p h4 h5, ?_⟩
  rw [up r.p h4 h5, up u.p u4 u5]

/-! ## Chains of named transforms of ANY length, aggregates at ANY stage

`Model/ResumeChain.lean`: a chain is a list of stages (downstream first), its iterator the nesting of
runner iterators (`chainRec`), the user-visible object the `_ChainedRunnerIterator` (`ChainIt`:
the last iterator + `_iterators` as hop counts along `_data_sources`), `from_state` = restore the
last iterator (which restores the whole upstream chain as its data sources) + the walk up the
restored chain. -/

/-- **`_ChainedRunnerIterator.from_state` tracks every stage of the restored chain exactly once**:
for a chain of `n ≥ 1` stages the walk succeeds and the restored `_iterators` has `n` entries, no
iterator twice, every stage (hop count `< n`) among them, and entry `i` is the restored iterator of
stage `i` (`n - 1 - i` hops upstream of the restored last one). -/
theorem C10_chain_restore_tracks_every_stage (n : Nat) (hn : 0 < n) :
    ∃ t, ChainIt.walk n (n - 1) [0] = .ok t ∧ t.length = n ∧ t.Nodup ∧ (∀ d, d ∈ t ↔ d < n) ∧
      ∀ i, i < n → t[i]? = some (n - 1 - i) :=
  ⟨depthsOf n, walk_all n hn, depthsOf_length n, depthsOf_nodup n, mem_depthsOf n, depthsOf_getElem? n⟩

/-- a walk that would leave the restored chain (more rounds than upstream stages) is the
`AssertionError` of `_ChainedRunnerIterator.__init__`, never a silently shorter or longer list -/
theorem C10_chain_walk_errors (n : Nat) (hn : 0 < n) : ChainIt.walk n n [0] = .error .assertion := by
  have hw : ∀ (k : Nat) (its : List Nat), ChainIt.walk n k its = .ok (depthsOf n) → 0 < n →
      ChainIt.walk n (k + 1) its = .error .assertion := by
    intro k
    induction k with
    | zero =>
      intro its h0 hn
      simp only [ChainIt.walk] at h0
      injection h0 with h0
      subst h0
      obtain ⟨m, rfl⟩ : ∃ m, n = m + 1 := ⟨n - 1, by omega⟩
      simp [ChainIt.walk, depthsOf]
    | succ k ih =>
      intro its h0 hn
      cases its with
      | nil => simp [ChainIt.walk] at h0
      | cons d rest =>
        by_cases hd : d + 1 < n
        · simp only [ChainIt.walk, hd, if_true] at h0
          have := ih _ h0 hn
          rw [ChainIt.walk]
          simp only [hd, if_true]
          exact this
        · simp [ChainIt.walk, hd] at h0
  have := hw (n - 1) [0] (walk_all n hn) hn
  have e : n - 1 + 1 = n := by omega
  rw [e] at this
  exact this

section chains
variable {R : Recoverable β} {Inv : R.It → Prop} {rem : R.It → List β}

/-- **One `from_state` on a chain of any length** (any cut, any generation — `c` is any reachable
chained iterator): restoring from the state just captured succeeds, the restored last iterator
will deliver exactly what `c` would still have delivered, every stage gets back exactly the
aggregation state it had at the checkpoint, every stage is tracked exactly once, and therefore
`agg_state` / `agg_result` of the restored iterator are those of `c`.  Checkpointing the restored
iterator immediately yields a state that restores to the same again (second conjunct applied
twice). -/
theorem C10_chain_from_state (h : Refines R Inv rem) (E : List β) (s : Stage β X S Res)
    (ss : List (Stage β X S Res)) (hf : ∀ t ∈ s :: ss, ∀ a, (t.f a).length ≤ 1)
    (c : ChainIt R (s :: ss)) (hi : chainInv Inv rem E (s :: ss) c.top)
    (ht : c.tracked = depthsOf (s :: ss).length) :
    ∃ c', ChainIt.fromState R (s :: ss) c (ChainIt.state R (s :: ss) c) = .ok c' ∧
      chainInv Inv rem E (s :: ss) c'.top ∧
      chainRem rem (s :: ss) c'.top = chainRem rem (s :: ss) c.top ∧
      aggsDown R (s :: ss) c'.top = aggsDown R (s :: ss) c.top ∧
      c'.tracked = depthsOf (s :: ss).length ∧
      ChainIt.aggState R (s :: ss) c' = ChainIt.aggState R (s :: ss) c := by
  obtain ⟨it', h1, h2, h3⟩ := (chain_refines h E (s :: ss) hf).1.restore_state c.top hi
  have hw : ChainIt.walk (s :: ss).length (c.tracked.length - 1) [0] = .ok (depthsOf (s :: ss).length) := by
    rw [ht, depthsOf_length]; exact walk_all _ (by simp)
  have ha := chain_restore_aggs (s :: ss) c.top it' h1
  refine ⟨⟨it', depthsOf (s :: ss).length⟩, ?_, h2, h3, ha, rfl, ?_⟩
  · simp only [ChainIt.fromState, ChainIt.state, h1, hw, bind, Except.bind, pure, Except.pure]
  · rw [aggState_tracked _ _ rfl, aggState_tracked _ _ ht, ha]

/-- **C10 for chains of any length with aggregates at any stage.**  For every chain of `n ≥ 1`
row-wise named transforms over any recoverable source, every history (any number of checkpoints
and restores, cuts anywhere incl. before the first and after the last element, restores of
restored iterators, checkpoints taken immediately after a restore) that ends drained:

* the delivered elements are exactly the uninterrupted run's (`chainOut`), none repeated, none
  skipped;
* the aggregation state of EVERY stage — not only of the last two — is the aggregate of all the
  outputs of that stage (`finalAggs`), hence equal to the uninterrupted run's;
* `_iterators` tracks every stage exactly once, and `agg_state` / `agg_result` / the returned
  `AggregateResult` (`ChainIt.aggState`) list every stage that has an aggregate once, upstream
  first, with exactly that final state — the same as the uninterrupted run. -/
theorem C10_pipeline_chain_any (h : Refines R Inv rem) (s : Stage β X S Res)
    (ss : List (Stage β X S Res)) (hf : ∀ t ∈ s :: ss, ∀ a, (t.f a).length ≤ 1)
    (it : R.It) (hi : Inv it) (ops : List Op) (k : Nat)
    (hk : (chainOut (s :: ss) (rem it)).length < k) :
    ∃ r u,
      ChainRun.run R (s :: ss) (ChainRun.init R (s :: ss) it) (ops ++ [.take k]) = .ok r ∧
      ChainRun.run R (s :: ss) (ChainRun.init R (s :: ss) it) [.take k] = .ok u ∧
      r.delivered = chainOut (s :: ss) (rem it) ∧ r.delivered = u.delivered ∧
      aggsDown R (s :: ss) r.c.top = finalAggs (s :: ss) (rem it) ∧
      aggsDown R (s :: ss) r.c.top = aggsDown R (s :: ss) u.c.top ∧
      r.c.tracked = depthsOf (s :: ss).length ∧
      ChainIt.aggState R (s :: ss) r.c =
        ((s :: ss).zip (finalAggs (s :: ss) (rem it))).reverse.filterMap
          (fun p => if p.1.hasAgg then some (p.1.name, p.2) else none) ∧
      ChainIt.aggState R (s :: ss) r.c = ChainIt.aggState R (s :: ss) u.c := by
  obtain ⟨href, hx⟩ := chain_refines h (rem it) (s :: ss) hf
  obtain ⟨fi, fr⟩ := chain_fresh (Inv := Inv) (rem := rem) it hi (s :: ss)
  have hn : 0 < (s :: ss).length := by simp
  have key : ∀ ops' : List Op, ∃ r,
      ChainRun.run R (s :: ss) (ChainRun.init R (s :: ss) it) (ops' ++ [.take k]) = .ok r ∧
      r.delivered = chainOut (s :: ss) (rem it) ∧
      aggsDown R (s :: ss) r.c.top = finalAggs (s :: ss) (rem it) ∧
      r.c.tracked = depthsOf (s :: ss).length := by
    intro ops'
    obtain ⟨q, q1, q2, q3, q4⟩ := href.history_drained_exh (chainExh (s :: ss)) hx
      (chainFresh R (s :: ss) it) fi ops' k (by rw [fr]; exact hk)
    obtain ⟨r, r1, r2, r3⟩ := ChainRun.run_sim hn (ops' ++ [.take k]) (ChainRun.init R (s :: ss) it) rfl q
      (by rw [ChainRun.init_toSrc]; exact q1)
    refine ⟨r, r1, ?_, ?_, r3⟩
    · have : r.delivered = q.delivered := by rw [← r2]; rfl
      rw [this, q2, fr]
    · have : r.c.top = q.it := by rw [← r2]; rfl
      rw [this]
      exact aggsDown_final (rem it) (s :: ss) q.it q3 q4
  obtain ⟨r, r1, r2, r3, r4⟩ := key ops
  obtain ⟨u, u1, u2, u3, u4⟩ := key []
  have ra := aggState_tracked (s :: ss) r.c r4
  have ua := aggState_tracked (s :: ss) u.c u4
  refine ⟨r, u, r1, by simpa using u1, r2, by rw [r2, u2], r3, by rw [r3, u3], r4, ?_, ?_⟩
  · rw [ra, r3]
  · rw [ra, ua, r3, u3]

/-- … and at EVERY moment of every history (not only at the end): what was delivered on the
surviving timeline followed by what the chained iterator will still deliver is the uninterrupted
run's output; the aggregation state of every stage is the aggregate of exactly the prefix of that
stage's uninterrupted output stream that the stage has delivered so far (`consumedAggs`: the whole
stream minus what the stage will still deliver) — in particular right after a restore at any cut and
in any generation; and `_iterators` tracks every stage exactly once. -/
theorem C10_pipeline_chain_any_prefix (h : Refines R Inv rem) (s : Stage β X S Res)
    (ss : List (Stage β X S Res)) (hf : ∀ t ∈ s :: ss, ∀ a, (t.f a).length ≤ 1)
    (it : R.It) (hi : Inv it) (ops : List Op) :
    ∃ r, ChainRun.run R (s :: ss) (ChainRun.init R (s :: ss) it) ops = .ok r ∧
      r.delivered ++ chainRem rem (s :: ss) r.c.top = chainOut (s :: ss) (rem it) ∧
      chainInv Inv rem (rem it) (s :: ss) r.c.top ∧
      aggsDown R (s :: ss) r.c.top = consumedAggs rem (s :: ss) r.c.top (rem it) ∧
      r.c.tracked = depthsOf (s :: ss).length := by
  obtain ⟨href, _⟩ := chain_refines h (rem it) (s :: ss) hf
  obtain ⟨fi, fr⟩ := chain_fresh (Inv := Inv) (rem := rem) it hi (s :: ss)
  obtain ⟨q, q1, q2, q3⟩ := href.history (chainFresh R (s :: ss) it) fi ops
  obtain ⟨r, r1, r2, r3⟩ := ChainRun.run_sim (by simp) ops (ChainRun.init R (s :: ss) it) rfl q
    (by rw [ChainRun.init_toSrc]; exact q1)
  have e1 : r.delivered = q.delivered := by rw [← r2]; rfl
  have e2 : r.c.top = q.it := by rw [← r2]; rfl
  exact ⟨r, r1, by rw [e1, e2, q3, fr], by rw [e2]; exact q2,
    aggsDown_consumed (rem it) (s :: ss) r.c.top (by rw [e2]; exact q2), r3⟩

/-- `from_state` reads nothing of its receiver but the number of tracked iterators (and the runners,
which are the chain itself): restoring through the running iterator (`it.from_state(state)`) and
through a fresh one (`pipeline.make().iterate().from_state(state)`, the idiom of the tests) is the
same. -/
theorem C10_chain_from_state_receiver (rs : List (Stage β X S Res)) (c₁ c₂ : ChainIt R rs)
    (hl : c₁.tracked.length = c₂.tracked.length) (st : (chainRec R rs).St) :
    ChainIt.fromState R rs c₁ st = ChainIt.fromState R rs c₂ st := by
  simp only [ChainIt.fromState, hl]

/-- the result every stage reports when its aggregate is fed, as ONE batch, all the rows of all the
outputs of that stage in the uninterrupted run (stages downstream first) -/
def oneBatchResults : List (Stage β X S Res) → List β → List Res
  | [], _ => []
  | s :: ss, E =>
    s.m.result (s.m.ofBatch (((chainOut (s :: ss) E).map s.batchOf).flatten)) :: oneBatchResults ss E

/-- With lawful aggregates (`Lemmas/AggCore.lean`, the C01 laws) at every stage, the result of
EVERY stage after any interrupted history is the result of one accumulator fed all rows of that
stage's uninterrupted output as a single batch. -/
theorem C10_pipeline_chain_any_onebatch (h : Refines R Inv rem) (s : Stage β X S Res)
    (ss : List (Stage β X S Res)) (hf : ∀ t ∈ s :: ss, ∀ a, (t.f a).length ≤ 1)
    (hl : ∀ t ∈ s :: ss, ∃ Eqv : S → S → Prop, Agg.Lawful t.m Eqv)
    (it : R.It) (hi : Inv it) (ops : List Op) (k : Nat)
    (hk : (chainOut (s :: ss) (rem it)).length < k) :
    ∃ r, ChainRun.run R (s :: ss) (ChainRun.init R (s :: ss) it) (ops ++ [.take k]) = .ok r ∧
      ((s :: ss).zip (aggsDown R (s :: ss) r.c.top)).map (fun p => p.1.m.result p.2) =
        oneBatchResults (s :: ss) (rem it) := by
  obtain ⟨r, _, r1, _, _, _, r3, _⟩ := C10_pipeline_chain_any h s ss hf it hi ops k hk
  refine ⟨r, r1, ?_⟩
  rw [r3]
  have : ∀ (rs : List (Stage β X S Res)) (E : List β),
      (∀ t ∈ rs, ∃ Eqv : S → S → Prop, Agg.Lawful t.m Eqv) →
      (rs.zip (finalAggs rs E)).map (fun p => p.1.m.result p.2) = oneBatchResults rs E := by
    intro rs E
    induction rs with
    | nil => intro _; rfl
    | cons t ts ih =>
      intro hl
      obtain ⟨Eqv, hlaw⟩ := hl t (List.mem_cons_self ..)
      simp only [finalAggs, oneBatchResults, List.zip_cons_cons, List.map_cons]
      rw [ih (fun u hu => hl u (List.mem_cons_of_mem _ hu))]
      congr 1
      exact hlaw.result_congr (hlaw.feed_eq _)
  exact this (s :: ss) (rem it) hl

/-- **… over a `SequenceDataSource`** with any accepted chain of `shard(i, k, offset)` calls: no
hypothesis left but "every stage is row-wise". -/
theorem C10_pipeline_chain_any_seq (data : List β) (chain : Chain) (src : Src)
    (hs : chain.foldlM Src.shard (Src.root data.length) = .ok src)
    (s : Stage β X S Res) (ss : List (Stage β X S Res))
    (hf : ∀ t ∈ s :: ss, ∀ a, (t.f a).length ≤ 1) (ops : List Op) (k : Nat)
    (hk : (chainOut (s :: ss) (seqElems data src)).length < k) :
    ∃ r u,
      ChainRun.run (seqRec data) (s :: ss) (ChainRun.init _ (s :: ss) src.iterate) (ops ++ [.take k]) = .ok r ∧
      ChainRun.run (seqRec data) (s :: ss) (ChainRun.init _ (s :: ss) src.iterate) [.take k] = .ok u ∧
      r.delivered = chainOut (s :: ss) (seqElems data src) ∧
      aggsDown _ (s :: ss) r.c.top = finalAggs (s :: ss) (seqElems data src) ∧
      ChainIt.aggState _ (s :: ss) r.c = ChainIt.aggState _ (s :: ss) u.c ∧
      ChainIt.aggState _ (s :: ss) r.c =
        ((s :: ss).zip (finalAggs (s :: ss) (seqElems data src))).reverse.filterMap
          (fun p => if p.1.hasAgg then some (p.1.name, p.2) else none) := by
  have hw : src.WF data.length := Src.WF.fromState (n := data.length) (ch := chain) hs
  have hi : SeqIt.Inv data.length src.iterate := ⟨hw, Nat.le_refl _⟩
  obtain ⟨r, u, r1, u1, r2, _, r3, _, _, r5, r6⟩ :=
    C10_pipeline_chain_any (seqRec_refines data) s ss hf src.iterate hi ops k hk
  exact ⟨r, u, r1, u1, r2, r3, r6, r5⟩

/-- **… over a `ShardedIterable`** (round-robin shard of any iterable, any start index). -/
theorem C10_pipeline_chain_any_iter (data : List β) (cfg : Cfg) (hn : 1 ≤ cfg.num)
    (s : Stage β X S Res) (ss : List (Stage β X S Res))
    (hf : ∀ t ∈ s :: ss, ∀ a, (t.f a).length ≤ 1) (ops : List Op) (k : Nat)
    (hk : (chainOut (s :: ss) (iterElems data cfg)).length < k) :
    ∃ r u,
      ChainRun.run (iterRec data) (s :: ss) (ChainRun.init _ (s :: ss) (⟨cfg, 0⟩ : IterIt)) (ops ++ [.take k]) = .ok r ∧
      ChainRun.run (iterRec data) (s :: ss) (ChainRun.init _ (s :: ss) (⟨cfg, 0⟩ : IterIt)) [.take k] = .ok u ∧
      r.delivered = chainOut (s :: ss) (iterElems data cfg) ∧
      aggsDown _ (s :: ss) r.c.top = finalAggs (s :: ss) (iterElems data cfg) ∧
      ChainIt.aggState _ (s :: ss) r.c = ChainIt.aggState _ (s :: ss) u.c := by
  have e : IterIt.rem data (⟨cfg, 0⟩ : IterIt) = iterElems data cfg := by simp [IterIt.rem, iterElems]
  obtain ⟨r, u, r1, u1, r2, _, r3, _, _, _, r6⟩ :=
    C10_pipeline_chain_any (iterRec_refines data) s ss hf (⟨cfg, 0⟩ : IterIt) hn ops k (by rw [e]; exact hk)
  rw [e] at r2 r3
  exact ⟨r, u, r1, u1, r2, r3, r6⟩

end chains

/-! ## Runners whose aggregation is SLICED: the state is a finite map with DYNAMIC keys

`Model/ResumeSliced.lean`: `agg_state` is the map `MetricKey → state` of `Model/PipeAgg.lean` (all five slicer
kinds, stacked aggregates, `disable_slicing`); `update_state` adds the entry of a slice value the first time a
batch shows it, so a checkpoint taken after ≥ 1 aggregated batch holds keys `create_state()` does not have.
`from_state` hands a copy of the captured map to the constructor, whose filter (`PipeAgg.initFilter`) keeps the
entries whose `metrics` names one of the runner's aggregates.  The seeded regression `C10-m5` (copy only the
keys of `create_state()`) is `Witness/C10.lean: C10_m5_restore_drops_slices_witness`. -/

section sliced
variable {Rv : Type} {R : Recoverable α} {Inv : R.It → Prop} {rem : R.It → List α}

/-- **Restore keeps EVERY key of the captured state** — created by `create_state()` or added by
`update_state` for a slice value seen before the checkpoint: for every iterator reachable in any history
(`SInv`), `from_state(it.state)` succeeds, the restored iterator has the SAME state map, will deliver
the same batches, and is reachable again (so this applies to restores of restored iterators). -/
theorem C10_sliced_restore_keeps_every_key (h : Refines R Inv rem) (D : SlicedDef α X S Rv)
    (hf : ∀ a, (D.f a).length ≤ 1) (all : List PipeAgg.Batch) (it : SlicedIt R S)
    (hi : SlicedIt.SInv Inv rem D all it) :
    ∃ it', SlicedIt.restore R D (SlicedIt.state R it) = .ok it' ∧ it'.agg = it.agg ∧
      (∀ mk, it'.agg.toOption.bind (PipeAgg.AList.get? · mk) = it.agg.toOption.bind (PipeAgg.AList.get? · mk)) ∧
      (rem it'.base.src).flatMap D.f = (rem it.base.src).flatMap D.f ∧
      SlicedIt.SInv Inv rem D all it' := by
  obtain ⟨it', h1, h2, h3⟩ := (slicedRec_refines h D hf all).restore_state it hi
  obtain ⟨_, Dl, hD, hagg⟩ := hi
  have e : it'.agg = it.agg := by
    rw [hagg, h2.agg_eq (dl := Dl) (by rw [h3]; exact hD)]; rfl
  exact ⟨it', h1, e, fun mk => by rw [e], h3, h2⟩

/-- At EVERY moment of every history (any number of checkpoints and restores, cuts anywhere, restores of
restored iterators): what was delivered on the surviving timeline followed by what the iterator will
still deliver is the uninterrupted run's output, and the WHOLE state map — every output key × every slice
key — is that of ONE PASS over exactly the batches delivered on the surviving timeline. -/
theorem C10_pipeline_sliced_prefix (h : Refines R Inv rem) (D : SlicedDef α X S Rv)
    (hf : ∀ a, (D.f a).length ≤ 1) (it : R.It) (hi : Inv it) (ops : List Op) :
    ∃ r, SrcRun.run (slicedRec R D) (SrcRun.init (slicedRec R D) (SlicedIt.fresh R D it none)) ops = .ok r ∧
      r.delivered ++ (rem (SlicedIt.base (R := R) r.it).src).flatMap D.f = (rem it).flatMap D.f ∧
      SlicedIt.agg (R := R) r.it = PipeAgg.run D.P r.delivered := by
  obtain ⟨r, h1, h2, h3⟩ := (slicedRec_refines h D hf ((rem it).flatMap D.f)).history
    (SlicedIt.fresh R D it none) (SlicedIt.SInv.fresh D it hi) ops
  have h3' : r.delivered ++ (rem (SlicedIt.base (R := R) r.it).src).flatMap D.f = (rem it).flatMap D.f := by
    simpa [SlicedIt.fresh, PipeIt.fresh] using h3
  exact ⟨r, h1, h3', h2.agg_eq h3'⟩

/-- **C10 for pipelines with a sliced aggregation.**  For every recoverable source, every row-wise chain,
every set of stacked aggregates and slicers (all five kinds), every history that ends drained: the
delivered batches are exactly the uninterrupted run's, and the final state map equals the uninterrupted
run's as a whole — for every output key and every slice key, whether the slice value was seen before a
checkpoint, after a restore, or both — and so does `agg_result`. -/
theorem C10_pipeline_sliced (h : Refines R Inv rem) (D : SlicedDef α X S Rv)
    (hf : ∀ a, (D.f a).length ≤ 1) (it : R.It) (hi : Inv it) (ops : List Op) (k : Nat)
    (hk : ((rem it).flatMap D.f).length ≤ k) :
    ∃ r u,
      SrcRun.run (slicedRec R D) (SrcRun.init (slicedRec R D) (SlicedIt.fresh R D it none)) (ops ++ [.take k]) = .ok r ∧
      SrcRun.run (slicedRec R D) (SrcRun.init (slicedRec R D) (SlicedIt.fresh R D it none)) [.take k] = .ok u ∧
      r.delivered = (rem it).flatMap D.f ∧ r.delivered = u.delivered ∧
      SlicedIt.agg (R := R) r.it = PipeAgg.run D.P ((rem it).flatMap D.f) ∧
      SlicedIt.agg (R := R) r.it = SlicedIt.agg (R := R) u.it ∧
      (∀ mk, (SlicedIt.agg (R := R) r.it).toOption.bind (PipeAgg.AList.get? · mk) =
        (SlicedIt.agg (R := R) u.it).toOption.bind (PipeAgg.AList.get? · mk)) ∧
      SlicedIt.aggResult (R := R) D r.it = SlicedIt.aggResult (R := R) D u.it := by
  have href := slicedRec_refines (S := S) h D hf ((rem it).flatMap D.f)
  have hfr := SlicedIt.SInv.fresh (S := S) (rem := rem) D it hi
  have key : ∀ ops' : List Op, ∃ r,
      SrcRun.run (slicedRec R D) (SrcRun.init (slicedRec R D) (SlicedIt.fresh R D it none)) (ops' ++ [.take k]) = .ok r ∧
      r.delivered = (rem it).flatMap D.f ∧
      SlicedIt.agg (R := R) r.it = PipeAgg.run D.P ((rem it).flatMap D.f) := by
    intro ops'
    obtain ⟨r, r1, r2⟩ := href.history_drained (SlicedIt.fresh R D it none) hfr ops' k
      (by simpa [SlicedIt.fresh, PipeIt.fresh] using hk)
    have r2' : r.delivered = (rem it).flatMap D.f := by simpa [SlicedIt.fresh, PipeIt.fresh] using r2
    obtain ⟨r', q1, q2, q3⟩ := C10_pipeline_sliced_prefix h D hf it hi (ops' ++ [.take k])
    rw [r1] at q1
    injection q1 with q1
    subst q1
    refine ⟨r, r1, r2', ?_⟩
    rw [q3, r2']
  obtain ⟨r, r1, r2, r3⟩ := key ops
  obtain ⟨u, u1, u2, u3⟩ := key []
  have e : SlicedIt.agg (R := R) r.it = SlicedIt.agg (R := R) u.it := by rw [r3, u3]
  refine ⟨r, u, r1, by simpa using u1, r2, by rw [r2, u2], r3, e, fun mk => by rw [e], ?_⟩
  unfold SlicedIt.aggResult
  rw [e]

/-- … and that result is what `C02` speaks about: for a pipeline the builder accepts, `agg_result` of the
resumed run is `PipeAgg.aggResult` of the uninterrupted output stream, so every theorem of
`Properties/C02.lean` (un-sliced = one-shot, slice keys exact, per-slice = brute-force group-by over the WHOLE
stream, …) holds for the resumed run verbatim. -/
theorem C10_pipeline_sliced_result (h : Refines R Inv rem) (D : SlicedDef α X S Rv)
    (hf : ∀ a, (D.f a).length ≤ 1) (hv : D.P.validate = .ok ()) (it : R.It) (hi : Inv it)
    (ops : List Op) (k : Nat) (hk : ((rem it).flatMap D.f).length ≤ k) :
    ∃ r, SrcRun.run (slicedRec R D) (SrcRun.init (slicedRec R D) (SlicedIt.fresh R D it none)) (ops ++ [.take k]) = .ok r ∧
      SlicedIt.aggResult (R := R) D r.it = PipeAgg.aggResult D.P ((rem it).flatMap D.f) := by
  obtain ⟨r, _, r1, _, _, _, r3, _⟩ := C10_pipeline_sliced h D hf it hi ops k hk
  refine ⟨r, r1, ?_⟩
  unfold SlicedIt.aggResult PipeAgg.aggResult
  rw [r3, hv]
  cases PipeAgg.run D.P ((rem it).flatMap D.f) <;> rfl

end sliced

/-- **Chains of runners with sliced aggregations** (any length `n ≥ 1`, every stage its own aggregates and
slicers; a sliced runner may equally sit on top of / underneath a chain of `Model/ResumeChain.lean` stages,
since `slicedRec_refines` holds over ANY refined source): at every moment of every history the delivered
batches followed by what the last iterator will still deliver are the uninterrupted run's, and EVERY stage's
state map is that of one pass over exactly the prefix of its output stream that the stage has delivered. -/
theorem C10_pipeline_sliced_chain_prefix {Rv : Type} {R : Recoverable PipeAgg.Batch} {Inv : R.It → Prop}
    {rem : R.It → List PipeAgg.Batch} (h : Refines R Inv rem)
    (Ds : List (SlicedDef PipeAgg.Batch X S Rv)) (hf : ∀ D ∈ Ds, ∀ a, (D.f a).length ≤ 1)
    (it : R.It) (hi : Inv it) (ops : List Op) :
    ∃ r, SrcRun.run (slicedChainRec R Ds) (SrcRun.init (slicedChainRec R Ds) (slicedChainFresh R Ds it)) ops = .ok r ∧
      r.delivered ++ slicedChainRem rem Ds r.it = slicedChainOut Ds (rem it) ∧
      slicedAggsDown R Ds r.it =
        (Ds.zip (slicedDelivered rem (rem it) Ds r.it)).map (fun p => PipeAgg.run p.1.P p.2) := by
  obtain ⟨fi, fr⟩ := sliced_chain_fresh (S := S) (Inv := Inv) (rem := rem) it hi Ds
  obtain ⟨r, r1, r2, r3⟩ := (sliced_chain_refines h (rem it) Ds hf).history (slicedChainFresh R Ds it) fi ops
  exact ⟨r, r1, by rw [r3, fr], slicedAggsDown_delivered (rem it) Ds r.it r2⟩

/-- **… and when the history ends drained** (the last `take` observes the `StopIteration`): the delivered batches are
the uninterrupted run's and EVERY stage's final state map — every output key × every slice key of every stage — is that of
one pass over all the outputs of that stage, hence equal to the uninterrupted run's. -/
theorem C10_pipeline_sliced_chain {Rv : Type} {R : Recoverable PipeAgg.Batch} {Inv : R.It → Prop}
    {rem : R.It → List PipeAgg.Batch} (h : Refines R Inv rem)
    (Ds : List (SlicedDef PipeAgg.Batch X S Rv)) (hf : ∀ D ∈ Ds, ∀ a, (D.f a).length ≤ 1)
    (it : R.It) (hi : Inv it) (ops : List Op) (k : Nat) (hk : (slicedChainOut Ds (rem it)).length < k) :
    ∃ r u,
      SrcRun.run (slicedChainRec R Ds) (SrcRun.init (slicedChainRec R Ds) (slicedChainFresh R Ds it)) (ops ++ [.take k]) = .ok r ∧
      SrcRun.run (slicedChainRec R Ds) (SrcRun.init (slicedChainRec R Ds) (slicedChainFresh R Ds it)) [.take k] = .ok u ∧
      r.delivered = slicedChainOut Ds (rem it) ∧ r.delivered = u.delivered ∧
      slicedAggsDown R Ds r.it = slicedFinalAggs Ds (rem it) ∧
      slicedAggsDown R Ds r.it = slicedAggsDown R Ds u.it := by
  obtain ⟨href, hx⟩ := sliced_chain_refines_exh (S := S) h (rem it) Ds hf
  obtain ⟨fi, fr⟩ := sliced_chain_fresh_exh (S := S) (Inv := Inv) (rem := rem) it hi Ds
  have key : ∀ ops' : List Op, ∃ r,
      SrcRun.run (slicedChainRec R Ds) (SrcRun.init (slicedChainRec R Ds) (slicedChainFresh R Ds it)) (ops' ++ [.take k]) = .ok r ∧
      r.delivered = slicedChainOut Ds (rem it) ∧ slicedAggsDown R Ds r.it = slicedFinalAggs Ds (rem it) := by
    intro ops'
    obtain ⟨q, q1, q2, q3, q4⟩ := href.history_drained_exh (slicedChainExh Ds) hx
      (slicedChainFresh R Ds it) fi ops' k (by rw [fr]; exact hk)
    exact ⟨q, q1, by rw [q2, fr], slicedAggsDown_final (rem it) Ds q.it q3 q4⟩
  obtain ⟨r, r1, r2, r3⟩ := key ops
  obtain ⟨u, u1, u2, u3⟩ := key []
  exact ⟨r, u, r1, by simpa using u1, r2, by rw [r2, u2], r3, by rw [r3, u3]⟩

/-! ## Chains that buffer (re-batching): the exact loss (finding F16)

Full statement (false for the real code, see `Witness.C10_F16_witness`): as `C10_pipeline_seq` for
every chain.  What holds for **every** chain that conserves rows and **every** history: the row
stream of the source is the interleaving, in order, of the rows delivered and of the rows the
chain *held* (carry buffer + outputs computed but not yet yielded) at each checkpoint from which the
pipeline was restored; the aggregate is fed exactly the delivered outputs. -/

theorem C10_rebatch_partial (h : Refines R Inv rem) (P : PipeDef α β T X S Res)
    (V : RowView α β T ρ) (hc : Conserves P.tr V) (it : R.It) (hi : Inv it) (ops : List Op) :
    ∃ r, PipeRun.run R P V (PipeRun.init R P it) ops = .ok r ∧
      Ev.allRows V r.trace ++ PipeIt.futRows rem V r.p = (rem it).flatMap V.srcRows ∧
      r.p.agg = aggOf P (Ev.delivered r.trace) P.m.empty := by
  obtain ⟨r, h1, g⟩ := (PipeRun.Good.init h P V hc it hi).run h P V hc ops
  exact ⟨r, h1, g.cur, g.agg⟩

/-- the loss is *only* what the chain held at a restored checkpoint: a history in which every
restored checkpoint was taken while the chain held nothing delivers every row (and conversely the
`lost` events of the trace are exactly those held rows, by construction of `PipeRun.step`). -/
theorem C10_rebatch_noloss_partial (h : Refines R Inv rem) (P : PipeDef α β T X S Res)
    (V : RowView α β T ρ) (hc : Conserves P.tr V) (it : R.It) (hi : Inv it) (ops : List Op) :
    ∃ r, PipeRun.run R P V (PipeRun.init R P it) ops = .ok r ∧
      (Ev.NoLoss r.trace →
        (Ev.delivered r.trace).flatMap V.rows ++ PipeIt.futRows rem V r.p = (rem it).flatMap V.srcRows) := by
  obtain ⟨r, h1, h2, _⟩ := C10_rebatch_partial h P V hc it hi ops
  refine ⟨r, h1, fun hn => ?_⟩
  rw [hn, Ev.allRows_dlv] at h2
  exact h2

theorem C10_chunk_conserves (g : List ρ → List ρ) (target : Nat) :
    Conserves (Trans.chunk g target) (⟨id, id, g⟩ : RowView (List ρ) (List ρ) (List ρ) ρ) where
  init := rfl
  step := by
    intro t a
    show ((chunkEmit target _ (t ++ g a)).2.flatMap id) ++ (chunkEmit target _ (t ++ g a)).1 = t ++ g a
    rw [List.flatMap_id]
    exact chunkEmit_conserves target _ _
  finish := by
    intro t
    show (if t.isEmpty then [] else [t]).flatMap id = t
    cases t <;> simp

end pipelines

/-! ## Threaded pipelines (`num_threads > 0`): the exact loss (finding F12)

Full statement (false for the real code, see `Witness.C10_F12_witness`): as `C10_pipeline_seq` with
multiset equality.  What holds for **every** number of producers, **every** schedule of
`pull`/`deliver` steps and **every** placement of checkpoints and restores: the outputs of the
uninterrupted run are, as a multiset, the outputs delivered on the surviving timeline, plus the
outputs that sat between the producers' cursors and the consumer at each restored checkpoint
(`lost`), plus what is still buffered or not yet produced; nothing is ever delivered twice; the
aggregate is fed exactly the delivered outputs. -/

theorem C10_threaded_partial {R : Recoverable α} {Inv : R.It → Prop} {rem : R.It → List α}
    (h : Refines R Inv rem) (f : α → List β) (add : S → β → S) (empty : S)
    (cursors : List R.It) (hi : ∀ it ∈ cursors, Inv it) (sched : List ParOp) :
    ∃ r, ParRun.run R f add (ParRun.init R empty cursors) sched = .ok r ∧
      List.Perm (r.delivered ++ r.lost ++ r.s.buf ++ futOf rem f r.s.cursors) (futOf rem f cursors) ∧
      r.s.agg = r.delivered.foldl add empty := by
  obtain ⟨r, h1, g⟩ := (ParRun.Good.init h f add empty cursors hi).run h f add empty sched
  exact ⟨r, h1, g.cur, g.agg⟩

/-- when the run is over (nothing buffered, nothing left to produce): delivered ⊎ lost = all -/
theorem C10_threaded_final_partial {R : Recoverable α} {Inv : R.It → Prop} {rem : R.It → List α}
    (h : Refines R Inv rem) (f : α → List β) (add : S → β → S) (empty : S)
    (cursors : List R.It) (hi : ∀ it ∈ cursors, Inv it) (sched : List ParOp) :
    ∃ r, ParRun.run R f add (ParRun.init R empty cursors) sched = .ok r ∧
      (r.s.buf = [] → futOf rem f r.s.cursors = [] →
        List.Perm (r.delivered ++ r.lost) (futOf rem f cursors)) := by
  obtain ⟨r, h1, h2, _⟩ := C10_threaded_partial h f add empty cursors hi sched
  refine ⟨r, h1, fun hb hf => ?_⟩
  rw [hb, hf] at h2
  simpa using h2

/-! ## Non-vacuity -/

/-- a nested, offset shard chain that the source accepts, and its elements -/
example : (([⟨1, 2, 1⟩, ⟨0, 2, 0⟩] : Chain).foldlM Src.shard (Src.root 10)).toOption =
    some ⟨[Cfg.dflt, ⟨1, 2, 1⟩, ⟨0, 2, 0⟩], 6, 8⟩ := by decide
example : seqElems (List.range 10) ⟨[Cfg.dflt, ⟨1, 2, 1⟩, ⟨0, 2, 0⟩], 6, 8⟩ = [6, 7] := by decide
example : iterElems (List.range 10) ⟨1, 3, 2⟩ = [4, 7] := by decide
/-- a map and a filter are row-wise with at most one output -/
example : ∀ a : Nat, ((fun x => [x + 1]) a).length ≤ 1 := by intro a; simp
example : ∀ a : Nat, ((fun x => if x % 2 = 0 then [] else [x]) a).length ≤ 1 := by
  intro a; by_cases h : a % 2 = 0 <;> simp [h]
/-- the invariant of a fresh iterator of a sharded source holds -/
example : SeqIt.Inv 10 (Src.iterate ⟨[Cfg.dflt, ⟨1, 2, 1⟩], 6, 10⟩) :=
  ⟨⟨by simp [Src.iterate], rfl⟩, Nat.le_refl _⟩
/-- a history with a second-generation restore on the (repaired) model -/
example : ((SrcRun.run (seqRec (List.range 10)) (SrcRun.init _ (Src.root 10).iterate)
    [.take 3, .ckpt, .restore, .take 2, .ckpt, .restore, .take 100]).toOption.map (·.delivered)) =
    some (List.range 10) := by decide

/-- a chain of two runners under a history with a second-generation restore: outputs of the
downstream runner and the aggregate (sum, count) of the upstream one -/
example :
    let Pa := rowPipe (fun x : Nat => [x + 1]) (⟨(0, 0), fun xs => (xs.foldl (· + ·) 0, xs.length),
      fun s t => (s.1 + t.1, s.2 + t.2), id⟩ : Agg.Mergeable Nat (Nat × Nat) (Nat × Nat)) (fun b => [b])
    let Pb := rowPipe (fun y : Nat => [2 * y]) (⟨(), fun _ => (), fun _ _ => (), id⟩ : Agg.Mergeable Nat Unit Unit)
      (fun b => [b])
    let Ra := pipeRec (seqRec (List.range 5)) Pa
    ((PipeRun.run Ra Pb (rowViewOf fun y : Nat => [2 * y])
        (PipeRun.init (ρ := Nat) Ra Pb (PipeIt.fresh _ Pa (Src.root 5).iterate (0, 0)))
        [.take 1, .ckpt, .restore, .take 2, .ckpt, .restore, .take 100]).toOption.map
      fun r => (Ev.delivered r.trace, r.p.src.agg)) = some ([2, 4, 6, 8, 10], (15, 5)) := by decide

/-- a chain of THREE named stages (map, filter, map) with aggregates at the first and the last
stage, under a history with restores of restored iterators, a restore before the first element
and a checkpoint taken immediately after a restore: outputs, `_iterators`, and `agg_state`
(every stage with an aggregate, upstream first) -/
def sumCountN : Agg.Mergeable Nat (Nat × Nat) (Nat × Nat) :=
  ⟨(0, 0), fun xs => (xs.foldl (· + ·) 0, xs.length), fun s t => (s.1 + t.1, s.2 + t.2), id⟩

def threeStages : List (Stage Nat Nat (Nat × Nat) (Nat × Nat)) :=
  [⟨"c", fun x => [x + 3], sumCountN, fun b => [b], true⟩,
   ⟨"b", fun x => if x % 4 = 0 then [] else [x], sumCountN, fun b => [b], false⟩,
   ⟨"a", fun x => [2 * x], sumCountN, fun b => [b], true⟩]

example : ∀ t ∈ threeStages, ∀ a, (t.f a).length ≤ 1 := by
  intro t ht a
  simp only [threeStages, List.mem_cons, List.not_mem_nil, or_false] at ht
  rcases ht with rfl | rfl | rfl
  · simp
  · by_cases h : a % 4 = 0 <;> simp [h]
  · simp

example :
    ((ChainRun.run (seqRec (List.range 5)) threeStages
        (ChainRun.init (seqRec (List.range 5)) threeStages (Src.root 5).iterate)
        [.ckpt, .restore, .take 1, .ckpt, .restore, .ckpt, .restore, .take 1, .ckpt, .take 1, .restore,
         .take 100]).toOption.map
      fun r => (r.delivered, r.c.tracked, ChainIt.aggState _ _ r.c)) =
      some ([5, 9], [2, 1, 0], [("a", (20, 5)), ("c", (14, 2))]) := by decide
example : chainOut threeStages (List.range 5) = [5, 9] := by decide
example : finalAggs threeStages (List.range 5) = [(14, 2), (8, 2), (20, 5)] := by decide

/-- a SLICED aggregation (`PipeAgg.exPipeline`: two stacked aggregates, a default, a replace-mode and a restricted
cross slicer) over the three batches of `PipeAgg.exStream` under a history with a second-generation restore, the first
checkpoint taken after one aggregated batch: the hypotheses of `C10_pipeline_sliced(_result)` hold, and the resumed run
reports the one-pass values — slice `a = 1` is fed before AND after the checkpoint, slice `a = 2` only after it -/
def slicedExample : SlicedDef PipeAgg.Batch (List PipeAgg.Val) PipeAgg.Stat PipeAgg.Rv := ⟨fun b => [b], PipeAgg.exPipeline⟩
example : ∀ a, (slicedExample.f a).length ≤ 1 := fun _ => Nat.le_refl _
example : slicedExample.P.validate = .ok () := rfl
example :
    ((SrcRun.run (slicedRec (seqRec PipeAgg.exStream) slicedExample)
        (SrcRun.init _ (SlicedIt.fresh _ slicedExample (Src.root 3).iterate none))
        [.take 1, .ckpt, .restore, .take 1, .ckpt, .restore, .take 100]).toOption.bind fun r =>
      (SlicedIt.aggResult slicedExample r.it).toOption.map fun res =>
        (r.delivered.length, PipeAgg.AList.get? res ⟨"o", ⟨["a"], [1]⟩⟩, PipeAgg.AList.get? res ⟨"o", ⟨["a"], [2]⟩⟩)) =
      some (3, some (.one (.nums [(19, 1), (3, 1)])), some (.one (.nums [(7, 1), (1, 1)]))) := by decide
example : (PipeAgg.aggResult PipeAgg.exPipeline PipeAgg.exStream).toOption.bind (PipeAgg.AList.get? · ⟨"o", ⟨["a"], [1]⟩⟩)
    = some (.one (.nums [(19, 1), (3, 1)])) := by decide

/-- a chain of two runners, the upstream one aggregating `y` without slicers, the downstream one the sliced example: both
stages' state maps after an interrupted history are the one-pass maps -/
def slicedUp : SlicedDef PipeAgg.Batch (List PipeAgg.Val) PipeAgg.Stat PipeAgg.Rv := ⟨fun b => [b], ⟨[PipeAgg.exAgg2], []⟩⟩
example : ∀ D ∈ [slicedExample, slicedUp], ∀ a, (D.f a).length ≤ 1 := by
  intro D hD a
  simp only [List.mem_cons, List.not_mem_nil, or_false] at hD
  rcases hD with rfl | rfl <;> exact Nat.le_refl _
example :
    ((SrcRun.run (slicedChainRec (seqRec PipeAgg.exStream) [slicedExample, slicedUp])
        (SrcRun.init _ (slicedChainFresh (seqRec PipeAgg.exStream) [slicedExample, slicedUp] (Src.root 3).iterate))
        [.take 1, .ckpt, .take 1, .restore, .take 100]).toOption.map fun r =>
      (r.delivered.length,
       decide ((slicedAggsDown (seqRec PipeAgg.exStream) [slicedExample, slicedUp] r.it).map Except.toOption =
         (slicedFinalAggs [slicedExample, slicedUp] PipeAgg.exStream).map Except.toOption))) =
      some (3, true) := by decide

end MlModel.C10
