import MlModel.Lemmas.Registry
import MlModel.Lemmas.OwnerExit
import MlModel.Lemmas.OwnerEnv
import MlModel.Lemmas.OwnerComposite
import MlModel.Lemmas.OwnerShared
import MlModel.Lemmas.OwnerFin
import MlModel.Lemmas.OwnerACExit
/-!
# C20 — worker liveness and ownership bookkeeping stays consistent

"A worker that was declared dead is never reported alive again merely because of a late or stale
heartbeat, recorded heartbeats never move backwards, and liveness is a function only of the last
recorded heartbeat and the threshold.  At any time at most one pool owns a given worker, a pool can
only release workers it owns or that are free, and when a pool-level operation returns or raises,
none of its workers remains acquired."

Quantifiers: every sequence of registry events (= every concurrent history, because each
`WorkerRegistry` method body runs under its lock), every interleaving of any number of heartbeat
handlers with clock ticks, every history of client/transport events; for ownership: every number
of workers, pools, threads, every script of pool operations, every schedule and every value of the
capacity/liveness oracle (`Owner.Reach` = reflexive-transitive closure of `Owner.Step`).

The models are of the *repaired* code (`fix:` commits for F13, F14, F19); the unchanged code's
counter-examples are in `Witness/C20.lean`.
-/
namespace MlModel.C20
open MlModel

/-! ## Liveness registry -/

/-- **Dead stays dead (registry level).**  After `unregister a`, whatever events arrive — `refresh`
from late or stale heartbeats, events for other addresses — as long as none of them is a
`register a`: the entry is still dead, `get a = 0`, and every liveness verdict for it is negative
(`thr ≤ now`: the clock reads seconds since the epoch, far beyond any threshold; without it an
unknown or dead worker would look alive during the first `thr` seconds of the epoch —
see `Witness.C20_fresh_near_epoch`). -/
theorem C20_dead_stays_dead (r : Registry.Reg) (a : Registry.Addr) (evs : List Registry.REv)
    (hno : ∀ e ∈ evs, e.registers a = false) :
    let r' := Registry.run (Registry.unregister r a) evs
    r' a = some none ∧ Registry.get r' a = 0 ∧
      ∀ now thr : Registry.Time, thr ≤ now → Registry.fresh now (Registry.get r' a) thr = false := by
  intro r'
  have h : r' a = some none :=
    Registry.dead_stable_run a evs _ (Registry.unregister_same r a) hno
  refine ⟨h, Registry.get_dead _ _ h, ?_⟩
  intro now thr hle
  rw [Registry.get_dead _ _ h]; exact Registry.fresh_zero_false now thr hle

/-- **Dead stays dead (client level).**  In every history of client, transport and clock events that
follows an `unregister a` (`worker_registry().unregister`, or `CourierClient.shutdown`, or a delivered
`heartbeat(a, is_alive=False)`) and contains no `register a` — in particular whatever heartbeat
replies are delivered late, fail, or are folded by `is_alive` — every client of address `a` answers
`is_alive = False`. -/
theorem C20_dead_stays_dead_clients (w : Registry.World) (a : Registry.Addr) (evs : List Registry.Ev)
    (hdead : w.reg a = some none) (hno : Registry.NoRegister a w evs) :
    let w' := (w.runEvs evs).1
    w'.reg a = some none ∧
      ∀ j c, w'.clients[j]? = some c → c.addr = a → c.thr ≤ w'.now → (w'.isAlive j).2 = false := by
  intro w'
  have h : w'.reg a = some none := Registry.runEvs_dead a evs w hdead hno
  refine ⟨h, ?_⟩
  intro j c hc ha hthr
  subst ha
  rw [Registry.isAlive_verdict w' j c hc]
  unfold Registry.World.aliveVerdict
  rw [Registry.foldPend_reg]
  have hd : Registry.run w'.reg (Registry.foldEvents w'.callSt c.addr c.pend) c.addr = some none := by
    apply Registry.dead_stable_run c.addr _ _ h
    intro e he
    obtain ⟨t, ht⟩ := Registry.foldEvents_refresh _ _ _ e he
    rw [ht]; rfl
  rw [Registry.get_dead _ _ hd]
  exact Registry.fresh_zero_false _ _ hthr

/-- The three ways to declare `a` dead do leave the entry dead. -/
theorem C20_unregister_declares_dead (w : Registry.World) (a : Registry.Addr) :
    (w.step (.unreg a)).1.reg a = some none := by
  simp [Registry.World.step, Registry.unregister]

/-- **Monotone (entry level).**  Across any events other than `unregister a` — `refresh`es in any
order and with any (older) time stamps, out-of-order `register`s from concurrent heartbeat handlers —
a live entry stays live and its recorded heartbeat does not decrease. -/
theorem C20_monotone (r : Registry.Reg) (a : Registry.Addr) (l : Registry.Time) (evs : List Registry.REv)
    (hlive : r a = some (some l)) (hno : ∀ e ∈ evs, e.unregisters a = false) :
    ∃ l', Registry.run r evs a = some (some l') ∧ l ≤ l' :=
  Registry.live_mono_run a evs r l hlive hno

/-- **Monotone (as read by `get`).**  What `_last_heartbeat` reads never decreases either, from any
state of the entry, provided registered times are non-negative clock readings. -/
theorem C20_monotone_get (r : Registry.Reg) (a : Registry.Addr) (evs : List Registry.REv)
    (h : ∀ e ∈ evs, e.unregisters a = false ∧ e.nonneg = true) :
    Registry.get r a ≤ Registry.get (Registry.run r evs) a :=
  Registry.get_mono_run a evs r h

/-- **Monotone under concurrent heartbeat handlers.**  Any number of server-side `_heartbeat`
handlers, each split into its clock read and its registry call, interleaved in any order with clock
ticks and with arbitrary other registry events: as long as nobody unregisters `a`, the recorded
heartbeat of `a` never moves backwards.  (With the unchanged `register` this fails: `Witness.C20_F13`.) -/
theorem C20_monotone_concurrent (a : Registry.Addr) (labels : List Registry.HbLabel) :
    ∀ (c : Registry.HbCfg) (l : Registry.Time), c.reg a = some (some l) →
      (∀ h, Registry.hbUnregs a (c.handlers h) = false) → (∀ lab ∈ labels, Registry.labelUnregs a lab = false) →
      ∃ l', (Registry.hbRun c labels).reg a = some (some l') ∧ l ≤ l' := by
  induction labels with
  | nil => intro c l h _ _; exact ⟨l, h, Int.le_refl _⟩
  | cons lab ls ih =>
    intro c l hlive hh hl
    simp only [Registry.hbRun]
    cases hs : Registry.hbStep? c lab with
    | none => simpa using ih c l hlive hh (fun x hx => hl x (by simp [hx]))
    | some c' =>
      obtain ⟨⟨l1, h1, hle1⟩, hh'⟩ := Registry.hbStep_mono a c c' lab l hs hlive hh (hl lab (by simp))
      obtain ⟨l2, h2, hle2⟩ := ih c' l1 h1 hh' (fun x hx => hl x (by simp [hx]))
      exact ⟨l2, by simpa using h2, Int.le_trans hle1 hle2⟩

/-- **Liveness is a function of (last recorded heartbeat, threshold, now).**  The value returned by
`is_alive` is `now - last < thr`, where `last` is what the registry records for the client's address
once the finished pending calls have been folded in — nothing else (not the pending list itself, not
the in-flight heartbeat, not other addresses) enters the verdict. -/
theorem C20_liveness_fn (w : Registry.World) (i : Nat) (c : Registry.Client) (hc : w.clients[i]? = some c) :
    (w.isAlive i).2 =
      Registry.fresh w.now (Registry.get (w.isAlive i).1.reg c.addr) c.thr := by
  rw [Registry.isAlive_verdict w i c hc, Registry.isAlive_reg, hc]
  unfold Registry.World.aliveVerdict
  rw [Registry.foldPend_reg]

/-- Two clients in two worlds that agree on the three arguments get the same verdict. -/
theorem C20_liveness_fn_ext (w1 w2 : Registry.World) (i1 i2 : Nat) (c1 c2 : Registry.Client)
    (h1 : w1.clients[i1]? = some c1) (h2 : w2.clients[i2]? = some c2)
    (hnow : w1.now = w2.now) (hthr : c1.thr = c2.thr)
    (hlast : Registry.get (w1.isAlive i1).1.reg c1.addr = Registry.get (w2.isAlive i2).1.reg c2.addr) :
    (w1.isAlive i1).2 = (w2.isAlive i2).2 := by
  rw [C20_liveness_fn w1 i1 c1 h1, C20_liveness_fn w2 i2 c2 h2, hnow, hthr, hlast]

/-! ## Ownership -/

/-- **Single owner (invariant).**  In every reachable configuration, for every worker on which no
thread is inside the `_states_lock` critical section: `_lock` is held iff an owner pool is
recorded.  (Inside the critical section the relation is broken for exactly one step of
`acquire_by` and one of `release`; `Owner.CS` says how.) -/
theorem C20_single_owner (pw : Owner.Pid → List Owner.Wid) (c0 c : Owner.Cfg)
    (h0 : Owner.Init c0) (hr : Owner.Reach pw c0 c) (w : Owner.Wid) (hfree : (c.W w).sl = none) :
    ((c.W w).lock = true ↔ (c.W w).pool ≠ none) :=
  (Owner.Inv_reach h0 hr).free w hfree

/-- Hence at most one pool sees the worker as its own, and to every other pool it is unavailable. -/
theorem C20_single_owner_obs (pw : Owner.Pid → List Owner.Wid) (c0 c : Owner.Cfg)
    (h0 : Owner.Init c0) (hr : Owner.Reach pw c0 c) (w : Owner.Wid) (hfree : (c.W w).sl = none)
    (p q : Owner.Pid) (hp : Owner.isLocked (c.W w) (some p) = true) :
    (Owner.isLocked (c.W w) (some q) = true → q = p) ∧
    (q ≠ p → Owner.isAvailable (c.W w) q = false) ∧
    (c.W w).pool = some p := by
  have _ := C20_single_owner pw c0 c h0 hr w hfree
  simp only [Owner.isLocked, Bool.and_eq_true, beq_iff_eq] at hp
  refine ⟨?_, ?_, hp.2⟩
  · intro hq
    simp only [Owner.isLocked, Bool.and_eq_true, beq_iff_eq] at hq
    have := hq.2; rw [hp.2] at this; exact (Option.some.inj this).symm
  · intro hne
    simp [Owner.isAvailable, hp.1, hp.2, Ne.symm hne]

/-- **Release only owned (state form).**  Whenever a thread is about to perform the effect of an
owner-checked `release` on behalf of pool `P` (`_lock.release()` or `_worker_pool = None`), the
worker is owned by `P`, or is free. -/
theorem C20_release_only_owned (pw : Owner.Pid → List Owner.Wid) (c0 c : Owner.Cfg)
    (h0 : Owner.Init c0) (hr : Owner.Reach pw c0 c) (t : Owner.Tid) (cl : Owner.Call) (k : Owner.K)
    (hcur : (c.T t).cur = some (cl, k)) (hck : cl.checked = true)
    (hpc : cl.pc = .rUnlock ∨ cl.pc = .rWr) :
    (c.W cl.w).pool = some cl.p ∨ ((c.W cl.w).pool = none ∧ (c.W cl.w).lock = false) := by
  have hI := Owner.Inv_reach h0 hr
  rcases hpc with hpc | hpc
  · have hcs := (Owner.Inv_cs hI hcur (by simp [hpc, Owner.inCS])).2
    simp only [Owner.CS, hpc] at hcs
    exact Or.inl (hcs.2.2 hck)
  · have hcs := (Owner.Inv_cs hI hcur (by simp [hpc, Owner.inCS])).2
    simp only [Owner.CS, hpc] at hcs
    rcases hcs.2 hck with h | h
    · exact Or.inl h
    · exact Or.inr ⟨h, hcs.1⟩

/-- **Release only owned (step form, "no stealing").**  In a program of repaired operations, a step
that takes the ownership of `w` away from pool `p` is executed by a thread acting for `p`, inside
`release` on `w`.  No interleaving lets pool A free a worker that pool B acquired.
(With the unchanged `release_all` this fails: `Witness.C20_F14`.) -/
theorem C20_release_only_owned_step (pw : Owner.Pid → List Owner.Wid) (c0 c c' : Owner.Cfg)
    (h0 : Owner.Init c0) (hrep : Owner.RepairedCfg c0) (hr : Owner.Reach pw c0 c)
    (t : Owner.Tid) (u : Owner.Wid → Bool) (hs : Owner.step? pw u c t = some c')
    (w : Owner.Wid) (p : Owner.Pid) (hp : (c.W w).pool = some p) (hp' : (c'.W w).pool ≠ some p) :
    ∃ cl k, (c.T t).cur = some (cl, k) ∧ cl.w = w ∧ cl.p = p ∧ cl.pc = .rWr := by
  obtain ⟨cl, k, hcur, hw, hpc, hcp⟩ :=
    Owner.owner_lost_only_by_own_release (Owner.Inv_reach h0 hr) hs w p hp hp'
  exact ⟨cl, k, hcur, hw, hcp ((Owner.RepairedCfg_reach hrep hr t).2 cl k hcur).1, hpc⟩

/-- **Released on exit.**  Pool `p` is driven by thread `t` alone (any number of other threads drive
other pools over the same workers).  Whenever `t` has just left the `finally: release_all()` that
ends `WorkerPool.run`, `call_and_wait` or `as_completed` — whether the body ran to completion, a
task raised, or the generator was closed early (all of these are scripts ending in `finalize p`:
`Owner.runScript`, `callAndWaitScript`, `asCompletedScript`) — the pool has no acquired worker, in
every interleaving.  (The unchanged code has no `finally`: `Witness.C20_F19`.) -/
theorem C20_released_on_exit (pw : Owner.Pid → List Owner.Wid) (p : Owner.Pid) (t : Owner.Tid)
    (c0 c : Owner.Cfg) (h0 : Owner.Init c0)
    (hsole : ∀ t', t' ≠ t → ∀ op ∈ (c0.T t').script, op.pool ≠ p)
    (hr : Owner.Reach pw c0 c) (hidle : (c.T t).cur = none) (hex : (c.T t).exited = some p) :
    Owner.acquiredWorkers pw c.W p = [] := by
  have hE := Owner.ExitInv_reach (p := p) (t := t) h0 hsole hr
  have htodo : (c.T t).todo p = some [] := by simp [Owner.Thread.todo, hidle, hex]
  simp only [Owner.acquiredWorkers, List.filter_eq_nil_iff]
  intro w hw hl
  simp only [Owner.isLocked, Bool.and_eq_true, beq_iff_eq] at hl
  have := hE.todo [] htodo w hw hl.2
  simp at this

/-- **Released on exit, for a pool that several threads drive.**  Thread `t` is the only thread that *acquires* for pool
`p`; any number of other threads may drive `p` concurrently with operations that do not acquire (`release_all`,
`Worker.release`, `idle_workers`, `workers`, `call`, `next_idle_worker(maybe_acquire=False)`, further finalisers) and
everything for other pools.  Whenever `t` has just left the `finally: release_all()` of `p`, the pool has no acquired
worker.  (Strictly stronger than `C20_released_on_exit`, whose hypothesis implies this one.  If another thread of the same
pool acquires concurrently the statement is false — and should be: `Witness.C20_exit_shared_acquirer`.) -/
theorem C20_released_on_exit_shared (pw : Owner.Pid → List Owner.Wid) (p : Owner.Pid) (t : Owner.Tid)
    (c0 c : Owner.Cfg) (h0 : Owner.Init c0)
    (hacq : ∀ t', t' ≠ t → ∀ op ∈ (c0.T t').script, op.pool = p → op.mayAcq = false)
    (hr : Owner.Reach pw c0 c) (hidle : (c.T t).cur = none) (hex : (c.T t).exited = some p) :
    Owner.acquiredWorkers pw c.W p = [] := by
  have hE := Owner.ExitInvS_reach (p := p) (t := t) h0 hacq hr
  have htodo : (c.T t).todo p = some [] := by simp [Owner.Thread.todo, hidle, hex]
  simp only [Owner.acquiredWorkers, List.filter_eq_nil_iff]
  intro w hw hl
  simp only [Owner.isLocked, Bool.and_eq_true, beq_iff_eq] at hl
  have := hE.todo [] htodo w hw hl.2
  simp at this

/-- **Released on exit, for every liveness assignment.**  The same statement over explicit schedules:
every entry of `sched` carries the capacity/liveness assignment `u : Wid → Bool` in force at that
step, chosen adversarially and independently at every step — workers may die or revive before,
during and after their acquisition, between the body and the `finally`, and between two `release`
calls of the `finally`.  The finaliser `Op.finalize p` iterates over `pw p` (= `self._workers`, *all*
workers of the pool, not the alive ones) and no step of `release` reads the oracle
(`C20_release_ignores_liveness`), so a worker's death exempts it from nothing.  A `release_all` whose
default is the *alive* workers violates this: `Witness.C20_alive_only_finalizer`. -/
theorem C20_released_on_exit_every_liveness (pw : Owner.Pid → List Owner.Wid) (p : Owner.Pid) (t : Owner.Tid)
    (c0 : Owner.Cfg) (h0 : Owner.Init c0)
    (hsole : ∀ t', t' ≠ t → ∀ op ∈ (c0.T t').script, op.pool ≠ p)
    (sched : List (Owner.Tid × (Owner.Wid → Bool))) :
    let c := Owner.runSched pw c0 sched
    (c.T t).cur = none → (c.T t).exited = some p → Owner.acquiredWorkers pw c.W p = [] := by
  intro c hidle hex
  exact C20_released_on_exit pw p t c0 c h0 hsole (Owner.Reach_runSched sched c0 .refl) hidle hex

/-- No step of `acquire_by`, `release`, `is_available`, `is_locked`, `call` depends on the oracle: only
the two steps that return the values of `has_capacity` and `is_alive` inside `next_idle_worker` /
`idle_workers` do (`cExit`, `iExit` — the refinement of the former single point `uRd`; the lock
operations of these two methods do not read it either). -/
theorem C20_release_ignores_liveness (u u' : Owner.Wid → Bool) (W : Owner.Wid → Owner.Worker)
    (t : Owner.Tid) (cl : Owner.Call) (h : cl.pc ≠ .cExit) (h' : cl.pc ≠ .iExit) :
    Owner.mstep u W t cl = Owner.mstep u' W t cl :=
  Owner.mstep_oracle_irrelevant u u' W t cl h h'

/-- The marker used by `C20_released_on_exit` is set exactly when the `finally: release_all()` has
released its last worker: the step that leaves the last `release` of a finaliser of `p` makes the
thread idle with `exited = some p`. -/
theorem C20_finalize_marks_exit (pw : Owner.Pid → List Owner.Wid) (u : Owner.Wid → Bool) (c c' : Owner.Cfg)
    (t : Owner.Tid) (cl : Owner.Call) (p : Owner.Pid)
    (hcur : (c.T t).cur = some (cl, .relAll p [] true)) (hpc : cl.pc = .rExit)
    (hs : Owner.step? pw u c t = some c') :
    (c'.T t).cur = none ∧ (c'.T t).exited = some p := by
  unfold Owner.step? at hs
  have hm : Owner.mstep u c.W t cl =
      some (Owner.upd c.W cl.w { c.W cl.w with sl := none }, .ret true) := by simp [Owner.mstep, hpc]
  simp only [hcur, hm, Option.some.injEq] at hs
  subst hs
  simp [Owner.resume, Owner.relAllLoop, Owner.Thread.apply]

/-- The scripts of the three pool operations do end in the finaliser, whatever happens in the body. -/
theorem C20_scripts_end_in_finalize (pw : Owner.Pid → List Owner.Wid) (p : Owner.Pid) (n : Nat)
    (body : List Owner.BodyAct) :
    (Owner.runScript pw p n).getLast? = some (.finalize p) ∧
    (Owner.callAndWaitScript pw p).getLast? = some (.finalize p) ∧
    (Owner.asCompletedScript p body).getLast? = some (.finalize p) := by
  simp [Owner.runScript, Owner.callAndWaitScript, Owner.asCompletedScript]

/-! ## Ownership × liveness environment: the LTS the real threads are replayed against

`OwnerEnv` is the product of the ownership LTS with the concurrent registry / heartbeat / transport
model (registry lock, per-worker pending calls and pings, late / failed deliveries, `die` / `revive` /
heartbeat sends by environment threads, clock ticks).  The harness drives the real `Worker` /
`WorkerPool` / `WorkerRegistry` through scheduler-chosen interleavings and compares every step with
`OwnerEnv.xstep?` (family `sched` of harness/props/c20.py).  The theorems below say that everything
proved for `Owner` under an arbitrary oracle holds for every execution of this product, and that the
registry part of the property holds under every schedule. -/

/-- **Refinement.**  Every execution of the product projects to an execution of the ownership LTS: a
product step is an `Owner` step under the oracle value the environment supplies (the verdicts of
`has_capacity` / `is_alive`), or a stuttering step (registry-lock steps, environment threads). -/
theorem C20_sched_refines (pw : Owner.Pid → List Owner.Wid) (x0 x : OwnerEnv.X)
    (hr : OwnerEnv.XReach pw x0 x) : Owner.Reach pw x0.base x.base :=
  OwnerEnv.XReach_base hr

/-- **Single owner under every schedule of pool and environment threads.** -/
theorem C20_sched_single_owner (pw : Owner.Pid → List Owner.Wid) (x0 : OwnerEnv.X) (h0 : Owner.Init x0.base)
    (ts : List Owner.Tid) (w : Owner.Wid) :
    let x := OwnerEnv.xrun pw x0 ts
    (x.base.W w).sl = none → ((x.base.W w).lock = true ↔ (x.base.W w).pool ≠ none) := by
  intro x hfree
  exact C20_single_owner pw x0.base x.base h0
    (OwnerEnv.XReach_base (OwnerEnv.XReach_xrun ts x0 .refl)) w hfree

/-- **Release only owned, under every schedule** (step form): whatever the environment does, a product
step that takes `w` away from pool `p` is the write of an owner-checked `release` by a thread acting for `p`. -/
theorem C20_sched_release_only_owned_step (pw : Owner.Pid → List Owner.Wid) (x0 x x' : OwnerEnv.X)
    (h0 : Owner.Init x0.base) (hrep : Owner.RepairedCfg x0.base) (hr : OwnerEnv.XReach pw x0 x)
    (t : Owner.Tid) (hs : OwnerEnv.xstep? pw x t = some x')
    (w : Owner.Wid) (p : Owner.Pid) (hp : (x.base.W w).pool = some p) (hp' : (x'.base.W w).pool ≠ some p) :
    ∃ cl k, (x.base.T t).cur = some (cl, k) ∧ cl.w = w ∧ cl.p = p ∧ cl.pc = .rWr := by
  rcases OwnerEnv.xstep_base hs with h1 | ⟨u, h1⟩
  · rw [h1] at hp'; exact absurd hp hp'
  · exact C20_release_only_owned_step pw x0.base x.base x'.base h0 hrep (OwnerEnv.XReach_base hr) t u h1 w p hp hp'

/-- **Released on exit, under every schedule of pool and environment threads**: deaths, revivals,
heartbeats, late or failed replies and clock ticks interleaved anywhere — before, during and after the
acquisitions, between the body and the `finally`, between two `release` calls of the `finally` — do not
leave a worker acquired by the pool whose operation has returned. -/
theorem C20_sched_released_on_exit (pw : Owner.Pid → List Owner.Wid) (p : Owner.Pid) (t : Owner.Tid)
    (x0 : OwnerEnv.X) (h0 : Owner.Init x0.base)
    (hsole : ∀ t', t' ≠ t → ∀ op ∈ (x0.base.T t').script, op.pool ≠ p) (ts : List Owner.Tid) :
    let x := OwnerEnv.xrun pw x0 ts
    (x.base.T t).cur = none → (x.base.T t).exited = some p → Owner.acquiredWorkers pw x.base.W p = [] := by
  intro x hidle hex
  exact C20_released_on_exit pw p t x0.base x.base h0 hsole
    (OwnerEnv.XReach_base (OwnerEnv.XReach_xrun ts x0 .refl)) hidle hex

/-- **Released on exit under every schedule, pool shared by several threads** (`t` the only acquirer for `p`). -/
theorem C20_sched_released_on_exit_shared (pw : Owner.Pid → List Owner.Wid) (p : Owner.Pid) (t : Owner.Tid)
    (x0 : OwnerEnv.X) (h0 : Owner.Init x0.base)
    (hacq : ∀ t', t' ≠ t → ∀ op ∈ (x0.base.T t').script, op.pool = p → op.mayAcq = false) (ts : List Owner.Tid) :
    let x := OwnerEnv.xrun pw x0 ts
    (x.base.T t).cur = none → (x.base.T t).exited = some p → Owner.acquiredWorkers pw x.base.W p = [] := by
  intro x hidle hex
  exact C20_released_on_exit_shared pw p t x0.base x.base h0 hacq
    (OwnerEnv.XReach_base (OwnerEnv.XReach_xrun ts x0 .refl)) hidle hex

/-- **Dead stays dead, under every schedule.**  Once the entry of `a` is dead, along any interleaving of
pool threads (whose `is_alive` folds finished calls into the registry — `refresh` with the *send* time of
late replies) and environment threads in which no executed step performs a `register a` (no `revive a`,
no delivered `heartbeat(a, is_alive=True)`), the entry is still dead and reads 0. -/
theorem C20_sched_dead_stays_dead (pw : Owner.Pid → List Owner.Wid) (a : Owner.Wid) (x : OwnerEnv.X)
    (ts : List Owner.Tid) (hdead : x.env.reg a = some none) (hno : OwnerEnv.NoRegister pw a x ts) :
    let x' := OwnerEnv.xrun pw x ts
    x'.env.reg a = some none ∧ Registry.get x'.env.reg a = 0 := by
  intro x'
  have h := OwnerEnv.xrun_dead a ts x hdead hno
  exact ⟨h, Registry.get_dead _ _ h⟩

/-- **A dead worker is not reported alive.**  The step of `is_alive` that reads the registry (under the
registry lock) when the worker's entry is dead records `last = 0`; and from `last = 0` (with the clock
beyond the threshold) the verdict computed when the lock is released is `False` — whatever calls are
pending, delivered late, or folded before. -/
theorem C20_sched_dead_not_alive (pw : Owner.Pid → List Owner.Wid) (x x1 : OwnerEnv.X) (t : Owner.Tid)
    (cl : Owner.Call) (k : Owner.K) (now0 : Registry.Time)
    (hcur : (x.base.T t).cur = some (cl, k)) (hpc : cl.pc = .iExit) (hm : x.env.mic t = .getAcq now0)
    (hdead : x.env.reg cl.w = some none) (hs : OwnerEnv.xstep? pw x t = some x1) :
    x1.env.mic t = .getRel now0 0 ∧
    ∀ (y y' : OwnerEnv.X) (cl' : Owner.Call) (k' : Owner.K), (y.base.T t).cur = some (cl', k') → cl'.pc = .iExit →
      y.env.mic t = .getRel now0 0 → y.env.thr ≤ now0 → OwnerEnv.xstep? pw y t = some y' →
      y'.env.mic t = .exit false := by
  refine ⟨?_, ?_⟩
  · have := (OwnerEnv.xstep_getAcq hcur hpc hm hs).2.1
    rwa [Registry.get_dead _ _ hdead] at this
  · intro y y' cl' k' hc' hp' hm' hthr hs'
    have := (OwnerEnv.xstep_getRel hc' hp' hm' hs').2
    rwa [Registry.fresh_zero_false _ _ hthr] at this

/-- **Liveness is a function of (last recorded heartbeat, threshold, now), under every schedule.**  The
value `is_alive` hands to the pool operation is `now₀ - last < thr`, where `last` is what the registry
recorded for the worker at the moment of the (lock-protected) read and `now₀` the clock read just
before it: the read step records exactly `get reg w`, the release step turns it into the verdict, and
the final step of `is_alive` is the `Owner` step `iExit` under exactly that oracle value. -/
theorem C20_sched_liveness_fn (pw : Owner.Pid → List Owner.Wid) (x x' : OwnerEnv.X) (t : Owner.Tid)
    (cl : Owner.Call) (k : Owner.K) (hcur : (x.base.T t).cur = some (cl, k)) (hpc : cl.pc = .iExit)
    (hs : OwnerEnv.xstep? pw x t = some x') :
    (∀ now0, x.env.mic t = .getAcq now0 → x'.env.mic t = .getRel now0 (Registry.get x.env.reg cl.w)) ∧
    (∀ now0 last, x.env.mic t = .getRel now0 last → x'.env.mic t = .exit (Registry.fresh now0 last x.env.thr)) ∧
    (∀ b, x.env.mic t = .exit b → Owner.step? pw (fun _ => b) x.base t = some x'.base) :=
  ⟨fun _ hm => (OwnerEnv.xstep_getAcq hcur hpc hm hs).2.1,
   fun _ _ hm => (OwnerEnv.xstep_getRel hcur hpc hm hs).2,
   fun _ hm => OwnerEnv.xstep_iExit hcur hpc hm hs⟩

/-- **Monotone, under every schedule.**  Along any interleaving in which no executed step performs an
`unregister a`, a live entry stays live and its recorded heartbeat never moves backwards — late replies
are folded with their (older) send times, concurrent `revive`s and delivered heartbeats commit in any order. -/
theorem C20_sched_monotone (pw : Owner.Pid → List Owner.Wid) (a : Owner.Wid) (x : OwnerEnv.X)
    (ts : List Owner.Tid) (l : Registry.Time) (hlive : x.env.reg a = some (some l))
    (hno : OwnerEnv.NoUnregister pw a x ts) :
    ∃ l', (OwnerEnv.xrun pw x ts).env.reg a = some (some l') ∧ l ≤ l' :=
  OwnerEnv.xrun_mono a ts x l hlive hno

/-- The registry changes only through registry events, each performed under the registry lock by the
step that acquires it: `refresh` by the fold of `is_alive`, `register` / `unregister` by the
environment (`revive` / `die`, delivered heartbeats). -/
theorem C20_sched_registry_events (pw : Owner.Pid → List Owner.Wid) (x x' : OwnerEnv.X) (t : Owner.Tid)
    (hs : OwnerEnv.xstep? pw x t = some x') :
    x'.env.reg = Registry.run x.env.reg (OwnerEnv.regEvents x t) :=
  OwnerEnv.xstep_reg hs

/-! ## The composite operations as programs: `WorkerPool.run` and `call_and_wait`, step by step (round 6)

In the product LTS the two operations are executed by a controller (`OwnerEnv.Ctl`): between two *pieces* (primitive
operations of the ownership LTS: `aliveWorkers`, `nextIdle`, `submitW`, `acquireAllCall`, `finalize`) it stops at the
operation's own yield points — clock reads, sleeps, `futures.wait`, the `done()` polls of `courier_worker.wait` — where the
spin loops decide, from the clock and from what the environment delivered, whether to go round again.  The harness replays the
real `WorkerPool.run` / `call_and_wait` against exactly this (family `schedc`).  The theorems say that the `finally:` cannot be
by-passed and that when it ends nothing is left acquired — for every schedule, every clock behaviour, every fate of the replies. -/

/-- **Inside a piece the controller does not move**; the outcome of a composite operation is recorded only by the step
that ends its last piece: the finaliser (`fin p o` ↦ `o`), or — for a `run` that failed in `wait_until_alive()` before its
`try:` — the error message (`rErr` ↦ `notStarted`); a `Worker.submit` on its own (`sSub`, what `as_completed` calls; it acquires
and releases nothing) returns `ok` as soon as its call has been made. -/
theorem C20_sched_outcome_only_at_end (pw : Owner.Pid → List Owner.Wid) (x x' : OwnerEnv.X) (t : Owner.Tid)
    (cl : Owner.Call) (k : Owner.K) (hcur : (x.base.T t).cur = some (cl, k)) (h : OwnerEnv.xstep? pw x t = some x') :
    (x'.env.ctl t = x.env.ctl t ∧ x'.env.outs t = x.env.outs t) ∨
    ((x'.base.T t).cur = none ∧ x'.env.ctl t = .idle ∧
      ((∃ p o, x.env.ctl t = .fin p o ∧ x'.env.outs t = x.env.outs t ++ [o]) ∨
       (∃ p, x.env.ctl t = .rErr p ∧ x'.env.outs t = x.env.outs t ++ [.notStarted]) ∨
       (∃ p b w, x.env.ctl t = .sSub p b w ∧ x'.env.outs t = x.env.outs t ++ [.ok]))) :=
  OwnerEnv.xstep_ctl_inCall hcur h

/-- **Every way out of the `try:` goes through the `finally:`.**  A thread whose controller is inside the `try:` of
`run` / `call_and_wait` and that is between two pieces (it has found no worker yet, it is about to sleep, to read the
clock, to wait for a reply …) moves to another point of the `try:`, or starts the finaliser, or — only when the
finaliser has no worker to look at and ends at once — records an outcome different from `notStarted`.  In particular the
time-outs (`ValueError('No worker is available.')` after 180 s, `RuntimeError` of a worker that disconnected), a task that
raised and an error reply all lead to `Ctl.fin`. -/
theorem C20_sched_try_exits_through_finally (pw : Owner.Pid → List Owner.Wid) (x x' : OwnerEnv.X) (t : Owner.Tid)
    (hcur : (x.base.T t).cur = none) (htry : (x.env.ctl t).inTry = true) (h : OwnerEnv.xstep? pw x t = some x') :
    (x'.env.ctl t).inTry = true ∨ (∃ p o, x'.env.ctl t = .fin p o) ∨
    (x'.env.ctl t = .idle ∧ ∃ o, o ≠ .notStarted ∧ x'.env.outs t = x.env.outs t ++ [o] ∧ (x'.base.T t).cur = none) :=
  OwnerEnv.xstep_try hcur htry h

/-- Before the `try:` (`run`'s `wait_until_alive()`) the controller stays there, enters the `try:`, or the operation ends
as *not started* — the one documented way in which `run` raises without running its `finally:`. -/
theorem C20_sched_not_started_only_before_try (pw : Owner.Pid → List Owner.Wid) (x x' : OwnerEnv.X) (t : Owner.Tid)
    (hcur : (x.base.T t).cur = none) (hpre : (x.env.ctl t).preTry = true) (h : OwnerEnv.xstep? pw x t = some x') :
    (x'.env.ctl t).preTry = true ∨ (x'.env.ctl t).inTry = true ∨
    (x'.env.ctl t = .idle ∧ x'.env.outs t = x.env.outs t ++ [.notStarted]) :=
  OwnerEnv.xstep_pretry hcur hpre h

/-- **Released when `run` / `call_and_wait` returns or raises, under every schedule.**  Thread `t` is the only thread that
acquires for pool `p` (others may release, call, poll `idle_workers` for it); initially no thread is inside a composite
operation.  In any reachable configuration of the product in which `t`'s controller is in the finaliser of a composite
operation of `p` (`Ctl.fin p o`: `o` is what the operation will return or raise — by
`C20_sched_try_exits_through_finally` the only way out of its `try:`), the step that ends the operation — the controller
becomes idle — leaves pool `p` without any acquired worker, and records `o`.  Deaths, revivals, heartbeats, clock ticks
past the deadlines, late / failed / missing replies interleaved anywhere make no difference.  (That `Ctl.fin` is only held
inside `release_all` of the ownership LTS is an invariant of the product: `OwnerEnv.FinOK_reach`.) -/
theorem C20_sched_composite_released (pw : Owner.Pid → List Owner.Wid) (p : Owner.Pid) (t : Owner.Tid)
    (x0 x x' : OwnerEnv.X) (h0 : Owner.Init x0.base) (hctl0 : ∀ t, x0.env.ctl t = .idle)
    (hacq : ∀ t', t' ≠ t → ∀ op ∈ (x0.base.T t').script, op.pool = p → op.mayAcq = false)
    (hr : OwnerEnv.XReach pw x0 x) (o : OwnerEnv.Outc) (hctl : x.env.ctl t = .fin p o)
    (hs : OwnerEnv.xstep? pw x t = some x') (hidle : x'.env.ctl t = .idle) :
    Owner.acquiredWorkers pw x'.base.W p = [] ∧ x'.env.outs t = x.env.outs t ++ [o] := by
  obtain ⟨cl, rest, hcur⟩ := OwnerEnv.FinOK_reach hctl0 hr t p o hctl
  obtain ⟨hnone, hex, hout⟩ := OwnerEnv.xstep_fin_exit hctl hcur hs hidle
  exact ⟨C20_released_on_exit_shared pw p t x0.base x'.base h0 hacq
    (OwnerEnv.XReach_base (OwnerEnv.XReach.step hr hs)) hnone hex, hout⟩

/-- The controller is in `Ctl.fin p o` only while the thread is inside the finaliser `release_all()` of `p` in the
ownership LTS — in every reachable configuration. -/
theorem C20_sched_fin_inside_finaliser (pw : Owner.Pid → List Owner.Wid) (x0 x : OwnerEnv.X)
    (hctl0 : ∀ t, x0.env.ctl t = .idle) (hr : OwnerEnv.XReach pw x0 x) (t : Owner.Tid) (p : Owner.Pid) (o : OwnerEnv.Outc)
    (hctl : x.env.ctl t = .fin p o) : ∃ cl rest, (x.base.T t).cur = some (cl, .relAll p rest true) :=
  OwnerEnv.FinOK_reach hctl0 hr t p o hctl

/-! ## `orchestrate.as_completed` as a program of the product LTS (round 11)

`for r in as_completed(pool, tasks, ignore_failures)` is executed by the controller `OwnerEnv.Ctl.ac` (local state `OwnerEnv.AC`:
the task iterator, `exhausted`, the retry stack `tasks`, `running_tasks`, the `preferred` set, the `workers` order of the current
round; program `OwnerEnv.acPlan`, a line-by-line transcription of orchestrate.py:474–557).  Its yield points are the pool-level
calls it makes (pieces of the ownership LTS: `workers` twice, `next_idle_worker(workers, maybe_acquire=True)`, `worker.submit`,
`task.is_alive`, `acquired_workers`, `release_all(unused_workers)`, the final `release_all()`) and every `task.done()` poll (the
future is shared with the transport).  The iteration order of the sets, `random.shuffle` and `random.sample` are ENVIRONMENT
choices: every order / sample the Python semantics allows is accepted (`legalOrder`, `legalUnused`) and the chosen one is read off
the prophecy script, like the pieces of `run`.  Task outcomes are the transport's (`deliver` ok / failed / never), worker deaths and
revivals the environment threads'; the consumer may close the generator at any `yield` (`take`).  The harness replays the real
`as_completed` against exactly this program, step by step (family `scheda`).  The theorems hold for the repaired code
(`fixed = true`: F-C20-release-empty-set) and for the unrepaired control flow alike, except `C20_as_completed_release_never_empty`. -/

/-- **Every way out of the body of `as_completed` goes through `finally: worker_pool.release_all()`.**  Between two pieces, a
step of a thread in the body of `as_completed` of pool `a.p` — whatever the tasks did (result, exception with or without
`ignore_failures`, never answered), whatever died (`TimeoutError('All workers timeout')`, `RuntimeError` of a worker that
disconnected during `submit`, the `InvalidStateError` of a future completed behind `set_exception`), and when the consumer closes the
generator at a `yield` — stays in the body (of the same pool), or starts the finaliser (`Ctl.fin a.p o`), or, when the pool has
no worker at all and the finaliser ends at once, ends the operation with the thread just out of `finalize a.p`. -/
theorem C20_as_completed_exits_through_finally (pw : Owner.Pid → List Owner.Wid) (x x' : OwnerEnv.X) (t : Owner.Tid)
    (a : OwnerEnv.AC) (hcur : (x.base.T t).cur = none) (hctl : x.env.ctl t = .ac a)
    (h : OwnerEnv.xstep? pw x t = some x') :
    (∃ a', x'.env.ctl t = .ac a' ∧ a'.p = a.p) ∨ (∃ o, x'.env.ctl t = .fin a.p o) ∨
    (x'.env.ctl t = .idle ∧ (∃ o, x'.env.outs t = x.env.outs t ++ [o]) ∧
      (x'.base.T t).cur = none ∧ (x'.base.T t).exited = some a.p) :=
  OwnerEnv.xstep_ac hcur hctl h

/-- Inside a piece (a pool-level call of the body) the controller of `as_completed` does not move and records nothing. -/
theorem C20_as_completed_inside_piece (pw : Owner.Pid → List Owner.Wid) (x x' : OwnerEnv.X) (t : Owner.Tid)
    (a : OwnerEnv.AC) (cl : Owner.Call) (k : Owner.K) (hcur : (x.base.T t).cur = some (cl, k))
    (hctl : x.env.ctl t = .ac a) (h : OwnerEnv.xstep? pw x t = some x') :
    x'.env.ctl t = .ac a ∧ x'.env.outs t = x.env.outs t :=
  OwnerEnv.xstep_ac_inCall hcur hctl h

/-- **Released when `as_completed` ends — exhausted, raised, or closed early — under every schedule.**  Thread `t` is the only
thread that acquires for pool `p`; initially no thread is inside a composite operation.  In any reachable configuration of the
product in which `t` is executing `as_completed` of `p` (in its body, `Ctl.ac a` with `a.p = p`, or in its finaliser, `Ctl.fin p o`),
the step after which the operation has ended — `t`'s controller is idle — leaves pool `p` without any acquired worker, and
records an outcome.  Quantified over every task list, every outcome of every task, every fault of the environment (deaths,
revivals, heartbeats, clock ticks, late / failed / missing replies), every choice of worker order and reserved sample, every
moment at which the consumer closes the generator, every interleaving with other pools' and environment threads. -/
theorem C20_as_completed_released_on_exit (pw : Owner.Pid → List Owner.Wid) (p : Owner.Pid) (t : Owner.Tid)
    (x0 x x' : OwnerEnv.X) (h0 : Owner.Init x0.base) (hctl0 : ∀ t, x0.env.ctl t = .idle)
    (hacq : ∀ t', t' ≠ t → ∀ op ∈ (x0.base.T t').script, op.pool = p → op.mayAcq = false)
    (hr : OwnerEnv.XReach pw x0 x)
    (hin : (∃ a, x.env.ctl t = .ac a ∧ a.p = p) ∨ ∃ o, x.env.ctl t = .fin p o)
    (hs : OwnerEnv.xstep? pw x t = some x') (hidle : x'.env.ctl t = .idle) :
    Owner.acquiredWorkers pw x'.base.W p = [] ∧ ∃ o, x'.env.outs t = x.env.outs t ++ [o] := by
  rcases hin with ⟨a, hctl, hp⟩ | ⟨o, hctl⟩
  · subst hp
    cases hcur : (x.base.T t).cur with
    | some ck =>
      obtain ⟨cl, k⟩ := ck
      have := (OwnerEnv.xstep_ac_inCall hcur hctl hs).1
      rw [hidle] at this; exact absurd this (by simp)
    | none =>
      rcases OwnerEnv.xstep_ac hcur hctl hs with ⟨a', ha', _⟩ | ⟨o, ho⟩ | ⟨_, hout, hn, hex⟩
      · rw [hidle] at ha'; exact absurd ha' (by simp)
      · rw [hidle] at ho; exact absurd ho (by simp)
      · exact ⟨C20_released_on_exit_shared pw a.p t x0.base x'.base h0 hacq
          (OwnerEnv.XReach_base (OwnerEnv.XReach.step hr hs)) hn hex, hout⟩
  · obtain ⟨h1, h2⟩ := C20_sched_composite_released pw p t x0 x x' h0 hctl0 hacq hr o hctl hs hidle
    exact ⟨h1, o, h2⟩

/-- **`as_completed` releases only through owner-checked releases of its own pool.**  Every piece its controller starts is the
next operation of the thread's script, acts for the pool of the `as_completed`, and is an operation of the repaired code (no
unconditional `Worker.release()`, no `release_all` that checks outside the lock) — so `C20_sched_release_only_owned_step`
applies to every script that lets the controller through: no interleaving lets `as_completed` take a worker away from another
pool.  Moreover a mid-run `release_all(ws)` (orchestrate.py:553) names only workers that the immediately preceding
`acquired_workers` reported as the pool's own and on which none of the tasks in `running_tasks` was submitted. -/
theorem C20_as_completed_release_only_owned (pw : Owner.Pid → List Owner.Wid) (x x' : OwnerEnv.X) (t : Owner.Tid)
    (a : OwnerEnv.AC) (hcur : (x.base.T t).cur = none) (hctl : x.env.ctl t = .ac a)
    (h : OwnerEnv.xstep? pw x t = some x') (hpiece : (x'.base.T t).script ≠ (x.base.T t).script) :
    ∃ op s, (x.base.T t).script = op :: s ∧ op.pool = a.p ∧ op.repaired = true ∧
      ∀ q ws, op = .releaseAll q ws →
        ∃ acquired, OwnerEnv.lastRes x t = some (.workers acquired) ∧
          ∀ w ∈ ws, w ∈ acquired ∧ ∀ r ∈ a.running, r.w ≠ w := by
  unfold OwnerEnv.xstep? at h
  simp only [hcur, hctl, OwnerEnv.cstep] at h
  obtain ⟨op, s, hsc, hp, hrep, _, hrel⟩ := OwnerEnv.acstep_piece h hpiece
  refine ⟨op, s, hsc, hp, hrep, ?_⟩
  intro q ws hq
  obtain ⟨acquired, hl, hws, _⟩ := OwnerEnv.RelSpec_workers (hrel q ws hq)
  exact ⟨acquired, hl, hws⟩

/-- **Repaired code: the mid-run release is never the "release everything" call.**  `WorkerPool.release_all(workers)` reads an
empty collection as "all workers of the pool" (`workers = workers or self._workers`); the unrepaired `as_completed` called it with
the empty set whenever every acquired worker was running a task or reserved — releasing exactly the workers it meant to keep
(`Witness.C20_as_completed_empty_release`).  With `fixed = true` a `release_all(ws)` piece of the body has `ws ≠ []`, so — by
`C20_as_completed_release_only_owned` — it releases no worker on which a running task was submitted. -/
theorem C20_as_completed_release_never_empty (pw : Owner.Pid → List Owner.Wid) (x x' : OwnerEnv.X) (t : Owner.Tid)
    (a : OwnerEnv.AC) (hfixed : a.fixed = true) (hcur : (x.base.T t).cur = none) (hctl : x.env.ctl t = .ac a)
    (h : OwnerEnv.xstep? pw x t = some x') (q : Owner.Pid) (ws : List Owner.Wid) (s : List Owner.Op)
    (hsc : (x.base.T t).script = .releaseAll q ws :: s) (hpiece : (x'.base.T t).script ≠ (x.base.T t).script) :
    ws ≠ [] := by
  unfold OwnerEnv.xstep? at h
  simp only [hcur, hctl, OwnerEnv.cstep] at h
  obtain ⟨op, s', hsc', _, _, _, hrel⟩ := OwnerEnv.acstep_piece h hpiece
  rw [hsc] at hsc'
  simp only [List.cons.injEq] at hsc'
  obtain ⟨_, _, _, hne⟩ := OwnerEnv.RelSpec_workers (hrel q ws hsc'.1.symm)
  exact hne hfixed

/-! ## Non-vacuity: the hypotheses are satisfiable and the conclusions are reached -/

section NonVacuity
open Owner

/-- two pools (0, 1) over workers {0,1}; thread 0 runs `call_and_wait` for pool 0, thread 1 `run` for pool 1 -/
def pw2 : Pid → List Wid := fun _ => [0, 1]
def cfg2 : Cfg :=
  ⟨fun _ => {}, fun t => if t = 0 then { script := callAndWaitScript pw2 0 }
                         else if t = 1 then { script := runScript pw2 1 1 } else {}⟩
def allUsable : Wid → Bool := fun _ => true

example : Init cfg2 := by
  refine ⟨fun _ => rfl, fun t => ?_⟩
  by_cases h0 : t = 0 <;> by_cases h1 : t = 1 <;> simp [cfg2, h0, h1]

example : RepairedCfg cfg2 := by
  intro t
  by_cases h0 : t = 0 <;> by_cases h1 : t = 1 <;>
    simp [cfg2, h0, h1, callAndWaitScript, runScript, Op.repaired, pw2]

set_option maxRecDepth 4000 in
/-- thread 0 alone: 30 steps finish to finish `call_and_wait`; it exits with nothing acquired,
having acquired both workers on the way (test by evaluation). -/
example : ((runSched pw2 cfg2 (List.replicate 30 (0, allUsable))).T 0).exited = some 0 := by rfl
example : ((runSched pw2 cfg2 (List.replicate 14 (0, allUsable))).W 0).pool = some 0 := by rfl

/-- the registry hypotheses: a live entry, a history without unregister -/
example : ∃ l', Registry.run (Registry.register Registry.Reg.empty 7 100)
    [.refresh 7 50, .register 7 80, .refresh 7 120, .refresh 3 1] 7 = some (some l') ∧ (100 : Int) ≤ l' :=
  C20_monotone _ 7 100 _ (by simp [Registry.register, Registry.Reg.empty]) (by decide)

example : Registry.get (Registry.run (Registry.unregister (Registry.register Registry.Reg.empty 7 100) 7)
    [.refresh 7 500, .refresh 7 900, .register 3 1000]) 7 = 0 :=
  (C20_dead_stays_dead _ 7 _ (by decide)).2.1


/-! product: thread 0 = `next_idle_worker(maybe_acquire=True)` then the finaliser for pool 0 over worker 0,
thread 1 = environment `[die 0, send 0 alive, deliver 0, revive 0]`; clock 1000, threshold 100, worker 0 registered -/
open OwnerEnv in
def xcfg : X :=
  ⟨⟨fun _ => {}, fun t => if t = 0 then { script := [.nextIdle 0 [0] true, .finalize 0] } else {}⟩,
   { reg := fun a => if a = 0 then some (some 1000) else none, now := 1000, thr := 100,
     escript := fun t => if t = 1 then [.die 0, .send 0 true, .deliver 0 false, .revive 0] else [] }⟩
def pw1 : Pid → List Wid := fun _ => [0]

example : Init xcfg.base := by
  refine ⟨fun _ => rfl, fun t => ?_⟩
  by_cases h0 : t = 0 <;> simp [xcfg, h0]

set_option maxRecDepth 4000 in
/-- the environment pronounces worker 0 dead (3 steps of thread 1); thread 0 then acquires it, finds it has
capacity but is not alive, pings it, returns `None`; its finaliser releases the worker (tests by evaluation) -/
example : (OwnerEnv.xrun pw1 xcfg [1, 1, 1]).env.reg 0 = some none := by decide
set_option maxRecDepth 8000 in
example : ((OwnerEnv.xrun pw1 xcfg ([1, 1, 1] ++ List.replicate 17 0)).base.T 0).results = [.worker none] := by decide
set_option maxRecDepth 8000 in
example : ((OwnerEnv.xrun pw1 xcfg ([1, 1, 1] ++ List.replicate 17 0)).base.W 0).pool = some 0 := by decide
set_option maxRecDepth 8000 in
example : ((OwnerEnv.xrun pw1 xcfg ([1, 1, 1] ++ List.replicate 40 0)).base.T 0).exited = some 0 := by decide
/-- no step of that schedule registers worker 0 (hypothesis of `C20_sched_dead_stays_dead`) -/
example : OwnerEnv.NoRegister pw1 0 (OwnerEnv.xrun pw1 xcfg [1, 1, 1]) [0, 0, 0, 1] := by
  simp only [OwnerEnv.NoRegister]; decide

/-- hypothesis of `C20_released_on_exit_shared`: thread 1 drives the same pool 0 with non-acquiring operations -/
example : ∀ op ∈ ([.releaseAll 0 [], .idleWorkers 0, .callW 0 1, .nextIdle 0 [0, 1] false, .acquireAll 1 [0] 0] : List Op),
    op.pool = 0 → op.mayAcq = false := by decide

/-! composite operation: thread 0 = `pool.run(task)` for pool 0 over worker 0 (alive), with the script of pieces its
controller will ask for; thread 1 = the transport delivering the reply.  Thread 0 runs until it waits for the reply
(`futures.wait`: blocked — the extra entries of the schedule are skipped), the reply is delivered, thread 0 runs its `finally:`. -/
open OwnerEnv in
def rcfg : X :=
  ⟨⟨fun _ => {}, fun t => if t = 0 then { script := [.aliveWorkers 0 false, .nextIdle 0 [0] true, .submitW 0 0 0, .finalize 0] } else {}⟩,
   { reg := fun a => if a = 0 then some (some 1000) else none, now := 1000, thr := 100,
     prog := fun t => if t = 0 then [.run 0 false] else [],
     escript := fun t => if t = 1 then [.deliver 0 false] else [] }⟩
def rsched1 : List Tid := List.replicate 40 0
def rsched2 : List Tid := List.replicate 40 0 ++ [1] ++ List.replicate 30 0

set_option maxRecDepth 20000 in
/-- waiting for the reply: the worker is acquired by pool 0, the controller is inside the `try:` (test by evaluation) -/
example : ((OwnerEnv.xrun pw1 rcfg rsched1).base.W 0).pool = some 0 ∧
    (OwnerEnv.xrun pw1 rcfg rsched1).env.ctl 0 = .rSub 0 false 0 := by decide
example : ∀ t, rcfg.env.ctl t = .idle := fun _ => rfl
set_option maxRecDepth 20000 in
/-- in the middle of the `finally:` the controller is `fin 0 ok` (hypothesis `hctl` of `C20_sched_composite_released`) -/
example : (OwnerEnv.xrun pw1 rcfg (List.replicate 40 0 ++ [1] ++ List.replicate 4 0)).env.ctl 0 = .fin 0 .ok := by decide
set_option maxRecDepth 20000 in
/-- after the reply and the `finally:`: outcome `ok`, nothing acquired, exit marker set (test by evaluation) -/
example : (OwnerEnv.xrun pw1 rcfg rsched2).env.outs 0 = [.ok] ∧
    acquiredWorkers pw1 (OwnerEnv.xrun pw1 rcfg rsched2).base.W 0 = [] ∧
    ((OwnerEnv.xrun pw1 rcfg rsched2).base.T 0).exited = some 0 := by decide


/-! `as_completed` as a program: thread 0 consumes `as_completed(pool 0, [one task])` over worker 0 (alive, `max_parallelism` 2),
with the prophecy script of the pieces its controller will ask for (repaired code); thread 1 = the transport delivering the reply. -/
open OwnerEnv in
def acfg (fixed : Bool) (script : List Op) : X :=
  ⟨⟨fun _ => {}, fun t => if t = 0 then { script := script } else {}⟩,
   { reg := fun a => if a = 0 then some (some 1000) else none, now := 1000, thr := 100, mp := fun _ => 2,
     prog := fun t => if t = 0 then [.asCompleted 0 [false] false none fixed] else [],
     escript := fun t => if t = 1 then [.deliver 0 false] else [] }⟩
def acScript : List Op :=
  [.aliveWorkers 0 false, .aliveWorkers 0 false, .nextIdle 0 [0] true, .submitW 0 0 0, .nextIdle 0 [0] true, .isAliveW 0 0,
   .acquiredWorkers 0, .aliveWorkers 0 false, .aliveWorkers 0 false, .acquiredWorkers 0, .releaseAll 0 [0], .finalize 0]
def acSched : List Tid := List.replicate 61 0 ++ [1] ++ List.replicate 18 0
/-- (pool, workers of `running_tasks`, `exhausted`) of a controller in the body of `as_completed` -/
def acObs : OwnerEnv.Ctl → Option (Pid × List Wid × Bool)
  | .ac a => some (a.p, a.running.map (·.w), a.exhausted)
  | _ => none

example : Init (acfg true acScript).base := by
  refine ⟨fun _ => rfl, fun t => ?_⟩
  by_cases h0 : t = 0 <;> simp [acfg, h0]
example : ∀ t, (acfg true acScript).env.ctl t = .idle := fun _ => rfl
set_option maxRecDepth 100000 in
/-- while the task runs (51 steps: the submit loop is over, the iterator exhausted, `acquired_workers` has answered) the
controller is in the body of `as_completed` (hypothesis `hctl` of the theorems above), the worker is the pool's, the call is in flight:
the repaired code releases nothing (test by evaluation) -/
example : acObs ((OwnerEnv.xrun pw1 (acfg true acScript) (List.replicate 52 0)).env.ctl 0) = some (0, [0], true) ∧
    ((OwnerEnv.xrun pw1 (acfg true acScript) (List.replicate 52 0)).base.W 0).pool = some 0 := by decide +kernel
set_option maxRecDepth 100000 in
/-- the whole run: the reply arrives, the result is yielded, the now unused worker is released by `release_all([0])`, the loop
ends, the finaliser runs: outcome `ok`, nothing acquired, exit marker set (test by evaluation) -/
example : (OwnerEnv.xrun pw1 (acfg true acScript) acSched).env.outs 0 = [.ok] ∧
    acquiredWorkers pw1 (OwnerEnv.xrun pw1 (acfg true acScript) acSched).base.W 0 = [] ∧
    ((OwnerEnv.xrun pw1 (acfg true acScript) acSched).base.T 0).exited = some 0 ∧
    (OwnerEnv.xrun pw1 (acfg true acScript) acSched).env.ctl 0 = .idle := by decide +kernel

end NonVacuity

end MlModel.C20
