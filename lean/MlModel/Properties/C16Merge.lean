import MlModel.Model.MergeMulti
import MlModel.Properties.C16
/-!
# C16 — `merge_states` of a chain with SEVERAL aggregating stages over a one-shot stream of states

`sharded_pipelines_as_iterator` merges the shard states through `ChainedRunner.merge_states`, handing it a
generator (one traversal only).  Model: `Model/MergeMulti.lean`.
-/
namespace MlModel.C16
open MlModel.Sched

variable {S C : Type} (merge : C → C → C) (empty : C) (proj : Nat → S → C)

theorem mapM_ok_eq {α β : Type} (f : α → Except ErrKind β) (g : α → β) (hf : ∀ a, f a = .ok (g a)) :
    ∀ l : List α, l.mapM f = .ok (l.map g)
  | [] => rfl
  | a :: l => by
    rw [List.mapM_cons, hf a, mapM_ok_eq f g hf l]
    rfl

/-- **Every aggregating stage merges ALL states, whatever the number of stages, from ONE traversal.**
For a chain with `k` aggregating stages and a one-shot stream holding the states `o.rest` (one dict per
shard, component `proj j` belonging to stage `j`): with `strict_states_cnt = n ≥ 1` the merge raises
`ValueError` iff the stream does not deliver exactly `n` states, and otherwise returns, for EVERY stage `j`,
the full merge of the `j`-components of all `n` states - no stage sees a shorter (or empty) stream because an
earlier stage consumed it.  With `n = 0` (check off) every stage still merges all states. -/
theorem C16_merge_states_multi_stage (k : Nat) (o : OneShot S) (n : Nat) :
    chMergeMulti merge empty proj k o n =
      if n != 0 && o.rest.length != n then .error .value
      else .ok ((List.range k).map fun j => fullMerge merge empty (o.rest.map (proj j))) := by
  unfold chMergeMulti OneShot.drain
  simp only []
  split
  · rfl
  · exact mapM_ok_eq _ _ (fun j => by rw [trMerge_eq]; simp) _

/-- hence: exactly `n` states -> one complete merged component per stage (`k` of them) -/
theorem C16_merge_states_multi_stage_complete (k : Nat) (o : OneShot S) (n : Nat) (hn : o.rest.length = n) :
    ∃ cs, chMergeMulti merge empty proj k o n = .ok cs ∧ cs.length = k ∧
      ∀ j, j < k → cs[j]? = some (fullMerge merge empty (o.rest.map (proj j))) := by
  refine ⟨(List.range k).map fun j => fullMerge merge empty (o.rest.map (proj j)), ?_, by simp, ?_⟩
  · rw [C16_merge_states_multi_stage]; simp [hn]
  · intro j hj; simp [hj]

/-- test / non-vacuity: two stages (sum of the first, sum of the second component), three shard states -/
example : chMergeMulti (· + ·) 0 (fun j (p : Nat × Nat) => if j = 0 then p.1 else p.2) 2 ⟨[(1, 10), (2, 20), (3, 30)]⟩ 3
    = .ok [6, 60] := rfl

/-- **Witness for the single-pass class (seeded change C16-m2).**  Handing the one-shot stream to the stage
runners one after the other: the second aggregating stage finds the stream exhausted - with the strict count
the fault-free merge raises `ValueError` ("got 0 states, needs 3"), without it the second stage's aggregate is
silently empty. -/
theorem single_pass_second_stage_starves_witness :
    chMergeSinglePass (· + ·) 0 (fun j (p : Nat × Nat) => if j = 0 then p.1 else p.2) 2 ⟨[(1, 10), (2, 20), (3, 30)]⟩ 3
      = .error .value ∧
    chMergeSinglePass (· + ·) 0 (fun j (p : Nat × Nat) => if j = 0 then p.1 else p.2) 2 ⟨[(1, 10), (2, 20), (3, 30)]⟩ 0
      = .ok [6, 0] := ⟨rfl, rfl⟩

end MlModel.C16
