import MlModel.Model.MergeMulti
import MlModel.Properties.C16
import MlModel.Lemmas.MergeMulti
/-!
# C16 — `merge_states` of a chain with SEVERAL aggregating stages over a one-shot stream of states

`sharded_pipelines_as_iterator` merges the shard states through `ChainedRunner.merge_states`, handing it a
generator (one traversal only).  Model: `Model/MergeMulti.lean`.
-/
namespace MlModel.C16
open MlModel.Sched

variable {S C : Type} (merge : C → C → C) (empty : C) (proj : Nat → S → C)

/-- **Every aggregating stage merges ALL states, whatever the number of stages, from ONE traversal.**
For a chain with `k` aggregating stages and a one-shot stream holding the states `o.rest` (one dict per
shard, component `proj j` belonging to stage `j`): with `strict_states_cnt = n ≥ 1` the merge raises
`ValueError` iff the stream does not deliver exactly `n` states, and otherwise returns, for EVERY stage `j`,
the full merge of the `j`-components of all `n` states - no stage sees a shorter (or empty) stream because an
earlier stage consumed it.  With `n = 0` (check off) every stage still merges all states. -/
theorem C16_merge_states_multi_stage (k : Nat) (o : OneShot S) (n : Nat) :
    chMergeMulti merge empty proj k o n =
      if n != 0 && o.rest.length != n then .error .value
      else .ok ((List.range k).map fun j => fullMerge merge empty (o.rest.map (proj j))) := by
  unfold chMergeMulti OneShot.drain
  simp only []
  split
  · rfl
  · exact Sched.mapM_ok_eq _ _ (fun j => by rw [trMerge_eq]; simp) _

/-- hence: exactly `n` states -> one complete merged component per stage (`k` of them) -/
theorem C16_merge_states_multi_stage_complete (k : Nat) (o : OneShot S) (n : Nat) (hn : o.rest.length = n) :
    ∃ cs, chMergeMulti merge empty proj k o n = .ok cs ∧ cs.length = k ∧
      ∀ j, j < k → cs[j]? = some (fullMerge merge empty (o.rest.map (proj j))) := by
  refine ⟨(List.range k).map fun j => fullMerge merge empty (o.rest.map (proj j)), ?_, by simp, ?_⟩
  · rw [C16_merge_states_multi_stage]; simp [hn]
  · intro j hj; simp [hj]

/-- test / non-vacuity: two stages (sum of the first, sum of the second component), three shard states -/
example : chMergeMulti (· + ·) 0 (fun j (p : Nat × Nat) => if j = 0 then p.1 else p.2) 2 ⟨[(1, 10), (2, 20), (3, 30)]⟩ 3
    = .ok [6, 60] := rfl

end MlModel.C16
