import MlModel.Lemmas.QueueIntr
import MlModel.Properties.C05
/-!
# C13 / C05 — an interrupted consumer releases the producers (round 8)

"... when the stream is exhausted, fails, **or is stopped early**, all helper threads finish and the pool is shut
down": `MultiplexIterator.__next__` calls `maybe_stop()` whatever exception leaves `next(self._iterator)` — a
`StopIteration`, a failure, or an asynchronous KeyboardInterrupt raised in the consumer while it sits inside
`get_batch` (the seeded regression `C05-m4-keyboardinterrupt-leaves-producers-blocked` drops exactly that).

LTS: `Model/QueueIntr.lean` = the queue LTS (`Model/Queue.lean`, unchanged) + the event `interrupt` of a consumer
thread (enabled at every program point of `get` / `get_batch` / `get_nowait` except lock releases and the inside of
`_release_and_notify`, see the model file) + the event `handler` (the consumer that left its loop goes on with
`maybe_stop()`).  All theorems are for every reachable configuration of that LTS: every schedule, every number of
producers, consumers and stopper threads, every capacity, every position of failing items, any number of interrupts.

Reduction: every `run` step is a queue step, so the queue's one-step lemmas and `stuck_all_parked` (lock-order
acyclicity, needs only the lock invariant) are reused; the stop request itself is `C05_stop_unblocks_producers`
(`notify_all` on the enqueue condition at `mE1`); what is added is that the two new events keep the lock discipline
and that after that `notify_all` no producer parks again (`enqueue_done` holds for good, and `put` holds the
enqueue lock from its test to its `wait`).
-/
namespace MlModel.C13
open MlModel.Queue MlModel.QueueIntr

variable {cap maxEnq : Nat} {to ig : Bool} {progs : List Prog} {c : Cfg}

/-- no event of the extended LTS is enabled -/
def QuiescentI (c : Cfg) : Prop := ∀ tid ch, QueueIntr.step c tid ch = none

/-- **The interrupt keeps the lock discipline**: in every reachable configuration of the LTS with interrupts each lock
is owned by exactly the threads whose program point says so (at most one): the unwinding of an interrupted
`get` / `get_batch` / `get_nowait` releases what the consumer held, nothing more. -/
theorem C13_interrupt_lock_discipline (h : QueueIntr.Reachable (Queue.init cap maxEnq to ig progs) c) :
    (∀ tid t, c.ths[tid]? = some t → ∀ l, (c.sh.owner l = some tid ↔ holds l t.pc = true)) ∧
    (∀ (tid u : Tid) (t t' : Thread) (l : Lk), c.ths[tid]? = some t → c.ths[u]? = some t' → holds l t.pc = true → holds l t'.pc = true →
      tid = u) := by
  have hl := (inv_reachable (inv_init cap maxEnq to ig progs) h).lock
  refine ⟨hl.1, ?_⟩
  intro tid u t t' l ht hu h1 h2
  have o1 := (hl.1 tid t ht l).mpr h1
  have o2 := (hl.1 u t' hu l).mpr h2
  rw [o1] at o2; exact Option.some.inj o2

/-- **Once a `maybe_stop()` has notified the enqueue condition, no producer is parked and none parks again** — in
every reachable configuration in which some thread's `maybe_stop()` is past its `notify_all cond2` (or has
returned): the stop request is on record, the producers' wait list is empty, no producer is about to park. -/
theorem C13_interrupt_no_park_after_stop (h : QueueIntr.Reachable (Queue.init cap maxEnq to ig progs) c)
    (hn : ∃ t ∈ c.ths, notifiedE t = true) :
    c.sh.stopRequested = true ∧ c.sh.enqueueDone = true ∧ c.sh.enqWait = [] ∧ ∀ t ∈ c.ths, t.pc ≠ .pWait := by
  obtain ⟨b1, b2, b3⟩ := (inv_reachable (inv_init cap maxEnq to ig progs) h).b hn
  exact ⟨b1, by unfold Shared.enqueueDone; simp [b1], b2, b3⟩

/-- **In a quiescent configuration every consumer that left its loop has run `maybe_stop()` to its end**: no consumer
sits at the end of its loop waiting for its handler, and no `maybe_stop()` (of a handler or of any stopper thread) is
stuck half-way — a stopper that has started has returned, without `AssertionError`. -/
theorem C13_interrupt_handler_completes (h : QueueIntr.Reachable (Queue.init cap maxEnq to ig progs) c)
    (hq : QuiescentI c) {u : Tid} {t : Thread} (hu : c.ths[u]? = some t) :
    ¬ (isConsProg t.prog = true ∧ t.pc = .done) ∧
    (t.prog.kind = .stopper → t.pc ≠ .start → t.pc = .done ∧ t.outcome = none ∧ notifiedE t = true) := by
  have hi := inv_reachable (inv_init cap maxEnq to ig progs) h
  constructor
  · rintro ⟨h1, h2⟩
    have := hq u .handler
    simp [QueueIntr.step, hu, handlerThread, h1, h2] at this
  · intro hk hs
    obtain ⟨_, hsh⟩ := stuck_all_parked hi.lock (queue_enabled_nil (fun tid alt => hq tid (.run alt)))
    have tk := (hi.tok t (List.mem_of_getElem? hu)).kind
    rcases hsh u t hu with h1 | ⟨h1, _⟩ | ⟨h1, _⟩
    · have ho := hi.d t (List.mem_of_getElem? hu) hk h1
      refine ⟨h1, ho, ?_⟩
      unfold notifiedE
      simp [h1, hk, ho]
    · exfalso
      cases hp : t.pc <;> simp [hp, consWakePc] at h1 <;>
        (have := tk _ (by rw [hp]; rfl); rw [hk] at this; cases this)
    · exfalso
      cases hp : t.pc <;> simp [hp, prodWakePc] at h1 <;>
        (have := tk _ (by rw [hp]; rfl); rw [hk] at this; cases this)

/-- **After an interrupt every producer returns.**  In every quiescent reachable configuration of the LTS with
interrupts — nothing can move any more — in which a consumer has left its loop (thread `u` is at the end of its loop, or
is already the stopper its handler turned it into; e.g. because it was interrupted inside `next()`), **every producer
has left `enqueue_from_iterator`** and nobody is parked on the enqueue condition: no producer stays blocked on the
full bounded queue, so the pool's `shutdown()` (which joins the tasks) returns.  (Any capacity, any number of producers
and consumers, any schedule, failing items anywhere, any number of interrupts.) -/
theorem C13_interrupt_releases_producers (h : QueueIntr.Reachable (Queue.init cap maxEnq to ig progs) c)
    (hq : QuiescentI c) {u : Tid} {t : Thread} (hu : c.ths[u]? = some t)
    (hleft : (isConsProg t.prog = true ∧ t.pc = .done) ∨ (t.prog.kind = .stopper ∧ t.pc ≠ .start)) :
    (∀ p ∈ c.ths, p.prog.kind = .producer → p.pc = .done) ∧ c.sh.enqWait = [] ∧ c.sh.stopRequested = true := by
  have hi := inv_reachable (inv_init cap maxEnq to ig progs) h
  obtain ⟨hnc, hst⟩ := C13_interrupt_handler_completes h hq hu
  rcases hleft with h1 | ⟨hk, hs⟩
  · exact absurd h1 hnc
  · obtain ⟨_, _, hn⟩ := hst hk hs
    obtain ⟨b1, _, b2, _⟩ := C13_interrupt_no_park_after_stop h ⟨t, List.mem_of_getElem? hu, hn⟩
    refine ⟨?_, b2, b1⟩
    intro p hp hkp
    obtain ⟨ip, hip⟩ := List.mem_iff_getElem?.mp hp
    obtain ⟨_, hsh⟩ := stuck_all_parked hi.lock (queue_enabled_nil (fun tid alt => hq tid (.run alt)))
    have tk := (hi.tok p hp).kind
    rcases hsh ip p hip with h1 | ⟨h1, _⟩ | ⟨h1, h2⟩
    · exact h1
    · exfalso
      cases hpc : p.pc <;> simp [hpc, consWakePc] at h1 <;>
        (have := tk _ (by rw [hpc]; rfl); rw [hkp] at this; cases this)
    · exfalso
      have := hi.w4 ip p hip h1
      unfold wlE at this
      rw [b2, List.append_nil] at this
      exact h2 this

/-! ### Non-vacuity (tests) -/

/-- capacity 1, one producer with three elements, one `get_batch` consumer that is interrupted while parked on the
empty queue (before the producer has started): the handler runs `maybe_stop()`, the producer then finds
`enqueue_done` and returns without pulling anything; nothing is enabled at the end and all threads are done. -/
def exIntrC0 : Cfg := Queue.init 1 1 false false [.producer [.val 1, .val 2, .val 3] 9, .batchLoop 2 false]

def exIntrSched : List (Tid × Choice) :=
  -- consumer: start, acquire cond1, acquire rlock1, get_nowait (Empty), release rlock1, empty, wait
  (List.replicate 7 (1, Choice.run false)) ++
  -- interrupted while parked; release cond1 (bRaise); handler; maybe_stop: 8 steps
  [(1, .interrupt), (1, .run false), (1, .handler)] ++ (List.replicate 8 (1, Choice.run false)) ++
  -- producer: start, _start_enqueue (acquire / release rlock1): sees enqueue_done
  (List.replicate 3 (0, Choice.run false))

def exIntrOk : Bool :=
  match QueueIntr.replay exIntrC0 exIntrSched with
  | none => false
  | some c => c.allDone && (QueueIntr.enabled c).isEmpty && c.sh.stopRequested &&
      c.ths.all (fun t => t.outcome.isNone && t.received.isEmpty)

example : exIntrOk = true := by decide

end MlModel.C13
