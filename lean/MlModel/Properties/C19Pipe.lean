import MlModel.Properties.C12
import MlModel.Lemmas.RebatchGen
/-!
# C19 ↔ C12: the two models of "failing calls under re-batching" agree

C12's statement about error skipping through a batched operator is made on the pipeline model
(`Model/Pipe.lean`): `Ref.callGroups true` leaves out exactly the failing groups
(`C12_batched_failing_groups`, `C12_batched_none_lost_after`) and `Ref.regroup` re-batches what is left.
C19's statement about the *rows* is made on the iterator chain of `Model/RebatchGen.lean`
(`callMap` → `ignoreErr` → `runEv`; `C19_treefn_skip`, `C19_treefn_skip_carry`).  This file proves that,
on the same groups, they are the same function — so C12's "which groups are skipped" and C19's "every row
of the other groups is conserved, also the carried ones" speak about one behaviour.
-/
namespace MlModel.C19
open MlModel.Pipe MlModel.Iter

/-- the guarded call of a pipeline operator (`callFn`: `_maybe_call_fn`, then `_normalize_outputs`) as a
batch function of the C19 model: columns in, columns out, or the kind of the exception -/
def pipeG (op : Op) (s : Nat) (x : Rebatch.Batch Val) : Except ErrKind (Rebatch.Batch Val) :=
  match (callFn op s (Ref.ofBatch x)).1 with
  | .ok v => .ok (Ref.asBatch (normOuts op v))
  | .error e => .error e.kind

/-- **C19_skip_agrees_with_C12.**  For an operator whose function keeps no state, every `batch_size ≠ 0`
and every list of groups (tuples of `list` / `tuple` columns — `hrt`): C12's list-level reference
"call the groups, leave out the failing ones, regroup" (`Ref.regroup ∘ Ref.callGroups true`, by
`C12_batched_failing_groups`) is C19's iterator chain behind the first re-batcher — `map` of the guarded
call, `iter_ignore_error`, the output `rebatched_args` generator — run on the same groups. -/
theorem C19_skip_agrees_with_C12 (op : Op) (s : Nat) {b : Nat} (hb : b ≠ 0) (nout : Nat)
    (gs : List (List Val)) (hpure : ∀ g, (callFn op s g).2 = s)
    (hrt : ∀ g ∈ gs, Ref.ofBatch (Ref.asBatch g) = g) :
    Ref.regroup b nout (Ref.callGroups true op none s gs) =
      (let r := Rebatch.runEv b nout none
          (Rebatch.ignoreErr (Rebatch.callMap (pipeG op s) ((gs.map Ref.asBatch).map .item)))
       (r.out.map Ref.ofBatch, r.err.map fun k => { kind := k })) := by
  rw [C12.C12_batched_failing_groups op s none gs hpure, Rebatch.ignoreErr_callMap_items,
    Rebatch.runEv_items]
  have hok : Rebatch.okCalls (pipeG op s) (gs.map Ref.asBatch)
      = (gs.filterMap fun g => match (callFn op s g).1 with
          | .ok v => some (normOuts op v)
          | .error _ => none).map Ref.asBatch := by
    induction gs with
    | nil => rfl
    | cons g gs ih =>
      have hg := hrt g (by simp)
      have ih' := ih (fun g' hg' => hrt g' (by simp [hg']))
      simp only [Rebatch.okCalls, List.map_cons, List.filterMap_cons, pipeG, hg] at ih' ⊢
      cases (callFn op s g).1 with
      | ok v => simp [ih']
      | error e => simp [ih']
  simp only [Ref.regroup, hb, if_false, hok]
  rfl

-- non-vacuity of `hrt`: tuples of list / tuple columns survive the round trip
example : Ref.ofBatch (Ref.asBatch [.list [.int 1, .int 2], .tuple [.int 3, .int 4]])
    = [.list [.int 1, .int 2], .tuple [.int 3, .int 4]] := rfl

end MlModel.C19
