import MlModel.Lemmas.PrefetchShutdown
import MlModel.Lemmas.PrefetchReplay
import MlModel.Properties.C15
/-!
# C15 — shutting down stops the generator FOR GOOD: nothing is installed after the shutdown has completed

The property text: "Initialising a new generator or shutting down stops the previous one … and never leaves a request
blocked."  `_init_iterator` (courier_server.py:399-436) looks at `self._shutdown_requested` twice: on entry, and again
after it has taken `_generator_lock`.  The two looks are DIFFERENT steps of the LTS (`Model/Prefetch.lean`): the entry
look is fused into the request's `start` step, the locked look into its `acquire gen` step (`Pc.lkAcq`); in between the
request is parked on the pending lock acquisition — unpickling the payload, waiting while `_stop_prefetch` joins the old
prefetch thread — and EVERY other thread may run, in particular a shutdown request, the server thread's wake-up and its
whole shutdown callback.  The theorems quantify over every list of concurrent requests (`Requests progs`: client
loops, healthy and failing `init_generator`, `next_batch`, `stop_prefetch`, `shutdown`, further server threads) and
EVERY schedule, so the window schedule "entry look — shutdown runs to completion — locked look" is covered
(`example`s below exhibit it); the seeded change C15-m3 (locked look removed) is the model in which
`C15_no_install_after_shutdown` fails.

"The shutdown has completed" = `c.sh.serverUp = false`: the server thread has executed the `release gen` that ends its
shutdown callback `_stop_prefetch` (fused with `self._server.Stop()`, courier_server.py:259-268).
-/
namespace MlModel.C15
open MlModel.Prefetch

variable {p : Nat} {progs : List Prog} {c : Cfg}

/-- **No generator is installed after the shutdown has completed** (every schedule, any concurrent requests): once the
server thread's shutdown callback has completed, NO step of ANY thread changes `self._generator` or
`self._enqueue_thread`, creates a queue or starts a thread — and the server stays down. -/
theorem C15_no_install_after_shutdown (hreq : Requests progs) (h : Reachable (init p progs) c)
    (hdown : c.sh.serverUp = false) {tid : Queue.Tid} {lbl : String} {c' : Cfg} (hs : step c tid = some (lbl, c')) :
    c'.sh.generator = c.sh.generator ∧ c'.sh.enqThread = c.sh.enqThread ∧
    c'.sh.qs.length = c.sh.qs.length ∧ c'.ths.length = c.ths.length ∧ c'.sh.serverUp = false := by
  have hI := iinv_reachable hreq h
  have hD := sdinv_reachable hreq h
  obtain ⟨t, ht⟩ := step_some_thread hs
  obtain ⟨t', hk, hl⟩ := step_eff ht hs
  obtain ⟨t'', h1, he⟩ := step_sdeff ht hs
  rw [hk.get_self ht] at h1; cases h1
  have hup : c'.sh.serverUp = false := by
    rcases he.up with h2 | ⟨-, -, h2⟩
    · rw [h2]; exact hdown
    · exact h2
  cases hk with
  | plain hths hgen henq hlen _ _ _ => exact ⟨hgen, henq, hlen, by rw [hths]; simp, hup⟩
  | install _ _ _ _ _ _ h1 h2 hp =>
    exfalso
    have hin := isInit_of_gen hp
    cases hr0 : inReg t.pc with
    | true => rw [hD.reg hdown _ t ht hin] at hr0; cases hr0
    | false =>
      have := (he.enter hin (by rw [h2]; rfl) hr0).2
      rw [hD.down hdown] at this; cases this
  | spawn _ _ _ _ _ h1 =>
    exfalso
    have hin := isInit_of_gen (hI.spawnG tid t ht h1).2
    have := hD.reg hdown _ t ht hin
    rw [h1] at this; cases this

/-- **The shutdown callback runs only after a shutdown request, and the request is never taken back**: with the
server down the flag is set (so every later look at it — on entry or under the lock — sees it). -/
theorem C15_shutdown_completed_flag (hreq : Requests progs) (h : Reachable (init p progs) c)
    (hdown : c.sh.serverUp = false) : c.sh.shutdownRequested = true :=
  (sdinv_reachable hreq h).down hdown

/-- **The window** (every schedule from there on): an `init_generator` request — bare or the first call of a client
loop, with a healthy or a failing lazy object — that has passed its ENTRY look at the shutdown flag and is waiting for
the generator lock (`Pc.lkAcq`) when the flag is set (in particular: when the shutdown has already completed) never
installs anything: whatever happens next, it is still waiting, or on its way out of the lock with the shutdown
`TimeoutError` recorded, or it has been answered with exactly that `TimeoutError`; a client loop yields nothing. -/
theorem C15_init_in_window_answers_timeout {tid : Queue.Tid} {t : Thread} (ht : c.ths[tid]? = some t)
    (hinit : isInit t.prog = true) (hwin : t.pc = .lkAcq) (hflag : c.sh.shutdownRequested = true)
    {c' : Cfg} (h' : Reachable c c') {t' : Thread} (ht' : c'.ths[tid]? = some t') :
    t'.prog = t.prog ∧ t'.yielded = t.yielded ∧
    (t'.pc = .lkAcq ∨ (t'.pc = .lkRel ∧ t'.ret = some .timeout) ∨
      (t'.pc = .done ∧ t'.outcome = some (.err .timeout))) := by
  obtain ⟨-, t1, ht1, hp, hy, hshape⟩ := after_sd (strict := true) ht hinit (Or.inr hwin) hflag h'
  rw [ht1] at ht'; cases ht'
  refine ⟨hp, hy, ?_⟩
  rcases hshape with ⟨h1, -⟩ | h1 | h1 | ⟨h1, h2 | ⟨h2, -⟩⟩
  · cases h1
  · exact Or.inl h1
  · exact Or.inr (Or.inl h1)
  · exact Or.inr (Or.inr ⟨h1, h2⟩)
  · cases h2

/-- **After a shutdown request every `init_generator` is refused**: a request that has not yet taken the generator
lock — not started, or inside the window — when the flag is set ends (if it ends) with the shutdown `TimeoutError`, or
with the transport's error when the server was already gone at its start; it never reaches the installation. -/
theorem C15_init_after_shutdown_refused {tid : Queue.Tid} {t : Thread} (ht : c.ths[tid]? = some t)
    (hinit : isInit t.prog = true) (hpc : t.pc = .start ∨ t.pc = .lkAcq) (hflag : c.sh.shutdownRequested = true)
    {c' : Cfg} (h' : Reachable c c') {t' : Thread} (ht' : c'.ths[tid]? = some t') :
    t'.yielded = t.yielded ∧ inReg t'.pc = false ∧
    (t'.pc = .done → t'.outcome = some (.err .timeout) ∨ t'.outcome = some (.err .other)) := by
  obtain ⟨-, t1, ht1, -, hy, hshape⟩ :=
    after_sd (strict := false) ht hinit (hpc.imp (fun h => ⟨rfl, h⟩) id) hflag h'
  rw [ht1] at ht'; cases ht'
  refine ⟨hy, ?_, ?_⟩
  · rcases hshape with ⟨-, h1⟩ | h1 | ⟨h1, -⟩ | ⟨h1, -⟩ <;> rw [h1] <;> rfl
  · intro hd
    rcases hshape with ⟨-, h1⟩ | h1 | ⟨h1, -⟩ | ⟨-, h2 | ⟨-, h2⟩⟩
    · rw [h1] at hd; cases hd
    · rw [h1] at hd; cases hd
    · rw [h1] at hd; cases hd
    · exact Or.inl h2
    · exact Or.inr h2

/-- **… in particular after the shutdown has completed** (`C15_init_after_shutdown_refused` with
`C15_shutdown_completed_flag`), for every reachable configuration of every request list. -/
theorem C15_init_after_shutdown_completed (hreq : Requests progs) (h : Reachable (init p progs) c)
    (hdown : c.sh.serverUp = false) {tid : Queue.Tid} {t : Thread} (ht : c.ths[tid]? = some t)
    (hinit : isInit t.prog = true) (hpc : t.pc = .start ∨ t.pc = .lkAcq)
    {c' : Cfg} (h' : Reachable c c') {t' : Thread} (ht' : c'.ths[tid]? = some t') :
    t'.yielded = t.yielded ∧ inReg t'.pc = false ∧
    (t'.pc = .done → t'.outcome = some (.err .timeout) ∨ t'.outcome = some (.err .other)) :=
  C15_init_after_shutdown_refused ht hinit hpc (C15_shutdown_completed_flag hreq h hdown) h' ht'

/-! ### Non-vacuity (tests of the definitions): the window schedule exists -/

/-- entry look (thread 1 `start`), then the shutdown request (thread 2) and the server thread's whole shutdown
callback (thread 0, six steps, the last one `release gen`): the request is in the window, the server is down -/
def schedWindow : List Queue.Tid := [1, 2, 2, 2, 2, 0, 0, 0, 0, 0, 0]

example : ∃ c, Reachable (init 1 [.initIter ⟨[.val 7], 900⟩, .shutdown]) c ∧ c.sh.serverUp = false ∧
    c.sh.shutdownRequested = true ∧ c.sh.genOwner = none ∧ c.sh.generator = none ∧
    (c.ths[1]?.map fun t => (t.pc, isInit t.prog)) = some (.lkAcq, true) :=
  ⟨_, reachable_replay (init 1 [.initIter ⟨[.val 7], 900⟩, .shutdown]) schedWindow (by decide),
    by decide, by decide, by decide, by decide, by decide⟩

/-- … and when it resumes it is answered with the shutdown `TimeoutError`; no queue, no prefetch thread exists -/
example : ∃ c, Reachable (init 1 [.initIter ⟨[.val 7], 900⟩, .shutdown]) c ∧ c.sh.serverUp = false ∧
    c.sh.generator = none ∧ c.sh.qs.length = 0 ∧ c.ths.length = 3 ∧ enabled c = [] ∧
    (c.ths[1]?.map fun t => (t.pc, t.outcome)) = some (.done, some (.err .timeout)) :=
  ⟨_, reachable_replay (init 1 [.initIter ⟨[.val 7], 900⟩, .shutdown]) (schedWindow ++ [1, 1, 0]) (by decide),
    by decide, by decide, by decide, by decide, by decide, by decide⟩

/-- the same window with a live generator that the shutdown callback has to stop first (a client has installed it):
the held request is a client loop; it yields nothing and ends on the `TimeoutError` -/
example : ∃ c, Reachable (init 1 [.initIter ⟨[.val 7, .val 8, .val 9], 900⟩, .client ⟨[.val 5], 901⟩ 1, .shutdown]) c ∧
    c.sh.serverUp = false ∧ c.sh.generator = some 0 ∧ c.sh.qs.length = 1 ∧
    (c.ths[2]?.map fun t => (t.pc, t.yielded, t.outcome)) = some (.done, [], some (.err .timeout)) :=
  ⟨_, reachable_replay (init 1 [.initIter ⟨[.val 7, .val 8, .val 9], 900⟩, .client ⟨[.val 5], 901⟩ 1, .shutdown])
    ([1, 1, 1, 1, 1, 1, 1] ++ [2] ++ [3, 3, 3, 3] ++ [0, 0, 0, 0, 0, 0, 0, 0, 0, 0, 0, 0, 0] ++ [4, 4, 4] ++
      [0, 0, 0] ++ [2, 2]) (by decide),
    by decide, by decide, by decide, by decide⟩

end MlModel.C15
