import MlModel.Model.Tree
namespace MlModel.C18
open MlModel.Tree
theorem C18_placeholder : resolveIdx 2 (-1) = some 1 := by decide
end MlModel.C18
