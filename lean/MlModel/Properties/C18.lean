import MlModel.Lemmas.TreeInPlace
/-!
# C18 — tree views obey get/set laws and never mutate the viewed data

Model: `MlModel/Model/Tree.lean` — `TreeMapView` over an explicit cell heap (`alloc` builds a new object,
`write` mutates one in place).  All theorems are for **every** heap, tree, path and value, under at most
the invariant `Closed h` (no dangling reference — always true of Python objects); cyclic data is allowed
except where a theorem needs the tree to be finite (`WF`, stated there).

Vocabulary:  `Extends h h'`  = `h'` is `h` plus newly allocated cells, every cell of `h` unchanged;
`PlainSelf p` = keys are `str`/`Index`/`int`, optionally cut short by `SELF`;  `Diverge p q` = `q` leaves the
path `p` at some position (neither is a prefix of the other).
-/
namespace MlModel.C18
open MlModel.Tree

/-! ## the API entry points in terms of `_set_by_path` -/

@[simp] theorem finishSet_fst (ip : Bool) (root : Ref) (r : Res Ref) : (finishSet ip root r).1 = r.1 := by
  obtain ⟨h1, e⟩ := r; cases e <;> rfl

theorem copyAndSet_path (strict : Bool) (h : Heap) (t : Ref) (p : Path) (v : Ref) :
    copyAndSet strict h t (.path p) v = setPath strict false h t p v := by
  simp only [copyAndSet, setItem]
  generalize setPath strict false h t p v = r
  obtain ⟨h1, e⟩ := r
  cases e <;> simp [finishSet]

theorem setMany_extends (strict : Bool) : ∀ (kvs : List (Path × Ref)) (h : Heap) (t : Ref),
    Extends h (setMany strict false h t kvs).1 := by
  intro kvs
  induction kvs with
  | nil => intro h t; simp [setMany]; exact Extends.refl _
  | cons kv kvs ih =>
    intro h t
    obtain ⟨p, v⟩ := kv
    simp only [setMany]
    have h1 := setPath_extends strict h t p v
    split
    · rename_i h1' d he; rw [he] at h1; exact h1.trans (ih h1' d)
    · rename_i h1' e he; rw [he] at h1; exact h1

/-! ## C18_no_mutation -/

/-- **`copy_and_set` performs no write on a pre-existing cell**, whatever the keys (single path, empty,
multi-key), the values, and whether it succeeds or raises: the heap afterwards is an extension of the heap
before. -/
theorem C18_no_mutation_copy_and_set (strict : Bool) (h : Heap) (root : Ref) (keys : Keys) (values : Ref) :
    Extends h (copyAndSet strict h root keys values).1 := by
  cases keys with
  | path p => rw [copyAndSet_path]; exact setPath_extends strict h root p values
  | empty =>
    simp only [copyAndSet, setItem]
    split <;> exact Extends.refl _
  | multi ks =>
    simp only [copyAndSet, setItem]
    split
    · rw [finishSet_fst]; exact setPath_extends strict h root _ values
    · split
      · exact Extends.refl _
      · rw [finishSet_fst]; exact setMany_extends strict _ h root

/-- `copy_and_update` performs no write on a pre-existing cell. -/
theorem C18_no_mutation_copy_and_update (strict : Bool) (h : Heap) (root : Ref) (other : List (Path × Ref)) :
    Extends h (copyAndUpdate strict h root other).1 := by
  unfold copyAndUpdate
  split
  · exact Extends.refl _
  · exact setMany_extends strict _ h root

theorem shallowCopy_extends (h : Heap) (r : Ref) : Extends h (shallowCopy h r).1 := by
  unfold shallowCopy
  split <;> first | exact extends_push _ _ | exact Extends.refl _

theorem mapValues_extends {f : LeafFn} (hf : ∀ h r, Extends h (f h r).1) :
    ∀ (ps : List Path) (h : Heap) (root : Ref), Extends h (mapValues f h root ps).1 := by
  intro ps
  induction ps with
  | nil => intro h root; simp [mapValues]; exact Extends.refl _
  | cons p ps ih =>
    intro h root
    simp only [mapValues]
    split
    · exact Extends.refl _
    · rename_i r mapped _
      have h1 : Extends h (if mapped = true then f h r else (h, r)).1 := by
        split
        · exact hf h r
        · exact Extends.refl _
      generalize (if mapped = true then f h r else (h, r)) = fr at h1
      obtain ⟨h1', v⟩ := fr
      simp only
      have h2 := ih h1' root
      split
      · rename_i h2' kvs he; rw [he] at h2; exact h1.trans h2
      · rename_i h2' e he; rw [he] at h2; exact h1.trans h2

/-- `apply()` performs no write on a pre-existing cell, for every leaf function that itself only
allocates (`hf`). -/
theorem C18_no_mutation_apply (strict : Bool) (f : Option LeafFn) (hf : ∀ g, f = some g → ∀ h r, Extends h (g h r).1)
    (h : Heap) (root : Ref) : Extends h (applyFn strict f h root).1 := by
  unfold applyFn
  split
  · exact Extends.refl _
  · rename_i g
    have h1 := shallowCopy_extends h root
    generalize shallowCopy h root = sc at h1
    obtain ⟨h1', c⟩ := sc
    simp only
    split
    · exact h1
    · exact h1
    · rename_i ps _ _
      have h2 := mapValues_extends (hf g rfl) ps h1' root
      split
      · rename_i h2' e he; rw [he] at h2; exact h1.trans h2
      · rename_i h2' kvs he
        rw [he] at h2
        exact h1.trans (h2.trans (setMany_extends strict kvs h2' c))

/-- **Hence the original data reads the same at every depth**: after any operation that only extends the
heap (all of the above; `get`, `items`, `keys` do not even return a heap), every path read from the
original root returns the same object as before. -/
theorem C18_no_mutation_reads {h h' : Heap} (hc : Closed h) (e : Extends h h') {root : Ref}
    (hroot : root < h.size) (q : Path) : get h' root q = get h root q :=
  get_extends hc e q hroot

/-- ... and the whole cell of every object of the original heap is literally unchanged. -/
theorem C18_no_mutation_cells {h h' : Heap} (e : Extends h h') {r : Ref} (hr : r < h.size) :
    h'[r]? = h[r]? := e.2 r hr

/-! ## C18_get_set -/

/-- **Reading a path after a copying set returns the value set** — the very object (`Ref`), for every heap
(cyclic or not), every tree, existing and fresh paths (dict key, append, `SELF`), every value. -/
theorem C18_get_set (strict : Bool) {h : Heap} {t v : Ref} {p : Path} {h' : Heap} {t' : Ref}
    (hp : PlainSelf p) (hs : copyAndSet strict h t (.path p) v = (h', .ok t')) :
    getItem h' t' (.path p) = .ok (.one v) := by
  rw [copyAndSet_path] at hs
  have := setPath_get_set strict p h t v h' t' hp hs h' (fun _ _ _ => rfl)
  simp [getItem, this, Except.map]

/-! ## C18_frame -/

/-- **Every path that leaves the set path reads as before**: the same object if it could be read, and it
cannot be read afterwards if it could not be read before. -/
theorem C18_frame (strict : Bool) {h : Heap} {t v : Ref} {p q : Path} {h' : Heap} {t' : Ref}
    (hc : Closed h) (ht : t < h.size) (d : Diverge p q)
    (hs : copyAndSet strict h t (.path p) v = (h', .ok t')) (x : Ref) :
    get h' t' q = .ok x ↔ get h t q = .ok x := by
  rw [copyAndSet_path] at hs
  have he : Extends h h' := by have := setPath_extends strict h t p v; rw [hs] at this; exact this
  exact setPath_frame strict d h t v h' t' (· < h.size) h' hs hc.region ht (fun r hr => he.2 r hr)
    (fun _ _ _ => rfl) x

/-! ## sequences of operations: the invariant is preserved -/

/-- The heap after a copying (or in-place) set is again free of dangling references and the result is a
valid reference, so every theorem of this file applies again to the result: the laws hold along **any
sequence** of copy-and-set operations. -/
theorem C18_closed_preserved (strict inPlace : Bool) {h : Heap} {t v : Ref} (p : Path)
    (hc : Closed h) (ht : t < h.size) (hv : v < h.size) :
    Closed (setPath strict inPlace h t p v).1 ∧
      ∀ t', (setPath strict inPlace h t p v).2 = .ok t' → t' < (setPath strict inPlace h t p v).1.size :=
  ⟨(setPath_closed strict inPlace p h t v hc ht hv).1, (setPath_closed strict inPlace p h t v hc ht hv).2.2⟩

/-! ## C18_multikey -/

/-- **Multi-key reads are aligned with the keys**: `t[k₁,…,kₙ] = (t[k₁],…,t[kₙ])`, and it raises iff one
of the single reads raises (the first one, left to right). -/
theorem C18_multikey (h : Heap) (t : Ref) (ks : List Path) :
    getItem h t (.multi ks) = (ks.mapM (fun k => get h t k)).map .many := rfl

theorem C18_multikey_ok {h : Heap} {t : Ref} {ks : List Path} {rs : List Ref}
    (hg : getItem h t (.multi ks) = .ok (.many rs)) :
    rs.length = ks.length ∧ ∀ i (hi : i < ks.length) (hi' : i < rs.length), get h t ks[i] = .ok rs[i] := by
  simp only [getItem] at hg
  cases hm : ks.mapM (fun k => get h t k) with
  | error e => rw [hm] at hg; simp [Except.map] at hg
  | ok rs' =>
    rw [hm] at hg
    simp only [Except.map, Except.ok.injEq, GetRes.many.injEq] at hg
    subst hg
    induction ks generalizing rs' with
    | nil =>
      simp [List.mapM_nil, pure, Except.pure] at hm
      subst hm; simp
    | cons k ks ih =>
      rw [List.mapM_cons] at hm
      cases hk : get h t k with
      | error e => simp [hk, bind, Except.bind] at hm
      | ok r =>
        cases hks : ks.mapM (fun k => get h t k) with
        | error e => simp [hk, hks, bind, Except.bind] at hm
        | ok rs'' =>
          simp [hk, hks, bind, Except.bind, pure, Except.pure] at hm
          subst hm
          obtain ⟨hl, hall⟩ := ih rs'' hks
          refine ⟨by simp [hl], ?_⟩
          intro i hi hi'
          cases i with
          | zero => simpa using hk
          | succ j => simpa using hall j (by simpa using hi) (by simpa using hi')

/-! ## C18_inplace -/

/-- **`set(..., in_place=True)` writes only cells on the key path**: every pre-existing cell that is not
met when walking the path from the root is unchanged (contrast with `C18_no_mutation_copy_and_set`, where
*no* pre-existing cell changes). -/
theorem C18_inplace (strict : Bool) (h : Heap) (t v : Ref) (p : Path) (r : Ref) (hr : r < h.size)
    (hoff : r ∉ pathCells h t p) : (setPath strict true h t p v).1[r]? = h[r]? :=
  (setPath_inplace_frame strict p h t v).2 r hr hoff

end MlModel.C18
