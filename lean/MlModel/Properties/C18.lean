import MlModel.Lemmas.TreeReserved
import MlModel.Lemmas.TreeNdDeep
import MlModel.Lemmas.TreeTup
import MlModel.Lemmas.TreeKeyObj
/-!
# C18 — tree views obey get/set laws and never mutate the viewed data

Model: `MlModel/Model/Tree.lean` — `TreeMapView` over an explicit cell heap (`alloc` builds a new object,
`write` mutates one in place).  All theorems are for **every** heap, tree, path and value, under at most
the invariant `Closed h` (no dangling reference — always true of Python objects); cyclic data is allowed
except where a theorem needs the tree to be finite (`WF`, stated there).

Vocabulary:  `Extends h h'`  = `h'` is `h` plus newly allocated cells, every cell of `h` unchanged;
`PlainSelf p` = keys are `str`/`Index`/`int`, optionally cut short by `SELF`;  `Diverge p q` = `q` leaves the
path `p` at some position (neither is a prefix of the other).
-/
namespace MlModel.C18
open MlModel.Tree

/-! ## C18_no_mutation -/

/-- **`copy_and_set` performs no write on a pre-existing cell**, whatever the keys (single path, empty,
multi-key), the values, and whether it succeeds or raises: the heap afterwards is an extension of the heap
before. -/
theorem C18_no_mutation_copy_and_set (strict : Bool) (h : Heap) (root : Ref) (keys : Keys) (values : Ref) :
    Extends h (copyAndSet strict h root keys values).1 := by
  cases keys with
  | path p => rw [copyAndSet_path]; exact setPath_extends strict h root p values
  | empty =>
    simp only [copyAndSet, setItem]
    split <;> exact Extends.refl _
  | multi ks =>
    simp only [copyAndSet, setItem]
    split
    · rw [finishSet_fst]; exact setPath_extends strict h root _ values
    · split
      · exact Extends.refl _
      · rw [finishSet_fst]; exact setMany_extends strict _ h root

/-- `copy_and_update` performs no write on a pre-existing cell. -/
theorem C18_no_mutation_copy_and_update (strict : Bool) (h : Heap) (root : Ref) (other : List (Path × Ref)) :
    Extends h (copyAndUpdate strict h root other).1 := by
  unfold copyAndUpdate
  split
  · exact Extends.refl _
  · exact setMany_extends strict _ h root

/-- `apply()` performs no write on a pre-existing cell, for every leaf function that itself only
allocates (`hf`). -/
theorem C18_no_mutation_apply (strict : Bool) (f : Option LeafFn) (hf : ∀ g, f = some g → ∀ h r, Extends h (g h r).1)
    (h : Heap) (root : Ref) : Extends h (applyFn strict f h root).1 := by
  unfold applyFn
  split
  · exact Extends.refl _
  · rename_i g
    have h1 := shallowCopy_extends h root
    generalize shallowCopy h root = sc at h1
    obtain ⟨h1', c⟩ := sc
    simp only
    split
    · exact h1
    · exact h1
    · rename_i ps _ _
      have h2 := mapValues_extends (hf g rfl) ps h1' root
      split
      · rename_i h2' e he; rw [he] at h2; exact h1.trans h2
      · rename_i h2' kvs he
        rw [he] at h2
        exact h1.trans (h2.trans (setMany_extends strict kvs h2' c))

/-- **Hence the original data reads the same at every depth**: after any operation that only extends the
heap (all of the above; `get`, `items`, `keys` do not even return a heap), every path read from the
original root returns the same object as before. -/
theorem C18_no_mutation_reads {h h' : Heap} (hc : Closed h) (e : Extends h h') {root : Ref}
    (hroot : root < h.size) (q : Path) : get h' root q = get h root q :=
  get_extends hc e q hroot

/-- ... and the whole cell of every object of the original heap is literally unchanged. -/
theorem C18_no_mutation_cells {h h' : Heap} (e : Extends h h') {r : Ref} (hr : r < h.size) :
    h'[r]? = h[r]? := e.2 r hr

/-! ## C18_get_set -/

/-- **Reading a path after a copying set returns the value set** — the very object (`Ref`), for every heap
(cyclic or not), every tree, existing and fresh paths (dict key, append, `SELF`), every value. -/
theorem C18_get_set (strict : Bool) {h : Heap} {t v : Ref} {p : Path} {h' : Heap} {t' : Ref}
    (hp : PlainSelf p) (hs : copyAndSet strict h t (.path p) v = (h', .ok t')) (hnd : NoNd h' t' p) :
    getItem h' t' (.path p) = .ok (.one v) := by
  rw [copyAndSet_path] at hs
  have := setPath_get_set strict p h t v h' t' hp hs h' (fun _ _ _ => rfl) hnd
  simp [getItem, this, Except.map]

/-- The side condition `NoNd` of `C18_get_set` (reading the path back does not index **into** an ndarray —
such reads create new objects and obey the by-value law `C18_nd_get_set`) holds whenever the path could be
read in the original tree; in particular for every tree without ndarray nodes on the path. -/
theorem C18_get_set_existing (strict : Bool) {h : Heap} {t v : Ref} {p : Path} {h' : Heap} {t' : Ref} {x : Ref}
    (hp : PlainSelf p) (hc : Closed h) (ht : t < h.size) (hg : get h t p = .ok x)
    (hs : copyAndSet strict h t (.path p) v = (h', .ok t')) :
    getItem h' t' (.path p) = .ok (.one v) := by
  have hs' := hs
  rw [copyAndSet_path] at hs'
  exact C18_get_set strict hp hs
    (setPath_noNd_of_get strict p h t v h' t' (· < h.size) hp hc.region ht ⟨x, hg⟩ hs' h' (fun _ _ _ => rfl))

/-! ## C18_frame -/

/-- **Every path that leaves the set path reads as before**: the same object if it could be read, and it
cannot be read afterwards if it could not be read before. -/
theorem C18_frame (strict : Bool) {h : Heap} {t v : Ref} {p q : Path} {h' : Heap} {t' : Ref}
    (hc : Closed h) (ht : t < h.size) (d : Diverge p q)
    (hs : copyAndSet strict h t (.path p) v = (h', .ok t')) (x : Ref) :
    get h' t' q = .ok x ↔ get h t q = .ok x := by
  rw [copyAndSet_path] at hs
  have he : Extends h h' := by have := setPath_extends strict h t p v; rw [hs] at this; exact this
  exact setPath_frame strict d h t v h' t' (· < h.size) h' hs hc.region ht (fun r hr => he.2 r hr)
    (fun _ _ _ => rfl) x

/-! ## sequences of operations: the invariant is preserved -/

/-- The heap after a copying (or in-place) set is again free of dangling references and the result is a
valid reference, so every theorem of this file applies again to the result: the laws hold along **any
sequence** of copy-and-set operations. -/
theorem C18_closed_preserved (strict inPlace : Bool) {h : Heap} {t v : Ref} (p : Path)
    (hc : Closed h) (ht : t < h.size) (hv : v < h.size) :
    Closed (setPath strict inPlace h t p v).1 ∧
      ∀ t', (setPath strict inPlace h t p v).2 = .ok t' → t' < (setPath strict inPlace h t p v).1.size :=
  ⟨(setPath_closed strict inPlace p h t v hc ht hv).1, (setPath_closed strict inPlace p h t v hc ht hv).2.2⟩

/-! ## C18_multikey -/

/-- **Multi-key reads are aligned with the keys**: `t[k₁,…,kₙ] = (t[k₁],…,t[kₙ])`, and it raises iff one
of the single reads raises (the first one, left to right). -/
theorem C18_multikey (h : Heap) (t : Ref) (ks : List Path) :
    getItem h t (.multi ks) = (ks.mapM (fun k => get h t k)).map .many := rfl

theorem C18_multikey_ok {h : Heap} {t : Ref} {ks : List Path} {rs : List Ref}
    (hg : getItem h t (.multi ks) = .ok (.many rs)) :
    rs.length = ks.length ∧ ∀ i (hi : i < ks.length) (hi' : i < rs.length), get h t ks[i] = .ok rs[i] := by
  simp only [getItem] at hg
  cases hm : ks.mapM (fun k => get h t k) with
  | error e => rw [hm] at hg; simp [Except.map] at hg
  | ok rs' =>
    rw [hm] at hg
    simp only [Except.map, Except.ok.injEq, GetRes.many.injEq] at hg
    subst hg
    have hf := mapM_ok hm
    exact ⟨hf.length_eq.symm, fun i hi hi' => hf.get i hi hi'⟩

/-! ## C18_inplace -/

/-- **`set(..., in_place=True)` writes only cells on the key path**: every pre-existing cell that is not
met when walking the path from the root is unchanged (contrast with `C18_no_mutation_copy_and_set`, where
*no* pre-existing cell changes). -/
theorem C18_inplace (strict : Bool) (h : Heap) (t v : Ref) (p : Path) (r : Ref) (hr : r < h.size)
    (hoff : r ∉ pathCells h t p) : (setPath strict true h t p v).1[r]? = h[r]? :=
  (setPath_inplace_frame strict p h t v).2 r hr hoff

/-! ## C18_set_same -/

/-- **Setting a path to its current value changes nothing**: the new tree is structurally equal to the old
one (same node kinds, same keys in the same order, same leaves), for every finite tree (`WF`: no cycle
below `t`; the rest of the heap is arbitrary) and every path that can be read. -/
theorem C18_set_same (strict : Bool) {h : Heap} {t cur : Ref} {p : Path} {h' : Heap} {t' : Ref}
    (hp : PlainSelf p) (w : WF h t) (hg : get h t p = .ok cur)
    (hs : copyAndSet strict h t (.path p) cur = (h', .ok t')) : SEq h' h t' t := by
  rw [copyAndSet_path] at hs
  have he : Extends h h' := by have := setPath_extends strict h t p cur; rw [hs] at this; exact this
  exact setPath_set_same strict p h t cur h' t' (WF h) hp (WF.region h) w w hg hs h'
    (fun r wr => he.2 r wr.lt) (fun _ _ _ => rfl)

/-- The original is still structurally equal to what it was, in any extension of the heap. -/
theorem C18_no_mutation_struct {h h' : Heap} (e : Extends h h') {t : Ref} (w : WF h t) : SEq h' h t t :=
  SEq.of_WF_agree (WF.region h) (fun r wr => e.2 r wr.lt) w w

/-! ## C18_items -/

/-- **`items()` lists every leaf exactly once with a path that reads back that leaf** (container root with
at least one child; `LeafWalk h root q x` = following the stored keys `q` from the root arrives at the
leaf `x`, a leaf being anything that is not a non-empty dict/list/tuple):
no path is listed twice, every leaf walk is listed with its leaf, and every listed pair is a leaf walk
whose path reads back exactly that object. -/
theorem C18_items {h : Heap} (hg : GoodDicts h) {root : Ref} {n : Node} (hn : h[root]? = some n)
    (hc : n.children ≠ []) {kvs : List (Path × Ref)} (hi : items h root = .ok kvs) :
    (kvs.map (·.1)).Nodup ∧
    (∀ q x, LeafWalk h root q x → (q, x) ∈ kvs) ∧
    (∀ p x, (p, x) ∈ kvs → LeafWalk h root p x ∧ get h root p = .ok x) := by
  unfold items at hi
  cases hk : keysOf h root with
  | error e => simp [hk] at hi
  | ok ps =>
    rw [hk] at hi
    simp only at hi
    have hf := mapM_ok hi
    unfold keysOf at hk
    have hroot : ([] : Path) ≠ [] ∨ ∃ n, h[root]? = some n ∧ n.children ≠ [] := Or.inr ⟨n, hn, hc⟩
    have hkeys : kvs.map (·.1) = ps := by
      clear hk hi
      induction hf with
      | nil => rfl
      | @cons a b l1 l2 hab _ ih =>
        cases hga : get h root a with
        | error e => simp [hga, Except.map] at hab
        | ok x => simp [hga, Except.map] at hab; subst hab; simp [ih]
    have hval : ∀ p x, (p, x) ∈ kvs → p ∈ ps ∧ get h root p = .ok x := by
      intro p x hm
      obtain ⟨a, ha, hr⟩ := hf.mem_right hm
      cases hga : get h root a with
      | error e => simp [hga, Except.map] at hr
      | ok y => simp [hga, Except.map] at hr; obtain ⟨rfl, rfl⟩ := hr; exact ⟨ha, hga⟩
    refine ⟨by rw [hkeys]; exact dfs_nodup h hg _ root [] ps hk hroot, ?_, ?_⟩
    · intro q x hw
      have hq : q ∈ ps := by simpa using dfs_complete h _ root [] ps hk hroot q x hw
      obtain ⟨b, hb, hr⟩ := hf.mem_left hq
      rw [hw.get hg] at hr
      simp [Except.map] at hr
      subst hr; exact hb
    · intro p x hm
      obtain ⟨hp, hgp⟩ := hval p x hm
      obtain ⟨q, y, hq, hw⟩ := dfs_sound h _ root [] ps hk hroot p hp
      simp only [List.nil_append] at hq
      subst hq
      have := hw.get hg
      rw [hgp] at this; cases this
      exact ⟨hw, hgp⟩

/-- **DFS order**: the paths of a container are the concatenation, in stored order (dict insertion order /
sequence positions), of the paths of its children, each prefixed by the child's key. -/
theorem C18_items_dfs_order (h : Heap) (fuel : Nat) (r : Ref) (parent : Path) {n : Node} (hn : h[r]? = some n)
    (hc : n.children ≠ []) {ps : List Path} (hd : dfs h (fuel + 1) r parent = .ok ps) :
    ∃ parts : List (List Path),
      Forall2 (fun kc part => dfs h fuel kc.2 (parent ++ [kc.1]) = .ok part) n.children parts ∧
      ps = parts.flatten := by
  rw [dfs_succ h fuel r parent hn] at hd
  have hne : n.children.isEmpty = false := by
    cases hc' : n.children with
    | nil => exact absurd hc' hc
    | cons _ _ => rfl
  simp only [hne] at hd
  exact collectE_ok hd

/-- **The enumeration terminates on every finite tree** (for a sufficiently large recursion budget), and
a larger budget never changes the result (`dfs_mono_le`). -/
theorem C18_items_terminates {h : Heap} {root : Ref} {n : Node} (w : WF h root) (hn : h[root]? = some n)
    (hc : n.children ≠ []) : ∃ fuel ps, ∀ fuel', fuel ≤ fuel' → dfs h fuel' root [] = .ok ps := by
  cases w with
  | @mk _ n' hn' hch =>
    rw [hn] at hn'; cases hn'
    -- one level by hand (the root has the empty parent path), children by `dfs_total`
    have hall : ∃ F, ∀ kc ∈ n.children, ∃ ps, dfs h F kc.2 ([] ++ [kc.1]) = .ok ps := by
      have hmemrefs : ∀ kc ∈ n.children, WF h kc.2 := by
        intro kc hkc
        apply hch
        cases n with
        | dict es =>
          simp only [Node.children, List.mem_map] at hkc
          obtain ⟨e, he, rfl⟩ := hkc
          exact List.mem_map.mpr ⟨e, he, rfl⟩
        | list rs =>
          obtain ⟨k, c⟩ := kc
          obtain ⟨i, hi, _⟩ := mem_seqChildren.mp hkc
          exact List.mem_of_getElem? hi
        | tuple rs =>
          obtain ⟨k, c⟩ := kc
          obtain ⟨i, hi, _⟩ := mem_seqChildren.mp hkc
          exact List.mem_of_getElem? hi
        | leaf v => simp [Node.children] at hkc
        | null => simp [Node.children] at hkc
        | nd _ _ _ => simp [Node.children] at hkc
        | buf _ => simp [Node.children] at hkc
      generalize n.children = kcs at hmemrefs
      induction kcs with
      | nil => exact ⟨0, fun _ hkc => by cases hkc⟩
      | cons kc kcs ih2 =>
        obtain ⟨F1, hF1⟩ := dfs_total (hmemrefs kc (by simp))
        obtain ⟨F2, hF2⟩ := ih2 (fun kc' hkc' => hmemrefs kc' (by simp [hkc']))
        refine ⟨max F1 F2, ?_⟩
        intro kc' hkc'
        rcases List.mem_cons.mp hkc' with e | e
        · subst e
          obtain ⟨ps, hps⟩ := hF1 ([] ++ [kc'.1]) (by simp)
          exact ⟨ps, dfs_mono_le h (Nat.le_max_left _ _) hps⟩
        · obtain ⟨ps, hps⟩ := hF2 kc' e
          exact ⟨ps, dfs_mono_le h (Nat.le_max_right _ _) hps⟩
    obtain ⟨F, hF⟩ := hall
    have hne : n.children.isEmpty = false := by
      cases hc' : n.children with
      | nil => exact absurd hc' hc
      | cons _ _ => rfl
    obtain ⟨ps, hps⟩ : ∃ ps, dfs h (F + 1) root [] = .ok ps := by
      rw [dfs_succ h F root [] hn]
      simp only [hne]
      exact collectE_total (fun kc hkc => hF kc hkc)
    exact ⟨F + 1, ps, fun fuel' hle => dfs_mono_le h hle hps⟩

/-! ## sequences of sets: multi-key `copy_and_set` and `copy_and_update` -/

/-- **`copy_and_update`: every updated path reads its new value** when the paths pairwise leave each
other (each later path w.r.t. each earlier one), on a heap without dangling references. -/
theorem C18_update_get (strict : Bool) {h : Heap} {t : Ref} {other : List (Path × Ref)} {h' : Heap} {t' : Ref}
    (hc : Closed h) (ht : t < h.size) (hv : ∀ kv ∈ other, kv.2 < h.size) (hp : ∀ kv ∈ other, PlainSelf kv.1)
    (hpw : other.Pairwise (fun a b => Diverge b.1 a.1)) (hnd : NoNdSeq strict h t other)
    (hs : copyAndUpdate strict h t other = (h', .ok t')) : ∀ kv ∈ other, get h' t' kv.1 = .ok kv.2 := by
  cases other with
  | nil => intro kv hkv; cases hkv
  | cons kv0 kvs => exact setMany_get strict _ h t h' t' hc ht hv hp hpw hnd hs

/-- The side condition `NoNdSeq` (no read-back indexes into an ndarray) holds when every updated path could
be read in the original tree and the paths pairwise leave each other. -/
theorem C18_update_get_existing (strict : Bool) {h : Heap} {t : Ref} {other : List (Path × Ref)} {h' : Heap}
    {t' : Ref} (hc : Closed h) (ht : t < h.size) (hv : ∀ kv ∈ other, kv.2 < h.size)
    (hp : ∀ kv ∈ other, PlainSelf kv.1) (hpw : other.Pairwise (fun a b => Diverge b.1 a.1))
    (hpw' : other.Pairwise (fun a b => Diverge a.1 b.1)) (hg : ∀ kv ∈ other, ∃ x, get h t kv.1 = .ok x)
    (hs : copyAndUpdate strict h t other = (h', .ok t')) : ∀ kv ∈ other, get h' t' kv.1 = .ok kv.2 :=
  C18_update_get strict hc ht hv hp hpw (NoNdSeq_of_gets strict other h t hc ht hv hp hpw' hg) hs

/-- **`copy_and_update`: every path that leaves all updated paths reads as before.** -/
theorem C18_update_frame (strict : Bool) {h : Heap} {t : Ref} {other : List (Path × Ref)} {h' : Heap} {t' : Ref}
    (hc : Closed h) (ht : t < h.size) (hv : ∀ kv ∈ other, kv.2 < h.size) {q : Path}
    (hd : ∀ kv ∈ other, Diverge kv.1 q) (hs : copyAndUpdate strict h t other = (h', .ok t')) (x : Ref) :
    get h' t' q = .ok x ↔ get h t q = .ok x := by
  cases other with
  | nil => simp [copyAndUpdate] at hs; obtain ⟨rfl, rfl⟩ := hs; exact Iff.rfl
  | cons kv0 kvs => exact setMany_frame strict _ h t h' t' q hc ht hv hd hs x

/-- **Multi-key `copy_and_set`** with aligned keys and values (`values` a tuple of the same length as
`keys`, not the "one key, many values" case): every key reads its value. -/
theorem C18_multiset_get (strict : Bool) {h : Heap} {t values : Ref} {ks : List Path} {h' : Heap} {t' : Ref}
    (hc : Closed h) (ht : t < h.size) (hvals : ∀ v ∈ valuesOf h values, v < h.size)
    (hal : ¬ (ks.length == 1 && (valuesOf h values).length > 1) = true) (hlen : ks.length = (valuesOf h values).length)
    (hp : ∀ k ∈ ks, PlainSelf k) (hpw : ks.Pairwise (fun a b => Diverge b a))
    (hnd : NoNdSeq strict h t (ks.zip (valuesOf h values)))
    (hs : copyAndSet strict h t (.multi ks) values = (h', .ok t')) :
    ∀ kv ∈ ks.zip (valuesOf h values), get h' t' kv.1 = .ok kv.2 := by
  simp only [copyAndSet, setItem] at hs
  rw [if_neg hal] at hs
  have : ¬ (ks.length != (valuesOf h values).length) = true := by simp [hlen]
  rw [if_neg this] at hs
  generalize hsm : setMany strict false h t (ks.zip (valuesOf h values)) = r at hs
  obtain ⟨h1, e⟩ := r
  cases e with
  | error e => simp [finishSet] at hs
  | ok d =>
    simp [finishSet] at hs
    obtain ⟨rfl, rfl⟩ := hs
    refine setMany_get strict _ h t h1 d hc ht ?_ ?_ ?_ hnd hsm
    · intro kv hkv; exact hvals kv.2 (List.of_mem_zip hkv).2
    · intro kv hkv; exact hp kv.1 (List.of_mem_zip hkv).1
    · clear hsm hal hlen this hvals hp hnd
      generalize valuesOf h values = vals
      induction ks generalizing vals with
      | nil => simp
      | cons k ks ih =>
        cases vals with
        | nil => simp
        | cons v vals =>
          rw [List.pairwise_cons] at hpw
          simp only [List.zip_cons_cons, List.pairwise_cons]
          refine ⟨?_, ih hpw.2 vals⟩
          intro kv hkv
          exact hpw.1 kv.1 (List.of_mem_zip hkv).1

/-! ## C18_apply -/

/-- `apply()` without a leaf function returns the data itself. -/
theorem C18_apply_identity (strict : Bool) (h : Heap) (root : Ref) : applyFn strict none h root = (h, .ok root) := rfl

/-- **`apply()` maps every leaf and only leaves, and preserves the shape**: for every finite container
tree, every leaf function that only allocates (`FnOK`), the result is equal to the original *up to*
replacing each leaf by an image of that leaf under the function: same node kind, same keys in the same
order / same length at every non-leaf position, and at every leaf position (a non-container, or an empty
container) an object the function returned for that very leaf. -/
theorem C18_apply (strict : Bool) {f : LeafFn} (hf : FnOK f) {h : Heap} {root : Ref} {n : Node}
    (hc : Closed h) (hg : GoodDicts h) (hnn : NonNegKeys h) (w : WF h root) (hn : h[root]? = some n)
    (hch : n.children ≠ []) {h' : Heap} {t' : Ref} (ha : applyFn strict (some f) h root = (h', .ok t')) :
    SEqL (fun new old => ImageOf f h new old) h' h t' root := by
  obtain ⟨s, hread⟩ := applyFn_spec strict hf hc hg hnn w hn hch ha
  exact s.strengthen hg (fun a b hab => hab.2) hread

/-- ... and reading any leaf path of the original in the result returns an image of that leaf. -/
theorem C18_apply_reads (strict : Bool) {f : LeafFn} (hf : FnOK f) {h : Heap} {root : Ref} {n : Node}
    (hc : Closed h) (hg : GoodDicts h) (hnn : NonNegKeys h) (w : WF h root) (hn : h[root]? = some n)
    (hch : n.children ≠ []) {h' : Heap} {t' : Ref} (ha : applyFn strict (some f) h root = (h', .ok t'))
    {q : Path} {x : Ref} (wq : LeafWalk h root q x) : ∃ v, get h' t' q = .ok v ∧ ImageOf f h v x :=
  (applyFn_spec strict hf hc hg hnn w hn hch ha).2 q x wq

/-! ## ndarray nodes (C18N): buffers are cells of the heap, views share them -/

/-- **No copying operation changes an element of a pre-existing ndarray**: `Extends` (the conclusion of the
three `C18_no_mutation_*` theorems above) covers buffer cells, so every array object of the original heap
still shows the same window of the same buffer with the same elements — whether or not the key path
indexed into it, and whatever other array objects share its buffer. -/
theorem C18_nd_no_mutation {h h' : Heap} (e : Extends h h') {r b off : Nat} {shape : List Nat}
    (hr : h[r]? = some (.nd b off shape)) (hb : b < h.size) :
    h'[r]? = some (.nd b off shape) ∧ ndElems h' b off shape = ndElems h b off shape := by
  refine ⟨e.get_some hr, ?_⟩
  simp only [ndElems, bufOf, e.2 b hb]

/-- **A copying set whose path indexes into an ndarray returns a new array object on a new buffer** (cells
`h.size + 1` and `h.size`: allocated by this very call, so the result shares memory with no array that
existed before).  This is what the seeded change C18-m1 (`tree[:]`, a view, instead of `copy.copy(tree)`)
breaks. -/
theorem C18_nd_copy_fresh (strict : Bool) {h : Heap} {t v : Ref} {k : PKey} {rest : Path} {h' : Heap} {t' : Ref}
    {b off : Nat} {shape : List Nat} (hk : k.isPlain) (hn : h[t]? = some (.nd b off shape))
    (hs : copyAndSet strict h t (.path (k :: rest)) v = (h', .ok t')) :
    t' = h.size + 1 ∧ h'[t']? = some (.nd h.size 0 shape) ∧ Extends h h' := by
  rw [copyAndSet_path] at hs
  obtain ⟨h1, _, h3⟩ := setPath_nd_result (PKey.isPlain_ne_self hk) (PKey.isPlain_ne_skip hk) hn hs
  refine ⟨h1, h3, ?_⟩
  have := setPath_extends strict h t (k :: rest) v; rw [hs] at this; exact this

/-! ### paths of ANY depth into an array, values of any kind (work package C18D)

`ndWin shape ks = some (o, s)`: the chain of integer keys `ks = k₁ … kₘ` (each in range for its axis, negative
indices from the end, `Index(i)` or plain int) addresses, in a C-contiguous array of shape `shape`, the item
`A[k₁]…[kₘ]` — the window of `prod s` elements at relative offset `o`, of shape `s` (numpy basic indexing).
`coerce h v s = some ys`: numpy converts the value `v` (an int, an ndarray — also a view of the very buffer written —,
a nested list / tuple of ints) and broadcasts it to the window's shape, giving the elements `ys`.
`NdWF h`: every array object shows a window inside an existing buffer.

The two theorems are the former `…_exact_partial` (ONE key, int value; kept below as `…_exact_one`) for every depth
`m ≥ 1` and every value: proved by induction over the levels (`Lemmas/TreeNdDeep.lean`), with
`length (bcast s t xs) = prod t` (`bcast_length`) and the composition of nested windows (`splice_splice_slice`). -/

/-- **`set(..., in_place=True)` through a path of any depth into an ndarray writes exactly the addressed window**:
the call succeeds and returns the same array object; the buffer afterwards is the buffer before with the window of
the item (`prod s` elements from `off + o`) overwritten by the broadcast value; every other pre-existing cell — every
other object, the array object itself — is unchanged (the views each level creates are new cells). -/
theorem C18_nd_inplace_exact (strict : Bool) {h : Heap} {t v b off : Nat} {shape : List Nat} {ks : Path}
    {xs : List Int} {o : Nat} {s : List Nat} {ys : List Int} (w : NdWF h) (hn : h[t]? = some (.nd b off shape))
    (hb : h[b]? = some (.buf xs)) (hks : ks ≠ []) (hw : ndWin shape ks = some (o, s))
    (hco : coerce h v s = some ys) :
    (setPath strict true h t ks v).2 = .ok t ∧
    (setPath strict true h t ks v).1[b]? = some (.buf (splice xs (off + o) ys)) ∧
    (∀ c, c < h.size → c ≠ b → (setPath strict true h t ks v).1[c]? = h[c]?) ∧
    ys.length = prod s ∧ off + o + prod s ≤ xs.length := by
  obtain ⟨xs', hb', hin⟩ := w t b off shape hn
  rw [hb] at hb'; cases hb'
  have hlen := coerce_length w hco
  obtain ⟨h', hs, h1, h2, _⟩ := setPath_nd_inplace_deep strict v ks shape h t b off xs o s ys hks hn hb hin hw
    (coerce_stable w hco) hlen
  rw [hs]
  have := ndWin_bound ks shape o s hw
  exact ⟨rfl, h1, h2, hlen, by omega⟩

/-- **`copy_and_set` through a path of any depth into an ndarray**: the result is a new array object (cell
`h.size + 1`) of the same shape on a new buffer (cell `h.size`) that holds the elements of the original with exactly
the addressed window overwritten by the broadcast value; the heap is only extended (the original array, its buffer,
every view of it are untouched — the copies the deeper levels make are garbage cells). -/
theorem C18_nd_copy_exact (strict : Bool) {h : Heap} {t v b off : Nat} {shape : List Nat} {ks : Path}
    {o : Nat} {s : List Nat} {ys : List Int} (w : NdWF h) (hn : h[t]? = some (.nd b off shape))
    (hks : ks ≠ []) (hw : ndWin shape ks = some (o, s)) (hco : coerce h v s = some ys) :
    (copyAndSet strict h t (.path ks) v).2 = .ok (h.size + 1) ∧
    (copyAndSet strict h t (.path ks) v).1[h.size + 1]? = some (.nd h.size 0 shape) ∧
    (copyAndSet strict h t (.path ks) v).1[h.size]? = some (.buf (splice (ndElems h b off shape) o ys)) ∧
    Extends h (copyAndSet strict h t (.path ks) v).1 ∧
    ys.length = prod s ∧ o + prod s ≤ prod shape := by
  have hext := C18_no_mutation_copy_and_set strict h t (.path ks) v
  rw [copyAndSet_path] at hext ⊢
  have hlen := coerce_length w hco
  obtain ⟨h', hs, h1, h2⟩ := setPath_nd_copy_deep strict v ks shape h t b off o s ys hks hn (w.elems_length hn) hw
    (coerce_stable w hco) hlen
  rw [hs] at hext ⊢
  exact ⟨rfl, h1, h2, hext, hlen, ndWin_bound ks shape o s hw⟩

/-- **Get after set, by value, at any depth**: reading the same path back from the array a copying set returned
gives a view of the NEW buffer whose elements are the broadcast value — or, when the path addresses one element, the
numpy scalar of that value. -/
theorem C18_nd_get_set_deep (strict : Bool) {h : Heap} {t v b off : Nat} {shape : List Nat} {ks : Path}
    {o : Nat} {s : List Nat} {ys : List Int} {h' : Heap} (w : NdWF h) (hn : h[t]? = some (.nd b off shape))
    (hks : ks ≠ []) (hw : ndWin shape ks = some (o, s)) (hco : coerce h v s = some ys)
    (hs : (copyAndSet strict h t (.path ks) v).1 = h') :
    (s ≠ [] → getV h' (h.size + 1) ks = .ok (.view h.size o s, true) ∧ ndElems h' h.size o s = ys) ∧
    (s = [] → ∃ y, ys = [y] ∧ getV h' (h.size + 1) ks = .ok (.scalar y, true)) := by
  obtain ⟨_, h1, h2, _, hlen, hbd⟩ := C18_nd_copy_exact strict w hn hks hw hco
  rw [hs] at h1 h2
  have hE : (slice (bufOf h b) off (prod shape)).length = prod shape := w.elems_length hn
  have hgv : getV h' (h.size + 1) ks = ndWalk h' h.size 0 shape ks := by
    cases ks with
    | nil => exact absurd rfl hks
    | cons k ks' =>
      obtain ⟨n, inner, i, j, o', rfl, hi, _, _, _⟩ := ndWin_cons_inv hw
      rw [getV.eq_4 _ _ _ _ (fun e => asInt_ne_self hi e) (fun id v e => by subst e; cases hi), h1]
  rw [hgv, ndWalk_of_ndWin h' h.size ks shape 0 o s hw, Nat.zero_add]
  constructor
  · intro hne
    rw [if_neg (fun hh => hne hh.1)]
    refine ⟨rfl, ?_⟩
    simp only [ndElems, bufOf_of_get h2]
    rw [← hlen]; exact slice_splice _ _ _ (by omega)
  · intro he
    subst he
    have h1' : ys.length = 1 := hlen
    obtain ⟨y, rfl⟩ : ∃ y, ys = [y] := by
      match ys, h1' with
      | [y], _ => exact ⟨y, rfl⟩
    refine ⟨y, rfl, ?_⟩
    rw [if_pos ⟨rfl, hks⟩, bufOf_of_get h2, getD_splice_of_slice (by
      have hb1 : o + 1 ≤ prod shape := hbd
      rw [show (ndElems h b off shape).length = prod shape from hE]; exact hb1)]

/-- **Frame inside the array, at any depth**: every other item of the array whose window is disjoint from the
written one (`ks'` any chain of in-range integer keys, e.g. one that leaves `ks` at some axis) shows, in the array
the copying set returned, exactly the elements it shows in the original. -/
theorem C18_nd_frame_deep (strict : Bool) {h : Heap} {t v b off : Nat} {shape : List Nat} {ks ks' : Path}
    {o o' : Nat} {s s' : List Nat} {ys : List Int} {h' : Heap} (w : NdWF h) (hn : h[t]? = some (.nd b off shape))
    (hks : ks ≠ []) (hw : ndWin shape ks = some (o, s)) (hco : coerce h v s = some ys)
    (hw' : ndWin shape ks' = some (o', s')) (hd : o' + prod s' ≤ o ∨ o + prod s ≤ o')
    (hs : (copyAndSet strict h t (.path ks) v).1 = h') :
    ndElems h' h.size o' s' = ndElems h b (off + o') s' := by
  obtain ⟨_, _, h2, _, hlen, hbd⟩ := C18_nd_copy_exact strict w hn hks hw hco
  rw [hs] at h2
  have hE : (slice (bufOf h b) off (prod shape)).length = prod shape := w.elems_length hn
  have hbd' := ndWin_bound ks' shape o' s' hw'
  simp only [ndElems, bufOf_of_get h2]
  rw [slice_splice_disjoint _ _ (by omega) (by omega)]
  exact slice_slice _ hbd'

/-- **In place, at any depth: read-back and frame in the caller's own buffer** — after the in-place set the addressed
window shows the broadcast value, every disjoint window of the same buffer (items of this array, or of any other
array object that shares the buffer) shows what it showed before. -/
theorem C18_nd_inplace_get_set_frame (strict : Bool) {h : Heap} {t v b off : Nat} {shape : List Nat} {ks : Path}
    {xs : List Int} {o : Nat} {s : List Nat} {ys : List Int} {h' : Heap} (w : NdWF h)
    (hn : h[t]? = some (.nd b off shape)) (hb : h[b]? = some (.buf xs)) (hks : ks ≠ [])
    (hw : ndWin shape ks = some (o, s)) (hco : coerce h v s = some ys)
    (hs : (setPath strict true h t ks v).1 = h') :
    ndElems h' b (off + o) s = ys ∧
    ∀ o' L', o' + L' ≤ off + o ∨ off + o + prod s ≤ o' → slice (bufOf h' b) o' L' = slice xs o' L' := by
  obtain ⟨_, h1, _, hlen, hbd⟩ := C18_nd_inplace_exact strict w hn hb hks hw hco
  rw [hs] at h1
  constructor
  · simp only [ndElems, bufOf_of_get h1]
    rw [← hlen]; exact slice_splice _ _ _ (by omega)
  · intro o' L' hd
    rw [bufOf_of_get h1]
    exact slice_splice_disjoint _ _ (by omega) (by omega)

/-! ### C18_tuple_key — a tuple of ints as a path element (numpy multi-dimensional index; work package C18D)

`Key('a', (i, j))`: on an ndarray `a[(i, j)]` is `a[i, j]`, ONE indexing step resolving several axes.  `Model/Tree.lean`
models it as `XKey.tup` on top of the unchanged key types (`getVX`, `setPathX`, `tupWin`).  Not modelled (the harness
keeps it out of the correspondence, oracle only): STORING a tuple as a dict key. -/

/-- **On tuple-free paths the model with tuple keys is the model every other theorem of this file is about.** -/
theorem C18_tuple_key_model (strict inPlace : Bool) (h : Heap) (t v : Ref) (p : Path) :
    setPathX strict inPlace h t (p.map XKey.k) v = setPath strict inPlace h t p v ∧
    getVX h t (p.map XKey.k) = getV h t p :=
  ⟨setPathX_plain strict inPlace v p h t, getVX_plain h p t⟩

/-- **`a[(i, j, …)]` addresses the element / sub-block that the chain `a[i][j]…` addresses** — same offset, same
shape, and it is rejected (numpy: `IndexError`) exactly when some index of the chain is. -/
theorem C18_tuple_key_window (shape : List Nat) (is : List Int) :
    tupWin shape is = ndWin shape (is.map PKey.int) := tupWin_eq_ndWin is shape

/-- **A read through a tuple key is the read through the chain of ints.** -/
theorem C18_tuple_key_read {h : Heap} {t b off : Nat} {shape : List Nat} {is : List Int} {o : Nat} {s : List Nat}
    (hn : h[t]? = some (.nd b off shape)) (his : is ≠ []) (hw : tupWin shape is = some (o, s)) :
    getVX h t [.tup is] = getV h t (is.map PKey.int) := by
  have hw' := hw
  rw [tupWin_eq_ndWin] at hw'
  cases is with
  | nil => exact absurd rfl his
  | cons i is' =>
    cases shape with
    | nil => simp [tupWin] at hw
    | cons n inner =>
      have hv : getV h t ((i :: is').map PKey.int) = ndWalk h b off (n :: inner) ((i :: is').map PKey.int) := by
        rw [List.map_cons, getV.eq_4 _ _ _ _ (by intro e; cases e) (by intro id v e; cases e), hn]
      rw [hv, ndWalk_of_ndWin h b _ _ off o s hw']
      simp only [getVX, hn, ndWalkX, hw]
      cases s with
      | nil => simp [scalarWalkX]
      | cons m s' => simp

/-- **A copying set through a tuple key returns the array the set through the chain of ints returns**: a new array
object (cell `h.size + 1`) on a new buffer (cell `h.size`), both cells the same in the two resulting heaps — the elements
of the original with the window overwritten by the broadcast value; the heap is only extended.  (The two heaps differ
in garbage: the chain copies a view per level, the tuple key resolves the axes at once.) -/
theorem C18_tuple_key_set_copy (strict : Bool) {h : Heap} {t v b off : Nat} {shape : List Nat} {is : List Int}
    {o : Nat} {s : List Nat} {ys : List Int} (w : NdWF h) (hn : h[t]? = some (.nd b off shape)) (his : is ≠ [])
    (hw : tupWin shape is = some (o, s)) (hco : coerce h v s = some ys) :
    (setPathX strict false h t [.tup is] v).2 = .ok (h.size + 1) ∧
    (setPath strict false h t (is.map PKey.int) v).2 = .ok (h.size + 1) ∧
    (setPathX strict false h t [.tup is] v).1[h.size + 1]? = (setPath strict false h t (is.map PKey.int) v).1[h.size + 1]? ∧
    (setPathX strict false h t [.tup is] v).1[h.size]? = (setPath strict false h t (is.map PKey.int) v).1[h.size]? ∧
    (setPathX strict false h t [.tup is] v).1[h.size]? = some (.buf (splice (ndElems h b off shape) o ys)) ∧
    Extends h (setPathX strict false h t [.tup is] v).1 := by
  have hw' := hw
  rw [tupWin_eq_ndWin] at hw'
  have hks : is.map PKey.int ≠ [] := by cases is with | nil => exact absurd rfl his | cons _ _ => simp
  obtain ⟨c1, c2, c3, _, _, _⟩ := C18_nd_copy_exact strict w hn hks hw' hco
  rw [copyAndSet_path] at c1 c2 c3
  cases shape with
  | nil => cases is with | nil => exact absurd rfl his | cons _ _ => simp [tupWin] at hw
  | cons n inner =>
    rw [setPathX_tup_copy strict hn hw (coerce_stable w hco)]
    have hsz : (ndCopy h b off (n :: inner)).1.size = h.size + 2 := by rw [ndCopy_fst]; simp
    have hbuf : (ndCopy h b off (n :: inner)).1[h.size]? = some (.buf (ndElems h b off (n :: inner))) := by
      rw [ndCopy_fst, push_get_lt _ _ (by simp)]; exact push_get_size _ _
    have hnd : (ndCopy h b off (n :: inner)).1[h.size + 1]? = some (.nd h.size 0 (n :: inner)) := by
      rw [ndCopy_fst]
      have := push_get_size (h.push (.buf (ndElems h b off (n :: inner)))) (.nd h.size 0 (n :: inner))
      simpa using this
    have hB : (ndWrite (ndItem (ndCopy h b off (n :: inner)).1 h.size o s).1 h.size o ys)[h.size]? =
        some (.buf (splice (ndElems h b off (n :: inner)) o ys)) :=
      ndWrite_get_eq (by rw [ndItem_get_lt _ _ _ _ (by omega)]; exact hbuf) _ _
    refine ⟨rfl, c1, ?_, ?_, hB, ?_⟩
    · rw [c2]; simp only
      rw [ndWrite_get_ne' _ _ _ _ (by omega), ndItem_get_lt _ _ _ _ (by omega), hnd]
    · rw [c3]; exact hB
    · exact Extends.ndWrite_fresh ((ndCopy_extends h b off (n :: inner)).trans (ndItem_extends _ _ _ s)) _ _ (Nat.le_refl _)

/-- **… and so does the in-place set**: the same array object, the caller's buffer with exactly the addressed window
overwritten, every other pre-existing cell unchanged — as the set through the chain of ints. -/
theorem C18_tuple_key_set_inplace (strict : Bool) {h : Heap} {t v b off : Nat} {shape : List Nat} {is : List Int}
    {xs : List Int} {o : Nat} {s : List Nat} {ys : List Int} (w : NdWF h) (hn : h[t]? = some (.nd b off shape))
    (hb : h[b]? = some (.buf xs)) (his : is ≠ []) (hw : tupWin shape is = some (o, s))
    (hco : coerce h v s = some ys) :
    (setPathX strict true h t [.tup is] v).2 = .ok t ∧ (setPath strict true h t (is.map PKey.int) v).2 = .ok t ∧
    (setPathX strict true h t [.tup is] v).1[b]? = some (.buf (splice xs (off + o) ys)) ∧
    (setPath strict true h t (is.map PKey.int) v).1[b]? = some (.buf (splice xs (off + o) ys)) ∧
    ∀ c, c < h.size → c ≠ b → (setPathX strict true h t [.tup is] v).1[c]? = h[c]? ∧
      (setPath strict true h t (is.map PKey.int) v).1[c]? = h[c]? := by
  have hw' := hw
  rw [tupWin_eq_ndWin] at hw'
  have hks : is.map PKey.int ≠ [] := by cases is with | nil => exact absurd rfl his | cons _ _ => simp
  obtain ⟨c1, c2, c3, _, _⟩ := C18_nd_inplace_exact strict w hn hb hks hw' hco
  have hblt := lt_size_of_get hb
  cases shape with
  | nil => cases is with | nil => exact absurd rfl his | cons _ _ => simp [tupWin] at hw
  | cons n inner =>
    rw [setPathX_tup_inplace strict hn hw (coerce_stable w hco)]
    refine ⟨rfl, c1, ?_, c2, fun c hc hne => ⟨?_, c3 c hc hne⟩⟩
    · exact ndWrite_get_eq (by rw [ndItem_get_lt _ _ _ _ hblt]; exact hb) _ _
    · simp only
      rw [ndWrite_get_ne' _ _ _ _ hne, ndItem_get_lt _ _ _ _ hc]

/-- **`set(..., in_place=True)` of one item of an ndarray writes exactly the addressed item**: the call
succeeds and returns the same array object; the buffer afterwards is the buffer before with the window of
item `j` (`prod inner` elements from `off + j * prod inner`) overwritten by the value; every other
pre-existing cell — every other object, and the array object itself — is unchanged. -/
theorem C18_nd_inplace_exact_one (strict : Bool) {h : Heap} {t v b off n : Nat} {inner : List Nat} {k : PKey}
    {i : Int} {j : Nat} {x : Int} {xs : List Int} (hn : h[t]? = some (.nd b off (n :: inner)))
    (hb : h[b]? = some (.buf xs)) (hv : h[v]? = some (.leaf (.int x))) (hk : k.isPlain)
    (hi : k.asInt = some i) (hj : resolveIdx n i = some j) :
    (setPath strict true h t [k] v).2 = .ok t ∧
    (setPath strict true h t [k] v).1[b]? =
      some (.buf (splice xs (off + j * prod inner) (List.replicate (prod inner) x))) ∧
    ∀ c, c < h.size → c ≠ b → (setPath strict true h t [k] v).1[c]? = h[c]? := by
  have hvlt := lt_size_of_get hv
  have hblt := lt_size_of_get hb
  have hco : coerce (ndItem h b (off + j * prod inner) inner).1 v inner = some (List.replicate (prod inner) x) :=
    coerce_int (by rw [ndItem_get_lt _ _ _ _ hvlt]; exact hv) inner
  rw [setPath_nd_inplace_one strict hn (PKey.isPlain_ne_self hk) (PKey.isPlain_ne_skip hk) hi hj hco]
  refine ⟨rfl, ?_, ?_⟩
  · exact ndWrite_get_eq (by rw [ndItem_get_lt _ _ _ _ hblt]; exact hb) _ _
  · intro c hc hne
    simp only
    rw [ndWrite_get_ne _ _ _ hne, ndItem_get_lt _ _ _ _ hc]

/-- **`copy_and_set` of one item of an ndarray**: the result is a new array object (cell `h.size + 1`) of the
same shape on a new buffer (cell `h.size`) that holds the elements of the original with exactly the window
of item `j` overwritten by the value; the heap is only extended (the original array, its buffer and every
view of it are untouched). -/
theorem C18_nd_copy_exact_one (strict : Bool) {h : Heap} {t v b off n : Nat} {inner : List Nat} {k : PKey}
    {i : Int} {j : Nat} {x : Int} (hn : h[t]? = some (.nd b off (n :: inner)))
    (hv : h[v]? = some (.leaf (.int x))) (hk : k.isPlain) (hi : k.asInt = some i) (hj : resolveIdx n i = some j) :
    (copyAndSet strict h t (.path [k]) v).2 = .ok (h.size + 1) ∧
    (copyAndSet strict h t (.path [k]) v).1[h.size + 1]? = some (.nd h.size 0 (n :: inner)) ∧
    (copyAndSet strict h t (.path [k]) v).1[h.size]? =
      some (.buf (splice (ndElems h b off (n :: inner)) (j * prod inner) (List.replicate (prod inner) x))) ∧
    Extends h (copyAndSet strict h t (.path [k]) v).1 := by
  have hvlt := lt_size_of_get hv
  have hext := C18_no_mutation_copy_and_set strict h t (.path [k]) v
  rw [copyAndSet_path] at hext ⊢
  have hcv : (ndCopy h b off (n :: inner)).1[v]? = h[v]? := (ndCopy_extends h b off (n :: inner)).2 v hvlt
  have hsz : (ndCopy h b off (n :: inner)).1.size = h.size + 2 := by rw [ndCopy_fst]; simp
  have hco : coerce (ndItem (ndCopy h b off (n :: inner)).1 h.size (j * prod inner) inner).1 v inner =
      some (List.replicate (prod inner) x) :=
    coerce_int (by rw [ndItem_get_lt _ _ _ _ (by omega), hcv]; exact hv) inner
  have hbuf : (ndCopy h b off (n :: inner)).1[h.size]? = some (.buf (ndElems h b off (n :: inner))) := by
    rw [ndCopy_fst, push_get_lt _ _ (by simp)]; exact push_get_size _ _
  have hnd : (ndCopy h b off (n :: inner)).1[h.size + 1]? = some (.nd h.size 0 (n :: inner)) := by
    rw [ndCopy_fst]
    have := push_get_size (h.push (.buf (ndElems h b off (n :: inner)))) (.nd h.size 0 (n :: inner))
    simpa using this
  rw [setPath_nd_copy_one strict hn (PKey.isPlain_ne_self hk) (PKey.isPlain_ne_skip hk) hi hj hco] at hext ⊢
  refine ⟨rfl, ?_, ?_, hext⟩
  · simp only
    rw [ndWrite_get_ne _ _ _ (by omega), ndItem_get_lt _ _ _ _ (by omega), hnd]
  · exact ndWrite_get_eq (by rw [ndItem_get_lt _ _ _ _ (by omega)]; exact hbuf) _ _

/-- **Get after set, by value, for an item of an ndarray**: in a buffer that holds the window of item `j`
(`o + len ≤ size`), the elements read back from that window after it was overwritten by `ys` are `ys`
— with `C18_nd_inplace_exact_one` / `C18_nd_copy_exact_one`: `arr[k]` read after the set shows the value set
(broadcast to the item's shape); and the elements outside the window are the old ones (the two `splice`
formulas), which is the frame law inside the array. -/
theorem C18_nd_get_set (xs : List Int) (o : Nat) (ys : List Int) (hb : o + ys.length ≤ xs.length) :
    slice (splice xs o ys) o ys.length = ys ∧ (splice xs o ys).length = xs.length ∧
    (splice xs o ys).take o = xs.take o ∧ (splice xs o ys).drop (o + ys.length) = xs.drop (o + ys.length) := by
  refine ⟨slice_splice xs o ys hb, splice_length xs o ys hb, ?_, ?_⟩
  · unfold splice
    have h1 : (xs.take o).length = o := by simp; omega
    rw [List.append_assoc, List.take_append_of_le_length (by omega)]
    rw [List.take_of_length_le (by omega)]
  · unfold splice
    have h1 : (xs.take o ++ ys).length = o + ys.length := by simp; omega
    rw [List.drop_append, h1]
    simp
    omega

/-- **The complete read `getV` (which may index into ndarrays) agrees with the reference-valued read `get`**
wherever `get` succeeds: all `get`-theorems of this file are theorems about `TreeMapView.__getitem__`. -/
theorem C18_getV_agrees {h : Heap} {t : Ref} {p : Path} {x : Ref} (hg : get h t p = .ok x) :
    ∃ m, getV h t p = .ok (.obj x, m) := by
  unfold Tree.get at hg
  cases hc : getCore h t p with
  | error e => rw [hc] at hg; cases hg
  | ok y =>
    rw [hc] at hg
    simp only [Except.map, Except.ok.injEq] at hg
    subst hg
    exact ⟨y.2, getV_of_getCore h p t y hc⟩

/-! ## C18_key_flavour — `Key.Index(i)` and the plain int `i` as path elements

`Index` subclasses `int` (`Index(i) == i`, same hash), so a dict lookup cannot tell them apart, but a dict keeps
the key OBJECT it was first given and `items()` lists that object.  Since wp-C18F the model stores key objects
(`DKey.idx` vs `DKey.int`, lookups compare `DKey.norm`), so the correspondence compares the flavour of every dict
key and of every element of a listed path (before, it had to canonicalise them, and a hole in that
canonicalisation was a thorough-tier false alarm).  These theorems say that nothing the property talks about
depends on the flavour: `PKey.flav` maps `Index(i)` to `i` and is the identity on every other key; two paths have
the same *normal form* when `p.map flav = q.map flav`. -/

/-- **Reads cannot tell `Index(i)` from `i`**: two paths of equal normal form read the same — the same object
or the same error — through the reference-valued `__get` and through the complete one (paths into ndarrays);
every heap, every path, SELF / SKIP / Literal keys included. -/
theorem C18_key_flavour_read (h : Heap) (t : Ref) {p q : Path} (e : p.map PKey.flav = q.map PKey.flav) :
    get h t p = get h t q ∧ getV h t p = getV h t q :=
  ⟨get_congr_flav h t e, getV_congr_flav h t e⟩

/-- … and so do multi-key reads. -/
theorem C18_key_flavour_multikey (h : Heap) (t : Ref) (ks : List Path) :
    getItem h t (.multi (ks.map (List.map PKey.flav))) = getItem h t (.multi ks) := by
  simp only [getItem, mapM_get_flav]

/-- **Whatever flavour a path listed by `items()` is spelled in, it reads back its leaf** (the read-back clause
of `C18_items` for every spelling of the listed path, also through the complete `__get`). -/
theorem C18_key_flavour_items {h : Heap} (hg : GoodDicts h) {root : Ref} {n : Node} (hn : h[root]? = some n)
    (hc : n.children ≠ []) {kvs : List (Path × Ref)} (hi : items h root = .ok kvs) {p : Path} {x : Ref}
    (hm : (p, x) ∈ kvs) {q : Path} (e : q.map PKey.flav = p.map PKey.flav) :
    get h root q = .ok x ∧ ∃ m, getV h root q = .ok (.obj x, m) := by
  have hp := ((C18_items hg hn hc hi).2.2 p x hm).2
  have hq : get h root q = .ok x := by rw [get_congr_flav h root e]; exact hp
  exact ⟨hq, C18_getV_agrees hq⟩

/-- **On a path that exists, a copying set cannot tell them apart either** — strict or not, every heap: same
resulting heap (the key objects held by every dict included), same result or same error.  `Ex h t p`: every key
of `p` but the last addresses a stored child; the last may be the append index of a sequence, but where it
addresses a dict it is a key already (a FRESH dict key is stored as the object given — the second witness below);
whatever follows SELF / SKIP is ignored; Literal keys are the dict keys they are for `set`; below an ndarray
anything goes — paths INTO arrays included. -/
theorem C18_key_flavour_set (strict : Bool) (v : Ref) {h : Heap} {t : Ref} {p q : Path} (x : Ex h t p)
    (e : q.map PKey.flav = p.map PKey.flav) :
    setPath strict false h t q v = setPath strict false h t p v :=
  setPath_congr_flav strict v x e

/-- … in particular for every path listed by `items()`: a copying set through any spelling of a listed path
is the same set. -/
theorem C18_key_flavour_items_set (strict : Bool) (v : Ref) {h : Heap} (hg : GoodDicts h) {root : Ref}
    {n : Node} (hn : h[root]? = some n) (hc : n.children ≠ []) {kvs : List (Path × Ref)}
    (hi : items h root = .ok kvs) {p : Path} {x : Ref} (hm : (p, x) ∈ kvs) {q : Path}
    (e : q.map PKey.flav = p.map PKey.flav) :
    setPath strict false h root q v = setPath strict false h root p v :=
  setPath_congr_flav strict v (Ex.of_leafWalk hg ((C18_items hg hn hc hi).2.2 p x hm).1) e

/-- … and for every path of plain keys that READS: `copy_and_set` through any spelling of it. -/
theorem C18_key_flavour_set_readable (strict : Bool) (v : Ref) {h : Heap} {t x : Ref} {p q : Path}
    (hp : PlainSelf p) (hg : get h t p = .ok x) (e : q.map PKey.flav = p.map PKey.flav) :
    copyAndSet strict h t (.path q) v = copyAndSet strict h t (.path p) v := by
  simp only [copyAndSet, setItem, setPath_congr_flav strict v (Ex.of_get p t x hp hg) e]

/-- Witnesses (tests, `decide`): where the flavour IS visible, so `Ex` cannot be dropped from
`C18_key_flavour_set`.  (1) a FRESH path: `_default_tree` builds a list for `Index(0)` and a dict for `0`
(tree.py:276-283); (2) a FRESH key of an existing dict is stored as the object given: `{'a': .., Index(1): v}`
vs `{'a': .., 1: v}` — and `items()` lists it as stored; (3) an EXISTING entry keeps its key object. -/
theorem C18_key_flavour_fresh_witness :
    (setPath false false #[.null, .leaf (.int 1)] 0 [.idx 0] 1).1[2]? = some (.list [1]) ∧
    (setPath false false #[.null, .leaf (.int 1)] 0 [.int 0] 1).1[2]? = some (.dict [(.int 0, 1)]) ∧
    [PKey.idx 0].map PKey.flav = [PKey.int 0].map PKey.flav ∧
    (setPath false false #[.dict [(.str "a", 1)], .leaf (.int 1)] 0 [.idx 1] 1).1[2]? =
      some (.dict [(.str "a", 1), (.idx 1, 1)]) ∧
    (setPath false false #[.dict [(.str "a", 1)], .leaf (.int 1)] 0 [.int 1] 1).1[2]? =
      some (.dict [(.str "a", 1), (.int 1, 1)]) ∧
    items #[.dict [(.str "a", 1), (.idx 1, 1)], .leaf (.int 1)] 0 = .ok [([.str "a"], 1), ([.idx 1], 1)] ∧
    (setPath false false #[.dict [(.idx 1, 1)], .leaf (.int 1)] 0 [.int 1] 1).1[2]? = some (.dict [(.idx 1, 1)]) :=
  ⟨by decide, by decide, by decide, by decide, by decide, rfl, by decide⟩

/-! ## C18_reserved_vs_plain — user data whose keys are SPELLED like reserved keys (work package SC18)

`Key.SELF` / `Key.SKIP` are `Reserved` objects (a `str` subclass: `Reserved('SELF') == 'SELF'`, same hash).  A
mapping with the ORDINARY str key `'SELF'` or `'SKIP'` — an action vocabulary `{'KEEP': .., 'SKIP': ..}` — is a legal
tree and that key an ordinary key.  In the model the reserved keys are the constructors `PKey.self` / `PKey.skip`, a
plain string is `PKey.str s` whatever `s` spells; `Model/TreeKey.lean` writes the test `_is_key` (tree.py:205-206:
`isinstance(key, type(other_key)) and key == other_key`) out over Python types and `==`, and re-states `__get` /
`_default_tree` / `_set_by_path` with an explicit `_is_key` call wherever the Python has one (`getK`, `defaultTreeK`,
`setPathK`, parametrised by the predicate).  The theorems below are stated on THAT model with the shipped predicate
`isKey`; `C18_reserved_vs_plain_model` says it is the model all other theorems of this file are about.  The seeded
change C18-m3 (`isinstance(key, str) and key == other_key`) is the same model with `isKeyByValue`. -/

/-- **The shipped `_is_key` accepts exactly the reserved objects** — never a plain string, whatever it spells
(`'SELF'`, `'SKIP'` included), never an `Index` / int / `Literal`. -/
theorem C18_reserved_vs_plain_is_key (k : PKey) :
    (isKey k .self = true ↔ k = .self) ∧ (isKey k .skip = true ↔ k = .skip) ∧
    (∀ s, k = .str s → isKey k .self = false ∧ isKey k .skip = false) := by
  refine ⟨isKey_self_iff k, isKey_skip_iff k, ?_⟩
  rintro s rfl
  exact ⟨isKey_plain_self rfl, isKey_plain_skip rfl⟩

/-- **With the shipped predicate, the model with explicit `_is_key` calls is the model of `Model/Tree.lean`**:
`_set_by_path` (copying and in place), `__get`, `_default_tree`, `items()` — every heap, path and value. -/
theorem C18_reserved_vs_plain_model (strict inPlace : Bool) (h : Heap) (t v : Ref) (p : Path) :
    setPathK isKey strict inPlace h t p v = setPath strict inPlace h t p v ∧ getK isKey h t p = get h t p ∧
    getCoreK isKey h t p = getCore h t p ∧ defaultTreeK isKey h p v = defaultTree h p v ∧
    itemsK isKey h t = items h t :=
  ⟨setPathK_isKey strict inPlace p h t v, getK_isKey h t p, getCoreK_isKey h p t, defaultTreeK_isKey h p v,
    itemsK_isKey h t⟩

/-- **Get after set through a plain string key, whatever it spells** (`s = "SELF"`, `s = "SKIP"` included, at any
depth: `pre` and `post` are arbitrary paths of plain keys, `post` optionally cut short by the reserved `SELF`): the
path reads the very object set.  (`NoNd`: reading back does not index into an ndarray; discharged for readable paths
by the next theorem.) -/
theorem C18_reserved_vs_plain_get_set (strict : Bool) (s : String) {h : Heap} {t v : Ref} {pre post : Path}
    {h' : Heap} {t' : Ref} (hpre : ∀ k ∈ pre, k.isPlain = true) (hpost : PlainSelf post)
    (hs : setPathK isKey strict false h t (pre ++ .str s :: post) v = (h', .ok t'))
    (hnd : NoNd h' t' (pre ++ .str s :: post)) :
    getK isKey h' t' (pre ++ .str s :: post) = .ok v := by
  rw [setPathK_isKey] at hs
  rw [getK_isKey]
  exact setPath_get_set strict _ h t v h' t' (PlainSelf.through hpre rfl hpost) hs h' (fun _ _ _ => rfl) hnd

/-- … in particular for every such path that could be read before the set (an EXISTING mapping key `'SELF'` /
`'SKIP'`): the demo of the seeded change, for all heaps. -/
theorem C18_reserved_vs_plain_get_set_existing (strict : Bool) (s : String) {h : Heap} {t v x : Ref}
    {pre post : Path} {h' : Heap} {t' : Ref} (hpre : ∀ k ∈ pre, k.isPlain = true) (hpost : PlainSelf post)
    (hc : Closed h) (ht : t < h.size) (hg : getK isKey h t (pre ++ .str s :: post) = .ok x)
    (hs : setPathK isKey strict false h t (pre ++ .str s :: post) v = (h', .ok t')) :
    getK isKey h' t' (pre ++ .str s :: post) = .ok v := by
  have hs' := hs
  rw [setPathK_isKey] at hs'
  rw [getK_isKey] at hg
  exact C18_reserved_vs_plain_get_set strict s hpre hpost hs
    (setPath_noNd_of_get strict _ h t v h' t' (· < h.size) (PlainSelf.through hpre rfl hpost) hc.region ht ⟨x, hg⟩
      hs' h' (fun _ _ _ => rfl))

/-- **Frame**: a copying set through a plain string key (any spelling, any depth) leaves every path that leaves
the set path reading as before — the siblings of a mapping key `'SELF'` survive a set below it. -/
theorem C18_reserved_vs_plain_frame (strict : Bool) (s : String) {h : Heap} {t v : Ref} {pre post q : Path}
    {h' : Heap} {t' : Ref} (hc : Closed h) (ht : t < h.size) (d : Diverge (pre ++ .str s :: post) q)
    (hs : setPathK isKey strict false h t (pre ++ .str s :: post) v = (h', .ok t')) (x : Ref) :
    getK isKey h' t' q = .ok x ↔ getK isKey h t q = .ok x := by
  rw [setPathK_isKey, ← copyAndSet_path] at hs
  rw [getK_isKey, getK_isKey]
  exact C18_frame strict hc ht d hs x

/-- **`items()` lists stored keys, never a reserved key**: every element of every listed path is a plain key (a
mapping key spelled `'SELF'` is listed as the plain string, `PKey.str "SELF"`), and the path reads back its leaf
through the `__get` with the explicit `_is_key` test. -/
theorem C18_reserved_vs_plain_items {h : Heap} (hg : GoodDicts h) {root : Ref} {n : Node} (hn : h[root]? = some n)
    (hc : n.children ≠ []) {kvs : List (Path × Ref)} (hi : itemsK isKey h root = .ok kvs) {p : Path} {x : Ref}
    (hm : (p, x) ∈ kvs) :
    (∀ k ∈ p, k.isPlain = true ∧ k ≠ .self ∧ k ≠ .skip) ∧ getK isKey h root p = .ok x := by
  rw [itemsK_isKey] at hi
  obtain ⟨hw, hgp⟩ := (C18_items hg hn hc hi).2.2 p x hm
  refine ⟨fun k hk => ?_, by rw [getK_isKey]; exact hgp⟩
  have := hw.all_plain hg k hk
  exact ⟨this, PKey.isPlain_ne_self this, PKey.isPlain_ne_skip this⟩

/-- **The two keys are told apart in both directions** on a dict that has the entry `s ↦ c` (`s = "SELF"` /
`"SKIP"`): the plain string reads / sets THROUGH the entry; the reserved `SELF` reads the dict itself and a set
replaces it; the reserved `SKIP` set is the identity. -/
theorem C18_reserved_vs_plain_distinct {h : Heap} {t c : Ref} {es : List (DKey × Ref)} (s : String)
    (ht : h[t]? = some (.dict es)) (hd : dictGet es (.str s) = some c) (ks : Path) (strict inPlace : Bool) (v : Ref) :
    getK isKey h t (.str s :: ks) = getK isKey h c ks ∧ getK isKey h t (.self :: ks) = .ok t ∧
    setPathK isKey strict inPlace h t (.self :: ks) v = (h, .ok v) ∧
    setPathK isKey strict inPlace h t (.skip :: ks) v = (h, .ok t) := by
  simp only [getK_isKey, setPathK_isKey]
  refine ⟨?_, get_self h t ks, rfl, rfl⟩
  rw [get_cons ks (Or.inl rfl), index_of_get ht]
  simp [Node.slotGet, PKey.toDKey, hd]

/-- **The by-value predicate breaks get-after-set on EVERY dict that has a key `'SKIP'`**: the copying set
"succeeds", returns the tree itself, and the path still reads the old entry `c` — whatever the value `v ≠ c`. -/
theorem C18_reserved_vs_plain_by_value_breaks_get_set (strict : Bool) {h : Heap} {t c v : Ref}
    {es : List (DKey × Ref)} (ht : h[t]? = some (.dict es)) (hd : dictGet es (.str "SKIP") = some c) (hne : c ≠ v) :
    setPathK isKeyByValue strict false h t [.str "SKIP"] v = (h, .ok t) ∧
    getK isKeyByValue h t [.str "SKIP"] ≠ .ok v := by
  refine ⟨setPathK_byValue_skip strict false h t [] v, ?_⟩
  rw [getK_byValue_skip_one ht hd]
  intro e; cases e; exact hne rfl

/-- **… and the frame condition and the read-back of listed paths on every tree that has a key `'SELF'`**: a set
through it returns the VALUE as the whole tree (every sibling path is gone), a read through it returns the enclosing
tree, not the entry. -/
theorem C18_reserved_vs_plain_by_value_breaks_frame (strict inPlace : Bool) (h : Heap) (t v : Ref) (rest : Path) :
    setPathK isKeyByValue strict inPlace h t (.str "SELF" :: rest) v = (h, .ok v) ∧
    getK isKeyByValue h t (.str "SELF" :: rest) = .ok t :=
  ⟨setPathK_byValue_self strict inPlace h t rest v, getK_byValue_self h t rest⟩

/-- The data of the seeded change's demo, `{'KEEP': 1, 'SKIP': 3, 'SELF': {'w': 5}}` at cell 4 (value `9` at cell 5). -/
private def hR : Heap :=
  #[.leaf (.int 1), .leaf (.int 3), .leaf (.int 5), .dict [(.str "w", 2)],
    .dict [(.str "KEEP", 0), (.str "SKIP", 1), (.str "SELF", 3)], .leaf (.int 9)]

/-- Witness (test, `decide`): on the demo data the shipped predicate obeys the laws and the by-value predicate
violates each of them — (1) items: the listed path `('SELF','w')` reads back the leaf / the whole tree; (2) get after
set through `'SKIP'`: the value / the old entry; (3) frame: after a set at `('SELF','w')` the sibling `'KEEP'` still
reads `1` / the result is the bare value and `'KEEP'` cannot be read; (4) a fresh path through `'SKIP'` on `{}`. -/
theorem C18_reserved_vs_plain_by_value_witness :
    itemsK isKey hR 4 = .ok [([.str "KEEP"], 0), ([.str "SKIP"], 1), ([.str "SELF", .str "w"], 2)] ∧
    itemsK isKeyByValue hR 4 = .ok [([.str "KEEP"], 0), ([.str "SKIP"], 1), ([.str "SELF", .str "w"], 4)] ∧
    getK isKey (setPathK isKey false false hR 4 [.str "SKIP"] 5).1 6 [.str "SKIP"] = .ok 5 ∧
    (setPathK isKey false false hR 4 [.str "SKIP"] 5).2 = .ok 6 ∧
    (setPathK isKeyByValue false false hR 4 [.str "SKIP"] 5).2 = .ok 4 ∧
    getK isKeyByValue hR 4 [.str "SKIP"] = .ok 1 ∧
    (setPathK isKey false false hR 4 [.str "SELF", .str "w"] 5).2 = .ok 6 ∧
    getK isKey (setPathK isKey false false hR 4 [.str "SELF", .str "w"] 5).1 6 [.str "KEEP"] = .ok 0 ∧
    (setPathK isKeyByValue false false hR 4 [.str "SELF", .str "w"] 5).2 = .ok 5 ∧
    getK isKeyByValue hR 5 [.str "KEEP"] = .error .key ∧
    (setPathK isKey false false #[.dict [], .leaf (.int 1)] 0 [.str "SKIP", .str "x"] 1).1[2]? =
      some (.dict [(.str "SKIP", 4)]) ∧
    (setPathK isKey false false #[.dict [], .leaf (.int 1)] 0 [.str "SKIP", .str "x"] 1).1[4]? =
      some (.dict [(.str "x", 1)]) ∧
    (setPathK isKeyByValue false false #[.dict [], .leaf (.int 1)] 0 [.str "SKIP", .str "x"] 1) =
      (#[.dict [], .leaf (.int 1)], .ok 0) := by
  refine ⟨?_, ?_, ?_, ?_, ?_, ?_, ?_, ?_, ?_, ?_, ?_, ?_, ?_⟩ <;> rfl


/-! ## non-vacuity: a concrete heap satisfies every hypothesis used above (tests, not theorems) -/

section Examples

/-- ndarray nodes: `{'a': A, 'row': A[1]}` with `A = arange(6).reshape(2, 3)` — the array object `A` (cell 1)
and the view of its row 1 (cell 2) share the buffer cell 0; the dict is cell 3, the value `7` cell 4. -/
private def hA : Heap :=
  #[.buf [0, 1, 2, 3, 4, 5], .nd 0 0 [2, 3], .nd 0 3 [3], .dict [(.str "a", 1), (.str "row", 2)], .leaf (.int 7)]

example : Closed hA := closedB_sound (by decide)
/-- the complete read: `view[Key.a.at(1)]` is a new view of the SAME buffer, `...at(-1)` a scalar; the
reference-valued read is undefined there -/
example : getV hA 3 [.str "a", .idx 1] = .ok (.view 0 3 [3], true) := rfl
example : getV hA 3 [.str "a", .idx 1, .idx (-1)] = .ok (.scalar 5, true) := rfl
example : get hA 3 [.str "a", .idx 1] = .error .other := rfl
example : NoNd hA 3 [.str "a"] := by simp [NoNd, hA, index, Node.slotGet, dictGet, PKey.toDKey]
/-- copying set `a[1][2] = 7`: new dict (cell 5), new array (cell 7) on a new buffer (cell 6) `[0,1,2,3,4,7]`;
the old buffer (cell 0) is untouched, so `A` and its row view still read `[3, 4, 5]` -/
example : (copyAndSet false hA 3 (.path [.str "a", .idx 1, .idx 2]) 4).2 = .ok 5 := rfl
example : (copyAndSet false hA 3 (.path [.str "a", .idx 1, .idx 2]) 4).1[6]? = some (.buf [0, 1, 2, 3, 4, 7]) := rfl
example : (copyAndSet false hA 3 (.path [.str "a", .idx 1, .idx 2]) 4).1[0]? = some (.buf [0, 1, 2, 3, 4, 5]) := rfl
/-- the same in place: the caller's buffer is written — and the row view (cell 2) sees it -/
example : (setPath false true hA 3 [.str "a", .idx 1, .idx 2] 4).1[0]? = some (.buf [0, 1, 2, 3, 4, 7]) := rfl
example : pathCells hA 3 [.str "a", .idx 1, .idx 2] = [3, 1, 0] := rfl
/-- `key == len(arr)`: AssertionError; a row assigned from a view of the same buffer -/
example : (copyAndSet false hA 3 (.path [.str "a", .idx 2]) 4).2 = .error .assertion := rfl
example : (copyAndSet false hA 1 (.path [.idx 0]) 2).1[5]? = some (.buf [3, 4, 5, 3, 4, 5]) := rfl
/-- hypotheses of `C18_nd_inplace_exact_one` / `C18_nd_copy_exact_one` / `C18_nd_get_set` on `A[1] = 7` -/
example : hA[1]? = some (.nd 0 0 [2, 3]) ∧ hA[0]? = some (.buf [0, 1, 2, 3, 4, 5]) ∧ hA[4]? = some (.leaf (.int 7)) ∧
    (PKey.idx 1).isPlain = true ∧ (PKey.idx 1).asInt = some 1 ∧ resolveIdx 2 1 = some 1 := by decide
example : (0 + 1 * prod [3]) + (List.replicate (prod [3]) (7 : Int)).length ≤ [0, 1, 2, 3, 4, (5 : Int)].length := by decide
example : (copyAndSet false hA 1 (.path [.idx 1]) 4).1[5]? = some (.buf [0, 1, 2, 7, 7, 7]) := rfl

/-- hypotheses of `C18_nd_inplace_exact` / `C18_nd_copy_exact` / `C18_nd_get_set_deep` / `C18_nd_frame_deep`:
depth 2 into the 2-D array `A`, int value -/
example : NdWF hA := ndWFB_sound (by decide)
example : ndWin [2, 3] [.idx 1, .idx (-1)] = some (5, []) := by decide
example : coerce hA 4 [] = some [7] := by decide
example : ndWin [2, 3] [.idx 0] = some (0, [3]) ∧ (0 + prod [3] ≤ 5 ∨ 5 + prod [] ≤ 0) := by decide

/-- a 3-D array `B = arange(12).reshape(2, 3, 2)` (cell 1, buffer cell 0), the list `[7, 8]` (cell 4), the view
`B[1]` (cell 5) of the same buffer, the 2-D array `[[7], [8], [9]]` (cell 7, broadcast along the last axis) -/
private def hB : Heap :=
  #[.buf [0, 1, 2, 3, 4, 5, 6, 7, 8, 9, 10, 11], .nd 0 0 [2, 3, 2], .leaf (.int 7), .leaf (.int 8), .list [2, 3],
    .nd 0 6 [3, 2], .buf [7, 8, 9], .nd 6 0 [3, 1]]

example : NdWF hB := ndWFB_sound (by decide)
/-- depth 2, LIST value: `B[1][2] = [7, 8]`; depth 3, int; depth 1, a VIEW of the same buffer: `B[0] = B[1]`;
depth 1, an array BROADCAST to the block: `B[-1] = [[7], [8], [9]]` -/
example : ndWin [2, 3, 2] [.idx 1, .int 2] = some (10, [2]) := by decide
example : coerce hB 4 [2] = some [7, 8] := by decide
example : ndWin [2, 3, 2] [.idx 1, .int 2, .idx (-1)] = some (11, []) := by decide
example : ndWin [2, 3, 2] [.idx 0] = some (0, [3, 2]) ∧ coerce hB 5 [3, 2] = some [6, 7, 8, 9, 10, 11] := by decide
example : ndWin [2, 3, 2] [.idx (-1)] = some (6, [3, 2]) ∧ coerce hB 7 [3, 2] = some [7, 7, 8, 8, 9, 9] := by decide
example : (copyAndSet false hB 1 (.path [.idx 1, .int 2]) 4).1[8]? = some (.buf [0, 1, 2, 3, 4, 5, 6, 7, 8, 9, 7, 8]) := by
  decide
example : (setPath false true hB 1 [.idx 0] 5).1[0]? = some (.buf [6, 7, 8, 9, 10, 11, 6, 7, 8, 9, 10, 11]) := by decide
example : getV (copyAndSet false hB 1 (.path [.idx 1, .int 2]) 4).1 9 [.idx 1, .int 2] = .ok (.view 8 10 [2], true) := rfl

/-- tuple keys on `B`: `B[(1, 2)] = [7, 8]` and the read `B[(1, 2, -1)]`; an index out of range and too many indices -/
example : tupWin [2, 3, 2] [1, 2] = some (10, [2]) ∧ tupWin [2, 3, 2] [1, 3] = none ∧ tupWin [2, 3, 2] [1, 2, 0, 0] = none := by
  decide
example : (setPathX false false hB 1 [.tup [1, 2]] 4).1[8]? = some (.buf [0, 1, 2, 3, 4, 5, 6, 7, 8, 9, 7, 8]) := by decide
example : getVX hB 1 [.tup [1, 2, -1]] = .ok (.scalar 11, true) := rfl
example : getVX hB 1 [.tup [1], .k (.idx 2)] = .ok (.view 0 10 [2], true) := rfl
example : (setPathX false false hB 1 [.tup [1, 3]] 4).2 = .error .key := rfl

/-- `[{'a': 1, 'b': 2}, 1]` at cell 3 (the leaf `1` is shared), a value `9` at cell 4, a tuple at cell 5. -/
private def h0 : Heap :=
  #[.leaf (.int 1), .leaf (.int 2), .dict [(.str "a", 0), (.str "b", 1)], .list [2, 0], .leaf (.int 9),
    .tuple [0, 1]]

example : Closed h0 := closedB_sound (by decide)
example : WF h0 3 := wfB_sound 10 3 (by decide)
example : GoodDicts h0 := goodDictsB_sound (by decide)
example : PlainSelf [.idx 0, .str "a"] := by simp [PlainSelf, PKey.isPlain]
example : PlainSelf [.idx 0, .self, .str "zzz"] := by simp [PlainSelf, PKey.isPlain]
/-- existing path: the set succeeds and returns a fresh root (cell 6); the heap grew by the two copies -/
example : (copyAndSet false h0 3 (.path [.idx 0, .str "a"]) 4).2 = .ok 6 := rfl
example : (copyAndSet false h0 3 (.path [.idx 0, .str "a"]) 4).1.size = 8 := rfl
/-- fresh path (append, then a new dict): succeeds -/
example : (copyAndSet false h0 3 (.path [.idx 2, .str "k"]) 4).2 = .ok 6 := rfl
/-- a path into a tuple: copied as list, rebuilt as tuple (fresh cell 7) -/
example : (copyAndSet false h0 5 (.path [.idx 1]) 4).2 = .ok 7 := rfl
/-- a path `set` rejects -/
example : (copyAndSet false h0 3 (.path [.idx 5]) 4).2 = .error .key := rfl
example : Diverge [.idx 0, .str "a"] [.idx 0, .str "b"] :=
  .next rfl rfl rfl (.here rfl (by intro i h; cases h) (Or.inl rfl) (by intro i h; cases h) (by decide))
example : Diverge [.idx 0, .str "a"] [.idx 1] :=
  .here rfl (by intro i h; cases h; decide) (Or.inl rfl) (by intro i h; cases h; decide) (by decide)
/-- set-same: the current value of `[0]['a']` is cell 0 -/
example : get h0 3 [.idx 0, .str "a"] = .ok 0 := rfl
example : (copyAndSet false h0 3 (.path [.idx 0, .str "a"]) 0).2 = .ok 6 := rfl
/-- items: three leaves in DFS order (the shared leaf cell 0 is listed at both of its paths) -/
example : items h0 3 = .ok [([.idx 0, .str "a"], 0), ([.idx 0, .str "b"], 1), ([.idx 1], 0)] := rfl
example : (Node.list [2, 0]).children ≠ [] := by simp [Node.children, seqChildren]
/-- in place: cell 2 (the dict) and 3 (the root) are on the path `[0]['a']`, the tuple cell 5 is not -/
example : pathCells h0 3 [.idx 0, .str "a"] = [3, 2] := rfl
example : (setPath false true h0 3 [.idx 0, .str "a"] 4).1[2]? = some (.dict [(.str "a", 4), (.str "b", 1)]) := rfl
/-- apply: `lambda x: [x]` on `[{'a': 1, 'b': 2}, 1]` succeeds; hypotheses of `C18_apply` hold -/
example : NonNegKeys h0 := nonNegKeysB_sound (by decide)
example : FnOK wrapFn := wrapFn_ok
example : (applyFn false (some wrapFn) h0 3).2 = .ok 14 := rfl
/-- multi-key read -/
example : getItem h0 3 (.multi [[.idx 1], [.idx 0, .str "b"]]) = .ok (.many [0, 1]) := rfl

end Examples

-- C18_key_flavour: `Ex` holds of a readable path and of a path whose last key is fresh
example : Ex h0 3 [.idx 0, .str "a"] := Ex.of_get _ 3 0 (by simp [PlainSelf, PKey.isPlain]) rfl
example : Ex h0 3 [.int 0, .str "b"] :=
  .step (n := .list [2, 0]) rfl rfl (.last (n := .dict [(.str "a", 0), (.str "b", 1)]) _ rfl (by simp)
    (fun es e => by cases e; exact ⟨1, rfl⟩))
example : Ex h0 3 [.int 2] := .last (n := .list [2, 0]) _ rfl (by simp) (fun es e => by cases e)   -- the append index
example : [PKey.int 0, .str "a"].map PKey.flav = [PKey.idx 0, .str "a"].map PKey.flav := rfl
example : Ex hA 3 [.str "a", .int 1, .idx 2, .str "anything"] :=
  .step (n := .dict [(.str "a", 1), (.str "row", 2)]) rfl rfl (.nd _ _ (b := 0) (off := 0) (shape := [2, 3]) rfl)

-- C18_reserved_vs_plain: the hypotheses hold on the demo data (depth 1: `pre = ['SELF']`… and depth 0)
example : Closed hR := closedB_sound (by decide)
example : GoodDicts hR := goodDictsB_sound (by decide)
example : getK isKey hR 4 ([] ++ .str "SELF" :: [.str "w"]) = .ok 2 := rfl
example : (setPathK isKey false false hR 4 ([] ++ .str "SELF" :: [.str "w"]) 5).2 = .ok 6 := rfl
example : Diverge ([] ++ PKey.str "SELF" :: [.str "w"]) [.str "KEEP"] :=
  .here rfl (by intro i h; cases h) (Or.inl rfl) (by intro i h; cases h) (by decide)
example : Diverge ([PKey.str "SELF"] ++ PKey.str "SKIP" :: []) [.str "SELF", .str "SELF"] :=
  .next rfl rfl rfl (.here rfl (by intro i h; cases h) (Or.inl rfl) (by intro i h; cases h) (by decide))
example : hR[4]? = some (.dict [(.str "KEEP", 0), (.str "SKIP", 1), (.str "SELF", 3)]) ∧
    dictGet [(DKey.str "KEEP", 0), (.str "SKIP", 1), (.str "SELF", 3)] (.str "SKIP") = some 1 ∧ (1 : Nat) ≠ 5 := by decide

/-! ## C18_key_object: a mapping KEY that is itself a path-like object is ONE path element (wp-SC18c)

A mapping may be keyed by any hashable object — in particular by `Key` instances (the library builds such dicts:
`dict(view.items())` is a flattened tree), tuples, frozensets.  The model holds such a key as the opaque atom
`DKey.obj a`; `_dfs_iter_tree` lists it with `parent_key_path.at(k)` as the ONE element `PKey.obj a`
(`dkeyToPKey`, tree.py:299), `__get` / `_set_by_path` use it as one dict key.  `GoodDicts` does not exclude these keys, so
`C18_items`, `C18_apply`, `C18_get_after_set`, `C18_frame` quantify over heaps holding them; the theorems below spell
out what that means for such a key.  The seeded change C18-m5 (`Key.at()` joining the elements of a Key argument
instead of appending it) listed the flattened spelling: a path with MORE elements than the leaf is deep, which does
not read back (`KeyError`) or — next to the nested path it spells — reads ANOTHER leaf and is listed twice. -/

/-- **A listed path has exactly depth-many elements, each ONE stored key**: for every pair `(p, x)` listed by
`items()`, the leaf `x` lies exactly `p.length` parent→child edges below the root (`Descends`), `p` is the sequence of
the key objects stored along that descent (`LeafWalk`: a `Key`-object / tuple key contributes the single element
`PKey.obj a`), every element is a plain key and the path reads back `x`. -/
theorem C18_key_object_is_one_element {h : Heap} (hg : GoodDicts h) {root : Ref} {n : Node} (hn : h[root]? = some n)
    (hc : n.children ≠ []) {kvs : List (Path × Ref)} (hi : items h root = .ok kvs) {p : Path} {x : Ref}
    (hm : (p, x) ∈ kvs) :
    Descends h root p.length x ∧ LeafWalk h root p x ∧ (∀ k ∈ p, k.isPlain = true) ∧ get h root p = .ok x := by
  obtain ⟨hw, hgp⟩ := (C18_items hg hn hc hi).2.2 p x hm
  exact ⟨hw.descends, hw, fun k hk => hw.all_plain hg k hk, hgp⟩

/-- **A leaf below a key-object key is listed once, under the key as ONE element, and reads back** — at any depth:
`pre` are the stored keys from the root down to a dict `d` that has the entry `obj a ↦ c`, `q` a leaf walk below `c`.
The listed path is `pre ++ [obj a] ++ q` (one element for the key object, whatever path it "spells"), it is listed
exactly once (`Nodup`), and it reads back the leaf. -/
theorem C18_key_object_listed {h : Heap} (hg : GoodDicts h) {root : Ref} {n : Node} (hn : h[root]? = some n)
    (hc : n.children ≠ []) {kvs : List (Path × Ref)} (hi : items h root = .ok kvs)
    {pre : Path} {d : Ref} (wp : Walk h root pre d) {es : List (DKey × Ref)} (hd : h[d]? = some (.dict es))
    {a : Nat} {c : Ref} (hm : (DKey.obj a, c) ∈ es) {q : Path} {x : Ref} (wq : LeafWalk h c q x) :
    (pre ++ .obj a :: q, x) ∈ kvs ∧ (kvs.map (·.1)).Nodup ∧ get h root (pre ++ .obj a :: q) = .ok x ∧
      (pre ++ PKey.obj a :: q).length = pre.length + 1 + q.length := by
  have hw : LeafWalk h root (pre ++ .obj a :: q) x := wp.leafWalk (.step hd (obj_mem_children hm) wq)
  obtain ⟨hnd, hall, _⟩ := C18_items hg hn hc hi
  exact ⟨hall _ _ hw, hnd, hw.get hg, by simp; omega⟩

/-- **Get after set through a key-object key** (any depth: `pre`, `post` arbitrary paths of plain keys, `post`
optionally cut short by `SELF`): the path — with the key object as ONE element — reads the very object set. -/
theorem C18_key_object_get_set (strict : Bool) (a : Nat) {h : Heap} {t v : Ref} {pre post : Path}
    {h' : Heap} {t' : Ref} (hpre : ∀ k ∈ pre, k.isPlain = true) (hpost : PlainSelf post)
    (hs : setPath strict false h t (pre ++ .obj a :: post) v = (h', .ok t'))
    (hnd : NoNd h' t' (pre ++ .obj a :: post)) :
    get h' t' (pre ++ .obj a :: post) = .ok v :=
  setPath_get_set strict _ h t v h' t' (PlainSelf.through hpre rfl hpost) hs h' (fun _ _ _ => rfl) hnd

/-- … in particular for every such path that could be read before the set (an EXISTING key-object key). -/
theorem C18_key_object_get_set_existing (strict : Bool) (a : Nat) {h : Heap} {t v x : Ref}
    {pre post : Path} {h' : Heap} {t' : Ref} (hpre : ∀ k ∈ pre, k.isPlain = true) (hpost : PlainSelf post)
    (hc : Closed h) (ht : t < h.size) (hg : get h t (pre ++ .obj a :: post) = .ok x)
    (hs : setPath strict false h t (pre ++ .obj a :: post) v = (h', .ok t')) :
    get h' t' (pre ++ .obj a :: post) = .ok v :=
  C18_key_object_get_set strict a hpre hpost hs
    (setPath_noNd_of_get strict _ h t v h' t' (· < h.size) (PlainSelf.through hpre rfl hpost) hc.region ht ⟨x, hg⟩
      hs h' (fun _ _ _ => rfl))

/-- **Frame**: a copying set through a key-object key leaves every path that leaves the set path reading as before —
in particular the nested path the key object "spells" (`Diverge`: `obj a` and `str "a"` are different dict keys). -/
theorem C18_key_object_frame (strict : Bool) (a : Nat) {h : Heap} {t v : Ref} {pre post q : Path}
    {h' : Heap} {t' : Ref} (hc : Closed h) (ht : t < h.size) (d : Diverge (pre ++ .obj a :: post) q)
    (hs : setPath strict false h t (pre ++ .obj a :: post) v = (h', .ok t')) (x : Ref) :
    get h' t' q = .ok x ↔ get h t q = .ok x := by
  rw [← copyAndSet_path] at hs
  exact C18_frame strict hc ht d hs x

/-- the demo of the seeded change: `{Key().a.b: 1, 'a': {'b': 2}}` — cells 0, 1 the leaves, 2 = `{'b': 2}`, 3 the root -/
private def hK : Heap :=
  #[.leaf (.int 1), .leaf (.int 2), .dict [(.str "b", 1)], .dict [(.obj 0, 0), (.str "a", 2)]]

/-- (test, `decide`) on the demo data the key object is listed as ONE element, the nested path it spells is ANOTHER
listed path, both read back their own leaf; reading the flattened spelling reaches the OTHER leaf — so an implementation
that lists the flattened spelling for the key object lists `['a', 'b']` twice and never the leaf `1`. -/
theorem C18_key_object_witness :
    items hK 3 = .ok [([.obj 0], 0), ([.str "a", .str "b"], 1)] ∧
    get hK 3 [.obj 0] = .ok 0 ∧ get hK 3 [.str "a", .str "b"] = .ok 1 ∧
    (setPath false false hK 3 [.obj 0] 1).1[4]? = some (.dict [(.obj 0, 1), (.str "a", 2)]) :=
  ⟨rfl, rfl, rfl, by decide⟩

-- non-vacuity of the hypotheses on the demo data
example : GoodDicts hK := goodDictsB_sound (by decide)
example : Closed hK := closedB_sound (by decide)
example : Walk hK 3 [] 3 := .nil
example : LeafWalk hK 0 [] 0 := .leaf (n := .leaf (.int 1)) rfl rfl
example : Walk hK 3 [.str "a"] 2 := .step (n := .dict [(.obj 0, 0), (.str "a", 2)]) rfl (by decide) .nil
example : get hK 3 ([] ++ .obj 0 :: []) = .ok 0 := rfl
example : (setPath false false hK 3 ([] ++ .obj 0 :: []) 1).2 = .ok 4 := rfl
example : Diverge ([] ++ PKey.obj 0 :: []) [.str "a", .str "b"] :=
  .here rfl (by intro i h; cases h) (Or.inl rfl) (by intro i h; cases h) (by decide)

end MlModel.C18
