import MlModel.Lemmas.PrefetchClient
/-!
# C15 — "a generator failure is delivered as that exception": for EVERY exception value

The LTS theorems (`C15_failure`, `C15_failure_run`, `Properties/C15.lean`) carry the generator's failure as an error
KIND (`Item.fail` is the queue model's `ErrKind.value`): they say that the marker reaches the client after exactly the
elements produced before it, under every schedule.  What the client then DOES with the marker depends, in the code, on
the marker's VALUE: `CourierClient.async_iterate` (courier_utils.py:757-779) tests `isinstance(elem, Exception)`,
`is_stop_iteration(elem)` and `elem != ValueError('generator already executing')`.  `Model/PrefetchClient.lean` models
that reading line by line over concrete values; the theorems here quantify over EVERY exception instance (class and
arguments), every list of elements, every batch size and every way the server may cut the stream into replies.
The seeded change C15-m4 (the third test compares type and args) is the instance `neByValue`, for which
`C15_failure_any_exception` is false (`Witness/C15Values.lean`).
-/
namespace MlModel.C15
open MlModel.PrefetchClient

/-- **Every exception marker is read the same way**: whatever its class and arguments, an exception instance that is
not a `StopIteration` is raised — nothing is swallowed, nothing else changes. -/
theorem C15_client_marker_uniform (e : Exc) (he : e.cls ≠ .stopIteration) (st : Client) (hr : st.raised = none) :
    stepElem pyNe st (.exc e) = { st with raised := some e } := by
  simp [stepElem, hr, he, pyNe]

/-- **A generator failure is delivered as that exception after the elements produced before it — whatever the
exception value**: the generator yields the (non-exception) elements `xs` and then raises `e` (any class other than
`StopIteration`, which is not a failure but the end; any arguments — `ValueError('generator already executing')`,
the `TimeoutError`s the server itself uses, …); however the server cuts `xs ++ [marker]` into replies (`bs`: any
batch size, marker attached or alone, empty replies), the client loop ends having yielded exactly `xs`, raised exactly
`e`, and put nothing on the result queue. -/
theorem C15_failure_any_exception (e : Exc) (he : e.cls ≠ .stopIteration) (xs : List Val)
    (hp : ∀ v ∈ xs, v.isPlain = true) (bs : List (List Val))
    (hsplit : bs.flatten = xs ++ [.exc (serverMarker (.raise e))]) :
    runClient pyNe {} bs = { yielded := xs, returned := [], exhausted := false, raised := some e } := by
  have hm : serverMarker (.raise e) = e := by simp [serverMarker, he]
  rw [hm] at hsplit
  rw [run_marker pyNe e (fun st hr => by rw [C15_client_marker_uniform e he st hr]; simp [Client.live])
    bs xs {} rfl hp hsplit, C15_client_marker_uniform e he _ rfl]
  rfl

/-- **The end marker carries the return value, whatever it is**: the generator yields `xs` and ends with
`StopIteration(*args)` (`return v`: `args = [v]`; also when `v` is `None`, falsy, or itself an exception instance):
for every split into replies the client yields exactly `xs`, ends normally and puts exactly `StopIteration.value` —
the first argument, `None` without arguments — on the result queue, once. -/
theorem C15_faithful_any_return (args : List String) (xs : List Val) (hp : ∀ v ∈ xs, v.isPlain = true)
    (bs : List (List Val)) (hsplit : bs.flatten = xs ++ [.exc (serverMarker (.ret args))]) :
    runClient pyNe {} bs = { yielded := xs, returned := [args.head?], exhausted := true, raised := none } := by
  have hstep : ∀ st : Client, st.raised = none → stepElem pyNe st (.exc (serverMarker (.ret args))) =
      { st with exhausted := true, returned := st.returned ++ [args.head?] } := by
    intro st hr; simp [stepElem, hr, serverMarker]
  rw [run_marker pyNe _ (fun st hr => by rw [hstep st hr]; simp [Client.live]) bs xs {} rfl hp hsplit, hstep _ rfl]
  rfl

/-- an iterator whose `__next__` raises a `StopIteration` INSTANCE has ended (iter_utils.py:835): same as a return -/
theorem C15_raise_stop_is_return (e : Exc) (he : e.cls = .stopIteration) :
    serverMarker (.raise e) = serverMarker (.ret e.args) := by
  simp [serverMarker, he]

/-- **The replies of the server** (`get_batch(b, block=True, keep_partial=True)` + the marker logic of `_next_batch`;
`replies` is what the driver runs against the real client): for every batch size, every scheduling of the terminal
marker and every generator, concatenated they are the generator's elements followed by exactly one marker. -/
theorem C15_replies_split (b : Nat) (attach : Bool) (ys : List Val) (fin : Fin) :
    (replies b attach ys fin).flatten = ys ++ [.exc (serverMarker fin)] :=
  replies_flatten b attach ys fin

/-- **Delivery at value level, end to end** (every batch size, both schedulings of the marker): a generator of
non-exception elements `ys` that fails with ANY exception `e` is seen by the client as exactly `ys` then `e`; one that
returns is seen as exactly `ys` and its return value. -/
theorem C15_delivery_any_values (b : Nat) (attach : Bool) (ys : List Val) (hp : ∀ v ∈ ys, v.isPlain = true) :
    (∀ e : Exc, e.cls ≠ .stopIteration →
      runClient pyNe {} (replies b attach ys (.raise e)) =
        { yielded := ys, returned := [], exhausted := false, raised := some e }) ∧
    (∀ args : List String,
      runClient pyNe {} (replies b attach ys (.ret args)) =
        { yielded := ys, returned := [args.head?], exhausted := true, raised := none }) :=
  ⟨fun e he => C15_failure_any_exception e he ys hp _ (replies_flatten b attach ys (.raise e)),
   fun args => C15_faithful_any_return args ys hp _ (replies_flatten b attach ys (.ret args))⟩

/-! ### Non-vacuity (tests of the definitions) -/

/-- the literal of courier_utils.py:778 as the generator's own failure, three elements, batch size 2 -/
example : runClient pyNe {} (replies 2 true [.plain "1", .plain "2", .plain "3"]
      (.raise ⟨.other "ValueError", [gaeArg]⟩)) =
    { yielded := [.plain "1", .plain "2", .plain "3"], returned := [], exhausted := false,
      raised := some ⟨.other "ValueError", [gaeArg]⟩ } := by decide

example : (replies 2 true [.plain "1", .plain "2", .plain "3"] (.raise ⟨.other "ValueError", [gaeArg]⟩)).flatten =
    [.plain "1", .plain "2", .plain "3"] ++ [.exc (serverMarker (.raise ⟨.other "ValueError", [gaeArg]⟩))] := by decide

example : runClient pyNe {} (replies 3 false [.plain "1", .plain "2", .plain "3"] (.ret ["null"])) =
    { yielded := [.plain "1", .plain "2", .plain "3"], returned := [some "null"], exhausted := true, raised := none } := by
  decide

end MlModel.C15
