import MlModel.Lemmas.PrefetchOne
/-!
# C15 — the prefetching generator protocol delivers the generator faithfully

Model: `Model/Prefetch.lean` (the server handlers `_init_iterator` / `_next_batch` / `_stop_prefetch` /
shutdown, the server's own thread, the prefetch thread and the client loop of
`CourierClient.async_iterate`) on top of the queue LTS `Model/Queue.lean`; one atomic step per
synchronisation operation.  The model is the model of the code **with** the repairs of findings F7
(`get_batch(.., keep_partial=True)`), F25 (`_next_batch` reads `self._generator` once) and F26
(stop-and-install is one critical section).

All theorems quantify over every configuration reachable by **any** schedule (`Reachable` = reflexive
transitive closure of `step` over all scheduler choices), every `prefetch_size`, every requested batch
size (`0` = the default maximum) and every generator (a list of items: values, or a failing `next`).
-/
namespace MlModel.C15
open MlModel.Prefetch
open MlModel.Queue (Elem Item Raise asItems Spsc)

variable {p b : Nat} {g : Gen} {c : Cfg} {tc : Thread}

/-- the values of a list of (tagged) elements -/
def valuesOf (l : List Elem) : List Nat := l.map (·.2)

theorem val_inj : ∀ x y, Item.val x = Item.val y → x = y := fun _ _ h => by cases h; rfl

theorem vals_fail_inj : ∀ (xs ys : List Nat) (r r' : List Item),
    xs.map Item.val ++ Item.fail :: r = ys.map Item.val ++ Item.fail :: r' → xs = ys
  | [], [], _, _, _ => rfl
  | [], y :: ys, _, _, h => by simp at h
  | x :: xs, [], _, _, h => by simp at h
  | x :: xs, y :: ys, r, r', h => by
    simp only [List.map_cons, List.cons_append, List.cons.injEq, Item.val.injEq] at h
    rw [h.1, vals_fail_inj xs ys r r' h.2]

theorem asItems_eq (l : List Elem) : asItems l = (valuesOf l).map Item.val := by
  simp [asItems, valuesOf]

/-- **Faithful prefix** (every schedule, every moment): what the client has yielded so far is exactly an
initial segment of the generator's items, all of them values — in order, each once, nothing invented,
nothing skipped.  (Thread 1 is the client; thread 0 is the server's own thread.) -/
theorem C15_faithful_prefix (h : Reachable (init p [.client g b]) c) (ht : c.ths[1]? = some tc) :
    ∃ tail, g.src = (valuesOf tc.yielded).map Item.val ++ tail := by
  obtain ⟨tm, tc', otp, hths, -, -, -, -, hcore⟩ := rinv_reachable h
  rw [hths] at ht
  simp only [List.getElem?_cons_succ, List.getElem?_cons_zero, Option.some.injEq] at ht
  subst ht
  cases otp with
  | none =>
    obtain ⟨-, -, hy, -⟩ := hcore
    exact ⟨g.src, by simp [hy, valuesOf]⟩
  | some tp =>
    obtain ⟨-, -, -, -, -, q0, -, hsp, -⟩ := hcore
    obtain ⟨tail, ht⟩ := hsp.prefix
    have hd : deliveredOf tc' = tc'.yielded ++ (deliveredOf tc').drop tc'.yielded.length := by
      simp [deliveredOf]
    refine ⟨asItems ((deliveredOf tc').drop tc'.yielded.length) ++ tail, ?_⟩
    rw [ht, ← asItems_eq, ← List.append_assoc]
    congr 1
    conv => lhs; rw [hd]
    simp [asItems]

/-- what the invariant says about a client whose loop has ended -/
theorem client_done (h : Reachable (init p [.client g b]) c) (ht : c.ths[1]? = some tc)
    (hd : tc.pc = .done) :
    tc.outcome.isSome = true ∧ MarkerOK g tc.yielded tc.outcome ∧
    ∃ ini last, tc.replies = ini ++ [last] ∧ (∀ r ∈ ini, r.marker = none) ∧ last.marker = tc.outcome := by
  obtain ⟨tm, tc', otp, hths, -, -, -, -, hcore⟩ := rinv_reachable h
  rw [hths] at ht
  simp only [List.getElem?_cons_succ, List.getElem?_cons_zero, Option.some.injEq] at ht
  subst ht
  cases otp with
  | none =>
    obtain ⟨-, -, -, -, -, hph⟩ := hcore
    rcases hph with ⟨hpc | hpc, -⟩ | ⟨hpc, -⟩ <;> rw [hd] at hpc <;> cases hpc
  | some tp =>
    obtain ⟨-, -, -, -, -, q0, -, -, hcl⟩ := hcore
    unfold ClientC at hcl
    simp only [hd] at hcl
    exact ⟨hcl.2.2.1, hcl.2.2.2.1, hcl.2.2.2.2⟩

/-
FULL STATEMENT (C15_faithful): for every schedule the client's loop ENDS, having yielded exactly the
generator's elements in order, each once, on exactly one end marker carrying the return value.

Proved below (`_partial`): everything except "the loop ends under every schedule" (termination /
deadlock-freedom of the embedded queue LTS — the liveness half of C04 is not yet a Lean theorem).
That part is decided on the real code by the scheduler-driven oracle (a run that cannot continue is
reported with its schedule) and on the model by exhaustive exploration of small configurations.
-/

/-- **Faithful delivery** (safety half): whenever the client's loop has ended on a generator that does
not fail, it has yielded exactly the generator's elements — in order, each once —, the loop ended on a
`StopIteration` marker carrying exactly the generator's return value, and that marker is the only
marker in all the replies the client received (it is the last reply's). -/
theorem C15_faithful_partial {xs : List Nat} (hsrc : g.src = xs.map Item.val)
    (h : Reachable (init p [.client g b]) c) (ht : c.ths[1]? = some tc) (hd : tc.pc = .done) :
    valuesOf tc.yielded = xs ∧ tc.outcome = some (.stop [g.ret]) ∧
    ∃ ini last, tc.replies = ini ++ [last] ∧ (∀ r ∈ ini, r.marker = none) ∧
      last.marker = some (.stop [g.ret]) := by
  obtain ⟨hsome, hm, ini, last, h1, h2, h3⟩ := client_done h ht hd
  have key : valuesOf tc.yielded = xs ∧ tc.outcome = some (.stop [g.ret]) := by
    cases ho : tc.outcome with
    | none => rw [ho] at hsome; cases hsome
    | some m =>
      rw [ho] at hm
      cases m with
      | empty => exact hm.elim
      | stop rets =>
        obtain ⟨hr, hs⟩ := hm
        rw [asItems_eq, hsrc] at hs
        exact ⟨((List.map_inj_right val_inj).mp hs).symm, by rw [hr]⟩
      | err e =>
        obtain ⟨-, rest, hs⟩ := hm
        rw [asItems_eq, hsrc] at hs
        have : Item.fail ∈ xs.map Item.val := by rw [hs]; simp
        simp at this
  exact ⟨key.1, key.2, ini, last, h1, h2, by rw [h3, key.2]⟩

/-
FULL STATEMENT (C15_failure): if the generator raises after `p` elements, for every schedule the
client yields exactly those `p` elements and then raises that exception.  Proved: all of it except that
the loop ends under every schedule (see above).
-/

/-- **Failure delivery** (safety half): if the generator's `next` raises after the values `xs`, then
whenever the client's loop has ended it has yielded exactly `xs` — none of the elements produced before
the failure is lost (finding F7 repaired) — and it ended by raising the generator's exception
(`ValueError` in the model), never on a `StopIteration` marker. -/
theorem C15_failure_partial {xs : List Nat} {rest : List Item} (hsrc : g.src = xs.map Item.val ++ Item.fail :: rest)
    (h : Reachable (init p [.client g b]) c) (ht : c.ths[1]? = some tc) (hd : tc.pc = .done) :
    valuesOf tc.yielded = xs ∧ tc.outcome = some (.err .value) := by
  obtain ⟨hsome, hm, -⟩ := client_done h ht hd
  cases ho : tc.outcome with
  | none => rw [ho] at hsome; cases hsome
  | some m =>
    rw [ho] at hm
    cases m with
    | empty => exact hm.elim
    | stop rets =>
      obtain ⟨-, hs⟩ := hm
      rw [asItems_eq, hsrc] at hs
      have : Item.fail ∈ (valuesOf tc.yielded).map Item.val := by rw [← hs]; simp
      simp at this
    | err e =>
      obtain ⟨he, rest', hs⟩ := hm
      rw [asItems_eq, hsrc] at hs
      exact ⟨(vals_fail_inj _ _ _ _ hs).symm, by rw [he]⟩

end MlModel.C15
