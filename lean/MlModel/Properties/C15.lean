import MlModel.Lemmas.PrefetchReplay
import MlModel.Lemmas.PrefetchGen
import MlModel.Lemmas.PrefetchLive
import MlModel.Properties.C05
/-!
# C15 — the prefetching generator protocol delivers the generator faithfully

Model: `Model/Prefetch.lean` (the server handlers `_init_iterator` / `_next_batch` / `_stop_prefetch` /
shutdown, the server's own thread, the prefetch thread and the client loop of
`CourierClient.async_iterate`) on top of the queue LTS `Model/Queue.lean`; one atomic step per
synchronisation operation.  The model is the model of the code **with** the repairs of findings F7
(`get_batch(.., keep_partial=True)` in `_next_batch`; in the queue model the flag `Shared.keepPartial` of the
server's queue), C15-F25 (`_next_batch` reads `self._generator` once) and C15-F26 (stop-and-install is one
critical section).

All theorems quantify over every configuration reachable by **any** schedule (`Reachable` = reflexive
transitive closure of `step` over all scheduler choices), every `prefetch_size`, every requested batch
size (`0` = the default maximum) and every generator (a list of items: values, or a failing `next`).
-/
namespace MlModel.C15
open MlModel.Prefetch
open MlModel.Queue (Elem Item Raise asItems Spsc)

variable {p b : Nat} {g : Gen} {c : Cfg} {tc : Thread}

/-- **Faithful prefix** (every schedule, every moment): what the client has yielded so far is exactly an
initial segment of the generator's items, all of them values — in order, each once, nothing invented,
nothing skipped.  (Thread 1 is the client; thread 0 is the server's own thread.) -/
theorem C15_faithful_prefix (h : Reachable (init p [.client g b]) c) (ht : c.ths[1]? = some tc) :
    ∃ tail, g.src = (valuesOf tc.yielded).map Item.val ++ tail := by
  obtain ⟨tm, tc', otp, hths, -, -, -, -, hcore⟩ := rinv_reachable h
  rw [hths] at ht
  simp only [List.getElem?_cons_succ, List.getElem?_cons_zero, Option.some.injEq] at ht
  subst ht
  cases otp with
  | none =>
    obtain ⟨-, -, hy, -⟩ := hcore
    exact ⟨g.src, by simp [hy, valuesOf]⟩
  | some tp =>
    obtain ⟨-, -, -, -, -, q0, -, hsp, -⟩ := hcore
    obtain ⟨tail, ht⟩ := hsp.prefix
    have hd : deliveredOf tc' = tc'.yielded ++ (deliveredOf tc').drop tc'.yielded.length := by
      simp [deliveredOf]
    refine ⟨asItems ((deliveredOf tc').drop tc'.yielded.length) ++ tail, ?_⟩
    rw [ht, ← asItems_eq, ← List.append_assoc]
    congr 1
    conv => lhs; rw [hd]
    simp [asItems]

/-
FULL STATEMENT (C15_faithful): for every schedule the client's loop ENDS, having yielded exactly the
generator's elements in order, each once, on exactly one end marker carrying the return value.

Proved below (`_partial`): everything except "the loop ends under every schedule" (termination /
deadlock-freedom of the embedded queue LTS — the liveness half of C04 is not yet a Lean theorem).
That part is decided on the real code by the scheduler-driven oracle (a run that cannot continue is
reported with its schedule) and on the model by exhaustive exploration of small configurations.
-/

/-- **Faithful delivery** (safety half): whenever the client's loop has ended on a generator that does
not fail, it has yielded exactly the generator's elements — in order, each once —, the loop ended on a
`StopIteration` marker carrying exactly the generator's return value, and that marker is the only
marker in all the replies the client received (it is the last reply's). -/
theorem C15_faithful_partial {xs : List Nat} (hsrc : g.src = xs.map Item.val)
    (h : Reachable (init p [.client g b]) c) (ht : c.ths[1]? = some tc) (hd : tc.pc = .done) :
    valuesOf tc.yielded = xs ∧ tc.outcome = some (.stop [g.ret]) ∧
    ∃ ini last, tc.replies = ini ++ [last] ∧ (∀ r ∈ ini, r.marker = none) ∧
      last.marker = some (.stop [g.ret]) := by
  obtain ⟨hsome, hm, ini, last, h1, h2, h3⟩ := client_done h ht hd
  have key : valuesOf tc.yielded = xs ∧ tc.outcome = some (.stop [g.ret]) := by
    cases ho : tc.outcome with
    | none => rw [ho] at hsome; cases hsome
    | some m =>
      rw [ho] at hm
      cases m with
      | empty => exact hm.elim
      | stop rets =>
        obtain ⟨hr, hs⟩ := hm
        rw [asItems_eq, hsrc] at hs
        exact ⟨((List.map_inj_right val_inj).mp hs).symm, by rw [hr]⟩
      | err e =>
        obtain ⟨-, rest, hs⟩ := hm
        rw [asItems_eq, hsrc] at hs
        have : Item.fail ∈ xs.map Item.val := by rw [hs]; simp
        simp at this
  exact ⟨key.1, key.2, ini, last, h1, h2, by rw [h3, key.2]⟩

/-
FULL STATEMENT (C15_failure): if the generator raises after `p` elements, for every schedule the
client yields exactly those `p` elements and then raises that exception.  Proved: all of it except that
the loop ends under every schedule (see above).
-/

/-- **Failure delivery** (safety half): if the generator's `next` raises after the values `xs`, then
whenever the client's loop has ended it has yielded exactly `xs` — none of the elements produced before
the failure is lost (finding F7 repaired) — and it ended by raising the generator's exception
(`ValueError` in the model), never on a `StopIteration` marker. -/
theorem C15_failure_partial {xs : List Nat} {rest : List Item} (hsrc : g.src = xs.map Item.val ++ Item.fail :: rest)
    (h : Reachable (init p [.client g b]) c) (ht : c.ths[1]? = some tc) (hd : tc.pc = .done) :
    valuesOf tc.yielded = xs ∧ tc.outcome = some (.err .value) := by
  obtain ⟨hsome, hm, -⟩ := client_done h ht hd
  cases ho : tc.outcome with
  | none => rw [ho] at hsome; cases hsome
  | some m =>
    rw [ho] at hm
    cases m with
    | empty => exact hm.elim
    | stop rets =>
      obtain ⟨-, hs⟩ := hm
      rw [asItems_eq, hsrc] at hs
      have : Item.fail ∈ (valuesOf tc.yielded).map Item.val := by rw [← hs]; simp
      simp at this
    | err e =>
      obtain ⟨he, rest', hs⟩ := hm
      rw [asItems_eq, hsrc] at hs
      exact ⟨(vals_fail_inj _ _ _ _ hs).symm, by rw [he]⟩

/-! ### Nothing stays blocked: deadlock-freedom of the one-client system

The liveness half.  The queue-level no-lost-wake-up invariant (`C04_no_lost_wakeup`: J1 J2 K1 K2,
`Lemmas/QueueLive*.lean`) is transferred through the embedding (`Lemmas/QueueLiveView.lean`,
`Lemmas/PrefetchLive.lean`): the generator queue with the client's current `get_batch` call and the
prefetch thread's `enqueue_from_iterator` is a `Queue.Cfg` on which `Queue.Live` holds in every reachable
configuration of the server LTS; together with the discipline of the server-level locks this excludes every
configuration in which a thread waits for ever. -/

theorem enabled_nil {c : Cfg} (h : enabled c = []) (tid : Queue.Tid) : step c tid = none := by
  rcases Nat.lt_or_ge tid c.ths.length with hlt | hge
  · cases hs : step c tid with
    | none => rfl
    | some r =>
      exfalso
      have : tid ∈ enabled c := by
        unfold enabled
        rw [List.mem_filter]
        exact ⟨List.mem_range.mpr hlt, by rw [hs]; rfl⟩
      rw [h] at this; cases this
  · exact step_none_of_getElem? (List.getElem?_eq_none hge)

/-- **No deadlock, no request left blocked** (every prefetch size, batch size, generator — failing or
not —, every schedule): a reachable configuration of the one-client system in which NO thread can take a
step is final —
* the client's loop has ended (thread 1 is at `done`),
* the prefetch thread has been started and has ended (thread 2, `enqueue_from_iterator` returned or raised),
* the server's own thread (thread 0) is parked in `run_until_shutdown` waiting for a shutdown request
  (nobody makes one in this configuration; with a `shutdown` request it ends too — see the exploration
  stage of the check).
Equivalently: in every reachable configuration in which the client has not ended, some thread is enabled. -/
theorem C15_no_deadlock (h : Reachable (init p [.client g b]) c) (hdead : enabled c = []) :
    ∃ tm tc tp, c.ths = [tm, tc, tp] ∧ tc.pc = .done ∧ tp.pc = .done ∧
      tm.pc = .mnWake ∧ c.sh.shutNotified.contains 0 = false := by
  obtain ⟨tm, tc, tp, h1, h2, h3, h4, h5⟩ := one_dead (rlinv_reachable h) (enabled_nil hdead)
  exact ⟨tm, tc, tp, h1, h4, h5, h2, h3⟩

/-- the contrapositive, as a progress statement: as long as the client's loop has not ended, some thread
can take a step -/
theorem C15_progress (h : Reachable (init p [.client g b]) c) (ht : c.ths[1]? = some tc) (hnd : tc.pc ≠ .done) :
    enabled c ≠ [] := by
  intro hdead
  obtain ⟨tm, tc', tp, h1, h2, -⟩ := C15_no_deadlock h hdead
  rw [h1] at ht
  simp only [List.getElem?_cons_succ, List.getElem?_cons_zero, Option.some.injEq] at ht
  subst ht
  exact hnd h2

/-- **The no-lost-wake-up invariant of the generator queue inside the server** (every reachable
configuration, every schedule): on the queue-level configuration formed by the generator queue, the client's
current `get_batch` call and the prefetch thread's `enqueue_from_iterator` (`view`), J1 ∧ J2 ∧ K1 ∧ K2 of
C04 hold: a request parked in `get_batch` while the queue is not empty has a notified / active consumer or
a producer owing `notify`; parked after the end of enqueueing it has a pending `notify_all`; a parked prefetch
thread has room coming (a consumer owing `notify cond2`) or a pending `notify_all`. -/
theorem C15_no_lost_wakeup (h : Reachable (init p [.client g b]) c) {q0 : Queue.Shared}
    (hq : c.sh.qs = [q0]) :
    ∃ tm tc otp, c.ths = tm :: tc :: Option.toList otp ∧
      Queue.J1 (view b q0 tc otp) ∧ Queue.J2 (view b q0 tc otp) ∧ Queue.K1 (view b q0 tc otp) ∧
      Queue.K2 (view b q0 tc otp) := by
  obtain ⟨tm, tc, otp, hths, -, -, -, -, -, hL⟩ := rlinv_reachable h
  obtain ⟨hv, -⟩ := hL.live q0 hq
  exact ⟨tm, tc, otp, hths, hv.j1, hv.j2, hv.k1, hv.k2⟩

/-
`C15_faithful` / `C15_failure` (the `_partial` of the two theorems above discharged for every execution
that cannot be extended): in every reachable configuration in which no thread is enabled — i.e. at the end
of EVERY maximal finite execution, whatever the schedule — the client's loop HAS ended, with exactly the
generator's elements and its end marker / its exception.
-/

/-- **Faithful delivery** (safety + deadlock-freedom): every execution that cannot be extended ends with
the client's loop ended, having yielded exactly the generator's elements — in order, each once — on a
`StopIteration` marker carrying exactly the generator's return value, the only marker in all its replies. -/
theorem C15_faithful {xs : List Nat} (hsrc : g.src = xs.map Item.val)
    (h : Reachable (init p [.client g b]) c) (hdead : enabled c = []) :
    ∃ tc, c.ths[1]? = some tc ∧ tc.pc = .done ∧
      valuesOf tc.yielded = xs ∧ tc.outcome = some (.stop [g.ret]) ∧
      ∃ ini last, tc.replies = ini ++ [last] ∧ (∀ r ∈ ini, r.marker = none) ∧
        last.marker = some (.stop [g.ret]) := by
  obtain ⟨tm, tc, tp, h1, h2, -⟩ := C15_no_deadlock h hdead
  have ht : c.ths[1]? = some tc := by rw [h1]; rfl
  exact ⟨tc, ht, h2, C15_faithful_partial hsrc h ht h2⟩

/-- **Failure delivery** (safety + deadlock-freedom): if the generator's `next` raises after the values
`xs`, every execution that cannot be extended ends with the client's loop ended, having yielded exactly `xs`
and raised the generator's exception. -/
theorem C15_failure {xs : List Nat} {rest : List Item} (hsrc : g.src = xs.map Item.val ++ Item.fail :: rest)
    (h : Reachable (init p [.client g b]) c) (hdead : enabled c = []) :
    ∃ tc, c.ths[1]? = some tc ∧ tc.pc = .done ∧ valuesOf tc.yielded = xs ∧ tc.outcome = some (.err .value) := by
  obtain ⟨tm, tc, tp, h1, h2, -⟩ := C15_no_deadlock h hdead
  have ht : c.ths[1]? = some tc := by rw [h1]; rfl
  exact ⟨tc, ht, h2, C15_failure_partial hsrc h ht h2⟩

/-! ### Non-vacuity of the one-client theorems (tests of the definitions)

A schedule taken from a run of the real code (prefetch 1, batch 1 / 2), replayed on the model. -/

def schedOk : List Queue.Tid :=
  [1, 1, 1, 1, 1, 1, 1, 1, 1, 1, 1, 1, 1, 2, 2, 2, 2, 2, 2, 2, 2, 2, 2, 2, 2, 1, 1, 1, 1, 1, 1, 1, 1, 1, 1, 1, 1,
   1, 1, 1, 1, 1, 2, 2, 2, 2, 2, 2, 2, 2, 1, 1, 1, 1, 1, 1, 1, 1, 2, 2, 2, 2, 2, 2, 2, 0, 0, 0]

def schedFail : List Queue.Tid :=
  [1, 1, 1, 1, 1, 1, 1, 1, 1, 1, 1, 1, 1, 2, 2, 2, 2, 2, 2, 2, 2, 2, 2, 2, 2, 1, 1, 1, 1, 1, 1, 1, 1, 1, 1, 1, 1,
   1, 1, 1, 2, 2, 2, 2, 2, 2, 2, 2, 1, 1, 1, 1, 1, 1, 1, 1, 1, 1, 1, 2, 2, 2, 2, 2, 2, 2, 0, 0, 0]

/-- a client really reaches `done` on the generator `[7]` returning 900: the hypotheses of
`C15_faithful_partial` are met by a reachable configuration, with the outcome the theorem states -/
example : ∃ c, Reachable (init 1 [.client ⟨[.val 7], 900⟩ 1]) c ∧
    obs c 1 = some (true, [7], some (.stop [900])) :=
  ⟨_, reachable_replay (init 1 [.client ⟨[.val 7], 900⟩ 1]) schedOk (by decide), by decide⟩

/-- … and on the generator that yields 7 and then raises, with batch size 2 (the F7 situation: the
failure is met while the batch holds an element) -/
example : ∃ c, Reachable (init 1 [.client ⟨[.val 7, .fail], 900⟩ 2]) c ∧
    obs c 1 = some (true, [7], some (.err .value)) :=
  ⟨_, reachable_replay (init 1 [.client ⟨[.val 7, .fail], 900⟩ 2]) schedFail (by decide), by decide⟩

/-- the hypotheses of `C15_no_deadlock` / `C15_faithful` are met: after that schedule no thread is enabled
(the server thread is parked in `run_until_shutdown`), and the client has ended as the theorem says -/
example : ∃ c, Reachable (init 1 [.client ⟨[.val 7], 900⟩ 1]) c ∧ enabled c = [] ∧
    c.ths.map (·.pc) = [.mnWake, .done, .done] ∧ obs c 1 = some (true, [7], some (.stop [900])) :=
  ⟨_, reachable_replay (init 1 [.client ⟨[.val 7], 900⟩ 1]) schedOk (by decide), by decide, by decide, by decide⟩

/-- … and for the failing generator -/
example : ∃ c, Reachable (init 1 [.client ⟨[.val 7, .fail], 900⟩ 2]) c ∧ enabled c = [] ∧
    obs c 1 = some (true, [7], some (.err .value)) :=
  ⟨_, reachable_replay (init 1 [.client ⟨[.val 7, .fail], 900⟩ 2]) schedFail (by decide), by decide, by decide⟩

/-- a reachable configuration in which the client is parked inside `get_batch` (`bWake`, the prefetch thread
has not run yet): `C15_progress` applies — a thread is enabled (the prefetch thread and the server thread) -/
example : ∃ c, Reachable (init 1 [.client ⟨[.val 7], 900⟩ 1]) c ∧
    c.ths.map (·.qt.pc) = [.done, .bWake, .sAcq] ∧ enabled c = [0, 2] :=
  ⟨_, reachable_replay (init 1 [.client ⟨[.val 7], 900⟩ 1]) (List.replicate 13 1) (by decide), by decide, by decide⟩

/-! ### Re-initialisation, stop and shutdown with arbitrary concurrent requests -/

/-
FULL STATEMENT (C15_reinit): `_init_iterator` / shutdown during an active generator stops the old
prefetch thread (it reaches its final pc), no handler stays blocked, and no batch answered after the
switch contains elements of the old generator mixed with the new one's.

Proved: the mixing clause at full strength for every reachable configuration of ANY set of concurrent
request threads (`C15_reinit_no_mixing`); for the stop clause the two step-level facts that carry it —
the new generator is installed only after the join with the old prefetch thread, which is enabled only
when that thread is at its final pc (`C15_reinit_stop_joins`), and the stop's `notify_all` releases every
request parked on the old queue (`C15_reinit_stop_wakes`).  Not proved in Lean: that an old generator
whose stop is skipped because it is already `exhausted` has a prefetch thread past its last `put`
(it is inside `_stop_enqueue`), and "no handler stays blocked for ever" (liveness).  Both are decided on
the real code by the scheduler-driven oracle (any thread left blocked is reported with its schedule)
and on the model by exhaustive exploration of small configurations.
-/

/-- **No mixing** (every schedule, any number of concurrent clients and init / next / stop / shutdown
requests): all elements of every reply ever answered were enqueued by a prefetch thread of the ONE
queue the request read from `self._generator` at its start — a reply never contains elements of two
generators, whatever re-initialisations, stops or shutdowns happen while the request is in flight. -/
theorem C15_reinit_no_mixing {progs : List Prog} (hreq : Requests progs)
    (h : Reachable (init p progs) c) {tid : Queue.Tid} {t : Thread} (ht : c.ths[tid]? = some t)
    {r : Reply} (hr : r ∈ t.replies) {k : Nat} (hk : r.g = some k) :
    ∀ e ∈ r.elems, ∃ tp, c.ths[e.1]? = some tp ∧ tp.prog = .producer k :=
  ((ginv_reachable hreq h).ths tid t ht).replies r hr k hk

/-- the same for everything that was ever put into the k-th queue, and the queue is FIFO -/
theorem C15_queue_provenance {progs : List Prog} (hreq : Requests progs)
    (h : Reachable (init p progs) c) {k : Nat} {q : Queue.Shared} (hq : c.sh.qs[k]? = some q) :
    q.produced = q.dequeued ++ q.q ∧ ∀ e ∈ q.produced, ∃ tp, c.ths[e.1]? = some tp ∧ tp.prog = .producer k :=
  ⟨((ginv_reachable hreq h).qs k q hq).fifo, ((ginv_reachable hreq h).qs k q hq).tags⟩

/-- **A stop joins the old prefetch thread**: the step that follows `maybe_stop` in a locked stop — after
which `_init_iterator` installs the new generator, resp. `_stop_prefetch` / shutdown return — is enabled
only when the thread recorded in `_enqueue_thread` has reached its final program point. -/
theorem C15_reinit_stop_joins {tid : Queue.Tid} {t : Thread} {lbl : String} {c' : Cfg}
    (ht : c.ths[tid]? = some t) (hpc : t.pc = .lkJoin) (hs : step c tid = some (lbl, c')) :
    ∃ pt tp, c.sh.enqThread = some pt ∧ c.ths[pt]? = some tp ∧ tp.pc = .done := by
  unfold step at hs
  simp only [ht, hpc] at hs
  cases he : c.sh.enqThread with
  | none => simp [he] at hs
  | some pt =>
    simp only [he] at hs
    cases hp : c.ths[pt]? with
    | none => simp [hp] at hs
    | some tp =>
      simp only [hp] at hs
      split at hs
      · simp at hs
      · rename_i hne
        exact ⟨pt, tp, rfl, hp, by simpa using hne⟩

/-- **A stop releases the requests parked on the old queue**: the `notify_all` of the stop's `maybe_stop`
moves every request parked in `get_batch` on that queue to the notified set (they then meet the
exhausted queue and answer with the stop's exception as end marker). -/
theorem C15_reinit_stop_wakes {tid : Queue.Tid} {t : Thread} {lbl : String} {c' : Cfg} {q : Queue.Shared}
    (ht : c.ths[tid]? = some t) (hpc : t.pc = .lkStop) (hqt : t.qt.pc = .mD1)
    (hq : c.sh.qs[t.g]? = some q) (hs : step c tid = some (lbl, c')) :
    ∃ q', c'.sh.qs[t.g]? = some q' ∧ q'.deqWait = [] ∧ q'.deqNotified = q.deqNotified ++ q.deqWait := by
  have hlt : t.g < c.sh.qs.length := by
    rcases List.getElem?_eq_some_iff.mp hq with ⟨h, _⟩; exact h
  unfold step at hs
  simp only [ht, hpc, hq] at hs
  cases hst : Queue.stepThread q t.qt tid false with
  | none => simp [hst] at hs
  | some res =>
    obtain ⟨lbl0, q', qt'⟩ := res
    simp only [hst] at hs
    obtain ⟨h1, h2⟩ := MlModel.C05.C05_stop_unblocks_consumers hqt hst
    refine ⟨q', ?_, h1, h2⟩
    (repeat' split at hs) <;> simp only [Option.some.injEq, Prod.mk.injEq] at hs <;> obtain ⟨-, rfl⟩ := hs <;>
      simp [setTh, afterStop, install, List.getElem?_set_self hlt, List.getElem?_append_left, hlt] <;>
      (repeat' split) <;> simp [List.getElem?_set_self hlt, List.getElem?_append_left, hlt]

end MlModel.C15
