import MlModel.Lemmas.PrefetchReplay
import MlModel.Lemmas.PrefetchGen
import MlModel.Lemmas.PrefetchLive
import MlModel.Lemmas.PrefetchVariant
import MlModel.Properties.C05
/-!
# C15 — the prefetching generator protocol delivers the generator faithfully

Model: `Model/Prefetch.lean` (the server handlers `_init_iterator` / `_next_batch` / `_stop_prefetch` /
shutdown, the server's own thread, the prefetch thread and the client loop of
`CourierClient.async_iterate`) on top of the queue LTS `Model/Queue.lean`; one atomic step per
synchronisation operation.  The model is the model of the code **with** the repairs of findings F7
(`get_batch(.., keep_partial=True)` in `_next_batch`; in the queue model the flag `Shared.keepPartial` of the
server's queue), C15-F25 (`_next_batch` reads `self._generator` once) and C15-F26 (stop-and-install is one
critical section).

All theorems quantify over every configuration reachable by **any** schedule (`Reachable` = reflexive
transitive closure of `step` over all scheduler choices), every `prefetch_size`, every requested batch
size (`0` = the default maximum) and every generator (a list of items: values, or a failing `next`).
-/
namespace MlModel.C15
open MlModel.Prefetch
open MlModel.Queue (Elem Item Raise asItems Spsc)

variable {p b : Nat} {g : Gen} {c : Cfg} {tc : Thread}

/-- **Faithful prefix** (every schedule, every moment): what the client has yielded so far is exactly an
initial segment of the generator's items, all of them values — in order, each once, nothing invented,
nothing skipped.  (Thread 1 is the client; thread 0 is the server's own thread.) -/
theorem C15_faithful_prefix (h : Reachable (init p [.client g b]) c) (ht : c.ths[1]? = some tc) :
    ∃ tail, g.src = (valuesOf tc.yielded).map Item.val ++ tail := by
  obtain ⟨tm, tc', otp, hths, -, -, -, -, hcore⟩ := rinv_reachable h
  rw [hths] at ht
  simp only [List.getElem?_cons_succ, List.getElem?_cons_zero, Option.some.injEq] at ht
  subst ht
  cases otp with
  | none =>
    obtain ⟨-, -, hy, -⟩ := hcore
    exact ⟨g.src, by simp [hy, valuesOf]⟩
  | some tp =>
    obtain ⟨-, -, -, -, -, q0, -, hsp, -⟩ := hcore
    obtain ⟨tail, ht⟩ := hsp.prefix
    have hd : deliveredOf tc' = tc'.yielded ++ (deliveredOf tc').drop tc'.yielded.length := by
      simp [deliveredOf]
    refine ⟨asItems ((deliveredOf tc').drop tc'.yielded.length) ++ tail, ?_⟩
    rw [ht, ← asItems_eq, ← List.append_assoc]
    congr 1
    conv => lhs; rw [hd]
    simp [asItems]

/-
FULL STATEMENT (C15_faithful): for every schedule the client's loop ENDS, having yielded exactly the
generator's elements in order, each once, on exactly one end marker carrying the return value.

Proved: the safety half below (`C15_faithful_partial`), and — further down — the liveness half:
`C15_no_deadlock` (an execution that cannot be extended has the client's loop ended), `C15_terminates` (no
execution is infinite), hence the full statement `C15_faithful` / `C15_faithful_run`.
(The real code is additionally driven by the scheduler — a run that cannot continue is reported with its
schedule — and small configurations of the model are explored exhaustively.)
-/

/-- **Faithful delivery** (safety half): whenever the client's loop has ended on a generator that does
not fail, it has yielded exactly the generator's elements — in order, each once —, the loop ended on a
`StopIteration` marker carrying exactly the generator's return value, and that marker is the only
marker in all the replies the client received (it is the last reply's). -/
theorem C15_faithful_partial {xs : List Nat} (hsrc : g.src = xs.map Item.val)
    (h : Reachable (init p [.client g b]) c) (ht : c.ths[1]? = some tc) (hd : tc.pc = .done) :
    valuesOf tc.yielded = xs ∧ tc.outcome = some (.stop [g.ret]) ∧
    ∃ ini last, tc.replies = ini ++ [last] ∧ (∀ r ∈ ini, r.marker = none) ∧
      last.marker = some (.stop [g.ret]) := by
  obtain ⟨hsome, hm, ini, last, h1, h2, h3⟩ := client_done h ht hd
  have key : valuesOf tc.yielded = xs ∧ tc.outcome = some (.stop [g.ret]) := by
    cases ho : tc.outcome with
    | none => rw [ho] at hsome; cases hsome
    | some m =>
      rw [ho] at hm
      cases m with
      | empty => exact hm.elim
      | stop rets =>
        obtain ⟨hr, hs⟩ := hm
        rw [asItems_eq, hsrc] at hs
        exact ⟨((List.map_inj_right val_inj).mp hs).symm, by rw [hr]⟩
      | err e =>
        obtain ⟨-, rest, hs⟩ := hm
        rw [asItems_eq, hsrc] at hs
        have : Item.fail ∈ xs.map Item.val := by rw [hs]; simp
        simp at this
  exact ⟨key.1, key.2, ini, last, h1, h2, by rw [h3, key.2]⟩

/-
FULL STATEMENT (C15_failure): if the generator raises after `p` elements, for every schedule the
client yields exactly those `p` elements and then raises that exception.  Proved: the safety half below
(`C15_failure_partial`) and the liveness half (`C15_no_deadlock`, `C15_terminates`), hence the full statement
`C15_failure` / `C15_failure_run`.
-/

/-- **Failure delivery** (safety half): if the generator's `next` raises after the values `xs`, then
whenever the client's loop has ended it has yielded exactly `xs` — none of the elements produced before
the failure is lost (finding F7 repaired) — and it ended by raising the generator's exception
(`ValueError` in the model), never on a `StopIteration` marker. -/
theorem C15_failure_partial {xs : List Nat} {rest : List Item} (hsrc : g.src = xs.map Item.val ++ Item.fail :: rest)
    (h : Reachable (init p [.client g b]) c) (ht : c.ths[1]? = some tc) (hd : tc.pc = .done) :
    valuesOf tc.yielded = xs ∧ tc.outcome = some (.err .value) := by
  obtain ⟨hsome, hm, -⟩ := client_done h ht hd
  cases ho : tc.outcome with
  | none => rw [ho] at hsome; cases hsome
  | some m =>
    rw [ho] at hm
    cases m with
    | empty => exact hm.elim
    | stop rets =>
      obtain ⟨-, hs⟩ := hm
      rw [asItems_eq, hsrc] at hs
      have : Item.fail ∈ (valuesOf tc.yielded).map Item.val := by rw [← hs]; simp
      simp at this
    | err e =>
      obtain ⟨he, rest', hs⟩ := hm
      rw [asItems_eq, hsrc] at hs
      exact ⟨(vals_fail_inj _ _ _ _ hs).symm, by rw [he]⟩

/-! ### Nothing stays blocked: deadlock-freedom of the one-client system

The liveness half.  The queue-level no-lost-wake-up invariant (`C04_no_lost_wakeup`: J1 J2 K1 K2,
`Lemmas/QueueLive*.lean`) is transferred through the embedding (`Lemmas/QueueLiveView.lean`,
`Lemmas/PrefetchLive.lean`): the generator queue with the client's current `get_batch` call and the
prefetch thread's `enqueue_from_iterator` is a `Queue.Cfg` on which `Queue.Live` holds in every reachable
configuration of the server LTS; together with the discipline of the server-level locks this excludes every
configuration in which a thread waits for ever. -/

/-- **No deadlock, no request left blocked** (every prefetch size, batch size, generator — failing or
not —, every schedule): a reachable configuration of the one-client system in which NO thread can take a
step is final —
* the client's loop has ended (thread 1 is at `done`),
* the prefetch thread has been started and has ended (thread 2, `enqueue_from_iterator` returned or raised),
* the server's own thread (thread 0) is parked in `run_until_shutdown` waiting for a shutdown request
  (nobody makes one in this configuration; with a `shutdown` request it ends too — see the exploration
  stage of the check).
Equivalently: in every reachable configuration in which the client has not ended, some thread is enabled. -/
theorem C15_no_deadlock (h : Reachable (init p [.client g b]) c) (hdead : enabled c = []) :
    ∃ tm tc tp, c.ths = [tm, tc, tp] ∧ tc.pc = .done ∧ tp.pc = .done ∧
      tm.pc = .mnWake ∧ c.sh.shutNotified.contains 0 = false := by
  obtain ⟨tm, tc, tp, h1, h2, h3, h4, h5⟩ := one_dead (rlinv_reachable h) (enabled_nil hdead)
  exact ⟨tm, tc, tp, h1, h4, h5, h2, h3⟩

/-- the contrapositive, as a progress statement: as long as the client's loop has not ended, some thread
can take a step -/
theorem C15_progress (h : Reachable (init p [.client g b]) c) (ht : c.ths[1]? = some tc) (hnd : tc.pc ≠ .done) :
    enabled c ≠ [] := by
  intro hdead
  obtain ⟨tm, tc', tp, h1, h2, -⟩ := C15_no_deadlock h hdead
  rw [h1] at ht
  simp only [List.getElem?_cons_succ, List.getElem?_cons_zero, Option.some.injEq] at ht
  subst ht
  exact hnd h2

/-- **The no-lost-wake-up invariant of the generator queue inside the server** (every reachable
configuration, every schedule): on the queue-level configuration formed by the generator queue, the client's
current `get_batch` call and the prefetch thread's `enqueue_from_iterator` (`view`), J1 ∧ J2 ∧ K1 ∧ K2 of
C04 hold: a request parked in `get_batch` while the queue is not empty has a notified / active consumer or
a producer owing `notify`; parked after the end of enqueueing it has a pending `notify_all`; a parked prefetch
thread has room coming (a consumer owing `notify cond2`) or a pending `notify_all`. -/
theorem C15_no_lost_wakeup (h : Reachable (init p [.client g b]) c) {q0 : Queue.Shared}
    (hq : c.sh.qs = [q0]) :
    ∃ tm tc otp, c.ths = tm :: tc :: Option.toList otp ∧
      Queue.J1 (view b q0 tc otp) ∧ Queue.J2 (view b q0 tc otp) ∧ Queue.K1 (view b q0 tc otp) ∧
      Queue.K2 (view b q0 tc otp) := by
  obtain ⟨tm, tc, otp, hths, -, -, -, -, -, hL⟩ := rlinv_reachable h
  obtain ⟨hv, -⟩ := hL.live q0 hq
  exact ⟨tm, tc, otp, hths, hv.j1, hv.j2, hv.k1, hv.k2⟩

/-! ### Termination: a measure that decreases on every step -/

/-- **Variant** (every prefetch size, batch size, generator, every schedule): `termMeasure b c` — the pair
(one-time events still to come, 3 · `Queue.Phi` of the queue-level view + the reply's way back + the server
thread's way to its next wait; `Lemmas/PrefetchVariant.lean`) in lexicographic order — strictly decreases on
**every** step of **every** thread of the one-client system.  The queue part is `C04_variant`'s measure,
transferred through the embedding. -/
theorem C15_variant (h : Reachable (init p [.client g b]) c) {tid : Queue.Tid} {lbl : String} {c' : Cfg}
    (hs : step c tid = some (lbl, c')) : MLt (termMeasure b c') (termMeasure b c) :=
  (var_step (rlinv_reachable h) (vxc_reachable h) hs).2

/-- the order of the variant is well-founded (lexicographic order on ℕ × ℕ) -/
theorem C15_variant_wf : WellFounded MLt := mlt_wf

/-- **No infinite execution**: there is no infinite sequence of steps from a reachable configuration —
whatever the scheduler does, without any fairness assumption.  With `C15_no_deadlock`: EVERY schedule of the
one-client system, continued as long as some thread is enabled, stops after finitely many steps in a
configuration in which the client's loop and the prefetch thread have ended. -/
theorem C15_terminates {f : Nat → Cfg} (h0 : Reachable (init p [.client g b]) (f 0)) : ¬ IsRun f :=
  fun hrun => no_infinite_run h0 hrun

/-
`C15_faithful` / `C15_failure`: the `_partial` of the two safety theorems above is discharged.
"For every schedule the client's loop ENDS, having yielded exactly …" = (a) no execution is infinite
(`C15_terminates`: a lexicographic measure decreases on every step), (b) an execution that cannot be
extended has the client's loop ended (`C15_no_deadlock`), (c) an ended loop has yielded exactly the
generator (`C15_faithful_partial` / `C15_failure_partial`).  The two theorems below are (b) + (c) for every
reachable configuration without enabled step, i.e. for the last configuration of EVERY maximal execution;
`C15_faithful_run` packages (a) + (b) + (c) for an arbitrary scheduler.
-/

/-- **Faithful delivery** (safety + deadlock-freedom): every execution that cannot be extended ends with
the client's loop ended, having yielded exactly the generator's elements — in order, each once — on a
`StopIteration` marker carrying exactly the generator's return value, the only marker in all its replies. -/
theorem C15_faithful {xs : List Nat} (hsrc : g.src = xs.map Item.val)
    (h : Reachable (init p [.client g b]) c) (hdead : enabled c = []) :
    ∃ tc, c.ths[1]? = some tc ∧ tc.pc = .done ∧
      valuesOf tc.yielded = xs ∧ tc.outcome = some (.stop [g.ret]) ∧
      ∃ ini last, tc.replies = ini ++ [last] ∧ (∀ r ∈ ini, r.marker = none) ∧
        last.marker = some (.stop [g.ret]) := by
  obtain ⟨tm, tc, tp, h1, h2, -⟩ := C15_no_deadlock h hdead
  have ht : c.ths[1]? = some tc := by rw [h1]; rfl
  exact ⟨tc, ht, h2, C15_faithful_partial hsrc h ht h2⟩

/-- **Failure delivery** (safety + deadlock-freedom): if the generator's `next` raises after the values
`xs`, every execution that cannot be extended ends with the client's loop ended, having yielded exactly `xs`
and raised the generator's exception. -/
theorem C15_failure {xs : List Nat} {rest : List Item} (hsrc : g.src = xs.map Item.val ++ Item.fail :: rest)
    (h : Reachable (init p [.client g b]) c) (hdead : enabled c = []) :
    ∃ tc, c.ths[1]? = some tc ∧ tc.pc = .done ∧ valuesOf tc.yielded = xs ∧ tc.outcome = some (.err .value) := by
  obtain ⟨tm, tc, tp, h1, h2, -⟩ := C15_no_deadlock h hdead
  have ht : c.ths[1]? = some tc := by rw [h1]; rfl
  exact ⟨tc, ht, h2, C15_failure_partial hsrc h ht h2⟩

/-- **Every schedule ends**: let `f` be ANY sequence of configurations starting at the initial one that
follows the LTS as long as some thread is enabled (the scheduler's choices; what `f` does once nothing is
enabled is irrelevant).  Then there is a moment `n` at which NO thread is enabled any more — the execution
is finite —, and `f n` is reachable. -/
theorem C15_run_ends {f : Nat → Cfg} (h0 : f 0 = init p [.client g b])
    (hmax : ∀ n, enabled (f n) ≠ [] → ∃ tid lbl, step (f n) tid = some (lbl, f (n + 1))) :
    ∃ n, Reachable (init p [.client g b]) (f n) ∧ enabled (f n) = [] := by
  -- if no such moment existed, `f` would be an infinite execution
  by_cases hex : ∃ n, (∀ k < n, ∃ tid lbl, step (f k) tid = some (lbl, f (k + 1))) ∧ enabled (f n) = []
  · obtain ⟨n, hpre, hdead⟩ := hex
    have hreach : ∀ k ≤ n, Reachable (init p [.client g b]) (f k) := by
      intro k
      induction k with
      | zero => intro _; rw [h0]; exact .init
      | succ k ih =>
        intro hk
        obtain ⟨tid, lbl, hs⟩ := hpre k (by omega)
        exact .step (ih (by omega)) hs
    exact ⟨n, hreach n (Nat.le_refl n), hdead⟩
  · exfalso
    have hall : ∀ n, (∀ k < n, ∃ tid lbl, step (f k) tid = some (lbl, f (k + 1))) ∧ enabled (f n) ≠ [] := by
      intro n
      induction n with
      | zero =>
        refine ⟨fun k hk => absurd hk (Nat.not_lt_zero k), fun hd => hex ⟨0, fun k hk => absurd hk (Nat.not_lt_zero k), hd⟩⟩
      | succ n ih =>
        have hstep : ∀ k < n + 1, ∃ tid lbl, step (f k) tid = some (lbl, f (k + 1)) := by
          intro k hk
          rcases Nat.lt_succ_iff_lt_or_eq.mp hk with h | h
          · exact ih.1 k h
          · subst h; exact hmax k ih.2
        exact ⟨hstep, fun hd => hex ⟨n + 1, hstep, hd⟩⟩
    have hrun : IsRun f := fun n => hmax n (hall n).2
    exact C15_terminates (f := f) (by rw [h0]; exact .init) hrun

/-- **Every schedule delivers the generator faithfully** (liveness + safety in one statement, the FULL
`C15_faithful` of the property text): under every scheduler the execution is finite, and at its end the
client's loop has ended having yielded exactly the generator's elements — in order, each once — on the end
marker carrying exactly its return value. -/
theorem C15_faithful_run {xs : List Nat} (hsrc : g.src = xs.map Item.val) {f : Nat → Cfg}
    (h0 : f 0 = init p [.client g b])
    (hmax : ∀ n, enabled (f n) ≠ [] → ∃ tid lbl, step (f n) tid = some (lbl, f (n + 1))) :
    ∃ n, enabled (f n) = [] ∧
      ∃ tc, (f n).ths[1]? = some tc ∧ tc.pc = .done ∧ valuesOf tc.yielded = xs ∧
        tc.outcome = some (.stop [g.ret]) := by
  obtain ⟨n, hr, hdead⟩ := C15_run_ends h0 hmax
  obtain ⟨tc, h1, h2, h3, h4, -⟩ := C15_faithful hsrc hr hdead
  exact ⟨n, hdead, tc, h1, h2, h3, h4⟩

/-- **Every schedule delivers a generator failure after the elements produced before it** (the FULL
`C15_failure`): under every scheduler the execution is finite, and at its end the client's loop has ended
having yielded exactly the values before the failing `next` and raised that exception. -/
theorem C15_failure_run {xs : List Nat} {rest : List Item} (hsrc : g.src = xs.map Item.val ++ Item.fail :: rest)
    {f : Nat → Cfg} (h0 : f 0 = init p [.client g b])
    (hmax : ∀ n, enabled (f n) ≠ [] → ∃ tid lbl, step (f n) tid = some (lbl, f (n + 1))) :
    ∃ n, enabled (f n) = [] ∧
      ∃ tc, (f n).ths[1]? = some tc ∧ tc.pc = .done ∧ valuesOf tc.yielded = xs ∧
        tc.outcome = some (.err .value) := by
  obtain ⟨n, hr, hdead⟩ := C15_run_ends h0 hmax
  obtain ⟨tc, h1, h2, h3, h4⟩ := C15_failure hsrc hr hdead
  exact ⟨n, hdead, tc, h1, h2, h3, h4⟩

/-! ### Non-vacuity of the one-client theorems (tests of the definitions)

A schedule taken from a run of the real code (prefetch 1, batch 1 / 2), replayed on the model. -/

def schedOk : List Queue.Tid :=
  [1, 1, 1, 1, 1, 1, 1, 1, 1, 1, 1, 1, 1, 2, 2, 2, 2, 2, 2, 2, 2, 2, 2, 2, 2, 1, 1, 1, 1, 1, 1, 1, 1, 1, 1, 1, 1,
   1, 1, 1, 1, 1, 2, 2, 2, 2, 2, 2, 2, 2, 1, 1, 1, 1, 1, 1, 1, 1, 2, 2, 2, 2, 2, 2, 2, 0, 0, 0]

def schedFail : List Queue.Tid :=
  [1, 1, 1, 1, 1, 1, 1, 1, 1, 1, 1, 1, 1, 2, 2, 2, 2, 2, 2, 2, 2, 2, 2, 2, 2, 1, 1, 1, 1, 1, 1, 1, 1, 1, 1, 1, 1,
   1, 1, 1, 2, 2, 2, 2, 2, 2, 2, 2, 1, 1, 1, 1, 1, 1, 1, 1, 1, 1, 1, 2, 2, 2, 2, 2, 2, 2, 0, 0, 0]

/-- a client really reaches `done` on the generator `[7]` returning 900: the hypotheses of
`C15_faithful_partial` are met by a reachable configuration, with the outcome the theorem states -/
example : ∃ c, Reachable (init 1 [.client ⟨[.val 7], 900⟩ 1]) c ∧
    obs c 1 = some (true, [7], some (.stop [900])) :=
  ⟨_, reachable_replay (init 1 [.client ⟨[.val 7], 900⟩ 1]) schedOk (by decide), by decide⟩

/-- … and on the generator that yields 7 and then raises, with batch size 2 (the F7 situation: the
failure is met while the batch holds an element) -/
example : ∃ c, Reachable (init 1 [.client ⟨[.val 7, .fail], 900⟩ 2]) c ∧
    obs c 1 = some (true, [7], some (.err .value)) :=
  ⟨_, reachable_replay (init 1 [.client ⟨[.val 7, .fail], 900⟩ 2]) schedFail (by decide), by decide⟩

/-- the hypotheses of `C15_no_deadlock` / `C15_faithful` are met: after that schedule no thread is enabled
(the server thread is parked in `run_until_shutdown`), and the client has ended as the theorem says -/
example : ∃ c, Reachable (init 1 [.client ⟨[.val 7], 900⟩ 1]) c ∧ enabled c = [] ∧
    c.ths.map (·.pc) = [.mnWake, .done, .done] ∧ obs c 1 = some (true, [7], some (.stop [900])) :=
  ⟨_, reachable_replay (init 1 [.client ⟨[.val 7], 900⟩ 1]) schedOk (by decide), by decide, by decide, by decide⟩

/-- … and for the failing generator -/
example : ∃ c, Reachable (init 1 [.client ⟨[.val 7, .fail], 900⟩ 2]) c ∧ enabled c = [] ∧
    obs c 1 = some (true, [7], some (.err .value)) :=
  ⟨_, reachable_replay (init 1 [.client ⟨[.val 7, .fail], 900⟩ 2]) schedFail (by decide), by decide, by decide⟩

/-- a reachable configuration in which the client is parked inside `get_batch` (`bWake`, the prefetch thread
has not run yet): `C15_progress` applies — a thread is enabled (the prefetch thread and the server thread) -/
example : ∃ c, Reachable (init 1 [.client ⟨[.val 7], 900⟩ 1]) c ∧
    c.ths.map (·.qt.pc) = [.done, .bWake, .sAcq] ∧ enabled c = [0, 2] :=
  ⟨_, reachable_replay (init 1 [.client ⟨[.val 7], 900⟩ 1]) (List.replicate 13 1) (by decide), by decide, by decide⟩

/-- a scheduler (always the enabled thread with the smallest id), to show that the hypotheses of
`C15_run_ends` / `C15_faithful_run` / `C15_failure_run` are satisfiable for every `p`, `g`, `b` -/
def firstFit (c : Cfg) : Cfg :=
  match enabled c with
  | [] => c
  | tid :: _ => match step c tid with | some (_, c') => c' | none => c

def runFF (c0 : Cfg) : Nat → Cfg
  | 0 => c0
  | n + 1 => firstFit (runFF c0 n)

example (c0 : Cfg) : runFF c0 0 = c0 ∧
    ∀ n, enabled (runFF c0 n) ≠ [] → ∃ tid lbl, step (runFF c0 n) tid = some (lbl, runFF c0 (n + 1)) := by
  refine ⟨rfl, fun n hne => ?_⟩
  show ∃ tid lbl, step (runFF c0 n) tid = some (lbl, firstFit (runFF c0 n))
  generalize runFF c0 n = c at hne ⊢
  unfold firstFit
  cases he : enabled c with
  | nil => exact absurd he hne
  | cons tid rest =>
    have hm : tid ∈ enabled c := by rw [he]; exact List.mem_cons_self
    unfold enabled at hm
    rw [List.mem_filter] at hm
    cases hs : step c tid with
    | none => rw [hs] at hm; simp at hm
    | some r =>
      obtain ⟨lbl, c'⟩ := r
      refine ⟨tid, lbl, ?_⟩
      simp only [hs]

/-! ### Re-initialisation, stop and shutdown with arbitrary concurrent requests -/

/-
FULL STATEMENT (C15_reinit): `_init_iterator` / shutdown during an active generator stops the old
prefetch thread (it reaches its final pc), no handler stays blocked, and no batch answered after the
switch contains elements of the old generator mixed with the new one's.

Proved: the mixing clause at full strength for every reachable configuration of ANY set of concurrent
request threads (`C15_reinit_no_mixing`); for the stop clause the two step-level facts that carry it —
the new generator is installed only after the join with the old prefetch thread, which is enabled only
when that thread is at its final pc (`C15_reinit_stop_joins`), and the stop's `notify_all` releases every
request parked on the old queue (`C15_reinit_stop_wakes`).  That an old generator whose stop is skipped
because it is already `exhausted` has a prefetch thread past its last `put` (it is inside `_stop_enqueue`)
is proved in `Properties/C15Multi.lean` (`C15_skipped_stop_producer_past`).  Not proved in Lean at full
strength: "no handler stays blocked for ever" (liveness) with several concurrent requests — the server-level
half is (`C15_multi_dead_shape_partial`), the queue-level half is decided on the real code by the
scheduler-driven oracle (any thread left blocked is reported with its schedule) and on the model by
exhaustive exploration of small configurations.  (For the configuration with ONE client
"no request stays blocked for ever" is a theorem: `C15_no_deadlock`, `C15_terminates` above.)
-/

/-- **No mixing** (every schedule, any number of concurrent clients and init / next / stop / shutdown
requests): all elements of every reply ever answered were enqueued by a prefetch thread of the ONE
queue the request read from `self._generator` at its start — a reply never contains elements of two
generators, whatever re-initialisations, stops or shutdowns happen while the request is in flight. -/
theorem C15_reinit_no_mixing {progs : List Prog} (hreq : Requests progs)
    (h : Reachable (init p progs) c) {tid : Queue.Tid} {t : Thread} (ht : c.ths[tid]? = some t)
    {r : Reply} (hr : r ∈ t.replies) {k : Nat} (hk : r.g = some k) :
    ∀ e ∈ r.elems, ∃ tp, c.ths[e.1]? = some tp ∧ tp.prog = .producer k :=
  ((ginv_reachable hreq h).ths tid t ht).replies r hr k hk

/-- the same for everything that was ever put into the k-th queue, and the queue is FIFO -/
theorem C15_queue_provenance {progs : List Prog} (hreq : Requests progs)
    (h : Reachable (init p progs) c) {k : Nat} {q : Queue.Shared} (hq : c.sh.qs[k]? = some q) :
    q.produced = q.dequeued ++ q.q ∧ ∀ e ∈ q.produced, ∃ tp, c.ths[e.1]? = some tp ∧ tp.prog = .producer k :=
  ⟨((ginv_reachable hreq h).qs k q hq).fifo, ((ginv_reachable hreq h).qs k q hq).tags⟩

/-- **A stop joins the old prefetch thread**: the step that follows `maybe_stop` in a locked stop — after
which `_init_iterator` installs the new generator, resp. `_stop_prefetch` / shutdown return — is enabled
only when the thread recorded in `_enqueue_thread` has reached its final program point. -/
theorem C15_reinit_stop_joins {tid : Queue.Tid} {t : Thread} {lbl : String} {c' : Cfg}
    (ht : c.ths[tid]? = some t) (hpc : t.pc = .lkJoin) (hs : step c tid = some (lbl, c')) :
    ∃ pt tp, c.sh.enqThread = some pt ∧ c.ths[pt]? = some tp ∧ tp.pc = .done := by
  unfold step at hs
  simp only [ht, hpc] at hs
  cases he : c.sh.enqThread with
  | none => simp [he] at hs
  | some pt =>
    simp only [he] at hs
    cases hp : c.ths[pt]? with
    | none => simp [hp] at hs
    | some tp =>
      simp only [hp] at hs
      split at hs
      · simp at hs
      · rename_i hne
        exact ⟨pt, tp, rfl, hp, by simpa using hne⟩

/-- **A stop releases the requests parked on the old queue**: the `notify_all` of the stop's `maybe_stop`
moves every request parked in `get_batch` on that queue to the notified set (they then meet the
exhausted queue and answer with the stop's exception as end marker). -/
theorem C15_reinit_stop_wakes {tid : Queue.Tid} {t : Thread} {lbl : String} {c' : Cfg} {q : Queue.Shared}
    (ht : c.ths[tid]? = some t) (hpc : t.pc = .lkStop) (hqt : t.qt.pc = .mD1)
    (hq : c.sh.qs[t.g]? = some q) (hs : step c tid = some (lbl, c')) :
    ∃ q', c'.sh.qs[t.g]? = some q' ∧ q'.deqWait = [] ∧ q'.deqNotified = q.deqNotified ++ q.deqWait := by
  have hlt : t.g < c.sh.qs.length := by
    rcases List.getElem?_eq_some_iff.mp hq with ⟨h, _⟩; exact h
  unfold step at hs
  simp only [ht, hpc, hq] at hs
  cases hst : Queue.stepThread q t.qt tid false with
  | none => simp [hst] at hs
  | some res =>
    obtain ⟨lbl0, q', qt'⟩ := res
    simp only [hst] at hs
    obtain ⟨h1, h2⟩ := MlModel.C05.C05_stop_unblocks_consumers hqt hst
    refine ⟨q', ?_, h1, h2⟩
    (repeat' split at hs) <;> simp only [Option.some.injEq, Prod.mk.injEq] at hs <;> obtain ⟨-, rfl⟩ := hs <;>
      simp [setTh, afterStop, install, List.getElem?_set_self hlt, List.getElem?_append_left, hlt] <;>
      (repeat' split) <;> simp [List.getElem?_set_self hlt, List.getElem?_append_left, hlt]

end MlModel.C15
