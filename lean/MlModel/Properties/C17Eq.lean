import MlModel.Lemmas.LazyEq
/-!
# C17 — a cached call reached through distinct copies with the same id

"a cached call evaluates once and afterwards returns the identical object … also after a serialisation round
trip" — for calls whose arguments are NOT hashable or whose `==` has no truth value (ndarrays: the common ML case).
Every `pickler.loads` of the same bytes yields a new `LazyFn` object with the same `id` and new argument objects
(`Model/LazyEq.lean`).

* `C17_eq_same_id`: `LazyFn.__eq__` answers `True` for two objects with the same id WITHOUT looking at the
  arguments — whatever they are;
* `C17_cache_lookup_never_raises`, `C17_cache_lookup_by_hash`: probing the result cache never evaluates a comparison
  that can raise: the probe is "the first entry with this hash";
* `C17_cached_same_id_no_compare`: a copy finds exactly the entry the original finds (the identical cached object);
  `C17_cached_copy_hits`: after the call was evaluated once, every copy is a cache HIT on that very object;
* the seeded change C17-m6 (`__eq__` by signature only) raises for copies with an array argument
  (`C17_eq_sig_raises_on_array_copies`, witness on the demo).
-/
namespace MlModel.C17
open MlModel MlModel.LazyEq

/-- **`LazyFn.__eq__` short-circuits on the id**: two `LazyFn` objects with the same id are equal whatever their
arguments — unhashable, ambiguous `==`, different identities, even different values: no argument is compared. -/
theorem C17_eq_same_id (a b : LFn) (h : a.id = b.id) : a.eq b = .true :=
  eq_same_id a b h

/-- in particular for every copy of a call (another `loads` of the same bytes) -/
theorem C17_eq_copy (a b : LFn) (h : IsCopy a b) : a.eq b = .true ∧ b.eq a = .true :=
  ⟨eq_same_id a b h.1.symm, eq_same_id b a h.1⟩

/-- **Probing the result cache never raises**: for every cache contents and every key — hashable or not, ambiguous
`==` or not — the dict probe under the shipped `__eq__` evaluates no comparison that can raise. -/
theorem C17_cache_lookup_never_raises (d : List (LFn × Nat)) (k : LFn) : lookup LFn.eq d k ≠ .error () := by
  rw [lookup_firstHash]; intro h; cases h

/-- …it is exactly "the first entry whose key has the hash of `k`" -/
theorem C17_cache_lookup_by_hash (d : List (LFn × Nat)) (k : LFn) : lookup LFn.eq d k = .ok (firstHash d k.hash) :=
  lookup_firstHash d k

/-- **A copy with the same id finds the identical cached object, no exception**: whatever the cache holds, whatever
the arguments are (ndarrays of any size, lists, `Amb` objects, tuples holding arrays, hashable values) and whatever
objects the copy is made of — the probe with a copy `b` of `a` answers what the probe with `a` answers. -/
theorem C17_cached_same_id_no_compare (d : List (LFn × Nat)) (a b : LFn) (h : IsCopy a b) :
    lookup LFn.eq d b = lookup LFn.eq d a ∧ lookup LFn.eq d b ≠ .error () := by
  refine ⟨?_, C17_cache_lookup_never_raises d b⟩
  rw [lookup_firstHash, lookup_firstHash, hash_copy a b h]

/-- `LruCache.__getitem__` for a copy: same hit / miss, same stored object, same reordering and counters -/
theorem C17_cached_get_copy (c : ECache) (a b : LFn) (h : IsCopy a b) :
    c.get LFn.eq b = c.get LFn.eq a := by
  unfold ECache.get
  rw [(C17_cached_same_id_no_compare c.data a b h).1]

/-- **Evaluated once, afterwards the identical object for every copy.**  From every cache state (bound at least 1):
if materialising the cached call `a` evaluated it (a miss: the new object `v` was stored), then materialising ANY copy
`b` of it — same id, new objects, arguments of any kind — is a cache hit that returns that very object `v`, without
an exception and without evaluating again. -/
theorem C17_cached_copy_hits (s s' : St) (a b : LFn) (v : Nat) (h : IsCopy a b) (hm : 1 ≤ s.cache.maxsize)
    (hstep : step LFn.eq s (.make a) = (.miss v, s')) :
    (step LFn.eq s' (.make b)).1 = .hit v := by
  have hb : b.hash = a.hash := hash_copy a b h
  simp only [step, ECache.get, ECache.set, lookup_firstHash] at hstep
  cases hf : firstHash s.cache.data a.hash with
  | some i =>
    rw [hf] at hstep
    simp only at hstep
    cases hd : s.cache.data[i]? with
    | none =>
      have := firstHash_lt _ _ _ hf
      simp only [List.getElem?_eq_none_iff] at hd
      omega
    | some p => rw [hd] at hstep; simp at hstep
  | none =>
    rw [hf] at hstep
    simp only [hf] at hstep
    obtain ⟨hv, hs'⟩ := Prod.mk.inj hstep
    have hv' : s.fresh = v := by simpa using hv
    subst hs'
    have hnew := firstHash_append_new s.cache.data a s.fresh hf
    simp only [step, ECache.get, lookup_firstHash, hb]
    by_cases hover : (s.cache.data ++ [(a, s.fresh)]).length > s.cache.maxsize
    · simp only [hover, if_true]
      cases hdat : s.cache.data with
      | nil => simp [hdat] at hover; omega
      | cons p rest =>
        rw [hdat] at hnew
        simp only [List.cons_append, List.length_cons] at hnew
        have := firstHash_drop_one p (rest ++ [(a, s.fresh)]) a.hash rest.length hnew
        simp only [List.cons_append, List.drop_succ_cons, List.drop_zero, this]
        simp [hv']
    · simp only [hover, if_false, hnew]
      simp [hv']

/-- **The seeded change C17-m6 raises on copies with an array argument**: `__eq__` by signature only compares the two
array copies with `==`; for every array of two or more elements, whatever follows it, the comparison raises. -/
theorem C17_eq_sig_raises_on_array_copies (a b : LFn) (o1 o2 : Nat) (xs : List Int) (as bs : List Arg)
    (hf : a.fn = b.fn) (ha : a.args = ⟨o1, .arr xs⟩ :: as) (hb : b.args = ⟨o2, .arr xs⟩ :: bs) (ho : o1 ≠ o2)
    (hx : 2 ≤ xs.length) : a.eqSig b = .raises := by
  have h1 : xs.length ≠ 1 := by omega
  have h0 : xs.length ≠ 0 := by omega
  simp [LFn.eqSig, hf, ha, hb, argsEq, Arg.richEq, ho, ArgV.eq, arrEq, h1, h0]

/-! ## Non-vacuity and witnesses (tests, `decide`) -/

/-- `trace(Model)(np.array([1., 2., 3.]), cache_result_=True)` and two `loads` of its bytes -/
def orig : LFn := { oid := 0, id := 7, fn := "Model", args := [⟨1, .arr [1, 2, 3]⟩] }
def copy1 : LFn := { oid := 10, id := 7, fn := "Model", args := [⟨11, .arr [1, 2, 3]⟩] }
def copy2 : LFn := { oid := 20, id := 7, fn := "Model", args := [⟨21, .arr [1, 2, 3]⟩] }

example : IsCopy orig copy1 ∧ IsCopy copy1 copy2 := ⟨⟨rfl, rfl, rfl⟩, ⟨rfl, rfl, rfl⟩⟩
example : orig.hash = .byId 7 := by decide

/-- the demo of `seeded/C17-m6-eq-by-signature-only`: three copies materialised — evaluated once, then the identical
object twice; with `__eq__` by signature the second copy raises -/
theorem C17_eq_sig_witness :
    (run LFn.eq { cache := { maxsize := 128 } } [.make copy1, .make copy2, .make orig]).1 = [.miss 0, .hit 0, .hit 0] ∧
    (run LFn.eqSig { cache := { maxsize := 128 } } [.make copy1, .make copy2, .make orig]).1 =
      [.miss 0, .raised, .raised] ∧
    -- the SAME object keeps hitting by identity under both (what lazy_fns_test checks)
    (run LFn.eqSig { cache := { maxsize := 128 } } [.make copy1, .make copy1]).1 = [.miss 0, .hit 0] := by
  decide

/-- a re-traced call (new id) with an unhashable argument is another call; with hashable arguments it is the same one -/
example : (run LFn.eq { cache := { maxsize := 128 } }
    [.make orig, .make { orig with oid := 30, id := 8 },
     .make { oid := 40, id := 9, fn := "Model", args := [⟨41, .tup [1, 2]⟩] },
     .make { oid := 50, id := 10, fn := "Model", args := [⟨51, .tup [1, 2]⟩] }]).1 =
    [.miss 0, .miss 1, .miss 2, .hit 2] := by decide

end MlModel.C17
