import MlModel.Lemmas.QueueVariant
import MlModel.Properties.C04
/-!
# C04 — iterator queues always terminate (liveness part)

Everything is stated over `Reachable (init cap maxEnq to ig progs) c`: any number of producers,
`get`/`get_batch` consumers (any batch size, blocking or not) and stoppers, any capacity
(0 = unbounded), any schedule.  `WF_enq maxEnq progs`: the number of producers is declared up
front (`max_enqueuer` = number of producer programs, as `piter_multiplex` does).  Without it
`enqueue_done` is not stable — finding F22, `Witness/C04.lean: C04_F22_witness`.

The no-lost-wake-up invariant (`Lemmas/QueueLiveDefs.lean: J1 J2 K1 K2`, found by model checking
small configurations, `Scratch/MC*.lean`, then proved inductive for all configurations):
* J1: a consumer waits (parked, or decided to park) ∧ queue not empty ⇒ a consumer has been
  notified ∨ a consumer is active (it re-checks the queue before it can park) ∨ a producer owes
  `notify cond1` ∨ `enqueue_done`;
* J2: a consumer waits ∧ `enqueue_done` ⇒ some thread owes `notify_all cond1`
  (`_stop_enqueue`, `maybe_stop`, `_set_exhausted`);
* K1: a producer waits ⇒ queue not empty ∨ a producer has been notified ∨ a consumer owes
  `notify cond2` ∨ a producer is about to put ∨ `enqueue_done`;
* K2: a producer waits ∧ `enqueue_done` ⇒ some thread owes `notify_all cond2` (the repair of F6).
-/
namespace MlModel.C04
open MlModel.Queue

variable {cap maxEnq : Nat} {to ig : Bool} {progs : List Prog} {c c' : Cfg}

/-! ## 1. Counting producers under `WF_enq`; `enqueue_done` is monotone -/

/-- **Counting invariant**: until a stop request, `_max_enqueuer` = number of producer threads,
`_enqueue_start` = number of producers that have executed `_start_enqueue`, `_enqueue_stop` =
number of producers that have executed the state update of `_stop_enqueue` (the `min` clamp in the
code never fires). -/
theorem C04_counts (hwf : WF_enq maxEnq progs) (h : Reachable (init cap maxEnq to ig progs) c)
    (hs : c.sh.stopRequested = false) :
    c.sh.maxEnq = c.ths.countP isProd ∧ c.sh.start = c.ths.countP pastS ∧
    c.sh.stop = c.ths.countP pastT :=
  (base_reachable (base_init cap maxEnq to ig progs hwf) h).cnt hs

/-- `enqueue_done` without exception / stop request ⇔ there is at least one producer and **every**
producer has executed its `_stop_enqueue` state update. -/
theorem C04_enqueueDone_iff (hwf : WF_enq maxEnq progs) (h : Reachable (init cap maxEnq to ig progs) c)
    (hs : c.sh.stopRequested = false) (he : c.sh.exc = none) :
    c.sh.enqueueDone = true ↔ (0 < maxEnq ∧ ∀ t ∈ c.ths, isProd t = true → pastT t = true) := by
  have hb := base_reachable (base_init cap maxEnq to ig progs hwf) h
  obtain ⟨e1, e2, e3⟩ := hb.cnt hs
  have hm : c.ths.countP isProd = maxEnq := by
    rw [countP_progs (progs_reachable h)]; exact hwf.symm
  have hle1 : c.ths.countP pastT ≤ c.ths.countP pastS :=
    List.countP_mono_left (fun y _ h => pastT_pastS y h)
  have hle2 : c.ths.countP pastS ≤ c.ths.countP isProd :=
    List.countP_mono_left (fun y _ h => pastS_isProd y h)
  rw [enqueueDone_iff]
  simp only [he, hs, Option.isSome_none, Bool.false_eq_true, false_or]
  constructor
  · rintro ⟨h1, h2, h3⟩
    refine ⟨by omega, fun t ht hp => ?_⟩
    cases hpt : pastT t with
    | true => rfl
    | false =>
      have := countP_lt_of pastT isProd pastT_isProd ht hp hpt
      omega
  · rintro ⟨h1, h2⟩
    have : c.ths.countP isProd ≤ c.ths.countP pastT :=
      List.countP_mono_left (fun y hy h => h2 y hy h)
    exact ⟨by omega, by omega, by omega⟩

/-- **`enqueue_done` is monotone**: once true it never becomes false again (one step). -/
theorem C04_enqueueDone_step (hwf : WF_enq maxEnq progs) (h : Reachable (init cap maxEnq to ig progs) c)
    {tid : Tid} {alt : Bool} {lbl : String} (hs : step c tid alt = some (lbl, c'))
    (hd : c.sh.enqueueDone = true) : c'.sh.enqueueDone = true :=
  done_mono (base_reachable (base_init cap maxEnq to ig progs hwf) h) hs hd

/-- … and along any execution. -/
theorem C04_enqueueDone_monotone (hwf : WF_enq maxEnq progs) (h : Reachable (init cap maxEnq to ig progs) c)
    (h' : Reachable c c') (hd : c.sh.enqueueDone = true) : c'.sh.enqueueDone = true := by
  have hb := base_reachable (base_init cap maxEnq to ig progs hwf) h
  induction h' with
  | init => exact hd
  | step hr hs ih => exact done_mono (base_reachable hb hr) hs ih

/-! ## 3. Deadlock freedom -/

/-- **The no-lost-wake-up invariant holds in every reachable configuration** (no timeout
configured; failing items and stoppers allowed). -/
theorem C04_no_lost_wakeup (hwf : WF_enq maxEnq progs)
    (h : Reachable (init cap maxEnq false ig progs) c) : J1 c ∧ J2 c ∧ K1 c ∧ K2 c := by
  have := live_reachable rfl (live_init cap maxEnq ig progs hwf false) h
  exact ⟨this.j1, this.j2, this.k1, this.k2⟩

/-- **Lock-order acyclicity / building block**: in a configuration where no step is enabled all
three locks are free, and every thread that has not finished is parked on a condition variable and
has not been notified. -/
theorem C04_stuck_all_parked (h : Reachable (init cap maxEnq to ig progs) c) (hdead : enabled c = []) :
    (∀ l, c.sh.owner l = none) ∧
    ∀ tid t, c.ths[tid]? = some t →
      t.pc = .done ∨ (consWakePc t.pc = true ∧ tid ∉ c.sh.deqNotified) ∨
        (prodWakePc t.pc = true ∧ tid ∉ c.sh.enqNotified) :=
  stuck_all_parked (lockInv_reachable (lockInv_init cap maxEnq to ig progs) h) hdead

/-- **No deadlock** (C04 setting: no timeout).  For every capacity (bounded or not), every mix of
consumers (including blocking `get_batch`) and every schedule: a reachable configuration is final
(all threads done) or has an enabled step.

Hypotheses besides `WF_enq`:
* `hP` — if there is a consumer, something will end the stream: at least one producer
  (`0 < maxEnq`) or a stopper (with no producer and no stopper `enqueue_done` never holds and the
  consumers wait forever — that is the specified behaviour of `max_enqueuer = 0`);
* `hC` — if the queue is bounded, something drains it: a consumer or a stopper (producers alone
  block on a full bounded queue — again as specified).
Failing items and stoppers are allowed (so this is also the no-timeout half of C05). -/
theorem C04_no_deadlock (hwf : WF_enq maxEnq progs)
    (hP : 0 < maxEnq ∨ (∃ p ∈ progs, p.isStopper = true) ∨ ¬ ∃ p ∈ progs, p.isCons = true)
    (hC : cap = 0 ∨ (∃ p ∈ progs, p.isCons = true) ∨ ∃ p ∈ progs, p.isStopper = true)
    (h : Reachable (init cap maxEnq false ig progs) c) :
    c.allDone = true ∨ enabled c ≠ [] := by
  by_cases hdead : enabled c = []
  · left
    have hv := live_reachable rfl (live_init cap maxEnq ig progs hwf false) h
    have hpr := progs_reachable h
    have hto : c.sh.timeout = false := timeout_reachable h
    have hcap : c.sh.cap = cap := by
      have : ∀ {c0 c1 : Cfg}, Reachable c0 c1 → c1.sh.cap = c0.sh.cap := by
        intro c0 c1 hr
        induction hr with
        | init => rfl
        | step _ hs ih =>
          obtain ⟨t, s', t', _, hst, rfl⟩ := step_inv hs
          rw [← ih]; exact (stepThread_const _ s' t' hst).2.1
      exact this h
    have hS := anyT_progs hpr isStopper Prog.isStopper (fun _ => rfl)
    have hCo := anyT_progs hpr isCons Prog.isCons (fun _ => rfl)
    refine no_deadlock_of_live hv hto ?_ ?_ hdead
    · rw [countP_progs hpr, hS, hCo]
      rcases hP with h | h | h
      · left; rw [hwf] at h; exact h
      · exact Or.inr (Or.inl h)
      · exact Or.inr (Or.inr h)
    · rw [hcap, hS, hCo]; exact hC
  · exact Or.inr hdead

/-! ## 2. Final states of fault-free runs -/

/-- all producers' return values, in program order -/
def allRets (progs : List Prog) : List Nat := (progs.map progRet).flatten

/-- **Final-state theorem.**  Fault-free setting: no failing source item, no stopper, no timeout,
`WF_enq`.  In every reachable configuration in which all threads are done:
* every consumer ended with `StopIteration(*r)` where `r` is a permutation of **all** producers'
  return values (in fact `r = returned`);
* nothing was dropped by a raising `get_batch` (`lost = []`), and if there is a consumer the queue
  is empty, and then the concatenation of what the consumers received is a permutation of
  everything that was put (`C04_exactly_once`): every produced element is received by exactly one
  consumer;
* every producer has put **all** values of its source, in order, and returned normally. -/
theorem C04_final (hwf : WF_enq maxEnq progs) (hnf : ∀ p ∈ progs, p.noFail = true)
    (hns : ∀ p ∈ progs, p.isStopper = false)
    (h : Reachable (init cap maxEnq false ig progs) c) (hall : c.allDone = true) :
    (∀ t ∈ c.ths, isCons t = true →
      t.outcome = some (.stop c.sh.returned) ∧ c.sh.returned.Perm (allRets progs)) ∧
    c.sh.lost = [] ∧
    ((∃ p ∈ progs, p.isCons = true) →
      c.sh.q = [] ∧ c.sh.produced.Perm (c.ths.map (·.received)).flatten) ∧
    (∀ (tid : Tid) (t : Thread) (src : List Item) (r : Nat), c.ths[tid]? = some t →
      t.prog = .producer src r → producedBy tid c.sh.produced = vals src ∧ t.outcome = none) := by
  have hb := base_reachable (base_init cap maxEnq false ig progs hwf) h
  have hf := fin_reachable hwf hnf hns h
  have hto : c.sh.timeout = false := timeout_reachable h
  have hpr := progs_reachable h
  have hdone : ∀ t ∈ c.ths, t.pc = .done := by
    intro t ht
    unfold Cfg.allDone at hall
    rw [List.all_eq_true] at hall
    simpa using hall t ht
  -- no producer left early, so every producer has stopped
  have hstopped : ∀ t ∈ c.ths, isProd t = true → stopped t = true := by
    intro t ht hp
    cases hs : stopped t with
    | true => rfl
    | false =>
      exfalso
      have he : early t = true := by simp [early, hp, hdone t ht, hs]
      have hd := hb.early ⟨t, ht, he⟩
      have := all_pastT_of_done hb hf.sr hf.exc hd t ht hp
      simp [pastT, hp, hdone t ht, hs] at this
  have hretOf : ∀ t ∈ c.ths, retOf t = progRet t.prog := by
    intro t ht
    cases hp : isProd t with
    | true =>
      have hs := hstopped t ht hp
      have : pastT t = true := by simp [pastT, hp, hdone t ht, hs]
      rw [retOf, if_pos this]
      exact (hf.ct t ht).2.2.2.2.1 hs
    | false =>
      have : pastT t = false := by simp [pastT, hp]
      rw [retOf, this]
      simp only [Bool.false_eq_true, if_false]
      cases hpg : t.prog <;> simp_all [isProd, Prog.kind, progRet]
  have hret : c.sh.returned.Perm (allRets progs) := by
    have h1 : (c.ths.map retOf) = (c.ths.map (fun t => progRet t.prog)) :=
      List.map_congr_left hretOf
    have h2 : (c.ths.map (fun t => progRet t.prog)) = progs.map progRet := by
      rw [← hpr, List.map_map]; rfl
    have := hf.ret
    rw [h1, h2] at this
    exact this
  have hfinal : c.sh.final = .stop c.sh.returned := by
    unfold Shared.final; rw [hf.exc]
  refine ⟨?_, hf.lost, ?_, ?_⟩
  · intro t ht hc
    refine ⟨?_, hret⟩
    rw [← hfinal]
    exact (hf.ax t ht).2 (hdone t ht) hc
  · intro hcons
    obtain ⟨t, ht, hc⟩ := (anyT_progs hpr isCons Prog.isCons (fun _ => rfl)).mpr hcons
    have hex : c.sh.exhausted = true := by
      have : armed t = true := by unfold armed; rw [hdone t ht]; exact hc
      rcases (hb.xok t ht).2.2.2.2.1 this with h1 | h1
      · exact h1
      · rw [hto] at h1; cases h1
    have hq := hf.qe hex
    refine ⟨hq, ?_⟩
    have := C04_exactly_once h
    rw [hq, hf.lost, List.nil_append, List.append_nil] at this
    have hs : sumSeq c.ths = (c.ths.map (·.received)).flatten := by
      unfold sumSeq
      congr 1
      apply List.map_congr_left
      intro u hu
      have hres := (hf.ct u hu).2.2.2.2.2.2.1 (Or.inl (hdone u hu))
      simp [seqOf, inHand, inHandPc, hdone u hu, hres]
    rw [hs] at this
    exact this
  · intro tid t src r ht hp
    have htm := List.mem_of_getElem? ht
    have hpd : isProd t = true := by simp [isProd, hp, Prog.kind]
    have hs := hstopped t htm hpd
    have h1 := hf.prod tid t src r ht hp
    have hsrc := (hf.ct t htm).2.2.2.2.2.1 hs
    have htodo : todoV t = [] := by
      simp [todoV, hp, hdone t htm, pendPc, hsrc, vals]
    rw [htodo, List.append_nil] at h1
    refine ⟨h1, ?_⟩
    -- the producer returned normally: it did not raise
    exact (hf.ct t htm).2.2.2.2.2.2.2.2 (hdone t htm) hpd

/-! ## 4. Termination -/

/-- **Variant.**  The measure `Phi` (`Lemmas/QueueVariantDefs.lean`; found by hand, validated by
model checking 1.4·10⁸ transitions of small configurations before it was proved) strictly decreases
on **every** step of every thread — with failing items, stoppers and timeouts in the model, any
capacity, any mix of consumers.  Hypotheses: `WF_enq`; no `ignore_error` (with `ignore_error` and
`maybe_stop(exc)` the consumer program `while True: get_batch()` does spin for ever:
`Witness/C05.lean: C05_ignore_error_livelock_witness`); every `get_batch` program has a positive
batch size (the real `get_batch(0)` means "the default 1024"). -/
theorem C04_variant (hwf : WF_enq maxEnq progs) (hmax : ∀ m b, Prog.batchLoop m b ∈ progs → 0 < m)
    (h : Reachable (init cap maxEnq to false progs) c)
    {tid : Tid} {alt : Bool} {lbl : String} (hs : step c tid alt = some (lbl, c')) :
    Phi c' < Phi c := by
  have hv := varInv_reachable (varInv_init cap maxEnq to progs hwf hmax) h
  exact variant_step hv.base hv.ig hv.max hv.rn hs

/-- **No infinite execution**: from a reachable configuration `c` no execution has more than
`Phi c` steps (no fairness assumption, every scheduler). -/
theorem C04_bounded_executions (hwf : WF_enq maxEnq progs) (hmax : ∀ m b, Prog.batchLoop m b ∈ progs → 0 < m)
    (h : Reachable (init cap maxEnq to false progs) c) {n : Nat} (hn : StepsN c n c') : n ≤ Phi c := by
  have := stepsN_bound (varInv_reachable (varInv_init cap maxEnq to progs hwf hmax) h) hn
  omega

/-- **Every maximal execution ends in a final configuration**: executions are bounded
(`C04_bounded_executions`), and an execution that cannot be extended has all threads done
(`C04_no_deadlock`).  Stated for the C04 setting (no timeout; failing items / stoppers allowed). -/
theorem C04_terminates (hwf : WF_enq maxEnq progs) (hmax : ∀ m b, Prog.batchLoop m b ∈ progs → 0 < m)
    (hP : 0 < maxEnq ∨ (∃ p ∈ progs, p.isStopper = true) ∨ ¬ ∃ p ∈ progs, p.isCons = true)
    (hC : cap = 0 ∨ (∃ p ∈ progs, p.isCons = true) ∨ ∃ p ∈ progs, p.isStopper = true)
    (h : Reachable (init cap maxEnq false false progs) c) {n : Nat} (hn : StepsN c n c') :
    n ≤ Phi c ∧ (enabled c' = [] → c'.allDone = true) := by
  have hr : Reachable (init cap maxEnq false false progs) c' := by
    clear hmax hP hC
    induction hn with
    | zero => exact h
    | succ hs _ ih => exact ih (.step h hs)
  refine ⟨C04_bounded_executions hwf hmax h hn, fun hdead => ?_⟩
  rcases C04_no_deadlock hwf hP hC hr with h1 | h1
  · exact h1
  · exact absurd hdead h1

/-! ### Non-vacuity (tests of the definitions, by `decide` over concrete schedules) -/

example : WF_enq 2 [.producer [.val 1] 9, .producer [] 8, .getLoop] := by decide

/-- a complete run of 2 producers, a `get` consumer and a blocking `get_batch(2)` consumer over a
queue of capacity 1: the hypotheses of `C04_final` hold and its conclusion is what is observed —
both consumers end with `StopIteration(901, 900)` (a permutation of `allRets = [900, 901]`) -/
def finalProgs : List Prog :=
  [.producer [.val 1, .val 2] 900, .producer [.val 3] 901, .getLoop, .batchLoop 2 true]

def finalSched : List (Tid × Bool) :=
  ([1, 2, 3, 0, 1, 2, 1, 2, 1, 2, 1, 2, 0, 1, 2, 3, 0, 1, 0, 1, 3, 1, 3, 0, 3, 0, 3, 0, 0, 3, 0, 3, 3, 3, 3, 0, 3, 0, 3, 0,
    1, 3, 0, 1, 0, 1, 2, 0, 1, 2, 1, 2, 0, 1, 2, 0, 1, 2, 3, 1, 3, 3, 3, 3, 0, 0, 3, 0, 3, 3, 3, 0, 3, 0, 3, 0, 2, 3, 0, 2,
    0, 2, 0, 2, 0, 2, 3, 0, 3, 3, 3, 3, 3, 3, 0, 3, 0, 3, 0, 2, 3, 0, 0, 2, 0, 2, 0, 2, 0, 2, 3, 0, 0, 3, 3, 3, 3] : List Nat).map (·, false)

example : WF_enq 2 finalProgs ∧ (∀ p ∈ finalProgs, p.noFail = true) ∧ (∀ p ∈ finalProgs, p.isStopper = false) ∧
    ∃ c, Reachable (init 1 2 false false finalProgs) c ∧ c.allDone = true ∧
      c.ths.map (·.outcome) = [none, none, some (.stop [901, 900]), some (.stop [901, 900])] ∧
      c.ths.map (·.received) = [[], [], [], [(1, 3), (0, 1), (0, 2)]] ∧ allRets finalProgs = [900, 901] :=
  ⟨by decide, by decide, by decide, _, reachable_replay (init 1 2 false false finalProgs) finalSched (by decide),
    by decide, by decide, by decide, by decide⟩

/-- a reachable configuration with a parked consumer (`gWake`, in `deqWait`) … -/
example : ∃ c, Reachable (init 1 1 false false [.producer [.val 5] 9, .getLoop]) c ∧
    c.sh.deqWait = [1] ∧ c.ths.map (·.pc) = [.start, .gWake] ∧ enabled c ≠ [] :=
  ⟨_, reachable_replay (init 1 1 false false [.producer [.val 5] 9, .getLoop])
    ([1,1,1,1,1,1].map (·, false)) (by decide), by decide⟩

/-- … and one with a parked producer (`pWake`, in `enqWait`): capacity 1, two elements, no consumer
step yet — still an enabled step exists (the consumer) -/
example : ∃ c, Reachable (init 1 1 false false [.producer [.val 5, .val 6] 9, .getLoop]) c ∧
    c.sh.enqWait = [0] ∧ c.ths.map (·.pc) = [.pWake, .start] ∧ enabled c = [(1, false)] :=
  ⟨_, reachable_replay (init 1 1 false false [.producer [.val 5, .val 6] 9, .getLoop])
    ((List.replicate 18 0).map (·, false)) (by decide), by decide⟩

end MlModel.C04
