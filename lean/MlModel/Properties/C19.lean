import MlModel.Model.Rebatch
namespace MlModel.C19
open MlModel.Rebatch
theorem C19_placeholder : sliced 2 [1,2,3] = [[1,2],[3]] := by simp [sliced]
end MlModel.C19
