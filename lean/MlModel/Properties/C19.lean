import MlModel.Lemmas.Rebatch
/-!
# C19 — re-batching conserves rows, order and column alignment

Model: `MlModel.Rebatch.run target numColumns pad bs` = `list(rebatched_args(iter(bs), target,
num_columns=numColumns, pad=pad))` plus the error kind if it raised (`Model/Rebatch.lean`).
Vocabulary (`Lemmas/RebatchDefs.lean`): `colRows b c` rows of column `c` of batch `b`;
`colConcat bs c` their concatenation over a stream; `nrows b` rows of a batch (first column);
`totalRows`; `Rect nc r b` = `nc` columns of supported kind with `r` rows each;
`WF nc bs` = every batch `b` is `Rect nc (nrows b)` (decidable);
`padding t pad n` = `[]` / `replicate ((t - n % t) % t) p`;
`online` = what has been yielded when the generator asks for the next input batch.

All theorems: every `target > 0`, every column count `nc ≥ 1`, every finite well-formed stream,
both ways of giving the column count (`numColumns = nc` explicit, `numColumns = 0` deduced).

`C19_no_error`, `C19_conserve`, `C19_rect`, `C19_sizes`, `C19_count`, `C19_aligned`, `C19_rows`,
`C19_online`, `C19_identity`, `C19_errors`; `C19_treefn` / `C19_treefn_flatmap` for the double
re-batching of `TreeFn._iterate` (model `treeFn`) around row-preserving / row-count-changing functions.  Not stated as theorems (covered by the correspondence only):
the container kind of the emitted columns, and the `TypeError` branch for unsupported containers.
Known finding F-C19-assign (`Assign` + `batch_size`) is outside `_iterate`: see `Witness/C19.lean`.
-/
namespace MlModel.C19
open MlModel.Rebatch

variable {α : Type}

/-- A well-formed stream never raises. -/
theorem C19_no_error {t nc numColumns : Nat} (ht : 0 < t) (hnc : 0 < nc)
    (hcols : numColumns = nc ∨ numColumns = 0) (pad : Option α) {bs : List (Batch α)}
    (hwf : WF nc bs) : (run t numColumns pad bs).err = none := by
  obtain ⟨fin, m, hrun, -⟩ := run_spec ht hnc hcols pad hwf
  rw [hrun]

/-- Conservation and order, column by column: the emitted rows are exactly the input rows, in
order, followed by the padding (which therefore only ever extends the end of the last batch). -/
theorem C19_conserve {t nc numColumns : Nat} (ht : 0 < t) (hnc : 0 < nc)
    (hcols : numColumns = nc ∨ numColumns = 0) (pad : Option α) {bs : List (Batch α)}
    (hwf : WF nc bs) {c : Nat} (hc : c < nc) :
    colConcat (run t numColumns pad bs).out c = colConcat bs c ++ padding t pad (totalRows bs) := by
  obtain ⟨fin, m, hrun, _, _, _, _, _, hcons⟩ := run_spec ht hnc hcols pad hwf
  rw [hrun]; exact hcons c hc

/-- Every emitted batch is rectangular: `nc` columns (of a supported container kind), all with the
same number of rows — i.e. the output is again a well-formed stream. -/
theorem C19_rect {t nc numColumns : Nat} (ht : 0 < t) (hnc : 0 < nc)
    (hcols : numColumns = nc ∨ numColumns = 0) (pad : Option α) {bs : List (Batch α)}
    (hwf : WF nc bs) : WF nc (run t numColumns pad bs).out := by
  obtain ⟨fin, m, hrun, hfull, _, _, h0, h1, _⟩ := run_spec ht hnc hcols pad hwf
  rw [hrun]
  intro b hb
  rcases List.mem_append.mp hb with hb | hb
  · have := hfull b hb
    rw [this.nrows hnc]; exact this
  · rcases Nat.eq_zero_or_pos m with hm | hm
    · rw [h0 hm] at hb; simp at hb
    · obtain ⟨last, hl, hr⟩ := h1 hm
      rw [hl] at hb; simp only [List.mem_singleton] at hb; subst hb
      rw [hr.nrows hnc]; exact hr

/-- Batch sizes: every emitted batch but the last has exactly `t` rows; the last has between 1 and
`t` rows, exactly `t` when padding; and nothing is emitted iff the stream carries no row. -/
theorem C19_sizes {t nc numColumns : Nat} (ht : 0 < t) (hnc : 0 < nc)
    (hcols : numColumns = nc ∨ numColumns = 0) (pad : Option α) {bs : List (Batch α)}
    (hwf : WF nc bs) :
    (∀ j b, (run t numColumns pad bs).out[j]? = some b →
        j + 1 < (run t numColumns pad bs).out.length → nrows b = t) ∧
    (∀ b, (run t numColumns pad bs).out.getLast? = some b →
        1 ≤ nrows b ∧ nrows b ≤ t ∧ (pad.isSome → nrows b = t)) ∧
    ((run t numColumns pad bs).out = [] ↔ totalRows bs = 0) := by
  obtain ⟨fin, m, hrun, hfull, htot, hmt, h0, h1, _⟩ := run_spec ht hnc hcols pad hwf
  rw [hrun]; simp only
  generalize online t numColumns pad bs = full at *
  have hfulln : ∀ b ∈ full, nrows b = t := fun b hb => (hfull b hb).nrows hnc
  rcases Nat.eq_zero_or_pos m with hm | hm
  · rw [h0 hm, List.append_nil]
    refine ⟨?_, ?_, ?_⟩
    · intro j b hj _; exact hfulln b (List.mem_of_getElem? hj)
    · intro b hb
      have := hfulln b (List.mem_of_getLast? hb)
      omega
    · subst hm
      constructor
      · intro h; rw [htot, h]; simp
      · intro h; rw [h] at htot
        have : full.length * t = 0 := by omega
        rcases Nat.mul_eq_zero.mp this with h | h
        · exact List.length_eq_zero_iff.mp h
        · omega
  · obtain ⟨last, hl, hr⟩ := h1 hm
    rw [hl]
    have hlast := hr.nrows hnc
    refine ⟨?_, ?_, ?_⟩
    · intro j b hj hlt
      simp only [List.length_append, List.length_singleton] at hlt
      rw [List.getElem?_append_left (by omega)] at hj
      exact hfulln b (List.mem_of_getElem? hj)
    · intro b hb
      rw [List.getLast?_concat] at hb
      cases hb
      rw [hlast]
      cases pad <;> simp <;> omega
    · constructor
      · intro h; simp at h
      · intro h; omega

/-- Number of emitted batches: `⌈totalRows / t⌉`. -/
theorem C19_count {t nc numColumns : Nat} (ht : 0 < t) (hnc : 0 < nc)
    (hcols : numColumns = nc ∨ numColumns = 0) (pad : Option α) {bs : List (Batch α)}
    (hwf : WF nc bs) :
    (run t numColumns pad bs).out.length = (totalRows bs + t - 1) / t := by
  obtain ⟨fin, m, hrun, hfull, htot, hmt, h0, h1, _⟩ := run_spec ht hnc hcols pad hwf
  rw [hrun, htot]; simp only [List.length_append]
  generalize (online t numColumns pad bs).length = F
  rcases Nat.eq_zero_or_pos m with hm | hm
  · rw [h0 hm]; subst hm
    have : F * t + 0 + t - 1 = (t - 1) + t * F := by rw [Nat.mul_comm]; omega
    rw [this, Nat.add_mul_div_left _ _ ht, Nat.div_eq_of_lt (by omega)]; simp
  · obtain ⟨last, hl, _⟩ := h1 hm
    rw [hl]
    have : F * t + m + t - 1 = (m - 1) + t * (F + 1) := by
      rw [Nat.mul_add, Nat.mul_comm]; omega
    rw [this, Nat.add_mul_div_left _ _ ht, Nat.div_eq_of_lt (by omega)]; simp

/-- Alignment: row `i` of emitted batch `j` is, in *every* column `c`, element `offset + i` of
(input column `c` ++ padding), where `offset` = rows of the emitted batches before `j` — the same
global row index for all columns, so row `i` of every column comes from the same input row. -/
theorem C19_aligned {t nc numColumns : Nat} (ht : 0 < t) (hnc : 0 < nc)
    (hcols : numColumns = nc ∨ numColumns = 0) (pad : Option α) {bs : List (Batch α)}
    (hwf : WF nc bs) {c : Nat} (hc : c < nc) (j i : Nat) (b : Batch α)
    (hj : (run t numColumns pad bs).out[j]? = some b) (hi : i < nrows b) :
    (colRows b c)[i]? =
      (colConcat bs c ++ padding t pad (totalRows bs))[totalRows ((run t numColumns pad bs).out.take j) + i]? := by
  have hrect := C19_rect ht hnc hcols pad hwf
  rw [← C19_conserve ht hnc hcols pad hwf hc]
  generalize (run t numColumns pad bs).out = out at *
  have hb : Rect nc (nrows b) b := hrect b (List.mem_of_getElem? hj)
  have := getElem?_flatten_offset (out.map (colRows · c)) j i (colRows b c)
    (by simp [hj]) (by rw [hb.colRows_len hc]; exact hi)
  rw [← List.map_take, sum_length_colRows (hrect.take j) hc] at this
  exact this.symm

/-- The whole property as one equation on *rows* (a row = the tuple of the `i`-th elements of all
columns): the rows of the emitted batches, read across the columns, are exactly the input rows in
order, followed by the padding rows. -/
theorem C19_rows [Inhabited α] {t nc numColumns : Nat} (ht : 0 < t) (hnc : 0 < nc)
    (hcols : numColumns = nc ∨ numColumns = 0) (pad : Option α) {bs : List (Batch α)}
    (hwf : WF nc bs) :
    (run t numColumns pad bs).out.flatMap rowsOf =
      bs.flatMap rowsOf ++ (padding t pad (totalRows bs)).map fun p => List.replicate nc p := by
  have hrect := C19_rect ht hnc hcols pad hwf
  have hcons := fun c hc => C19_conserve ht hnc hcols pad hwf (c := c) hc
  generalize (run t numColumns pad bs).out = out at *
  have hlen : totalRows out = totalRows bs + (padding t pad (totalRows bs)).length := by
    rw [← length_colConcat hrect hnc, hcons 0 hnc, List.length_append, length_colConcat hwf hnc]
  rw [flatMap_rowsOf hrect, flatMap_rowsOf hwf, hlen,
    rowsOfCols_congr (Y := fun c => colConcat bs c ++ padding t pad (totalRows bs)) _ hcons,
    rowsOfCols_append _ (fun c hc => length_colConcat hwf hc)]
  congr 1
  cases pad with
  | none => simp [padding, rowsOfCols]
  | some p => simp only [padding, List.length_replicate, List.map_replicate]; exact rowsOfCols_replicate nc _ p

/-- Online behaviour: what has been yielded after consuming a prefix of the input is a prefix of
the final output (nothing is retracted), and it consists of *all* complete batches available so
far (only the remainder `totalRows pre % t` is withheld). -/
theorem C19_online {t nc numColumns : Nat} (ht : 0 < t) (hnc : 0 < nc)
    (hcols : numColumns = nc ∨ numColumns = 0) (pad : Option α) {pre post : List (Batch α)}
    (hwf : WF nc (pre ++ post)) :
    online t numColumns pad pre <+: (run t numColumns pad (pre ++ post)).out ∧
    (online t numColumns pad pre).length = totalRows pre / t ∧
    (∀ b ∈ online t numColumns pad pre, Rect nc t b) ∧
    ∀ c, c < nc → colConcat (online t numColumns pad pre) c = (colConcat pre c).take (totalRows pre / t * t) := by
  obtain ⟨hwf1, hwf2⟩ := WF.append.mp hwf
  obtain ⟨fin, m, hrun, _⟩ := run_spec ht hnc hcols pad hwf
  obtain ⟨fin1, m1, hrun1, hfull1, htot1, hmt1, _, _, _⟩ := run_spec ht hnc hcols pad hwf1
  have hlen : (online t numColumns pad pre).length = totalRows pre / t := by
    rw [htot1, Nat.mul_comm, Nat.mul_add_div ht, Nat.div_eq_of_lt hmt1]; simp
  refine ⟨?_, hlen, hfull1, ?_⟩
  · rw [hrun, online_eq ht hnc hcols pad hwf, online_eq ht hnc hcols pad hwf1,
      feed_append pad pre post _ (feed_spec ht hnc pad pre _ (Inv.init ht nc) hwf1).1]
    exact (List.prefix_append _ _).trans (List.prefix_append _ _)
  · intro c hc
    rw [← hlen]
    have h4 := (feed_spec ht hnc pad pre _ (Inv.init ht nc) hwf1).2.2.2 c
    rw [bufRows_init, List.nil_append, ← online_eq ht hnc hcols pad hwf1] at h4
    rw [← h4, List.take_left']
    rw [length_colConcat (wf_of_rect hnc hfull1) hc, totalRows_of_rect hnc hfull1]

/-- `batch_size = 0` passes the stream through unchanged. -/
theorem C19_identity (numColumns : Nat) (pad : Option α) (bs : List (Batch α)) :
    run 0 numColumns pad bs = ⟨bs, none⟩ := by
  simp [run]

/-- Error branch: after a well-formed prefix, a batch with a wrong number of columns or with
columns of unequal length makes the generator raise `ValueError`, having yielded exactly what it
yields online for the prefix (`nc` = the column count in force, given or deduced). -/
theorem C19_errors {t nc numColumns : Nat} (ht : 0 < t) (hnc : 0 < nc) (pad : Option α)
    {pre post : List (Batch α)} {bad : Batch α} (hwf : WF nc pre)
    (heff : effCols numColumns (pre ++ bad :: post) = nc)
    (hbad : bad.length ≠ nc ∨ ¬ ∀ c ∈ bad, c.rows.length = nrows bad) :
    run t numColumns pad (pre ++ bad :: post) = ⟨online t numColumns pad pre, some .value⟩ := by
  rw [run_eq_eff ht pad (by simp), heff, runFrom_eq_feed]
  obtain ⟨herr, ⟨m, _, hsh⟩, _, _⟩ := feed_spec ht hnc pad pre _ (Inv.init ht nc) hwf
  have hstep : step t nc pad (feed t nc pad (St.init nc) pre).st bad = .error .value := by
    rcases hbad with h | h
    · exact step_bad_cols pad _ h
    · by_cases hl : bad.length = nc
      · exact step_bad_lens pad hsh hnc hl h
      · exact step_bad_cols pad _ hl
  have hon : online t numColumns pad pre = (feed t nc pad (St.init nc) pre).out := by
    have ht0 : (t == 0) = false := by simp; omega
    unfold online
    simp only [ht0, Bool.false_eq_true, if_false]
    by_cases hp : pre = []
    · subst hp; simp [feed]
    · rw [← effCols_append (bad :: post) hp, heff]
  rw [feed_append pad pre (bad :: post) _ herr]
  simp [feed, hstep, hon]

/-- `TreeFn._iterate` with `fn_batch_size = fb` (any, 0 = off) and `batch_size = b > 0` around a
row-wise function (`mapRows g kinds`: applies `g` to every row; `kinds` = container kinds of the
output columns): never raises on a well-formed stream, and emits, column by column, `g` of the input
rows in order, regrouped into batches of `b` rows (all full but possibly the last, which is
non-empty) — independently of how the input was batched and of `fb`. -/
theorem C19_treefn {β : Type} [Inhabited α] [Inhabited β] {fb b nin : Nat} (hb : 0 < b)
    (hnin : 0 < nin) (g : List α → List β) {kinds : List Kind} (hk : ∀ k ∈ kinds, k ≠ .other)
    (hnout : 0 < kinds.length) {bs : List (Batch α)} (hwf : WF nin bs) :
    (treeFn fb b nin kinds.length (mapRows g kinds) bs).err = none ∧
    (∀ c, c < kinds.length →
      colConcat (treeFn fb b nin kinds.length (mapRows g kinds) bs).out c
        = (bs.flatMap rowsOf).map fun row => (g row).getD c default) ∧
    WF kinds.length (treeFn fb b nin kinds.length (mapRows g kinds) bs).out ∧
    (∀ j b', (treeFn fb b nin kinds.length (mapRows g kinds) bs).out[j]? = some b' →
      j + 1 < (treeFn fb b nin kinds.length (mapRows g kinds) bs).out.length → nrows b' = b) ∧
    (∀ b', (treeFn fb b nin kinds.length (mapRows g kinds) bs).out.getLast? = some b' →
      1 ≤ nrows b' ∧ nrows b' ≤ b) ∧
    (treeFn fb b nin kinds.length (mapRows g kinds) bs).out.length = (totalRows bs + b - 1) / b := by
  -- first stage
  have h1 : (run fb nin none bs).err = none ∧ WF nin (run fb nin none bs).out ∧
      ∀ c, c < nin → colConcat (run fb nin none bs).out c = colConcat bs c := by
    rcases Nat.eq_zero_or_pos fb with h | h
    · subst h; rw [C19_identity]; exact ⟨rfl, hwf, fun _ _ => rfl⟩
    · refine ⟨C19_no_error h hnin (Or.inl rfl) none hwf, C19_rect h hnin (Or.inl rfl) none hwf, ?_⟩
      intro c hc
      rw [C19_conserve h hnin (Or.inl rfl) none hwf hc]; simp [padding]
  obtain ⟨herr, hwf1, hcons1⟩ := h1
  have hrows : (run fb nin none bs).out.flatMap rowsOf = bs.flatMap rowsOf :=
    flatMap_rowsOf_congr hnin hwf1 hwf hcons1
  have htot : totalRows (run fb nin none bs).out = totalRows bs := by
    rw [← length_colConcat hwf1 hnin, ← length_colConcat hwf hnin, hcons1 0 hnin]
  simp only [treeFn, herr]
  generalize (run fb nin none bs).out = xs at *
  have hwf2 := wf_mapRows g hk hnout xs
  have htot2 := totalRows_mapRows g hk hnout xs
  obtain ⟨s1, s2, _⟩ := C19_sizes hb hnout (Or.inl rfl) none hwf2
  refine ⟨C19_no_error hb hnout (Or.inl rfl) none hwf2, ?_, C19_rect hb hnout (Or.inl rfl) none hwf2,
    s1, fun b' h => ⟨(s2 b' h).1, (s2 b' h).2.1⟩, ?_⟩
  · intro c hc
    rw [C19_conserve hb hnout (Or.inl rfl) none hwf2 hc, colConcat_mapRows g xs hc, hrows]
    simp [padding]
  · rw [C19_count hb hnout (Or.inl rfl) none hwf2, htot2, htot]

/-- `TreeFn._iterate` around a batch function that changes the number of rows (`flatMapRows g kinds`:
every input row yields a list of output rows — a filter, an expansion, …; intermediate batches may
be empty): with `batch_size = b > 0` and any `fn_batch_size = fb` (in particular `fb = b`) it never
raises on a well-formed stream and emits, column by column, the flat-map of `g` over the input rows
in order, regrouped into batches of exactly `b` rows (the last: `1..b`), `⌈N/b⌉` batches for `N`
output rows — independently of the incoming batching and of `fb`. -/
theorem C19_treefn_flatmap {β : Type} [Inhabited α] [Inhabited β] {fb b nin : Nat} (hb : 0 < b)
    (hnin : 0 < nin) (g : List α → List (List β)) {kinds : List Kind}
    (hk : ∀ k ∈ kinds, k ≠ .other) (hnout : 0 < kinds.length) {bs : List (Batch α)}
    (hwf : WF nin bs) :
    (treeFn fb b nin kinds.length (flatMapRows g kinds) bs).err = none ∧
    (∀ c, c < kinds.length →
      colConcat (treeFn fb b nin kinds.length (flatMapRows g kinds) bs).out c
        = ((bs.flatMap rowsOf).flatMap g).map fun row => row.getD c default) ∧
    WF kinds.length (treeFn fb b nin kinds.length (flatMapRows g kinds) bs).out ∧
    (∀ j b', (treeFn fb b nin kinds.length (flatMapRows g kinds) bs).out[j]? = some b' →
      j + 1 < (treeFn fb b nin kinds.length (flatMapRows g kinds) bs).out.length → nrows b' = b) ∧
    (∀ b', (treeFn fb b nin kinds.length (flatMapRows g kinds) bs).out.getLast? = some b' →
      1 ≤ nrows b' ∧ nrows b' ≤ b) ∧
    (treeFn fb b nin kinds.length (flatMapRows g kinds) bs).out.length
      = (((bs.flatMap rowsOf).flatMap g).length + b - 1) / b := by
  have h1 : (run fb nin none bs).err = none ∧ WF nin (run fb nin none bs).out ∧
      ∀ c, c < nin → colConcat (run fb nin none bs).out c = colConcat bs c := by
    rcases Nat.eq_zero_or_pos fb with h | h
    · subst h; rw [C19_identity]; exact ⟨rfl, hwf, fun _ _ => rfl⟩
    · refine ⟨C19_no_error h hnin (Or.inl rfl) none hwf, C19_rect h hnin (Or.inl rfl) none hwf, ?_⟩
      intro c hc
      rw [C19_conserve h hnin (Or.inl rfl) none hwf hc]; simp [padding]
  obtain ⟨herr, hwf1, hcons1⟩ := h1
  have hrows : (run fb nin none bs).out.flatMap rowsOf = bs.flatMap rowsOf :=
    flatMap_rowsOf_congr hnin hwf1 hwf hcons1
  simp only [treeFn, herr]
  generalize (run fb nin none bs).out = xs at *
  have hwf2 := wf_flatMapRows g hk hnout xs
  have htot2 := totalRows_flatMapRows g hk hnout xs
  obtain ⟨s1, s2, _⟩ := C19_sizes hb hnout (Or.inl rfl) none hwf2
  refine ⟨C19_no_error hb hnout (Or.inl rfl) none hwf2, ?_, C19_rect hb hnout (Or.inl rfl) none hwf2,
    s1, fun b' h => ⟨(s2 b' h).1, (s2 b' h).2.1⟩, ?_⟩
  · intro c hc
    rw [C19_conserve hb hnout (Or.inl rfl) none hwf2 hc, colConcat_flatMapRows g xs hc, hrows]
    simp [padding]
  · rw [C19_count hb hnout (Or.inl rfl) none hwf2, htot2, hrows]

/-! ## Non-vacuity and sanity tests (concrete instances, by `decide`; `+kernel` because `sliced`
is defined by well-founded recursion) -/

-- the hypotheses of the theorems are satisfiable by a non-trivial stream (2 columns, sizes 5 and 1)
example : WF 2 sampleStream := by decide
example : WF 2 (sampleStream ++ sampleStream) := by decide
-- ... for both ways of giving the column count
example : (2 = 2 ∨ 2 = 0) ∧ (0 = 2 ∨ 0 = 0) := by decide
-- hypotheses of `C19_errors`: a ragged batch after a well-formed prefix, column count deduced
example : effCols 0 (sampleStream ++ sampleRagged :: []) = 2 ∧
    (sampleRagged.length ≠ 2 ∨ ¬ ∀ c ∈ sampleRagged, c.rows.length = nrows sampleRagged) := by decide
-- hypotheses of `C19_treefn`
example : (∀ k ∈ [Kind.list], k ≠ Kind.other) ∧ 0 < [Kind.list].length := by decide
-- `WF` rejects what it should
example : ¬ WF 2 [sampleRagged] := by decide
example : ¬ WF 1 sampleStream := by decide
example : ¬ WF 1 [[(⟨.other, [1]⟩ : Col Nat)]] := by decide

-- the model on the sample: target 2 (multi-slice flush, exact fit after the carry)
example : run 2 0 none sampleStream =
    ⟨[[⟨.list, [0, 1]⟩, ⟨.array, [10, 11]⟩], [⟨.list, [2, 3]⟩, ⟨.array, [12, 13]⟩],
      [⟨.list, [4, 5]⟩, ⟨.array, [14, 15]⟩]], none⟩ := by decide +kernel
-- target 4 with padding: only the final batch is extended
example : run 4 2 (some 99) sampleStream =
    ⟨[[⟨.list, [0, 1, 2, 3]⟩, ⟨.array, [10, 11, 12, 13]⟩],
      [⟨.list, [4, 5, 99, 99]⟩, ⟨.array, [14, 15, 99, 99]⟩]], none⟩ := by decide +kernel
-- online: after the first input batch two full batches are out, row 4 is withheld
example : online 2 0 none (sampleStream.take 1) =
    [[⟨.list, [0, 1]⟩, ⟨.array, [10, 11]⟩], [⟨.list, [2, 3]⟩, ⟨.array, [12, 13]⟩]] := by
  decide +kernel
-- error branch
example : run 2 0 none (sampleStream ++ [sampleRagged]) =
    ⟨online 2 0 none sampleStream, some .value⟩ := by decide +kernel
-- TreeFn with a row-count-changing function and fn_batch_size = batch_size = 2: every row twice
-- (the 6 input rows become 12, in 6 batches of exactly 2), and a filter whose intermediate
-- batches are partly empty (rows with an even first component: 0, 2, 4 → batches [0,2], [4])
example : (treeFn 2 2 2 2 (flatMapRows (fun r => [r, r]) [.list, .array]) sampleStream).out.map nrows
    = [2, 2, 2, 2, 2, 2] := by decide +kernel
example : treeFn 2 2 2 1 (flatMapRows (fun r => if r.headD 0 % 2 = 0 then [[r.headD 0]] else []) [.list])
    sampleStream = ⟨[[⟨.list, [0, 2]⟩], [⟨.list, [4]⟩]], none⟩ := by decide +kernel
-- TreeFn: fn_batch_size 4, batch_size 3, row-wise sum of the two columns
example : treeFn 4 3 2 1 (mapRows sampleSum [.list]) sampleStream =
    ⟨[[⟨.list, [10, 12, 14]⟩], [⟨.list, [16, 18, 20]⟩]], none⟩ := by decide +kernel

end MlModel.C19
