import MlModel.Lemmas.Rebatch
import MlModel.Lemmas.RebatchGen
/-!
# C19 — re-batching conserves rows, order and column alignment

Model: `MlModel.Rebatch.run target numColumns pad bs` = `list(rebatched_args(iter(bs), target,
num_columns=numColumns, pad=pad))` plus the error kind if it raised (`Model/Rebatch.lean`).
Vocabulary (`Lemmas/RebatchDefs.lean`): `colRows b c` rows of column `c` of batch `b`;
`colConcat bs c` their concatenation over a stream; `nrows b` rows of a batch (first column);
`totalRows`; `Rect nc r b` = `nc` columns of supported kind with `r` rows each;
`WF nc bs` = every batch `b` is `Rect nc (nrows b)` (decidable);
`padding t pad n` = `[]` / `replicate ((t - n % t) % t) p`;
`online` = what has been yielded when the generator asks for the next input batch.

All theorems: every `target > 0`, every column count `nc ≥ 1`, every finite well-formed stream,
both ways of giving the column count (`numColumns = nc` explicit, `numColumns = 0` deduced).

`C19_no_error`, `C19_conserve`, `C19_rect`, `C19_sizes`, `C19_count`, `C19_aligned`, `C19_rows`,
`C19_online`, `C19_identity`, `C19_errors`; `C19_treefn` / `C19_treefn_flatmap` for the double
re-batching of `TreeFn._iterate` (model `treeFn`) around row-preserving / row-count-changing functions.  Not stated as theorems (covered by the correspondence only):
the container kind of the emitted columns, and the `TypeError` branch for unsupported containers.
Known finding F-C19-assign (`Assign` + `batch_size`) is outside `_iterate`: see `Witness/C19.lean`.

Round 10: `C19_pad_only_extends_last`, `C19_pad_rows_unchanged` (padding never touches a real row);
`TreeFn._iterate` as a chain of lazy iterators with failing calls and `ignore_error`
(`Model/RebatchGen.lean`: `treeFnGen`, `treeFnGenS` for functions with state): `C19_treefn_gen_total`,
`C19_treefn_skip`, `C19_treefn_skip_carry`, `C19_treefn_skip_rows`, `C19_treefn_fail_noskip`,
`C19_treefn_gen_stateless`, `C19_treefn_skip_stateful`, `C19_treefn_skip_carry_stateful`;
`Properties/C19Pipe.lean`: `C19_skip_agrees_with_C12`; contrast witness
`Witness/C19.lean: C19_skip_after_rebatch_witness`.
-/
namespace MlModel.C19
open MlModel.Rebatch

variable {α : Type}

/-- A well-formed stream never raises. -/
theorem C19_no_error {t nc numColumns : Nat} (ht : 0 < t) (hnc : 0 < nc)
    (hcols : numColumns = nc ∨ numColumns = 0) (pad : Option α) {bs : List (Batch α)}
    (hwf : WF nc bs) : (run t numColumns pad bs).err = none := by
  obtain ⟨fin, m, hrun, -⟩ := run_spec ht hnc hcols pad hwf
  rw [hrun]

/-- Conservation and order, column by column: the emitted rows are exactly the input rows, in
order, followed by the padding (which therefore only ever extends the end of the last batch). -/
theorem C19_conserve {t nc numColumns : Nat} (ht : 0 < t) (hnc : 0 < nc)
    (hcols : numColumns = nc ∨ numColumns = 0) (pad : Option α) {bs : List (Batch α)}
    (hwf : WF nc bs) {c : Nat} (hc : c < nc) :
    colConcat (run t numColumns pad bs).out c = colConcat bs c ++ padding t pad (totalRows bs) := by
  obtain ⟨fin, m, hrun, _, _, _, _, _, hcons⟩ := run_spec ht hnc hcols pad hwf
  rw [hrun]; exact hcons c hc

/-- Every emitted batch is rectangular: `nc` columns (of a supported container kind), all with the
same number of rows — i.e. the output is again a well-formed stream. -/
theorem C19_rect {t nc numColumns : Nat} (ht : 0 < t) (hnc : 0 < nc)
    (hcols : numColumns = nc ∨ numColumns = 0) (pad : Option α) {bs : List (Batch α)}
    (hwf : WF nc bs) : WF nc (run t numColumns pad bs).out := by
  obtain ⟨fin, m, hrun, hfull, _, _, h0, h1, _⟩ := run_spec ht hnc hcols pad hwf
  rw [hrun]
  intro b hb
  rcases List.mem_append.mp hb with hb | hb
  · have := hfull b hb
    rw [this.nrows hnc]; exact this
  · rcases Nat.eq_zero_or_pos m with hm | hm
    · rw [h0 hm] at hb; simp at hb
    · obtain ⟨last, hl, hr⟩ := h1 hm
      rw [hl] at hb; simp only [List.mem_singleton] at hb; subst hb
      rw [hr.nrows hnc]; exact hr

/-- Batch sizes: every emitted batch but the last has exactly `t` rows; the last has between 1 and
`t` rows, exactly `t` when padding; and nothing is emitted iff the stream carries no row. -/
theorem C19_sizes {t nc numColumns : Nat} (ht : 0 < t) (hnc : 0 < nc)
    (hcols : numColumns = nc ∨ numColumns = 0) (pad : Option α) {bs : List (Batch α)}
    (hwf : WF nc bs) :
    (∀ j b, (run t numColumns pad bs).out[j]? = some b →
        j + 1 < (run t numColumns pad bs).out.length → nrows b = t) ∧
    (∀ b, (run t numColumns pad bs).out.getLast? = some b →
        1 ≤ nrows b ∧ nrows b ≤ t ∧ (pad.isSome → nrows b = t)) ∧
    ((run t numColumns pad bs).out = [] ↔ totalRows bs = 0) := by
  obtain ⟨fin, m, hrun, hfull, htot, hmt, h0, h1, _⟩ := run_spec ht hnc hcols pad hwf
  rw [hrun]; simp only
  generalize online t numColumns pad bs = full at *
  have hfulln : ∀ b ∈ full, nrows b = t := fun b hb => (hfull b hb).nrows hnc
  rcases Nat.eq_zero_or_pos m with hm | hm
  · rw [h0 hm, List.append_nil]
    refine ⟨?_, ?_, ?_⟩
    · intro j b hj _; exact hfulln b (List.mem_of_getElem? hj)
    · intro b hb
      have := hfulln b (List.mem_of_getLast? hb)
      omega
    · subst hm
      constructor
      · intro h; rw [htot, h]; simp
      · intro h; rw [h] at htot
        have : full.length * t = 0 := by omega
        rcases Nat.mul_eq_zero.mp this with h | h
        · exact List.length_eq_zero_iff.mp h
        · omega
  · obtain ⟨last, hl, hr⟩ := h1 hm
    rw [hl]
    have hlast := hr.nrows hnc
    refine ⟨?_, ?_, ?_⟩
    · intro j b hj hlt
      simp only [List.length_append, List.length_singleton] at hlt
      rw [List.getElem?_append_left (by omega)] at hj
      exact hfulln b (List.mem_of_getElem? hj)
    · intro b hb
      rw [List.getLast?_concat] at hb
      cases hb
      rw [hlast]
      cases pad <;> simp <;> omega
    · constructor
      · intro h; simp at h
      · intro h; omega

/-- Number of emitted batches: `⌈totalRows / t⌉`. -/
theorem C19_count {t nc numColumns : Nat} (ht : 0 < t) (hnc : 0 < nc)
    (hcols : numColumns = nc ∨ numColumns = 0) (pad : Option α) {bs : List (Batch α)}
    (hwf : WF nc bs) :
    (run t numColumns pad bs).out.length = (totalRows bs + t - 1) / t := by
  obtain ⟨fin, m, hrun, hfull, htot, hmt, h0, h1, _⟩ := run_spec ht hnc hcols pad hwf
  rw [hrun, htot]; simp only [List.length_append]
  generalize (online t numColumns pad bs).length = F
  rcases Nat.eq_zero_or_pos m with hm | hm
  · rw [h0 hm]; subst hm
    have : F * t + 0 + t - 1 = (t - 1) + t * F := by rw [Nat.mul_comm]; omega
    rw [this, Nat.add_mul_div_left _ _ ht, Nat.div_eq_of_lt (by omega)]; simp
  · obtain ⟨last, hl, _⟩ := h1 hm
    rw [hl]
    have : F * t + m + t - 1 = (m - 1) + t * (F + 1) := by
      rw [Nat.mul_add, Nat.mul_comm]; omega
    rw [this, Nat.add_mul_div_left _ _ ht, Nat.div_eq_of_lt (by omega)]; simp

/-- Alignment: row `i` of emitted batch `j` is, in *every* column `c`, element `offset + i` of
(input column `c` ++ padding), where `offset` = rows of the emitted batches before `j` — the same
global row index for all columns, so row `i` of every column comes from the same input row. -/
theorem C19_aligned {t nc numColumns : Nat} (ht : 0 < t) (hnc : 0 < nc)
    (hcols : numColumns = nc ∨ numColumns = 0) (pad : Option α) {bs : List (Batch α)}
    (hwf : WF nc bs) {c : Nat} (hc : c < nc) (j i : Nat) (b : Batch α)
    (hj : (run t numColumns pad bs).out[j]? = some b) (hi : i < nrows b) :
    (colRows b c)[i]? =
      (colConcat bs c ++ padding t pad (totalRows bs))[totalRows ((run t numColumns pad bs).out.take j) + i]? := by
  have hrect := C19_rect ht hnc hcols pad hwf
  rw [← C19_conserve ht hnc hcols pad hwf hc]
  generalize (run t numColumns pad bs).out = out at *
  have hb : Rect nc (nrows b) b := hrect b (List.mem_of_getElem? hj)
  have := getElem?_flatten_offset (out.map (colRows · c)) j i (colRows b c)
    (by simp [hj]) (by rw [hb.colRows_len hc]; exact hi)
  rw [← List.map_take, sum_length_colRows (hrect.take j) hc] at this
  exact this.symm

/-- The whole property as one equation on *rows* (a row = the tuple of the `i`-th elements of all
columns): the rows of the emitted batches, read across the columns, are exactly the input rows in
order, followed by the padding rows. -/
theorem C19_rows [Inhabited α] {t nc numColumns : Nat} (ht : 0 < t) (hnc : 0 < nc)
    (hcols : numColumns = nc ∨ numColumns = 0) (pad : Option α) {bs : List (Batch α)}
    (hwf : WF nc bs) :
    (run t numColumns pad bs).out.flatMap rowsOf =
      bs.flatMap rowsOf ++ (padding t pad (totalRows bs)).map fun p => List.replicate nc p := by
  have hrect := C19_rect ht hnc hcols pad hwf
  have hcons := fun c hc => C19_conserve ht hnc hcols pad hwf (c := c) hc
  generalize (run t numColumns pad bs).out = out at *
  have hlen : totalRows out = totalRows bs + (padding t pad (totalRows bs)).length := by
    rw [← length_colConcat hrect hnc, hcons 0 hnc, List.length_append, length_colConcat hwf hnc]
  rw [flatMap_rowsOf hrect, flatMap_rowsOf hwf, hlen,
    rowsOfCols_congr (Y := fun c => colConcat bs c ++ padding t pad (totalRows bs)) _ hcons,
    rowsOfCols_append _ (fun c hc => length_colConcat hwf hc)]
  congr 1
  cases pad with
  | none => simp [padding, rowsOfCols]
  | some p => simp only [padding, List.length_replicate, List.map_replicate]; exact rowsOfCols_replicate nc _ p

/-- Online behaviour: what has been yielded after consuming a prefix of the input is a prefix of
the final output (nothing is retracted), and it consists of *all* complete batches available so
far (only the remainder `totalRows pre % t` is withheld). -/
theorem C19_online {t nc numColumns : Nat} (ht : 0 < t) (hnc : 0 < nc)
    (hcols : numColumns = nc ∨ numColumns = 0) (pad : Option α) {pre post : List (Batch α)}
    (hwf : WF nc (pre ++ post)) :
    online t numColumns pad pre <+: (run t numColumns pad (pre ++ post)).out ∧
    (online t numColumns pad pre).length = totalRows pre / t ∧
    (∀ b ∈ online t numColumns pad pre, Rect nc t b) ∧
    ∀ c, c < nc → colConcat (online t numColumns pad pre) c = (colConcat pre c).take (totalRows pre / t * t) := by
  obtain ⟨hwf1, hwf2⟩ := WF.append.mp hwf
  obtain ⟨fin, m, hrun, _⟩ := run_spec ht hnc hcols pad hwf
  obtain ⟨fin1, m1, hrun1, hfull1, htot1, hmt1, _, _, _⟩ := run_spec ht hnc hcols pad hwf1
  have hlen : (online t numColumns pad pre).length = totalRows pre / t := by
    rw [htot1, Nat.mul_comm, Nat.mul_add_div ht, Nat.div_eq_of_lt hmt1]; simp
  refine ⟨?_, hlen, hfull1, ?_⟩
  · rw [hrun, online_eq ht hnc hcols pad hwf, online_eq ht hnc hcols pad hwf1,
      feed_append pad pre post _ (feed_spec ht hnc pad pre _ (Inv.init ht nc) hwf1).1]
    exact (List.prefix_append _ _).trans (List.prefix_append _ _)
  · intro c hc
    rw [← hlen]
    have h4 := (feed_spec ht hnc pad pre _ (Inv.init ht nc) hwf1).2.2.2 c
    rw [bufRows_init, List.nil_append, ← online_eq ht hnc hcols pad hwf1] at h4
    rw [← h4, List.take_left']
    rw [length_colConcat (wf_of_rect hnc hfull1) hc, totalRows_of_rect hnc hfull1]

/-- `batch_size = 0` passes the stream through unchanged. -/
theorem C19_identity (numColumns : Nat) (pad : Option α) (bs : List (Batch α)) :
    run 0 numColumns pad bs = ⟨bs, none⟩ := by
  simp [run]

/-- Error branch: after a well-formed prefix, a batch with a wrong number of columns or with
columns of unequal length makes the generator raise `ValueError`, having yielded exactly what it
yields online for the prefix (`nc` = the column count in force, given or deduced). -/
theorem C19_errors {t nc numColumns : Nat} (ht : 0 < t) (hnc : 0 < nc) (pad : Option α)
    {pre post : List (Batch α)} {bad : Batch α} (hwf : WF nc pre)
    (heff : effCols numColumns (pre ++ bad :: post) = nc)
    (hbad : bad.length ≠ nc ∨ ¬ ∀ c ∈ bad, c.rows.length = nrows bad) :
    run t numColumns pad (pre ++ bad :: post) = ⟨online t numColumns pad pre, some .value⟩ := by
  rw [run_eq_eff ht pad (by simp), heff, runFrom_eq_feed]
  obtain ⟨herr, ⟨m, _, hsh⟩, _, _⟩ := feed_spec ht hnc pad pre _ (Inv.init ht nc) hwf
  have hstep : step t nc pad (feed t nc pad (St.init nc) pre).st bad = .error .value := by
    rcases hbad with h | h
    · exact step_bad_cols pad _ h
    · by_cases hl : bad.length = nc
      · exact step_bad_lens pad hsh hnc hl h
      · exact step_bad_cols pad _ hl
  have hon : online t numColumns pad pre = (feed t nc pad (St.init nc) pre).out := by
    have ht0 : (t == 0) = false := by simp; omega
    unfold online
    simp only [ht0, Bool.false_eq_true, if_false]
    by_cases hp : pre = []
    · subst hp; simp [feed]
    · rw [← effCols_append (bad :: post) hp, heff]
  rw [feed_append pad pre (bad :: post) _ herr]
  simp [feed, hstep, hon]

/-- `TreeFn._iterate` with `fn_batch_size = fb` (any, 0 = off) and `batch_size = b > 0` around a
row-wise function (`mapRows g kinds`: applies `g` to every row; `kinds` = container kinds of the
output columns): never raises on a well-formed stream, and emits, column by column, `g` of the input
rows in order, regrouped into batches of `b` rows (all full but possibly the last, which is
non-empty) — independently of how the input was batched and of `fb`. -/
theorem C19_treefn {β : Type} [Inhabited α] [Inhabited β] {fb b nin : Nat} (hb : 0 < b)
    (hnin : 0 < nin) (g : List α → List β) {kinds : List Kind} (hk : ∀ k ∈ kinds, k ≠ .other)
    (hnout : 0 < kinds.length) {bs : List (Batch α)} (hwf : WF nin bs) :
    (treeFn fb b nin kinds.length (mapRows g kinds) bs).err = none ∧
    (∀ c, c < kinds.length →
      colConcat (treeFn fb b nin kinds.length (mapRows g kinds) bs).out c
        = (bs.flatMap rowsOf).map fun row => (g row).getD c default) ∧
    WF kinds.length (treeFn fb b nin kinds.length (mapRows g kinds) bs).out ∧
    (∀ j b', (treeFn fb b nin kinds.length (mapRows g kinds) bs).out[j]? = some b' →
      j + 1 < (treeFn fb b nin kinds.length (mapRows g kinds) bs).out.length → nrows b' = b) ∧
    (∀ b', (treeFn fb b nin kinds.length (mapRows g kinds) bs).out.getLast? = some b' →
      1 ≤ nrows b' ∧ nrows b' ≤ b) ∧
    (treeFn fb b nin kinds.length (mapRows g kinds) bs).out.length = (totalRows bs + b - 1) / b := by
  -- first stage
  have h1 : (run fb nin none bs).err = none ∧ WF nin (run fb nin none bs).out ∧
      ∀ c, c < nin → colConcat (run fb nin none bs).out c = colConcat bs c := by
    rcases Nat.eq_zero_or_pos fb with h | h
    · subst h; rw [C19_identity]; exact ⟨rfl, hwf, fun _ _ => rfl⟩
    · refine ⟨C19_no_error h hnin (Or.inl rfl) none hwf, C19_rect h hnin (Or.inl rfl) none hwf, ?_⟩
      intro c hc
      rw [C19_conserve h hnin (Or.inl rfl) none hwf hc]; simp [padding]
  obtain ⟨herr, hwf1, hcons1⟩ := h1
  have hrows : (run fb nin none bs).out.flatMap rowsOf = bs.flatMap rowsOf :=
    flatMap_rowsOf_congr hnin hwf1 hwf hcons1
  have htot : totalRows (run fb nin none bs).out = totalRows bs := by
    rw [← length_colConcat hwf1 hnin, ← length_colConcat hwf hnin, hcons1 0 hnin]
  simp only [treeFn, herr]
  generalize (run fb nin none bs).out = xs at *
  have hwf2 := wf_mapRows g hk hnout xs
  have htot2 := totalRows_mapRows g hk hnout xs
  obtain ⟨s1, s2, _⟩ := C19_sizes hb hnout (Or.inl rfl) none hwf2
  refine ⟨C19_no_error hb hnout (Or.inl rfl) none hwf2, ?_, C19_rect hb hnout (Or.inl rfl) none hwf2,
    s1, fun b' h => ⟨(s2 b' h).1, (s2 b' h).2.1⟩, ?_⟩
  · intro c hc
    rw [C19_conserve hb hnout (Or.inl rfl) none hwf2 hc, colConcat_mapRows g xs hc, hrows]
    simp [padding]
  · rw [C19_count hb hnout (Or.inl rfl) none hwf2, htot2, htot]

/-- `TreeFn._iterate` around a batch function that changes the number of rows (`flatMapRows g kinds`:
every input row yields a list of output rows — a filter, an expansion, …; intermediate batches may
be empty): with `batch_size = b > 0` and any `fn_batch_size = fb` (in particular `fb = b`) it never
raises on a well-formed stream and emits, column by column, the flat-map of `g` over the input rows
in order, regrouped into batches of exactly `b` rows (the last: `1..b`), `⌈N/b⌉` batches for `N`
output rows — independently of the incoming batching and of `fb`. -/
theorem C19_treefn_flatmap {β : Type} [Inhabited α] [Inhabited β] {fb b nin : Nat} (hb : 0 < b)
    (hnin : 0 < nin) (g : List α → List (List β)) {kinds : List Kind}
    (hk : ∀ k ∈ kinds, k ≠ .other) (hnout : 0 < kinds.length) {bs : List (Batch α)}
    (hwf : WF nin bs) :
    (treeFn fb b nin kinds.length (flatMapRows g kinds) bs).err = none ∧
    (∀ c, c < kinds.length →
      colConcat (treeFn fb b nin kinds.length (flatMapRows g kinds) bs).out c
        = ((bs.flatMap rowsOf).flatMap g).map fun row => row.getD c default) ∧
    WF kinds.length (treeFn fb b nin kinds.length (flatMapRows g kinds) bs).out ∧
    (∀ j b', (treeFn fb b nin kinds.length (flatMapRows g kinds) bs).out[j]? = some b' →
      j + 1 < (treeFn fb b nin kinds.length (flatMapRows g kinds) bs).out.length → nrows b' = b) ∧
    (∀ b', (treeFn fb b nin kinds.length (flatMapRows g kinds) bs).out.getLast? = some b' →
      1 ≤ nrows b' ∧ nrows b' ≤ b) ∧
    (treeFn fb b nin kinds.length (flatMapRows g kinds) bs).out.length
      = (((bs.flatMap rowsOf).flatMap g).length + b - 1) / b := by
  have h1 : (run fb nin none bs).err = none ∧ WF nin (run fb nin none bs).out ∧
      ∀ c, c < nin → colConcat (run fb nin none bs).out c = colConcat bs c := by
    rcases Nat.eq_zero_or_pos fb with h | h
    · subst h; rw [C19_identity]; exact ⟨rfl, hwf, fun _ _ => rfl⟩
    · refine ⟨C19_no_error h hnin (Or.inl rfl) none hwf, C19_rect h hnin (Or.inl rfl) none hwf, ?_⟩
      intro c hc
      rw [C19_conserve h hnin (Or.inl rfl) none hwf hc]; simp [padding]
  obtain ⟨herr, hwf1, hcons1⟩ := h1
  have hrows : (run fb nin none bs).out.flatMap rowsOf = bs.flatMap rowsOf :=
    flatMap_rowsOf_congr hnin hwf1 hwf hcons1
  simp only [treeFn, herr]
  generalize (run fb nin none bs).out = xs at *
  have hwf2 := wf_flatMapRows g hk hnout xs
  have htot2 := totalRows_flatMapRows g hk hnout xs
  obtain ⟨s1, s2, _⟩ := C19_sizes hb hnout (Or.inl rfl) none hwf2
  refine ⟨C19_no_error hb hnout (Or.inl rfl) none hwf2, ?_, C19_rect hb hnout (Or.inl rfl) none hwf2,
    s1, fun b' h => ⟨(s2 b' h).1, (s2 b' h).2.1⟩, ?_⟩
  · intro c hc
    rw [C19_conserve hb hnout (Or.inl rfl) none hwf2 hc, colConcat_flatMapRows g xs hc, hrows]
    simp [padding]
  · rw [C19_count hb hnout (Or.inl rfl) none hwf2, htot2, hrows]

/-! ## Padding never touches a real row (round 10)

Elements are abstract (`α` is any type: floats, strings, `None`, vectors, mixed Python objects, …) and
the model never computes with them, so "the value AND type of every real row is unchanged" is literal
equality of elements of `α`.  (What the model cannot say: that numpy *stores* the pad value in the
column's dtype — the correspondence reads a padding element of an array column that way — and that a
column keeps its dtype; both are compared element by element and batch by batch by the check.) -/

/-- **Padding only extends the last batch.**  The padded run is the un-padded run in which every
column of the final batch got copies of the pad value appended (`padT`: `rows ++ replicate (t - len) p`,
container kind untouched); all other batches are identical. -/
theorem C19_pad_only_extends_last {t nc numColumns : Nat} (ht : 0 < t) (hnc : 0 < nc)
    (hcols : numColumns = nc ∨ numColumns = 0) (p : α) {bs : List (Batch α)} (hwf : WF nc bs) :
    run t numColumns (some p) bs
      = ⟨mapLast (padT · p t) (run t numColumns none bs).out, none⟩ :=
  run_pad_eq ht hnc hcols p hwf

/-- **Padding only appends: every real row is unchanged.**  With `pad = p`, for every column `c`:
the first `totalRows bs` emitted elements are exactly the input elements, in order; everything behind
them is the pad value (`(t - n % t) % t` copies); and, position by position, element `i` of emitted
batch `j` is the input element with the same global index if that index is below the number of input
rows, and `p` otherwise. -/
theorem C19_pad_rows_unchanged {t nc numColumns : Nat} (ht : 0 < t) (hnc : 0 < nc)
    (hcols : numColumns = nc ∨ numColumns = 0) (p : α) {bs : List (Batch α)}
    (hwf : WF nc bs) {c : Nat} (hc : c < nc) :
    (colConcat (run t numColumns (some p) bs).out c).take (totalRows bs) = colConcat bs c ∧
    (colConcat (run t numColumns (some p) bs).out c).drop (totalRows bs)
      = List.replicate ((t - totalRows bs % t) % t) p ∧
    ∀ (j i : Nat) (b : Batch α), (run t numColumns (some p) bs).out[j]? = some b → i < nrows b →
      (totalRows ((run t numColumns (some p) bs).out.take j) + i < totalRows bs →
        (colRows b c)[i]? = (colConcat bs c)[totalRows ((run t numColumns (some p) bs).out.take j) + i]?) ∧
      (totalRows bs ≤ totalRows ((run t numColumns (some p) bs).out.take j) + i →
        (colRows b c)[i]? = some p) := by
  have hcons := C19_conserve ht hnc hcols (some p) hwf hc
  have hlen := length_colConcat hwf hc
  refine ⟨?_, ?_, ?_⟩
  · rw [hcons, List.take_left' hlen]
  · rw [hcons, List.drop_left' hlen]; simp [padding]
  · intro j i b hj hi
    have hal := C19_aligned ht hnc hcols (some p) hwf hc j i b hj hi
    have hrect := C19_rect ht hnc hcols (some p) hwf b (List.mem_of_getElem? hj)
    have hsome : i < (colRows b c).length := by rw [hrect.colRows_len hc]; exact hi
    generalize totalRows ((run t numColumns (some p) bs).out.take j) + i = g at *
    constructor
    · intro hg
      rw [hal, List.getElem?_append_left (by rw [hlen]; exact hg)]
    · intro hg
      rw [List.getElem?_append_right (by rw [hlen]; exact hg)] at hal
      simp only [padding, List.getElem?_replicate] at hal
      split at hal
      · exact hal
      · rw [List.getElem?_eq_getElem hsome] at hal; cases hal

/-! ## `TreeFn._iterate` with failing calls (round 10)

`treeFnGen skip fb b nin nout G bs` (`Model/RebatchGen.lean`) is the chain of lazy iterators of
`TreeFn._iterate(…, ignore_error=skip)` for a batch function `G` that may raise: first re-batcher →
guarded calls (`map_ignore_error` when `skip`) → second re-batcher.  Error skipping through
re-batching operators is property C12's statement (`C12_batched_failing_groups`,
`C12_batched_none_lost_after` on the pipeline model); what C19 adds is what happens to the **rows**:
those returned by successful calls are conserved — also the ones the second re-batcher is carrying
over when a later call fails. -/

/-- The iterator-level model extends `treeFn`: for a function that never raises it is `treeFn`, on
every well-formed stream, with and without skipping. -/
theorem C19_treefn_gen_total {β : Type} (skip : Bool) {fb b nin nout : Nat} (hnin : 0 < nin)
    (G : Batch α → Batch β) {bs : List (Batch α)} (hwf : WF nin bs) :
    treeFnGen skip fb b nin nout (fun x => .ok (G x)) bs = treeFn fb b nin nout G bs := by
  have hp := pulls_of_wf (fb := fb) hnin hwf
  have herr : (run fb nin none bs).err = none := by
    have := hp; simp only [Run.pulls] at this
    cases h : (run fb nin none bs).err with
    | none => rfl
    | some e => rw [h] at this; simp at this
  simp only [treeFnGen, treeFn, hp, herr, callMap_items_total, ignoreErr_items, ite_self, runEv_items]

/-- **Skipping on: the output is the re-batching of the results of the successful calls.**  For ANY
batch function (no condition on which calls fail, on what they return, or on state), every
`fn_batch_size`, every `batch_size` (also 0): what `TreeFn._iterate(…, ignore_error=True)` emits on a
well-formed stream is exactly `rebatched_args` run over the results of the calls that did not raise —
the groups (`run fb …`) in order, each failing group left out, nothing else disturbed.  Every C19
theorem about `run` (conservation, order, alignment, sizes, count) therefore applies to those results:
in particular rows the second re-batcher was carrying when a call failed are emitted. -/
theorem C19_treefn_skip {β : Type} {fb b nin nout : Nat} (hnin : 0 < nin)
    (G : Batch α → Except ErrKind (Batch β)) {bs : List (Batch α)} (hwf : WF nin bs) :
    treeFnGen true fb b nin nout G bs = run b nout none (okCalls G (run fb nin none bs).out) := by
  simp only [treeFnGen, pulls_of_wf hnin hwf, if_true, ignoreErr_callMap_items, runEv_items]

/-- **Rows carried across a failing call are not lost.**  If the groups the function is called with are
`pre ++ x :: post` and the call on `x` raises, then with skipping on the output is what it would be had
`x` never been in the stream: the re-batching of (results of `pre`) ++ (results of `post`).  When the
results are rectangular (`nout` columns): what had been yielded before the failing call stays yielded
(`online … (okCalls G pre)` is a prefix), and column by column the emitted rows are ALL rows returned by
the successful calls before the failure — including the `totalRows … % b` rows sitting in the carry
buffer at the failure — followed by all rows returned by the successful calls after it. -/
theorem C19_treefn_skip_carry {β : Type} {fb b nin nout : Nat} (hb : 0 < b) (hnin : 0 < nin)
    (hnout : 0 < nout) (G : Batch α → Except ErrKind (Batch β)) {bs : List (Batch α)}
    (hwf : WF nin bs) {pre post : List (Batch α)} {x : Batch α} {e : ErrKind}
    (hgroups : (run fb nin none bs).out = pre ++ x :: post) (hx : G x = .error e)
    (hG : ∀ y o, G y = .ok o → Rect nout (nrows o) o) :
    treeFnGen true fb b nin nout G bs = run b nout none (okCalls G pre ++ okCalls G post) ∧
    (treeFnGen true fb b nin nout G bs).err = none ∧
    online b nout none (okCalls G pre) <+: (treeFnGen true fb b nin nout G bs).out ∧
    ∀ c, c < nout → colConcat (treeFnGen true fb b nin nout G bs).out c
        = colConcat (okCalls G pre) c ++ colConcat (okCalls G post) c := by
  have hwfok : ∀ xs : List (Batch α), WF nout (okCalls G xs) := by
    intro xs o ho
    simp only [okCalls, List.mem_filterMap] at ho
    obtain ⟨y, -, hy⟩ := ho
    cases hGy : G y with
    | ok o' => rw [hGy] at hy; cases hy; exact hG y _ hGy
    | error e' => rw [hGy] at hy; cases hy
  have heq : treeFnGen true fb b nin nout G bs = run b nout none (okCalls G pre ++ okCalls G post) := by
    rw [C19_treefn_skip hnin G hwf, hgroups, okCalls_append, okCalls_cons_error G hx]
  have hwfall : WF nout (okCalls G pre ++ okCalls G post) := WF.append.mpr ⟨hwfok pre, hwfok post⟩
  refine ⟨heq, ?_, ?_, ?_⟩
  · rw [heq]; exact C19_no_error hb hnout (Or.inl rfl) none hwfall
  · rw [heq]; exact (C19_online hb hnout (Or.inl rfl) none hwfall).1
  · intro c hc
    rw [heq, C19_conserve hb hnout (Or.inl rfl) none hwfall hc, colConcat_append]
    simp [padding]

/-- **Skipping on, row-wise reading.**  For a batch function that raises on the groups satisfying
`bad` and otherwise is a row-wise flat-map `g` (filters, expansions, row-preserving maps): never
raises; emits, column by column, `g` of the rows of the groups that did not fail, in order —
regrouped into batches of exactly `b` rows (the last `1..b`), `⌈N/b⌉` batches. -/
theorem C19_treefn_skip_rows {β : Type} [Inhabited α] [Inhabited β] {fb b nin : Nat} (hb : 0 < b)
    (hnin : 0 < nin) (bad : Batch α → Bool) (g : List α → List (List β)) {kinds : List Kind}
    (hk : ∀ k ∈ kinds, k ≠ .other) (hnout : 0 < kinds.length) {bs : List (Batch α)}
    (hwf : WF nin bs) :
    (treeFnGen true fb b nin kinds.length (failingOn bad g kinds) bs).err = none ∧
    (∀ c, c < kinds.length →
      colConcat (treeFnGen true fb b nin kinds.length (failingOn bad g kinds) bs).out c
        = (((((run fb nin none bs).out.filter fun x => !bad x).flatMap rowsOf).flatMap g).map
            fun row => row.getD c default)) ∧
    WF kinds.length (treeFnGen true fb b nin kinds.length (failingOn bad g kinds) bs).out ∧
    (∀ j b', (treeFnGen true fb b nin kinds.length (failingOn bad g kinds) bs).out[j]? = some b' →
      j + 1 < (treeFnGen true fb b nin kinds.length (failingOn bad g kinds) bs).out.length →
      nrows b' = b) ∧
    (∀ b', (treeFnGen true fb b nin kinds.length (failingOn bad g kinds) bs).out.getLast? = some b' →
      1 ≤ nrows b' ∧ nrows b' ≤ b) ∧
    (treeFnGen true fb b nin kinds.length (failingOn bad g kinds) bs).out.length
      = ((((((run fb nin none bs).out.filter fun x => !bad x).flatMap rowsOf).flatMap g).length) + b - 1) / b := by
  rw [C19_treefn_skip hnin _ hwf, okCalls_failingOn]
  generalize (run fb nin none bs).out.filter (fun x => !bad x) = xs
  have hwf2 := wf_flatMapRows g hk hnout xs
  have htot2 := totalRows_flatMapRows g hk hnout xs
  obtain ⟨s1, s2, _⟩ := C19_sizes hb hnout (Or.inl rfl) none hwf2
  refine ⟨C19_no_error hb hnout (Or.inl rfl) none hwf2, ?_, C19_rect hb hnout (Or.inl rfl) none hwf2,
    s1, fun b' h => ⟨(s2 b' h).1, (s2 b' h).2.1⟩, ?_⟩
  · intro c hc
    rw [C19_conserve hb hnout (Or.inl rfl) none hwf2 hc, colConcat_flatMapRows g xs hc]
    simp [padding]
  · rw [C19_count hb hnout (Or.inl rfl) none hwf2, htot2]

/-- **Skipping off: the first failing call ends the run.**  If the groups are `pre ++ x :: post`, the
calls on `pre` succeed (with rectangular results `F y`) and the call on `x` raises, then
`TreeFn._iterate` raises `ValueError` (`_maybe_call_fn` wraps whatever the function raised) having
emitted exactly the complete batches of the results of `pre` (`online`: nothing is retracted, the rows
in the carry buffer are not delivered), whatever `post` is. -/
theorem C19_treefn_fail_noskip {β : Type} {fb b nin nout : Nat} (hb : 0 < b) (hnin : 0 < nin)
    (hnout : 0 < nout) (G : Batch α → Except ErrKind (Batch β)) (F : Batch α → Batch β)
    {bs : List (Batch α)} (hwf : WF nin bs) {pre post : List (Batch α)} {x : Batch α} {e : ErrKind}
    (hgroups : (run fb nin none bs).out = pre ++ x :: post)
    (hpre : ∀ y ∈ pre, G y = .ok (F y)) (hx : G x = .error e) (hF : WF nout (pre.map F)) :
    treeFnGen false fb b nin nout G bs = ⟨online b nout none (pre.map F), some .value⟩ := by
  have hb0 : (b == 0) = false := by simp; omega
  have hn0 : (nout != 0) = true := by simp; omega
  simp only [treeFnGen, pulls_of_wf hnin hwf, hgroups, List.map_append, List.map_cons,
    Bool.false_eq_true, if_false, callMap_prefix_fail G F pre x e _ hpre hx, runEv, hb0, hn0, if_true,
    runEvFrom_items_raise, List.nil_append]
  obtain ⟨herr, -⟩ := feed_spec hb hnout none (pre.map F) _ (Inv.init hb nout) hF
  rw [herr, online_eq hb hnout (Or.inl rfl) none hF]

/-! ### functions with private state

The user function is any Python callable: it may keep state between calls (a counter, a cache), so the
result of a call may depend on the calls before it — including the failing ones (`treeFnGenS`, state
`σ` threaded through the calls in order).  The statements above are the special case `σ = Unit`. -/

/-- a function that ignores its state: the stateful chain is the stateless one -/
theorem C19_treefn_gen_stateless {β : Type} (skip : Bool) (fb b nin nout : Nat)
    (G : Batch α → Except ErrKind (Batch β)) (bs : List (Batch α)) :
    treeFnGenS skip fb b nin nout (fun (u : Unit) x => (G x, u)) () bs
      = treeFnGen skip fb b nin nout G bs := by
  simp only [treeFnGenS, treeFnGen, callMapS_const]

/-- `C19_treefn_skip` for ANY function with ANY state: with skipping on the output is the re-batching
of the results of the calls that did not raise (the state runs through all calls, failing ones too). -/
theorem C19_treefn_skip_stateful {β σ : Type} {fb b nin nout : Nat} (hnin : 0 < nin)
    (G : σ → Batch α → Except ErrKind (Batch β) × σ) (s0 : σ) {bs : List (Batch α)}
    (hwf : WF nin bs) :
    treeFnGenS true fb b nin nout G s0 bs
      = run b nout none (okCallsS G s0 (run fb nin none bs).out) := by
  simp only [treeFnGenS, pulls_of_wf hnin hwf, if_true, ignoreErr_callMapS_items, runEv_items]

/-- `C19_treefn_skip_carry` for ANY function with ANY state: the groups are `pre ++ x :: post`, the
call on `x` (made in the state the calls on `pre` left) raises and leaves state `s'`.  Then the output
is the re-batching of (results of `pre`) ++ (results of `post` computed from `s'`): nothing yielded
before is retracted, and every row returned by a successful call before the failure — the carried
ones included — is emitted, followed by every row of the successful calls after it. -/
theorem C19_treefn_skip_carry_stateful {β σ : Type} {fb b nin nout : Nat} (hb : 0 < b)
    (hnin : 0 < nin) (hnout : 0 < nout) (G : σ → Batch α → Except ErrKind (Batch β) × σ) (s0 : σ)
    {bs : List (Batch α)} (hwf : WF nin bs) {pre post : List (Batch α)} {x : Batch α} {e : ErrKind}
    (hgroups : (run fb nin none bs).out = pre ++ x :: post)
    (hx : (G (stateAfter G s0 pre) x).1 = .error e)
    (hG : ∀ s y o, (G s y).1 = .ok o → Rect nout (nrows o) o) :
    treeFnGenS true fb b nin nout G s0 bs
      = run b nout none
          (okCallsS G s0 pre ++ okCallsS G (G (stateAfter G s0 pre) x).2 post) ∧
    (treeFnGenS true fb b nin nout G s0 bs).err = none ∧
    online b nout none (okCallsS G s0 pre) <+: (treeFnGenS true fb b nin nout G s0 bs).out ∧
    ∀ c, c < nout → colConcat (treeFnGenS true fb b nin nout G s0 bs).out c
        = colConcat (okCallsS G s0 pre) c
            ++ colConcat (okCallsS G (G (stateAfter G s0 pre) x).2 post) c := by
  have hwfok : ∀ (xs : List (Batch α)) (s : σ), WF nout (okCallsS G s xs) := by
    intro xs
    induction xs with
    | nil => intro s o ho; simp [okCallsS] at ho
    | cons y xs ih =>
      intro s
      simp only [okCallsS]
      rcases hGy : G s y with ⟨r, s'⟩
      cases r with
      | ok o =>
        simp only
        rw [WF.cons]
        exact ⟨hG s y o (by rw [hGy]), ih s'⟩
      | error e' => exact ih s'
  have heq : treeFnGenS true fb b nin nout G s0 bs
      = run b nout none (okCallsS G s0 pre ++ okCallsS G (G (stateAfter G s0 pre) x).2 post) := by
    rw [C19_treefn_skip_stateful hnin G s0 hwf, hgroups, okCallsS_append]
    congr 2
    simp only [okCallsS]
    rcases hGx : G (stateAfter G s0 pre) x with ⟨r, s'⟩
    rw [hGx] at hx
    simp only at hx
    subst hx
    rfl
  have hwfall := WF.append.mpr ⟨hwfok pre s0, hwfok post (G (stateAfter G s0 pre) x).2⟩
  refine ⟨heq, ?_, ?_, ?_⟩
  · rw [heq]; exact C19_no_error hb hnout (Or.inl rfl) none hwfall
  · rw [heq]; exact (C19_online hb hnout (Or.inl rfl) none hwfall).1
  · intro c hc
    rw [heq, C19_conserve hb hnout (Or.inl rfl) none hwfall hc, colConcat_append]
    simp [padding]


/-! ## Non-vacuity and sanity tests (concrete instances, by `decide`; `+kernel` because `sliced`
is defined by well-founded recursion) -/

-- the hypotheses of the theorems are satisfiable by a non-trivial stream (2 columns, sizes 5 and 1)
example : WF 2 sampleStream := by decide
example : WF 2 (sampleStream ++ sampleStream) := by decide
-- ... for both ways of giving the column count
example : (2 = 2 ∨ 2 = 0) ∧ (0 = 2 ∨ 0 = 0) := by decide
-- hypotheses of `C19_errors`: a ragged batch after a well-formed prefix, column count deduced
example : effCols 0 (sampleStream ++ sampleRagged :: []) = 2 ∧
    (sampleRagged.length ≠ 2 ∨ ¬ ∀ c ∈ sampleRagged, c.rows.length = nrows sampleRagged) := by decide
-- hypotheses of `C19_treefn`
example : (∀ k ∈ [Kind.list], k ≠ Kind.other) ∧ 0 < [Kind.list].length := by decide
-- `WF` rejects what it should
example : ¬ WF 2 [sampleRagged] := by decide
example : ¬ WF 1 sampleStream := by decide
example : ¬ WF 1 [[(⟨.other, [1]⟩ : Col Nat)]] := by decide

-- the model on the sample: target 2 (multi-slice flush, exact fit after the carry)
example : run 2 0 none sampleStream =
    ⟨[[⟨.list, [0, 1]⟩, ⟨.array, [10, 11]⟩], [⟨.list, [2, 3]⟩, ⟨.array, [12, 13]⟩],
      [⟨.list, [4, 5]⟩, ⟨.array, [14, 15]⟩]], none⟩ := by decide +kernel
-- target 4 with padding: only the final batch is extended
example : run 4 2 (some 99) sampleStream =
    ⟨[[⟨.list, [0, 1, 2, 3]⟩, ⟨.array, [10, 11, 12, 13]⟩],
      [⟨.list, [4, 5, 99, 99]⟩, ⟨.array, [14, 15, 99, 99]⟩]], none⟩ := by decide +kernel
-- online: after the first input batch two full batches are out, row 4 is withheld
example : online 2 0 none (sampleStream.take 1) =
    [[⟨.list, [0, 1]⟩, ⟨.array, [10, 11]⟩], [⟨.list, [2, 3]⟩, ⟨.array, [12, 13]⟩]] := by
  decide +kernel
-- error branch
example : run 2 0 none (sampleStream ++ [sampleRagged]) =
    ⟨online 2 0 none sampleStream, some .value⟩ := by decide +kernel
-- TreeFn with a row-count-changing function and fn_batch_size = batch_size = 2: every row twice
-- (the 6 input rows become 12, in 6 batches of exactly 2), and a filter whose intermediate
-- batches are partly empty (rows with an even first component: 0, 2, 4 → batches [0,2], [4])
example : (treeFn 2 2 2 2 (flatMapRows (fun r => [r, r]) [.list, .array]) sampleStream).out.map nrows
    = [2, 2, 2, 2, 2, 2] := by decide +kernel
example : treeFn 2 2 2 1 (flatMapRows (fun r => if r.headD 0 % 2 = 0 then [[r.headD 0]] else []) [.list])
    sampleStream = ⟨[[⟨.list, [0, 2]⟩], [⟨.list, [4]⟩]], none⟩ := by decide +kernel
-- TreeFn: fn_batch_size 4, batch_size 3, row-wise sum of the two columns
example : treeFn 4 3 2 1 (mapRows sampleSum [.list]) sampleStream =
    ⟨[[⟨.list, [10, 12, 14]⟩], [⟨.list, [16, 18, 20]⟩]], none⟩ := by decide +kernel

-- round 10 -------------------------------------------------------------------------------------
-- padding: only the final batch is extended, the real rows stay (target 4, 6 rows, pad 99)
example : run 4 2 (some 99) sampleStream
    = ⟨mapLast (padT · 99 4) (run 4 2 none sampleStream).out, none⟩ := by decide +kernel
example : (colConcat (run 4 2 (some 99) sampleStream).out 1).take 6 = [10, 11, 12, 13, 14, 15] ∧
    (colConcat (run 4 2 (some 99) sampleStream).out 1).drop 6 = [99, 99] := by decide +kernel
-- hypotheses of `C19_treefn_skip_carry` / `C19_treefn_fail_noskip`: fn_batch_size 2 cuts the sample into the
-- groups [0,1] [2,3] [4,5]; the call on [2,3] raises; batch_size 3: rows 0, 1 sit in the carry buffer then
example : (run 2 2 none sampleStream).out
      = [[⟨.list, [0, 1]⟩, ⟨.array, [10, 11]⟩]] ++ [⟨.list, [2, 3]⟩, ⟨.array, [12, 13]⟩] ::
        [[⟨.list, [4, 5]⟩, ⟨.array, [14, 15]⟩]] ∧
    raised (sampleFailing [⟨.list, [2, 3]⟩, ⟨.array, [12, 13]⟩]) = true ∧
    raised (sampleFailing [⟨.list, [0, 1]⟩, ⟨.array, [10, 11]⟩]) = false := by decide +kernel
-- ... skipping on: the carried rows 0, 1 come out together with row 4, then row 5
example : treeFnGen true 2 3 2 2 sampleFailing sampleStream =
    ⟨[[⟨.list, [0, 1, 4]⟩, ⟨.array, [10, 11, 14]⟩], [⟨.list, [5]⟩, ⟨.array, [15]⟩]], none⟩ := by
  decide +kernel
-- ... skipping off: ValueError, nothing had been completed (rows 0, 1 are withheld)
example : treeFnGen false 2 3 2 2 sampleFailing sampleStream = ⟨[], some .value⟩ := by decide +kernel
-- ... skipping off with batch_size 1: rows 0, 1 were delivered before the error
example : treeFnGen false 2 1 2 2 sampleFailing sampleStream =
    ⟨[[⟨.list, [0]⟩, ⟨.array, [10]⟩], [⟨.list, [1]⟩, ⟨.array, [11]⟩]], some .value⟩ := by decide +kernel

-- a function with state (`countingOn`: the k-th call, failing ones counted, adds 100·k to every element): the call on
-- [2,3] is call 1 and raises; the call on [4,5] is call 2 — its rows come out as 204/214, 205/215 behind the carried rows
example : treeFnGenS true 2 3 2 2
      (countingOn (fun b => (b.headD default).rows.contains 2) (fun k r => [r.map (· + 100 * k)]) [.list, .array]) 0
      sampleStream =
    ⟨[[⟨.list, [0, 1, 204]⟩, ⟨.array, [10, 11, 214]⟩], [⟨.list, [205]⟩, ⟨.array, [215]⟩]], none⟩ := by
  decide +kernel

end MlModel.C19
