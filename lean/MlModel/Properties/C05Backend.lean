import MlModel.Properties.C04Backend
import MlModel.Properties.C05Live
import MlModel.Properties.C05Observe
/-!
# C05 — failures and stop requests over every queue BACKEND

The fault events of C05 (a producer's source raises, `maybe_stop(exc?)`, expired waits) live in the same LTS; the
backend only enters through the three steps that look at exception CLASSES (`Model/QueueBackend.lean`).  By
`C04_backend_reachable_iff` the configurations reachable over `queue.Queue`, `queue.SimpleQueue` and `asyncio.Queue` —
with the `except` clauses as they stand in the source (`Generated/QueueExc.lean`, read by `translate/queue_exc.py` on
every run) — are the LTS's, so the C05 theorems hold over each of them.  What is specific to C05: under faults the
exceptions in flight out of `get_nowait` are of THREE kinds (the backend's Empty, `StopIteration`, the recorded failure
/ `TimeoutError`), and the failure must never be mistaken for "empty" (the consumer would park instead of raising):
`C05_backend_failure_is_not_empty`.
-/
namespace MlModel.C05
open MlModel.Queue MlModel.QueueBackend MlModel.C04
open MlModel.Generated.QueueExc (handlers)

variable {cap maxEnq : Nat} {to ig : Bool} {progs : List Prog} {c c' : Cfg} {b : Backend}

theorem C05_backend_reachable (hb : b ∈ pythonBackends) (hcap : b.capOk cap = true) :
    ReachableB handlers b (init cap maxEnq to ig progs) c ↔ Reachable (init cap maxEnq to ig progs) c :=
  C04_backend_reachable_iff (C04_backend_contracts b hb) (C04_backend_python_classified b hb)
    (by simpa [init] using hcap)

/-- Over every CPython backend, with the source's clauses: a recorded failure (or `TimeoutError`, or the end of the
stream) in flight out of `get_nowait` is never treated as "buffer empty" — `get` lets it leave (`gRaise`), `get_batch`
hands it to its stop / error clause — whatever the failure's class. -/
theorem C05_backend_failure_is_not_empty (hb : b ∈ pythonBackends) (cl : Caller) (x : Raise) (hx : x ≠ .empty)
    (s : Shared) (t : Thread) :
    ∃ t', afterRaiseCode handlers b cl x s t = .ok (s, t') ∧
      (t'.pc = .gRaise ∨ t'.pc = .bRaise ∨ t'.pc = .bExit) ∧
      ((t'.pc = .gRaise ∨ t'.pc = .bRaise) → t'.x = x) := by
  have hcl := C04_backend_python_classified b hb
  rw [C04_backend_after_raise_refines hcl]
  cases cl <;> cases x <;> simp only [afterRaise, ne_eq, not_true_eq_false] at hx ⊢ <;>
    (repeat' split) <;> simp

/-- **No deadlock under faults over every backend** (`C05_no_deadlock` transferred). -/
theorem C05_backend_no_deadlock (hb : b ∈ pythonBackends) (hcap : b.capOk cap = true) (hwf : WF_enq maxEnq progs)
    (hPC : to = true ∨
      ((0 < maxEnq ∨ (∃ p ∈ progs, p.isStopper = true) ∨ ¬ ∃ p ∈ progs, p.isCons = true) ∧
       (cap = 0 ∨ (∃ p ∈ progs, p.isCons = true) ∨ ∃ p ∈ progs, p.isStopper = true)))
    (h : ReachableB handlers b (init cap maxEnq to ig progs) c) :
    c.allDone = true ∨ ∃ tid alt r, stepB handlers b c tid alt = .ok (some r) := by
  have hr := (C05_backend_reachable hb hcap).mp h
  rcases C05_no_deadlock hwf hPC hr with h1 | h1
  · exact .inl h1
  · right
    obtain ⟨⟨tid, alt⟩, hm⟩ := List.exists_mem_of_ne_nil _ h1
    unfold enabled at hm
    simp only [List.mem_flatMap, List.mem_range, List.mem_map, List.mem_filter, List.mem_cons, List.mem_nil_iff,
      or_false, Prod.mk.injEq] at hm
    obtain ⟨tid', _, alt', ⟨_, hs⟩, rfl, rfl⟩ := hm
    obtain ⟨r, hr'⟩ := Option.isSome_iff_exists.mp hs
    refine ⟨tid', alt', r, ?_⟩
    rw [C04_backend_python_refines hb (by rw [cap_reachable hr]; simpa [init] using hcap), hr']

/-- **A late consumer observes the failure over every backend** (`C05_late_consumer_observes_failure` transferred): a
failure on record at `c`, any continuation to `c'` over the backend; a consumer that had not started at `c` and has
left its loop at `c'` ended with an exception — never `StopIteration`, never the backend's Empty. -/
theorem C05_backend_late_consumer_observes_failure (hb : b ∈ pythonBackends) (hcap : b.capOk cap = true)
    (h0 : ReachableB handlers b (init cap maxEnq to ig progs) c) (hexc : c.sh.exc.isSome = true)
    (h : ReachableB handlers b c c')
    {u : Tid} {t t' : Thread} (ht : c.ths[u]? = some t) (ht' : c'.ths[u]? = some t')
    (hcons : isCons t = true) (hstart : t.pc = .start) (hdone : t'.pc = .done) :
    ∃ e, t'.outcome = some (.err e) := by
  have hr0 := (C05_backend_reachable hb hcap).mp h0
  have hr : Reachable c c' :=
    (C04_backend_reachable_iff (C04_backend_contracts b hb) (C04_backend_python_classified b hb)
      (by rw [cap_reachable hr0]; simpa [init] using hcap)).mp h
  exact C05_late_consumer_observes_failure hr0 hexc hr ht ht' hcons hstart hdone

/-- the hypotheses are satisfiable (test): a bounded asyncio-backed queue, one failing producer, one consumer -/
example : asyncioQueue ∈ pythonBackends ∧ asyncioQueue.capOk 1 = true ∧
    WF_enq 1 [.producer [.val 1, .fail] 0, .getLoop] :=
  ⟨by simp [pythonBackends], by decide, by decide⟩

end MlModel.C05
