import MlModel.Model.Queue
namespace MlModel.C04
open MlModel.Queue
theorem C04_placeholder : (init 0 1 false false []).allDone = true := by decide
end MlModel.C04
