import MlModel.Lemmas.QueueProd
/-!
# C04 — iterator queues deliver every element exactly once (safety part)

All theorems quantify over **every** reachable configuration of the LTS of
`Model/Queue.lean`: any number of producers, `get`-loop consumers, `get_batch`-loop consumers
(any batch size, blocking or not) and stoppers, any capacity (0 = unbounded), with or without a
timeout, and any schedule (`Reachable` = reflexive-transitive closure of `step` over all
scheduler choices, timeout alternatives included).

Proved here: mutual exclusion / lock discipline, exactly-once (conservation as a multiset
equation), FIFO per consumer, per-producer order at every consumer.  The liveness half of C04
(no deadlock, termination, final state) is in `Properties/C04Live.lean`.
-/
namespace MlModel.C04
open MlModel.Queue

variable {cap maxEnq : Nat} {to ig : Bool} {progs : List Prog} {c : Cfg}

/-- **Mutual exclusion**: two threads are never both at program points that own the same lock
(dequeue condition, enqueue condition, state lock).  In particular every `notify`, `wait`
and `release` is executed by the owner (the real code would raise `RuntimeError` otherwise). -/
theorem C04_mutex (h : Reachable (init cap maxEnq to ig progs) c) (l : Lk)
    {i j : Tid} {ti tj : Thread} (hi : c.ths[i]? = some ti) (hj : c.ths[j]? = some tj)
    (hhi : holds l ti.pc = true) (hhj : holds l tj.pc = true) : i = j := by
  have inv := lockInv_reachable (lockInv_init cap maxEnq to ig progs) h
  have h1 := (inv.1 i ti hi l).mpr hhi
  have h2 := (inv.1 j tj hj l).mpr hhj
  rw [h1] at h2
  exact Option.some.inj h2

/-- A lock's recorded owner is exactly the thread whose program point says it holds the lock. -/
theorem C04_owner_iff (h : Reachable (init cap maxEnq to ig progs) c) (l : Lk)
    {i : Tid} {ti : Thread} (hi : c.ths[i]? = some ti) :
    c.sh.owner l = some i ↔ holds l ti.pc = true :=
  (lockInv_reachable (lockInv_init cap maxEnq to ig progs) h).1 i ti hi l

/-- **Exactly once**: as multisets, everything ever put into the queue = what is still queued
+ what each consumer holds (delivered, collected in its current batch, or in hand)
+ what a raising `get_batch` dropped.  No element is duplicated and none vanishes. -/
theorem C04_exactly_once (h : Reachable (init cap maxEnq to ig progs) c) :
    c.sh.produced.Perm (c.sh.q ++ sumSeq c.ths ++ c.sh.lost) := by
  have inv := dataInv_reachable (dataInv_init cap maxEnq to ig progs) h
  rw [inv.fifo]
  have := inv.cons
  rw [List.perm_iff_count] at this ⊢
  intro e; have := this e
  simp only [List.count_append] at this ⊢; omega

/-- **FIFO**: what a consumer has received so far (and holds) is a subsequence of the global
enqueue order. -/
theorem C04_fifo_consumer (h : Reachable (init cap maxEnq to ig progs) c) {t : Thread}
    (ht : t ∈ c.ths) : t.received.Sublist c.sh.produced := by
  have inv := dataInv_reachable (dataInv_init cap maxEnq to ig progs) h
  have h1 : t.received.Sublist (seqOf t) := by
    unfold seqOf; rw [List.append_assoc]; exact List.sublist_append_left _ _
  have h2 : c.sh.dequeued.Sublist c.sh.produced := by
    rw [inv.fifo]; exact List.sublist_append_left _ _
  exact (h1.trans (inv.sub t ht)).trans h2

/-- Each producer enqueues (a subsequence of) its source values, in source order. -/
theorem C04_fifo_producer (h : Reachable (init cap maxEnq to ig progs) c) {tid : Tid} {t : Thread}
    {src : List Item} {r : Nat} (ht : c.ths[tid]? = some t) (hp : t.prog = .producer src r) :
    (producedBy tid c.sh.produced).Sublist (vals src) := by
  have inv := prodInv_reachable (dataInv_init cap maxEnq to ig progs)
    (prodInv_init cap maxEnq to ig progs) h
  exact (List.sublist_append_left _ _).trans (inv.order tid t src r ht hp)

/-- **Per-producer order at every consumer**: the values of producer `p` that consumer `t` has
received appear in the order of `p`'s source iterator. -/
theorem C04_per_producer_order (h : Reachable (init cap maxEnq to ig progs) c) {t : Thread}
    (ht : t ∈ c.ths) {p : Tid} {tp : Thread} {src : List Item} {r : Nat}
    (hp : c.ths[p]? = some tp) (hprog : tp.prog = .producer src r) :
    (producedBy p t.received).Sublist (vals src) := by
  have h1 := C04_fifo_consumer h ht
  have h2 : (producedBy p t.received).Sublist (producedBy p c.sh.produced) := by
    unfold producedBy
    exact (h1.filter _).map _
  exact h2.trans (C04_fifo_producer h hp hprog)

/-- Nothing is invented: every received element was put by some producer step. -/
theorem C04_received_mem (h : Reachable (init cap maxEnq to ig progs) c) {t : Thread}
    (ht : t ∈ c.ths) {e : Elem} (he : e ∈ t.received) : e ∈ c.sh.produced :=
  (C04_fifo_consumer h ht).subset he

/-! ### Non-vacuity: concrete reachable configurations (these are tests of the definitions) -/

theorem reachable_of_replay : ∀ (sched : List (Tid × Bool)) (c : Cfg) (acc : List (Tid × String))
    {tr : List (Tid × String)} {c' : Cfg}, replay c sched acc = (tr, c', true) → Reachable c c' := by
  intro sched
  induction sched with
  | nil => intro c acc tr c' h; simp only [replay, Prod.mk.injEq] at h; rw [← h.2.1]; exact .init
  | cons x xs ih =>
    intro c acc tr c' h
    obtain ⟨tid, alt⟩ := x
    simp only [replay] at h
    split at h
    · simp at h
    · rename_i lbl c1 hs
      have h1 := ih c1 _ h
      clear h ih
      induction h1 with
      | init => exact .step .init hs
      | step _ hs2 ih2 => exact .step ih2 hs2

theorem reachable_replay (c : Cfg) (sched : List (Tid × Bool))
    (h : (replay c sched []).2.2 = true) : Reachable c (replay c sched []).2.1 :=
  reachable_of_replay sched c [] (tr := (replay c sched []).1) (by rw [← h])

/-- one producer `[5]` and one `get` consumer, capacity 1: after this schedule the element sits in
the consumer's hand: the hypotheses of the theorems above are met by a non-trivial configuration -/
example : ∃ c, Reachable (init 1 1 false false [.producer [.val 5] 9, .getLoop]) c ∧
    c.sh.produced = [(0, 5)] ∧ c.sh.q = [] ∧ sumSeq c.ths = [(0, 5)] :=
  ⟨_, reachable_replay (init 1 1 false false [.producer [.val 5] 9, .getLoop])
    ([0,0,0,0,0,0,0,0,1,1,1,1].map (·, false)) (by decide), by decide⟩

end MlModel.C04
