import MlModel.Lemmas.PrefetchReplay
import MlModel.Properties.C04
/-!
# C15 — counter-example theorems for the findings (concrete instances, decided by evaluation)

* `F7_witness` (fixed in the server path, d6d0516): `IteratorQueue.get_batch` **without** `keep_partial`
  (the default, which upstream's own tests pin) drops the elements it has already dequeued when it then
  meets the enqueuer's exception.  The queue LTS records the drop in the ghost field `lost`.
* `F27_witness` (open): the protocol has no session identity.  A client whose generator is replaced
  between two of its requests silently continues on the new generator: it yields elements of two
  generators and ends on the new generator's end marker.
-/
namespace MlModel.C15W
open MlModel.Prefetch

/-- the schedule of a run of the real `IteratorQueue`: producer `[7, fail]`, one `get_batch(2, block=True)` caller -/
def schedF7 : List (Queue.Tid × Bool) :=
  ([1, 1, 1, 1, 1, 1, 1, 0, 0, 0, 0, 0, 0, 0, 0, 0, 0, 0, 0, 1, 1, 1, 1, 1, 1, 1, 1, 1, 1, 1, 1, 1, 1, 1, 0, 0,
    0, 0, 0, 0, 0, 0, 1, 1, 1, 1, 1, 1, 0, 0, 0, 0, 0, 0, 0] : List Nat).map (·, false)

/-- **F7**: with the default `get_batch`, the element 7 produced before the failure is delivered to nobody:
the consumer ends with the exception having received nothing, and 7 is in `lost`. -/
theorem F7_witness : ∃ c, Queue.Reachable (Queue.init 1 0 false false [.producer [.val 7, .fail] 9, .batchLoop 2 true]) c ∧
    c.sh.lost = [(0, 7)] ∧ c.allDone = true ∧
    c.ths.map (fun t => (t.received, t.outcome)) = [([], some (.err .value)), ([], some (.err .value))] :=
  ⟨_, MlModel.C04.reachable_replay _ schedF7 (by decide), by decide⟩

/-- the schedule of a run of the real (repaired) server: a client on generator `[0]` (return value 900)
and a concurrent `init_generator` of `[100]` (return value 901), prefetch 1, batch 1 -/
def schedF27 : List Queue.Tid :=
  [1, 1, 1, 1, 1, 1, 1, 1, 1, 1, 1, 1, 1, 3, 3, 3, 3, 3, 3, 3, 3, 3, 3, 3, 3, 1, 1, 1, 1, 1, 1, 1, 1, 2, 2, 2, 2,
   0, 0, 0, 1, 3, 3, 2, 2, 2, 2, 2, 2, 2, 2, 2, 2, 2, 2, 4, 4, 4, 4, 4, 4, 4, 4, 4, 4, 4, 4, 4, 4, 4, 4, 4, 4, 4,
   4, 4, 4, 4, 4, 4, 4, 4, 0, 0, 0, 0, 1, 1, 1, 1, 1, 1, 1, 1, 1, 1, 1, 1, 1, 1]

/-- **F27**: the client of generator `[0]` yields `[0, 100]` and ends on `StopIteration(901)` — the
elements and the end marker of the generator another request installed in the meantime.  (So the
one-client hypothesis of `C15_faithful_partial` cannot be dropped.) -/
theorem F27_witness : ∃ c, Reachable (init 1 [.client ⟨[.val 0], 900⟩ 1, .initIter ⟨[.val 100], 901⟩]) c ∧
    obs c 1 = some (true, [0, 100], some (.stop [901])) :=
  ⟨_, reachable_replay _ schedF27 (by decide), by decide⟩

end MlModel.C15W
