import MlModel.Model.PipeLib
/-!
# Witnesses for the open findings of C12 (concrete instances, evaluated by the kernel)

* **F5** — `assign(..., batch_size=1, fn_batch_size=1)` with error skipping over 7 one-row batches of
  which the 4th fails: the real runner yields 3 records and ends *without an error*; the same
  operator without batch sizes yields the 6 survivors.  The model reproduces it because
  `rebatched_args` is a *generator* (`Impl.rebatchGen` ends at the first error that passes through it)
  wrapped by `iter_ignore_error` (`Impl.pwi` with `skip`).
* (F-C12-passed-on — a skippable error that reaches `Assign` / `FilterFn` / `Sink` from upstream made
  `processed_with_inputs` pop an input that was never buffered, `IndexError('No element left')` — is
  **repaired** (`fix:` 323e959: the input iterator is wrapped in `iter_ignore_error` before it is teed;
  `Impl.passedOnFixed`, `Impl.annotSkip`).  The model is the repaired code; the theorems are
  `C12_skip_any_partial`, `C12_passed_on_uniform`, `C12_skip_source_partial` in `Properties/C12.lean`;
  `C12_passed_on_repaired` below evaluates the former witness instance on the repaired model, and the
  corpus case stays as a regression test.)
* **F-C12-fnbatch-lost** — `apply(..., fn_batch_size=2, batch_size=2)` with error skipping over five
  records of which the third does not carry a column (`v = 5`): `_batch_size(5)` raises `TypeError`
  *inside* the first `rebatched_args` generator, `map_ignore_error` swallows it, the finalised
  generator answers `StopIteration`: one record arrives, the two records behind the bad one are
  silently lost, no error.  With `fn_batch_size=0` the bad record alone is skipped.
All instances are replayed on the real code by `harness/corpus/C12_findings.jsonl`.
-/
namespace MlModel.C12
open MlModel.Pipe MlModel.Iter MlModel.Pipe.Lib

def colRec (i : Int) : Val := .dict [("v", .list [.int i]), ("w", .list [.int (100 + i)])]

def sevenCols : List (Ev Val) := (List.range 7).map fun i => .ok (colRec (Int.ofNat i))

/-- `assign('o', fn=v_fail_on({3}), input_keys='v', fn_batch_size=fb, batch_size=b)` -/
def assignFail (fb b : Nat) : Op :=
  { kind := .assign, inKeys := [.name "v"], outKeys := [.key (.name "o")],
    fn := (NamedFn.vFailOn [3] .value).toUFn, fnBatch := fb, batch := b }

/-- F5: three records, no error — the three survivors after the failing one are silently lost;
without batch sizes all six survivors arrive. -/
theorem C12_F5_witness :
    (Impl.run true [assignFail 1 1] sevenCols).out.length = 3 ∧
    (Impl.run true [assignFail 1 1] sevenCols).err.isNone = true ∧
    (Impl.run true [assignFail 0 0] sevenCols).out.length = 6 ∧
    (Impl.run true [assignFail 0 0] sevenCols).err.isNone = true := by
  decide +kernel

def rec3 : List (Ev Val) :=
  [.ok (.dict [("a", .int 0)]), .error { kind := .value }, .ok (.dict [("a", .int 2)])]

def assignNeg : Op :=
  { kind := .assign, inKeys := [.name "a"], outKeys := [.key (.name "h")], fn := NamedFn.neg.toUFn }

def applyNeg : Op :=
  { kind := .apply, inKeys := [.name "a"], outKeys := [.key (.name "h")], fn := NamedFn.neg.toUFn }

/-- (test) the instance that witnessed F-C12-passed-on, on the model of the REPAIRED code: the source's
second element raises a skippable `ValueError`, skipping is on.  Behind `assign` the element is
skipped and two records arrive, no error — exactly as behind `apply` (the unrepaired code ended with
`IndexError` after one record). -/
theorem C12_passed_on_repaired :
    (Impl.run true [assignNeg] rec3).out.length = 2 ∧
    (Impl.run true [assignNeg] rec3).err = none ∧
    (Impl.run true [applyNeg] rec3).out.length = 2 ∧
    (Impl.run true [applyNeg] rec3).err = none := by
  decide +kernel

/-- the integers of the one column of a record `{key: [..]}` -/
def oInts : Val → List Int
  | .dict [(_, .list xs)] => xs.filterMap fun x => match x with | .int i => some i | _ => none
  | _ => []

def colOrBad (i : Nat) : Val :=
  if i = 2 then .dict [("v", .int 5)] else .dict [("v", .list [.int (Int.ofNat i)])]

def fiveCols : List (Ev Val) := (List.range 5).map fun i => .ok (colOrBad i)

/-- `apply(v_add1, input_keys='v', output_keys='o', fn_batch_size=fb, batch_size=2)` -/
def applyAdd1 (fb : Nat) : Op :=
  { kind := .apply, inKeys := [.name "v"], outKeys := [.key (.name "o")],
    fn := NamedFn.vAdd1.toUFn, fnBatch := fb, batch := 2 }

/-- F-C12-fnbatch-lost: with `fn_batch_size = 2` only the rows before the bad record arrive (one
record) and the run ends without an error — rows 3 and 4 are silently lost; with `fn_batch_size = 0`
the bad record alone is skipped and all four good rows arrive (two records).  The side condition
`BatchedOK.clean` of the batched theorems fails on this stream. -/
theorem C12_fnbatch_lost_witness :
    (Impl.run true [applyAdd1 2] fiveCols).out.map oInts = [[1, 2]] ∧
    (Impl.run true [applyAdd1 2] fiveCols).err = none ∧
    (Impl.run true [applyAdd1 0] fiveCols).out.map oInts = [[1, 2], [4, 5]] ∧
    (Impl.run true [applyAdd1 0] fiveCols).err = none ∧
    Ref.batchedOKB true (applyAdd1 2) 0 fiveCols = false := by
  decide +kernel

/-! ## SC12c — a RESUMABLE outermost object does not end at the first error (seeded change C12-m5)

The chain `map(f, [0, 1, 2])` where `f` fails for 1 (built-in `map`: `Iter.mapEv`, resumable), held
(a) bare, as `return iter(result)` would hand it out, (b) inside the generator object that `iter_fn`
really is (`yield from result`).  The caller loops until the error (both: value 0, then the error),
then calls `next()` twice more on the same object. -/

def failAt1 (v : Val) : Ev Val :=
  match v with
  | .int 1 => .error { kind := .value, cause := some .key }
  | v => .ok v

def mapChain : List (Ev Val) := mapEv failAt1 [.ok (.int 0), .ok (.int 1), .ok (.int 2)]

/-- (a) the bare, resumable chain: after the error the next call DELIVERS the element behind the failing
one (then `StopIteration`) — the first error is not final; -/
theorem C12_resumable_chain_goes_on_witness :
    (consume Impl.bareNext 4 mapChain).1.length = 1 ∧
    (consume Impl.bareNext 4 mapChain).2.1 = some { kind := .value, cause := some .key } ∧
    ((calls Impl.bareNext 2 (consume Impl.bareNext 4 mapChain).2.2).1.map fun c =>
        match c with | some (.ok (.int i)) => some i | _ => none) = [some 2, none] := by
  decide +kernel

/-- (b) the generator object around the same chain: the same value and the same error, then
`StopIteration` for ever (instance of `C12_generator_is_final`). -/
theorem C12_generator_chain_final_witness :
    (consume Impl.pipeNext 4 (some mapChain)).1.length = 1 ∧
    (consume Impl.pipeNext 4 (some mapChain)).2.1 = some { kind := .value, cause := some .key } ∧
    ((calls Impl.pipeNext 2 (consume Impl.pipeNext 4 (some mapChain)).2.2).1.map Option.isSome) = [false, false] := by
  decide +kernel

end MlModel.C12
