import MlModel.Model.Agg.TextHeap
/-!
# Witness: the heap model distinguishes "copies the operand's entries" from "adopts its container"

`stepAlias` is the real semantics except that `merge` *rebinds* the receiver's `counter` to the
operand's `Counter` object when the receiver is still empty (a plausible "optimisation").  On the
program below the operand (accumulator 1) then sees the text later added to accumulator 0.
This is what the aliasing probes of `harness/agg/text.py` look for on the real objects.
-/
namespace MlModel.C11
open MlModel.Agg.Text

def textAliasProg : List Op :=
  [.make, .make, .add 1 [['a']], .merge 0 1, .add 0 [['a'], ['a']]]

def textAliasMetric : Metric := .patterns { patterns := [['a']] }

/-- value semantics: accumulator 1 still holds its own single text -/
theorem C11_text_alias_witness_values :
    (prun textAliasMetric [] textAliasProg).1 = [⟨[(['a'], 3)], 3⟩, ⟨[(['a'], 1)], 1⟩] := by decide

/-- the real (copying) merge agrees with the value semantics on this program -/
theorem C11_text_alias_witness_real :
    (run textAliasMetric {} textAliasProg).1.abs = (prun textAliasMetric [] textAliasProg).1 := by decide

/-- the adopting merge does not: the later `add` to accumulator 0 leaked into accumulator 1 -/
theorem C11_text_alias_witness :
    (runAlias textAliasMetric {} textAliasProg).1.abs ≠ (prun textAliasMetric [] textAliasProg).1 := by decide

end MlModel.C11
