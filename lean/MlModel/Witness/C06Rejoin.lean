import MlModel.Model.SchedPend
/-!
# Witness for seeded change C06-m6: without `task.state.set_exception(..)` an orphan call keeps the slot

`decide`d runs of `Model/SchedPend.lean` (tests of the model, not universally quantified theorems).
Two workers, two tasks, NO call timeout.  Worker 0 dies with its first call in flight and later
rejoins (`restart` at call 0); worker 1 dies at its second call (`die` at call 1).
The same scenario is run on the real code by `harness/props/c06.py`, kind `acrejoin`.
-/
namespace MlModel.Witness.C06Rejoin
open MlModel.Sched

def cfg : ACfg :=
  { env := fun w i => if w = 0 ∧ i = 0 then .restart else if w = 1 ∧ i = 1 then .die else .ok }

/-- worker 0 takes task 0 and dies, the master abandons the call, worker 0 rejoins; worker 1 runs
task 0, then takes task 1 and dies, the master abandons that call too: task 1 is on the retry stack -/
def run : List ALabel :=
  [.acquire 0, .submit 0, .check 0, .rejoin 0, .acquire 1, .submit 1, .complete 0, .check 0,
   .submit 1, .check 0]

/-- what the caller can see of a state: (worker 0 alive, worker 0 has capacity, retry stack, yielded,
`len(pendings)` of worker 0, the run returned normally) -/
def view (p : ACP) : Bool × Bool × List Nat × List Nat × Nat × Bool :=
  (aliveAt p.ac.ws 0, p.hasCapacity 0, p.ac.tasks, p.ac.yielded, p.pend 0, p.ac.outcome == some .returned)

/-- shipped code: the rejoined worker has capacity and takes the retried task; the run completes -/
theorem shipped_rejoined_worker_takes_over_witness :
    (acpRun true cfg (ACP.init 2 2) (run ++ [.submit 0, .complete 0, .check 0, .submit 0, .exit])).map view
      = some (true, true, [], [0, 1], 0, true) := by decide

/-- without the `set_exception`: after the same prefix worker 0 is alive, nothing is tracked on it,
but its orphan future still counts (`len(pendings) = 1`): it has no capacity ... -/
theorem C06m6_orphan_keeps_slot_witness :
    (acpRun false cfg (ACP.init 2 2) run).map view = some (true, false, [1], [0], 1, false) := by
  decide

/-- ... so task 1 can be submitted to no worker, the loop is still active, "all workers timeout" does
not fire (worker 0 is alive): the run is stuck with a usable worker in the pool -/
theorem C06m6_stuck_with_usable_worker_witness :
    (acpRun false cfg (ACP.init 2 2) run).map (fun p =>
      ((acpStep false cfg p (.submit 0)).isNone, (acpStep false cfg p (.submit 1)).isNone,
       (acpStep false cfg p .noWorkers).isNone, (acpStep false cfg p .exit).isNone,
       p.ac.running.isEmpty, p.ac.loopActive)) = some (true, true, true, true, true, true) := by
  decide

end MlModel.Witness.C06Rejoin
