import MlModel.Lemmas.PrefetchClient
/-!
# Witnesses at value level (tests, `decide`; one universal statement by induction)

* `m4_swallow_witness` — the seeded change C15-m4 (`neByValue`: the client's third test compares type and args): a
  generator whose failure is exactly `ValueError('generator already executing')` is never delivered — the exhausted
  queue answers every poll with the same one-marker reply and the client is still polling after ANY number of them.
* `inband_exception_witness` / `inband_stop_witness` — open finding C15-F-inband-exception, on the SHIPPED reading
  (`pyNe`): an ELEMENT that is an exception instance is raised as if the generator had failed; an element that is a
  `StopIteration` instance ends the iteration, and how much is lost depends on the batch size.
-/
namespace MlModel.C15W
open MlModel.PrefetchClient

def gae : Exc := ⟨.other "ValueError", [gaeArg]⟩

theorem m4_swallow_witness (n : Nat) :
    runClient neByValue {} (replies 2 true [.plain "1"] (.raise gae) ++ List.replicate n [.exc gae]) =
      { yielded := [.plain "1"] } ∧
    ({ yielded := [.plain "1"] } : Client).live = true := by
  refine ⟨?_, by decide⟩
  have h : ∀ n, runClient neByValue { yielded := [.plain "1"] } (List.replicate n [.exc gae]) =
      { yielded := [.plain "1"] } := by
    intro n
    induction n with
    | zero => rfl
    | succ k ih =>
      rw [List.replicate_succ, runClient]
      have : interpBatch neByValue { yielded := [.plain "1"] } [.exc gae] = { yielded := [.plain "1"] } := by decide
      rw [this, if_pos (by decide)]
      exact ih
  have h0 : replies 2 true [.plain "1"] (.raise gae) = [[.plain "1", .exc gae]] := by decide
  rw [h0, List.cons_append, List.nil_append, runClient]
  have h1 : interpBatch neByValue {} [.plain "1", .exc gae] = { yielded := [.plain "1"] } := by decide
  rw [h1, if_pos (by decide)]
  exact h n

/-- the shipped client on the same stream ends with the failure (the theorem `C15_failure_any_exception`) -/
theorem m4_shipped_ok : runClient pyNe {} (replies 2 true [.plain "1"] (.raise gae)) =
    { yielded := [.plain "1"], raised := some gae } := by decide

/-- the generator yields 1, the VALUE `ValueError('x')`, 3 and returns 9: the client yields 1 and raises -/
theorem inband_exception_witness :
    runClient pyNe {} (replies 2 true [.plain "1", .exc ⟨.other "ValueError", ["\"x\""]⟩, .plain "3"] (.ret ["9"])) =
      { yielded := [.plain "1"], raised := some ⟨.other "ValueError", ["\"x\""]⟩ } := by decide

/-- the generator yields 1, the VALUE `StopIteration(5)`, 3, 4 and returns 9: with batch size 3 the client yields 1, 3
and reports the return value 5; with batch size 1 it yields 1 only -/
theorem inband_stop_witness :
    runClient pyNe {} (replies 3 true [.plain "1", .exc ⟨.stopIteration, ["5"]⟩, .plain "3", .plain "4"] (.ret ["9"])) =
      { yielded := [.plain "1", .plain "3"], returned := [some "5"], exhausted := true } ∧
    runClient pyNe {} (replies 1 true [.plain "1", .exc ⟨.stopIteration, ["5"]⟩, .plain "3", .plain "4"] (.ret ["9"])) =
      { yielded := [.plain "1"], returned := [some "5"], exhausted := true } := by decide

end MlModel.C15W
