import MlModel.Model.Stage
import MlModel.Lemmas.StageInv
/-!
Counter-example for the interleaved-stage LTS with a suspension point between the kick-off RPC and
`_start_enqueue()` (`ackAwait = true`, the class of the seeded change C16-m1: `await` the kick-off's
acknowledgement): the reply latency becomes a scheduler choice that loses batches.
-/
namespace MlModel.Witness.C16Stage
open MlModel.Stage

/-- Two workers, two batches.  Worker 1 receives the kick-off and takes batch 11, but its acknowledgement
is late; worker 0 takes batch 10, forwards it and finishes: `enqueue_done` reads `1 == 1 == 1`, the consumer
stops - batch 11 is still in worker 1's hands and is never seen (`C16_stage_no_lost_batch` fails). -/
theorem ackAwait_loses_batch_witness :
    ∃ s, Reach { ackAwait := true } (St.init [10, 11] 2) s ∧
      (s.consumerDone && s.consumed == [10] && (hands s.ws == [11])) = true :=
  reach_witness
    [.produce, .produce, .closeInput, .schedule 0, .schedule 1, .created 1, .created 0, .ack 0, .pull 0, .pull 1,
     .pullEnd 0, .forward 0, .finish 0, .consume, .consumerEnd] _ (by decide)

/-- and the registration-before-pulling invariant is what breaks: a pulling worker that is not registered -/
theorem ackAwait_pulling_unregistered_witness :
    ∃ s, Reach { ackAwait := true } (St.init [10] 1) s ∧
      (s.ws.any fun x => x.pulling && x.hand == [10] && x.phase == .kicked) = true :=
  reach_witness [.produce, .schedule 0, .created 0, .pull 0] _ (by decide)

end MlModel.Witness.C16Stage
