import MlModel.Model.Registry
import MlModel.Model.Owner
/-!
Counter-examples on the models of the **unchanged** code for the three C20 findings (all repaired by
`fix:` commits; the property theorems are about the repaired operations), plus the reason for the
`thr ≤ now` hypothesis of `C20_dead_stays_dead`.  All are closed by evaluation (tests of concrete
instances, not universally quantified statements).
-/
namespace MlModel.Witness
open MlModel

/-- F13: the unchanged `register` (`self.data[address] = time_`) moves a live heartbeat backwards:
the handler that read the clock at 5 commits after the one that read it at 10. -/
theorem C20_F13 :
    Registry.get (Registry.registerOrig (Registry.registerOrig Registry.Reg.empty 0 10) 0 5) 0 = 5 ∧
    Registry.get (Registry.register (Registry.register Registry.Reg.empty 0 10) 0 5) 0 = 10 := by
  decide

/-- A dead (or unknown) worker reads `last = 0`, so during the first `thr` seconds of the clock's
epoch it would be reported alive; `C20_dead_stays_dead` therefore assumes `thr ≤ now`. -/
theorem C20_fresh_near_epoch : Registry.fresh 5 0 180 = true := by decide

open Owner in
/-- F14: thread 0 (pool 0) runs the unchanged `release_all([w0])`, thread 1 (pool 1) acquires `w0`
between thread 0's `is_available` check and its `release()`: pool 1's acquisition returned
`[w0]`, yet afterwards the worker is free and pool 1 no longer owns it. -/
theorem C20_F14 :
    let pw : Pid → List Wid := fun _ => [0]
    let u : Wid → Bool := fun _ => true
    let c0 : Cfg := ⟨fun _ => {}, fun t =>
      if t = 0 then { script := [.releaseAllOrig 0 [0]] }
      else if t = 1 then { script := [.acquireAll 1 [0] 1] } else {}⟩
    let sched : List (Tid × (Wid → Bool)) :=
      [(0, u), (0, u)] ++ List.replicate 8 (1, u) ++ List.replicate 5 (0, u)
    let mid := runSched pw c0 ([(0, u), (0, u)] ++ List.replicate 8 (1, u))
    let fin := runSched pw c0 sched
    (mid.T 1).results = [.workers [0]] ∧ (mid.W 0).pool = some 1 ∧
    (fin.W 0).pool = none ∧ (fin.W 0).lock = false := by
  decide

open Owner in
/-- F19: the unchanged `WorkerPool.run` whose task raises never reaches `worker.release()`:
the thread has finished its script and pool 0 still owns worker 0. -/
theorem C20_F19 :
    let pw : Pid → List Wid := fun _ => [0, 1]
    let u : Wid → Bool := fun _ => true
    let c0 : Cfg := ⟨fun _ => {}, fun t =>
      if t = 0 then { script := runScriptOrig pw 0 (some 0) true } else {}⟩
    let fin := runSched pw c0 (List.replicate 40 (0, u))
    (fin.T 0).script = [] ∧ (fin.T 0).cur = none ∧ acquiredWorkers pw fin.W 0 = [0] := by
  decide

set_option maxRecDepth 4000 in
open Owner in
/-- A `release_all()` whose default worker list is the *alive* workers (`workers or self.workers`
instead of `self._workers`): `run` of pool 0 over workers [0, 1] with worker 0 dead acquires worker 0
while searching (it is free), skips it (not alive), uses worker 1; the cleanup then only visits
worker 1, and the dead worker 0 stays acquired. -/
theorem C20_alive_only_finalizer :
    let pw : Pid → List Wid := fun _ => [0, 1]
    let u : Wid → Bool := fun w => w != 0
    let aliveOnly : List Wid := (pw 0).filter u
    let c0 : Cfg := ⟨fun _ => {}, fun t =>
      if t = 0 then { script := [.nextIdle 0 (pw 0) true, .releaseAll 0 aliveOnly] } else {}⟩
    let fin := runSched pw c0 (List.replicate 40 (0, u))
    (fin.T 0).script = [] ∧ (fin.T 0).cur = none ∧
    (fin.T 0).results = [.worker (some 1), .unit] ∧ acquiredWorkers pw fin.W 0 = [0] := by
  decide

set_option maxRecDepth 4000 in
open Owner in
/-- Why `C20_released_on_exit_shared` needs "the other threads of the pool do not acquire": thread 0 runs the finaliser
of pool 0 over workers [0, 1]; while it is busy with worker 1, thread 1 — acting for the SAME pool — acquires worker 0,
which the finaliser has already passed.  Thread 0 leaves its `finally` (exit marker set) and pool 0 owns worker 0.
(This is two concurrent pool-level operations of one pool: the worker belongs to the operation that has not returned.) -/
theorem C20_exit_shared_acquirer :
    let pw : Pid → List Wid := fun _ => [0, 1]
    let u : Wid → Bool := fun _ => true
    let c0 : Cfg := ⟨fun _ => {}, fun t =>
      if t = 0 then { script := [.finalize 0] }
      else if t = 1 then { script := [.acquireAll 0 [0] 1] } else {}⟩
    let fin := runSched pw c0 (List.replicate 6 (0, u) ++ List.replicate 10 (1, u) ++ List.replicate 10 (0, u))
    (fin.T 0).cur = none ∧ (fin.T 0).exited = some 0 ∧ acquiredWorkers pw fin.W 0 = [0] := by
  decide

end MlModel.Witness
