import MlModel.Model.Registry
import MlModel.Model.Owner
import MlModel.Model.OwnerEnv
/-!
Counter-examples on the models of the **unchanged** code for the three C20 findings (all repaired by
`fix:` commits; the property theorems are about the repaired operations), plus the reason for the
`thr ≤ now` hypothesis of `C20_dead_stays_dead`.  All are closed by evaluation (tests of concrete
instances, not universally quantified statements).
-/
namespace MlModel.Witness
open MlModel

/-- F13: the unchanged `register` (`self.data[address] = time_`) moves a live heartbeat backwards:
the handler that read the clock at 5 commits after the one that read it at 10. -/
theorem C20_F13 :
    Registry.get (Registry.registerOrig (Registry.registerOrig Registry.Reg.empty 0 10) 0 5) 0 = 5 ∧
    Registry.get (Registry.register (Registry.register Registry.Reg.empty 0 10) 0 5) 0 = 10 := by
  decide

/-- A dead (or unknown) worker reads `last = 0`, so during the first `thr` seconds of the clock's
epoch it would be reported alive; `C20_dead_stays_dead` therefore assumes `thr ≤ now`. -/
theorem C20_fresh_near_epoch : Registry.fresh 5 0 180 = true := by decide

open Owner in
/-- F14: thread 0 (pool 0) runs the unchanged `release_all([w0])`, thread 1 (pool 1) acquires `w0`
between thread 0's `is_available` check and its `release()`: pool 1's acquisition returned
`[w0]`, yet afterwards the worker is free and pool 1 no longer owns it. -/
theorem C20_F14 :
    let pw : Pid → List Wid := fun _ => [0]
    let u : Wid → Bool := fun _ => true
    let c0 : Cfg := ⟨fun _ => {}, fun t =>
      if t = 0 then { script := [.releaseAllOrig 0 [0]] }
      else if t = 1 then { script := [.acquireAll 1 [0] 1] } else {}⟩
    let sched : List (Tid × (Wid → Bool)) :=
      [(0, u), (0, u)] ++ List.replicate 8 (1, u) ++ List.replicate 5 (0, u)
    let mid := runSched pw c0 ([(0, u), (0, u)] ++ List.replicate 8 (1, u))
    let fin := runSched pw c0 sched
    (mid.T 1).results = [.workers [0]] ∧ (mid.W 0).pool = some 1 ∧
    (fin.W 0).pool = none ∧ (fin.W 0).lock = false := by
  decide

open Owner in
/-- F19: the unchanged `WorkerPool.run` whose task raises never reaches `worker.release()`:
the thread has finished its script and pool 0 still owns worker 0. -/
theorem C20_F19 :
    let pw : Pid → List Wid := fun _ => [0, 1]
    let u : Wid → Bool := fun _ => true
    let c0 : Cfg := ⟨fun _ => {}, fun t =>
      if t = 0 then { script := runScriptOrig pw 0 (some 0) true } else {}⟩
    let fin := runSched pw c0 (List.replicate 40 (0, u))
    (fin.T 0).script = [] ∧ (fin.T 0).cur = none ∧ acquiredWorkers pw fin.W 0 = [0] := by
  decide

set_option maxRecDepth 4000 in
open Owner in
/-- A `release_all()` whose default worker list is the *alive* workers (`workers or self.workers`
instead of `self._workers`): `run` of pool 0 over workers [0, 1] with worker 0 dead acquires worker 0
while searching (it is free), skips it (not alive), uses worker 1; the cleanup then only visits
worker 1, and the dead worker 0 stays acquired. -/
theorem C20_alive_only_finalizer :
    let pw : Pid → List Wid := fun _ => [0, 1]
    let u : Wid → Bool := fun w => w != 0
    let aliveOnly : List Wid := (pw 0).filter u
    let c0 : Cfg := ⟨fun _ => {}, fun t =>
      if t = 0 then { script := [.nextIdle 0 (pw 0) true, .releaseAll 0 aliveOnly] } else {}⟩
    let fin := runSched pw c0 (List.replicate 40 (0, u))
    (fin.T 0).script = [] ∧ (fin.T 0).cur = none ∧
    (fin.T 0).results = [.worker (some 1), .unit] ∧ acquiredWorkers pw fin.W 0 = [0] := by
  decide

set_option maxRecDepth 4000 in
open Owner in
/-- Why `C20_released_on_exit_shared` needs "the other threads of the pool do not acquire": thread 0 runs the finaliser
of pool 0 over workers [0, 1]; while it is busy with worker 1, thread 1 — acting for the SAME pool — acquires worker 0,
which the finaliser has already passed.  Thread 0 leaves its `finally` (exit marker set) and pool 0 owns worker 0.
(This is two concurrent pool-level operations of one pool: the worker belongs to the operation that has not returned.) -/
theorem C20_exit_shared_acquirer :
    let pw : Pid → List Wid := fun _ => [0, 1]
    let u : Wid → Bool := fun _ => true
    let c0 : Cfg := ⟨fun _ => {}, fun t =>
      if t = 0 then { script := [.finalize 0] }
      else if t = 1 then { script := [.acquireAll 0 [0] 1] } else {}⟩
    let fin := runSched pw c0 (List.replicate 6 (0, u) ++ List.replicate 10 (1, u) ++ List.replicate 10 (0, u))
    (fin.T 0).cur = none ∧ (fin.T 0).exited = some 0 ∧ acquiredWorkers pw fin.W 0 = [0] := by
  decide

section AsCompleted
open Owner OwnerEnv

/-- `as_completed(pool 0, [one task])` over worker 0 (alive, `max_parallelism` 2) with the prophecy script `script`. -/
def acCfg (fixed : Bool) (script : List Op) : X :=
  ⟨⟨fun _ => {}, fun t => if t = 0 then { script := script } else {}⟩,
   { reg := fun a => if a = 0 then some (some 1000) else none, now := 1000, thr := 100, mp := fun _ => 2,
     prog := fun t => if t = 0 then [.asCompleted 0 [false] false none fixed] else [] }⟩

/-- the pieces of the first round of the loop: the task is submitted to worker 0, the iterator is found exhausted, the task is
still running, `acquired_workers` = [worker 0] -/
def acRound1 : List Op :=
  [.aliveWorkers 0 false, .aliveWorkers 0 false, .nextIdle 0 [0] true, .submitW 0 0 0, .nextIdle 0 [0] true, .isAliveW 0 0,
   .acquiredWorkers 0]

/-- (workers of `running_tasks`, state of the future of the first of them) of a controller in the body of `as_completed` -/
def acRunning (x : X) : Option (List Wid × CSt) :=
  match x.env.ctl 0 with
  | .ac a => some (a.running.map (·.w), (a.running.head?.map fun r => x.env.callSt r.call).getD .ok)
  | _ => none

set_option maxRecDepth 100000 in
/-- **F-C20-release-empty-set** (model of the UNREPAIRED control flow, `fixed = false`).  After the submit loop every acquired
worker runs a task, so `unused_workers = acquired - running - reserved` is EMPTY — and `release_all(set())` means
`release_all()` : 59 steps into the run worker 0 is free (`_lock` released, no owner) although the pool's only task is still
running on it (its future is `queued`) and stays in `running_tasks`; any other pool can now acquire the worker.  The repaired
code (`fixed = true`, `if unused_workers:`) skips the call: after the same 59 steps the pool still owns the worker.
(Closed by evaluation; the real code is replayed against the same program by `./check C20`, family `scheda`.) -/
theorem C20_as_completed_empty_release :
    let pw : Pid → List Wid := fun _ => [0]
    let bad := xrun pw (acCfg false (acRound1 ++ [.releaseAll 0 []])) (List.replicate 59 0)
    let good := xrun pw (acCfg true (acRound1 ++ [.aliveWorkers 0 false])) (List.replicate 59 0)
    (acRunning bad = some ([0], .queued) ∧ (bad.base.W 0).pool = none ∧ (bad.base.W 0).lock = false) ∧
    (acRunning good = some ([0], .queued) ∧ (good.base.W 0).pool = some 0 ∧ (good.base.W 0).lock = true) := by
  decide +kernel

end AsCompleted

end MlModel.Witness
