import MlModel.Lemmas.Strategy
import MlModel.Lemmas.Rebatch
import MlModel.Model.DequeueCache
import MlModel.Model.PipeAggShard
import MlModel.Lemmas.PipeAggInst
/-!
# Witnesses for C03

* finding **F18** (open): with a re-batching operator the multiset of emitted *batches* depends on the
  shard / thread count (`C03_batch_boundaries`): the property as literally stated ("the multiset of
  emitted batches is the same … over any number of shards …") is false for such pipelines; what is
  preserved is proved in `C03_rebatch_partial`.
* finding **F-C03-fuse** (fixed): what `_chain_and_fuse` did before the repair when the parent has an
  aggregate and the child has functions (`C03_fuse_reorders`).
Both are `decide`d concrete instances (tests of the model, replayed on the real code by
`harness/corpus/C03.jsonl`).
-/
namespace MlModel.C03.Witness
open MlModel.Strategy MlModel.Rebatch MlModel.Shard

/-- five single-row elements `0..4` (one list column each), as `.batch(2)` receives them -/
def fiveRows : List (Batch Int) := [0, 1, 2, 3, 4].map fun (i : Int) => [⟨.list, [i]⟩]

/-- the re-batching operator `batch(2)`: `rebatched_args(..., batch_size=2, num_columns=1)` -/
def batch2 : Op (Batch Int) := .rebatch fun bs => (Rebatch.run 2 1 none bs).out

def b (rows : List Int) : Batch Int := [⟨.list, rows⟩]

/-- **Batch boundaries depend on the shard count** (5 rows, `batch(2)`, 2 shards of a
`SequenceDataSource`; the same parts are what `num_threads = 2` gives its two producers):
whole run `{[0,1],[2,3],[4]}`, two shards `{[0,1],[2]} ∪ {[3,4]}` — not the same multiset of batches,
although the rows, in order, are the same. -/
theorem C03_batch_boundaries :
    runOps [batch2] ((DS.root 5).elems fiveRows) = [b [0, 1], b [2, 3], b [4]] ∧
    shardParts (DS.root 5) 2 fiveRows = [fiveRows.take 3, fiveRows.drop 3] ∧
    (shardParts (DS.root 5) 2 fiveRows).flatMap (runOps [batch2]) = [b [0, 1], b [2], b [3, 4]] ∧
    ¬ ((shardParts (DS.root 5) 2 fiveRows).flatMap (runOps [batch2])).Perm
        (runOps [batch2] ((DS.root 5).elems fiveRows)) ∧
    ((shardParts (DS.root 5) 2 fiveRows).flatMap (runOps [batch2])).flatMap rowsOf
      = (runOps [batch2] ((DS.root 5).elems fiveRows)).flatMap rowsOf := by
  decide +kernel

/-- round-robin shards (`ShardedIterable`, what `num_threads = 2` uses for such a source) cut
differently again: `{[0,2],[4]} ∪ {[1,3]}` -/
theorem C03_batch_boundaries_round_robin :
    let parts := [[fiveRows[0]!, fiveRows[2]!, fiveRows[4]!], [fiveRows[1]!, fiveRows[3]!]]
    parts.flatMap (runOps [batch2]) = [b [0, 2], b [4], b [1, 3]] ∧
    ¬ (parts.flatMap (runOps [batch2])).Perm (runOps [batch2] fiveRows) := by
  decide +kernel

/-- `x ↦ 2x` on every row, with a moments aggregate … -/
def stA : Stage Bat := { ops := [.row fun bt => [bt.map fun r => r.map (2 * ·)]], aggs := [momentsAgg] }
/-- … chained with / fused into a stage that adds 100 -/
def stB : Stage Bat := { ops := [.row fun bt => [bt.map fun r => r.map (· + 100)]], aggs := [] }

/-- **Unguarded fusing reorders.**  On the stream `[[0],[1]], [[2]]`: chained, the aggregate of the
first stage sees `0,2,4` (count 3, sum 6); fused by the unguarded `_chain_and_fuse` it sees
`100,102,104` (sum 306).  The repaired `fuse?` refuses this combination. -/
theorem C03_fuse_reorders :
    (aggFeeds [stA, stB] [[[0], [1]], [[2]]]).map (fun af => momentsM.result (momentsM.feed (af.2.map col0))) = [(3, 6, 20)] ∧
    (aggFeeds [stA.fuse stB] [[[0], [1]], [[2]]]).map (fun af => momentsM.result (momentsM.feed (af.2.map col0))) = [(3, 306, 31220)] ∧
    stA.fusable stB = false := by
  decide +kernel

/-! ### contrast models (tests, `decide`d): what the two round-5 seeded regressions of C03 would do -/

/-- a `DequeueIterator` cache bounded BELOW the cap of one `get_batch` (cache 2, cap 3, backlog of 4): the
oldest element of the first refill is silently dropped — `C03_cache_bounded_cap` says when, the unbounded
cache of the code never (`C03_cache_exactly_once`). -/
theorem C03_cache_bounded_loses_witness :
    DequeueCache.throughQueue 2 3 none [0, 1, 2, 3] = [1, 2, 3] ∧
    DequeueCache.throughQueue 0 3 none [0, 1, 2, 3] = [0, 1, 2, 3] := by decide +kernel

/-- `merge_states` that takes the keys to merge from the FIRST state only (instead of the union of the key
sets, `PipeAgg.mergeStates`) -/
def mergeFirstKeys (sts : List (PipeAgg.State PipeAgg.Stat)) : List PipeAgg.MetricKey :=
  match sts with
  | [] => []
  | st :: _ => PipeAgg.AList.keys st

/-- on C02's example stream cut into one shard per batch, slice `a = 2` (seen only by the last shard) is in
the union of the key sets — what `PipeAgg.mergeStates` keeps, `C03_shards_sliced_keys` — and not among the
first shard's keys -/
theorem C03_first_shard_keys_witness :
    ((PipeAgg.mapE (PipeAgg.run PipeAgg.exPipeline) (PipeAgg.exStream.map ([·]))).toOption.map fun sts =>
      (decide ((⟨["o"], ⟨["a"], [2]⟩⟩ : PipeAgg.MetricKey) ∈
          PipeAgg.AList.keys (PipeAgg.mergeStates PipeAgg.exPipeline sts)),
       decide ((⟨["o"], ⟨["a"], [2]⟩⟩ : PipeAgg.MetricKey) ∈ mergeFirstKeys sts))) = some (true, false) := by
  decide

end MlModel.C03.Witness
