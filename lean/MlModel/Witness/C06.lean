import MlModel.Model.Sched
import MlModel.Lemmas.SchedRun
/-!
# Witnesses for the defects found under C06 (models of the code *before* the repairs)

Each theorem exhibits a concrete reachable run of the model with the repair switched off
(`decide`d instances, i.e. tests of the model, not universally quantified theorems); the same
fault plans / hand-offs are replayed on the real code by `harness/props/c06.py`
(findings F19, F20, F21 in known_findings.d/C06.json, all fixed in /repo).
-/
namespace MlModel.Witness.C06
open MlModel.Sched

/-- F19: before the repair `as_completed` left its workers acquired when a task raised. -/
def f19Cfg : ACfg := { env := fun _ _ => .ok, bad := fun _ => true, releaseOnRaise := false }

theorem F19_not_released_witness :
    ∃ s, AReach f19Cfg (AC.init 1 1) s ∧
      (s.outcome == some .raisedTask && s.ws.any (·.acquired)) = true :=
  areach_witness [.acquire 0, .submit 0, .complete 0, .check 0] _ (by decide)

/-- with the repair the same run releases the worker -/
theorem F19_repaired_witness :
    ∃ s, AReach { f19Cfg with releaseOnRaise := true } (AC.init 1 1) s ∧
      (s.outcome == some .raisedTask && !s.ws.any (·.acquired)) = true :=
  areach_witness [.acquire 0, .submit 0, .complete 0, .check 0] _ (by decide)

/-- F21: one shard, two workers; worker 0 answers the last batch with the end marker and dies
before its coroutine completes; the main loop sees "not done, worker dead", re-queues the shard,
worker 1 runs it again.  Before the repair the coroutine put the state on `states_queue` itself:
the merger receives the shard's state twice and publishes the aggregate of `[0, 0]`. -/
def f21Cfg : ICfg :=
  { env := fun w i => if w = 0 ∧ i = 2 then .die else .ok, n := 1, nb := fun _ => 1, threshold := 5,
    directPut := true, strict := false }

def f21Run : List ILabel :=
  [.submit 0, .co 0 0 false, .co 0 0 false, .co 0 1 true, .crash 0, .check 0, .submit 1,
   .co 0 0 false, .co 0 0 false, .co 0 1 true, .co 0 0 false, .check 0, .submit 1, .finish,
   .merge, .merge, .mergeStop]

theorem F21_state_merged_twice_witness :
    ∃ s, IReach f21Cfg (IT.init 2 1) s ∧
      (s.outcome == some .returned && s.result == some (some [0, 0])) = true :=
  ireach_witness f21Run _ (by decide)

/-- F20: two shards, the call that initialises shard 1 fails non-retriably.  Before the repair
(no strict count) the aggregate of the remaining shard was still published. -/
def f20Cfg : ICfg :=
  { env := fun w i => if w = 1 ∧ i = 0 then .appError else .ok, n := 2, nb := fun _ => 1,
    threshold := 5, directPut := false, strict := false }

def f20Run : List ILabel :=
  [.submit 0, .submit 1, .co 0 0 false, .co 0 0 false, .co 0 1 true, .co 0 0 false, .check 0,
   .co 0 0 false, .co 0 0 false, .check 0, .finish, .merge, .mergeStop]

theorem F20_partial_aggregate_witness :
    ∃ s, IReach f20Cfg (IT.init 2 2) s ∧
      (s.outcome == some .raisedRuntime && s.result == some (some [0])) = true :=
  ireach_witness f20Run _ (by decide)

/-- with the strict count the merge reports the missing state instead -/
theorem F20_repaired_witness :
    ∃ s, IReach { f20Cfg with strict := true } (IT.init 2 2) s ∧
      (s.outcome == some .raisedRuntime && s.result == some none) = true :=
  ireach_witness f20Run _ (by decide)

end MlModel.Witness.C06
