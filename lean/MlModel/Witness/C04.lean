import MlModel.Properties.C04
/-!
# Witness for finding F22: without `WF_enq`, `enqueue_done` is not stable

`max_enqueuer` not declared (`maxEnq = 0`), two producers.  The first producer starts and finishes
before the second one has started: `_enqueue_start = _enqueue_stop = _max_enqueuer = 1`, so
`enqueue_done` holds *transiently*; a consumer that looks at the queue in that window ends with a
clean `StopIteration(900)` although the second producer has not started and still has an element
(`5`) and a return value (`901`) to deliver.  The theorems of `C04Live.lean` therefore carry the
hypothesis `WF_enq` (the number of producers is declared up front).
-/
namespace MlModel.C04
open MlModel.Queue

def f22Init : Cfg := init 0 0 false false [.producer [] 900, .producer [.val 5] 901, .getLoop]

/-- producer 0 runs to completion (16 steps), then the consumer runs one `get` (7 steps) -/
def f22Sched : List (Tid × Bool) :=
  (List.replicate 16 0 ++ List.replicate 7 2).map (·, false)

/-- **F22** (a test of a concrete schedule, by `decide`): a reachable configuration, with two producers
and `max_enqueuer` undeclared, in which the consumer has ended with `StopIteration(900)`, while
producer 1 has not even started (its element `5` and return value `901` are never delivered to
this consumer), and `enqueue_done` — true when the consumer looked — would become false again as
soon as producer 1 starts. -/
theorem C04_F22_witness :
    ∃ c, Reachable f22Init c ∧
      c.ths.map (·.pc) = [.done, .start, .done] ∧
      c.ths.map (·.outcome) = [none, none, some (.stop [900])] ∧
      c.ths.map (·.received) = [[], [], []] ∧
      c.sh.enqueueDone = true ∧
      (∃ c', Reachable c c' ∧ c'.sh.enqueueDone = false) :=
  ⟨_, reachable_replay f22Init f22Sched (by decide), by decide, by decide, by decide, by decide,
    _, reachable_replay _ ([1, 1].map (·, false)) (by decide), by decide⟩

end MlModel.C04
