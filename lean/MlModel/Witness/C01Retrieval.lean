import MlModel.Model.Agg.Retrieval
/-!
# Witness for DESIGN §7-F4 (fixed): what the *unrepaired* `TopKRetrieval.add` computed

Before the repair, `add` evaluated every example of a batch at the Ks truncated by the longest
ranking **of the batch** (and `k_list=None` meant exactly that length).  In terms of the model:
the K of an example was the padded width `W` of its batch instead of a function of the example.
The theorems below evaluate the repaired model's per-example functions at the Ks the old code
used and show that the value of one and the same example then depends on its batch-mates —
the negation of C01's row independence, and the reason the state widths of two batches disagreed
(`ValueError: operands could not be broadcast together`).
-/
namespace MlModel.Witness.C01Retrieval
open MlModel.Agg.Retrieval

/-- the example `y_true=[1], y_pred=[1]` -/
def a : Row Nat := ⟨[1], [1]⟩

/-- `k_list=None`, example `a` alone (old K = 1) vs. in a batch with a 3-item ranking (old K = 3):
threat score 1 vs 1/3, AP 1 vs 1, NDCG-ideal unchanged here but the threat score already differs -/
theorem C01_retrieval_F4_witness_threat :
    (mkCtx 1 a).threat 1 = some 1 ∧ (mkCtx 3 a).threat 3 = some (1/3) := by decide +kernel

/-- the example `y_true=[1,2,3], y_pred=[3]` alone (old K = 1) vs. beside a 3-item ranking
(old K = 3): average precision 1 vs 1/3 -/
def b : Row Nat := ⟨[1, 2, 3], [3]⟩
theorem C01_retrieval_F4_witness_ap :
    (mkCtx 1 b).ap 1 = some 1 ∧ (mkCtx 3 b).ap 3 = some (1/3) := by decide +kernel

/-- with `k_list=[1,2,3]` the old code kept only the Ks below the batch's longest ranking: a batch
of one-item rankings produced 1 column, a batch with a 3-item ranking 3 columns — the two
`MeanState` totals could not be added -/
theorem C01_retrieval_F4_witness_widths :
    ([1, 2, 3].filter (· < 1) ++ [1]).length ≠ ([1, 2, 3].filter (· < 3) ++ [3]).length := by decide

end MlModel.Witness.C01Retrieval
