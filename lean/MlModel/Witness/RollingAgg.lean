import MlModel.Lemmas.AggRollingMeanVar
/-!
# Witnesses for the defects of the rolling family that were repaired (models of the ORIGINAL code)

* F2 — `MeanAndVariance.merge` combined the two weighted variances with `+`: `0 * NaN = NaN`.
* F25 — `a.merge(fresh)` raised `ValueError` for UnboundedSampler / ValueAccumulator / TupleMeanState.
(F3 is `C11_rolling_reservoir_F3_witness`, F26 and F15 are in `Properties/C07/Rolling.lean`.)
-/
namespace MlModel.Witness
open MlModel.Agg MlModel.Agg.Rolling

/-- F2, in general: with the original formula (`fixed = false`) a receiver column without a valid
entry poisons the merged variance, whatever the operand holds -/
theorem F2_original_formula_nan_left (s s1 o : Col) (h : s.var = none) :
    Col.mergeVar false s s1 o = none := by
  simp [Col.mergeVar, h]

/-- …and symmetrically an operand column without a valid entry -/
theorem F2_original_formula_nan_right (s s1 o : Col) (h : o.var = none) :
    Col.mergeVar false s s1 o = none := by
  simp [Col.mergeVar, h]

/-- F2 on the recorded input `[[1,nan],[2,nan]]` then `[[3,4],[5,6]]` (test, kernel-evaluated):
original code → variance `[35/16, NaN]`; repaired code → `[35/16, 1]` = the one-batch value -/
theorem F2_witness :
    let b1 : List (List F) := [[some 1, none], [some 2, none]]
    let b2 : List (List F) := [[some 3, some 4], [some 5, some 6]]
    let run (fixed : Bool) :=
      (MV.mergeCore fixed (MV.mergeCore fixed MV.fresh (MV.ofRows 2 b1)) (MV.ofRows 2 b2)).result.var
    run false = [some (35 / 16), none] ∧ run true = [some (35 / 16), some 1] ∧
      (MV.ofRows 2 (b1 ++ b2)).result.var = [some (35 / 16), some 1] := by
  decide +kernel

/-- F25 (tests): the original `merge` raised on a never-updated operand; the repaired one returns
the receiver unchanged -/
theorem F23_witness :
    US.merge false (US.ofCols [[1, 2]]) (US.fresh : US Nat) = .error .value ∧
    US.merge true (US.ofCols [[1, 2]]) (US.fresh : US Nat) = .ok (US.ofCols [[1, 2]]) ∧
    VA.merge false [[1, 2]] ([] : VA Nat) = .error .value ∧
    VA.merge true [[1, 2]] ([] : VA Nat) = .ok [[1, 2]] ∧
    TMS.merge false (TMS.ofCols [[1, 2]]) [] = .error .value ∧
    TMS.merge true (TMS.ofCols [[1, 2]]) [] = .ok (TMS.ofCols [[1, 2]]) := by
  decide +kernel

end MlModel.Witness
