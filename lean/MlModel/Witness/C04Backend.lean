import MlModel.Properties.C04Backend
/-!
# Witness: a wrong exception class in `put`'s tuple (seeded regression C04-m5)

`_QUEUE_FULL = (queue.Full, asyncio.QueueEmpty)` — `asyncio.QueueEmpty` where `asyncio.QueueFull` belongs.  The thread
queues are still routed (`queue.Full` is named), the asyncio backend is not: on a full bounded `asyncio.Queue` the
`QueueFull` raised by `put_nowait` escapes `put` (the producer FAILS) where the LTS — and the unchanged code — parks the
producer on the enqueue condition.  Tests of concrete values, by `decide`.
-/
namespace MlModel.C04
open MlModel.Queue MlModel.QueueBackend

/-- the clause table of the seeded regression: only `put`'s tuple differs from the source -/
def wrongFullHandlers : Handlers where
  put := [⟨[.queueFull, .asyncioQueueEmpty], .parkFull⟩]
  get := [⟨[.queueEmpty, .asyncioQueueEmpty], .parkEmpty⟩]
  getBatch := [⟨[.queueEmpty, .asyncioQueueEmpty], .parkEmpty⟩, ⟨[.exception], .stopOrError⟩]
  getNowait := [⟨[.queueEmpty, .asyncioQueueEmpty], .exhaustCheck⟩, ⟨[.stopIteration], .reraise⟩,
                ⟨[.exception], .reraise⟩]

/-- a producer (thread 1, element 8 in hand, holding the enqueue lock) in front of a full 1-slot buffer -/
def wrongFullShared : Shared := { cap := 1, q := [(0, 7)], enqOwner := some 1, maxEnq := 1, start := 1 }
def wrongFullThread : Thread := { prog := .producer [] 0, pc := .pPut, v := (1, 8) }

/-- The routing check fails for `asyncio.Queue` only; the un-fused `put` lets `asyncio.QueueFull` ESCAPE where the
LTS step parks the producer (`pWait`). -/
theorem C04_backend_wrong_full_class_witness :
    classified wrongFullHandlers stdQueue = true ∧
    classified wrongFullHandlers simpleQueue = true ∧
    classified wrongFullHandlers asyncioQueue = false ∧
    (match pPutCode wrongFullHandlers asyncioQueue wrongFullShared wrongFullThread 1 with
     | .error e => e == .asyncioQueueFull
     | .ok _ => false) = true ∧
    (match pPutCode wrongFullHandlers stdQueue wrongFullShared wrongFullThread 1 with
     | .ok (some (_, _, t')) => t'.pc == .pWait
     | _ => false) = true ∧
    (match stepThread wrongFullShared wrongFullThread 1 false with
     | some (_, _, t') => t'.pc == .pWait
     | none => false) = true := by decide

/-- the same from the general necessity theorem: ANY full buffer, any element -/
theorem C04_backend_wrong_full_class_escapes {s : Shared} {t : Thread} {tid : Tid}
    (hown : s.enqOwner = some tid) (hfull : s.full = true) :
    pPutCode wrongFullHandlers asyncioQueue s t tid = .error .asyncioQueueFull :=
  C04_backend_full_must_park asyncioQueue_contract rfl rfl (by decide) hown hfull

end MlModel.C04
