import MlModel.Lemmas.AggTextSpec
import MlModel.Lemmas.AggTextTree
/-!
# Witness: a state compacted to `10 * k` candidates after every `add` mis-ranks a late bloomer

`TopKWordNGrams` carries the TODO "optimize storage consumption" (text.py:107, utils.py:69).  The tempting
optimisation — after every `add` / `merge` keep only the `c * k` most frequent n-grams (`c = 10`) — is exact on
one batch (the top `k` of the kept candidates is the top `k` of everything) and on every stream whose vocabulary
stays within `c * k`.  It is wrong as soon as the accumulated state outgrows the bound while an n-gram that is
below the cut at that moment matters later: that n-gram loses the counts it had.

`compact` is that optimisation on the model state, `feedCompact` the accumulator that applies it after every
`add`.  On the stream below (`k = 1`, unigrams; batch 0: ten words three times each and `z` twice; batch 1: `z`
twice) the definition — and the real accumulator, `C07_text_compaction_witness_real` — report `z` with
`4/34 = 2/17`; the compacting accumulator reports `a` with `3/34` (`C07_text_compaction_witness`).
`harness/agg/text.py` (`gen_bloomer_batches`) generates exactly this shape around every size constant found in
the source.
-/
namespace MlModel.C07
open MlModel.Agg MlModel.Agg.Text

/-- keep the `cap` most frequent entries (by `result()`'s order), with the counts they have -/
def compact (cap : Nat) (s : FreqState Str) : FreqState Str :=
  if cap < s.counter.length then
    ⟨((s.result strLe).take cap).map fun r => (r.1, get s.counter r.1), s.count⟩
  else s

/-- one accumulator fed batch by batch, compacted to `c * k` entries after every `add` -/
def feedCompact (cfg : NGramCfg) (c : Nat) (batches : List (List Str)) : FreqState Str :=
  batches.foldl (fun s b => compact (c * cfg.k) (s.merge (ngramBatch cfg b))) FreqState.empty

/-- the same with the specification's (structurally recursive, kernel-evaluable) sort -/
def compactI (cap : Nat) (s : FreqState Str) : FreqState Str :=
  if cap < s.counter.length then
    ⟨((MlModel.Spec.Text.isort s.rows).take cap).map fun r => (r.1, get s.counter r.1), s.count⟩
  else s

def feedCompactI (cfg : NGramCfg) (c : Nat) (batches : List (List Str)) : FreqState Str :=
  batches.foldl (fun s b => compactI (c * cfg.k) (s.merge (ngramBatch cfg b))) FreqState.empty

theorem C07_text_result_eq_isort (s : FreqState Str) : s.result strLe = MlModel.Spec.Text.isort s.rows :=
  mergeSort_eq_isort (List.Perm.refl _)

theorem C07_text_compact_eq_compactI : compact = compactI := by
  funext cap s
  simp only [compact, compactI, C07_text_result_eq_isort]

theorem C07_text_feedCompact_eq (cfg : NGramCfg) (c : Nat) (batches : List (List Str)) :
    feedCompact cfg c batches = feedCompactI cfg c batches := by
  simp only [feedCompact, feedCompactI, C07_text_compact_eq_compactI]

def lateBloomerCfg : NGramCfg := { k := 1, n := 1 }

/-- batch 0: `a` … `j` three times each, `z` twice (11 distinct unigrams > 10 * k); batch 1: `z` twice -/
def lateBloomerStream : List (List Str) :=
  [ (['a', 'b', 'c', 'd', 'e', 'f', 'g', 'h', 'i', 'j'].flatMap fun c => [[c], [c], [c]]) ++ [['z'], ['z']],
    [['Z', '!'], ['z']] ]

/-- the definition over all 34 texts: `z` occurs 4 times, every other word 3 times -/
theorem C07_text_compaction_witness_spec :
    MlModel.Spec.Text.topKWordNGrams 1 1 false true lateBloomerStream.flatten = [(['z'], (2 : Rat) / 17)] := by
  decide +kernel

/-- the real accumulator (no truncation of the state) reports the definition -/
theorem C07_text_compaction_witness_real :
    (Metric.ngrams lateBloomerCfg).result ((topK lateBloomerCfg).feed lateBloomerStream)
      = [(['z'], (2 : Rat) / 17)] := by
  obtain ⟨hw, ho⟩ := (DTree.leaf lateBloomerStream).eval_spec (.ngrams lateBloomerCfg)
  have h := (Metric.ngrams lateBloomerCfg).result_congr hw (wf_batch _ _) ho
  simp only [DTree.eval, DTree.rows] at h
  show (Metric.ngrams lateBloomerCfg).result ((Metric.ngrams lateBloomerCfg).mergeable.feed lateBloomerStream) = _
  rw [h, ← C07_text_compaction_witness_spec]
  show ((ngramBatch lateBloomerCfg lateBloomerStream.flatten).result strLe).take 1 = _
  rw [ngram_result_eq_spec]; rfl

/-- a state compacted to `10 * k` entries after each `add` mis-ranks the late bloomer: `z` was below the cut
after batch 0 and again after batch 1, its counts are gone, `a` (3 of 34 texts) is reported -/
theorem C07_text_compaction_witness :
    (Metric.ngrams lateBloomerCfg).result (feedCompact lateBloomerCfg 10 lateBloomerStream)
      = [(['a'], (3 : Rat) / 34)] := by
  rw [C07_text_feedCompact_eq]
  show ((feedCompactI lateBloomerCfg 10 lateBloomerStream).result strLe).take 1 = _
  rw [C07_text_result_eq_isort]
  decide +kernel

/-- test: compaction is invisible on a single batch (the top `k` of the kept `10 * k ≥ k` candidates is the top `k`
of everything) — here all 34 texts in one `add`: this is why no single-batch test can notice it -/
theorem C07_text_compaction_witness_one_batch :
    (Metric.ngrams lateBloomerCfg).result (feedCompact lateBloomerCfg 10 [lateBloomerStream.flatten])
      = [(['z'], (2 : Rat) / 17)] := by
  rw [C07_text_feedCompact_eq]
  show ((feedCompactI lateBloomerCfg 10 [lateBloomerStream.flatten]).result strLe).take 1 = _
  rw [C07_text_result_eq_isort]
  decide +kernel

/-! ## why no single-batch test can notice: compaction to `cap ≥ k` entries is invisible in the next `result()` -/

/-- for every well-formed state: the top `k` of the compacted state is the top `k` of the state (`k ≤ cap`) -/
theorem C07_text_compaction_exact_one_state (cap k : Nat) (hk : k ≤ cap) (s : FreqState Str) (hs : s.WF) :
    ((compact cap s).result strLe).take k = (s.result strLe).take k := by
  unfold compact
  split
  · have hrows : (FreqState.mk (((s.result strLe).take cap).map fun r => (r.1, get s.counter r.1)) s.count).rows
        = (s.result strLe).take cap := by
      simp only [FreqState.rows, List.map_map]
      conv => rhs; rw [← List.map_id ((s.result strLe).take cap)]
      apply List.map_congr_left
      intro r hr
      have hr' : r ∈ s.rows := (List.mergeSort_perm _ _).mem_iff.mp (List.mem_of_mem_take hr)
      simp only [FreqState.rows, List.mem_map] at hr'
      obtain ⟨kv, hkv, rfl⟩ := hr'
      have := ((mem_iff_get s.counter hs kv.1 kv.2).mp hkv).2
      simp [this]
    have hsorted : ((s.result strLe).take cap).Pairwise (fun a b => rowLe strLe a b = true) :=
      (pairwise_sort strLe_keyOrder s.rows).sublist (List.take_sublist _ _)
    show (List.mergeSort (FreqState.mk _ s.count).rows (rowLe strLe)).take k = _
    rw [hrows, ← eq_sort_of_sorted_perm strLe_keyOrder hsorted (List.Perm.refl _), List.take_take,
      Nat.min_eq_left hk]
  · rfl

/-- hence a compacting accumulator fed ONE batch reports exactly what the real accumulator reports, for every
configuration, every `c ≥ 1` and every batch: the defect needs at least two batches -/
theorem C07_text_compaction_exact_one_batch (cfg : NGramCfg) (c : Nat) (hc : 1 ≤ c) (b : List Str) :
    (Metric.ngrams cfg).result (feedCompact cfg c [b])
      = (Metric.ngrams cfg).result ((topK cfg).feed [b]) := by
  have hk : cfg.k ≤ c * cfg.k := Nat.le_mul_of_pos_left _ hc
  exact C07_text_compaction_exact_one_state (c * cfg.k) cfg.k hk _
    (FreqState.wf_merge _ FreqState.wf_empty)

end MlModel.C07
