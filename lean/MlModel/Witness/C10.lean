import MlModel.Model.Resume
import MlModel.Model.ResumeChain
import MlModel.Model.ResumeSliced
import MlModel.Lemmas.PipeAggInst
/-!
# Counter-examples for C10 (`decide`d instances on the executable model)

* `C10_F1_witness`, `C10_N2_witness`: the **unrepaired** `state` expressions of
  `SequenceIterator` / `DataIterator` (repaired in the repo worktree, `fix:` commits) re-deliver
  elements after a second-generation restore.
* `C10_F16_witness`: a re-batching chain loses the rows in its carry buffer (open finding F16).
* `C10_F12_witness`: with producer threads the checkpoint holds the producers' positions; what
  they had taken but not yet delivered is never delivered (open finding F12): 20 elements,
  2 producers, 8 elements lost.
* `C10_m5_restore_drops_slices_witness`: the seeded regression `C10-m5-restore-drops-slice-states` (restore copies only
  the keys of `create_state()`): delivered batches and the un-sliced aggregate stay right, the per-slice aggregate of the
  resumed run is wrong — `C10_pipeline_sliced` is false of it.
Each is the negation of the C10 statement on one concrete history.
-/
namespace MlModel.Witness.C10
open MlModel.Resume

def secondGen : List Op := [.take 3, .ckpt, .restore, .take 2, .ckpt, .restore, .take 100]

/-- F1 on the unrepaired `SequenceIterator.state`: `range(10)`, 3 + 2 elements, then the third
generation yields `[2..9]` — elements 2, 3, 4 are delivered twice. -/
theorem C10_F1_witness :
    ((SrcRun.run (seqRecOrig (List.range 10)) (SrcRun.init _ (Src.root 10).iterate) secondGen).toOption.map
      (·.delivered)) = some [0, 1, 2, 3, 4, 2, 3, 4, 5, 6, 7, 8, 9] := by decide

/-- the repaired expression on the same history -/
theorem C10_F1_repaired_witness :
    ((SrcRun.run (seqRec (List.range 10)) (SrcRun.init _ (Src.root 10).iterate) secondGen).toOption.map
      (·.delivered)) = some (List.range 10) := by decide

/-- the unrepaired `DataIterator.state`: checkpointing a just-restored iterator forgets the
position: `[take 1, ckpt, restore, ckpt, restore]` re-delivers element 0. -/
theorem C10_N2_witness :
    ((SrcRun.run (iterRecOrig (List.range 3)) (SrcRun.init _ (⟨⟨0, 1, 0⟩, 0⟩ : IterIt))
      [.take 1, .ckpt, .restore, .ckpt, .restore, .take 100]).toOption.map (·.delivered)) =
      some [0, 0, 1, 2] := by decide

theorem C10_N2_repaired_witness :
    ((SrcRun.run (iterRec (List.range 3)) (SrcRun.init _ (⟨⟨0, 1, 0⟩, 0⟩ : IterIt))
      [.take 1, .ckpt, .restore, .ckpt, .restore, .take 100]).toOption.map (·.delivered)) =
      some [0, 1, 2] := by decide

/-- sum and count of rows -/
def sumCount : Agg.Mergeable Nat (Nat × Nat) (Nat × Nat) :=
  ⟨(0, 0), fun xs => (xs.foldl (· + ·) 0, xs.length), fun s t => (s.1 + t.1, s.2 + t.2), id⟩

def rebatch2 : PipeDef (List Nat) (List Nat) (List Nat) Nat (Nat × Nat) (Nat × Nat) :=
  ⟨Trans.chunk id 2, sumCount, id⟩

def rowsView : RowView (List Nat) (List Nat) (List Nat) Nat := ⟨id, id, id⟩

/-- F16: `[[0,1,2],[3,4,5],[6,7,8]]` re-batched to 2 rows, checkpoint after the first output
`[0,1]` (row 2 sits in the carry buffer), restore: row 2 is never delivered and is missing from the
aggregate (8 rows, sum 34 instead of 9 rows, sum 36). -/
theorem C10_F16_witness :
    ((PipeRun.run (seqRec [[0, 1, 2], [3, 4, 5], [6, 7, 8]]) rebatch2 rowsView
        (PipeRun.init _ rebatch2 (Src.root 3).iterate) [.take 1, .ckpt, .restore, .take 100]).toOption.map
      fun r => (Ev.delivered r.trace, Ev.lostRows r.trace, r.p.agg)) =
      some ([[0, 1], [3, 4], [5, 6], [7, 8]], [2], (34, 8)) := by decide

/-- the uninterrupted run of the same pipeline -/
theorem C10_F16_uninterrupted_witness :
    ((PipeRun.run (seqRec [[0, 1, 2], [3, 4, 5], [6, 7, 8]]) rebatch2 rowsView
        (PipeRun.init _ rebatch2 (Src.root 3).iterate) [.take 100]).toOption.map
      fun r => (Ev.delivered r.trace, Ev.lostRows r.trace, r.p.agg)) =
      some ([[0, 1], [2, 3], [4, 5], [6, 7], [8]], [], (36, 9)) := by decide

/-- the two shards `TransformRunner._actual_inputs` makes of `range(20)` for `num_threads = 2` -/
def twoShards : List SeqIt :=
  [Src.iterate ⟨[Cfg.dflt, ⟨0, 2, 0⟩], 0, 10⟩, Src.iterate ⟨[Cfg.dflt, ⟨1, 2, 0⟩], 10, 20⟩]

theorem twoShards_witness :
    ((List.range 2).mapM fun i => (Src.root 20).shard ⟨i, 2, 0⟩).toOption =
      some (twoShards.map (·.src)) := by decide

/-- producer 0 takes 6 elements, producer 1 takes 5, the consumer receives 3, checkpoint, restore,
then everything runs to the end -/
def f12Sched : List ParOp :=
  List.replicate 6 (.pull 0) ++ List.replicate 5 (.pull 1) ++ List.replicate 3 (.deliver 0) ++
  [.ckpt, .restore] ++ List.replicate 10 (.pull 0) ++ List.replicate 10 (.pull 1) ++
  List.replicate 20 (.deliver 0)

/-- F12: 20 elements, 2 producer threads: 8 elements are never delivered and the aggregate counts
12 elements. -/
theorem C10_F12_witness :
    ((ParRun.run (seqRec (List.range 20)) (fun x => [x]) (fun (s : Nat × Nat) b => (s.1 + b, s.2 + 1))
        (ParRun.init _ (0, 0) twoShards) f12Sched).toOption.map
      fun r => (r.delivered, r.lost, r.s.buf, r.s.agg.2)) =
      some ([0, 1, 2, 6, 7, 8, 9, 15, 16, 17, 18, 19], [3, 4, 5, 10, 11, 12, 13, 14], [], 12) := by
  decide

/-! ### the seeded regression `C10-m3-chain-restore-drops-head-stage`

`from_state` rewritten as `append(upstream)` + `reversed(...)` with a walk that never advances
(`ChainIt.walkStuck`).  For one and two stages it is the correct walk — which is why a check that
only builds chains of two stages cannot see it; for three stages the restored `_iterators` is
`[b', b', c']` and the head stage's aggregate is no longer reported. -/

theorem C10_m3_walk_agrees_upto_two_witness :
    (ChainIt.walkStuck 1 0 [0]).toOption = (ChainIt.walk 1 0 [0]).toOption ∧
    (ChainIt.walkStuck 2 1 [0]).toOption = (ChainIt.walk 2 1 [0]).toOption ∧
    (ChainIt.walk 2 1 [0]).toOption = some [1, 0] := by decide

theorem C10_m3_walk_three_witness :
    (ChainIt.walkStuck 3 2 [0]).toOption = some [1, 1, 0] ∧
    (ChainIt.walk 3 2 [0]).toOption = some [2, 1, 0] := by decide

def threeStages : List (Stage Nat Nat (Nat × Nat) (Nat × Nat)) :=
  [⟨"c", fun x => [x + 3], sumCount, fun b => [b], true⟩,
   ⟨"b", fun x => [x * 2], sumCount, fun b => [b], true⟩,
   ⟨"a", fun x => [x + 1], sumCount, fun b => [b], true⟩]

/-- `agg_state` of a drained 3-stage chain over `range(3)` as reported through a correctly tracked
chain and through the `[b', b', c']` of the regression: stage `a` is missing (and `b` is listed
twice before the dict collapses it) -/
theorem C10_m3_aggstate_witness :
    let top := (takeN (chainRec (seqRec (List.range 3)) threeStages) 100
      (chainFresh (seqRec (List.range 3)) threeStages (Src.root 3).iterate)).2
    ChainIt.aggState _ threeStages ⟨top, [2, 1, 0]⟩ = [("a", (6, 3)), ("b", (12, 3)), ("c", (21, 3))] ∧
    ChainIt.aggState _ threeStages ⟨top, [1, 1, 0]⟩ = [("b", (12, 3)), ("b", (12, 3)), ("c", (21, 3))] := by
  decide

/-! ### a sliced aggregation under checkpoint / resume

`PipeAgg.exPipeline` (sum / count of `x` sliced by `a`, by `a` in replace mode and by a restricted cross; mean of `y` with
slicing disabled) over the three batches of `PipeAgg.exStream`; a checkpoint after the FIRST batch (slice `a = 1` already
has an entry), a restore, then drained. -/

open MlModel.PipeAgg in
def slicedEx : SlicedDef Batch (List Val) Stat Rv := ⟨fun b => [b], exPipeline⟩

def slicedHist : List Op := [.take 1, .ckpt, .restore, .take 100]

open MlModel.PipeAgg in
/-- what a run reports: delivered batch count, the un-sliced entry, the entry of slice `a = 1` -/
def slicedObs (R : Recoverable Batch) (it : Except ErrKind (SrcRun R)) (agg : R.It → Except ErrKind (State Stat)) :
    Option (Nat × Option (ROut Rv) × Option (ROut Rv)) :=
  it.toOption.bind fun r => (agg r.it).toOption.bind fun st => (getResult exPipeline st).toOption.map fun res =>
    (r.delivered.length, AList.get? res ⟨"o", SliceKey.none⟩, AList.get? res ⟨"o", ⟨["a"], [1]⟩⟩)

open MlModel.PipeAgg in
theorem C10_m5_restore_drops_slices_witness :
    -- the code's restore: the uninterrupted values (sum 19 over 3 rows in slice a = 1)
    slicedObs _ (SrcRun.run (slicedRec (seqRec exStream) slicedEx)
        (SrcRun.init _ (SlicedIt.fresh _ slicedEx (Src.root 3).iterate none)) slicedHist) SlicedIt.agg
      = some (3, some (.one (.nums [(26, 1), (4, 1)])), some (.one (.nums [(19, 1), (3, 1)]))) ∧
    slicedObs _ (SrcRun.run (slicedRec (seqRec exStream) slicedEx)
        (SrcRun.init _ (SlicedIt.fresh _ slicedEx (Src.root 3).iterate none)) [.take 100]) SlicedIt.agg
      = some (3, some (.one (.nums [(26, 1), (4, 1)])), some (.one (.nums [(19, 1), (3, 1)]))) ∧
    -- the regression's restore: same elements, same un-sliced value, slice a = 1 restarts from zero
    slicedObs _ (SrcRun.run (slicedRecM5 (seqRec exStream) slicedEx)
        (SrcRun.init (slicedRecM5 (seqRec exStream) slicedEx) (SlicedIt.fresh _ slicedEx (Src.root 3).iterate none))
        slicedHist) SlicedIt.agg
      = some (3, some (.one (.nums [(26, 1), (4, 1)])), some (.one (.nums [(8, 1), (1, 1)]))) := by
  refine ⟨by decide, by decide, by decide⟩

end MlModel.Witness.C10
