import MlModel.Model.Resume
namespace MlModel.Witness.C10
open MlModel.Resume
theorem C10_placeholder_witness : (Src.root 3).start = 0 := rfl
end MlModel.Witness.C10
