import MlModel.Properties.C05Live
/-!
# Witness: with `ignore_error=True`, a stop request with an exception makes `get_batch` return
`[]` for ever

`maybe_stop(ValueError)` on a queue created with `ignore_error=True`: `get_nowait` raises the
recorded exception, `get_batch` swallows it (`not exhausted and self.ignore_error → break`) and
returns the empty list — every time.  The consumer program `while True: get_batch()` therefore
never terminates (on the real code `DequeueIterator.__next__` then raises
`IndexError('pop from an empty deque')` instead of the recorded exception).  This is why the
termination theorems (`C04_variant`, `C04_bounded_executions`) assume `ignore_error = False`.
-/
namespace MlModel.C05
open MlModel.Queue

def livelockInit : Cfg := init 0 1 false true [.stopper (some .value), .batchLoop 2 false]

/-- the stopper runs to completion (9 steps), then the consumer performs one `get_batch` (9 steps) -/
def livelockPrefix : List (Tid × Bool) := (List.replicate 9 0 ++ List.replicate 9 1).map (·, false)

/-- one more complete `get_batch` call of the consumer (8 steps) -/
def livelockLoop : List (Tid × Bool) := (List.replicate 8 1).map (·, false)

/-- a reachable configuration from which 8 steps of the consumer lead back to the **same**
configuration: an infinite execution (a test of a concrete schedule) -/
theorem C05_ignore_error_livelock_witness :
    ∃ c, Reachable livelockInit c ∧ c.sh.ignoreError = true ∧ c.sh.exc = some .value ∧
      c.ths.map (·.pc) = [.done, .bAcq] ∧ StepsN c 8 c := by
  refine ⟨(replay livelockInit livelockPrefix []).2.1,
    MlModel.C04.reachable_replay livelockInit livelockPrefix (by decide), by decide, by decide, by decide, ?_⟩
  refine .succ (tid := 1) (alt := false) (c1 := _) (lbl := _) (by rfl) ?_
  refine .succ (tid := 1) (alt := false) (c1 := _) (lbl := _) (by rfl) ?_
  refine .succ (tid := 1) (alt := false) (c1 := _) (lbl := _) (by rfl) ?_
  refine .succ (tid := 1) (alt := false) (c1 := _) (lbl := _) (by rfl) ?_
  refine .succ (tid := 1) (alt := false) (c1 := _) (lbl := _) (by rfl) ?_
  refine .succ (tid := 1) (alt := false) (c1 := _) (lbl := _) (by rfl) ?_
  refine .succ (tid := 1) (alt := false) (c1 := _) (lbl := _) (by rfl) ?_
  refine .succ (tid := 1) (alt := false) (c1 := _) (lbl := _) (by rfl) ?_
  exact .zero

end MlModel.C05
