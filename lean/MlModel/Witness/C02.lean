import MlModel.Lemmas.PipeAggInst
import MlModel.Lemmas.PipeAggDtype
import MlModel.Model.PipeAggCarry
/-!
# C02 — witnesses (tests by evaluation, `decide`)

**F-C02-replace-absent** (open).  With `replace_mask_false_with` set, a row-level slicer's entry for a
slice value is updated only by the batches in which the value occurs: the result depends on how the
stream is cut into batches and differs from the brute-force group-by with replacement over the whole
stream.  The model reproduces the real behaviour (`transform.py:326-336`: a slice state is created and
updated only for the keys `iterate_and_slice` yields for the current batch).

Stream of `exStream` / `exStreamOne` (same rows: a = 1,1,2,1; x = 5,6,7,8), aggregate = (sum, count) of `x`,
slicer `a0` = feature `a` with replace value 0:
* one batch:        slice a=2 → rows 0,0,7,0      → (7, 4)   = the brute-force value
* three batches:    slice a=2 → last batch only: 7,0 → (7, 2)
-/
namespace MlModel.C02
open MlModel MlModel.Agg MlModel.PipeAgg

/-- the brute-force value: every selected row of the stream, those outside the slice replaced -/
def bruteForceReplace (bs : List Batch) (rowss : List (List (List Val))) : List (List Val) :=
  ((bs.zip rowss).map fun p =>
    replaceRows defaultFn [2] (fun row : List Val => row.map (Val.fill 0)) (exSlicerRepl.featRows p.1) p.2).flatten

theorem C02_replace_absent_witness :
    -- the same rows, cut differently, give different values for slice a = 2 …
    (aggResult exPipeline exStreamOne).toOption.bind (AList.get? · ⟨"o", ⟨["a0"], [2]⟩⟩)
      = some (.one (.nums [(7, 1), (4, 1)])) ∧
    (aggResult exPipeline exStream).toOption.bind (AList.get? · ⟨"o", ⟨["a0"], [2]⟩⟩)
      = some (.one (.nums [(7, 1), (2, 1)])) ∧
    -- … and the three-batch value is not the brute-force group-by with replacement (which is (7, 4))
    (match mapE exAgg.rowsOf exStream with
      | .ok rowss => exAgg.outputAt (exAgg.m.ofBatch (bruteForceReplace exStream rowss)) 0
      | .error _ => none)
      = some (.one (.nums [(7, 1), (4, 1)])) := by
  decide

/-- in filter mode the same two streams agree (as `C02_slices` proves in general) -/
theorem C02_filter_batching_witness :
    (aggResult exPipeline exStreamOne).toOption.bind (AList.get? · ⟨"o", ⟨["a"], [2]⟩⟩)
      = (aggResult exPipeline exStream).toOption.bind (AList.get? · ⟨"o", ⟨["a"], [2]⟩⟩) := by
  decide

/-! ## A casting implementation violates "the replaced entry is exactly the value"

The seeded change `C02-m4-replace-mask-keeps-column-dtype` replaces `np.where(mask, items, v)` by
`result = np.array(items); result[~mask] = v`: numpy item assignment casts `v` INTO the dtype of the
column.  `castInto` models that cast (entries checked against numpy 2.x: an int column truncates a float
toward zero and takes a bool as 0 / 1, a bool column takes the truth value, a `<Uw` column keeps the first
`w` characters of the string form, a float column keeps numbers; an int / float column refuses strings, an int
column refuses `None`).  `applyNpCast` is `applyNp` with that assignment.  The theorems
`C02_replace_exact_np` / `C02_replaced_row_is_value` are false of it. -/

/-- numpy item assignment `column[i] = v` for a column of dtype `d` (`w` = the width of a `<Uw` column) -/
def castInto (d : DType) (w : Nat) (v : Scalar) : Except ErrKind Scalar :=
  match d, v with
  | .obj, v => .ok v
  | .int, .int i => .ok (.int i)
  | .int, .flt m e => .ok (.int (Int.tdiv m (10 ^ e)))
  | .int, .bool b => .ok (.int (if b then 1 else 0))
  | .int, .str _ => .error .value
  | .int, .none => .error .type
  | .bool, .int i => .ok (.bool (i != 0))
  | .bool, .flt m _ => .ok (.bool (m != 0))
  | .bool, .bool b => .ok (.bool b)
  | .bool, .str s => .ok (.bool (s != ""))
  | .bool, .none => .ok (.bool false)
  | .flt, .str _ => .error .value
  | .flt, v => .ok v                                  -- (`None` becomes NaN: not modelled)
  | .str, .none => .ok (.str (String.ofList ("None".toList.take w)))
  | .str, v => .ok (.str (String.ofList ((pyStr v).toList.take w)))

/-- the width of a string column -/
def strWidth (ss : List Scalar) : Nat :=
  ss.foldl (fun w s => match s with
    | .str t => max w t.length
    | _ => w) 0

/-- the model of the casting implementation (1-D and N-d columns alike: every scalar of an unselected
row becomes the cast value) -/
def applyNpCast (r : Scalar) (bits : List Bool) (xs : List Val) : Except ErrKind Val :=
  let ss := scalarsList xs
  match castInto (inferDType ss) (strWidth ss) r with
  | .error e => .error e
  | .ok r' => .ok (.seq true (replBits (Val.fill r') bits xs))

/-- int column × 0.5, bool column × 0.5, `<U1` column × `'<pad>'`, 2-D int rows × 0.5, int column × `None`:
the code's `np.where` (model `applyNp`) inserts exactly the value — as `C02_replace_exact_np` proves in
general, all these columns being `StrSafe` — the casting implementation inserts 0, `True`, `'<'`, 0 and raises. -/
theorem C02_casting_impl_witness :
    -- int column, r = 0.5
    (applyNp (some (.flt 5 1)) [true, false, true] [.leaf 1, .leaf 9, .leaf 5]).toOption.map Val.scalars
      = some [.int 1, .flt 5 1, .int 5] ∧
    (applyNpCast (.flt 5 1) [true, false, true] [.leaf 1, .leaf 9, .leaf 5]).toOption.map Val.scalars
      = some [.int 1, .int 0, .int 5] ∧
    -- bool column, r = 0.5
    (applyNp (some (.flt 5 1)) [true, false] [.leaf (.bool true), .leaf (.bool false)]).toOption.map Val.scalars
      = some [.bool true, .flt 5 1] ∧
    (applyNpCast (.flt 5 1) [true, false] [.leaf (.bool true), .leaf (.bool false)]).toOption.map Val.scalars
      = some [.bool true, .bool true] ∧
    -- 2-D int rows, r = 0.5: the whole unselected row
    (applyNp (some (.flt 5 1)) [false, true] [.seq true [.leaf 1, .leaf 2], .seq true [.leaf 3, .leaf 4]]).toOption.map
        Val.scalars = some [.flt 5 1, .flt 5 1, .int 3, .int 4] ∧
    (applyNpCast (.flt 5 1) [false, true] [.seq true [.leaf 1, .leaf 2], .seq true [.leaf 3, .leaf 4]]).toOption.map
        Val.scalars = some [.int 0, .int 0, .int 3, .int 4] ∧
    -- int column, r = None
    (applyNp (some .none) [true, false] [.leaf 1, .leaf 9]).toOption.map Val.scalars = some [.int 1, .none] ∧
    (applyNpCast .none [true, false] [.leaf 1, .leaf 9]).toOption.map Val.scalars = none := by
  decide

/-- the string case: a `<U1` column and the filler `'<pad>'` -/
theorem C02_casting_impl_str_witness :
    (applyNp (some (.str "<pad>")) [true, false] [.leaf (.str "a"), .leaf (.str "b")]).toOption.map Val.scalars
      = some [.str "a", .str "<pad>"] ∧
    (applyNpCast (.str "<pad>") [true, false] [.leaf (.str "a"), .leaf (.str "b")]).toOption.map Val.scalars
      = some [.str "a", .str "<"] := by
  decide

/-! ## F-C02-replace-str-promote (open)

numpy builds one array from the column and the replacement value; when exactly one of them is a string the
common dtype is a string dtype and the non-strings are converted (`DType.promote`, `npCast`): the kept rows of
an int column become `'1'`, `'5'`; a string column turns the filler `True` into `'True'`; a string column and
the filler `0` raise `DTypePromotionError` on the `np.where` path and give `'0'` on the `np.asarray(result)` path
(an ndarray column under a list mask).  The Python-level replacement — what a `list` column under a list mask
gets, `C02_replace_exact_list` — keeps the kept rows and inserts exactly the value.  None of these inputs is
`StrSafe`, the hypothesis of `C02_replace_exact_np`. -/
theorem C02_replace_str_promote_witness :
    -- numpy mask, int column, filler 'pad'
    (applyNp (some (.str "pad")) [true, false, true] [.leaf 1, .leaf 9, .leaf 5]).toOption.map Val.scalars
      = some [.str "1", .str "pad", .str "5"] ∧
    -- what the group-by with replacement has
    scalarsList (replBits (Val.fill (.str "pad")) [true, false, true] [.leaf 1, .leaf 9, .leaf 5])
      = [.int 1, .str "pad", .int 5] ∧
    -- string column, filler True
    (applyNp (some (.bool true)) [true, false] [.leaf (.str "a"), .leaf (.str "b")]).toOption.map Val.scalars
      = some [.str "a", .str "True"] ∧
    -- string column, filler 0: np.where raises
    (applyNp (some 0) [true, false] [.leaf (.str "a"), .leaf (.str "b")]).toOption.map Val.scalars = none ∧
    -- an ndarray string column under a LIST mask, filler 0: np.asarray(result) makes it '0' …
    (applyMask (some 0) (.seq true [.leaf (.str "a"), .leaf (.str "b")]) (.seq [.tt, .ff])).toOption.map Val.scalars
      = some [.str "a", .str "0"] ∧
    -- … while the same column as a list keeps the int 0
    (applyMask (some 0) (.seq false [.leaf (.str "a"), .leaf (.str "b")]) (.seq [.tt, .ff])).toOption.map Val.scalars
      = some [.str "a", .int 0] ∧
    -- none of the numpy inputs is StrSafe
    ¬ Val.StrSafe (.str "pad") (.seq true [.leaf 1, .leaf 9, .leaf 5]) ∧
    ¬ Val.StrSafe (.bool true) (.seq true [.leaf (.str "a"), .leaf (.str "b")]) := by
  refine ⟨by decide, by decide, by decide, by decide, ?_, ?_, by decide, by decide⟩
  · simp [applyMask, applySeq, rewrap, Except.map, Scalar.toVal, Val.shape?, shapes, npCast, inferDType,
      scalarsList, Val.scalars, Scalar.dtype, DType.infer, strfyList, Val.strfy, Scalar.toStr, pyStr,
      Except.toOption]
    rfl
  · simp [applyMask, applySeq, rewrap, Except.map, Scalar.toVal, scalarsList, Val.scalars, Except.toOption]
    rfl

/-! ## A carried state restricted to the un-sliced keys (seeded change `C02-m6-carried-state-drops-slice-entries`)

`Model/PipeAggCarry.lean: unslicedOnly` = `{k: state[k] for k in map(MetricKey, agg_fns) if k in state}` in place of
`__init__`'s filter.  The example stream handed over after its first batch: the real filter keeps all 5 entries (2
un-sliced + 3 per-slice), the changed one 2; continuing from it, the un-sliced total is still (26, 4) but slice
`a = 1` restarts from zero and reports (8, 1) instead of (19, 3) — `C02_carried_state` is false of it. -/
theorem C02_carried_unsliced_only_witness :
    ((run exPipeline (exStream.take 1)).toOption.map fun st =>
        ((initFilter exPipeline st).length, AList.keys (unslicedOnly exPipeline st)))
      = some (5, [⟨["o"], SliceKey.none⟩, ⟨["p", "q"], SliceKey.none⟩]) ∧
    ((run exPipeline (exStream.take 1)).toOption.bind fun st =>
        (runFrom exPipeline (unslicedOnly exPipeline st) (exStream.drop 1)).toOption.bind fun st' =>
          (getResult exPipeline st').toOption.map fun res =>
            (AList.get? res ⟨"o", SliceKey.none⟩, AList.get? res ⟨"o", ⟨["a"], [1]⟩⟩))
      = some (some (.one (.nums [(26, 1), (4, 1)])), some (.one (.nums [(8, 1), (1, 1)]))) ∧
    (carriedResult exPipeline [exStream.take 1, exStream.drop 1]).toOption.bind (AList.get? · ⟨"o", ⟨["a"], [1]⟩⟩)
      = some (.one (.nums [(19, 1), (3, 1)])) := by
  decide

end MlModel.C02
