import MlModel.Lemmas.PipeAggInst
/-!
# C02 — witnesses (tests by evaluation, `decide`)

**F-C02-replace-absent** (open).  With `replace_mask_false_with` set, a row-level slicer's entry for a
slice value is updated only by the batches in which the value occurs: the result depends on how the
stream is cut into batches and differs from the brute-force group-by with replacement over the whole
stream.  The model reproduces the real behaviour (`transform.py:326-336`: a slice state is created and
updated only for the keys `iterate_and_slice` yields for the current batch).

Stream of `exStream` / `exStreamOne` (same rows: a = 1,1,2,1; x = 5,6,7,8), aggregate = (sum, count) of `x`,
slicer `a0` = feature `a` with replace value 0:
* one batch:        slice a=2 → rows 0,0,7,0      → (7, 4)   = the brute-force value
* three batches:    slice a=2 → last batch only: 7,0 → (7, 2)
-/
namespace MlModel.C02
open MlModel MlModel.Agg MlModel.PipeAgg

/-- the brute-force value: every selected row of the stream, those outside the slice replaced -/
def bruteForceReplace (bs : List Batch) (rowss : List (List (List Val))) : List (List Val) :=
  ((bs.zip rowss).map fun p =>
    replaceRows defaultFn [2] (fun row : List Val => row.map (Val.fill 0)) (exSlicerRepl.featRows p.1) p.2).flatten

theorem C02_replace_absent_witness :
    -- the same rows, cut differently, give different values for slice a = 2 …
    (aggResult exPipeline exStreamOne).toOption.bind (AList.get? · ⟨"o", ⟨["a0"], [2]⟩⟩)
      = some (.one (.nums [(7, 1), (4, 1)])) ∧
    (aggResult exPipeline exStream).toOption.bind (AList.get? · ⟨"o", ⟨["a0"], [2]⟩⟩)
      = some (.one (.nums [(7, 1), (2, 1)])) ∧
    -- … and the three-batch value is not the brute-force group-by with replacement (which is (7, 4))
    (match mapE exAgg.rowsOf exStream with
      | .ok rowss => exAgg.outputAt (exAgg.m.ofBatch (bruteForceReplace exStream rowss)) 0
      | .error _ => none)
      = some (.one (.nums [(7, 1), (4, 1)])) := by
  decide

/-- in filter mode the same two streams agree (as `C02_slices` proves in general) -/
theorem C02_filter_batching_witness :
    (aggResult exPipeline exStreamOne).toOption.bind (AList.get? · ⟨"o", ⟨["a"], [2]⟩⟩)
      = (aggResult exPipeline exStream).toOption.bind (AList.get? · ⟨"o", ⟨["a"], [2]⟩⟩) := by
  decide

end MlModel.C02
