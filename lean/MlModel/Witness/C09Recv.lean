import MlModel.Model.ShardRecv
/-!
# Witnesses for C09 (`decide`d instances on the executable model) — tests, not property theorems

The seeded regression `C09-m4-from-state-keeps-receiver-range` builds the base of `from_state`'s replay
with `dc.replace(self, _shard_state=ShardConfig())`, which keeps the RECEIVER's `_start` / `_end`
(`Source.fromStateKeepRange`).  Restoring through the root is unchanged; restoring through a worker shard
replays the chain inside the worker's own range.  These theorems show that
`C09_from_state_receiver_independent` / `C09_iter_restore_any_receiver` are exactly what that change
breaks (and that the shipped `from_state` does not): shard 1/2 of `range(10)`, two elements taken.
-/
namespace MlModel.Witness.C09Recv
open MlModel.Shard

def worker : Source := ⟨(DS.root 10).shardCore 1 2 0, false⟩

/-- the worker's iterator state after two elements -/
theorem C09_m4_state_witness :
    (SeqIter.nexts (List.range 10) 2 worker.iterate).2.state = .child 1 2 2 .dflt := by decide

/-- through the root both variants rebuild `[7, 8, 9]` … -/
theorem C09_m4_root_unchanged_witness :
    ((Source.root 10).fromStateKeepRange (.child 1 2 2 .dflt)).toOption.map (fun s => s.ds.elems (List.range 10))
      = some [7, 8, 9] ∧
    ((Source.root 10).fromState (.child 1 2 2 .dflt)).toOption.map (fun s => s.ds.elems (List.range 10))
      = some [7, 8, 9] := by decide

/-- … through the worker itself the seeded variant rebuilds nothing (the shipped code: `[7, 8, 9]`) -/
theorem C09_m4_keep_range_witness :
    (worker.fromStateKeepRange (.child 1 2 2 .dflt)).toOption.map (fun s => s.ds.elems (List.range 10))
      = some [] ∧
    (worker.fromState (.child 1 2 2 .dflt)).toOption.map (fun s => s.ds.elems (List.range 10))
      = some [7, 8, 9] := by decide

/-- the seeded variant is not receiver independent on a reachable receiver -/
theorem C09_m4_not_receiver_independent_witness :
    Reach 10 false worker ∧
    (worker.fromStateKeepRange (.child 1 2 2 .dflt)).toOption
      ≠ ((Source.root 10).fromStateKeepRange (.child 1 2 2 .dflt)).toOption :=
  ⟨Reach.shard 1 2 0 Reach.root rfl, by decide⟩

end MlModel.Witness.C09Recv
