import MlModel.Model.Agg.HeapMS
import MlModel.Model.Agg.RollingHeap
import MlModel.Model.Agg.CmStateHeap
/-!
# Witness: a pairwise-rounds reduction in `merge_states` writes state 2

The seeded regression `seeded/C11-m3-tree-reduce-merge-states` replaces the left fold of
`MergeableMetricAggFn.merge_states` (base.py:195–200) by

```
while len(states) > 1:
  for left, right in zip(states[::2], states[1::2]):
    left.merge(right)
  states = states[::2]
return states[0]
```

(`Sys.mergeStatesRounds` in `Model/Agg/HeapMS.lean`).  The merged value and the returned object are
those of the fold, and with one, two or three states nothing but the first state is touched; with
four states the survivor at index 2 is used as an intermediate receiver: afterwards it reports
`s2 + s3`.  The theorem `C11_merge_states_writes_first_only` (Properties/C11/MergeStates.lean) says
the fold never does that, for any number of states; these `decide`d instances show the model tells
the two apart (UnboundedSampler: lists extended in place; ConfusionMatrixAggFn states: four arrays
under `+=`).  `harness/agg/mergestates.py` replays the same shape on the real code.
-/
namespace MlModel.C11
open MlModel.Agg.Heap MlModel.Agg.Rolling MlModel.Agg.Rolling.H

/-- four `UnboundedSampler`s holding [1], [2], [3], [4] -/
def msFour : Sys (usClass Nat) :=
  (Sys.init (usClass Nat)).run [.make, .make, .make, .make,
    .add 0 [[1]], .add 1 [[2]], .add 2 [[3]], .add 3 [[4]]]

def msSamples (σ : Sys (usClass Nat)) : List (List (List Nat)) :=
  σ.objs.map fun o => (usAbs σ.heap o).samples

/-- (test, `decide`d) the rounds reduction over four states: the first state is right, **state 2 now
reports [3, 4]**; the fold of the shipped code leaves states 1, 2, 3 alone -/
theorem C11_merge_states_rounds_writes_state_2_witness :
    msSamples msFour = [[[1]], [[2]], [[3]], [[4]]] ∧
    msSamples (msFour.mergeStatesRounds [0, 1, 2, 3]) = [[[1, 2, 3, 4]], [[2]], [[3, 4]], [[4]]] ∧
    msSamples (msFour.mergeStates [0, 1, 2, 3]) = [[[1, 2, 3, 4]], [[2]], [[3]], [[4]]] := by
  decide +kernel

/-- (test) with one, two or three states the two reductions cannot be told apart -/
theorem C11_merge_states_rounds_small_indistinguishable_witness :
    msSamples (msFour.mergeStatesRounds [0]) = msSamples (msFour.mergeStates [0]) ∧
    msSamples (msFour.mergeStatesRounds [2, 0]) = msSamples (msFour.mergeStates [2, 0]) ∧
    msSamples (msFour.mergeStatesRounds [3, 1, 0]) = msSamples (msFour.mergeStates [3, 1, 0]) := by
  decide +kernel

/-- (test) nine states: the rounds reduction writes the states at indices 2, 4, 6 (and 4 again) -/
theorem C11_merge_states_rounds_nine_witness :
    let σ := (Sys.init (usClass Nat)).run ([.make, .make, .make, .make, .make, .make, .make, .make, .make] ++
      (List.range 9).map fun i => .add i [[i]])
    msSamples (σ.mergeStatesRounds (List.range 9))
      = [[[0, 1, 2, 3, 4, 5, 6, 7, 8]], [[1]], [[2, 3]], [[3]], [[4, 5, 6, 7]], [[5]], [[6, 7]], [[7]], [[8]]] ∧
    msSamples (σ.mergeStates (List.range 9))
      = [[[0, 1, 2, 3, 4, 5, 6, 7, 8]], [[1]], [[2]], [[3]], [[4]], [[5]], [[6]], [[7]], [[8]]] := by
  decide +kernel

open MlModel.Agg.Confusion.SH in
/-- (test) the same on `_ConfusionMatrix` states (`+=` on four arrays): state 2 ends up with the
counts of states 2 and 3 -/
theorem C11_merge_states_rounds_cm_state_witness :
    let b : Int → Batch := fun n => ⟨[n], [0], [1], [2]⟩
    let σ := (SysR.init (cls true)).base.run [.make, .make, .make, .make,
      .add 0 (b 1), .add 1 (b 2), .add 2 (b 3), .add 3 (b 4)]
    (σ.mergeStatesRounds [0, 1, 2, 3]).objs.map (absSt (σ.mergeStatesRounds [0, 1, 2, 3]).heap)
      = [some ⟨[10], [0], [4], [8]⟩, some (b 2), some ⟨[7], [0], [2], [4]⟩, some (b 4)] ∧
    (σ.mergeStates [0, 1, 2, 3]).objs.map (absSt (σ.mergeStates [0, 1, 2, 3]).heap)
      = [some ⟨[10], [0], [4], [8]⟩, some (b 2), some (b 3), some (b 4)] := by
  decide +kernel

end MlModel.C11
