import MlModel.Lemmas.AggHistory
/-!
# Witness: a cached total that an in-place merge does not invalidate breaks read transparency

The seeded regression `seeded/C07-m3-stale-cached-totals` turns `_ConfusionMatrix.t` (tp + fn) and
`.p` (tp + fp) into `functools.cached_property`.  `cachedCM` is that design as an `RMergeable`:
the object carries the counts and the cached pair `(t, p)`; a read fills the cache; `merge`
(`__iadd__`, used by `merge_states` on the first state) adds the counts in place and leaves the
cache alone.  (The model's `add` is `merge · (ofBatch b)`, i.e. also in place; the witnesses use
`merge` only.)

* `C11_history_cached_totals_witness` : in the history "report a shard, merge another shard into it
  in place, report again" the second report is computed with the totals of the first shard;
* `C11_history_cached_totals_not_transparent` : the same mutations without the first report give a
  different final report — an earlier read changed what a later read returns;
* `C11_history_cached_totals_no_read_laws` : hence NO observational equivalence makes this class
  satisfy the merge laws and the read laws together (contrapositive of
  `Hist.result_eq_of_same_mutations`).
The histories-with-reads check of harness/agg/histories.py finds exactly these histories on the
real objects (replay: update_state → get_result → merge_states(that state first) → get_result).
-/
namespace MlModel.C11
open MlModel.Agg MlModel.Agg.Hist

/-- confusion counts of one class with the totals cached by the first read -/
structure CachedCM where
  tp : Nat
  fp : Nat
  fn : Nat
  /-- `(t, p)` as of the first read, if any -/
  cache : Option (Nat × Nat)
  deriving DecidableEq, Repr

/-- an example is `(is_true, is_predicted)` -/
def CachedCM.ofBatch (xs : List (Bool × Bool)) : CachedCM :=
  ⟨(xs.filter fun x => x.1 && x.2).length, (xs.filter fun x => !x.1 && x.2).length,
   (xs.filter fun x => x.1 && !x.2).length, none⟩

/-- `self += other`: the four counts in place; the cached properties are not touched -/
def CachedCM.merge (a b : CachedCM) : CachedCM := ⟨a.tp + b.tp, a.fp + b.fp, a.fn + b.fn, a.cache⟩

/-- `cm.t`, `cm.p` -/
def CachedCM.totals (s : CachedCM) : Nat × Nat := s.cache.getD (s.tp + s.fn, s.tp + s.fp)

/-- precision = tp / p and recall = tp / t, as (numerator, denominator) -/
def CachedCM.result (s : CachedCM) : (Nat × Nat) × (Nat × Nat) :=
  ((s.tp, s.totals.2), (s.tp, s.totals.1))

def cachedCM : RMergeable (Bool × Bool) CachedCM ((Nat × Nat) × (Nat × Nat)) where
  empty := ⟨0, 0, 0, none⟩
  ofBatch := CachedCM.ofBatch
  merge := CachedCM.merge
  result := CachedCM.result
  read s := ({ s with cache := some s.totals }, s.result)

/-- shard 0: one true positive, one false negative;  shard 1: three true positives, one false positive -/
def cachedProg (firstReport : Bool) : List (Op (Bool × Bool)) :=
  [.new 0, .new 1, .add 0 [(true, true), (true, false)]] ++ (if firstReport then [.read 0] else []) ++
  [.add 1 [(true, true), (true, true), (true, true), (false, true)], .mergeStates 0 [1], .read 0]

/-- with the first report the global report is precision 4/1, recall 4/2 (outside [0, 1]); the
statement of C01 / C07 gives precision 4/5, recall 4/5 -/
theorem C11_history_cached_totals_witness :
    (run cachedCM (cachedProg true)).obs = [((1, 1), (1, 2)), ((4, 1), (4, 2))] ∧
    obsP cachedCM.toMergeable (fun _ => Expr.fresh) (cachedProg true)
      = [((1, 1), (1, 2)), ((4, 5), (4, 5))] := by
  decide +kernel

/-- the two histories have the same mutations; the first report changes what the last read returns -/
theorem C11_history_cached_totals_not_transparent :
    (cachedProg true).filter Op.isMut = (cachedProg false).filter Op.isMut ∧
    cachedCM.result ((run cachedCM (cachedProg true)).accs 0)
      ≠ cachedCM.result ((run cachedCM (cachedProg false)).accs 0) := by
  decide +kernel

/-- no equivalence on the states makes the cached class lawful with transparent reads -/
theorem C11_history_cached_totals_no_read_laws (Eqv : CachedCM → CachedCM → Prop) :
    ¬ (LawfulU cachedCM.toMergeable Eqv ∧ ReadLaws cachedCM Eqv) := by
  rintro ⟨hl, hr⟩
  exact C11_history_cached_totals_not_transparent.2
    (result_eq_of_same_mutations hl hr C11_history_cached_totals_not_transparent.1 0)

end MlModel.C11
