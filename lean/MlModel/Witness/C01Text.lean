import MlModel.Witness.C07Text
/-!
# Witness: an accumulator that compacts its state to `10 * k` candidates is not batching-invariant

Same stream as `Witness/C07Text.lean`: fed in two batches the compacting accumulator reports `a`, fed the same
34 texts in one batch it reports `z`.  The real accumulator truncates in `result()` only
(`C01_text_full_table`, `C01_text_any_tree_any_order`).
-/
namespace MlModel.C01
open MlModel.Agg MlModel.Agg.Text MlModel.C07

theorem C01_text_compaction_witness :
    (Metric.ngrams lateBloomerCfg).result (feedCompact lateBloomerCfg 10 lateBloomerStream)
      ≠ (Metric.ngrams lateBloomerCfg).result (feedCompact lateBloomerCfg 10 [lateBloomerStream.flatten]) := by
  rw [C07_text_compaction_witness, C07_text_compaction_witness_one_batch]
  decide +kernel

end MlModel.C01
