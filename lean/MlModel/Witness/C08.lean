import MlModel.Model.PipeLib
import MlModel.Model.PipeFnless
/-!
# Witnesses for the open findings of C08 (concrete instances, evaluated by the kernel)

* **F-C08-assign-rebatch** (= F-C19-assign): `assign('o', fn=v_add1, input_keys='v', batch_size=2)`
  over one record with 3 rows yields a record whose assigned column has 2 rows while its own
  columns have 3; the third row's result is dropped.
* (F-C08-index0 — `assign(Key.Index(0), ..)` rejected because `Index(0)` is falsy — is repaired
  (`fix:` 59af50d); the model is the repaired builder, `C08_build_index0` in `Properties/C08.lean`.)
* **F-C08-sink-threads**: with two workers each running its own `Sink.iterate` over the shared
  sink (`write*; close`), every schedule closes the sink twice and some schedule writes after a
  close.  (The threads themselves are not part of the `Pipe` model: this is the two-worker
  interleaving of the per-worker traces the model predicts.)
* **C08_fnless_unwrap_witness** (no finding: the seeded regression C08-m3, `_identity_fn(*x) = x[0] if len(x) == 1
  else x`): with that function `select('a')` stores `5` for the value `(5,)`, `(7, 8)` for `((7, 8),)`, raises for
  `()`, while the specification `Ref.routeValues` stores the values themselves — `C08_fnless_identity` is false for
  the variant exactly on 1-tuples and 0-tuples, and true on the values the pinned tests move (ints, lists, 2-tuples).
Replayed on the real code by `harness/corpus/C08_findings.jsonl` (the first; the repaired F-C08-index0 case stays in the corpus as a regression test) and found by the
`num_threads=2` cases of the check (the third).
-/
namespace MlModel.C08
open MlModel.Pipe MlModel.Iter MlModel.Pipe.Lib

def threeRows : List (Ev Val) :=
  [.ok (.dict [("v", .list [.int 0, .int 10, .int 20]), ("w", .list [.int 1, .int 11, .int 21])])]

def assignAdd1 (b : Nat) : Op :=
  { kind := .assign, inKeys := [.name "v"], outKeys := [.key (.name "o")],
    fn := NamedFn.vAdd1.toUFn, batch := b }

/-- number of rows of column `k` of a record -/
def rows (k : String) (r : Val) : Option Nat :=
  match getKey r (.name k) with
  | .ok (.list xs) => some xs.length
  | _ => none

theorem C08_assign_rebatch_witness :
    (Impl.run false [assignAdd1 2] threeRows).out.map (rows "o") = [some 2] ∧
    (Impl.run false [assignAdd1 2] threeRows).out.map (rows "v") = [some 3] ∧
    (Impl.run false [assignAdd1 2] threeRows).err.isNone = true ∧
    (Impl.run false [assignAdd1 0] threeRows).out.map (rows "o") = [some 3] := by
  decide +kernel

/-! ### the unwrapping `_identity_fn` (seeded regression C08-m3) -/

/-- `select(k_in, output_keys=k_out)` built on the unwrapping variant of `_identity_fn` -/
def selUnwrap : Op :=
  { kind := .select, inKeys := [.name "a"], outKeys := [.key (.name "a")], fn := identityFnUnwrap }

/-- what the variant stores vs what the specification says, on one selected value -/
def unwrapGot (v : Val) : Ev Val := (Impl.callAndRoute selUnwrap 0 .null [v]).1
def unwrapWant (v : Val) : Except ErrKind Val := Ref.routeValues .null selUnwrap.outKeys [v]

theorem C08_fnless_unwrap_witness :
    -- a 1-tuple is unwrapped: `{'a': (5,)}` becomes `{'a': 5}`, a nested `((7, 8),)` becomes `(7, 8)`
    unwrapGot (.tuple [.int 5]) = .ok (.dict [("a", .int 5)]) ∧
    unwrapWant (.tuple [.int 5]) = .ok (.dict [("a", .tuple [.int 5])]) ∧
    unwrapGot (.tuple [.tuple [.int 7, .int 8]]) = .ok (.dict [("a", .tuple [.int 7, .int 8])]) ∧
    unwrapWant (.tuple [.tuple [.int 7, .int 8]]) = .ok (.dict [("a", .tuple [.tuple [.int 7, .int 8]])]) ∧
    -- the empty tuple raises (no output for the one key)
    unwrapGot (.tuple []) = .error { kind := .value } ∧
    unwrapWant (.tuple []) = .ok (.dict [("a", .tuple [])]) ∧
    -- ints, lists of length 1 and 2-tuples are routed alike: the values the pinned tests move
    unwrapGot (.int 5) = liftErr (unwrapWant (.int 5)) ∧
    unwrapGot (.list [.int 3]) = liftErr (unwrapWant (.list [.int 3])) ∧
    unwrapGot (.tuple [.int 1, .int 2]) = liftErr (unwrapWant (.tuple [.int 1, .int 2])) :=
  ⟨rfl, rfl, rfl, rfl, rfl, rfl, rfl, rfl, rfl⟩

/-! ### two workers, one sink -/

inductive SinkEv where
  | write | close
  deriving DecidableEq, Repr

/-- the interleavings of `x :: xs` with `ys`, given those of `xs` with anything (`r`) -/
def interAux (x : SinkEv) (xs : List SinkEv) (r : List SinkEv → List (List SinkEv)) :
    List SinkEv → List (List SinkEv)
  | [] => [x :: xs]
  | y :: ys => (r (y :: ys)).map (x :: ·) ++ (interAux x xs r ys).map (y :: ·)

/-- all interleavings of two traces -/
def interleavings : List SinkEv → List SinkEv → List (List SinkEv)
  | [], ys => [ys]
  | x :: xs, ys => interAux x xs (interleavings xs) ys

/-- some `write` follows a `close` -/
def writeAfterClose : List SinkEv → Bool
  | [] => false
  | .close :: rest => rest.contains .write || writeAfterClose rest
  | .write :: rest => writeAfterClose rest

/-- the trace of one worker's `Sink.iterate`: one write per record it processes, then `finally: close` -/
def worker (n : Nat) : List SinkEv := List.replicate n .write ++ [.close]

theorem C08_sink_threads_witness :
    (interleavings (worker 1) (worker 1)).all (fun t => t.count .close == 2) = true ∧
    (interleavings (worker 1) (worker 1)).any writeAfterClose = true := by
  decide +kernel

end MlModel.C08
