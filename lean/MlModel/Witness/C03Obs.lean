import MlModel.Model.StrategyObs
/-!
# Witnesses for C03, round 10 (contrast models, `decide`d tests)

What the two round-8 seeded regressions of C03 do in the model, next to what the model of the real code does:

* **C03-m5** (`_RangeIterator.stop = stop or len(data)` together with `if stop.idx is not None:` in
  `MergedSequences.slice`): a slice that stops exactly on the first element of an underlying sequence also yields
  that whole sequence.  The whole-source run is unaffected; `k > 1` shards / `num_threads > 0` whose boundary falls ON
  a sequence start duplicate elements (`C03_merged_boundary_stop_witness`); a boundary just before or just after a
  sequence start does not (`C03_merged_boundary_off_by_one_witness`) — the alignment classes the check enumerates.
* **C03-m6** (`ChainedRunner.iterate` hands ONE full initial state to every aggregating stage and `_RunnerIterator`
  keeps `dict(state)` unfiltered): every stage holds a copy of all keys and updates its own; the chained
  `agg_state` (a later item wins) then answers an EARLIER stage's key with a later stage's never-updated copy, while
  `agg_result` (per-stage `get_result`) stays right (`C03_stage_state_copies_witness`).
-/
namespace MlModel.C03.Witness
open MlModel.Shard MlModel.Merged MlModel.StrategyObs

/-! ### C03-m5 -/

/-- `rangesBetween` with the trailing guard `if stop.idx is not None:` -/
def rangesBetweenM5 (lens : List Nat) (s e : Nat) : List Rng :=
  let start := locate lens s
  let stop := locate lens e
  if start.1 = lens.length then []
  else if start.1 = stop.1 then [⟨start.1, start.2.getD 0, stop.2⟩]
  else
    ⟨start.1, start.2.getD 0, none⟩
      :: ((List.range' (start.1 + 1) (stop.1 - (start.1 + 1))).map fun s => (⟨s, 0, none⟩ : Rng))
      ++ (match stop.2 with
          | some k => [⟨stop.1, 0, some k⟩]
          | none => [])

/-- `_RangeIterator` with `self.stop = stop or len(data)`: a stop of `0` reads as "until the end" -/
def rngElemsM5 {α : Type} (parts : List (List α)) (r : Rng) : List α :=
  let p := parts.getD r.seq []
  let stop := match r.stop with
    | some 0 => p.length
    | some k => k
    | none => p.length
  (p.drop r.start).take (stop - r.start)

def sliceElemsM5 {α : Type} (parts : List (List α)) (a b : Option Int) : List α :=
  let lens := parts.map List.length
  let se := sliceIndices (total lens) a b
  (if se.1 ≥ se.2 then [] else rangesBetweenM5 lens se.1 se.2).flatMap (rngElemsM5 parts)

def mergedShardPartsM5 {α : Type} (d : DS) (k : Nat) (parts : List (List α)) : List (List α) :=
  (List.range k).map fun (i : Nat) =>
    let s := d.shardCore (i : Int) (k : Int) 0
    sliceElemsM5 parts (some s.start) (some s.end)

/-- two sequences of two, two shards: the boundary is ON the start of the second sequence.  The seeded slice makes
shard 0 also yield the second sequence; the code's slice does not; the unsharded run is the same in both. -/
theorem C03_merged_boundary_stop_witness :
    mergedShardPartsM5 (mergedRoot [[0, 1], [2, 3]]) 2 [[0, 1], [2, 3]] = [[0, 1, 2, 3], [2, 3]] ∧
    mergedShardParts (mergedRoot [[0, 1], [2, 3]]) 2 [[0, 1], [2, 3]] = [[0, 1], [2, 3]] ∧
    mergedShardPartsM5 (mergedRoot [[0, 1], [2, 3]]) 1 [[0, 1], [2, 3]] = [[0, 1, 2, 3]] ∧
    -- lengths 4,4,2 with 5 shards (boundaries 2,4,6,8): ON the starts of the second and third sequence
    mergedShardPartsM5 (mergedRoot [[0, 1, 2, 3], [4, 5, 6, 7], [8, 9]]) 5 [[0, 1, 2, 3], [4, 5, 6, 7], [8, 9]]
      = [[0, 1], [2, 3, 4, 5, 6, 7], [4, 5], [6, 7, 8, 9], [8, 9]] := by
  decide +kernel

/-- a boundary ONE BEFORE or ONE AFTER a sequence start is not affected by the seeded slice: lengths 3,2 (boundary 3 =
the start) against 2,3 / 4,1 with two shards (boundary 3: one after / one before the start) -/
theorem C03_merged_boundary_off_by_one_witness :
    mergedShardPartsM5 (mergedRoot [[0, 1], [2, 3, 4]]) 2 [[0, 1], [2, 3, 4]] = [[0, 1, 2], [3, 4]] ∧
    mergedShardPartsM5 (mergedRoot [[0, 1, 2, 3], [4]]) 2 [[0, 1, 2, 3], [4]] = [[0, 1, 2], [3, 4]] ∧
    mergedShardPartsM5 (mergedRoot [[0, 1, 2], [3, 4]]) 2 [[0, 1, 2], [3, 4]] = [[0, 1, 2, 3, 4], [3, 4]] := by
  decide +kernel

/-! ### C03-m6 -/

section M6
variable {K V X R : Type} [DecidableEq K]

/-- every stage starts from a private copy of the chain's FULL initial state (`dict(state)`, no filter) and updates its
own keys -/
def chainStatesM6 (stages : List (AStage K V X R)) (feeds : List (List X)) : List (Except ErrKind (KV K V)) :=
  let full : KV K V := stages.flatMap AStage.createState
  (stages.zip feeds).map fun p => p.2.foldlM p.1.update full

end M6

/-- two aggregating stages, tuple states, the second stage sees the doubled stream -/
def twoStages : List (AStage (String × AKind) (List Int) Int (List Int)) :=
  [libStage [("first", .sumcount)], libStage [("second", .sumcount)]]

/-- the seeded plumbing: the chained state answers `first` with the SECOND stage's untouched initial copy `[0, 0]`
(the code: `[6, 3]`); `second` is right; the per-stage `agg_result` is right under both keys. -/
theorem C03_stage_state_copies_witness :
    let feeds : List (List Int) := [[1, 2, 3], [2, 4, 6]]
    let m6 := (chainStatesM6 twoStages feeds).filterMap Except.toOption
    lookupLast ("first", AKind.sumcount) m6.flatten = some [0, 0] ∧
    lookupLast ("second", AKind.sumcount) m6.flatten = some [12, 3] ∧
    lookupLast ("first", AKind.sumcount) (chainAggResult twoStages m6) = some [6, 3] ∧
    (chainAggState twoStages none feeds).toOption.bind (lookupLast ("first", AKind.sumcount)) = some [6, 3] ∧
    (chainAggState twoStages none feeds).toOption.bind (lookupLast ("second", AKind.sumcount)) = some [12, 3] := by
  decide +kernel

end MlModel.C03.Witness
