import MlModel.Model.MergeMulti
/-!
Counter-example for the single-pass merge of a one-shot stream of shard states (class of the seeded change C16-m2).
-/
namespace MlModel.Witness.C16Merge
open MlModel.Sched

/-- **Witness for the single-pass class (seeded change C16-m2).**  Handing the one-shot stream to the stage
runners one after the other: the second aggregating stage finds the stream exhausted - with the strict count
the fault-free merge raises `ValueError` ("got 0 states, needs 3"), without it the second stage's aggregate is
silently empty. -/
theorem single_pass_second_stage_starves_witness :
    chMergeSinglePass (· + ·) 0 (fun j (p : Nat × Nat) => if j = 0 then p.1 else p.2) 2 ⟨[(1, 10), (2, 20), (3, 30)]⟩ 3
      = .error .value ∧
    chMergeSinglePass (· + ·) 0 (fun j (p : Nat × Nat) => if j = 0 then p.1 else p.2) 2 ⟨[(1, 10), (2, 20), (3, 30)]⟩ 0
      = .ok [6, 0] := ⟨rfl, rfl⟩

end MlModel.Witness.C16Merge
