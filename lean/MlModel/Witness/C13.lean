import MlModel.Lemmas.Piter2Base
/-!
# Witnesses for finding F-C13-pool-small (two-level `piter` on a pool GIVEN BY THE CALLER)

`piter(iterator_fn, input_iterators=[i_1, i_2], max_parallism=1, buffer_size=1, thread_pool=pool)` in the two-queue LTS
`Model/Piter2.lean`: concrete schedules (tests, by `decide`) that end in a reachable configuration in which NO thread
has an enabled step although nothing is finished — the first-level enqueuers occupy every worker and are parked on
the full input queue, the only task that would drain it waits for a free worker, the caller waits for the empty
output queue.  The pool sized by fix b40a851 (`#inputs + max(P, 1)`) excludes this (`C13_two_own_pool_size`).
-/
namespace MlModel.C13
open MlModel.Piter2
open MlModel.Queue (Tid Pc Item)

/-- the row function of the witnesses: identity, never fails -/
def witF : Nat → Option (List Nat) := Piter.evalFn .ident none

/-- what a schedule ends in: `some (no step enabled, not everything finished, program points)` -/
def endOf (c0 : Cfg) (sched : List Tid) : Option (Bool × Bool × List Pc × List Pc) :=
  (run witF c0 sched).map fun c => (enabled witF c == [], c.allDone, c.ths.map (·.a.pc), c.ths.map (·.b.pc))

theorem stuck_of_endOf {c0 : Cfg} {sched : List Tid} {pa pb : List Pc}
    (h : endOf c0 sched = some (true, false, pa, pb)) :
    ∃ c, Reachable witF c0 c ∧ c.quiescent witF ∧ c.allDone = false ∧ c.ths.map (·.a.pc) = pa ∧ c.ths.map (·.b.pc) = pb := by
  unfold endOf at h
  cases hr : run witF c0 sched with
  | none => simp [hr] at h
  | some c =>
    simp only [hr, Option.map_some, Option.some.injEq, Prod.mk.injEq, beq_iff_eq] at h
    exact ⟨c, reachable_run sched c0 c hr, quiescent_of_enabled_nil h.1, h.2.1, h.2.2.1, h.2.2.2⟩

/-- one worker, two inputs, CPython's FIFO pool -/
def poolSmall1 : Cfg :=
  { piterInit 1 (some 1) none false [⟨[.val 1, .val 2], 900, []⟩, ⟨[], 901, []⟩] [800] with fifo := true }

/-- **F-C13-pool-small**, `max_workers = 1 < #inputs`: the caller submits the three tasks and parks on the empty output
queue (10 steps); the first enqueuer puts `1`, finds the input queue (capacity 1) full for `2` and parks (18 steps).
No step is enabled: enqueuer 1 waits for a consumer of the input queue, the `iterator_fn` task — that consumer — and
enqueuer 2 wait for the worker enqueuer 1 occupies. -/
theorem C13_pool_small_witness_1 :
    ∃ c, Reachable witF poolSmall1 c ∧ c.quiescent witF ∧ c.allDone = false ∧
      c.ths.map (·.a.pc) = [.done, .pWake, .start, .done] ∧ c.ths.map (·.b.pc) = [.bWake, .done, .done, .start] :=
  stuck_of_endOf (sched := List.replicate 10 0 ++ List.replicate 18 1) (by decide)

/-- two workers = #inputs, two inputs of two elements, FIFO pool -/
def poolSmall2 : Cfg :=
  { piterInit 1 (some 2) none false [⟨[.val 1, .val 2], 900, []⟩, ⟨[.val 3, .val 4], 901, []⟩] [800] with fifo := true }

/-- **F-C13-pool-small**, `max_workers = #inputs` (= #tasks − 1): both enqueuers run and park on the full input queue,
the `iterator_fn` task never gets a worker. -/
theorem C13_pool_small_witness_2 :
    ∃ c, Reachable witF poolSmall2 c ∧ c.quiescent witF ∧ c.allDone = false ∧
      c.ths.map (·.a.pc) = [.done, .pWake, .pWake, .done] ∧ c.ths.map (·.b.pc) = [.bWake, .done, .done, .start] :=
  stuck_of_endOf (sched := List.replicate 10 0 ++ List.replicate 18 1 ++ List.replicate 7 2) (by decide)

/-- one worker, any-order pool (the scheduler shim of the tie) -/
def poolSmall3 : Cfg := piterInit 1 (some 1) none false [⟨[.val 1, .val 2], 900, []⟩, ⟨[], 901, []⟩] [800]

/-- a pool that may start its tasks in any order has a second way to get stuck: the `iterator_fn` task takes the only
worker and parks on the empty input queue (holding `lock1`), no enqueuer can start. -/
theorem C13_pool_small_witness_3 :
    ∃ c, Reachable witF poolSmall3 c ∧ c.quiescent witF ∧ c.allDone = false ∧
      c.ths.map (·.a.pc) = [.done, .start, .start, .bWake] ∧ c.ths.map (·.b.pc) = [.bWake, .done, .done, .eNext] :=
  stuck_of_endOf (sched := List.replicate 10 0 ++ List.replicate 10 3) (by decide)

end MlModel.C13
