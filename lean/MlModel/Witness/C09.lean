import MlModel.Model.Merged
/-!
# Witnesses for finding F10 (C09): the *unrepaired* `MergedSequences._index` / `slice`

Model of iter_utils.py `_index`/`slice` **before** the `fix:` commits 8525850 / 996f15d, restricted to
non-negative indices, and `decide`d instances on which it disagrees with Python list semantics
(`Merged.pyIndex` / `Merged.pySlice`).  These are tests of concrete instances, not property theorems;
the findings are recorded as `fixed` in known_findings.d/C09.json and the property theorems in
`Properties/C09.lean` are about the repaired code.
-/
namespace MlModel.Witness.C09
open MlModel MlModel.Merged

/-- `bisect.bisect_left` on a sorted list: the number of leading entries `< x`. -/
def bisectLeft : List Nat → Nat → Nat
  | [], _ => 0
  | y :: ys, x => if y < x then 1 + bisectLeft ys x else 0

/-- The old `_index` for `index >= 0`:
`idx_seq = bisect_left(indices, index)`; past the end → `(idx_seq - 1, None)`;
`index == indices[idx_seq]` → `(idx_seq, 0)`; otherwise `(idx_seq - 1, index - indices[idx_seq - 1])`. -/
def oldLocate (lens : List Nat) (index : Nat) : Nat × Option Nat :=
  let indices := offsets lens
  let idxSeq := bisectLeft indices index
  if idxSeq = indices.length then (idxSeq - 1, none)
  else if index = indices.getD idxSeq 0 then (idxSeq, some 0)
  else (idxSeq - 1, some (index - indices.getD (idxSeq - 1) 0))

/-- The old `__getitem__` for `index >= 0`. -/
def oldGetitem {α : Type} (parts : List (List α)) (index : Nat) : Except ErrKind α :=
  let loc := oldLocate (parts.map List.length) index
  match parts[loc.1]? with
  | none => .error .index
  | some s =>
    match loc.2 with
    | none => .error .type
    | some i => orIndexError s[i]?

/-- The old `slice` for bounds `0 <= a`, `0 <= b` (no normalisation, no `start >= stop` check). -/
def oldSliceRanges (lens : List Nat) (a b : Nat) : List Rng :=
  let start := oldLocate lens a
  let stop := oldLocate lens b
  if start.1 = lens.length then []
  else if start.1 = stop.1 then [⟨start.1, start.2.getD 0, stop.2⟩]
  else
    ⟨start.1, start.2.getD 0, none⟩
      :: ((List.range' (start.1 + 1) (stop.1 - (start.1 + 1))).map fun s => (⟨s, 0, none⟩ : Rng))
      ++ (match stop.2 with
          | some (k + 1) => [⟨stop.1, 0, some (k + 1)⟩]
          | _ => [])

def oldSliceElems {α : Type} (parts : List (List α)) (a b : Nat) : List α :=
  (oldSliceRanges (parts.map List.length) a b).flatMap (rngElems parts)

/-- F10a: an index at the start offset of an empty part resolves into the empty part. -/
theorem F10a_witness :
    oldGetitem [[], [0]] 0 = .error .index ∧ pyIndex ([[], [0]] : List (List Nat)).flatten 0 = .ok 0 :=
  ⟨rfl, rfl⟩

theorem F10a_witness_middle :
    oldGetitem [[0, 1], [], [2]] 2 = .error .index ∧
    pyIndex ([[0, 1], [], [2]] : List (List Nat)).flatten 2 = .ok 2 :=
  ⟨rfl, rfl⟩

/-- F10c: an inverted slice whose start lies in a later part yields elements. -/
theorem F10c_witness :
    oldSliceElems [[0], [1]] 1 0 = [1] ∧ pySlice ([[0], [1]] : List (List Nat)).flatten (some 1) (some 0) = [] := by
  decide

/-- The repaired model on the same instances. -/
theorem F10_repaired :
    getitem [[], [0]] 0 = .ok 0 ∧ getitem [[0, 1], [], [2]] 2 = .ok 2 ∧
    sliceElems [[0], [1]] (some 1) (some 0) = ([] : List Nat) :=
  ⟨rfl, rfl, by decide⟩

end MlModel.Witness.C09
