import MlModel.Model.Agg.Confusion
/-!
# Witness for finding F8: without a global vocabulary, `tn` depends on the batching

`multiclass` input, `vocab=None`: the vocabulary is deduced per batch (`get_vocab`), and `tn`
counts the cells of *that* vocabulary.  Dataset `y_true = y_pred = [0, 1]`:
one batch → classes {0, 1}, each example has one true-negative cell: `tn = 2`;
two batches `[0]`, `[1]` → one class per batch, no negative cell at all: `tn = 0`
(specificity 1.0 vs 0.0 on the real code).  So the hypothesis "explicit vocabulary" of
`C01_classification_multiclass` cannot be dropped.  (`Batch.order` is CPython's set order.)
-/
namespace MlModel.Witness.C01
open MlModel.Agg.Confusion MlModel.Generated

def cfgF8 : Cfg :=
  { kind := .cm, metrics := [.SPECIFICITY], single := true, posLabel := 1, input := some .multiclass,
    average := .micro, vocab := none, kList := [] }

def oneBatch : List Batch := [{ yTrue := .flat [0, 1], yPred := .flat [0, 1], order := [0, 1] }]
def twoBatches : List Batch :=
  [{ yTrue := .flat [0], yPred := .flat [0], order := [0] },
   { yTrue := .flat [1], yPred := .flat [1], order := [1] }]

theorem C01_classification_F8_witness :
    feedApi cfgF8 oneBatch = .ok (some { tp := .s 2, tn := .s 2, fp := .s 0, fn := .s 0 }) ∧
    feedApi cfgF8 twoBatches = .ok (some { tp := .s 2, tn := .s 0, fp := .s 0, fn := .s 0 }) ∧
    runSharded cfgF8 [[twoBatches[0]], [twoBatches[1]]]
      = .ok (some { tp := .s 2, tn := .s 0, fp := .s 0, fn := .s 0 }) := by
  exact ⟨rfl, rfl, rfl⟩

end MlModel.Witness.C01
