import MlModel.Model.Agg.Confusion
/-!
# Witness for finding F8: without a global vocabulary, `tn` depends on the batching

`multiclass` input, `vocab=None`: the vocabulary is deduced per batch (`get_vocab`), and `tn`
counts the cells of *that* vocabulary.  Dataset `y_true = y_pred = [0, 1]`:
one batch → classes {0, 1}, each example has one true-negative cell: `tn = 2`;
two batches `[0]`, `[1]` → one class per batch, no negative cell at all: `tn = 0`
(specificity 1.0 vs 0.0 on the real code).  So the hypothesis "explicit vocabulary" of
`C01_classification_multiclass` cannot be dropped.  (`Batch.order` is CPython's set order.)
-/
namespace MlModel.Witness.C01
open MlModel.Agg.Confusion MlModel.Generated

def cfgF8 : Cfg :=
  { kind := .cm, metrics := [.SPECIFICITY], single := true, posLabel := 1, input := some .multiclass,
    average := .micro, vocab := none, kList := [] }

def oneBatch : List Batch := [{ yTrue := .flat [0, 1], yPred := .flat [0, 1], order := [0, 1] }]
def twoBatches : List Batch :=
  [{ yTrue := .flat [0], yPred := .flat [0], order := [0] },
   { yTrue := .flat [1], yPred := .flat [1], order := [1] }]

theorem C01_classification_F8_witness :
    feedApi cfgF8 oneBatch = .ok (some { tp := .s 2, tn := .s 2, fp := .s 0, fn := .s 0 }) ∧
    feedApi cfgF8 twoBatches = .ok (some { tp := .s 2, tn := .s 0, fp := .s 0, fn := .s 0 }) ∧
    runSharded cfgF8 [[twoBatches[0]], [twoBatches[1]]]
      = .ok (some { tp := .s 2, tn := .s 0, fp := .s 0, fn := .s 0 }) := by
  exact ⟨rfl, rfl, rfl⟩

/-! ## the other half of F8: the `macro` class axis

`average='macro'`, `vocab=None`, ONE accumulator (so `merge_states`, which refuses macro without a
vocabulary, is never called): the per-class arrays of the two batches `[0]` and `[1]` both have one
entry — for *different* classes — and `update_state` adds them position by position.  One batch
reports two classes with `tp = [1, 1]`, two batches report a single class with `tp = [2]`.
`C01_classification_novocab_tp_fp_fn` shows that for `micro` nothing but `tn` can move; this is the
reason `macro` is excluded there. -/

def cfgF8macro : Cfg :=
  { kind := .cm, metrics := [.RECALL], single := true, posLabel := 1, input := some .multiclass,
    average := .macro, vocab := none, kList := [] }

theorem C01_classification_F8_macro_witness :
    feedApi cfgF8macro oneBatch
      = .ok (some { tp := .v [1, 1], tn := .v [1, 1], fp := .v [0, 0], fn := .v [0, 0] }) ∧
    feedApi cfgF8macro twoBatches
      = .ok (some { tp := .v [2], tn := .v [0], fp := .v [0], fn := .v [0] }) ∧
    runSharded cfgF8macro [[twoBatches[0]], [twoBatches[1]]] = .error .value := by
  exact ⟨rfl, rfl, rfl⟩

end MlModel.Witness.C01
