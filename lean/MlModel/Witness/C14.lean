import MlModel.Properties.C14
/-!
# Counter-example for the WF hypothesis of `C14_eval` (known finding C14-F1) and the repaired C14-F2

Concrete instances, decided by evaluation of the model; the same inputs are replayed on the real code
by every run of the check (`known_findings.d/C14.json`).
-/
namespace MlModel.C14.Witness
open MlModel MlModel.Lazy MlModel.Remote

def srv : Srv := Srv.init 128 1024
def valueError : Exc := { kind := .py .value, msg := "as a value" }
def boom4 : Exc := { kind := .py .runtime, msg := "boom", code := 4 }

/-- C14-F1: `trace(ValueError)('as a value')` returns the instance locally, the client raises it:
`get_result ≠ local` — and the client cannot tell it from the program that raises it. -/
theorem C14_F1_witness :
    (run (.excValue valueError) srv).1 = .ok (.exc valueError) ∧
    (getResult (.excValue valueError) {} srv).1 = .error valueError ∧
    (getResult (.excValue valueError) {} srv).1 ≠ (run (.excValue valueError) srv).1.map wrap ∧
    (getResult (.excValue valueError) {} srv).1 = (getResult (.raise valueError) {} srv).1 := by decide

/-- C14-F2 (fixed): `RuntimeError('boom')` with an attribute `code == 4` raised on the server used to reach
the caller as `TimeoutError('Try longer timeout on …')`; with the repaired `get_result` it arrives unchanged,
and the transport's own deadline error is still mapped. -/
theorem C14_F2_fixed :
    (run (.raise boom4) srv).1 = .error boom4 ∧
    (getResult (.raise boom4) {} srv).1 = .error boom4 ∧
    (getResult (.raise boom4) { fate := .deadline } srv).1 = .error tryLongerExc := by decide

end MlModel.C14.Witness
