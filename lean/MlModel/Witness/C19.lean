import MlModel.Lemmas.Rebatch
import MlModel.Lemmas.RebatchGen
/-!
# Witness for finding F-C19-assign (open): `Assign` + `batch_size`

`Assign.iterate` (chainables/tree_fns.py:297–305) zips the batches produced by `TreeFn._iterate`
with the *incoming* trees.  `_iterate` re-groups rows by `batch_size` (theorem `C19_treefn`), so
unless the incoming batches already have exactly `batch_size` rows, the j-th output and the j-th
input do not describe the same rows.  Concrete instance (checked against the real code by
`harness/corpus/C19_assign.jsonl`): one incoming batch of 3 rows, `batch_size = 2`.
-/
namespace MlModel.C19
open MlModel.Rebatch

/-- one batch, two columns, three rows -/
def assignInput : List (Batch Nat) := [[⟨.list, [0, 10, 20]⟩, ⟨.array, [1, 11, 21]⟩]]

/-- `_iterate` emits two batches (2 rows, 1 row) for the single 3-row input batch: pairing output
`j` with input `j` mixes a 2-row column into a 3-row tree and leaves the second output unpaired. -/
theorem C19_assign_rebatch_witness :
    (treeFn 0 2 2 1 (mapRows sampleSum [.list]) assignInput).out
        = [[⟨.list, [1, 21]⟩], [⟨.list, [41]⟩]] ∧
    assignInput.map nrows = [3] ∧
    ((treeFn 0 2 2 1 (mapRows sampleSum [.list]) assignInput).out.map nrows) ≠ assignInput.map nrows := by
  decide +kernel

/-! ## Contrast: error skipping applied AFTER the output re-batcher loses the carried rows

Not a finding of the unchanged code — a witness that the place of the skipping in the chain matters,
i.e. that `C19_treefn_skip_carry` is a statement about `map_ignore_error` sitting *between* the two
re-batchers.  `treeFnSkipLast` is the chain with `iter_ignore_error` wrapped once around the output
`rebatched_args` generator (seeded change C19-m6).  Same instance as the examples in
`Properties/C19.lean`: groups [0,1] [2,3] [4,5], the call on [2,3] raises, `batch_size = 3`. -/

/-- With the skipping at the end of the chain the failing call finalises the output re-batcher:
rows 0 and 1 (returned by a successful call, waiting in `column_buffer`) and rows 4, 5 (never
processed) are all lost — nothing is emitted and no error is reported; the real chain emits all
four rows. -/
theorem C19_skip_after_rebatch_witness :
    treeFnSkipLast 2 3 2 2 sampleFailing sampleStream = [] ∧
    (treeFnGen true 2 3 2 2 sampleFailing sampleStream).out.flatMap rowsOf
      = [[0, 10], [1, 11], [4, 14], [5, 15]] := by
  decide +kernel

end MlModel.C19
