import MlModel.Lemmas.Rebatch
/-!
# Witness for finding F-C19-assign (open): `Assign` + `batch_size`

`Assign.iterate` (chainables/tree_fns.py:297–305) zips the batches produced by `TreeFn._iterate`
with the *incoming* trees.  `_iterate` re-groups rows by `batch_size` (theorem `C19_treefn`), so
unless the incoming batches already have exactly `batch_size` rows, the j-th output and the j-th
input do not describe the same rows.  Concrete instance (checked against the real code by
`harness/corpus/C19_assign.jsonl`): one incoming batch of 3 rows, `batch_size = 2`.
-/
namespace MlModel.C19
open MlModel.Rebatch

/-- one batch, two columns, three rows -/
def assignInput : List (Batch Nat) := [[⟨.list, [0, 10, 20]⟩, ⟨.array, [1, 11, 21]⟩]]

/-- `_iterate` emits two batches (2 rows, 1 row) for the single 3-row input batch: pairing output
`j` with input `j` mixes a 2-row column into a 3-row tree and leaves the second output unpaired. -/
theorem C19_assign_rebatch_witness :
    (treeFn 0 2 2 1 (mapRows sampleSum [.list]) assignInput).out
        = [[⟨.list, [1, 21]⟩], [⟨.list, [41]⟩]] ∧
    assignInput.map nrows = [3] ∧
    ((treeFn 0 2 2 1 (mapRows sampleSum [.list]) assignInput).out.map nrows) ≠ assignInput.map nrows := by
  decide +kernel

end MlModel.C19
