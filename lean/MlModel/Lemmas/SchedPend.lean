import MlModel.Model.SchedPend
import MlModel.Lemmas.SchedAC
/-!
# The workers' pending counts track the master's running tasks (`MlModel.Sched.ACP`)
-/
namespace MlModel.Sched

@[simp] theorem isFlying_flying (f : Fate) : (CallSt.flying f).isFlying = true := rfl
@[simp] theorem isFlying_doneOk : CallSt.doneOk.isFlying = false := rfl
@[simp] theorem isFlying_doneTimeout : CallSt.doneTimeout.isFlying = false := rfl
@[simp] theorem isFlying_doneErr : CallSt.doneErr.isFlying = false := rfl

theorem countP_eraseIdx_add {α : Type} (q : α → Bool) {l : List α} {i : Nat} {a : α}
    (h : l[i]? = some a) : (l.eraseIdx i).countP q + (if q a then 1 else 0) = l.countP q := by
  have hp := (perm_cons_eraseIdx h).countP_eq q
  rw [hp, List.countP_cons]

theorem countP_set_add {α : Type} (q : α → Bool) : ∀ {l : List α} {i : Nat} {a a' : α},
    l[i]? = some a →
    (l.set i a').countP q + (if q a then 1 else 0) = l.countP q + (if q a' then 1 else 0)
  | [], _, _, _, h => by simp at h
  | x :: l, 0, a, a', h => by
    simp at h; subst h
    simp only [List.set_cons_zero, List.countP_cons]; omega
  | x :: l, i + 1, a, a', h => by
    simp at h
    have := countP_set_add q (a' := a') h
    simp only [List.set_cons_succ, List.countP_cons]; omega

theorem pend_draw_running (s : AC) : s.draw.running = s.running := by
  unfold AC.draw
  split
  · split <;> rfl
  · rfl

theorem draw_flyingOn (s : AC) (w : Nat) : s.draw.flyingOn w = s.flyingOn w := by
  simp [AC.flyingOn, pend_draw_running]

theorem finish_running (c : ACfg) (s : AC) (o : Outcome) (b : Bool) :
    (AC.finish c s o b).running = s.running := rfl

/-- the invariant: `len(worker.pendings)` = number of tracked calls in flight on the worker -/
def PendInv (p : ACP) : Prop := ∀ w, p.pend w = p.ac.flyingOn w

theorem pendInv_init (nw n : Nat) : PendInv (ACP.init nw n) := by
  intro w; simp [ACP.init, AC.init, AC.flyingOn]

/-- steps that do not touch `running_tasks` -/
theorem acStep_running_other {c : ACfg} {s s' : AC} {l : ALabel} (h : acStep c s l = some s')
    (hl : match l with | .submit _ | .complete _ | .check _ => False | _ => True) :
    s'.running = s.running := by
  cases l with
  | submit w => exact absurd hl (by simp)
  | complete i => exact absurd hl (by simp)
  | check i => exact absurd hl (by simp)
  | acquire w =>
    simp only [acStep] at h
    split at h <;> simp at h
    subst h; rfl
  | releaseMid w =>
    simp only [acStep] at h
    split at h <;> simp at h
    obtain ⟨_, h⟩ := h; subst h; rfl
  | crash w =>
    simp only [acStep] at h
    split at h <;> simp at h
    subst h; rfl
  | rejoin w =>
    simp only [acStep] at h
    split at h <;> simp at h
    obtain ⟨_, h⟩ := h; subst h; rfl
  | exit =>
    simp only [acStep] at h
    split at h <;> simp at h
    subst h; rfl
  | noWorkers =>
    simp only [acStep] at h
    split at h <;> simp at h
    subst h; rfl
  | close =>
    simp only [acStep] at h
    split at h <;> simp at h
    subst h; rfl

theorem acStep_complete_running {c : ACfg} {s s' : AC} {i : Nat} {r : RunA}
    (h : acStep c s (.complete i) = some s') (hr : s.running[i]? = some r) :
    ∃ st' : CallSt, st'.isFlying = false ∧ r.st.isFlying = true ∧
      s'.running = s.running.set i { r with st := st' } := by
  simp only [acStep, hr] at h
  split at h
  · rename_i r' _ heq
    simp at heq; subst heq
    split at h
    · rename_i hst
      simp at h; subst h
      refine ⟨if c.bad r.task then .doneErr else .doneOk, ?_, by simp [hst], rfl⟩
      split <;> rfl
    · rename_i hst
      simp at h; subst h
      exact ⟨.doneTimeout, rfl, by simp [hst], rfl⟩
    · rename_i hst
      simp at h; subst h
      exact ⟨.doneErr, rfl, by simp [hst], rfl⟩
    · simp at h
  · simp at h

theorem acStep_check_running {c : ACfg} {s s' : AC} {i : Nat}
    (h : acStep c s (.check i) = some s') : s'.running = s.running.eraseIdx i := by
  simp only [acStep] at h
  split at h
  · split at h
    · simp at h; subst h; rfl
    · split at h <;> (simp at h; subst h; rfl)
    · simp at h; subst h; rfl
    · split at h
      · simp at h
      · simp at h; subst h; rfl
  · simp at h

theorem acpStep_ac {f : Bool} {c : ACfg} {p p' : ACP} {l : ALabel} (h : acpStep f c p l = some p') :
    acStep c p.ac l = some p'.ac := by
  unfold acpStep at h
  split at h
  · simp at h
  · rename_i s' hs
    rw [hs]
    split at h
    · split at h
      · split at h <;> (simp at h; subst h; rfl)
      · simp at h
    · split at h
      · simp at h; subst h; rfl
      · simp at h
    · split at h
      · split at h <;> (simp at h; subst h; rfl)
      · simp at h
    · simp at h; subst h; rfl

theorem pendInv_step {c : ACfg} {p p' : ACP} {l : ALabel} (hi : PendInv p)
    (h : acpStep true c p l = some p') : PendInv p' := by
  have hac := acpStep_ac h
  intro v
  cases l with
  | submit w =>
    simp only [acpStep, hac] at h
    split at h
    · simp only [acStep] at hac
      split at hac
      · split at hac
        · split at h
          · rename_i hd
            simp only [hd] at hac
            simp at hac
            replace h := congrArg ACP.pend (Option.some.inj h); simp only at h; rw [← h]
            simp only [← hac, draw_flyingOn]; exact hi v
          · rename_i t rest hd
            simp only [hd] at hac
            simp at hac
            replace h := congrArg ACP.pend (Option.some.inj h); simp only at h; rw [← h]
            simp only [← hac, pendBump, AC.flyingOn, List.countP_append, List.countP_cons,
              List.countP_nil, isFlying_flying, Bool.and_true]
            have := hi v
            simp only [AC.flyingOn] at this
            by_cases hv : v = w
            · subst hv; simp [this]
            · have : (w == v) = false := by simp; omega
              simp [*]
        · simp at hac
      · simp at hac
    · simp at h
  | complete i =>
    simp only [acpStep, hac] at h
    split at h
    · rename_i r hr
      replace h := congrArg ACP.pend (Option.some.inj h); simp only at h; rw [← h]
      obtain ⟨st', h1, h2, h3⟩ := acStep_complete_running hac hr
      have hc := countP_set_add (fun r' : RunA => r'.worker == v && r'.st.isFlying)
        (a' := { r with st := st' }) hr
      have hv := hi v
      simp only [AC.flyingOn] at hv
      simp only [pendDrop, AC.flyingOn, h3]
      simp only [h1, h2, Bool.and_false, Bool.and_true] at hc
      by_cases hw : v = r.worker
      · subst hw; simp at hc ⊢; omega
      · have : (r.worker == v) = false := by simp; omega
        simp [hw, this] at hc ⊢; omega
    · simp at h
  | check i =>
    simp only [acpStep, hac] at h
    split at h
    · rename_i r hr
      have hc := countP_eraseIdx_add (fun r' : RunA => r'.worker == v && r'.st.isFlying) hr
      have hv := hi v
      simp only [AC.flyingOn] at hv
      have h3 := acStep_check_running hac
      split at h
      · rename_i f hst
        replace h := congrArg ACP.pend (Option.some.inj h); simp only [if_true] at h; rw [← h]
        simp only [pendDrop, AC.flyingOn, h3]
        simp only [hst, isFlying_flying, Bool.and_true] at hc
        by_cases hw : v = r.worker
        · subst hw; simp at hc ⊢; omega
        · have : (r.worker == v) = false := by simp; omega
          simp [hw, this] at hc ⊢; omega
      · rename_i hst
        replace h := congrArg ACP.pend (Option.some.inj h); simp only at h; rw [← h]
        have hnf : r.st.isFlying = false := by
          cases hs : r.st with
          | flying f => exact absurd hs (hst f)
          | _ => rfl
        simp only [hnf, Bool.and_false] at hc
        simp only [AC.flyingOn, h3]
        simp at hc; omega
    · simp at h
  | acquire w | releaseMid w | crash w | rejoin w | exit | noWorkers | close =>
    have hr := acStep_running_other hac (by simp)
    simp only [acpStep, hac] at h
    replace h := congrArg ACP.pend (Option.some.inj h); simp only at h; rw [← h]
    simp only [AC.flyingOn, hr]; exact hi v

theorem pendInv_reach {c : ACfg} {nw n : Nat} {p : ACP} (h : PReach true c (ACP.init nw n) p) :
    PendInv p := by
  induction h with
  | refl => exact pendInv_init nw n
  | step l _ hs ih => exact pendInv_step ih hs

end MlModel.Sched
