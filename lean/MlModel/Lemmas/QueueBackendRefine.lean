import MlModel.Model.QueueBackend
import MlModel.Lemmas.QueueLiveX
/-!
# The un-fused steps over a backend (`Model/QueueBackend.lean`) are the LTS steps (`Model/Queue.lean`)

for every backend that meets `Backend.Contract` and whose exception classes the handler table routes correctly
(`classified`).  Used by `Properties/C04Backend.lean` / `C05Backend.lean`.
-/
namespace MlModel.QueueBackend
open MlModel.Queue

theorem isFull_eq (s : Shared) : isFull s.cap s.q = s.full := rfl

/-- the three CPython backends meet the contract -/
theorem stdQueue_contract : stdQueue.Contract where
  put_room := by
    intro cap q v _ h
    simp only [isFull, Bool.and_eq_false_imp, bne_iff_ne, ne_eq, decide_eq_false_iff_not] at h
    simp only [stdQueue]
    by_cases hc : cap > 0
    · have := h (by omega); simp [hc]; omega
    · simp [hc]
  put_full := by
    intro cap q v _ h
    simp only [isFull, Bool.and_eq_true, bne_iff_ne, ne_eq, decide_eq_true_eq] at h
    refine ⟨.queueFull, rfl, ?_⟩
    simp only [stdQueue]
    have : cap > 0 := by omega
    simp [this, h.2]
  get_cons := by intro v q; rfl
  get_nil := rfl
  empty_eq := by intro q; cases q <;> simp [stdQueue]

theorem simpleQueue_contract : simpleQueue.Contract where
  put_room := by intro cap q v _ _; rfl
  put_full := by
    intro cap q v hc h
    simp only [simpleQueue, beq_iff_eq] at hc
    simp [isFull, hc] at h
  get_cons := by intro v q; rfl
  get_nil := rfl
  empty_eq := by intro q; cases q <;> simp [simpleQueue]

theorem asyncioQueue_contract : asyncioQueue.Contract where
  put_room := by
    intro cap q v _ h
    simp only [isFull, Bool.and_eq_false_imp, bne_iff_ne, ne_eq, decide_eq_false_iff_not] at h
    simp only [asyncioQueue]
    by_cases hc : cap ≤ 0
    · simp [hc]
    · have := h (by omega); simp [hc]; omega
  put_full := by
    intro cap q v _ h
    simp only [isFull, Bool.and_eq_true, bne_iff_ne, ne_eq, decide_eq_true_eq] at h
    refine ⟨.asyncioQueueFull, rfl, ?_⟩
    simp only [asyncioQueue]
    have : ¬ cap ≤ 0 := by omega
    simp [this, h.2]
  get_cons := by intro v q; simp [asyncioQueue]
  get_nil := by simp [asyncioQueue]
  empty_eq := by intro q; rfl

/-- what `classified` says, as propositions -/
structure Routed (H : Handlers) (b : Backend) : Prop where
  nowait : dispatch H.getNowait b.emptyExc = some .exhaustCheck
  get : dispatch H.get b.emptyExc = some .parkEmpty
  batch : dispatch H.getBatch b.emptyExc = some .parkEmpty
  put : ∀ f, b.fullExc = some f → dispatch H.put f = some .parkFull
  getOther : ∀ x : Raise, x ≠ .empty → dispatch H.get (raiseClass b x) = none
  batchOther : ∀ x : Raise, x ≠ .empty → dispatch H.getBatch (raiseClass b x) = some .stopOrError

theorem routed_of_classified {H : Handlers} {b : Backend} (h : classified H b = true) : Routed H b := by
  unfold classified at h
  simp only [Bool.and_eq_true, beq_iff_eq, List.all_cons, List.all_nil, Bool.and_true] at h
  obtain ⟨⟨⟨⟨h1, h2⟩, h3⟩, h4⟩, ⟨hs1, hs2⟩, ⟨ht1, ht2⟩, ⟨hv1, hv2⟩, ⟨ho1, ho2⟩⟩ := h
  refine ⟨h1, h2, h3, ?_, ?_, ?_⟩
  · intro f hf; rw [hf] at h4; simpa using h4
  · intro x hx
    cases x with
    | empty => exact absurd rfl hx
    | stop r => exact hs1
    | err e => cases e <;> simp only [raiseClass, errClass] <;> assumption
  · intro x hx
    cases x with
    | empty => exact absurd rfl hx
    | stop r => exact hs2
    | err e => cases e <;> simp only [raiseClass, errClass] <;> assumption

theorem pPutCode_eq {H : Handlers} {b : Backend} {s : Shared} {t : Thread} {tid : Tid}
    (hc : b.Contract) (hcap : b.capOk s.cap = true)
    (hf : ∀ f, b.fullExc = some f → dispatch H.put f = some .parkFull) (hpc : t.pc = .pPut) :
    pPutCode H b s t tid = .ok (stepThread s t tid false) := by
  unfold pPutCode stepThread
  simp only [hpc]
  by_cases ho : (s.enqOwner != some tid) = true
  · simp [ho]
  · simp only [ho, Bool.false_eq_true, ↓reduceIte]
    cases hfull : isFull s.cap s.q
    · rw [hc.put_room _ _ _ hcap hfull]
      have : s.full = false := hfull
      simp [this]
    · obtain ⟨f, hfe, hp⟩ := hc.put_full _ _ t.v hcap hfull
      rw [hp]
      have : s.full = true := hfull
      simp only [hf f hfe, this, ↓reduceIte]
      split <;> rfl

theorem nGetCode_eq {H : Handlers} {b : Backend} {s : Shared} {t : Thread} {tid : Tid} {c : Caller}
    (hc : b.Contract) (hn : dispatch H.getNowait b.emptyExc = some .exhaustCheck) (hpc : t.pc = .nGet c) :
    nGetCode H b c s t tid = .ok (stepThread s t tid false) := by
  unfold nGetCode stepThread
  simp only [hpc]
  by_cases ho : (s.stOwner != some tid) = true
  · simp [ho]
  · simp only [ho, Bool.false_eq_true, ↓reduceIte]
    cases hq : s.q with
    | nil =>
      rw [hc.get_nil]
      simp only [hn]
      split
      · rfl
      · split <;> rfl
    | cons v q' =>
      rw [hc.get_cons]

theorem afterRaiseCode_eq {H : Handlers} {b : Backend} (hr : Routed H b) (c : Caller) (x : Raise)
    (s : Shared) (t : Thread) :
    afterRaiseCode H b c x s t = .ok (afterRaise c x s t) := by
  unfold afterRaiseCode afterRaise
  cases c with
  | get =>
    cases x with
    | empty => simp only [raiseClass, hr.get]
    | stop r => simp only [hr.getOther (.stop r) (by simp)]
    | err e => simp only [hr.getOther (.err e) (by simp)]
  | batch =>
    cases x with
    | empty =>
      simp only [raiseClass, hr.batch]
      split
      · rfl
      · split <;> rfl
    | stop r =>
      simp only [hr.batchOther (.stop r) (by simp)]
      by_cases h : t.result.isEmpty = true <;> simp [h]
    | err e =>
      simp only [hr.batchOther (.err e) (by simp)]
      by_cases h : s.ignoreError = true <;> simp [h]
      split <;> rfl

theorem nRelErrCode_eq {H : Handlers} {b : Backend} (hr : Routed H b) {s : Shared} {t : Thread} {tid : Tid}
    {c : Caller} (hpc : t.pc = .nRelErr c) :
    nRelErrCode H b c s t tid = .ok (stepThread s t tid false) := by
  unfold nRelErrCode stepThread
  simp only [hpc, Bool.false_eq_true, ↓reduceIte, release, afterRaiseCode_eq hr]
  split <;> rfl

/-- **Every thread step over a routed, lawful backend is the LTS step.** -/
theorem stepThreadB_eq {H : Handlers} {b : Backend} (hc : b.Contract) (hr : Routed H b)
    {s : Shared} (hcap : b.capOk s.cap = true) (t : Thread) (tid : Tid) (alt : Bool) :
    stepThreadB H b s t tid alt = .ok (stepThread s t tid alt) := by
  unfold stepThreadB
  split
  · rename_i hpc
    cases alt
    · simpa using pPutCode_eq hc hcap hr.put hpc
    · simp [stepThread, hpc]
  · rename_i c hpc
    cases alt
    · simpa using nGetCode_eq hc hr.nowait hpc
    · simp [stepThread, hpc]
  · rename_i c hpc
    cases alt
    · simpa using nRelErrCode_eq hr hpc
    · simp [stepThread, hpc]
  · rfl

theorem stepB_eq {H : Handlers} {b : Backend} (hc : b.Contract) (hr : Routed H b)
    {c : Cfg} (hcap : b.capOk c.sh.cap = true) (tid : Tid) (alt : Bool) :
    stepB H b c tid alt = .ok (step c tid alt) := by
  unfold stepB step
  cases ht : c.ths[tid]? with
  | none => rfl
  | some t =>
    simp only [stepThreadB_eq hc hr hcap]
    cases stepThread c.sh t tid alt with
    | none => rfl
    | some r => obtain ⟨l, s', t'⟩ := r; rfl

/-- configurations reachable over backend `b` with handler table `H` (every step taken is a non-escaping one) -/
inductive ReachableB (H : Handlers) (b : Backend) (c0 : Cfg) : Cfg → Prop where
  | init : ReachableB H b c0 c0
  | step {c c' : Cfg} {tid : Tid} {alt : Bool} {lbl : String} :
      ReachableB H b c0 c → stepB H b c tid alt = .ok (some (lbl, c')) → ReachableB H b c0 c'

theorem cap_step {c c' : Cfg} {tid alt lbl} (h : step c tid alt = some (lbl, c')) : c'.sh.cap = c.sh.cap := by
  obtain ⟨t, s', t', _, hst, rfl⟩ := step_inv h
  exact (stepThread_const lbl s' t' hst).2.1

theorem cap_reachable {c0 c : Cfg} (h : Reachable c0 c) : c.sh.cap = c0.sh.cap := by
  induction h with
  | init => rfl
  | step _ hs ih => rw [cap_step hs, ih]

theorem reachableB_iff {H : Handlers} {b : Backend} (hc : b.Contract) (hr : Routed H b)
    {c0 : Cfg} (hcap : b.capOk c0.sh.cap = true) (c : Cfg) :
    ReachableB H b c0 c ↔ Reachable c0 c := by
  constructor
  · intro h
    induction h with
    | init => exact .init
    | step _ hs ih =>
      rw [stepB_eq hc hr (by rw [cap_reachable ih]; exact hcap)] at hs
      exact .step ih (Except.ok.inj hs)
  · intro h
    induction h with
    | init => exact .init
    | @step c1 c2 tid alt lbl hr' hs ih =>
      refine .step (tid := tid) (alt := alt) (lbl := lbl) ih ?_
      rw [stepB_eq hc hr (by rw [cap_reachable hr']; exact hcap), hs]

end MlModel.QueueBackend
