import MlModel.Model.PipeAggShard
import MlModel.Lemmas.PipeAggResult
import MlModel.Lemmas.PipeAggExtra
/-!
# `merge_states` over shard states with different key sets = the state of the whole run

Route: what `mergeStates` holds under ONE key is the fold, in shard order, of the entries the shard
states have under that key (`get?_mergeStates`, keys absent from a shard are skipped); what a shard run
holds under a key is `get?_foldl_apply` (Lemmas/PipeAggRun.lean); a relation `Rel` ("the optional state is
equivalent to the one-batch state of these rows") is preserved by both (`rel_optFold`), which gives
`mergeStates_get?`.
-/
namespace MlModel.PipeAgg
open MlModel MlModel.Agg

variable {X S Rv : Type}

/-! ### one key of the merged map -/

/-- is `metrics` the output-key tuple of an aggregate of the runner (`self.agg_fns.get(key.metrics)`) -/
def owner (P : Pipeline X S Rv) (metrics : List String) : Option (Agg X S Rv) :=
  P.aggs.find? (fun a => a.out = metrics)

/-- merging an optional new entry into an optional accumulated one -/
def optStep (mg : S → S → S) (o : Option S) (v : Option S) : Option S :=
  match v with
  | none => o
  | some t => some (match o with | none => t | some s => mg s t)

theorem get?_cons {κ σ : Type} [DecidableEq κ] (k' : κ) (v : σ) (l : List (κ × σ)) (k : κ) :
    AList.get? ((k', v) :: l) k = if k = k' then some v else AList.get? l k := rfl

theorem get?_mergeEntry (P : Pipeline X S Rv) (acc : State S) (e : MetricKey × S) (mk : MetricKey) :
    AList.get? (mergeEntry P acc e) mk =
      match owner P e.1.metrics with
      | none => AList.get? acc mk
      | some a => if mk = e.1 then optStep a.m.merge (AList.get? acc mk) (some e.2) else AList.get? acc mk := by
  unfold mergeEntry owner
  cases hf : P.aggs.find? (fun a => a.out = e.1.metrics) with
  | none => rfl
  | some a =>
    simp only []
    by_cases hk : mk = e.1
    · subst hk
      cases hg : AList.get? acc e.1 with
      | none => simp [AList.get?_set_self, optStep]
      | some s => simp [AList.get?_set_self, optStep, Mergeable.mergeStates]
    · simp only [hk, if_false]
      cases hg : AList.get? acc e.1 with
      | none => exact AList.get?_set_ne _ _ hk
      | some s => exact AList.get?_set_ne _ _ hk

theorem get?_mergeInto (P : Pipeline X S Rv) (mk : MetricKey) :
    ∀ (st acc : State S), (AList.keys st).Nodup →
      AList.get? (mergeInto P acc st) mk =
        match owner P mk.metrics with
        | none => AList.get? acc mk
        | some a => optStep a.m.merge (AList.get? acc mk) (AList.get? st mk) := by
  intro st
  induction st with
  | nil =>
    intro acc _
    simp only [mergeInto, List.foldl_nil]
    cases owner P mk.metrics <;> rfl
  | cons e st ih =>
    intro acc hnd
    obtain ⟨k1, v1⟩ := e
    have hnd' : (AList.keys st).Nodup := by
      simp only [AList.keys, List.map_cons, List.nodup_cons] at hnd; exact hnd.2
    have hnot : k1 ∉ AList.keys st := by
      simp only [AList.keys, List.map_cons, List.nodup_cons] at hnd; exact hnd.1
    have hih := ih (mergeEntry P acc (k1, v1)) hnd'
    simp only [mergeInto, List.foldl_cons] at hih ⊢
    rw [hih, get?_cons, get?_mergeEntry]
    by_cases hk : mk = k1
    · subst hk
      have hnone : AList.get? st mk = none := by
        cases h : AList.get? st mk with
        | none => rfl
        | some s => exact absurd ((AList.mem_keys_iff st mk).mpr (by rw [h]; rfl)) hnot
      simp only [hnone, if_true]
      cases owner P mk.metrics <;> simp [optStep]
    · simp only [hk, if_false]
      cases ho : owner P mk.metrics with
      | none => cases owner P k1.metrics <;> rfl
      | some a => cases owner P k1.metrics <;> rfl

/-- the keys of a merged map stay distinct -/
theorem nodup_keys_mergeInto (P : Pipeline X S Rv) :
    ∀ (st acc : State S), (AList.keys acc).Nodup → (AList.keys (mergeInto P acc st)).Nodup := by
  intro st
  induction st with
  | nil => intro acc h; exact h
  | cons e st ih =>
    intro acc h
    simp only [mergeInto, List.foldl_cons]
    apply ih
    unfold mergeEntry
    cases P.aggs.find? (fun a => a.out = e.1.metrics) with
    | none => exact h
    | some a =>
      simp only []
      cases AList.get? acc e.1 <;> exact AList.nodup_keys_set _ _ _ h

theorem nodup_keys_mergeStates (P : Pipeline X S Rv) (sts : List (State S)) :
    (AList.keys (mergeStates P sts)).Nodup := by
  unfold mergeStates
  have : ∀ (sts : List (State S)) (acc : State S), (AList.keys acc).Nodup →
      (AList.keys (sts.foldl (mergeInto P) acc)).Nodup := by
    intro sts
    induction sts with
    | nil => intro acc h; exact h
    | cons st sts ih => intro acc h; exact ih _ (nodup_keys_mergeInto P st acc h)
  exact this sts [] (by simp [AList.keys])

/-- **One key of `merge_states`**: the fold, in shard order, of the entries the shard states hold under
the key; shards that do not have the key are skipped; a key of no aggregate of the runner is dropped. -/
theorem get?_mergeStates (P : Pipeline X S Rv) (mk : MetricKey) (sts : List (State S))
    (hnd : ∀ st ∈ sts, (AList.keys st).Nodup) :
    AList.get? (mergeStates P sts) mk =
      match owner P mk.metrics with
      | none => none
      | some a => (sts.map (AList.get? · mk)).foldl (optStep a.m.merge) none := by
  unfold mergeStates
  have : ∀ (sts : List (State S)) (acc : State S), (∀ st ∈ sts, (AList.keys st).Nodup) →
      AList.get? (sts.foldl (mergeInto P) acc) mk =
        match owner P mk.metrics with
        | none => AList.get? acc mk
        | some a => (sts.map (AList.get? · mk)).foldl (optStep a.m.merge) (AList.get? acc mk) := by
    intro sts
    induction sts with
    | nil => intro acc _; cases owner P mk.metrics <;> rfl
    | cons st sts ih =>
      intro acc h
      simp only [List.foldl_cons, List.map_cons]
      rw [ih _ (fun s hs => h s (List.mem_cons_of_mem _ hs)),
        get?_mergeInto P mk st acc (h st List.mem_cons_self)]
      cases owner P mk.metrics <;> rfl
  rw [this sts [] hnd]
  cases owner P mk.metrics <;> rfl

/-! ### the relation preserved by runs and merges -/

/-- "the optional state stands for exactly these rows": an absent entry for no rows, a present one is
equivalent to the one-batch state of the rows -/
def Rel (m : Mergeable X S (List Rv)) (Eqv : S → S → Prop) (o : Option S) (rows : List X) : Prop :=
  match o with
  | none => rows = []
  | some s => Eqv s (m.ofBatch rows)

theorem rel_optStep {m : Mergeable X S (List Rv)} {Eqv : S → S → Prop} (hL : Lawful m Eqv)
    {o v : Option S} {xs r : List X} (ho : Rel m Eqv o xs) (hv : Rel m Eqv v r) :
    Rel m Eqv (optStep m.merge o v) (xs ++ r) := by
  cases v with
  | none =>
    have : r = [] := hv
    subst this; simpa [optStep] using ho
  | some t =>
    have ht : Eqv t (m.ofBatch r) := hv
    cases o with
    | none =>
      have : xs = [] := ho
      subst this; simpa [optStep, Rel] using ht
    | some s =>
      have hs : Eqv s (m.ofBatch xs) := ho
      exact hL.trans (hL.merge_congr hs ht) (hL.hom xs r)

theorem rel_optFold {m : Mergeable X S (List Rv)} {Eqv : S → S → Prop} (hL : Lawful m Eqv) {ι : Type}
    (f : ι → Option S) (g : ι → List X) :
    ∀ (is : List ι), (∀ i ∈ is, Rel m Eqv (f i) (g i)) →
      ∀ (o : Option S) (xs : List X), Rel m Eqv o xs →
        Rel m Eqv ((is.map f).foldl (optStep m.merge) o) (xs ++ (is.map g).flatten) := by
  intro is
  induction is with
  | nil => intro _ o xs ho; simpa using ho
  | cons i is ih =>
    intro h o xs ho
    simp only [List.map_cons, List.foldl_cons, List.flatten_cons]
    have := ih (fun j hj => h j (List.mem_cons_of_mem _ hj)) _ _ (rel_optStep hL ho (h i List.mem_cons_self))
    simpa [List.append_assoc] using this

theorem isSome_optFold (mg : S → S → S) (vs : List (Option S)) :
    ∀ o : Option S, ((vs.foldl (optStep mg) o).isSome = true ↔ (o.isSome = true ∨ ∃ v ∈ vs, v.isSome = true)) := by
  induction vs with
  | nil => intro o; simp
  | cons v vs ih =>
    intro o
    rw [List.foldl_cons, ih]
    cases v with
    | none => simp [optStep]
    | some t => simp [optStep]

/-! ### what a run holds under one key -/

/-- is there an entry under `mk` after folding the updates `us` into `create_state()` -/
theorem isSome_run_entry {P : Pipeline X S Rv} (m0 : Mergeable X S (List Rv))
    (mk : MetricKey) (us : List (Upd X S Rv)) (hm : ∀ u ∈ us, u.key = mk → u.m = m0) :
    ((AList.get? (us.foldl Upd.apply (createState P)) mk).isSome = true ↔
      (feedsTo mk us ≠ [] ∨ (AList.get? (createState P) mk).isSome = true)) := by
  rw [get?_foldl_apply m0 mk us _ hm]
  by_cases hf : feedsTo mk us = []
  · simp [hf]
  · simp [hf]

/-- the entry of key `mk` after folding the updates `us` into `create_state()`, by the row batches fed to it -/
theorem rel_run_entry {P : Pipeline X S Rv} {a : Agg X S Rv} {Eqv : S → S → Prop} (hL : Lawful a.m Eqv)
    (mk : MetricKey) (us : List (Upd X S Rv)) (hm : ∀ u ∈ us, u.key = mk → u.m = a.m)
    (hc : AList.get? (createState P) mk = none ∨ AList.get? (createState P) mk = some a.m.empty) :
    Rel a.m Eqv (AList.get? (us.foldl Upd.apply (createState P)) mk) (feedsTo mk us).flatten := by
  rw [get?_foldl_apply a.m mk us _ hm]
  by_cases hf : feedsTo mk us = []
  · simp only [hf, if_true, List.flatten_nil]
    rcases hc with hc | hc
    · rw [hc]; rfl
    · rw [hc]; exact hL.empty_eq
  · simp only [hf, if_false]
    have hfe : (feedsTo mk us).foldl a.m.add ((AList.get? (createState P) mk).getD a.m.empty)
        = a.m.feed (feedsTo mk us) := by
      rcases hc with hc | hc <;> rw [hc] <;> rfl
    rw [hfe]
    exact hL.feed_eq _

theorem mapE_flatten_ok {α β ε : Type} {f : α → Except ε β} :
    ∀ {xss : List (List α)} {yss : List (List β)}, mapE (mapE f) xss = .ok yss →
      mapE f xss.flatten = .ok yss.flatten := by
  intro xss
  induction xss with
  | nil => intro yss h; cases h; rfl
  | cons xs xss ih =>
    intro yss h
    obtain ⟨ys, yss', h1, h2, rfl⟩ := mapE_cons_ok h
    have h3 := ih h2
    simp only [List.flatten_cons]
    clear h h2 ih
    induction xs generalizing ys with
    | nil => cases h1; simpa using h3
    | cons x xs ihx =>
      obtain ⟨y, ys', hx, hxs, rfl⟩ := mapE_cons_ok h1
      exact mapE_cons_of_ok hx (ihx ys' hxs)

variable {P : Pipeline X S Rv}

/-- the shard runs succeed iff … in particular THEN the whole run succeeds, and its plans are the shard
runs' plans one after the other -/
theorem runs_plans {parts : List (List Batch)} {sts : List (State S)} (hruns : mapE (run P) parts = .ok sts) :
    ∃ usss : List (List (List (Upd X S Rv))), mapE (mapE (plan P)) parts = .ok usss ∧
      sts = usss.map (fun uss => uss.flatten.foldl Upd.apply (createState P)) := by
  induction parts generalizing sts with
  | nil => cases hruns; exact ⟨[], rfl, rfl⟩
  | cons part parts ih =>
    obtain ⟨st, sts', h1, h2, rfl⟩ := mapE_cons_ok hruns
    obtain ⟨uss, hp, rfl⟩ := run_ok h1
    obtain ⟨usss, hps, rfl⟩ := ih h2
    exact ⟨uss :: usss, mapE_cons_of_ok hp hps, rfl⟩

theorem whole_run_of_shards {parts : List (List Batch)} {sts : List (State S)}
    (hruns : mapE (run P) parts = .ok sts) : ∃ st, run P parts.flatten = .ok st := by
  obtain ⟨usss, hps, _⟩ := runs_plans hruns
  rw [run_eq, mapE_flatten_ok hps]
  exact ⟨_, rfl⟩

theorem feedsTo_flatten_flatten (mk : MetricKey) (usss : List (List (List (Upd X S Rv)))) :
    feedsTo mk usss.flatten.flatten = (usss.map fun uss => feedsTo mk uss.flatten).flatten := by
  induction usss with
  | nil => rfl
  | cons uss usss ih =>
    simp only [List.flatten_cons, List.flatten_append, feedsTo_append, List.map_cons, ih]

/-- optional states related by the aggregate's equivalence: both absent, or both present and equivalent -/
def OptEqv (Eqv : S → S → Prop) : Option S → Option S → Prop
  | none, none => True
  | some s, some t => Eqv s t
  | _, _ => False

theorem owner_of_mem (hWF : P.WF) {a : Agg X S Rv} (ha : a ∈ P.aggs) : owner P a.out = some a := by
  unfold owner
  cases hf : P.aggs.find? (fun a' => a'.out = a.out) with
  | none =>
    have := List.find?_eq_none.mp hf a ha
    simp at this
  | some a' =>
    have ha' : a' ∈ P.aggs := List.mem_of_find?_eq_some hf
    have hout' : a'.out = a.out := by simpa using List.find?_some hf
    rw [eq_of_nodup_map (fun x : Agg X S Rv => x.out) hWF.outs_map_nodup ha' ha hout']

theorem owner_some {a : Agg X S Rv} {ms : List String} (h : owner P ms = some a) : a ∈ P.aggs ∧ a.out = ms := by
  unfold owner at h
  exact ⟨List.mem_of_find?_eq_some h, by simpa using List.find?_some h⟩

/-- the merged map has an entry under a key of aggregate `a` iff the state of the whole run has one -/
theorem mergeStates_isSome_owned (hWF : P.WF) {parts : List (List Batch)} (hne : parts ≠ [])
    {usss : List (List (List (Upd X S Rv)))} (hps : mapE (mapE (plan P)) parts = .ok usss)
    {a : Agg X S Rv} (ha : a ∈ P.aggs) (k : SliceKey) :
    (((usss.map fun uss => AList.get? (uss.flatten.foldl Upd.apply (createState P)) ⟨a.out, k⟩).foldl
        (optStep a.m.merge) none).isSome = true ↔
      (AList.get? (usss.flatten.flatten.foldl Upd.apply (createState P)) ⟨a.out, k⟩).isSome = true) := by
  let mk : MetricKey := ⟨a.out, k⟩
  have hflat := mapE_flatten_ok hps
  have hm_all : ∀ u ∈ usss.flatten.flatten, u.key = mk → u.m = a.m := m_of_key_all hWF hflat ha k
  have hm_i : ∀ uss ∈ usss, ∀ u ∈ uss.flatten, u.key = mk → u.m = a.m := by
    intro uss huss u hu
    obtain ⟨us, hus, huu⟩ := List.mem_flatten.mp hu
    exact hm_all u (List.mem_flatten.mpr ⟨us, List.mem_flatten.mpr ⟨uss, huss, hus⟩, huu⟩)
  let f : List (List (Upd X S Rv)) → Option S :=
    fun uss => AList.get? (uss.flatten.foldl Upd.apply (createState P)) mk
  have hf : ∀ uss ∈ usss, ((f uss).isSome = true ↔
      (feedsTo mk uss.flatten ≠ [] ∨ (AList.get? (createState P) mk).isSome = true)) :=
    fun uss huss => isSome_run_entry a.m mk uss.flatten (hm_i uss huss)
  show ((usss.map f).foldl (optStep a.m.merge) none).isSome = true ↔ _
  rw [isSome_optFold, isSome_run_entry (P := P) a.m mk usss.flatten.flatten hm_all, feedsTo_flatten_flatten]
  have hne' : usss ≠ [] := by
    intro e
    have := mapE_ok_length hps
    rw [e] at this
    exact hne (List.length_eq_zero_iff.mp (by simpa using this.symm))
  constructor
  · rintro (h | ⟨v, hv, hvs⟩)
    · cases h
    · obtain ⟨uss, huss, rfl⟩ := List.mem_map.mp hv
      rcases ((hf uss huss).mp hvs) with h | h
      · left
        exact List.flatten_ne_nil_iff.mpr ⟨_, List.mem_map.mpr ⟨uss, huss, rfl⟩, h⟩
      · exact Or.inr h
  · rintro (h | h)
    · obtain ⟨l, hl, hlne⟩ := List.flatten_ne_nil_iff.mp h
      obtain ⟨uss, huss, rfl⟩ := List.mem_map.mp hl
      exact Or.inr ⟨f uss, List.mem_map.mpr ⟨uss, huss, rfl⟩, (hf uss huss).mpr (Or.inl hlne)⟩
    · obtain ⟨uss, huss⟩ := List.exists_mem_of_ne_nil usss hne'
      exact Or.inr ⟨f uss, List.mem_map.mpr ⟨uss, huss, rfl⟩, (hf uss huss).mpr (Or.inr h)⟩

theorem nodup_keys_shard_states (usss : List (List (List (Upd X S Rv)))) :
    ∀ st' ∈ usss.map (fun uss => uss.flatten.foldl Upd.apply (createState P)), (AList.keys st').Nodup := by
  intro st' h
  obtain ⟨uss, _, rfl⟩ := List.mem_map.mp h
  exact nodup_keys_foldl_apply _ _ (nodup_keys_createState P)

/-- **No key dropped, none invented by `merge_states`** (no law needed): for every partition of the stream
into at least one shard, the merged map has an entry under a key — ANY key — iff the state of the whole run
has one. -/
theorem mergeStates_isSome (hWF : P.WF) {parts : List (List Batch)} (hne : parts ≠ [])
    {sts : List (State S)} (hruns : mapE (run P) parts = .ok sts)
    {st : State S} (hwhole : run P parts.flatten = .ok st) (mk : MetricKey) :
    (AList.get? (mergeStates P sts) mk).isSome = (AList.get? st mk).isSome := by
  obtain ⟨usss, hps, rfl⟩ := runs_plans hruns
  have hflat := mapE_flatten_ok hps
  have hst : st = usss.flatten.flatten.foldl Upd.apply (createState P) := by
    rw [run_eq, hflat] at hwhole; cases hwhole; rfl
  rw [get?_mergeStates P mk _ (nodup_keys_shard_states usss)]
  cases ho : owner P mk.metrics with
  | none =>
    simp only [Option.isSome_none]
    cases hs : AList.get? st mk with
    | none => rfl
    | some s =>
      exfalso
      have hk : mk ∈ AList.keys st := by rw [AList.mem_keys_iff, hs]; rfl
      have hex : ∃ a ∈ P.aggs, a.out = mk.metrics := by
        rcases (run_keys hwhole mk).mp hk with ⟨a, ha, e⟩ | ⟨a, ha, _, e, _⟩
        · exact ⟨a, ha, by rw [e]⟩
        · exact ⟨a, ha, e.symm⟩
      obtain ⟨a, ha, hout⟩ := hex
      unfold owner at ho
      have := List.find?_eq_none.mp ho a ha
      simp [hout] at this
  | some a =>
    obtain ⟨ha, hout⟩ := owner_some ho
    have hmk : mk = ⟨a.out, mk.slice⟩ := by cases mk; simp only at hout ⊢; rw [hout]
    have h := mergeStates_isSome_owned hWF hne hps ha mk.slice
    simp only [List.map_map]
    rw [hst, hmk]
    exact Bool.eq_iff_iff.mpr h

/-- **Sharded + merged = whole, key by key, for SLICED aggregations.**  For every well-formed pipeline,
every partition of the stream into at least one shard (shards may be empty, a slice value may be absent
from any of them), every aggregate `a` of the runner that is lawful and every slice key `k` (the unsliced
one included): the merged map has an entry under `(a.out, k)` iff the state of the whole run has one, and
the two entries are equivalent. -/
theorem mergeStates_get? (hWF : P.WF) {parts : List (List Batch)} (hne : parts ≠ [])
    {sts : List (State S)} (hruns : mapE (run P) parts = .ok sts)
    {st : State S} (hwhole : run P parts.flatten = .ok st)
    {a : Agg X S Rv} (ha : a ∈ P.aggs) {Eqv : S → S → Prop} (hL : Lawful a.m Eqv) (k : SliceKey) :
    OptEqv Eqv (AList.get? (mergeStates P sts) ⟨a.out, k⟩) (AList.get? st ⟨a.out, k⟩) := by
  let mk : MetricKey := ⟨a.out, k⟩
  have hsome' := mergeStates_isSome hWF hne hruns hwhole mk
  obtain ⟨usss, hps, rfl⟩ := runs_plans hruns
  have hflat := mapE_flatten_ok hps
  have hst : st = usss.flatten.flatten.foldl Upd.apply (createState P) := by
    rw [run_eq, hflat] at hwhole; cases hwhole; rfl
  have hc : AList.get? (createState P) mk = none ∨ AList.get? (createState P) mk = some a.m.empty := by
    by_cases hk : k = SliceKey.none
    · right; subst hk; exact get?_createState_unsliced hWF ha
    · left; exact get?_createState_sliced P _ _ hk
  have hm_all : ∀ u ∈ usss.flatten.flatten, u.key = mk → u.m = a.m := m_of_key_all hWF hflat ha k
  have hm_i : ∀ uss ∈ usss, ∀ u ∈ uss.flatten, u.key = mk → u.m = a.m := by
    intro uss huss u hu
    obtain ⟨us, hus, huu⟩ := List.mem_flatten.mp hu
    exact hm_all u (List.mem_flatten.mpr ⟨us, List.mem_flatten.mpr ⟨uss, huss, hus⟩, huu⟩)
  rw [get?_mergeStates P mk _ (nodup_keys_shard_states usss), show mk.metrics = a.out from rfl,
    owner_of_mem hWF ha] at hsome' ⊢
  rw [hst] at hsome' ⊢
  simp only [List.map_map] at hsome' ⊢
  let f : List (List (Upd X S Rv)) → Option S :=
    fun uss => AList.get? (uss.flatten.foldl Upd.apply (createState P)) mk
  let g : List (List (Upd X S Rv)) → List X := fun uss => (feedsTo mk uss.flatten).flatten
  have hmerged := rel_optFold hL f g usss
    (fun uss huss => rel_run_entry hL mk uss.flatten (hm_i uss huss) hc) none [] rfl
  have hwh := rel_run_entry (P := P) hL mk usss.flatten.flatten hm_all hc
  have hrows : (feedsTo mk usss.flatten.flatten).flatten = [] ++ (usss.map g).flatten := by
    rw [feedsTo_flatten_flatten, List.flatten_flatten, List.map_map]; rfl
  rw [hrows] at hwh
  show OptEqv Eqv ((usss.map f).foldl (optStep a.m.merge) none) _
  have hsome : ((usss.map f).foldl (optStep a.m.merge) none).isSome =
      (AList.get? (usss.flatten.flatten.foldl Upd.apply (createState P)) mk).isSome := hsome'
  cases hM : (usss.map f).foldl (optStep a.m.merge) none with
  | none =>
    cases hW : AList.get? (usss.flatten.flatten.foldl Upd.apply (createState P)) mk with
    | none => trivial
    | some t => rw [hM, hW] at hsome; simp at hsome
  | some s =>
    cases hW : AList.get? (usss.flatten.flatten.foldl Upd.apply (createState P)) mk with
    | none => rw [hM, hW] at hsome; simp at hsome
    | some t =>
      have h1 : Eqv s (a.m.ofBatch ([] ++ (usss.map g).flatten)) := by rw [hM] at hmerged; exact hmerged
      have h2 : Eqv t (a.m.ofBatch ([] ++ (usss.map g).flatten)) := by rw [hW] at hwh; exact hwh
      exact hL.trans h1 (hL.symm h2)

/-! ### `get_result` of the merged state exists whenever the whole run's does -/

theorem mapE_ok_of_forall {α β ε : Type} {f : α → Except ε β} :
    ∀ {xs : List α}, (∀ x ∈ xs, ∃ y, f x = .ok y) → ∃ ys, mapE f xs = .ok ys := by
  intro xs
  induction xs with
  | nil => intro _; exact ⟨[], rfl⟩
  | cons x xs ih =>
    intro h
    obtain ⟨y, hy⟩ := h x List.mem_cons_self
    obtain ⟨ys, hys⟩ := ih (fun x' hx' => h x' (List.mem_cons_of_mem _ hx'))
    exact ⟨y :: ys, mapE_cons_of_ok hy hys⟩

theorem resultStep_of_entryPairs {res : Result Rv} {e : MetricKey × S} {ps : List (ResKey × ROut Rv)}
    (h : entryPairs P e = .ok ps) :
    resultStep P res e = .ok (ps.foldl (fun r p => AList.set r p.1 p.2) res) := by
  unfold entryPairs at h
  unfold resultStep
  cases hf : P.aggs.find? (fun a => a.out = e.1.metrics) with
  | none => simp [hf] at h
  | some a =>
    simp only [hf] at h ⊢
    cases ho : a.outputs e.2 with
    | error err => simp [ho] at h
    | ok outs =>
      simp only [ho, Except.ok.injEq] at h ⊢
      rw [← h, List.foldl_map]

theorem getResultFrom_of_mapE :
    ∀ {st : State S} {res : Result Rv} {pss : List (List (ResKey × ROut Rv))},
      mapE (entryPairs P) st = .ok pss →
      getResultFrom P res st = .ok (pss.flatten.foldl (fun r p => AList.set r p.1 p.2) res) := by
  intro st
  induction st with
  | nil => intro res pss h; cases h; rfl
  | cons e st ih =>
    intro res pss h
    obtain ⟨ps, pss', hp, hps, rfl⟩ := mapE_cons_ok h
    simp only [getResultFrom, resultStep_of_entryPairs hp, ih hps, List.flatten_cons, List.foldl_append]

/-- the pairs an entry contributes depend on its state only through `result` -/
theorem entryPairs_congr {mk : MetricKey} {s t : S} {a : Agg X S Rv}
    (hown : owner P mk.metrics = some a) (hr : a.m.result s = a.m.result t) :
    entryPairs P (mk, s) = entryPairs P (mk, t) := by
  unfold owner at hown
  unfold entryPairs
  simp only [hown]
  unfold Agg.outputs
  rw [hr]

/-- **`get_result(merge_states(..))` raises nothing the whole run's `get_result` does not**: if the whole
run's result exists, so does the merged one (all aggregates lawful). -/
theorem getResult_mergeStates_ok (hWF : P.WF) {parts : List (List Batch)} (hne : parts ≠ [])
    {sts : List (State S)} (hruns : mapE (run P) parts = .ok sts)
    {st : State S} (hwhole : run P parts.flatten = .ok st)
    {Eqv : S → S → Prop} (hL : ∀ a ∈ P.aggs, Lawful a.m Eqv)
    {res : Result Rv} (hres : getResult P st = .ok res) :
    ∃ res', getResult P (mergeStates P sts) = .ok res' := by
  obtain ⟨pss, hps, _⟩ := getResultFrom_ok hres
  have hall : ∀ e ∈ mergeStates P sts, ∃ ps, entryPairs P e = .ok ps := by
    intro e he
    obtain ⟨mk, s⟩ := e
    have hs : AList.get? (mergeStates P sts) mk = some s :=
      AList.get?_eq_some_of_mem _ (nodup_keys_mergeStates P sts) he
    have hsome := mergeStates_isSome hWF hne hruns hwhole mk
    rw [hs] at hsome
    cases ht : AList.get? st mk with
    | none => rw [ht] at hsome; cases hsome
    | some t =>
      obtain ⟨ps, hp, _⟩ := mapE_ok_mem hps (AList.mem_of_get?_eq_some _ ht)
      -- the owner of the key
      cases ho : owner P mk.metrics with
      | none =>
        unfold entryPairs at hp
        unfold owner at ho
        simp [ho] at hp
      | some a =>
        obtain ⟨ha, hout⟩ := owner_some ho
        have hmk : mk = ⟨a.out, mk.slice⟩ := by cases mk; simp only at hout ⊢; rw [hout]
        have hrel := mergeStates_get? hWF hne hruns hwhole ha (hL a ha) mk.slice
        rw [← hmk, hs, ht] at hrel
        have hE : Eqv s t := hrel
        exact ⟨ps, by rw [entryPairs_congr ho ((hL a ha).result_congr hE)]; exact hp⟩
  obtain ⟨pss', hps'⟩ := mapE_ok_of_forall hall
  exact ⟨_, getResultFrom_of_mapE hps'⟩

end MlModel.PipeAgg
