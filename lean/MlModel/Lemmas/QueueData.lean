import MlModel.Lemmas.QueueLocks
/-!
# Data movement of the IteratorQueue LTS, one step at a time

`seqOf t` is everything a consumer thread has taken out of the queue and not dropped, in
dequeue order: delivered (`received`), collected in the current `get_batch` (`result`), in hand.
`stepThread_data` describes, uniformly for every program point, how one step moves elements
between the source of truth lists (`q`, `produced`, `dequeued`, `lost`) and `seqOf`.
-/
namespace MlModel.Queue

/-- program points at which a consumer holds a just-dequeued element in `t.v` -/
def inHandPc : Pc → Bool
  | .nEmp _ | .nNaOk _ | .nRelOk _ | .gR0 | .gR1 | .gR2 | .gR3 | .gR4 | .gRet => true
  | _ => false

def inHand (t : Thread) : List Elem := if inHandPc t.pc then [t.v] else []

def seqOf (t : Thread) : List Elem := t.received ++ t.result ++ inHand t

/-- which program a program point belongs to (`none`: shared by all, i.e. start/done) -/
inductive PKind where | producer | get | batch | stopper
  deriving DecidableEq, Repr

def Prog.kind : Prog → PKind
  | .producer _ _ => .producer | .getLoop => .get | .batchLoop _ _ => .batch | .stopper _ => .stopper

def pcKind : Pc → Option PKind
  | .start | .done => none
  | .nAcq c | .nGet c | .nEmp c | .nNaOk c | .nNaErr c | .nRelOk c | .nRelErr c =>
    match c with | .get => some .get | .batch => some .batch
  | .gAcq | .gR0 | .gR1 | .gR2 | .gR3 | .gR4 | .gRet | .gWait | .gWake | .gRaise => some .get
  | .bAcq | .bR0 | .bR1 | .bR2 | .bR3 | .bR4 | .bEmp | .bWait | .bWake | .bRaise | .bExit
  | .bE1 | .bE2 | .bE3 => some .batch
  | .sAcq | .sRel | .eNext | .pAcq | .pPut | .pStAcq | .pStRel | .pR0 | .pR1 | .pR2 | .pR3 | .pR4
  | .pRet | .pWait | .pWake | .pRaiseT | .pExit
  | .tAcq | .tR0 | .tR1 | .tR2 | .tR3 | .tR4 | .tS0 | .tS1 | .tS2 | .tS3 | .tS4 | .tRel => some .producer
  | .mAcq | .mRel | .mE0 | .mE1 | .mE2 | .mD0 | .mD1 | .mD2 => some .stopper

/-- thread-local well-formedness: the program point belongs to the thread's program, and only
`get_batch` consumers ever have a non-empty `result` -/
structure TOK (t : Thread) : Prop where
  kind : ∀ k, pcKind t.pc = some k → t.prog.kind = k
  res : t.prog.kind ≠ .batch → t.result = []

/-- elements leaving the queue in this step -/
def extOf (s : Shared) (t : Thread) : List Elem :=
  match t.pc, s.q with
  | .nGet _, v :: _ => [v]
  | _, _ => []

/-- elements entering the queue in this step -/
def newOf (s : Shared) (t : Thread) : List Elem :=
  match t.pc with
  | .pPut => if s.full then [] else [t.v]
  | _ => []

/-- elements dropped in this step (a raising `get_batch` discards its partial result) -/
def droppedOf (t : Thread) : List Elem :=
  match t.pc with
  | .bRaise => t.result
  | _ => []

def DataStep (s : Shared) (t : Thread) (tid : Tid) (alt : Bool) : Prop :=
  ∀ lbl s' t', stepThread s t tid alt = some (lbl, s', t') → TOK t →
    TOK t' ∧ t'.prog = t.prog ∧
    s.q ++ newOf s t = extOf s t ++ s'.q ∧
    s'.dequeued = s.dequeued ++ extOf s t ∧
    s'.produced = s.produced ++ newOf s t ∧
    s'.lost = s.lost ++ droppedOf t ∧
    seqOf t ++ extOf s t = seqOf t' ++ droppedOf t

set_option hygiene false in
macro "data_group" : tactic => `(tactic| (
  intro lbl s' t' h htok
  have hk := htok.kind; have hr := htok.res
  unfold stepThread at h
  cases hpc : t.pc <;> (try (simp only [hpc, Pc.group] at hg; omega)) <;>
    simp only [hpc] at h hk <;>
    (try simp only [acquire, release, notify, waitPark, waitWake, goto, enqLoop, putLoop, batchLoop,
      afterRaise, afterValue] at h) <;>
    (repeat' split at h) <;>
    (try simp only [Option.some.injEq, Prod.mk.injEq, reduceCtorEq] at h) <;>
    (try (obtain ⟨-, rfl, rfl⟩ := h)) <;>
    (refine ⟨⟨?_, ?_⟩, ?_⟩) <;>
    simp_all [pcKind, extOf, newOf, droppedOf, seqOf, inHand, inHandPc, Shared.setOwner, Prog.kind]))

theorem data_g0 {s t tid alt} (hg : t.pc.group = 0) : DataStep s t tid alt := by data_group
theorem data_g1 {s t tid alt} (hg : t.pc.group = 1) : DataStep s t tid alt := by data_group
theorem data_g2 {s t tid alt} (hg : t.pc.group = 2) : DataStep s t tid alt := by data_group
theorem data_g3 {s t tid alt} (hg : t.pc.group = 3) : DataStep s t tid alt := by data_group
theorem data_g4 {s t tid alt} (hg : t.pc.group = 4) : DataStep s t tid alt := by data_group
theorem data_g5 {s t tid alt} (hg : t.pc.group = 5) : DataStep s t tid alt := by data_group
theorem data_g6 {s t tid alt} (hg : t.pc.group = 6) : DataStep s t tid alt := by data_group
theorem data_g7 {s t tid alt} (hg : t.pc.group = 7) : DataStep s t tid alt := by data_group

end MlModel.Queue
