import MlModel.Model.Resume
import MlModel.Lemmas.ShardRecv
/-!
# Bridge between the C10 source model (`Model/Resume.lean`, naturals, intervals only) and the C09 one
(`Model/Shard.lean`, Python ints): on chains whose intervals are never inverted (offsets inside the
shards) the two `shard` functions compute the same interval, hence `Resume.Src.fromState` — which C10's
theorems are stated about and which has no receiver — is the function `C09_from_state_receiver_independent`
speaks about.
-/
namespace MlModel.Shard
open MlModel.Resume

/-- same interval in both models -/
def SimSrc (s : Resume.Src) (d : DS) : Prop := (s.start : Int) = d.start ∧ (s.stop : Int) = d.end

theorem shardLoop_sim (q r idx a : Nat) :
    ((Resume.shardLoop q r idx a).1 : Int) = (Shard.shardLoop (q : Int) (r : Int) (idx : Int) (a : Int)).1 ∧
    ((Resume.shardLoop q r idx a).2 : Int) = (Shard.shardLoop (q : Int) (r : Int) (idx : Int) (a : Int)).2 := by
  unfold Resume.shardLoop Shard.shardLoop
  have e : ((idx : Int) + 1).toNat = idx + 1 := by omega
  rw [e]
  generalize List.range (idx + 1) = l
  suffices h : ∀ (x : Nat × Nat) (y : Int × Int), (x.1 : Int) = y.1 → (x.2 : Int) = y.2 →
      ((l.foldl (fun acc i =>
          let adj := if i < r then q + 1 else q
          (if i < idx then acc.1 + adj else acc.1, adj)) x).1 : Int)
        = (l.foldl (shardStep (q : Int) (r : Int) (idx : Int)) y).1 ∧
      ((l.foldl (fun acc i =>
          let adj := if i < r then q + 1 else q
          (if i < idx then acc.1 + adj else acc.1, adj)) x).2 : Int)
        = (l.foldl (shardStep (q : Int) (r : Int) (idx : Int)) y).2 by
    exact h (a, 0) ((a : Int), 0) rfl rfl
  induction l with
  | nil => intro x y h1 h2; exact ⟨h1, h2⟩
  | cons i l ih =>
    intro x y h1 h2
    simp only [List.foldl_cons]
    apply ih
    · simp only [shardStep]
      by_cases hr : i < r <;> by_cases hi : i < idx <;>
        simp only [hr, hi, if_true, if_false, Int.ofNat_lt, Int.natCast_add, Int.natCast_one] <;> omega
    · simp only [shardStep]
      by_cases hr : i < r <;> simp [hr, Int.ofNat_lt]

theorem shard_sim (s : Resume.Src) (d : DS) (h : SimSrc s d) (hle : s.start ≤ s.stop) (c : Cfg) :
    (∀ s', s.shard c = .ok s' → ∃ d', d.shard c.idx c.num c.off = .ok d' ∧ SimSrc s' d') ∧
    (∀ e, s.shard c = .error e → d.shard c.idx c.num c.off = .error e) := by
  obtain ⟨h1, h2⟩ := h
  unfold Resume.Src.shard shardIval DS.shard
  by_cases hn : c.num < 1
  · have : (c.num : Int) < 1 := by omega
    simp [hn, this]
  · have hn' : ¬ (c.num : Int) < 1 := by omega
    simp only [hn, hn', if_false]
    refine ⟨?_, by intro e he; simp at he⟩
    intro s' hs'
    simp only [Except.ok.injEq] at hs'
    subst hs'
    refine ⟨_, rfl, ?_⟩
    have hlen : d.end - d.start = ((s.stop - s.start : Nat) : Int) := by omega
    obtain ⟨a, b⟩ := shardLoop_sim ((s.stop - s.start) / c.num) ((s.stop - s.start) % c.num) c.idx s.start
    have hs : (d.shardCore c.idx c.num c.off).start
        = (Shard.shardLoop ((d.end - d.start) / c.num) ((d.end - d.start) % c.num) c.idx d.start).1 + c.off := rfl
    have he : (d.shardCore c.idx c.num c.off).end
        = (Shard.shardLoop ((d.end - d.start) / c.num) ((d.end - d.start) % c.num) c.idx d.start).1
          + (Shard.shardLoop ((d.end - d.start) / c.num) ((d.end - d.start) % c.num) c.idx d.start).2 := rfl
    rw [hlen, ← h1, ← Int.natCast_ediv, ← Int.natCast_emod, ← a] at hs
    rw [hlen, ← h1, ← Int.natCast_ediv, ← Int.natCast_emod, ← a, ← b] at he
    unfold SimSrc
    rw [hs, he]
    simp only [Int.natCast_add]
    exact ⟨trivial, trivial⟩

/-- `shard(idx, num, off)` arguments of a C10 `Cfg` -/
def cfgTriple (c : Cfg) : Int × Int × Int := ((c.idx : Int), (c.num : Int), (c.off : Int))

theorem chain_sim (chain : Chain) (s0 s : Resume.Src) (d0 : DS) (h : SimSrc s0 d0)
    (hs : chain.foldlM Resume.Src.shard s0 = .ok s)
    (hmono : ∀ pre s', pre <+: chain → pre.foldlM Resume.Src.shard s0 = .ok s' → s'.start ≤ s'.stop) :
    ∃ d, d0.shardChain (chain.map cfgTriple) = .ok d ∧ SimSrc s d := by
  induction chain generalizing s0 d0 with
  | nil =>
    simp only [List.foldlM_nil, pure, Except.pure, Except.ok.injEq] at hs
    subst hs
    exact ⟨d0, rfl, h⟩
  | cons c rest ih =>
    have hle : s0.start ≤ s0.stop := hmono [] s0 List.nil_prefix rfl
    simp only [List.foldlM_cons] at hs
    cases h1 : s0.shard c with
    | error e => rw [h1] at hs; simp [bind, Except.bind] at hs
    | ok s1 =>
      rw [h1] at hs
      simp only [bind, Except.bind] at hs
      obtain ⟨d1, hd1, hsim1⟩ := (shard_sim s0 d0 h hle c).1 s1 h1
      obtain ⟨d, hd, hsim⟩ := ih s1 d1 hsim1 hs (by
        intro pre s' hpre hfold
        refine hmono (c :: pre) s' ((List.cons_prefix_cons).2 ⟨rfl, hpre⟩) ?_
        simp only [List.foldlM_cons, h1, bind, Except.bind]
        exact hfold)
      refine ⟨d, ?_, hsim⟩
      simp only [List.map_cons, cfgTriple, DS.shardChain, hd1, bind, Except.bind]
      exact hd

theorem root_sim (n : Nat) : SimSrc (Resume.Src.root n) (DS.root n) := by
  simp [SimSrc, Resume.Src.root, DS.root, DS.end]

end MlModel.Shard
