import MlModel.Model.Rebatch
/-!
# Vocabulary of the C19 statements (specification side)

Only definitions: how a column of a batch / of a stream is read, what a well-formed stream is,
and what padding is expected.  The theorems in `Properties/C19.lean` are stated with these.
-/
namespace MlModel.Rebatch
variable {α : Type}

/-- rows of column `c` of a batch (`[]` if there is no such column) -/
def colRows (b : Batch α) (c : Nat) : List α := (b.getD c default).rows

/-- concatenation of column `c` over a list of batches -/
def colConcat (bs : List (Batch α)) (c : Nat) : List α := (bs.map (colRows · c)).flatten

def totalRows (bs : List (Batch α)) : Nat := (bs.map nrows).sum

/-- a batch of `nc` columns of supported kinds, each with `r` rows -/
def Rect (nc r : Nat) (b : Batch α) : Prop :=
  b.length = nc ∧ ∀ c ∈ b, c.kind ≠ .other ∧ c.rows.length = r

/-- Well-formed stream: every batch has `nc` columns of supported kinds and equal length. -/
def WF (nc : Nat) (bs : List (Batch α)) : Prop := ∀ b ∈ bs, Rect nc (nrows b) b

instance (nc r : Nat) (b : Batch α) : Decidable (Rect nc r b) := by unfold Rect; infer_instance
instance (nc : Nat) (bs : List (Batch α)) : Decidable (WF nc bs) := by unfold WF; infer_instance

/-- the rows appended to every column by `pad` when `n` rows were received in total -/
def padding (t : Nat) (pad : Option α) (n : Nat) : List α :=
  match pad with
  | none => []
  | some p => List.replicate ((t - n % t) % t) p

/-! Sample data for the non-vacuity examples of `Properties/C19.lean`. -/

/-- two columns (list, array); 5 rows then 1 row -/
def sampleStream : List (Batch Nat) :=
  [[⟨.list, [0, 1, 2, 3, 4]⟩, ⟨.array, [10, 11, 12, 13, 14]⟩], [⟨.list, [5]⟩, ⟨.array, [15]⟩]]

/-- a batch with columns of unequal length -/
def sampleRagged : Batch Nat := [⟨.list, [6, 7]⟩, ⟨.array, [16]⟩]

/-- row function `[x, y] ↦ [x + y]` -/
def sampleSum : List Nat → List Nat := fun r => [r.sum]

end MlModel.Rebatch
