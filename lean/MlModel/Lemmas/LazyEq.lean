import MlModel.Model.LazyEq
/-! Lemmas for `Model/LazyEq.lean`: two `LazyFn`s with the same hash compare equal without any argument `==` that
could raise; the dict probe is "the first entry with this hash". -/
namespace MlModel.LazyEq

theorem eq_same_id (a b : LFn) (h : a.id = b.id) : a.eq b = .true := by
  simp [LFn.eq, h]

theorem hashable_eq_self (v : ArgV) (h : v.hashable = true) : v.eq v = .true := by
  cases v <;> simp_all [ArgV.hashable, ArgV.eq, Cmp.ofBool]

/-- argument tuples with equal, hashable values compare equal whatever the object identities -/
theorem argsEq_hashable : ∀ (as bs : List Arg), as.map (·.v) = bs.map (·.v) → as.all (·.v.hashable) = true →
    argsEq as bs = .true := by
  intro as
  induction as with
  | nil => intro bs h _; cases bs <;> simp_all [argsEq]
  | cons a as ih =>
    intro bs h hh
    cases bs with
    | nil => simp at h
    | cons b bs =>
      simp only [List.map_cons, List.cons.injEq] at h
      simp only [List.all_cons, Bool.and_eq_true] at hh
      have hr : a.richEq b = .true := by
        unfold Arg.richEq
        split
        · rfl
        · rw [← h.1]; exact hashable_eq_self _ hh.1
      simp only [argsEq, hr]
      exact ih bs h.2 hh.2

theorem all_hashable_map (as : List Arg) : as.all (·.v.hashable) = (as.map (·.v)).all ArgV.hashable := by
  induction as <;> simp_all

/-- **same hash ⇒ `__eq__` is `True`**, and no comparison that could raise is evaluated -/
theorem same_hash_eq (e k : LFn) (h : e.hash = k.hash) : e.eq k = .true := by
  unfold LFn.hash at h
  by_cases he : e.args.all (·.v.hashable) = true <;> by_cases hk : k.args.all (·.v.hashable) = true
  · simp only [he, hk, if_true, HashV.sig.injEq] at h
    unfold LFn.eq
    split
    · rfl
    · simp only [h.1, ne_eq, not_true_eq_false, if_false]
      exact argsEq_hashable _ _ h.2 he
  · simp [he, hk] at h
  · simp [he, hk] at h
  · simp only [he, hk, HashV.byId.injEq] at h
    simp at h
    exact eq_same_id e k h

theorem hash_copy (a b : LFn) (h : IsCopy a b) : b.hash = a.hash := by
  obtain ⟨h1, h2, h3⟩ := h
  unfold LFn.hash
  rw [all_hashable_map, all_hashable_map, h3, h2, h1]

/-- the first entry whose key has hash `h` -/
def firstHash : List (LFn × Nat) → HashV → Option Nat
  | [], _ => none
  | (e, _) :: rest, h => if e.hash = h then some 0 else (firstHash rest h).map (· + 1)

theorem firstHash_lt (d : List (LFn × Nat)) (h : HashV) (i : Nat) (hf : firstHash d h = some i) : i < d.length := by
  induction d generalizing i with
  | nil => simp [firstHash] at hf
  | cons p rest ih =>
    obtain ⟨e, v⟩ := p
    by_cases hh : e.hash = h
    · simp [firstHash, hh] at hf; subst hf; simp
    · simp only [firstHash, hh, if_false, Option.map_eq_some_iff] at hf
      obtain ⟨m, hm, hmi⟩ := hf
      have := ih m hm
      simp; omega

theorem lookup_firstHash (d : List (LFn × Nat)) (k : LFn) : lookup LFn.eq d k = .ok (firstHash d k.hash) := by
  induction d with
  | nil => rfl
  | cons p rest ih =>
    obtain ⟨e, v⟩ := p
    by_cases hh : e.hash = k.hash
    · simp only [lookup, hh, ne_eq, not_true_eq_false, if_false, firstHash, if_true]
      split
      · rfl
      · rw [same_hash_eq e k hh]
    · simp only [lookup, ne_eq, hh, not_false_eq_true, if_true, firstHash, if_false, ih, Except.map]

theorem firstHash_append_new (d : List (LFn × Nat)) (a : LFn) (v : Nat) (h : firstHash d a.hash = none) :
    firstHash (d ++ [(a, v)]) a.hash = some d.length := by
  induction d with
  | nil => simp [firstHash]
  | cons p rest ih =>
    obtain ⟨e, w⟩ := p
    by_cases hh : e.hash = a.hash
    · simp [firstHash, hh] at h
    · simp only [firstHash, hh, if_false, Option.map_eq_none_iff] at h
      simp [firstHash, hh, ih h]

theorem firstHash_drop_one (p : LFn × Nat) (rest : List (LFn × Nat)) (hv : HashV) (n : Nat)
    (h : firstHash (p :: rest) hv = some (n + 1)) : firstHash rest hv = some n := by
  obtain ⟨e, w⟩ := p
  by_cases hh : e.hash = hv
  · simp [firstHash, hh] at h
  · simp only [firstHash, hh, if_false, Option.map_eq_some_iff] at h
    obtain ⟨m, hm, hmn⟩ := h
    have : m = n := by omega
    rw [← this]; exact hm

end MlModel.LazyEq
