import MlModel.Lemmas.TreeLaws
/-!
# `_set_by_path` (copying or in place) preserves "no dangling references" and returns a valid reference
-/
namespace MlModel.Tree

theorem closed_push {h : Heap} (hc : Closed h) {n : Node} (hn : ∀ c ∈ n.refs, c < h.size) : Closed (h.push n) := by
  intro r m hm c hcm
  simp only [Array.size_push]
  by_cases hr : r = h.size
  · subst hr
    rw [push_get_size] at hm; cases hm
    exact Nat.lt_succ_of_lt (hn c hcm)
  · rw [push_get_ne _ _ hr] at hm
    exact Nat.lt_succ_of_lt (hc r m hm c hcm)

theorem closed_write {h : Heap} (hc : Closed h) {r : Ref} {n : Node} (hn : ∀ c ∈ n.refs, c < h.size) :
    Closed (write h r n) := by
  intro r' m hm c hcm
  simp only [write_size]
  by_cases hr : r' = r
  · subst hr
    have hlt : r' < h.size := by have := lt_size_of_get hm; simpa using this
    rw [write_get_eq _ _ hlt] at hm; cases hm
    exact hn c hcm
  · rw [write_get_ne _ _ hr] at hm
    exact hc r' m hm c hcm

theorem Closed.refs_lt {h : Heap} (hc : Closed h) {r : Ref} {n : Node} (hn : h[r]? = some n) :
    ∀ c ∈ n.refs, c < h.size := hc r n hn

theorem mem_dictSet {es : List (DKey × Ref)} {k : DKey} {v x : Ref}
    (hx : x ∈ (dictSet es k v).map (·.2)) : x = v ∨ x ∈ es.map (·.2) := by
  induction es with
  | nil => simp [dictSet] at hx; exact Or.inl hx
  | cons e es ih =>
    obtain ⟨k0, v0⟩ := e
    by_cases hk : k0.norm = k.norm
    · simp [dictSet, hk] at hx
      rcases hx with hx | hx
      · exact Or.inl hx
      · exact Or.inr (by simp; right; exact hx)
    · simp only [dictSet, hk, if_false, List.map_cons, List.mem_cons] at hx
      rcases hx with hx | hx
      · exact Or.inr (by simp [hx])
      · rcases ih hx with h1 | h1
        · exact Or.inl h1
        · exact Or.inr (by simp only [List.map_cons, List.mem_cons]; right; exact h1)

theorem assign_closed {h : Heap} (hc : Closed h) (res : Ref) (k : PKey) {c : Ref} (hlt : c < h.size) :
    Closed (assign h res k c).1 ∧ (assign h res k c).1.size = h.size := by
  unfold assign
  split
  · rename_i cur hcur
    split
    · exact ⟨hc, rfl⟩
    · split
      · exact ⟨hc, rfl⟩
      · rename_i j hj
        refine ⟨closed_write hc ?_, by simp⟩
        intro x hx
        simp only [Node.refs] at hx
        rcases List.mem_or_eq_of_mem_set hx with hx | hx
        · exact hc.refs_lt hcur x hx
        · subst hx; exact hlt
  · rename_i cur hcur
    refine ⟨closed_write hc ?_, by simp⟩
    intro x hx
    simp only [Node.refs] at hx
    rcases mem_dictSet hx with hx | hx
    · subst hx; exact hlt
    · exact hc.refs_lt hcur x hx
  · exact ⟨hc, rfl⟩

/-- What the recursive call must guarantee. -/
def GoodRec (m : Nat) (R : Heap → Ref → Res Ref) : Prop :=
  ∀ h c, Closed h → m ≤ h.size → c < h.size →
    Closed (R h c).1 ∧ h.size ≤ (R h c).1.size ∧ ∀ c', (R h c).2 = .ok c' → c' < (R h c).1.size

theorem setSeq_closed {m : Nat} {R : Heap → Ref → Res Ref} (hR : GoodRec m R) {h1 : Heap} (hc : Closed h1)
    (hm1 : m ≤ h1.size) {res : Ref}
    {rs : List Ref} (hres : h1[res]? = some (.list rs)) (k : PKey) :
    Closed (setSeq R h1 res rs k).1 ∧ h1.size ≤ (setSeq R h1 res rs k).1.size := by
  rw [setSeq_unfold]
  split
  · exact ⟨hc, Nat.le_refl _⟩
  · rename_i i _
    have hrs := hc.refs_lt hres
    simp only [Node.refs] at hrs
    have hreslt := lt_size_of_get hres
    -- the heap just before the recursive call is closed and its `rs2` only has valid references
    have hpre : Closed (seqPre h1 res rs i).1 ∧ h1.size ≤ (seqPre h1 res rs i).1.size ∧
        ∀ x ∈ (seqPre h1 res rs i).2, x < (seqPre h1 res rs i).1.size := by
      unfold seqPre
      split
      · refine ⟨closed_write (closed_push hc (by simp [Node.refs])) ?_, by simp, ?_⟩
        · intro x hx
          simp only [Node.refs, List.mem_append, List.mem_singleton] at hx
          simp only [Array.size_push]
          rcases hx with hx | hx
          · have := hrs x hx; omega
          · omega
        · intro x hx
          simp only [List.mem_append, List.mem_singleton] at hx
          simp only [write_size, Array.size_push]
          rcases hx with hx | hx
          · have := hrs x hx; omega
          · omega
      · exact ⟨hc, Nat.le_refl _, hrs⟩
    obtain ⟨hpc, hpsz, hprs⟩ := hpre
    split
    · exact ⟨hpc, hpsz⟩
    · split
      · exact ⟨hpc, hpsz⟩
      · rename_i j _ child hch
        have hchlt : child < (seqPre h1 res rs i).1.size := hprs child (List.mem_of_getElem? hch)
        obtain ⟨hRc, hRsz, hRlt⟩ := hR _ child hpc (Nat.le_trans hm1 hpsz) hchlt
        split
        · rename_i h3 c hRe
          rw [hRe] at hRc hRsz hRlt
          simp only at hRc hRsz hRlt
          have ha := assign_closed hRc res k (hRlt c rfl)
          split
          · rename_i h4 he; rw [he] at ha; exact ⟨ha.1, by have := ha.2; simp only at this ⊢; omega⟩
          · rename_i h4 _ he; rw [he] at ha; exact ⟨ha.1, by have := ha.2; simp only at this ⊢; omega⟩
        · rename_i h3 _ hRe
          rw [hRe] at hRc hRsz
          exact ⟨hRc, by simp only at hRsz ⊢; omega⟩

theorem setMap_closed {m : Nat} {R : Heap → Ref → Res Ref} (hR : GoodRec m R) {h1 : Heap} (hc : Closed h1)
    (hm1 : m ≤ h1.size) {res : Ref}
    {es : List (DKey × Ref)} (hres : h1[res]? = some (.dict es)) (k : PKey) :
    Closed (setMap R h1 res es k).1 ∧ h1.size ≤ (setMap R h1 res es k).1.size := by
  rw [setMap_unfold]
  have hes := hc.refs_lt hres
  simp only [Node.refs] at hes
  have hpre : Closed (mapPre h1 es k).1 ∧ h1.size ≤ (mapPre h1 es k).1.size ∧
      (mapPre h1 es k).2 < (mapPre h1 es k).1.size := by
    unfold mapPre
    split
    · rename_i c hg
      exact ⟨hc, Nat.le_refl _, hes c (dictGet_mem hg)⟩
    · exact ⟨closed_push hc (by simp [Node.refs]), by simp, by simp⟩
  obtain ⟨hpc, hpsz, hchlt⟩ := hpre
  obtain ⟨hRc, hRsz, hRlt⟩ := hR _ _ hpc (Nat.le_trans hm1 hpsz) hchlt
  split
  · rename_i h3 c hRe
    rw [hRe] at hRc hRsz hRlt
    simp only at hRc hRsz hRlt
    have ha := assign_closed hRc res k (hRlt c rfl)
    split
    · rename_i h4 he; rw [he] at ha; exact ⟨ha.1, by have := ha.2; simp only at this ⊢; omega⟩
    · rename_i h4 _ he; rw [he] at ha; exact ⟨ha.1, by have := ha.2; simp only at this ⊢; omega⟩
  · rename_i h3 _ hRe
    rw [hRe] at hRc hRsz
    exact ⟨hRc, by simp only at hRsz ⊢; omega⟩

/-! ## the ndarray arm -/

theorem ndWrite_closed {h : Heap} (hc : Closed h) (b o : Nat) (ys : List Int) : Closed (ndWrite h b o ys) := by
  unfold ndWrite
  split
  · exact closed_write hc (by simp [Node.refs])
  · exact hc

theorem ndItem_closed {h : Heap} (hc : Closed h) (b : Ref) (o : Nat) (inner : List Nat) :
    Closed (ndItem h b o inner).1 := by
  obtain ⟨n, h1, _, hn⟩ := ndItem_fst h b o inner
  rw [h1]
  apply closed_push hc
  rcases hn with ⟨rfl, _⟩ | ⟨rfl, _⟩
  · simp [Node.refs]
  · simp [Node.refs]

theorem ndPre_closed (inPlace : Bool) {h : Heap} (hc : Closed h) {tree b off : Nat} {shape : List Nat}
    (hn : h[tree]? = some (.nd b off shape)) :
    Closed (ndPre inPlace h tree b off shape).1 ∧ h.size ≤ (ndPre inPlace h tree b off shape).1.size ∧
      (ndPre inPlace h tree b off shape).2.1 < (ndPre inPlace h tree b off shape).1.size := by
  unfold ndPre
  cases inPlace
  · simp only [Bool.false_eq_true, if_false, ndCopy_fst, ndCopy_snd, Array.size_push]
    refine ⟨closed_push (closed_push hc (by simp [Node.refs])) (by simp [Node.refs]), by omega, by omega⟩
  · simp only [if_true]
    exact ⟨hc, Nat.le_refl _, lt_size_of_get hn⟩

theorem setNd_closed {m : Nat} {R : Heap → Ref → Res Ref} (hR : GoodRec m R) (inPlace : Bool) {h : Heap}
    (hc : Closed h) (hm : m ≤ h.size) {tree b off : Nat} {shape : List Nat}
    (hn : h[tree]? = some (.nd b off shape)) (k : PKey) :
    Closed (setNd R inPlace h tree b off shape k).1 ∧ h.size ≤ (setNd R inPlace h tree b off shape k).1.size ∧
      ∀ c', (setNd R inPlace h tree b off shape k).2 = .ok c' →
        c' < (setNd R inPlace h tree b off shape k).1.size := by
  rw [setNd_unfold]
  obtain ⟨hpc, hpsz, hpres⟩ := ndPre_closed inPlace hc hn
  have herr : ∀ e : ErrKind, Closed ((ndPre inPlace h tree b off shape).1, (Except.error e : Except ErrKind Ref)).1 ∧
      h.size ≤ ((ndPre inPlace h tree b off shape).1, (Except.error e : Except ErrKind Ref)).1.size ∧
      ∀ c', ((ndPre inPlace h tree b off shape).1, (Except.error e : Except ErrKind Ref)).2 = .ok c' →
        c' < ((ndPre inPlace h tree b off shape).1, (Except.error e : Except ErrKind Ref)).1.size :=
    fun e => ⟨hpc, hpsz, by intro c' hc'; cases hc'⟩
  split
  · exact herr _
  · split
    · exact herr _
    · split
      · exact herr _
      · split
        · exact herr _
        · rename_i n inner _ i _ _ _ j _
          have hic := ndItem_closed hpc (ndPre inPlace h tree b off (n :: inner)).2.2.1 ((ndPre inPlace h tree b off (n :: inner)).2.2.2 + j * prod inner) inner
          obtain ⟨nn, hi1, hi2, _⟩ := ndItem_fst (ndPre inPlace h tree b off (n :: inner)).1
            (ndPre inPlace h tree b off (n :: inner)).2.2.1
            ((ndPre inPlace h tree b off (n :: inner)).2.2.2 + j * prod inner) inner
          have hisz : (ndItem (ndPre inPlace h tree b off (n :: inner)).1
              (ndPre inPlace h tree b off (n :: inner)).2.2.1
              ((ndPre inPlace h tree b off (n :: inner)).2.2.2 + j * prod inner) inner).1.size =
              (ndPre inPlace h tree b off (n :: inner)).1.size + 1 := by rw [hi1]; simp
          have hlt2 : (ndItem (ndPre inPlace h tree b off (n :: inner)).1
              (ndPre inPlace h tree b off (n :: inner)).2.2.1
              ((ndPre inPlace h tree b off (n :: inner)).2.2.2 + j * prod inner) inner).2 <
              (ndItem (ndPre inPlace h tree b off (n :: inner)).1
              (ndPre inPlace h tree b off (n :: inner)).2.2.1
              ((ndPre inPlace h tree b off (n :: inner)).2.2.2 + j * prod inner) inner).1.size := by
            rw [hi2, hisz]; omega
          obtain ⟨hRc, hRsz, hRlt⟩ := hR _ _ hic (by omega) hlt2
          split
          · rename_i h3 e hRe
            rw [hRe] at hRc hRsz
            exact ⟨hRc, by simp only at hRsz ⊢; omega, by intro c' hc'; cases hc'⟩
          · rename_i h3 c hRe
            rw [hRe] at hRc hRsz
            simp only at hRc hRsz
            split
            · exact ⟨hRc, by simp only; omega, by intro c' hc'; cases hc'⟩
            · refine ⟨ndWrite_closed hRc _ _ _, by simp only [ndWrite_size]; omega, ?_⟩
              intro c' hc'
              simp only [Except.ok.injEq] at hc'
              subst hc'
              simp only [ndWrite_size]; omega

theorem defaultTree_closed (p : Path) : ∀ (h : Heap) (v : Ref), Closed h → v < h.size →
    Closed (defaultTree h p v).1 ∧ h.size ≤ (defaultTree h p v).1.size ∧
      ∀ c', (defaultTree h p v).2 = .ok c' → c' < (defaultTree h p v).1.size := by
  induction p with
  | nil => intro h v hc hv; simp [defaultTree]; exact ⟨hc, hv⟩
  | cons k rest ih =>
    intro h v hc hv
    have key : ∀ (mk : Ref → Node), (∀ c, (mk c).refs = [c]) →
        let r := (match defaultTree h rest v with
          | (h1, .ok c) => (match alloc h1 (mk c) with | (h2, r) => (h2, Except.ok r))
          | (h1, .error e) => (h1, .error e) : Res Ref)
        Closed r.1 ∧ h.size ≤ r.1.size ∧ ∀ c', r.2 = .ok c' → c' < r.1.size := by
      intro mk hmk
      obtain ⟨h1c, h1s, h1l⟩ := ih h v hc hv
      split
      · rename_i h1 c he
        rw [he] at h1c h1s h1l
        simp only at h1c h1s h1l
        simp only [alloc]
        refine ⟨closed_push h1c (by intro x hx; rw [hmk] at hx; simp at hx; rw [hx]; exact h1l c rfl),
          by simp; omega, ?_⟩
        intro c' hc'; cases hc'; simp
      · rename_i h1 e he
        rw [he] at h1c h1s
        exact ⟨h1c, h1s, by intro c' hc'; cases hc'⟩
    cases k with
    | self => simp [defaultTree]; exact ⟨hc, hv⟩
    | skip =>
      simp only [defaultTree, alloc]
      exact ⟨closed_push hc (by simp [Node.refs]), by simp, by intro c' hc'; cases hc'; simp⟩
    | idx i =>
      rw [defaultTree]
      split
      · exact key (fun c => .list [c]) (fun c => rfl)
      · exact ⟨hc, Nat.le_refl _, by intro c' hc'; cases hc'⟩
    | str s =>
      rw [defaultTree.eq_5 _ _ _ _ (by simp) (by simp) (by simp)]
      exact key (fun c => .dict [((PKey.str s).toDKey, c)]) (fun c => rfl)
    | int i =>
      rw [defaultTree.eq_5 _ _ _ _ (by simp) (by simp) (by simp)]
      exact key (fun c => .dict [((PKey.int i).toDKey, c)]) (fun c => rfl)
    | obj i =>
      rw [defaultTree.eq_5 _ _ _ _ (by simp) (by simp) (by simp)]
      exact key (fun c => .dict [((PKey.obj i).toDKey, c)]) (fun c => rfl)
    | lit id w =>
      rw [defaultTree.eq_5 _ _ _ _ (by simp) (by simp) (by simp)]
      exact key (fun c => .dict [((PKey.lit id w).toDKey, c)]) (fun c => rfl)

end MlModel.Tree

namespace MlModel.Tree

/-- `_set_by_path` (either mode) keeps the heap free of dangling references, never shrinks it, and returns
a valid reference. -/
theorem setPath_closed (strict inPlace : Bool) (p : Path) : ∀ (h : Heap) (t v : Ref),
    Closed h → t < h.size → v < h.size →
    Closed (setPath strict inPlace h t p v).1 ∧ h.size ≤ (setPath strict inPlace h t p v).1.size ∧
      ∀ c', (setPath strict inPlace h t p v).2 = .ok c' → c' < (setPath strict inPlace h t p v).1.size := by
  induction p with
  | nil => intro h t v hc _ hv; simp [setPath]; exact ⟨hc, hv⟩
  | cons k rest ih =>
    intro h t v hc ht hv
    by_cases hk1 : k = .self
    · subst hk1; simp [setPath]; exact ⟨hc, hv⟩
    by_cases hk2 : k = .skip
    · subst hk2; simp [setPath]; exact ⟨hc, ht⟩
    have hR : GoodRec h.size (fun h' c => setPath strict inPlace h' c rest v) :=
      fun h' c hc' hm hlt => ih h' c v hc' hlt (Nat.lt_of_lt_of_le hv hm)
    rw [setPath.eq_4 _ _ _ _ _ _ _ hk1 hk2]
    split
    · exact ⟨hc, Nat.le_refl _, by intro c' hc'; cases hc'⟩
    · split
      · exact ⟨hc, Nat.le_refl _, by intro c' hc'; cases hc'⟩
      · exact defaultTree_closed _ h v hc hv
    · exact ⟨hc, Nat.le_refl _, by intro c' hc'; cases hc'⟩
    · -- tuple
      rename_i rs hn
      split
      · exact ⟨hc, Nat.le_refl _, by intro c' hc'; cases hc'⟩
      · simp only [alloc]
        have hrs := hc.refs_lt hn
        have hc1 : Closed (h.push (.list rs)) := closed_push hc hrs
        have hs := setSeq_closed hR hc1 (by simp) (push_get_size h (.list rs)) k
        split
        · rename_i h2 he
          rw [he] at hs
          simp only [Array.size_push] at hs
          split
          · rename_i rs' hres
            have hrs' : ∀ c ∈ (Node.tuple rs').refs, c < h2.size := hs.1.refs_lt (n := .list rs') hres
            refine ⟨closed_push hs.1 hrs', by simp; omega, ?_⟩
            intro c' hc'; cases hc'; simp
          · exact ⟨hs.1, by simp only; omega, by intro c' hc'; cases hc'⟩
        · rename_i h2 e he
          rw [he] at hs
          simp only [Array.size_push] at hs
          exact ⟨hs.1, by simp only; omega, by intro c' hc'; cases hc'⟩
    · -- list
      rename_i rs hn
      have hrs := hc.refs_lt hn
      cases inPlace with
      | true =>
        simp only [if_true]
        have hs := setSeq_closed hR hc (Nat.le_refl _) hn k
        split
        · rename_i h2 he
          rw [he] at hs
          exact ⟨hs.1, hs.2, by intro c' hc'; cases hc'; exact Nat.lt_of_lt_of_le ht hs.2⟩
        · rename_i h2 e he
          rw [he] at hs
          exact ⟨hs.1, hs.2, by intro c' hc'; cases hc'⟩
      | false =>
        simp only [Bool.false_eq_true, if_false, alloc]
        have hc1 : Closed (h.push (.list rs)) := closed_push hc hrs
        have hs := setSeq_closed hR hc1 (by simp) (push_get_size h (.list rs)) k
        split
        · rename_i h2 he
          rw [he] at hs
          simp only [Array.size_push] at hs
          exact ⟨hs.1, by simp only; omega, by intro c' hc'; cases hc'; simp only; omega⟩
        · rename_i h2 e he
          rw [he] at hs
          simp only [Array.size_push] at hs
          exact ⟨hs.1, by simp only; omega, by intro c' hc'; cases hc'⟩
    · -- dict
      rename_i es hn
      have hes := hc.refs_lt hn
      cases inPlace with
      | true =>
        simp only [if_true]
        have hs := setMap_closed hR hc (Nat.le_refl _) hn k
        split
        · rename_i h2 he
          rw [he] at hs
          exact ⟨hs.1, hs.2, by intro c' hc'; cases hc'; exact Nat.lt_of_lt_of_le ht hs.2⟩
        · rename_i h2 e he
          rw [he] at hs
          exact ⟨hs.1, hs.2, by intro c' hc'; cases hc'⟩
      | false =>
        simp only [Bool.false_eq_true, if_false, alloc]
        have hc1 : Closed (h.push (.dict es)) := closed_push hc hes
        have hs := setMap_closed hR hc1 (by simp) (push_get_size h (.dict es)) k
        split
        · rename_i h2 he
          rw [he] at hs
          simp only [Array.size_push] at hs
          exact ⟨hs.1, by simp only; omega, by intro c' hc'; cases hc'; simp only; omega⟩
        · rename_i h2 e he
          rw [he] at hs
          simp only [Array.size_push] at hs
          exact ⟨hs.1, by simp only; omega, by intro c' hc'; cases hc'⟩
    · -- ndarray
      rename_i b off shape hn
      exact setNd_closed hR inPlace hc (Nat.le_refl _) hn k
    · exact ⟨hc, Nat.le_refl _, by intro c' hc'; cases hc'⟩

end MlModel.Tree
