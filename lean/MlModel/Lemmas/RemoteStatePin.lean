import MlModel.Lemmas.RemoteStateHist
import MlModel.Lemmas.LruFind
/-!
# A cached link stays pinned across every flag-free history (until `clear_cache`)
-/
namespace MlModel.RemoteState
open MlModel MlModel.Lazy

theorem evalBuiltin_fnc (f : Heap → PyVal → Except Err PyVal × Heap) (x : CExpr) (z : Bool) (s : SSt)
    (hx : (evalC x s).2.fnc = s.fnc) : (evalBuiltin f x z s).2.fnc = s.fnc := by
  unfold evalBuiltin
  cases he : evalC x s with
  | mk res s1 =>
    rw [he] at hx
    simp only at hx
    cases res with
    | error e => simpa using hx
    | ok rv =>
      simp only
      cases hd : derefRV rv s1 with
      | error e => simpa using hx
      | ok pv =>
        simp only
        cases hf : f s1.heap pv with
        | mk r2 h' => cases r2 <;> cases z <;> simp [newHandle, hx]

/-- a flag-free operation other than `clear_cache` leaves the `LazyFn` cache exactly as it was -/
theorem remoteStep_fnc (op : Op) (s : SSt) (hp : op.plain = true) (hc : op ≠ .clear) :
    (remoteStep op s).2.fnc = s.fnc := by
  cases op with
  | clear => exact absurd rfl hc
  | mk c args =>
    simp only [remoteStep, remoteStepWith]
    cases hcn : construct s.heap c args with
    | mk res h' => cases res <;> simp [newHandle]
  | next h =>
    simp only [remoteStep, remoteStepWith]
    exact evalBuiltin_fnc _ _ _ _ (evalC_cacheFree (.root h) s s.fnc rfl).1
  | iter h ls =>
    simp only [remoteStep, remoteStepWith]
    exact evalBuiltin_fnc _ _ _ _ (evalC_cacheFree _ s s.fnc (by rw [cacheFree_chainR]; rfl)).1
  | getF h fs =>
    simp only [Op.plain] at hp
    simp only [remoteStep, remoteStepWith, chainF_plain fs _ hp]
    exact (evalC_cacheFree _ s s.fnc (by rw [cacheFree_chainR]; rfl)).1
  | get h ls lazy =>
    simp only [remoteStep, remoteStepWith]
    cases lazy with
    | false => exact (evalC_cacheFree _ s s.fnc (by simp [cacheFree_chainR, CExpr.cacheFree])).1
    | true =>
      simp only [if_true]
      cases hg : ls.getLast? with
      | none => exact (evalC_cacheFree _ s s.fnc rfl).1
      | some l => exact (evalC_cacheFree _ s s.fnc (by simp [CExpr.cacheFree, cacheFree_chainR])).1

theorem remoteRun_fnc (ops : List Op) : ∀ s : SSt, (∀ op ∈ ops, op.plain = true ∧ op ≠ .clear) →
    (remoteRun ops s).2.fnc = s.fnc := by
  induction ops with
  | nil => intro s _; rfl
  | cons op ops ih =>
    intro s h
    have h1 := remoteStep_fnc op s (h op (by simp)).1 (h op (by simp)).2
    have h2 := ih (remoteStep op s).2 (fun o ho => h o (by simp [ho]))
    simp only [remoteRun, remoteRunWith] at h2 ⊢
    simp only [remoteStep] at h1 h2
    rw [h2, h1]

/-- the cache after a failed lookup (`self.misses += 1`) -/
def missed (c : Lru.Cache CExpr RV) : Lru.Cache CExpr RV := { c with misses := c.misses + 1 }

/-- the first (missing) evaluation of a cached, non-lazy link on a flag-free chain: the value of eager
evaluation on the current heap, stored under the key -/
theorem evalC_cached_first (id : Nat) (ls : List SLink) (l : SLink) (s : SSt) (v : PyVal)
    (h : s.hnd.lookup id = some v)
    (hmiss : Lru.find? s.fnc.data (CExpr.link (chainR (.root id) ls) l true false).key = none) :
    evalC (.link (chainR (.root id) ls) l true false) s =
      match pyChain v (ls ++ [l]) s.heap with
      | (.ok w, h') =>
        (.ok (.val w), { s with
          heap := h'
          fnc := Lru.Cache.setitem (missed s.fnc) (CExpr.link (chainR (.root id) ls) l true false).key (.val w) })
      | (.error e, h') => (.error e, { s with heap := h', fnc := missed s.fnc }) := by
  have hg : s.fnc.getitem (CExpr.link (chainR (.root id) ls) l true false).key =
      (none, missed s.fnc) := by
    simp [Lru.Cache.getitem, hmiss, missed]
  rw [evalC]
  simp only [if_true]
  rw [hg]
  simp only
  rw [evalC_handle_chain id ls _ v (by simpa using h), pyChain_append]
  simp only [liftPy]
  cases hp : pyChain v ls s.heap with
  | mk res h' =>
    cases res with
    | error e => simp [linkBody, Except.map]
    | ok v' =>
      simp only [Except.map, linkBody, derefRV, pyChain_single]
      cases hk : pyLink v' l h' with
      | mk r2 h'' => cases r2 <;> simp

end MlModel.RemoteState
