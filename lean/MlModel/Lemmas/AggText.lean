import MlModel.Lemmas.AggCore
import MlModel.Lemmas.AggTextCounter
import MlModel.Lemmas.AggTextSort
import MlModel.Model.Agg.TextHeap
/-!
# `FrequencyState` is a commutative monoid up to observation; the two text metrics are lawful

* `FreqState.WF`  — the invariant of every reachable state: the dict keys are unique
* `FreqState.Obs` — observational equality: same `count`, same key set, same value per key
* `result_congr`  — `result()` (the sorted rows) is a function of the observation only
* `batchObs_*`    — what `add` puts into the batch counter, per key
* `lawful`        — `Lawful` for both metrics on well-formed states ⇒ sharding invariance (AggCore)
-/
namespace MlModel.Agg.Text
variable {K : Type} [DecidableEq K]

def FreqState.WF (s : FreqState K) : Prop := (keys s.counter).Nodup

/-- observational equality of two frequency states -/
def FreqState.Obs (s t : FreqState K) : Prop :=
  s.count = t.count ∧ (∀ k, k ∈ keys s.counter ↔ k ∈ keys t.counter) ∧
    ∀ k, get s.counter k = get t.counter k

namespace FreqState

theorem Obs.refl (s : FreqState K) : s.Obs s := ⟨rfl, fun _ => Iff.rfl, fun _ => rfl⟩
theorem Obs.symm {s t : FreqState K} (h : s.Obs t) : t.Obs s :=
  ⟨h.1.symm, fun k => (h.2.1 k).symm, fun k => (h.2.2 k).symm⟩
theorem Obs.trans {s t u : FreqState K} (h : s.Obs t) (h' : t.Obs u) : s.Obs u :=
  ⟨h.1.trans h'.1, fun k => (h.2.1 k).trans (h'.2.1 k), fun k => (h.2.2 k).trans (h'.2.2 k)⟩

omit [DecidableEq K] in
theorem wf_empty : (empty : FreqState K).WF := by simp [WF, empty]

theorem wf_merge {s : FreqState K} (o : FreqState K) (h : s.WF) : (s.merge o).WF :=
  nodup_keys_update _ _ h

@[simp] theorem count_merge (s o : FreqState K) : (s.merge o).count = s.count + o.count := rfl

theorem mem_keys_merge (s o : FreqState K) (k : K) :
    k ∈ keys (s.merge o).counter ↔ k ∈ keys s.counter ∨ k ∈ keys o.counter :=
  mem_keys_update _ _ _

theorem get_merge (s o : FreqState K) (ho : o.WF) (k : K) :
    get (s.merge o).counter k = get s.counter k + get o.counter k :=
  get_update _ _ _ ho

/-- `merge` respects observation (on well-formed operands) -/
theorem merge_congr {s s' t t' : FreqState K} (ht : t.WF) (ht' : t'.WF)
    (h1 : s.Obs s') (h2 : t.Obs t') : (s.merge t).Obs (s'.merge t') := by
  refine ⟨by simp [h1.1, h2.1], fun k => ?_, fun k => ?_⟩
  · rw [mem_keys_merge, mem_keys_merge, h1.2.1, h2.2.1]
  · rw [get_merge _ _ ht, get_merge _ _ ht', h1.2.2, h2.2.2]

/-- `result()` cannot tell observationally equal states apart: the rows are the same up to order
and the sort key is a total order -/
theorem result_congr {le : K → K → Bool} (hle : KeyOrder le) {s t : FreqState K}
    (hs : s.WF) (ht : t.WF) (h : s.Obs t) : s.result le = t.result le := by
  have hp : s.counter.Perm t.counter := perm_of_obs _ _ hs ht h.2.1 h.2.2
  unfold result rows
  rw [h.1]
  exact sort_eq_of_perm hle (hp.map _)

theorem merge_assoc (a b c : FreqState K) (hb : b.WF) (hc : c.WF) :
    ((a.merge b).merge c).Obs (a.merge (b.merge c)) := by
  refine ⟨by simp [Nat.add_assoc], fun k => ?_, fun k => ?_⟩
  · simp only [mem_keys_merge, or_assoc]
  · rw [get_merge _ _ hc, get_merge _ _ hb, get_merge _ _ (wf_merge c hb), get_merge _ _ hc,
      Nat.add_assoc]

theorem merge_comm (a b : FreqState K) (ha : a.WF) (hb : b.WF) :
    (a.merge b).Obs (b.merge a) := by
  refine ⟨by simp [Nat.add_comm], fun k => ?_, fun k => ?_⟩
  · simp only [mem_keys_merge, or_comm]
  · rw [get_merge _ _ hb, get_merge _ _ ha, Nat.add_comm]

theorem merge_empty_right (a : FreqState K) : a.merge empty = a := by
  simp [merge, empty, update]

theorem merge_empty_left (a : FreqState K) (ha : a.WF) : (empty.merge a).Obs a := by
  refine ⟨by simp [empty], fun k => ?_, fun k => ?_⟩
  · simp [mem_keys_merge, empty]
  · rw [get_merge _ _ ha]; simp [empty]

end FreqState

/-! ## what `add` puts into the batch counter -/

theorem countAll_append (c : Counter K) (xs ys : List K) :
    countAll c (xs ++ ys) = countAll (countAll c xs) ys := by
  simp [countAll, List.foldl_append]

theorem foldl_countAll {X : Type} (f : X → List K) (xs : List X) (c : Counter K) :
    xs.foldl (fun c t => countAll c (f t)) c = countAll c (xs.flatMap f) := by
  induction xs generalizing c with
  | nil => simp [countAll]
  | cons x rest ih => simp [List.foldl_cons, ih, countAll_append]

/-- the n-gram batch counter is the multiset of all n-grams of all texts -/
theorem ngramBatch_counter (cfg : NGramCfg) (texts : List Str) :
    (ngramBatch cfg texts).counter = countAll [] (texts.flatMap (textNGrams cfg)) :=
  foldl_countAll _ _ _

theorem wf_ngramBatch (cfg : NGramCfg) (texts : List Str) : (ngramBatch cfg texts).WF := by
  unfold FreqState.WF
  rw [ngramBatch_counter]
  exact nodup_keys_countAll _ _ (by simp)

theorem get_ngramBatch (cfg : NGramCfg) (texts : List Str) (g : Str) :
    get (ngramBatch cfg texts).counter g = occ (texts.flatMap (textNGrams cfg)) g := by
  rw [ngramBatch_counter, get_countAll]; simp

theorem mem_keys_ngramBatch (cfg : NGramCfg) (texts : List Str) (g : Str) :
    g ∈ keys (ngramBatch cfg texts).counter ↔ g ∈ texts.flatMap (textNGrams cfg) := by
  rw [ngramBatch_counter, mem_keys_countAll]; simp

/-! ### the pattern batch counter -/

section Pat
variable {X : Type}

/-- `for text in texts: counter[p] += f text` -/
theorem get_inner (c : Counter K) (p : K) (f : X → Nat) (texts : List X) (k : K) :
    get (texts.foldl (fun c t => bump c p (f t)) c) k
      = get c k + if p = k then (texts.map f).sum else 0 := by
  induction texts generalizing c with
  | nil => simp
  | cons t rest ih =>
    simp only [List.foldl_cons, ih, get_bump, List.map_cons, List.sum_cons]
    by_cases h : p = k <;> simp [h, Nat.add_assoc]

theorem mem_keys_inner (c : Counter K) (p : K) (f : X → Nat) (texts : List X) (k : K) :
    k ∈ keys (texts.foldl (fun c t => bump c p (f t)) c) ↔ k ∈ keys c ∨ (k = p ∧ texts ≠ []) := by
  induction texts generalizing c with
  | nil => simp
  | cons t rest ih =>
    simp only [List.foldl_cons, ih, mem_keys_bump]
    constructor
    · rintro ((h | h) | ⟨h, _⟩)
      · exact Or.inl h
      · exact Or.inr ⟨h, by simp⟩
      · exact Or.inr ⟨h, by simp⟩
    · rintro (h | ⟨h, _⟩)
      · exact Or.inl (Or.inl h)
      · exact Or.inl (Or.inr h)

theorem nodup_inner (c : Counter K) (p : K) (f : X → Nat) (texts : List X) (h : (keys c).Nodup) :
    (keys (texts.foldl (fun c t => bump c p (f t)) c)).Nodup := by
  induction texts generalizing c with
  | nil => simpa using h
  | cons t rest ih => exact ih _ (nodup_keys_bump _ _ _ h)

/-- per key: the sum over the patterns equal to that key of the per-text numbers -/
def patSum (ps : List K) (f : K → X → Nat) (texts : List X) (k : K) : Nat :=
  (ps.map fun p => if p = k then (texts.map (f p)).sum else 0).sum

theorem get_outer (c : Counter K) (ps : List K) (f : K → X → Nat) (texts : List X) (k : K) :
    get (ps.foldl (fun c p => texts.foldl (fun c t => bump c p (f p t)) c) c) k
      = get c k + patSum ps f texts k := by
  induction ps generalizing c with
  | nil => simp [patSum]
  | cons p rest ih =>
    simp only [List.foldl_cons, ih, get_inner, patSum, List.map_cons, List.sum_cons, Nat.add_assoc]

theorem mem_keys_outer (c : Counter K) (ps : List K) (f : K → X → Nat) (texts : List X) (k : K) :
    k ∈ keys (ps.foldl (fun c p => texts.foldl (fun c t => bump c p (f p t)) c) c)
      ↔ k ∈ keys c ∨ (k ∈ ps ∧ texts ≠ []) := by
  induction ps generalizing c with
  | nil => simp
  | cons p rest ih =>
    simp only [List.foldl_cons, ih, mem_keys_inner, List.mem_cons]
    constructor
    · rintro ((h | ⟨h, h'⟩) | ⟨h, h'⟩)
      · exact Or.inl h
      · exact Or.inr ⟨Or.inl h, h'⟩
      · exact Or.inr ⟨Or.inr h, h'⟩
    · rintro (h | ⟨h | h, h'⟩)
      · exact Or.inl (Or.inl h)
      · exact Or.inl (Or.inr ⟨h, h'⟩)
      · exact Or.inr ⟨h, h'⟩

theorem nodup_outer (c : Counter K) (ps : List K) (f : K → X → Nat) (texts : List X)
    (h : (keys c).Nodup) :
    (keys (ps.foldl (fun c p => texts.foldl (fun c t => bump c p (f p t)) c) c)).Nodup := by
  induction ps generalizing c with
  | nil => simpa using h
  | cons p rest ih => exact ih _ (nodup_inner _ _ _ _ h)

theorem patSum_append (ps : List K) (f : K → X → Nat) (xs ys : List X) (k : K) :
    patSum ps f (xs ++ ys) k = patSum ps f xs k + patSum ps f ys k := by
  induction ps with
  | nil => simp [patSum]
  | cons p rest ih =>
    simp only [patSum, List.map_cons, List.sum_cons] at ih ⊢
    rw [ih]
    by_cases h : p = k
    · simp [h, List.sum_append]; omega
    · simp [h]

theorem patSum_nil (ps : List K) (f : K → X → Nat) (k : K) : patSum ps f [] k = 0 := by
  induction ps with
  | nil => simp [patSum]
  | cons p rest ih => simpa [patSum] using ih

theorem sum_map_zero {A : Type} (l : List A) (g : A → Nat) (h : ∀ x ∈ l, g x = 0) :
    (l.map g).sum = 0 := by
  induction l with
  | nil => rfl
  | cons a rest ih =>
    simp only [List.map_cons, List.sum_cons, h a (by simp), Nat.zero_add]
    exact ih fun x hx => h x (by simp [hx])

/-- with unique patterns, the entry of pattern `k` is the sum of its per-text numbers -/
theorem patSum_of_nodup (ps : List K) (f : K → X → Nat) (texts : List X) (k : K)
    (hn : ps.Nodup) (hk : k ∈ ps) : patSum ps f texts k = (texts.map (f k)).sum := by
  induction ps with
  | nil => simp at hk
  | cons p rest ih =>
    simp only [List.nodup_cons] at hn
    simp only [patSum, List.map_cons, List.sum_cons] at ih ⊢
    by_cases h : p = k
    · subst h
      have : (rest.map fun q => if q = p then (texts.map (f q)).sum else 0).sum = 0 := by
        apply sum_map_zero
        intro q hq
        have : q ≠ p := fun e => hn.1 (e ▸ hq)
        simp [this]
      simp [this]
    · have hk' : k ∈ rest := by
        rcases List.mem_cons.mp hk with e | e
        · exact absurd e.symm h
        · exact e
      simp [h, ih hn.2 hk']

end Pat

theorem wf_patBatch (cfg : PatCfg) (texts : List Str) : (patBatch cfg texts).WF :=
  nodup_outer _ _ _ _ (by simp)

theorem get_patBatch (cfg : PatCfg) (texts : List Str) (p : Str) :
    get (patBatch cfg texts).counter p = patSum cfg.patterns (numMatches cfg) texts p := by
  simp [patBatch, get_outer]

theorem mem_keys_patBatch (cfg : PatCfg) (texts : List Str) (p : Str) :
    p ∈ keys (patBatch cfg texts).counter ↔ p ∈ cfg.patterns ∧ texts ≠ [] := by
  simp [patBatch, mem_keys_outer]

/-! ## both metrics, on well-formed states -/

theorem wf_batch (m : Metric) (texts : List Str) : (m.batch texts).WF := by
  cases m with
  | ngrams cfg => exact wf_ngramBatch cfg texts
  | patterns cfg => exact wf_patBatch cfg texts

/-- a state together with the invariant "dict keys are unique" -/
abbrev WFState := { s : FreqState Str // s.WF }

/-- the metric on well-formed states (the same functions as `Metric.mergeable`, restricted) -/
def Metric.mergeableW (m : Metric) : Mergeable Str WFState (List (Str × Rat)) where
  empty := ⟨FreqState.empty, FreqState.wf_empty⟩
  ofBatch xs := ⟨m.batch xs, wf_batch m xs⟩
  merge s t := ⟨s.1.merge t.1, FreqState.wf_merge t.1 s.2⟩
  result s := m.result s.1

/-- observational equality of well-formed states -/
def EqvW (s t : WFState) : Prop := s.1.Obs t.1

/-- merging the batch states of `xs` and `ys` is observationally the batch state of `xs ++ ys` -/
theorem batch_hom (m : Metric) (xs ys : List Str) :
    ((m.batch xs).merge (m.batch ys)).Obs (m.batch (xs ++ ys)) := by
  cases m with
  | ngrams cfg =>
    simp only [Metric.batch]
    refine ⟨by simp [ngramBatch], fun k => ?_, fun k => ?_⟩
    · simp only [FreqState.mem_keys_merge, mem_keys_ngramBatch, List.flatMap_append,
        List.mem_append]
    · rw [FreqState.get_merge _ _ (wf_ngramBatch cfg ys)]
      simp only [get_ngramBatch, List.flatMap_append, occ_append]
  | patterns cfg =>
    simp only [Metric.batch]
    refine ⟨by simp [patBatch], fun k => ?_, fun k => ?_⟩
    · simp only [FreqState.mem_keys_merge, mem_keys_patBatch]
      constructor
      · rintro (⟨h, h'⟩ | ⟨h, h'⟩)
        · exact ⟨h, by simp [h']⟩
        · exact ⟨h, by simp [h']⟩
      · rintro ⟨h, h'⟩
        by_cases hx : xs = []
        · subst hx; exact Or.inr ⟨h, by simpa using h'⟩
        · exact Or.inl ⟨h, hx⟩
    · rw [FreqState.get_merge _ _ (wf_patBatch cfg ys)]
      simp only [get_patBatch, patSum_append]

theorem batch_nil (m : Metric) : (FreqState.empty : FreqState Str).Obs (m.batch []) := by
  cases m with
  | ngrams cfg => exact ⟨rfl, fun k => by simp [Metric.batch, ngramBatch, FreqState.empty], fun k => rfl⟩
  | patterns cfg =>
    refine ⟨rfl, fun k => ?_, fun k => ?_⟩
    · simp [Metric.batch, mem_keys_patBatch, FreqState.empty]
    · simp [Metric.batch, get_patBatch, patSum_nil, FreqState.empty]

theorem Metric.result_congr (m : Metric) {s t : FreqState Str} (hs : s.WF) (ht : t.WF)
    (h : s.Obs t) : m.result s = m.result t := by
  unfold Metric.result
  rw [FreqState.result_congr strLe_keyOrder hs ht h]

/-- both text metrics are lawful mergeable metrics (hence sharding-invariant, `Lemmas/AggCore`) -/
theorem lawful (m : Metric) : Lawful m.mergeableW EqvW where
  refl s := FreqState.Obs.refl s.1
  symm h := FreqState.Obs.symm h
  trans h h' := FreqState.Obs.trans h h'
  merge_congr {_ _ t t'} h1 h2 := FreqState.merge_congr t.2 t'.2 h1 h2
  result_congr {s t} h := m.result_congr s.2 t.2 h
  empty_eq := batch_nil m
  hom xs ys := batch_hom m xs ys

end MlModel.Agg.Text
