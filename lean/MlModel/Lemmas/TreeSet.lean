import MlModel.Lemmas.TreeHeap
/-!
# Lemmas about `_set_by_path` in the `Tree` model: frames (which cells can change) and inversion
(what a successful call did).
-/
namespace MlModel.Tree

/-! ## frames -/

/-- Cells of `h` outside `S` are unchanged in `h'`, and `h'` is at least as large. -/
def FrameExcept (S : Ref → Prop) (h h' : Heap) : Prop :=
  h.size ≤ h'.size ∧ ∀ r, r < h.size → ¬ S r → h'[r]? = h[r]?

theorem FrameExcept.refl (S : Ref → Prop) (h : Heap) : FrameExcept S h h :=
  ⟨Nat.le_refl _, fun _ _ _ => rfl⟩

theorem FrameExcept.trans {S : Ref → Prop} {a b c : Heap} (h1 : FrameExcept S a b) (h2 : FrameExcept S b c) :
    FrameExcept S a c :=
  ⟨Nat.le_trans h1.1 h2.1, fun r hr hs => by
    rw [h2.2 r (Nat.lt_of_lt_of_le hr h1.1) hs, h1.2 r hr hs]⟩

theorem Extends.frame {h h' : Heap} (e : Extends h h') (S : Ref → Prop) : FrameExcept S h h' :=
  ⟨e.1, fun r hr _ => e.2 r hr⟩

theorem FrameExcept.mono {S T : Ref → Prop} {h h' : Heap} (f : FrameExcept S h h') (hST : ∀ r, S r → T r) :
    FrameExcept T h h' :=
  ⟨f.1, fun r hr hn => f.2 r hr (fun hs => hn (hST r hs))⟩

theorem frame_push (S : Ref → Prop) (h : Heap) (n : Node) : FrameExcept S h (h.push n) :=
  (extends_push h n).frame S

theorem frame_write {S : Ref → Prop} (h : Heap) {r : Ref} (n : Node) (hr : S r) : FrameExcept S h (write h r n) :=
  ⟨by simp, fun r' _ hn => write_get_ne _ _ (fun e => hn (e ▸ hr))⟩

/-- A frame whose exceptions are all fresh cells is an extension. -/
theorem FrameExcept.extends_of_fresh {S : Ref → Prop} {h0 h h' : Heap} (e : Extends h0 h)
    (f : FrameExcept S h h') (hS : ∀ r, S r → h0.size ≤ r) : Extends h0 h' :=
  ⟨Nat.le_trans e.1 f.1, fun r hr => by
    rw [f.2 r (Nat.lt_of_lt_of_le hr e.1) (fun hs => by have := hS r hs; omega), e.2 r hr]⟩

theorem assign_frame {S : Ref → Prop} (h : Heap) {res : Ref} (k : PKey) (c : Ref) (hres : S res) :
    FrameExcept S h (assign h res k c).1 := by
  unfold assign
  split
  · split
    · exact FrameExcept.refl _ _
    · split
      · exact FrameExcept.refl _ _
      · exact frame_write _ _ hres
  · exact frame_write _ _ hres
  · exact FrameExcept.refl _ _

/-- heap and content of `res` just before the recursive call in `setSeq`. -/
def seqPre (h1 : Heap) (res : Ref) (rs : List Ref) (i : Int) : Heap × List Ref :=
  if i = (rs.length : Int) then (write (h1.push .null) res (.list (rs ++ [h1.size])), rs ++ [h1.size]) else (h1, rs)

theorem seqPre_frame {S : Ref → Prop} (h1 : Heap) {res : Ref} (rs : List Ref) (i : Int) (hres : S res) :
    FrameExcept S h1 (seqPre h1 res rs i).1 := by
  unfold seqPre
  split
  · exact (frame_push S h1 .null).trans (frame_write _ _ hres)
  · exact FrameExcept.refl _ _

theorem setSeq_unfold (R : Heap → Ref → Res Ref) (h1 : Heap) (res : Ref) (rs : List Ref) (k : PKey) :
    setSeq R h1 res rs k =
      match k.asInt with
      | none => (h1, .error .key)
      | some i =>
        match resolveIdx (seqPre h1 res rs i).2.length i with
        | none => ((seqPre h1 res rs i).1, .error .key)
        | some j =>
          match (seqPre h1 res rs i).2[j]? with
          | none => ((seqPre h1 res rs i).1, .error .key)
          | some child =>
            match R (seqPre h1 res rs i).1 child with
            | (h3, .ok c) =>
              match assign h3 res k c with
              | (h4, .ok ()) => (h4, .ok ())
              | (h4, .error _) => (h4, .error .key)
            | (h3, .error e) => (h3, .error (wrapKey e)) := by
  unfold setSeq
  cases hk : k.asInt with
  | none => rfl
  | some i =>
    have hpre : (if i = (rs.length : Int) then
          (match alloc h1 Node.null with
            | (ha, nm) => (write ha res (Node.list (rs ++ [nm])), rs ++ [nm]))
        else (h1, rs)) = seqPre h1 res rs i := by
      unfold seqPre; split <;> rfl
    simp only [hpre]
    rfl

theorem setSeq_frame {S : Ref → Prop} {R : Heap → Ref → Res Ref} (hR : ∀ h c, FrameExcept S h (R h c).1)
    (h1 : Heap) {res : Ref} (rs : List Ref) (k : PKey) (hres : S res) :
    FrameExcept S h1 (setSeq R h1 res rs k).1 := by
  rw [setSeq_unfold]
  split
  · exact FrameExcept.refl _ _
  · rename_i i _
    have hp := seqPre_frame (S := S) h1 rs i hres
    split
    · exact hp
    · split
      · exact hp
      · rename_i child _
        have hr := hR (seqPre h1 res rs i).1 child
        split
        · rename_i h3 c hRe
          rw [hRe] at hr
          have ha := assign_frame (S := S) h3 k c hres
          split
          · rename_i h4 he; rw [he] at ha; exact hp.trans (hr.trans ha)
          · rename_i h4 _ he; rw [he] at ha; exact hp.trans (hr.trans ha)
        · rename_i h3 _ hRe
          rw [hRe] at hr
          exact hp.trans hr

/-- heap and child just before the recursive call in `setMap`. -/
def mapPre (h1 : Heap) (es : List (DKey × Ref)) (k : PKey) : Heap × Ref :=
  match dictGet es k.toDKey with
  | some c => (h1, c)
  | none => (h1.push .null, h1.size)

theorem mapPre_frame (S : Ref → Prop) (h1 : Heap) (es : List (DKey × Ref)) (k : PKey) :
    FrameExcept S h1 (mapPre h1 es k).1 := by
  unfold mapPre
  split
  · exact FrameExcept.refl _ _
  · exact frame_push S h1 .null

theorem setMap_unfold (R : Heap → Ref → Res Ref) (h1 : Heap) (res : Ref) (es : List (DKey × Ref)) (k : PKey) :
    setMap R h1 res es k =
      match R (mapPre h1 es k).1 (mapPre h1 es k).2 with
      | (h3, .ok c) =>
        match assign h3 res k c with
        | (h4, .ok ()) => (h4, .ok ())
        | (h4, .error _) => (h4, .error .key)
      | (h3, .error e) => (h3, .error (wrapKey e)) := by
  unfold setMap mapPre
  cases dictGet es k.toDKey <;> rfl

theorem setMap_frame {S : Ref → Prop} {R : Heap → Ref → Res Ref} (hR : ∀ h c, FrameExcept S h (R h c).1)
    (h1 : Heap) {res : Ref} (es : List (DKey × Ref)) (k : PKey) (hres : S res) :
    FrameExcept S h1 (setMap R h1 res es k).1 := by
  rw [setMap_unfold]
  have hp := mapPre_frame S h1 es k
  have hr := hR (mapPre h1 es k).1 (mapPre h1 es k).2
  split
  · rename_i h3 c hRe
    rw [hRe] at hr
    have ha := assign_frame (S := S) h3 k c hres
    split
    · rename_i h4 he; rw [he] at ha; exact hp.trans (hr.trans ha)
    · rename_i h4 _ he; rw [he] at ha; exact hp.trans (hr.trans ha)
  · rename_i h3 _ hRe
    rw [hRe] at hr
    exact hp.trans hr

/-! ## the ndarray arm: only the buffer of `result` is written -/

theorem ndCopy_fst (h : Heap) (b off : Nat) (shape : List Nat) :
    (ndCopy h b off shape).1 = (h.push (.buf (ndElems h b off shape))).push (.nd h.size 0 shape) := rfl

theorem ndCopy_snd (h : Heap) (b off : Nat) (shape : List Nat) : (ndCopy h b off shape).2 = h.size + 1 := by
  simp [ndCopy, alloc]

theorem ndCopy_extends (h : Heap) (b off : Nat) (shape : List Nat) : Extends h (ndCopy h b off shape).1 := by
  rw [ndCopy_fst]; exact (extends_push _ _).trans (extends_push _ _)

theorem ndItem_fst (h : Heap) (b o : Nat) (inner : List Nat) :
    ∃ n, (ndItem h b o inner).1 = h.push n ∧ (ndItem h b o inner).2 = h.size ∧
      (n = .leaf (.int ((bufOf h b).getD o 0)) ∧ inner = [] ∨ n = .nd b o inner ∧ inner ≠ []) := by
  unfold ndItem
  split
  · exact ⟨_, rfl, rfl, Or.inl ⟨rfl, rfl⟩⟩
  · rename_i hne; exact ⟨_, rfl, rfl, Or.inr ⟨rfl, by intro e; exact hne e⟩⟩

theorem ndItem_extends (h : Heap) (b o : Nat) (inner : List Nat) : Extends h (ndItem h b o inner).1 := by
  obtain ⟨n, h1, _, _⟩ := ndItem_fst h b o inner
  rw [h1]; exact extends_push _ _

theorem ndWrite_frame {S : Ref → Prop} (h : Heap) {b : Ref} (o : Nat) (ys : List Int) (hb : S b) :
    FrameExcept S h (ndWrite h b o ys) := by
  unfold ndWrite
  split
  · exact frame_write _ _ hb
  · exact FrameExcept.refl _ _

@[simp] theorem ndWrite_size (h : Heap) (b o : Nat) (ys : List Int) : (ndWrite h b o ys).size = h.size := by
  unfold ndWrite; split <;> simp

/-- the four components chosen by the first line of `setNd` -/
def ndPre (inPlace : Bool) (h : Heap) (tree b off : Nat) (shape : List Nat) : Heap × Ref × Nat × Nat :=
  if inPlace then (h, tree, b, off) else ((ndCopy h b off shape).1, (ndCopy h b off shape).2, h.size, 0)

theorem setNd_unfold (R : Heap → Ref → Res Ref) (inPlace : Bool) (h : Heap) (tree b off : Nat)
    (shape : List Nat) (k : PKey) :
    setNd R inPlace h tree b off shape k =
      match shape with
      | [] => ((ndPre inPlace h tree b off shape).1, .error .key)
      | n :: inner =>
        match k.asInt with
        | none => ((ndPre inPlace h tree b off shape).1, .error .key)
        | some i =>
          if i = (n : Int) then ((ndPre inPlace h tree b off shape).1, .error .assertion)
          else
            match resolveIdx n i with
            | none => ((ndPre inPlace h tree b off shape).1, .error .key)
            | some j =>
              match R (ndItem (ndPre inPlace h tree b off shape).1 (ndPre inPlace h tree b off shape).2.2.1
                    ((ndPre inPlace h tree b off shape).2.2.2 + j * prod inner) inner).1
                  (ndItem (ndPre inPlace h tree b off shape).1 (ndPre inPlace h tree b off shape).2.2.1
                    ((ndPre inPlace h tree b off shape).2.2.2 + j * prod inner) inner).2 with
              | (h3, .error e) => (h3, .error (wrapKey e))
              | (h3, .ok c) =>
                match coerce h3 c inner with
                | none => (h3, .error .key)
                | some ys => (ndWrite h3 (ndPre inPlace h tree b off shape).2.2.1
                    ((ndPre inPlace h tree b off shape).2.2.2 + j * prod inner) ys,
                    .ok (ndPre inPlace h tree b off shape).2.1) := by
  unfold setNd ndPre
  cases inPlace <;> rfl

theorem ndPre_frame (S : Ref → Prop) (inPlace : Bool) (h : Heap) (tree b off : Nat) (shape : List Nat) :
    FrameExcept S h (ndPre inPlace h tree b off shape).1 := by
  unfold ndPre
  cases inPlace
  · exact (ndCopy_extends h b off shape).frame S
  · exact FrameExcept.refl _ _

/-- `setNd` changes, besides what the recursion changes, only the buffer of `result`: the caller's buffer
`b` in place, the fresh buffer `h.size` otherwise. -/
theorem setNd_frame {S : Ref → Prop} {R : Heap → Ref → Res Ref} (hR : ∀ h c, FrameExcept S h (R h c).1)
    (inPlace : Bool) (h : Heap) (tree b off : Nat) (shape : List Nat) (k : PKey)
    (hb : S (ndPre inPlace h tree b off shape).2.2.1) :
    FrameExcept S h (setNd R inPlace h tree b off shape k).1 := by
  rw [setNd_unfold]
  have hp := ndPre_frame S inPlace h tree b off shape
  split
  · exact hp
  · split
    · exact hp
    · split
      · exact hp
      · split
        · exact hp
        · rename_i n inner _ i _ _ _ j _
          have hi := (ndItem_extends (ndPre inPlace h tree b off (n :: inner)).1
            (ndPre inPlace h tree b off (n :: inner)).2.2.1
            ((ndPre inPlace h tree b off (n :: inner)).2.2.2 + j * prod inner) inner).frame S
          have hr := hR (ndItem (ndPre inPlace h tree b off (n :: inner)).1
            (ndPre inPlace h tree b off (n :: inner)).2.2.1
            ((ndPre inPlace h tree b off (n :: inner)).2.2.2 + j * prod inner) inner).1
            (ndItem (ndPre inPlace h tree b off (n :: inner)).1
            (ndPre inPlace h tree b off (n :: inner)).2.2.1
            ((ndPre inPlace h tree b off (n :: inner)).2.2.2 + j * prod inner) inner).2
          split
          · rename_i h3 e hRe
            rw [hRe] at hr
            exact hp.trans (hi.trans hr)
          · rename_i h3 c hRe
            rw [hRe] at hr
            split
            · exact hp.trans (hi.trans hr)
            · exact hp.trans (hi.trans (hr.trans (ndWrite_frame _ _ _ hb)))

/-! ## `_default_tree` only allocates -/

theorem defaultTree_extends (h : Heap) (p : Path) (v : Ref) : Extends h (defaultTree h p v).1 := by
  induction p generalizing h with
  | nil => simp [defaultTree]; exact Extends.refl _
  | cons k rest ih =>
    cases k with
    | self => simp [defaultTree]; exact Extends.refl _
    | skip => simp [defaultTree]; exact extends_push _ _
    | idx i =>
      rw [defaultTree]
      split
      · have := ih h
        split
        · rename_i h1 c he; rw [he] at this; exact this.trans (extends_push _ _)
        · rename_i h1 e he; rw [he] at this; exact this
      · exact Extends.refl _
    | str s =>
      rw [defaultTree.eq_5 _ _ _ _ (by simp) (by simp) (by simp)]
      have := ih h
      split
      · rename_i h1 c he; rw [he] at this; exact this.trans (extends_push _ _)
      · rename_i h1 e he; rw [he] at this; exact this
    | int i =>
      rw [defaultTree.eq_5 _ _ _ _ (by simp) (by simp) (by simp)]
      have := ih h
      split
      · rename_i h1 c he; rw [he] at this; exact this.trans (extends_push _ _)
      · rename_i h1 e he; rw [he] at this; exact this
    | lit id w =>
      rw [defaultTree.eq_5 _ _ _ _ (by simp) (by simp) (by simp)]
      have := ih h
      split
      · rename_i h1 c he; rw [he] at this; exact this.trans (extends_push _ _)
      · rename_i h1 e he; rw [he] at this; exact this
    | obj id =>
      rw [defaultTree.eq_5 _ _ _ _ (by simp) (by simp) (by simp)]
      have := ih h
      split
      · rename_i h1 c he; rw [he] at this; exact this.trans (extends_push _ _)
      · rename_i h1 e he; rw [he] at this; exact this

/-! ## copying `_set_by_path` only allocates (and writes cells it allocated itself) -/

theorem setPath_extends (strict : Bool) (h : Heap) (t : Ref) (p : Path) (v : Ref) :
    Extends h (setPath strict false h t p v).1 := by
  induction p generalizing h t with
  | nil => simp [setPath]; exact Extends.refl _
  | cons k rest ih =>
    by_cases hk1 : k = .self
    · subst hk1; simp [setPath]; exact Extends.refl _
    by_cases hk2 : k = .skip
    · subst hk2; simp [setPath]; exact Extends.refl _
    rw [setPath.eq_4 _ _ _ _ _ _ _ hk1 hk2]
    have hR : ∀ (S : Ref → Prop) (h' : Heap) (c : Ref),
        FrameExcept S h' ((fun h' c => setPath strict false h' c rest v) h' c).1 :=
      fun S h' c => (ih h' c).frame S
    split
    · exact Extends.refl _
    · split
      · exact Extends.refl _
      · exact defaultTree_extends _ _ _
    · exact Extends.refl _
    · -- tuple
      rename_i rs _
      simp only [Bool.false_eq_true, ↓reduceIte, alloc]
      have hf := setSeq_frame (S := (· = h.size)) (hR _) (h.push (.list rs)) rs k rfl
      have he : Extends h (setSeq (fun h' c => setPath strict false h' c rest v) (h.push (.list rs)) h.size rs k).1 :=
        hf.extends_of_fresh (extends_push h _) (fun r hr => by simp [hr])
      split
      · rename_i h2 hs
        rw [hs] at he
        split
        · exact he.trans (extends_push _ _)
        · exact he
      · rename_i h2 e hs
        rw [hs] at he; exact he
    · -- list
      rename_i rs _
      simp only [Bool.false_eq_true, ↓reduceIte, alloc]
      have hf := setSeq_frame (S := (· = h.size)) (hR _) (h.push (.list rs)) rs k rfl
      have he : Extends h (setSeq (fun h' c => setPath strict false h' c rest v) (h.push (.list rs)) h.size rs k).1 :=
        hf.extends_of_fresh (extends_push h _) (fun r hr => by simp [hr])
      split
      · rename_i h2 hs; rw [hs] at he; exact he
      · rename_i h2 e hs; rw [hs] at he; exact he
    · -- dict
      rename_i es _
      simp only [Bool.false_eq_true, ↓reduceIte, alloc]
      have hf := setMap_frame (S := (· = h.size)) (hR _) (h.push (.dict es)) es k rfl
      have he : Extends h (setMap (fun h' c => setPath strict false h' c rest v) (h.push (.dict es)) h.size es k).1 :=
        hf.extends_of_fresh (extends_push h _) (fun r hr => by simp [hr])
      split
      · rename_i h2 hs; rw [hs] at he; exact he
      · rename_i h2 e hs; rw [hs] at he; exact he
    · -- ndarray: the copy has a fresh buffer (cell `h.size`), the only cell written
      rename_i b off shape _
      have hf := setNd_frame (S := (· = h.size)) (hR _) false h t b off shape k (by simp [ndPre])
      exact hf.extends_of_fresh (Extends.refl h) (fun r hr => by simp [hr])
    · exact Extends.refl _

end MlModel.Tree
