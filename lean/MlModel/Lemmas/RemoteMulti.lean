import MlModel.Model.RemoteMulti
import MlModel.Lemmas.RemoteStateHist
/-! Lemmas for `Model/RemoteMulti.lean`: one request of any client = the same operation on local objects. -/
namespace MlModel.RemoteMulti
open MlModel MlModel.Lazy MlModel.RemoteState MlModel.RemoteOpts
open MlModel.Remote (Gen Fin Exc genNext connectExc shutdownExc)

theorem plain_ev {o : Op} (h : (MOp.ev o).plain = true) : o.plain = true := by
  cases o <;> simp_all [MOp.plain, Op.plain]

theorem nextObs_erase (r : Except Exc Val) : (nextObs r).erase = nextLObs r := by
  cases r <;> rfl

/-- the evaluation of one request, whoever sends it with whatever options, is the local operation -/
theorem evalStep_eq_local (cfg : ClientCfg) (op : MOp) (s : MSrv) (hp : op.plain = true) :
    (evalStep cfg op s).1.erase = (mlocalStep op s.loc).1 ∧ (evalStep cfg op s).2.loc = (mlocalStep op s.loc).2 ∧
    (evalStep cfg op s).2.shutdown = s.shutdown ∧ (evalStep cfg op s).2.dead = s.dead := by
  cases op with
  | ev o =>
    obtain ⟨h1, h2⟩ := step_eq_local o s.st (plain_ev hp)
    simp only [evalStep, mlocalStep, MSrv.loc]
    rw [← h1, ← h2]
    refine ⟨?_, by trivial, by trivial, by trivial⟩
    cases (remoteStep o s.st).1 <;> rfl
  | gen items fin => exact ⟨rfl, rfl, rfl, rfl⟩
  | giter h =>
    simp only [evalStep, mlocalStep, MSrv.loc]
    cases hl : s.gh.lookup h <;> simp [MObs.erase, SSt.loc]
  | gnext h =>
    simp only [evalStep, mlocalStep, MSrv.loc]
    cases hl : s.gh.lookup h with
    | none => simp [MObs.erase]
    | some i =>
      cases hg : s.pool[i]? with
      | none => simp [hg, MObs.erase]
      | some g => simp [hg, nextObs_erase]
  | clearCache => exact ⟨rfl, rfl, rfl, rfl⟩
  | cacheInfo => exact ⟨rfl, rfl, rfl, rfl⟩
  | heartbeat a b => exact ⟨rfl, rfl, rfl, rfl⟩
  | shutdownParty => simp [MOp.plain] at hp
  | shutdownClient => simp [MOp.plain] at hp

theorem mstep_eq_local (cfgs : Nat → ClientCfg) (o : COp) (s : MSrv) (hp : o.op.plain = true)
    (hs : s.shutdown = false) (hd : s.dead = false) :
    (mstep cfgs o s).1.erase = (mlocalStep o.op s.loc).1 ∧ (mstep cfgs o s).2.loc = (mlocalStep o.op s.loc).2 ∧
    (mstep cfgs o s).2.shutdown = false ∧ (mstep cfgs o s).2.dead = false := by
  obtain ⟨c, op⟩ := o
  obtain ⟨e1, e2, e3, e4⟩ := evalStep_eq_local (cfgs c) op s hp
  cases op with
  | clearCache => exact ⟨rfl, rfl, hs, hd⟩
  | cacheInfo => exact ⟨rfl, rfl, hs, hd⟩
  | heartbeat a b => exact ⟨rfl, rfl, hs, hd⟩
  | shutdownParty => simp [MOp.plain] at hp
  | shutdownClient => simp [MOp.plain] at hp
  | ev o => simp only [mstep, hd, hs, Bool.false_and, Bool.false_eq_true, if_false]; exact ⟨e1, e2, e3 ▸ hs, e4 ▸ hd⟩
  | gen items fin =>
    simp only [mstep, hd, hs, Bool.false_and, Bool.false_eq_true, if_false]; exact ⟨e1, e2, e3 ▸ hs, e4 ▸ hd⟩
  | giter h => simp only [mstep, hd, hs, Bool.false_and, Bool.false_eq_true, if_false]; exact ⟨e1, e2, e3 ▸ hs, e4 ▸ hd⟩
  | gnext h => simp only [mstep, hd, hs, Bool.false_and, Bool.false_eq_true, if_false]; exact ⟨e1, e2, e3 ▸ hs, e4 ▸ hd⟩

theorem mrun_eq_local (cfgs : Nat → ClientCfg) (ops : List COp) : ∀ s : MSrv, s.shutdown = false → s.dead = false →
    (∀ o ∈ ops, o.op.plain = true) →
    (mrun cfgs ops s).1.map MObs.erase = (mlocalRun (ops.map (·.op)) s.loc).1 ∧
    (mrun cfgs ops s).2.loc = (mlocalRun (ops.map (·.op)) s.loc).2 := by
  induction ops with
  | nil => intro s _ _ _; exact ⟨rfl, rfl⟩
  | cons o ops ih =>
    intro s hs hd hp
    obtain ⟨h1, h2, h3, h4⟩ := mstep_eq_local cfgs o s (hp o (by simp)) hs hd
    obtain ⟨i1, i2⟩ := ih (mstep cfgs o s).2 h3 h4 (fun x hx => hp x (by simp [hx]))
    simp only [mrun, mlocalRun, List.map_cons]
    rw [h2] at i1 i2
    exact ⟨by rw [h1, i1], i2⟩

theorem mlocalRun_append (a b : List MOp) : ∀ L : MLoc,
    mlocalRun (a ++ b) L = ((mlocalRun a L).1 ++ (mlocalRun b (mlocalRun a L).2).1, (mlocalRun b (mlocalRun a L).2).2) := by
  induction a with
  | nil => intro L; rfl
  | cons x a ih => intro L; simp only [List.cons_append, mlocalRun, ih]

/-- on local objects `clear_cache` is nothing: the history with the request removed shows the same observations -/
theorem mlocalRun_clear (a b : List MOp) (L : MLoc) :
    (mlocalRun (a ++ MOp.clearCache :: b) L).1.eraseIdx a.length = (mlocalRun (a ++ b) L).1 ∧
    (mlocalRun (a ++ MOp.clearCache :: b) L).2 = (mlocalRun (a ++ b) L).2 := by
  have hlen : ∀ (xs : List MOp) (L : MLoc), (mlocalRun xs L).1.length = xs.length := by
    intro xs
    induction xs with
    | nil => intro L; rfl
    | cons x xs ih => intro L; simp [mlocalRun, ih]
  rw [mlocalRun_append, mlocalRun_append]
  simp only [mlocalRun, mlocalStep]
  refine ⟨?_, by trivial⟩
  rw [← hlen a L, List.eraseIdx_append_of_length_le (Nat.le_refl _)]
  simp

end MlModel.RemoteMulti
