import MlModel.Lemmas.SchedITInv
/-!
# `WorkerPool.iterate` never gets stuck while a worker is usable (C06_no_deadlock)
-/
namespace MlModel.Sched

/-- the attempt waits for a call that will never be answered -/
def CoSt.hung : CoSt → Bool
  | .awaitInit f => !f.completes
  | .awaitNext f _ => !f.completes
  | _ => false

structure LiveInv (c : ICfg) (s : IT) : Prop where
  hung : ∀ r ∈ s.running, r.co.hung = true → aliveAt s.ws r.worker = false
  pos : ∀ r ∈ s.running, ∀ f pos, r.co = .awaitNext f pos → pos ≤ c.nb r.shard

theorem liveInv_init (c : ICfg) (nw : Nat) : LiveInv c (IT.init nw c.n) := by
  refine ⟨?_, ?_⟩ <;> simp [IT.init]

theorem aliveAt_set (ws : List Worker) (w w' : Nat) (y : Worker) :
    aliveAt (ws.set w y) w' = if w = w' ∧ w < ws.length then y.alive else aliveAt ws w' := by
  unfold aliveAt
  rw [List.getElem?_set]
  by_cases hww : w = w'
  · by_cases hlt : w < ws.length
    · rw [if_pos hww, if_pos hlt, if_pos ⟨hww, hlt⟩]
    · have hn : ws[w']? = none := List.getElem?_eq_none (by omega)
      rw [if_pos hww, if_neg hlt, if_neg (fun h => hlt h.2), hn]
  · rw [if_neg hww, if_neg (fun h => hww h.1)]

theorem aliveAt_of_get {ws : List Worker} {w : Nat} {x : Worker} (hx : ws[w]? = some x) :
    aliveAt ws w = x.alive ∧ w < ws.length := by
  refine ⟨by simp [aliveAt, hx], ?_⟩
  cases Nat.lt_or_ge w ws.length with
  | inl hlt => exact hlt
  | inr hge => rw [List.getElem?_eq_none hge] at hx; cases hx

/-- a call never revives a worker -/
theorem issue_dead {env : Env} {ws : List Worker} {w w' : Nat} (h : aliveAt ws w' = false) :
    aliveAt (issue env ws w).2 w' = false := by
  unfold issue
  cases hx : ws[w]? with
  | none => simpa using h
  | some x =>
    obtain ⟨hax, hlt⟩ := aliveAt_of_get hx
    simp only
    rw [aliveAt_set]
    by_cases hww : w = w'
    · subst hww
      simp only [hlt, and_self, if_true]
      rw [hax] at h
      unfold Worker.issue
      simp [h]
    · simp [hww, h]

/-- a call governed by `die`/`restart` leaves its worker dead -/
theorem issue_hung {env : Env} {ws : List Worker} {w : Nat} (h : (issue env ws w).1.completes = false) :
    aliveAt (issue env ws w).2 w = false := by
  unfold issue at h ⊢
  cases hx : ws[w]? with
  | none => simp [aliveAt, hx]
  | some x =>
    obtain ⟨hax, hlt⟩ := aliveAt_of_get hx
    simp only [hx] at h ⊢
    rw [aliveAt_set]
    simp only [hlt, and_self, if_true]
    unfold Worker.issue at h ⊢
    by_cases ha : x.alive = true
    · simp only [ha, Bool.not_true, Bool.false_eq_true, if_false] at h ⊢
      cases hp : env w x.calls <;> simp [hp, Fate.completes] at h ⊢
    · simp at ha; simp [ha]

theorem crashW_dead {env : Env} {ws ws' : List Worker} {w w' : Nat} (hc : crashW env ws w = some ws')
    (h : aliveAt ws w' = false) : aliveAt ws' w' = false := by
  unfold crashW at hc
  cases hx : ws[w]? with
  | none => simp [hx] at hc
  | some x =>
    simp only [hx] at hc
    have key : ∀ y : Worker, y.alive = false → aliveAt (ws.set w y) w' = false := by
      intro y hy
      rw [aliveAt_set]
      split
      · exact hy
      · exact h
    split at hc
    · cases hc
    · split at hc
      · cases hc; exact key _ rfl
      · cases hc; exact key _ rfl
      · cases hc

theorem rejoinW_other {ws ws' : List Worker} {w w' : Nat} (hc : rejoinW ws w = some ws') (hne : w' ≠ w) :
    aliveAt ws' w' = aliveAt ws w' := by
  unfold rejoinW at hc
  cases hx : ws[w]? with
  | none => simp [hx] at hc
  | some x =>
    simp only [hx] at hc
    split at hc
    · cases hc
      rw [aliveAt_set]
      simp [Ne.symm hne]
    · cases hc

theorem CoRel.dead {c : ICfg} {ws : List Worker} {r : RunI} {o : CoOut} (h : CoRel c ws r o) {w' : Nat}
    (hd : aliveAt ws w' = false) : aliveAt o.ws w' = false := by
  cases h with
  | start h => exact issue_dead hd
  | initOk h => exact issue_dead hd
  | raiseT h => exact hd
  | raiseE h => exact hd
  | batches pos k h hk => exact issue_dead hd
  | marker pos k h hk => exact hd
  | fin h => exact hd

theorem CoRel.live {c : ICfg} {ws : List Worker} {r : RunI} {o : CoOut} (h : CoRel c ws r o)
    (_hp : ∀ f pos, r.co = .awaitNext f pos → pos ≤ c.nb r.shard) :
    (o.r.co.hung = true → aliveAt o.ws o.r.worker = false) ∧
    (∀ f pos, o.r.co = .awaitNext f pos → pos ≤ c.nb o.r.shard) := by
  cases h with
  | start h =>
    refine ⟨?_, by simp⟩
    intro hh; simp only [CoSt.hung, Bool.not_eq_true'] at hh; exact issue_hung hh
  | initOk h =>
    refine ⟨?_, ?_⟩
    · intro hh; simp only [CoSt.hung, Bool.not_eq_true'] at hh; exact issue_hung hh
    · intro f pos hc; simp at hc; omega
  | raiseT h => exact ⟨by simp [CoSt.hung], by simp⟩
  | raiseE h => exact ⟨by simp [CoSt.hung], by simp⟩
  | batches pos k h hk =>
    refine ⟨?_, ?_⟩
    · intro hh; simp only [CoSt.hung, Bool.not_eq_true'] at hh; exact issue_hung hh
    · intro f pos' hc; simp at hc; rw [← hc.2]; exact hk
  | marker pos k h hk => exact ⟨by simp [CoSt.hung], by simp⟩
  | fin h => exact ⟨by simp [CoSt.hung], by simp⟩

theorem liveInv_step {c : ICfg} {s s' : IT} (h : LiveInv c s) (hs : IStep c s s') : LiveInv c s' := by
  have hsubH : ∀ i, ∀ r ∈ s.running.eraseIdx i, r.co.hung = true → aliveAt s.ws r.worker = false :=
    fun i r hr => h.hung r (List.mem_of_mem_eraseIdx hr)
  have hsubP : ∀ i, ∀ r ∈ s.running.eraseIdx i, ∀ f pos, r.co = .awaitNext f pos → pos ≤ c.nb r.shard :=
    fun i r hr => h.pos r (List.mem_of_mem_eraseIdx hr)
  cases hs with
  | submitNone w ho hb hd =>
    obtain ⟨_, _, _, _, h5, _, _, _, _, _, _, _, _, h14, _⟩ := it_draw_facts s
    exact ⟨by rw [h5, h14]; exact h.hung, by rw [h5]; exact h.pos⟩
  | submitSome w t rest ho hb halive hfree hd =>
    obtain ⟨_, _, _, _, h5, _, _, _, _, _, _, _, _, h14, _⟩ := it_draw_facts s
    refine ⟨?_, ?_⟩
    · intro r hr
      simp only [List.mem_append, List.mem_singleton] at hr
      simp only [h14]
      rcases hr with hr | rfl
      · exact h.hung r hr
      · simp [CoSt.hung]
    · intro r hr
      simp only [List.mem_append, List.mem_singleton] at hr
      rcases hr with hr | rfl
      · exact h.pos r hr
      · simp
  | co i k m r o hr hco =>
    have hrel := coStep_sound hco
    have hl := hrel.live (h.pos r (List.mem_of_getElem? hr))
    refine ⟨?_, ?_⟩
    · intro r' hr' hh
      rcases List.mem_or_eq_of_mem_set hr' with hr' | rfl
      · exact hrel.dead (h.hung r' hr' hh)
      · exact hl.1 hh
    · intro r' hr'
      rcases List.mem_or_eq_of_mem_set hr' with hr' | rfl
      · exact h.pos r' hr'
      · exact hl.2
  | zco i k m r o hr hco =>
    have hrel := coStep_sound hco
    exact ⟨fun r' hr' hh => hrel.dead (h.hung r' hr' hh), h.pos⟩
  | drain b q ho hq => exact ⟨h.hung, h.pos⟩
  | checkFinished i r ho hr hco => exact ⟨hsubH i, hsubP i⟩
  | checkTimeout i r ho hr hco => exact ⟨hsubH i, hsubP i⟩
  | checkErr i r ho hr hco => exact ⟨hsubH i, hsubP i⟩
  | checkDead i r ho hr hco hdead => exact ⟨hsubH i, hsubP i⟩
  | finish ho hc => exact ⟨h.hung, h.pos⟩
  | merge sh q hres hq => exact ⟨h.hung, h.pos⟩
  | mergeStop q hres hq => exact ⟨h.hung, h.pos⟩
  | env ws' hw =>
    refine ⟨?_, h.pos⟩
    intro r hr hh
    rcases hw with ⟨w, hw⟩ | ⟨w, hw, hfree⟩
    · exact crashW_dead hw (h.hung r hr hh)
    · have hne : r.worker ≠ w := by
        have := List.all_eq_true.mp hfree r hr
        simpa using this
      rw [rejoinW_other hw hne]
      exact h.hung r hr hh

theorem liveInv_reach {c : ICfg} {nw : Nat} {s : IT} (h : IReach c (IT.init nw c.n) s) : LiveInv c s := by
  induction h with
  | refl => exact liveInv_init c nw
  | step l _ hs ih => exact liveInv_step ih (itStep_sound hs)

/-- labels that make progress (everything but the environment's `crash`) -/
def ILabel.progress : ILabel → Bool
  | .crash _ => false
  | _ => true

/-- **No deadlock.**  In a state where the iteration has not ended and some worker is alive or
can still rejoin, some progress step is enabled. -/
theorem it_progress {c : ICfg} {s : IT} (inv : LiveInv c s) (ho : s.outcome = none)
    (hw : ∃ (w : Nat) (x : Worker), s.ws[w]? = some x ∧ (x.alive = true ∨ x.canRejoin = true)) :
    ∃ l s', l.progress = true ∧ itStep c s l = some s' := by
  cases hrun : s.running with
  | cons r rest =>
    have hr0 : s.running[0]? = some r := by simp [hrun]
    have hrm : r ∈ s.running := by simp [hrun]
    have hcheckDone : ∀ (hd : r.co = .finished ∨ r.co = .raisedTimeout ∨ r.co = .raisedErr),
        ∃ s', itStep c s (.check 0) = some s' := by
      intro hd
      rcases hd with hd | hd | hd <;> simp [itStep, ho, hr0, hd]
    have hcheckDead : r.co.hung = true → ∃ s', itStep c s (.check 0) = some s' := by
      intro hh
      have hd := inv.hung r hrm hh
      cases hco : r.co <;> simp [hco, CoSt.hung] at hh <;> simp [itStep, ho, hr0, hco, hd]
    have hco : ∀ k m o, coStep c s.ws r k m = some o → ∃ s', itStep c s (.co 0 k m) = some s' := by
      intro k m o hco; simp [itStep, hr0, hco]
    cases hc : r.co with
    | start => obtain ⟨s', h'⟩ := hco 0 false _ (by simp [coStep, hc]; rfl); exact ⟨_, s', rfl, h'⟩
    | awaitInit f =>
      cases f with
      | ok => obtain ⟨s', h'⟩ := hco 0 false _ (by simp [coStep, hc]; rfl); exact ⟨_, s', rfl, h'⟩
      | deadline => obtain ⟨s', h'⟩ := hco 0 false _ (by simp [coStep, hc]; rfl); exact ⟨_, s', rfl, h'⟩
      | appError => obtain ⟨s', h'⟩ := hco 0 false _ (by simp [coStep, hc]; rfl); exact ⟨_, s', rfl, h'⟩
      | die => obtain ⟨s', h'⟩ := hcheckDead (by simp [hc, CoSt.hung, Fate.completes]); exact ⟨_, s', rfl, h'⟩
      | restart => obtain ⟨s', h'⟩ := hcheckDead (by simp [hc, CoSt.hung, Fate.completes]); exact ⟨_, s', rfl, h'⟩
    | awaitNext f pos =>
      cases f with
      | ok =>
        have hp := inv.pos r hrm _ _ hc
        by_cases hlt : pos < c.nb r.shard
        · have : ∃ o, coStep c s.ws r 1 false = some o := by
            have h1 : (decide (pos + 1 ≤ c.nb r.shard)) = true := by simp; omega
            simp [coStep, hc, h1]
          obtain ⟨o, ho'⟩ := this
          obtain ⟨s', h'⟩ := hco 1 false o ho'; exact ⟨_, s', rfl, h'⟩
        · have hpe : pos = c.nb r.shard := by omega
          have : ∃ o, coStep c s.ws r 0 true = some o := by
            simp [coStep, hc, hpe]
          obtain ⟨o, ho'⟩ := this
          obtain ⟨s', h'⟩ := hco 0 true o ho'; exact ⟨_, s', rfl, h'⟩
      | deadline => obtain ⟨s', h'⟩ := hco 0 false _ (by simp [coStep, hc]; rfl); exact ⟨_, s', rfl, h'⟩
      | appError => obtain ⟨s', h'⟩ := hco 0 false _ (by simp [coStep, hc]; rfl); exact ⟨_, s', rfl, h'⟩
      | die => obtain ⟨s', h'⟩ := hcheckDead (by simp [hc, CoSt.hung, Fate.completes]); exact ⟨_, s', rfl, h'⟩
      | restart => obtain ⟨s', h'⟩ := hcheckDead (by simp [hc, CoSt.hung, Fate.completes]); exact ⟨_, s', rfl, h'⟩
    | putDone => obtain ⟨s', h'⟩ := hco 0 false _ (by simp [coStep, hc]; rfl); exact ⟨_, s', rfl, h'⟩
    | finished => obtain ⟨s', h'⟩ := hcheckDone (Or.inl hc); exact ⟨_, s', rfl, h'⟩
    | raisedTimeout => obtain ⟨s', h'⟩ := hcheckDone (Or.inr (Or.inl hc)); exact ⟨_, s', rfl, h'⟩
    | raisedErr => obtain ⟨s', h'⟩ := hcheckDone (Or.inr (Or.inr hc)); exact ⟨_, s', rfl, h'⟩
  | nil =>
    by_cases hfin : (s.broken c || s.loopOver) = true
    · refine ⟨.finish, ?_⟩
      simp only [itStep, ho, hfin, if_true]
      exact ⟨_, rfl, rfl⟩
    · simp only [Bool.or_eq_true, not_or, Bool.not_eq_true] at hfin
      obtain ⟨hnb, hnl⟩ := hfin
      have hwork : (!s.tasks.isEmpty || !s.exhausted) = true := by
        simp [IT.loopOver, hrun] at hnl
        cases he : s.exhausted <;> simp_all
      obtain ⟨w, x, hx, hax⟩ := hw
      by_cases ha : x.alive = true
      · have hal : aliveAt s.ws w = true := by simp [aliveAt, hx, ha]
        have hfree : s.freeWorker w = true := by simp [IT.freeWorker, hrun]
        refine ⟨.submit w, ?_⟩
        simp only [itStep, ho, hal, hfree, hnb, hwork, Bool.not_false, Bool.and_self, if_true]
        cases s.draw.tasks <;> simp [ILabel.progress]
      · have hcr : x.canRejoin = true := by rcases hax with h | h; exact absurd h ha; exact h
        simp at ha
        have hfree : s.freeWorker w = true := by simp [IT.freeWorker, hrun]
        refine ⟨.rejoin w, ?_⟩
        simp only [itStep, rejoinW, hx, ha, hcr, hfree, Bool.not_false, Bool.and_self, if_true]
        exact ⟨_, rfl, rfl⟩

end MlModel.Sched
