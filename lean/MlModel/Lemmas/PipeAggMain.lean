import MlModel.Lemmas.PipeAggPlan
/-!
# The state after a stream, key by key
-/
namespace MlModel.PipeAgg
open MlModel MlModel.Agg

variable {X S Rv : Type}

theorem nodup_map_of_nodup_flatten {α : Type} :
    ∀ {L : List (List α)}, L.flatten.Nodup → (∀ l ∈ L, l ≠ []) → L.Nodup := by
  intro L
  induction L with
  | nil => intro _ _; exact List.nodup_nil
  | cons l L ih =>
    intro h hne
    rw [List.flatten_cons, List.nodup_append] at h
    rw [List.nodup_cons]
    refine ⟨?_, ih h.2.1 fun l' hl' => hne l' (List.mem_cons_of_mem _ hl')⟩
    intro hl
    have hl0 := hne l List.mem_cons_self
    cases l with
    | nil => exact hl0 rfl
    | cons x xs =>
      exact h.2.2 x List.mem_cons_self x (List.mem_flatten.mpr ⟨_, hl, List.mem_cons_self⟩) rfl

theorem Pipeline.WF.outs_map_nodup {P : Pipeline X S Rv} (h : P.WF) : (P.aggs.map (·.out)).Nodup :=
  nodup_map_of_nodup_flatten h.outs_nodup (by
    intro l hl
    obtain ⟨a, ha, rfl⟩ := List.mem_map.mp hl
    exact h.outs_ne a ha)

theorem feedsTo_ne_nil_iff (mk : MetricKey) (us : List (Upd X S Rv)) :
    feedsTo mk us ≠ [] ↔ ∃ u ∈ us, u.key = mk := by
  unfold feedsTo
  rw [Ne, List.map_eq_nil_iff, List.filter_eq_nil_iff]
  constructor
  · intro h
    apply Classical.byContradiction
    intro hc
    apply h
    intro u hu hk
    exact hc ⟨u, hu, of_decide_eq_true hk⟩
  · rintro ⟨u, hu, hk⟩ h
    exact h u hu (decide_eq_true hk)

theorem flatten_map_singleton {α β : Type} (F : α → List β) (h : α → β) :
    ∀ (l : List α), (∀ x ∈ l, F x = [h x]) → (l.map F).flatten = l.map h := by
  intro l
  induction l with
  | nil => intro _; rfl
  | cons x l ih =>
    intro hF
    rw [List.map_cons, List.flatten_cons, hF x List.mem_cons_self,
      ih fun y hy => hF y (List.mem_cons_of_mem _ hy)]
    rfl

theorem flatten_map_nil {α β : Type} (F : α → List β) :
    ∀ (l : List α), (∀ x ∈ l, F x = []) → (l.map F).flatten = [] := by
  intro l
  induction l with
  | nil => intro _; rfl
  | cons x l ih =>
    intro hF
    rw [List.map_cons, List.flatten_cons, hF x List.mem_cons_self,
      ih fun y hy => hF y (List.mem_cons_of_mem _ hy)]
    rfl

theorem flatten_map_flatten {α : Type} (L : List (List (List α))) :
    (L.map List.flatten).flatten = L.flatten.flatten := by
  induction L with
  | nil => rfl
  | cons l L ih => simp [ih]

section run
variable {P : Pipeline X S Rv} {bs : List Batch} {st : State S}

theorem run_ok (h : run P bs = .ok st) :
    ∃ uss, mapE (plan P) bs = .ok uss ∧ st = uss.flatten.foldl Upd.apply (createState P) :=
  runFrom_ok h

theorem nodup_keys_run (h : run P bs = .ok st) : (AList.keys st).Nodup := by
  obtain ⟨uss, _, rfl⟩ := run_ok h
  exact nodup_keys_foldl_apply _ _ (nodup_keys_createState P)

theorem get?_createState_unsliced (hWF : P.WF) {a : Agg X S Rv} (ha : a ∈ P.aggs) :
    AList.get? (createState P) ⟨a.out, SliceKey.none⟩ = some a.m.empty := by
  unfold createState
  rw [get?_createState_aux a]
  · have : ∃ a' ∈ P.aggs, a'.out = a.out := ⟨a, ha, rfl⟩
    simp [this]
  · intro a' ha' ho
    rw [eq_of_nodup_map (fun x : Agg X S Rv => x.out) hWF.outs_map_nodup ha' ha ho]

theorem m_of_key_all (hWF : P.WF) {uss : List (List (Upd X S Rv))} (hps : mapE (plan P) bs = .ok uss)
    {a : Agg X S Rv} (ha : a ∈ P.aggs) (k : SliceKey) :
    ∀ u ∈ uss.flatten, u.key = ⟨a.out, k⟩ → u.m = a.m := by
  intro u hu hk
  obtain ⟨b, _, us, hp, hu'⟩ := (mem_flatten_mapE hps u).mp hu
  exact plan_m_of_key hWF.outs_map_nodup hp ha k u hu' hk

/-- **Unsliced entry**: after the stream, the entry under the aggregate's output keys is one
accumulator fed the selected rows of every batch, batch by batch. -/
theorem run_unsliced (hWF : P.WF) (hrun : run P bs = .ok st) {a : Agg X S Rv} (ha : a ∈ P.aggs) :
    ∃ rowss, mapE a.rowsOf bs = .ok rowss ∧
      AList.get? st ⟨a.out, SliceKey.none⟩ = some (a.m.feed rowss) := by
  obtain ⟨uss, hps, rfl⟩ := run_ok hrun
  let mk : MetricKey := ⟨a.out, SliceKey.none⟩
  let h : List (Upd X S Rv) → List X := fun us => (feedsTo mk us).flatten
  have hb : ∀ b us, plan P b = .ok us → ∃ rows, a.rowsOf b = .ok rows ∧ feedsTo mk us = [rows] := by
    intro b us hp
    obtain ⟨us0, hpa, he⟩ := plan_feedsTo hWF.outs_map_nodup hp ha SliceKey.none
    obtain ⟨rows, hr, hf⟩ := planAgg_unsliced hWF.names_ne hpa
    exact ⟨rows, hr, by rw [show feedsTo mk us = feedsTo ⟨a.out, SliceKey.none⟩ us from rfl, he, hf]⟩
  have hrows : mapE a.rowsOf bs = .ok (uss.map h) :=
    mapE_map_ok (by
      intro b us hp
      obtain ⟨rows, hr, hf⟩ := hb b us hp
      simp only [h, hf, hr]
      simp) hps
  refine ⟨uss.map h, hrows, ?_⟩
  rw [get?_foldl_apply a.m mk _ _ (m_of_key_all hWF hps ha _), get?_createState_unsliced hWF ha]
  have hfeeds : feedsTo mk uss.flatten = uss.map h := by
    rw [feedsTo_flatten]
    apply flatten_map_singleton
    intro us hus
    obtain ⟨b, _, hp⟩ := mapE_ok_mem_inv hps hus
    obtain ⟨rows, _, hf⟩ := hb b us hp
    simp only [h, hf]
    simp
  rw [hfeeds]
  by_cases he : uss.map h = []
  · simp [he, Mergeable.feed]
  · simp [he, Mergeable.feed]

/-- the row batches slicer `sl` feeds to slice key `k` of aggregate `a` for one batch — a function of
the aggregate, the slicer and the batch only -/
def slicerFeeds (a : Agg X S Rv) (sl : Slicer) (k : SliceKey) (b : Batch) : List (List X) :=
  match planSlicer a b sl with
  | .ok us => feedsTo ⟨a.out, k⟩ us
  | .error _ => []

theorem map_eq_of_mapE {α β γ : Type} {f : α → Except ErrKind β} (F : β → γ) (G : α → γ) :
    ∀ {xs : List α} {ys : List β}, mapE f xs = .ok ys → (∀ x y, f x = .ok y → F y = G x) →
      ys.map F = xs.map G := by
  intro xs
  induction xs with
  | nil => intro ys h _; simp only [mapE] at h; cases h; rfl
  | cons x xs ih =>
    intro ys h hFG
    obtain ⟨y, ys', hx, hxs, rfl⟩ := mapE_cons_ok h
    simp [hFG x y hx, ih hxs hFG]

/-- **Sliced entry**: the entry under `(a.out, k)` — `k` a key of slicer `sl` — is absent if no batch
yields `k`, and otherwise one accumulator fed, pair by pair, the masked inputs of every
`(k, masks)` pair the slicer yields (`sliceRows`, batch by batch). -/
theorem run_sliced (hWF : P.WF) (hrun : run P bs = .ok st) {a : Agg X S Rv} (ha : a ∈ P.aggs)
    (hns : a.noSlice = false) {sl : Slicer} (hsl : sl ∈ P.slicers) {k : SliceKey}
    (hk : k.features = sl.name) :
    ∃ fedss feeds, mapE (sliceRows a sl k) bs = .ok fedss ∧ feeds.flatten = fedss.flatten ∧
      AList.get? st ⟨a.out, k⟩ = (if feeds = [] then none else some (a.m.feed feeds)) ∧
      (feeds ≠ [] ↔ ∃ b ∈ bs, k ∈ sliceKeysOf sl b) ∧
      feeds = (bs.map (slicerFeeds a sl k)).flatten := by
  obtain ⟨uss, hps, rfl⟩ := run_ok hrun
  let mk : MetricKey := ⟨a.out, k⟩
  have hkne : k ≠ SliceKey.none := by
    intro e; rw [e] at hk; exact hWF.names_ne sl hsl hk.symm
  have hb : ∀ b us, plan P b = .ok us → sliceRows a sl k b = .ok (feedsTo mk us).flatten := by
    intro b us hp
    obtain ⟨us0, hpa, he⟩ := plan_feedsTo hWF.outs_map_nodup hp ha k
    obtain ⟨us1, hps1, he1⟩ := planAgg_sliced hWF.names_nodup hWF.names_ne hpa hns hsl hk
    rw [show feedsTo mk us = feedsTo ⟨a.out, k⟩ us from rfl, he, he1]
    exact planSlicer_sliceRows hps1 k
  have hb2 : ∀ b us, plan P b = .ok us → feedsTo mk us = slicerFeeds a sl k b := by
    intro b us hp
    obtain ⟨us0, hpa, he⟩ := plan_feedsTo hWF.outs_map_nodup hp ha k
    obtain ⟨us1, hps1, he1⟩ := planAgg_sliced hWF.names_nodup hWF.names_ne hpa hns hsl hk
    rw [show feedsTo mk us = feedsTo ⟨a.out, k⟩ us from rfl, he, he1]
    unfold slicerFeeds; rw [hps1]
  refine ⟨uss.map (fun us => (feedsTo mk us).flatten), feedsTo mk uss.flatten,
    mapE_map_ok hb hps, ?_, ?_, ?_, ?_⟩
  rotate_left 3
  · rw [feedsTo_flatten, map_eq_of_mapE (feedsTo mk) (slicerFeeds a sl k) hps hb2]
  · rw [feedsTo_flatten, ← flatten_map_flatten, List.map_map]; rfl
  · rw [get?_foldl_apply a.m mk _ _ (m_of_key_all hWF hps ha _), get?_createState_sliced P _ _ hkne]
    by_cases he : feedsTo mk uss.flatten = []
    · simp [he]
    · simp [he, Mergeable.feed]
  · rw [feedsTo_ne_nil_iff]
    constructor
    · rintro ⟨u, hu, hku⟩
      obtain ⟨b, hb', us, hp, hu'⟩ := (mem_flatten_mapE hps u).mp hu
      obtain ⟨a', ha', us', hpa, hu''⟩ := plan_mem hp hu'
      obtain ⟨_, h2, h3⟩ := planAgg_mem hpa hu''
      refine ⟨b, hb', ?_⟩
      rcases h3 with h3 | ⟨_, sl', hsl', hf, kms, hs, km, hkm, hkk⟩
      · rw [hku] at h3; exact absurd h3 hkne
      · rw [hku] at hf hkk
        have : sl' = sl := eq_of_nodup_map (fun s : Slicer => s.name) hWF.names_nodup hsl' hsl
          (by rw [← hf]; exact hk)
        subst this
        unfold sliceKeysOf
        rw [hs]
        exact List.mem_map.mpr ⟨km, hkm, hkk.symm⟩
    · rintro ⟨b, hb', hkb⟩
      unfold sliceKeysOf at hkb
      cases hs : sl.slice b with
      | error e => rw [hs] at hkb; cases hkb
      | ok kms =>
        rw [hs] at hkb
        obtain ⟨km, hkm, hkk⟩ := List.mem_map.mp hkb
        obtain ⟨us, hp, hus⟩ := mapE_ok_mem hps hb'
        obtain ⟨uss', hm', rfl⟩ := plan_ok hp
        obtain ⟨us0, hpa, hus0⟩ := mapE_ok_mem hm' ha
        obtain ⟨rows, _, hcase⟩ := planAgg_ok hpa
        rcases hcase with ⟨hn, _⟩ | ⟨_, uss2, hm2, rfl⟩
        · rw [hns] at hn; cases hn
        · obtain ⟨us1, hps1, hus1⟩ := mapE_ok_mem hm2 hsl
          obtain ⟨u, hu, hku⟩ := planSlicer_mem_of_key hps1 hs hkm
          refine ⟨u, ?_, by rw [hku, hkk]⟩
          refine List.mem_flatten.mpr ⟨_, hus, List.mem_flatten.mpr ⟨_, hus0, ?_⟩⟩
          exact List.mem_cons_of_mem _ (List.mem_flatten.mpr ⟨_, hus1, hu⟩)

/-- `disable_slicing`: no sliced entry at all -/
theorem run_noSlice (hWF : P.WF) (hrun : run P bs = .ok st) {a : Agg X S Rv} (ha : a ∈ P.aggs)
    (hns : a.noSlice = true) {k : SliceKey} (hk : k ≠ SliceKey.none) :
    AList.get? st ⟨a.out, k⟩ = none := by
  obtain ⟨uss, hps, rfl⟩ := run_ok hrun
  rw [get?_foldl_apply a.m _ _ _ (m_of_key_all hWF hps ha _), get?_createState_sliced P _ _ hk]
  have : feedsTo ⟨a.out, k⟩ uss.flatten = [] := by
    rw [feedsTo_flatten]
    have : ∀ us ∈ uss, feedsTo ⟨a.out, k⟩ us = [] := by
      intro us hus
      obtain ⟨b, _, hp⟩ := mapE_ok_mem_inv hps hus
      obtain ⟨us0, hpa, he⟩ := plan_feedsTo hWF.outs_map_nodup hp ha k
      rw [he]
      exact planAgg_noSlice hpa hns hk
    exact flatten_map_nil _ _ this
  simp [this]

/-- **The key set**: exactly the unsliced keys of the aggregates and, for every aggregate with slicing
enabled, the slice keys some slicer yields for some batch. -/
theorem run_keys (hrun : run P bs = .ok st) (mk : MetricKey) :
    mk ∈ AList.keys st ↔
      (∃ a ∈ P.aggs, mk = ⟨a.out, SliceKey.none⟩) ∨
      (∃ a ∈ P.aggs, a.noSlice = false ∧ mk.metrics = a.out ∧
        ∃ sl ∈ P.slicers, ∃ b ∈ bs, mk.slice ∈ sliceKeysOf sl b) := by
  obtain ⟨uss, hps, rfl⟩ := run_ok hrun
  rw [mem_keys_foldl_apply, mem_keys_createState]
  constructor
  · rintro (h | ⟨u, hu, hku⟩)
    · exact Or.inl h
    · obtain ⟨b, hb', us, hp, hu'⟩ := (mem_flatten_mapE hps u).mp hu
      obtain ⟨a, ha, us', hpa, hu''⟩ := plan_mem hp hu'
      obtain ⟨_, h2, h3⟩ := planAgg_mem hpa hu''
      rcases h3 with h3 | ⟨hn, sl, hsl, _, kms, hs, km, hkm, hkk⟩
      · left
        refine ⟨a, ha, ?_⟩
        rw [← hku]
        cases hk' : u.key with
        | mk m s => rw [hk'] at h2 h3; simp only at h2 h3; rw [h2, h3]
      · right
        refine ⟨a, ha, hn, by rw [← hku, h2], sl, hsl, b, hb', ?_⟩
        unfold sliceKeysOf
        rw [hs, ← hku, hkk]
        exact List.mem_map.mpr ⟨km, hkm, rfl⟩
  · rintro (h | ⟨a, ha, hns, hm, sl, hsl, b, hb', hkb⟩)
    · exact Or.inl h
    · right
      unfold sliceKeysOf at hkb
      cases hs : sl.slice b with
      | error e => rw [hs] at hkb; cases hkb
      | ok kms =>
        rw [hs] at hkb
        obtain ⟨km, hkm, hkk⟩ := List.mem_map.mp hkb
        obtain ⟨us, hp, hus⟩ := mapE_ok_mem hps hb'
        obtain ⟨uss', hm', rfl⟩ := plan_ok hp
        obtain ⟨us0, hpa, hus0⟩ := mapE_ok_mem hm' ha
        obtain ⟨rows, _, hcase⟩ := planAgg_ok hpa
        rcases hcase with ⟨hn, _⟩ | ⟨_, uss2, hm2, rfl⟩
        · rw [hns] at hn; cases hn
        · obtain ⟨us1, hps1, hus1⟩ := mapE_ok_mem hm2 hsl
          obtain ⟨u, hu, hku⟩ := planSlicer_mem_of_key hps1 hs hkm
          refine ⟨u, ?_, ?_⟩
          · refine List.mem_flatten.mpr ⟨_, hus, List.mem_flatten.mpr ⟨_, hus0, ?_⟩⟩
            exact List.mem_cons_of_mem _ (List.mem_flatten.mpr ⟨_, hus1, hu⟩)
          · rw [hku, hkk, ← hm]

end run

end MlModel.PipeAgg
