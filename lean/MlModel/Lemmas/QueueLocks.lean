import MlModel.Model.Queue
/-!
# Lock discipline of the IteratorQueue LTS

`holds l pc` says whether a thread at program point `pc` owns lock `l`.  The one-step lemma
`stepThread_locks` shows that every step changes the ownership of each lock consistently with
the program point — the basis of mutual exclusion (`C04_mutex`).
-/
namespace MlModel.Queue

/-- does a thread at `pc` own the lock? -/
def holds : Lk → Pc → Bool
  -- dequeue lock
  | .deq, .nAcq _ | .deq, .nGet _ | .deq, .nEmp _ | .deq, .nNaOk _ | .deq, .nNaErr _
  | .deq, .nRelOk _ | .deq, .nRelErr _ => true
  | .deq, .gR0 | .deq, .gRet | .deq, .gWait | .deq, .gRaise => true
  | .deq, .bR0 | .deq, .bEmp | .deq, .bWait | .deq, .bRaise | .deq, .bExit => true
  | .deq, .pR2 | .deq, .pR3 | .deq, .tR2 | .deq, .tR3 | .deq, .mD1 | .deq, .mD2 => true
  -- enqueue lock
  | .enq, .gR2 | .enq, .gR3 | .enq, .bR2 | .enq, .bR3 | .enq, .bE2 | .enq, .bE3 => true
  | .enq, .pPut | .enq, .pStAcq | .enq, .pStRel | .enq, .pR0 | .enq, .pRet | .enq, .pWait
  | .enq, .pRaiseT | .enq, .pExit => true
  | .enq, .tS2 | .enq, .tS3 | .enq, .mE1 | .enq, .mE2 => true
  -- states lock
  | .st, .nGet _ | .st, .nEmp _ | .st, .nNaOk _ | .st, .nNaErr _ | .st, .nRelOk _ | .st, .nRelErr _ => true
  | .st, .sRel | .st, .pStRel | .st, .tR0 | .st, .tS0 | .st, .tRel | .st, .mRel => true
  | _, _ => false

end MlModel.Queue

namespace MlModel.Queue

@[simp] theorem owner_setOwner (s : Shared) (l l' : Lk) (o : Option Tid) :
    (s.setOwner l o).owner l' = if l' = l then o else s.owner l' := by
  cases l <;> cases l' <;> simp [Shared.setOwner, Shared.owner]

/-- the three lock owners as a function, to state "everything but the owners may change" -/
def sameOwners (s s' : Shared) : Prop := ∀ l, s'.owner l = s.owner l

/-- partition of the program points, only used to split big case analyses into several declarations -/
def Pc.group : Pc → Nat
  | .start | .done | .nAcq _ | .nGet _ | .nEmp _ | .nNaOk _ | .nNaErr _ | .nRelOk _ | .nRelErr _ => 0
  | .gAcq | .gR0 | .gR1 | .gR2 | .gR3 | .gR4 | .gRet | .gWait | .gWake | .gRaise => 1
  | .bAcq | .bR0 | .bR1 | .bR2 | .bR3 | .bR4 | .bEmp => 2
  | .bWait | .bWake | .bRaise | .bExit | .bE1 | .bE2 | .bE3 => 3
  | .sAcq | .sRel | .eNext | .pAcq | .pPut | .pStAcq | .pStRel => 4
  | .pR0 | .pR1 | .pR2 | .pR3 | .pR4 | .pRet | .pWait | .pWake | .pRaiseT | .pExit => 5
  | .tAcq | .tR0 | .tR1 | .tR2 | .tR3 | .tR4 | .tS0 | .tS1 | .tS2 | .tS3 | .tS4 | .tRel => 6
  | .mAcq | .mRel | .mE0 | .mE1 | .mE2 | .mD0 | .mD1 | .mD2 => 7

theorem Pc.group_lt (pc : Pc) : pc.group < 8 := by cases pc <;> simp [Pc.group]

/-- the statement proved group by group -/
def LocksStep (s : Shared) (t : Thread) (tid : Tid) (alt : Bool) : Prop :=
  ∀ lbl s' t', stepThread s t tid alt = some (lbl, s', t') →
    (∀ l, (s.owner l = some tid ↔ holds l t.pc = true)) →
    ∀ l, (s'.owner l = some tid ↔ holds l t'.pc = true) ∧
      (∀ u, u ≠ tid → (s'.owner l = some u ↔ s.owner l = some u))

set_option hygiene false in
macro "locks_group" : tactic => `(tactic| (
  intro lbl s' t' h hinv l
  have hd := hinv .deq; have he := hinv .enq; have hs := hinv .st
  clear hinv
  unfold stepThread at h
  cases hpc : t.pc <;> (try (simp only [hpc, Pc.group] at hg; omega)) <;>
    simp only [hpc] at h hd he hs <;>
    simp only [holds, iff_true, iff_false, Bool.false_eq_true] at hd he hs <;>
    (try simp only [acquire, release, notify, waitPark, waitWake, goto, enqLoop, putLoop, batchLoop,
      afterRaise, afterValue] at h) <;>
    (repeat' split at h) <;>
    (try simp only [Option.some.injEq, Prod.mk.injEq, reduceCtorEq] at h) <;>
    (try (obtain ⟨-, rfl, rfl⟩ := h)) <;>
    (cases l <;> simp_all [holds, Shared.owner, Shared.setOwner]) <;>
    (try (exact fun u hu h => hu h.symm))))

theorem locks_g0 {s t tid alt} (hg : t.pc.group = 0) : LocksStep s t tid alt := by locks_group
theorem locks_g1 {s t tid alt} (hg : t.pc.group = 1) : LocksStep s t tid alt := by locks_group
theorem locks_g2 {s t tid alt} (hg : t.pc.group = 2) : LocksStep s t tid alt := by locks_group
theorem locks_g3 {s t tid alt} (hg : t.pc.group = 3) : LocksStep s t tid alt := by locks_group
theorem locks_g4 {s t tid alt} (hg : t.pc.group = 4) : LocksStep s t tid alt := by locks_group
theorem locks_g5 {s t tid alt} (hg : t.pc.group = 5) : LocksStep s t tid alt := by locks_group
theorem locks_g6 {s t tid alt} (hg : t.pc.group = 6) : LocksStep s t tid alt := by locks_group
theorem locks_g7 {s t tid alt} (hg : t.pc.group = 7) : LocksStep s t tid alt := by locks_group

end MlModel.Queue
