import MlModel.Lemmas.OwnerEnv
/-! The controller of the composite operations (`WorkerPool.run`, `call_and_wait`) in the product LTS
(`Model/OwnerEnv.lean`): the only way out of their `try:` is the piece `finalize p`, and when that piece ends the
thread has just left the finaliser of the ownership LTS. -/
namespace MlModel.OwnerEnv
open MlModel.Owner

/-- the controller is inside the `try:` of `run` / `call_and_wait` (between two pieces, or inside a piece of the body) -/
def Ctl.inTry : Ctl → Bool
  | .rNext .. | .rClockN .. | .rSub .. | .cAcq .. | .cWait .. => true
  | _ => false

/-- the controller is in `run`'s `wait_until_alive()`, before the `try:` -/
def Ctl.preTry : Ctl → Bool
  | .rTick .. | .rCond .. | .rAlive .. | .rErr .. => true
  | _ => false

@[simp] theorem setMic_ctl (e : Env) (t : Tid) (m : Micro) : (setMic e t m).ctl = e.ctl := rfl
@[simp] theorem setMic_outs (e : Env) (t : Tid) (m : Micro) : (setMic e t m).outs = e.outs := rfl
@[simp] theorem afterScan_ctl (e : Env) (t : Tid) (w : Wid) (r) : (afterScan e t w r).ctl = e.ctl := by
  obtain ⟨o, keep⟩ := r
  cases o <;> rfl
@[simp] theorem afterScan_outs (e : Env) (t : Tid) (w : Wid) (r) : (afterScan e t w r).outs = e.outs := by
  obtain ⟨o, keep⟩ := r
  cases o <;> rfl
@[simp] theorem afterAlive_ctl (e : Env) (t : Tid) (k : K) (b : Bool) : (afterAlive e t k b).ctl = e.ctl := by
  unfold afterAlive
  split
  · split <;> rfl
  · rfl
  · rfl
@[simp] theorem afterAlive_outs (e : Env) (t : Tid) (k : K) (b : Bool) : (afterAlive e t k b).outs = e.outs := by
  unfold afterAlive
  split
  · split <;> rfl
  · rfl
  · rfl
@[simp] theorem afterAliveAC_ctl (e : Env) (t : Tid) (k : K) (b : Bool) : (afterAliveAC e t k b).ctl = e.ctl := by
  unfold afterAliveAC
  simp only
  repeat' split
  all_goals simp [setCall]
@[simp] theorem afterAliveAC_outs (e : Env) (t : Tid) (k : K) (b : Bool) : (afterAliveAC e t k b).outs = e.outs := by
  unfold afterAliveAC
  simp only
  repeat' split
  all_goals simp [setCall]
@[simp] theorem finishAlive_ctl (e : Env) (t : Tid) (w : Wid) (a b : Time) : (finishAlive e t w a b).ctl = e.ctl := by
  unfold finishAlive
  split
  · rfl
  · simp only [setMic_ctl]; split <;> rfl
@[simp] theorem finishAlive_outs (e : Env) (t : Tid) (w : Wid) (a b : Time) : (finishAlive e t w a b).outs = e.outs := by
  unfold finishAlive
  split
  · rfl
  · simp only [setMic_outs]; split <;> rfl
@[simp] theorem submitPlain_ctl (e : Env) (t : Tid) (w : Wid) : (submitPlain e t w).ctl = e.ctl := rfl
@[simp] theorem submitPlain_outs (e : Env) (t : Tid) (w : Wid) : (submitPlain e t w).outs = e.outs := rfl

/-- What `settle` does to the controller of thread `t`. -/
theorem settle_spec (e : Env) (t : Tid) (i : Bool) (r : Option Res) :
    ((settle e t i r).ctl t = e.ctl t ∧ (settle e t i r).outs t = e.outs t) ∨
    (i = true ∧ (settle e t i r).ctl t = .idle ∧
      ((∃ p o, e.ctl t = .fin p o ∧ (settle e t i r).outs t = e.outs t ++ [o]) ∨
       (∃ p, e.ctl t = .rErr p ∧ (settle e t i r).outs t = e.outs t ++ [.notStarted]) ∨
       (∃ p b w, e.ctl t = .sSub p b w ∧ (settle e t i r).outs t = e.outs t ++ [.ok]))) := by
  unfold settle
  cases i with
  | false => simp
  | true =>
    simp only [if_true]
    cases hc : e.ctl t <;> simp [hc]
    split <;> simp [hc]

/-- An `Owner` step whose environment update does not touch the controller: the controller of `t` is unchanged, or the
step ended the last piece of a composite operation (`fin` / `rErr`) and `settle` recorded its outcome. -/
theorem ostep_ctl {pw : Pid → List Wid} {x x' : X} {t : Tid} {b : Bool} {f : Env → Env}
    (h : ostep pw x t b f = some x') :
    (x'.env.ctl t = (f x.env).ctl t ∧ x'.env.outs t = (f x.env).outs t) ∨
    ((x'.base.T t).cur = none ∧ x'.env.ctl t = .idle ∧
      ((∃ p o, (f x.env).ctl t = .fin p o ∧ x'.env.outs t = (f x.env).outs t ++ [o]) ∨
       (∃ p, (f x.env).ctl t = .rErr p ∧ x'.env.outs t = (f x.env).outs t ++ [.notStarted]) ∨
       (∃ p b w, (f x.env).ctl t = .sSub p b w ∧ x'.env.outs t = (f x.env).outs t ++ [.ok]))) := by
  unfold ostep at h
  cases hs : step? pw (fun _ => b) x.base t with
  | none => simp [hs] at h
  | some c' =>
    simp [hs] at h; subst h
    rcases settle_spec (f x.env) t (c'.T t).cur.isNone (c'.T t).results.getLast? with h1 | ⟨hi, h2⟩
    · exact Or.inl h1
    · refine Or.inr ⟨?_, h2⟩
      simpa using hi

/-- **Inside a piece the controller does not move**, except that the step ending the last piece records the outcome:
for a thread inside a `Worker` method, a product step leaves its controller and its outcomes alone, or the thread has
become idle and `settle` turned `fin p o` (resp. `rErr p`) into `idle`, appending `o` (resp. `notStarted`). -/
theorem xstep_ctl_inCall {pw : Pid → List Wid} {x x' : X} {t : Tid} {cl : Call} {k : K}
    (hcur : (x.base.T t).cur = some (cl, k)) (h : xstep? pw x t = some x') :
    (x'.env.ctl t = x.env.ctl t ∧ x'.env.outs t = x.env.outs t) ∨
    ((x'.base.T t).cur = none ∧ x'.env.ctl t = .idle ∧
      ((∃ p o, x.env.ctl t = .fin p o ∧ x'.env.outs t = x.env.outs t ++ [o]) ∨
       (∃ p, x.env.ctl t = .rErr p ∧ x'.env.outs t = x.env.outs t ++ [.notStarted]) ∨
       (∃ p b w, x.env.ctl t = .sSub p b w ∧ x'.env.outs t = x.env.outs t ++ [.ok]))) := by
  unfold xstep? at h
  simp only [hcur] at h
  repeat' split at h
  all_goals first
    | (have := ostep_ctl h; simpa using this)
    | (simp only [Option.some.injEq, reduceCtorEq] at h; subst h; left; simp)
    | exact absurd h (by simp)

/-- The step that ends the finaliser of the ownership LTS leaves the thread idle with the exit marker set. -/
theorem step_relAll_exit {pw : Pid → List Wid} {u : Wid → Bool} {c c' : Cfg} {t : Tid} {cl : Call} {p : Pid}
    {rest : List Wid} (hcur : (c.T t).cur = some (cl, .relAll p rest true)) (h : step? pw u c t = some c')
    (hnone : (c'.T t).cur = none) : (c'.T t).exited = some p := by
  rcases step_cases h with ⟨op, s, hc, _, _⟩ | ⟨cl', k', W', o, hcur', _, hc'⟩
  · rw [hcur] at hc; simp at hc
  · rw [hcur] at hcur'; simp at hcur'
    obtain ⟨h1, h2⟩ := hcur'; subst h1; subst h2
    subst hc'
    simp only [upd_same] at hnone ⊢
    cases o with
    | goto pc => simp [afterOut] at hnone
    | ret b =>
      simp only [afterOut, resume] at hnone ⊢
      cases rest with
      | nil => simp [relAllLoop, Thread.apply]
      | cons w ws => simp [relAllLoop, Thread.apply] at hnone

/-- **The end of the `finally:`.**  Thread `t` is inside the last piece of a composite operation of pool `p` — the
finaliser (`Ctl.fin p o`, inside `release_all` of the ownership LTS).  If a step makes its controller idle (the operation
returns, or raises `o`), then in the ownership LTS the thread has just left `finalize p` (idle, exit marker `p`) and the
outcome `o` has been recorded. -/
theorem xstep_fin_exit {pw : Pid → List Wid} {x x' : X} {t : Tid} {cl : Call} {p : Pid} {o : Outc} {rest : List Wid}
    (hctl : x.env.ctl t = .fin p o) (hcur : (x.base.T t).cur = some (cl, .relAll p rest true))
    (h : xstep? pw x t = some x') (hidle : x'.env.ctl t = .idle) :
    (x'.base.T t).cur = none ∧ (x'.base.T t).exited = some p ∧ x'.env.outs t = x.env.outs t ++ [o] := by
  rcases xstep_ctl_inCall hcur h with ⟨h1, _⟩ | ⟨hnone, _, h2⟩
  · rw [h1, hctl] at hidle; exact absurd hidle (by simp)
  · have hout : x'.env.outs t = x.env.outs t ++ [o] := by
      rcases h2 with ⟨p', o', hc, ho⟩ | ⟨p', hc, _⟩ | ⟨p', b', w', hc, _⟩
      · rw [hctl] at hc; cases hc; exact ho
      · rw [hctl] at hc; exact absurd hc (by simp)
      · rw [hctl] at hc; exact absurd hc (by simp)
    refine ⟨hnone, ?_, hout⟩
    rcases xstep_base h with hb | ⟨u, hb⟩
    · rw [hb, hcur] at hnone; exact absurd hnone (by simp)
    · exact step_relAll_exit hcur hb hnone

@[simp] theorem setCtl_ctl (e : Env) (t : Tid) (c : Ctl) : (setCtl e t c).ctl t = c := by simp [setCtl]
@[simp] theorem setCtl_outs (e : Env) (t : Tid) (c : Ctl) : (setCtl e t c).outs = e.outs := rfl

theorem startPiece_ctl {pw : Pid → List Wid} {x x' : X} {t : Tid} {op : Op} {f : Env → Env}
    (h : startPiece pw x t op f = some x') :
    (x'.env.ctl t = (f x.env).ctl t ∧ x'.env.outs t = (f x.env).outs t) ∨
    ((x'.base.T t).cur = none ∧ x'.env.ctl t = .idle ∧
      ((∃ p o, (f x.env).ctl t = .fin p o ∧ x'.env.outs t = (f x.env).outs t ++ [o]) ∨
       (∃ p, (f x.env).ctl t = .rErr p ∧ x'.env.outs t = (f x.env).outs t ++ [.notStarted]) ∨
       (∃ p b w, (f x.env).ctl t = .sSub p b w ∧ x'.env.outs t = (f x.env).outs t ++ [.ok]))) := by
  unfold startPiece at h
  split at h
  · split at h
    · exact ostep_ctl h
    · exact absurd h (by simp)
  · exact absurd h (by simp)

/-- **Every way out of the `try:` goes through the `finally:`.**  Between two pieces, a thread whose controller is inside
the `try:` of `run` / `call_and_wait` (looking for a worker, submitting, waiting for the replies — whatever the clock says,
whatever was delivered, failed or never answered) moves to another point of the `try:`, or starts the finaliser
(`Ctl.fin`), or — when the finaliser has nothing to do and ends in the same step — records an outcome that is not
`notStarted`. -/
theorem xstep_try {pw : Pid → List Wid} {x x' : X} {t : Tid} (hcur : (x.base.T t).cur = none)
    (htry : (x.env.ctl t).inTry = true) (h : xstep? pw x t = some x') :
    (x'.env.ctl t).inTry = true ∨ (∃ p o, x'.env.ctl t = .fin p o) ∨
    (x'.env.ctl t = .idle ∧ ∃ o, o ≠ .notStarted ∧ x'.env.outs t = x.env.outs t ++ [o] ∧ (x'.base.T t).cur = none) := by
  unfold xstep? at h
  simp only [hcur] at h
  cases hc : x.env.ctl t <;> simp only [hc, Ctl.inTry, Bool.false_eq_true] at htry h
  all_goals
    simp only [cstep] at h
    repeat' split at h
    all_goals first
      | (simp only [Option.some.injEq] at h; subst h; left; simp [Ctl.inTry]; done)
      | (rcases startPiece_ctl h with ⟨h1, _⟩ | ⟨hn, hi, h2⟩
         · simp at h1
           first
             | (left; rw [h1]; rfl)
             | (left; rw [h1, hc]; rfl)
             | (right; left; exact ⟨_, _, h1⟩)
         · right; right
           refine ⟨hi, ?_⟩
           rcases h2 with ⟨p', o', hf, ho⟩ | ⟨p', hf, _⟩ | ⟨p', b', w', hf, _⟩
           · first
               | (simp [hc] at hf; done)
               | (simp at hf ho; obtain ⟨_, hf2⟩ := hf; subst hf2; refine ⟨_, ?_, ho, hn⟩; first | simp | (split <;> simp))
           · simp [hc] at hf
           · simp [hc] at hf)
      | (rcases startPiece_ctl h with ⟨h1, _⟩ | ⟨hn, hi, h2⟩
         · right; left; exact ⟨_, _, by simpa using h1⟩
         · right; right
           refine ⟨hi, ?_⟩
           rcases h2 with ⟨p', o', hf, ho⟩ | ⟨p', hf, _⟩ | ⟨p', b', w', hf, _⟩
           · simp only [setCtl_ctl, Ctl.fin.injEq] at hf
             refine ⟨o', ?_, by simpa using ho, hn⟩
             rw [← hf.2]; split <;> simp
           · simp at hf
           · simp at hf)
      | (simp at h; done)

/-- Before the `try:` (`run`'s `wait_until_alive()`): the controller stays there, enters the `try:` (`rNext`: the first
`next_idle_worker`), or the operation ends as *not started* — nothing else. -/
theorem xstep_pretry {pw : Pid → List Wid} {x x' : X} {t : Tid} (hcur : (x.base.T t).cur = none)
    (hpre : (x.env.ctl t).preTry = true) (h : xstep? pw x t = some x') :
    (x'.env.ctl t).preTry = true ∨ (x'.env.ctl t).inTry = true ∨
    (x'.env.ctl t = .idle ∧ x'.env.outs t = x.env.outs t ++ [.notStarted]) := by
  unfold xstep? at h
  simp only [hcur] at h
  cases hc : x.env.ctl t <;> simp only [hc, Ctl.preTry, Bool.false_eq_true] at hpre h
  all_goals
    simp only [cstep] at h
    repeat' split at h
    all_goals first
      | (simp only [Option.some.injEq] at h; subst h; left; simp [Ctl.preTry]; done)
      | (rcases startPiece_ctl h with ⟨h1, _⟩ | ⟨_, hi, h2⟩
         · simp at h1
           first
             | (left; rw [h1]; rfl)
             | (right; left; rw [h1]; rfl)
         · right; right
           refine ⟨hi, ?_⟩
           rcases h2 with ⟨p', o', hf, _⟩ | ⟨p', _, ho⟩ | ⟨p', b', w', hf, _⟩
           · simp at hf
           · simpa using ho
           · simp at hf)
      | (simp at h; done)

end MlModel.OwnerEnv
