import MlModel.Model.Agg.RollingHeap
import MlModel.Lemmas.AggHeap
/-!
# The heap contract (`HLaws`) of UnboundedSampler, ValueAccumulator, FixedSizeSample, MeanAndVariance
-/
namespace MlModel.Agg.Rolling.H
open MlModel.Agg.Heap MlModel.Agg.Rolling

variable {C : Type} [Inhabited C]

theorem allocs_spec (h : Heap C) (cs : List C) :
    (h.allocs cs).1.size = h.size + cs.length ∧
    (∀ r ∈ (h.allocs cs).2, h.size ≤ r ∧ r < h.size + cs.length) ∧
    (h.allocs cs).2.length = cs.length ∧
    ExtendsExcept h (h.allocs cs).1 [] := by
  induction cs generalizing h with
  | nil => exact ⟨rfl, by simp [Heap.allocs], rfl, ExtendsExcept.refl _ _⟩
  | cons c cs ih =>
    obtain ⟨h1, h2, h3, h4⟩ := ih (h.alloc c).1
    have hs : (h.alloc c).1.size = h.size + 1 := size_alloc h c
    refine ⟨?_, ?_, ?_, (extends_alloc h c []).trans h4⟩
    · show ((h.alloc c).1.allocs cs).1.size = h.size + (cs.length + 1)
      rw [h1, hs]; omega
    · intro r hr
      have hr' : r = (h.alloc c).2 ∨ r ∈ ((h.alloc c).1.allocs cs).2 := List.mem_cons.mp hr
      rcases hr' with rfl | hr'
      · rw [alloc_ref]; simp only [List.length_cons]; omega
      · have := h2 r hr'; rw [hs] at this; simp only [List.length_cons]; omega
    · show ((h.alloc c).2 :: ((h.alloc c).1.allocs cs).2).length = cs.length + 1
      simp [h3]

variable {α : Type}

theorem extendAll_spec (h : Heap (List α)) (ps : List (Ref × Ref)) :
    (extendAll h ps).size = h.size ∧ ExtendsExcept h (extendAll h ps) (ps.map (·.1)) := by
  induction ps generalizing h with
  | nil => exact ⟨rfl, ExtendsExcept.refl _ _⟩
  | cons p ps ih =>
    obtain ⟨rs, ro⟩ := p
    obtain ⟨h1, h2⟩ := ih (h.write rs (h.read rs ++ h.read ro))
    simp only [extendAll, List.map_cons]
    rw [size_write] at h1
    refine ⟨h1, ?_⟩
    have e1 : ExtendsExcept h (h.write rs (h.read rs ++ h.read ro)) (rs :: ps.map (·.1)) :=
      extends_write h rs _ (by simp)
    exact e1.trans (h2.mono (fun r hr => List.mem_cons_of_mem _ hr))

theorem concatAll_spec (h : Heap (List α)) (ps : List (Ref × Ref)) :
    h.size ≤ (concatAll h ps).1.size ∧
    (∀ r ∈ (concatAll h ps).2, h.size ≤ r ∧ r < (concatAll h ps).1.size) ∧
    ExtendsExcept h (concatAll h ps).1 [] := by
  induction ps generalizing h with
  | nil => exact ⟨Nat.le_refl _, by simp [concatAll], ExtendsExcept.refl _ _⟩
  | cons p ps ih =>
    obtain ⟨rs, ro⟩ := p
    obtain ⟨h1, h2, h3⟩ := ih (h.alloc (h.read rs ++ h.read ro)).1
    have hs : (h.alloc (h.read rs ++ h.read ro)).1.size = h.size + 1 := size_alloc h _
    rw [hs] at h1 h2
    refine ⟨?_, ?_, (extends_alloc h _ []).trans h3⟩
    · show h.size ≤ (concatAll (h.alloc (h.read rs ++ h.read ro)).1 ps).1.size
      omega
    · intro r hr
      have hr' : r = (h.alloc (h.read rs ++ h.read ro)).2 ∨
          r ∈ (concatAll (h.alloc (h.read rs ++ h.read ro)).1 ps).2 := List.mem_cons.mp hr
      show h.size ≤ r ∧ r < (concatAll (h.alloc (h.read rs ++ h.read ro)).1 ps).1.size
      rcases hr' with rfl | hr'
      · rw [alloc_ref]; omega
      · have := h2 r hr'; omega

theorem mem_zip_fst {β γ : Type} {l1 : List β} {l2 : List γ} {x : β} (h : x ∈ (l1.zip l2).map (·.1)) :
    x ∈ l1 := by
  obtain ⟨p, hp, rfl⟩ := List.mem_map.mp h
  exact (List.of_mem_zip hp).1

/-! ## UnboundedSampler -/

theorem usMerge_spec (h : Heap (List α)) (s o : USObj) (hv : ∀ r ∈ s.refs, r < h.size) :
    ExtendsExcept h (usMerge h s o).1 s.refs ∧
    (∀ r ∈ (usMerge h s o).2.refs, r ∈ s.refs ∨ h.size ≤ r) ∧
    (∀ r ∈ (usMerge h s o).2.refs, r < (usMerge h s o).1.size) := by
  unfold usMerge
  by_cases ho : o.refs.isEmpty = true
  · rw [if_pos ho]
    exact ⟨ExtendsExcept.refl _ _, fun r hr => Or.inl hr, hv⟩
  · rw [if_neg ho]
    by_cases hs : s.refs.isEmpty = true
    · rw [if_pos hs]
      obtain ⟨a1, a2, _, a4⟩ := allocs_spec h (o.refs.map fun _ => ([] : List α))
      obtain ⟨e1, e2⟩ := extendAll_spec (h.allocs (o.refs.map fun _ => ([] : List α))).1
        ((h.allocs (o.refs.map fun _ => ([] : List α))).2.zip o.refs)
      refine ⟨⟨by rw [e1, a1]; omega, fun r hr _ => ?_⟩, ?_, ?_⟩
      · rw [e2.2 r (by rw [a1]; omega) (fun hm => by have := (a2 r (mem_zip_fst hm)).1; omega)]
        exact a4.2 r hr (by simp)
      · intro r hr; exact Or.inr (a2 r hr).1
      · intro r hr; rw [e1, a1]; exact (a2 r hr).2
    · rw [if_neg hs]
      obtain ⟨e1, e2⟩ := extendAll_spec h (s.refs.zip o.refs)
      refine ⟨e2.mono (fun r hr => mem_zip_fst hr), fun r hr => Or.inl hr, fun r hr => ?_⟩
      rw [e1]; exact hv r hr

theorem usLaws (α : Type) : HLaws (usClass α) where
  make_spec h := ⟨ExtendsExcept.refl _ _, by simp [usClass, Footprint.refs],
    by simp [usClass, Valid, Footprint.refs], by simp [usClass, SelfSep]⟩
  add_spec h o cols hv _ := by
    obtain ⟨a1, a2, _, a4⟩ := allocs_spec h cols
    have hv1 : ∀ r ∈ o.refs, r < (h.allocs cols).1.size := fun r hr => by
      have : r < h.size := hv r (by simp [usClass, Footprint.refs, hr]); omega
    obtain ⟨m1, m2, m3⟩ := usMerge_spec (h.allocs cols).1 o
      ⟨(h.allocs cols).2, cols.length != 1⟩ hv1
    refine ⟨(a4.mono (by simp)).trans m1, ?_, by simp [usClass], ?_, by simp [usClass, SelfSep]⟩
    · intro r hr
      rcases m2 r hr with h1 | h1
      · exact Or.inl h1
      · exact Or.inr (by omega)
    · intro r hr
      simp only [usClass, Footprint.refs, List.append_nil] at hr
      exact m3 r hr
  merge_spec h s o hvs _ _ _ _ _ := by
    have hv1 : ∀ r ∈ s.refs, r < h.size := fun r hr => hvs r (by simp [usClass, Footprint.refs, hr])
    obtain ⟨m1, m2, m3⟩ := usMerge_spec h s o hv1
    refine ⟨m1, m2, by simp [usClass], ?_, by simp [usClass, SelfSep]⟩
    intro r hr
    simp only [usClass, Footprint.refs, List.append_nil] at hr
    exact m3 r hr

/-! ## ValueAccumulator -/

theorem vaMerge_spec (h : Heap (List α)) (s o : VAObj) (hvs : ∀ r ∈ s.refs, r < h.size)
    (hvo : ∀ r ∈ o.refs, r < h.size) :
    ExtendsExcept h (vaMerge h s o).1 [] ∧
    (∀ r ∈ (vaMerge h s o).2.refs, r ∈ s.refs ∨ r ∈ o.refs ∨ h.size ≤ r) ∧
    (∀ r ∈ (vaMerge h s o).2.refs, r < (vaMerge h s o).1.size) := by
  unfold vaMerge
  by_cases ho : o.refs.isEmpty = true
  · rw [if_pos ho]; exact ⟨ExtendsExcept.refl _ _, fun r hr => Or.inl hr, hvs⟩
  · rw [if_neg ho]
    by_cases hs : s.refs.isEmpty = true
    · rw [if_pos hs]; exact ⟨ExtendsExcept.refl _ _, fun r hr => Or.inr (Or.inl hr), hvo⟩
    · rw [if_neg hs]
      obtain ⟨c1, c2, c3⟩ := concatAll_spec h (s.refs.zip o.refs)
      exact ⟨c3, fun r hr => Or.inr (Or.inr (c2 r hr).1), fun r hr => (c2 r hr).2⟩

theorem vaLaws (α : Type) : HLaws (vaClass α) where
  make_spec h := ⟨ExtendsExcept.refl _ _, by simp [vaClass, Footprint.refs],
    by simp [vaClass, Valid, Footprint.refs], by simp [vaClass, SelfSep]⟩
  add_spec h o cols hv _ := by
    obtain ⟨a1, a2, _, a4⟩ := allocs_spec h cols
    have hv1 : ∀ r ∈ o.refs, r < (h.allocs cols).1.size := fun r hr => by
      have : r < h.size := hv r (by simp [vaClass, Footprint.refs, hr]); omega
    have hv2 : ∀ r ∈ (h.allocs cols).2, r < (h.allocs cols).1.size := fun r hr => by
      have := a2 r hr; omega
    obtain ⟨m1, m2, m3⟩ := vaMerge_spec (h.allocs cols).1 o ⟨(h.allocs cols).2⟩ hv1 hv2
    refine ⟨(a4.trans m1).mono (by simp), by simp [vaClass], ?_, ?_, by simp [vaClass, SelfSep]⟩
    · intro r hr
      rcases m2 r hr with h1 | h1 | h1
      · exact Or.inl h1
      · exact Or.inr (a2 r h1).1
      · exact Or.inr (by omega)
    · intro r hr
      simp only [vaClass, Footprint.refs, List.nil_append] at hr
      exact m3 r hr
  merge_spec h s o hvs hvo _ _ _ _ := by
    have hv1 : ∀ r ∈ s.refs, r < h.size := fun r hr => hvs r (by simp [vaClass, Footprint.refs, hr])
    have hv2 : ∀ r ∈ o.refs, r < h.size := fun r hr => hvo r (by simp [vaClass, Footprint.refs, hr])
    obtain ⟨m1, m2, m3⟩ := vaMerge_spec h s o hv1 hv2
    refine ⟨m1.mono (by simp), by simp [vaClass], m2, ?_, by simp [vaClass, SelfSep]⟩
    intro r hr
    simp only [vaClass, Footprint.refs, List.nil_append] at hr
    exact m3 r hr

/-! ## FixedSizeSample (repaired code) -/

theorem fssLaws (α : Type) (maxSize : Nat) (seed : Rng) : HLaws (fssClass α true maxSize seed) where
  make_spec h := by
    refine ⟨extends_alloc h [] [], ?_, ?_, by simp [fssClass, SelfSep]⟩
    · intro r hr
      have : r = h.size := by simpa [fssClass, Footprint.refs, alloc_ref] using hr
      omega
    · intro r hr
      have : r = h.size := by simpa [fssClass, Footprint.refs, alloc_ref] using hr
      show r < (h.alloc []).1.size
      rw [size_alloc]; omega
  add_spec h o samples hv _ := by
    have hr : o.ref < h.size := hv o.ref (by simp [fssClass, Footprint.refs])
    refine ⟨extends_write h o.ref _ (by simp [fssClass]), fun r hr => Or.inl hr, by simp [fssClass], ?_,
      by simp [fssClass, SelfSep]⟩
    intro r hr'
    simp only [fssClass, Footprint.refs, List.append_nil, List.mem_singleton] at hr'
    simp only [fssClass]
    rw [size_write, hr']; exact hr
  merge_spec h s o hvs _ _ _ _ _ := by
    have hr : s.ref < h.size := hvs s.ref (by simp [fssClass, Footprint.refs])
    simp only [fssClass, fssMerge]
    cases hm : FSS.mergeLoop s.maxSize (s.maxSize + 1) [] (h.read s.ref) s.reviewed (h.read o.ref)
        o.reviewed s.rng with
    | error e =>
      exact ⟨ExtendsExcept.refl _ _, fun r hr => Or.inl hr, by simp, fun r hr' => by
        simp only [Footprint.refs, List.append_nil, List.mem_singleton] at hr'; rw [hr']; exact hr,
        by simp [SelfSep]⟩
    | ok res =>
      obtain ⟨result, restO, restN, rng⟩ := res
      simp only [if_true]
      refine ⟨(extends_write h s.ref restO (by simp)).trans (extends_alloc _ _ _), ?_, by simp, ?_,
        by simp [SelfSep]⟩
      · intro r hr'
        simp only [List.mem_singleton] at hr'
        rw [hr', alloc_ref, size_write]; exact Or.inr (Nat.le_refl _)
      · intro r hr'
        simp only [Footprint.refs, List.append_nil, List.mem_singleton] at hr'
        show r < ((h.write s.ref restO).alloc result).1.size
        rw [hr', alloc_ref, size_alloc, size_write]; omega

/-! ## MeanAndVariance on 2-D input -/

theorem Fld.mem_refs {f : Fld} {r : Nat} : r ∈ f.refs ↔ f = .arr r := by
  cases f <;> simp [Fld.refs, eq_comm]

theorem mvMerge_spec (h : Heap (List F)) (s o : MVObj)
    (hvs : ∀ r ∈ s.count.refs ++ (s.mean.refs ++ s.var.refs), r < h.size)
    (hvo : ∀ r ∈ o.var.refs, r < h.size)
    (hsep : ∀ r ∈ s.count.refs, r ∉ o.var.refs)
    (hself : ∀ r ∈ s.count.refs, r ∉ s.mean.refs ++ s.var.refs) :
    ExtendsExcept h (mvMerge h s o).1 s.count.refs ∧
    (∀ r ∈ (mvMerge h s o).2.count.refs, r ∈ s.count.refs ∨ h.size ≤ r) ∧
    (∀ r ∈ (mvMerge h s o).2.mean.refs ++ (mvMerge h s o).2.var.refs,
        r ∈ s.mean.refs ++ s.var.refs ∨ r ∈ o.var.refs ∨ h.size ≤ r) ∧
    (∀ r ∈ (mvMerge h s o).2.count.refs ++ ((mvMerge h s o).2.mean.refs ++ (mvMerge h s o).2.var.refs),
        r < (mvMerge h s o).1.size) ∧
    (∀ r ∈ (mvMerge h s o).2.count.refs,
        r ∉ (mvMerge h s o).2.mean.refs ++ (mvMerge h s o).2.var.refs) := by
  unfold mvMerge
  by_cases hg : o.st.allVarNan = true
  · rw [if_pos hg]
    exact ⟨ExtendsExcept.refl _ _, fun r hr => Or.inl hr, fun r hr => Or.inl hr, hvs, hself⟩
  · rw [if_neg hg]
    cases hc : s.count with
    | sc =>
      by_cases hn : s.st.allVarNan = true
      · simp only [hn, if_true]
        refine ⟨?_, ?_, ?_, ?_, ?_⟩
        · exact ((extends_alloc h _ []).trans (extends_alloc _ _ [])).mono (by simp)
        · intro r hr; simp only [Fld.refs, List.mem_singleton] at hr; rw [hr, alloc_ref]; exact Or.inr (Nat.le_refl _)
        · intro r hr
          simp only [Fld.refs, List.singleton_append, List.mem_cons] at hr
          rcases hr with rfl | hr
          · rw [alloc_ref, size_alloc]; exact Or.inr (Or.inr (by omega))
          · exact Or.inr (Or.inl hr)
        · intro r hr
          simp only [Fld.refs, List.singleton_append, List.mem_cons] at hr
          rw [size_alloc, size_alloc]
          rcases hr with rfl | rfl | hr
          · rw [alloc_ref]; omega
          · rw [alloc_ref, size_alloc]; omega
          · have := hvo r hr; omega
        · intro r hr hm
          simp only [Fld.refs, List.mem_singleton] at hr
          simp only [Fld.refs, List.singleton_append, List.mem_cons] at hm
          rw [hr, alloc_ref] at hm
          rcases hm with hm | hm
          · rw [alloc_ref, size_alloc] at hm; omega
          · have := hvo _ hm; omega
      · simp only [hn, if_false, Bool.false_eq_true]
        refine ⟨?_, ?_, ?_, ?_, ?_⟩
        · exact (((extends_alloc h _ []).trans (extends_alloc _ _ [])).trans (extends_alloc _ _ [])).mono (by simp)
        · intro r hr; simp only [Fld.refs, List.mem_singleton] at hr; rw [hr, alloc_ref]; exact Or.inr (Nat.le_refl _)
        · intro r hr
          simp only [Fld.refs, List.singleton_append, List.mem_cons, List.mem_singleton] at hr
          rcases hr with rfl | rfl | hr
          · rw [alloc_ref, size_alloc]; exact Or.inr (Or.inr (by omega))
          · rw [alloc_ref, size_alloc, size_alloc]; exact Or.inr (Or.inr (by omega))
          · simp at hr
        · intro r hr
          simp only [Fld.refs, List.singleton_append, List.mem_cons, List.mem_singleton] at hr
          rw [size_alloc, size_alloc, size_alloc]
          rcases hr with rfl | rfl | rfl | hr
          · rw [alloc_ref]; omega
          · rw [alloc_ref, size_alloc]; omega
          · rw [alloc_ref, size_alloc, size_alloc]; omega
          · simp at hr
        · intro r hr hm
          simp only [Fld.refs, List.mem_singleton] at hr
          simp only [Fld.refs, List.singleton_append, List.mem_cons, List.mem_singleton] at hm
          rw [hr, alloc_ref] at hm
          rcases hm with hm | hm | hm
          · rw [alloc_ref, size_alloc] at hm; omega
          · rw [alloc_ref, size_alloc, size_alloc] at hm; omega
          · simp at hm
    | arr rc =>
      have hrc : rc < h.size := hvs rc (by simp [hc, Fld.refs])
      by_cases hn : s.st.allVarNan = true
      · simp only [hn, if_true]
        refine ⟨?_, ?_, ?_, ?_, ?_⟩
        · exact (extends_write h rc _ (by simp [Fld.refs])).trans (extends_alloc _ _ _)
        · intro r hr; exact Or.inl hr
        · intro r hr
          simp only [Fld.refs, List.singleton_append, List.mem_cons] at hr
          rcases hr with rfl | hr
          · rw [alloc_ref, size_write]; exact Or.inr (Or.inr (Nat.le_refl _))
          · exact Or.inr (Or.inl hr)
        · intro r hr
          simp only [Fld.refs, List.singleton_append, List.mem_cons] at hr
          rw [size_alloc, size_write]
          rcases hr with rfl | rfl | hr
          · omega
          · rw [alloc_ref, size_write]; omega
          · have := hvo r hr; omega
        · intro r hr hm
          simp only [Fld.refs, List.mem_singleton] at hr
          simp only [Fld.refs, List.singleton_append, List.mem_cons] at hm
          subst hr
          rcases hm with hm | hm
          · rw [alloc_ref, size_write] at hm; omega
          · exact hsep r (by simp [hc, Fld.refs]) hm
      · simp only [hn, if_false, Bool.false_eq_true]
        refine ⟨?_, ?_, ?_, ?_, ?_⟩
        · exact ((extends_write h rc _ (by simp [Fld.refs])).trans (extends_alloc _ _ _)).trans
            (extends_alloc _ _ _)
        · intro r hr; exact Or.inl hr
        · intro r hr
          simp only [Fld.refs, List.singleton_append, List.mem_cons, List.mem_singleton] at hr
          rcases hr with rfl | rfl | hr
          · rw [alloc_ref, size_write]; exact Or.inr (Or.inr (Nat.le_refl _))
          · rw [alloc_ref, size_alloc, size_write]; exact Or.inr (Or.inr (by omega))
          · simp at hr
        · intro r hr
          simp only [Fld.refs, List.singleton_append, List.mem_cons, List.mem_singleton] at hr
          rw [size_alloc, size_alloc, size_write]
          rcases hr with rfl | rfl | rfl | hr
          · omega
          · rw [alloc_ref, size_write]; omega
          · rw [alloc_ref, size_alloc, size_write]; omega
          · simp at hr
        · intro r hr hm
          simp only [Fld.refs, List.mem_singleton] at hr
          simp only [Fld.refs, List.singleton_append, List.mem_cons, List.mem_singleton] at hm
          subst hr
          rcases hm with hm | hm | hm
          · rw [alloc_ref, size_write] at hm; omega
          · rw [alloc_ref, size_alloc, size_write] at hm; omega
          · simp at hm

theorem mvNew_spec (h : Heap (List F)) (k : Nat) (rows : List (List F)) :
    ExtendsExcept h (mvNew h k rows).1 [] ∧ (mvNew h k rows).1.size = h.size + 3 ∧
    (mvNew h k rows).2.var = .arr (h.size + 2) := by
  unfold mvNew
  refine ⟨((extends_alloc h _ []).trans (extends_alloc _ _ [])).trans (extends_alloc _ _ []), ?_, ?_⟩
  · simp only [size_alloc]
  · simp only [alloc_ref, size_alloc]

theorem mvLaws (k : Nat) : HLaws (mvClass k) where
  make_spec h := ⟨ExtendsExcept.refl _ _, by simp [mvClass, Footprint.refs, Fld.refs],
    by simp [mvClass, Valid, Footprint.refs, Fld.refs], by simp [mvClass, SelfSep, Fld.refs]⟩
  add_spec h o rows hv hself := by
    obtain ⟨n1, n2, n3⟩ := mvNew_spec h k rows
    have hvs : ∀ r ∈ o.count.refs ++ (o.mean.refs ++ o.var.refs), r < (mvNew h k rows).1.size :=
      fun r hr => by have : r < h.size := hv r (by simpa [mvClass, Footprint.refs] using hr); omega
    obtain ⟨m1, m2, m3, m4, m5⟩ := mvMerge_spec (mvNew h k rows).1 o (mvNew h k rows).2 hvs
      (by intro r hr; rw [n3] at hr; simp only [Fld.refs, List.mem_singleton] at hr; omega)
      (by intro r hr hm; rw [n3] at hm; simp only [Fld.refs, List.mem_singleton] at hm
          have : r < h.size := hv r (by simp [mvClass, Footprint.refs, hr]); omega)
      (by intro r hr; exact hself r hr)
    refine ⟨(n1.mono (by simp)).trans m1, ?_, ?_, m4, m5⟩
    · intro r hr
      rcases m2 r hr with h1 | h1
      · exact Or.inl h1
      · exact Or.inr (by omega)
    · intro r hr
      rcases m3 r hr with h1 | h1 | h1
      · exact Or.inl h1
      · rw [n3] at h1; simp only [Fld.refs, List.mem_singleton] at h1; exact Or.inr (by omega)
      · exact Or.inr (by omega)
  merge_spec h s o hvs hvo hself _ hsep _ := by
    obtain ⟨m1, m2, m3, m4, m5⟩ := mvMerge_spec h s o
      (fun r hr => hvs r (by simpa [mvClass, Footprint.refs] using hr))
      (fun r hr => hvo r (by simp [mvClass, Footprint.refs, hr]))
      (fun r hr hm => hsep r hr (by simp [mvClass, Footprint.refs, hm]))
      (fun r hr => hself r hr)
    refine ⟨m1, m2, ?_, m4, m5⟩
    intro r hr
    rcases m3 r hr with h1 | h1 | h1
    · exact Or.inl h1
    · exact Or.inr (Or.inl (by simp [mvClass, h1]))
    · exact Or.inr (Or.inr h1)

end MlModel.Agg.Rolling.H
