import MlModel.Lemmas.QueueCount
/-!
# `Live2` through an embedding with many requests

View changes needed by a server that creates queues and threads on the fly and whose request threads come and go
(`Lemmas/PrefetchViews.lean`):

* `live2_fresh`         — a fresh queue whose slots are all inert;
* `live2_append_inert`  — a thread that does not touch this queue is created;
* `live2_spawn_set`     — the producer of the queue takes its `_start_enqueue` step and thereby REPLACES its inert
                          slot (the variant of `live_spawn` for a slot that already exists; also when a `maybe_stop`
                          got there first);
* `dead_view`           — final-state analysis with stoppers and without assuming a consumer: in a view in which
                          no slot can step all locks are free; if the producer is in the view no consumer is parked;
                          after the end of enqueueing no producer is parked.
-/
namespace MlModel.Queue

theorem live2_fresh (cap : Nat) (kp : Bool) (ths : List Thread) (hths : ∀ t ∈ ths, t = inertT) :
    Live2 { sh := { cap := cap, keepPartial := kp }, ths := ths } := by
  refine ⟨live_fresh cap kp ths (fun t ht => Or.inl (hths t ht)), ?_⟩
  rintro (h | ⟨t, ht, hp⟩)
  · exact absurd rfl h
  · rw [hths t ht] at hp; simp [inertT, sawEmpty] at hp

theorem getElem?_append_one {α} {l : List α} {a x : α} {u : Nat} (h : (l ++ [a])[u]? = some x) :
    l[u]? = some x ∨ (u = l.length ∧ x = a) := by
  rcases Nat.lt_or_ge u l.length with hlt | hge
  · rw [List.getElem?_append_left hlt] at h; exact Or.inl h
  · rw [List.getElem?_append_right hge] at h
    have hm := List.mem_of_getElem? h
    simp only [List.mem_singleton] at hm
    have h1 : u - l.length < 1 := (List.getElem?_eq_some_iff.mp h).1
    exact Or.inr ⟨by omega, hm⟩

/-- a thread that never touches this queue is created -/
theorem live2_append_inert {c : Cfg} (hv : Live2 c) : Live2 { sh := c.sh, ths := c.ths ++ [inertT] } := by
  obtain ⟨s, ths⟩ := c
  have hb := hv.live.base
  obtain ⟨a1, a2, a3, a4, a5, a6, a7, a8, a9, a10, a11, a12, a13, a14, a15⟩ := nocls_inert
  have hiff : ∀ Q : Thread → Bool, Q inertT = false →
      (anyT { sh := s, ths := ths ++ [inertT] } Q ↔ anyT { sh := s, ths := ths } Q) := by
    intro Q hQ
    rw [anyT_append_one s s ths inertT Q, hQ]; simp
  have hcP : ∀ Q : Thread → Bool, Q inertT = false → (ths ++ [inertT]).countP Q = ths.countP Q := by
    intro Q hQ; simp [List.countP_append, hQ]
  have hcnt : J1C { sh := s, ths := ths ++ [inertT] } := by
    intro h1 h2
    rw [hiff sawEmpty a1] at h1
    have := hv.cnt h1 h2
    show s.q.length ≤ s.deqNotified.length + (ths ++ [inertT]).countP debtD + (ths ++ [inertT]).countP credit
    rw [hcP debtD a3, hcP credit a15]; exact this
  refine ⟨⟨⟨⟨?_, ?_⟩, ?_, ?_, ?_, ?_, ?_, ?_, hb.i3⟩, j1_of_j1c hcnt, ?_, ?_, ?_⟩, hcnt⟩
  · intro u tu hu l
    rcases getElem?_append_one hu with hu | ⟨rfl, rfl⟩
    · exact hb.lock.1 u tu hu l
    · rw [a11 l]
      simp only [Bool.false_eq_true, iff_false]
      intro h
      exact Nat.lt_irrefl _ (hb.lock.2 l _ h)
  · intro l u hu
    simp only [List.length_append, List.length_singleton]
    exact Nat.lt_succ_of_lt (hb.lock.2 l u hu)
  · intro u hu
    rcases List.mem_append.mp hu with hu | hu
    · exact hb.tok u hu
    · simp only [List.mem_singleton] at hu; subst hu; exact inert_tok
  · intro u hu
    rcases List.mem_append.mp hu with hu | hu
    · exact hb.tl u hu
    · simp only [List.mem_singleton] at hu; subst hu; exact inert_tl
  · intro u hu
    rcases List.mem_append.mp hu with hu | hu
    · exact hb.xok u hu
    · simp only [List.mem_singleton] at hu; subst hu; exact inert_xok _
  · obtain ⟨n1, n2, m1, m2⟩ := hb.wait
    refine ⟨n1, n2, fun x => ?_, fun x => ?_⟩
    · show x ∈ wlD s ↔ ∃ u, (ths ++ [inertT])[x]? = some u ∧ _
      rw [m1 x]
      constructor
      · rintro ⟨u, hu, hc⟩
        have hlt : x < ths.length := (List.getElem?_eq_some_iff.mp hu).1
        exact ⟨u, by rw [List.getElem?_append_left hlt]; exact hu, hc⟩
      · rintro ⟨u, hu, hc⟩
        rcases getElem?_append_one hu with hu | ⟨-, rfl⟩
        · exact ⟨u, hu, hc⟩
        · rw [a9] at hc; cases hc
    · show x ∈ wlE s ↔ ∃ u, (ths ++ [inertT])[x]? = some u ∧ _
      rw [m2 x]
      constructor
      · rintro ⟨u, hu, hc⟩
        have hlt : x < ths.length := (List.getElem?_eq_some_iff.mp hu).1
        exact ⟨u, by rw [List.getElem?_append_left hlt]; exact hu, hc⟩
      · rintro ⟨u, hu, hc⟩
        rcases getElem?_append_one hu with hu | ⟨-, rfl⟩
        · exact ⟨u, hu, hc⟩
        · rw [a10] at hc; cases hc
  · intro hsr
    obtain ⟨e1, e2, e3⟩ := hb.cnt hsr
    exact ⟨by show s.maxEnq = _; rw [hcP isProd a8]; exact e1, by show s.start = _; rw [hcP pastS a13]; exact e2,
      by show s.stop = _; rw [hcP pastT a14]; exact e3⟩
  · intro he
    rw [hiff early a12] at he
    exact hb.early he
  · intro h1 h2
    rw [hiff sawEmpty a1] at h1
    rw [hiff debtDAll a4]
    exact hv.live.j2 h1 h2
  · intro h1
    rw [hiff sawFull a2] at h1
    rw [hiff debtE a5, hiff commitP a6]
    exact hv.live.k1 h1
  · intro h1 h2
    rw [hiff sawFull a2] at h1
    rw [hiff debtEAll a7]
    exact hv.live.k2 h1 h2

/-- **The producer of a queue without declared `max_enqueuer` takes the place of its inert slot**: its
`_start_enqueue` step (`sAcq`) is its entry into the configuration.  Either nothing has been counted yet, or a
`maybe_stop` has already been executed on the queue (then the counting of producers is void and `enqueue_done`
stays true — the repair of finding F24). -/
theorem live2_spawn_set {c : Cfg} {i : Tid} {P P' : Thread} {s' : Shared} {lbl : String} (hv : Live2 c)
    (hi : c.ths[i]? = some inertT)
    (hpc : P.pc = .sAcq) (hk : P.prog.kind = .producer) (htokP : TOK P) (hnst : stopped P = false)
    (h0 : c.sh.stopRequested = true ∨
      (c.sh.maxEnq = 0 ∧ c.sh.start = 0 ∧ c.sh.stop = 0 ∧ c.sh.exc = none ∧ c.sh.stopRequested = false))
    (hst : stepThread c.sh P i false = some (lbl, s', P')) :
    Live2 { sh := s', ths := c.ths.set i P' } := by
  obtain ⟨s, ths⟩ := c
  simp only at h0 hst hi
  show Live2 { sh := s', ths := ths.set i P' }
  have hb := hv.live.base
  have hlt : i < ths.length := (List.getElem?_eq_some_iff.mp hi).1
  unfold stepThread at hst
  simp only [hpc, acquire, Bool.false_eq_true, if_false] at hst
  split at hst
  · simp at hst
  rename_i hown
  simp only [Option.some.injEq, Prod.mk.injEq] at hst
  obtain ⟨-, rfl, rfl⟩ := hst
  have hfree : s.stOwner = none := hown
  obtain ⟨a1, a2, a3, a4, a5, a6, a7, a8, a9, a10, a11, a12, a13, a14, a15⟩ := nocls_inert
  -- the new thread
  have p1 : isProd ({ P with pc := .sRel } : Thread) = true := by simp [isProd, hk]
  have hdone : Shared.enqueueDone { s.setOwner .st (some i) with
      start := s.start + 1, maxEnq := max s.maxEnq (s.start + 1) } = s.enqueueDone := by
    rcases h0 with h0 | ⟨m0, st0, sp0, ex0, sr0⟩
    · simp [Shared.enqueueDone, Shared.setOwner, h0]
    · simp [Shared.enqueueDone, Shared.setOwner, m0, st0, sp0, ex0, sr0]
  have hsame : ∀ {s2 : Shared} (Q : Thread → Bool), Q ({ P with pc := .sRel } : Thread) = false → Q inertT = false →
      (anyT { sh := s2, ths := ths.set i { P with pc := .sRel } } Q ↔ anyT { sh := s, ths := ths } Q) := by
    intro s2 Q h1 h2
    rw [anyT_set (c := { sh := s, ths := ths }) hi, anyT_iff (c := { sh := s, ths := ths }) hi, h1, h2]
  have hcnt : J1C ⟨({ s.setOwner .st (some i) with start := s.start + 1, maxEnq := max s.maxEnq (s.start + 1) } : Shared),
      ths.set i { P with pc := .sRel }⟩ := by
    intro h1 h2
    rw [hsame sawEmpty (by simp [sawEmpty]) a1] at h1
    have h2' : s.enqueueDone = false := hdone.symm.trans h2
    have := hv.cnt (by simpa [Shared.setOwner] using h1) h2'
    show s.q.length ≤ s.deqNotified.length + (ths.set i { P with pc := .sRel }).countP debtD +
      (ths.set i { P with pc := .sRel }).countP credit
    rw [countP_set_same debtD hi a3 (by simp [debtD]), countP_set_same credit hi a15 (by simp [credit])]
    exact this
  refine ⟨⟨⟨⟨?_, ?_⟩, ?_, ?_, ?_, ?_, ?_, ?_, ?_⟩, j1_of_j1c hcnt, ?_, ?_, ?_⟩, hcnt⟩
  · intro u tu hu l
    by_cases hui : u = i
    · subst hui
      simp only [List.getElem?_set_self hlt, Option.some.injEq] at hu
      subst hu
      have hpre := hb.lock.1 u inertT hi
      cases l
      · have := hpre .deq; rw [a11] at this
        simpa [Shared.owner, Shared.setOwner, holds] using this
      · have := hpre .enq; rw [a11] at this
        simpa [Shared.owner, Shared.setOwner, holds] using this
      · simp [Shared.owner, Shared.setOwner, holds]
    · rw [List.getElem?_set_ne (Ne.symm hui)] at hu
      have := hb.lock.1 u tu hu l
      cases l
      · simpa [Shared.owner, Shared.setOwner] using this
      · simpa [Shared.owner, Shared.setOwner] using this
      · have hf : holds .st tu.pc = false := by
          cases hh : holds .st tu.pc with
          | false => rfl
          | true => rw [hh] at this; simp [Shared.owner, hfree] at this
        rw [hf]
        simp only [Shared.owner, Shared.setOwner, Option.some.injEq, Bool.false_eq_true, iff_false]
        exact fun h => hui h.symm
  · intro l u hu
    simp only [List.length_set]
    cases l
    · exact hb.lock.2 .deq u (by simpa [Shared.owner, Shared.setOwner] using hu)
    · exact hb.lock.2 .enq u (by simpa [Shared.owner, Shared.setOwner] using hu)
    · simp only [Shared.owner, Shared.setOwner, Option.some.injEq] at hu
      rw [← hu]; exact hlt
  · intro u hu
    rcases List.mem_or_eq_of_mem_set hu with hu | rfl
    · exact hb.tok u hu
    · refine ⟨?_, fun hne => htokP.res hne⟩
      intro k hk'; simp [pcKind] at hk'; rw [← hk']; exact hk
  · intro u hu
    rcases List.mem_or_eq_of_mem_set hu with hu | rfl
    · exact hb.tl u hu
    · simpa [TL, stopped] using hnst
  · intro u hu
    rcases List.mem_or_eq_of_mem_set hu with hu | rfl
    · exact XOK_mono (fun h => h) (fun h => h) (fun h => h) rfl rfl (hb.xok u hu)
    · simp [XOK, armed]
  · obtain ⟨n1, n2, m1, m2⟩ := hb.wait
    refine ⟨n1, n2, fun x => ?_, fun x => ?_⟩
    · show x ∈ wlD s ↔ ∃ u, (ths.set i _)[x]? = some u ∧ _
      rw [m1 x]
      by_cases hxi : x = i
      · subst hxi
        simp only [hi, List.getElem?_set_self hlt, Option.some.injEq]
        constructor
        · rintro ⟨u, rfl, hu⟩; rw [a9] at hu; cases hu
        · rintro ⟨u, rfl, hu⟩; simp [consWakePc] at hu
      · rw [List.getElem?_set_ne (Ne.symm hxi)]
    · show x ∈ wlE s ↔ ∃ u, (ths.set i _)[x]? = some u ∧ _
      rw [m2 x]
      by_cases hxi : x = i
      · subst hxi
        simp only [hi, List.getElem?_set_self hlt, Option.some.injEq]
        constructor
        · rintro ⟨u, rfl, hu⟩; rw [a10] at hu; cases hu
        · rintro ⟨u, rfl, hu⟩; simp [prodWakePc] at hu
      · rw [List.getElem?_set_ne (Ne.symm hxi)]
  · intro hsr'
    have hsr : s.stopRequested = false := by simpa [Shared.setOwner] using hsr'
    rcases h0 with h0 | ⟨m0, st0, sp0, ex0, sr0⟩
    · rw [hsr] at h0; cases h0
    obtain ⟨e1, e2, e3⟩ := hb.cnt hsr
    simp only [m0, st0, sp0] at e1 e2 e3
    have c1 := countP_set' isProd (b := ({ P with pc := .sRel } : Thread)) hi
    have c2 := countP_set' pastS (b := ({ P with pc := .sRel } : Thread)) hi
    have c3 := countP_set' pastT (b := ({ P with pc := .sRel } : Thread)) hi
    have q2 : pastS ({ P with pc := .sRel } : Thread) = true := by simp [pastS, p1]
    have q3 : pastT ({ P with pc := .sRel } : Thread) = false := by simp [pastT]
    simp only [a8, a13, a14, p1, q2, q3, Bool.false_eq_true, if_false, if_true, Nat.add_zero] at c1 c2 c3
    refine ⟨?_, ?_, ?_⟩
    · show max s.maxEnq (s.start + 1) = _; rw [c1, ← e1, m0, st0]; rfl
    · show s.start + 1 = _; rw [c2, ← e2, st0]
    · show (s.setOwner .st (some i)).stop = _
      rw [c3, ← e3]; simp [Shared.setOwner, sp0]
  · intro he
    rw [hsame early (by simp [early]) a12] at he
    exact hdone.trans (hb.early he)
  · intro he
    have : s.exhausted = true := by simpa [Shared.setOwner] using he
    exact hdone.trans (hb.i3 this)
  · intro h1 h2
    rw [hsame sawEmpty (by simp [sawEmpty]) a1] at h1
    rw [hsame debtDAll (by simp [debtDAll]) a4]
    exact hv.live.j2 (by simpa [Shared.setOwner] using h1) (hdone.symm.trans h2)
  · intro h1
    rw [hsame sawFull (by simp [sawFull]) a2] at h1
    rw [hsame debtE (by simp [debtE]) a5, hsame commitP (by simp [commitP]) a6]
    rcases hv.live.k1 (by simpa [Shared.setOwner] using h1) with h | h | h | h | h
    · exact Or.inl (by simpa [Shared.setOwner] using h)
    · exact Or.inr (Or.inl (by simpa [Shared.setOwner] using h))
    · exact Or.inr (Or.inr (Or.inl h))
    · exact Or.inr (Or.inr (Or.inr (Or.inl h)))
    · exact Or.inr (Or.inr (Or.inr (Or.inr (hdone.trans h))))
  · intro h1 h2
    rw [hsame sawFull (by simp [sawFull]) a2] at h1
    rw [hsame debtEAll (by simp [debtEAll]) a7]
    exact hv.live.k2 (by simpa [Shared.setOwner] using h1) (hdone.symm.trans h2)

/-! ## a view in which no slot can step -/

/-- **Final-state analysis of a view** (stoppers allowed, no consumer assumed): if the no-lost-wake-up invariant
holds and every slot is inert or cannot take its step, then all three locks are free, every slot is inert, `done`
or parked without notification, and
* if the queue's producer is in the view, NO consumer is parked;
* after the end of enqueueing (`enqueue_done`), NO producer is parked. -/
theorem dead_view {c : Cfg} (hv : Live c)
    (hdead : ∀ (tid : Tid) (t : Thread), c.ths[tid]? = some t → t = inertT ∨ (stepThread c.sh t tid false).isSome = false) :
    (∀ l, c.sh.owner l = none) ∧
    (∀ (tid : Tid) (t : Thread), c.ths[tid]? = some t →
      t = inertT ∨ t.pc = .done ∨ consWakePc t.pc = true ∨ prodWakePc t.pc = true) ∧
    (0 < c.ths.countP isProd → ∀ (tid : Tid) (t : Thread), c.ths[tid]? = some t → consWakePc t.pc = false) ∧
    (c.sh.enqueueDone = true → ∀ (tid : Tid) (t : Thread), c.ths[tid]? = some t → prodWakePc t.pc = false) := by
  have hb := hv.base
  obtain ⟨hfree, hpark⟩ := stuck_all_parked_inert hb.lock hdead
  obtain ⟨ndD, ndE, memD, memE⟩ := hb.wait
  have hpark' : ∀ (tid : Tid) (t : Thread), c.ths[tid]? = some t →
      t = inertT ∨ t.pc = .done ∨ consWakePc t.pc = true ∨ prodWakePc t.pc = true := by
    intro tid t ht
    rcases hpark tid t ht with h | h | h | h
    · exact Or.inl h
    · exact Or.inr (Or.inl h)
    · exact Or.inr (Or.inr (Or.inl h.1))
    · exact Or.inr (Or.inr (Or.inr h.1))
  have hno : ∀ P : Thread → Bool,
      (∀ t : Thread, (t = inertT ∨ t.pc = .done ∨ consWakePc t.pc = true ∨ prodWakePc t.pc = true) → P t = false) →
      ¬ anyT c P := by
    rintro P hPf ⟨t, ht, hp⟩
    obtain ⟨j, hj⟩ := List.getElem?_of_mem ht
    rw [hPf t (hpark' j t hj)] at hp; cases hp
  have hdn : c.sh.deqNotified = [] := by
    rw [List.eq_nil_iff_forall_not_mem]
    intro x hx
    obtain ⟨t, ht, hc⟩ := (memD x).mp (by unfold wlD; exact List.mem_append_left _ hx)
    rcases hpark x t ht with h | h | h | h
    · rw [h] at hc; simp [inertT, consWakePc] at hc
    · rw [h] at hc; simp [consWakePc] at hc
    · exact h.2 hx
    · have := (wake_kind t (hb.tok t (List.mem_of_getElem? ht)))
      have a := (this.1 hc).2.2; have b := (this.2 h.1).2.2
      rw [a] at b; cases b
  have hen : c.sh.enqNotified = [] := by
    rw [List.eq_nil_iff_forall_not_mem]
    intro x hx
    obtain ⟨t, ht, hc⟩ := (memE x).mp (by unfold wlE; exact List.mem_append_left _ hx)
    rcases hpark x t ht with h | h | h | h
    · rw [h] at hc; simp [inertT, prodWakePc] at hc
    · rw [h] at hc; simp [prodWakePc] at hc
    · have := (wake_kind t (hb.tok t (List.mem_of_getElem? ht)))
      have a := (this.1 h.1).2.2; have b := (this.2 hc).2.2
      rw [a] at b; cases b
    · exact h.2 hx
  have hcw : ∀ (tid : Tid) (t : Thread), c.ths[tid]? = some t → consWakePc t.pc = true → c.sh.deqWait ≠ [] := by
    intro tid t ht hc
    have : tid ∈ wlD c.sh := (memD tid).mpr ⟨t, ht, hc⟩
    unfold wlD at this; rw [hdn, List.nil_append] at this
    intro e; rw [e] at this; cases this
  have hpw : ∀ (tid : Tid) (t : Thread), c.ths[tid]? = some t → prodWakePc t.pc = true → c.sh.enqWait ≠ [] := by
    intro tid t ht hc
    have : tid ∈ wlE c.sh := (memE tid).mpr ⟨t, ht, hc⟩
    unfold wlE at this; rw [hen, List.nil_append] at this
    intro e; rw [e] at this; cases this
  have nAC := hno activeC (fun t h => (parked_class_inert t h).2.2.1)
  have nDD := hno debtD (fun t h => (parked_class_inert t h).2.2.2.1)
  have nDA := hno debtDAll (fun t h => (parked_class_inert t h).2.2.2.2.1)
  have nDE := hno debtE (fun t h => (parked_class_inert t h).2.2.2.2.2.1)
  have nCP := hno commitP (fun t h => (parked_class_inert t h).2.2.2.2.2.2.1)
  have nEA := hno debtEAll (fun t h => (parked_class_inert t h).2.2.2.2.2.2.2)
  refine ⟨hfree, hpark', ?_, ?_⟩
  · intro hpos tid t ht
    cases hcw' : consWakePc t.pc with
    | false => rfl
    | true =>
      exfalso
      have hPC := hcw tid t ht hcw'
      have hnd : ¬ c.sh.enqueueDone = true := fun hd => nDA (hv.j2 (Or.inl hPC) hd)
      have hq : c.sh.q = [] := by
        cases hqq : c.sh.q with
        | nil => rfl
        | cons a l =>
          exfalso
          rcases hv.j1 (Or.inl hPC) (by rw [hqq]; simp) with h | h | h | h
          · exact h hdn
          · exact nAC h
          · exact nDD h
          · exact hnd h
      have hnd' := hnd
      rw [enqueueDone_iff] at hnd'
      have hsr : c.sh.stopRequested = false := by
        cases h : c.sh.stopRequested with
        | false => rfl
        | true => exact absurd (Or.inr (Or.inl h)) hnd'
      obtain ⟨e1, e2, e3⟩ := hb.cnt hsr
      have hle1 : c.ths.countP pastT ≤ c.ths.countP pastS :=
        List.countP_mono_left (fun y _ h => pastT_pastS y h)
      have hle2 : c.ths.countP pastS ≤ c.ths.countP isProd :=
        List.countP_mono_left (fun y _ h => pastS_isProd y h)
      have hlt : c.ths.countP pastT < c.ths.countP isProd := by
        rcases Nat.lt_or_ge (c.ths.countP pastT) (c.ths.countP isProd) with h | h
        · exact h
        · exfalso
          apply hnd'
          right; right
          rw [e1, e2, e3]
          exact ⟨by omega, by omega, by omega⟩
      obtain ⟨a, ha, hap, hat⟩ := exists_of_countP_lt pastT isProd hlt
      obtain ⟨j, hj⟩ := List.getElem?_of_mem ha
      have hk := wake_kind a (hb.tok a ha)
      have hPP : c.sh.enqWait ≠ [] := by
        rcases hpark' j a hj with h | h | h | h
        · rw [h] at hap; simp [inertT, isProd, Prog.kind] at hap
        · exfalso
          apply hnd
          apply hb.early
          refine ⟨a, ha, ?_⟩
          unfold early; unfold pastT at hat
          rw [h] at hat ⊢
          simp only [hap, Bool.true_and] at hat ⊢
          simp [hat]
        · rw [(hk.1 h).2.2] at hap; cases hap
        · exact hpw j a hj h
      rcases hv.k1 (Or.inl hPP) with h | h | h | h | h
      · exact h hq
      · exact h hen
      · exact nDE h
      · exact nCP h
      · exact hnd h
  · intro hd tid t ht
    cases hpw' : prodWakePc t.pc with
    | false => rfl
    | true => exact absurd (hv.k2 (Or.inl (hpw tid t ht hpw')) hd) nEA

end MlModel.Queue
