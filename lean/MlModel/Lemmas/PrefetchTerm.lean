import MlModel.Lemmas.PrefetchTermDefs
import MlModel.Lemmas.PrefetchVariant
/-!
# Termination for ANY list of concurrent requests: the measure decreases on every step

`mvar_step`: in every reachable configuration of `init p progs` (`Requests progs`: client loops, healthy and failing
`init_generator`, `next_batch`, `stop_prefetch`, `shutdown` requests, further server threads — any number) EVERY step of
EVERY thread strictly decreases `multiMeasure N` in the lexicographic order `MLt`, for the bound
`N = termBound (init p progs)` = number of threads + `mHi` of the initial configuration (`c.ths.length + mHi c ≤ N` is
itself invariant: a thread start costs 2 units of `mHi`).  Hence `multi_no_infinite_run`.

The queue-level part is `Queue.psi_step` (the measure of `C04_variant` with a fixed weight bound and silent inert
slots) on the view of the queue the stepping thread works on; `Queue.Base` of that view comes from `VInv`
(Lemmas/PrefetchViews.lean); the two remaining side conditions of the queue measure — no `ignore_error`, a returning
`get_batch` holds an element / positive batch size — are the invariant `XInv` below.
-/
namespace MlModel.Prefetch
open MlModel.Queue (inertT potS PsiN RN pcKind ph)
set_option linter.unusedVariables false
set_option linter.unusedSimpArgs false

theorem set_self_of_getElem? {α : Type} {l : List α} {i : Nat} {a : α} (h : l[i]? = some a) : l.set i a = l := by
  obtain ⟨hlt, heq⟩ := List.getElem?_eq_some_iff.mp h
  subst heq
  exact List.set_getElem_self hlt

theorem viewK_set {c c' : Cfg} {tid : Queue.Tid} {t' : Thread} (hths : c'.ths = c.ths.set tid t') (k : Nat)
    (q : Queue.Shared) : viewK c' k q = { sh := q, ths := (c.ths.map (slot k)).set tid (slot k t') } := by
  unfold viewK; rw [hths, List.map_set]

theorem viewK_same {c c' : Cfg} {tid : Queue.Tid} {t t' : Thread} (hths : c'.ths = c.ths.set tid t')
    (ht : c.ths[tid]? = some t) {k : Nat} (hs : slot k t' = slot k t) (q : Queue.Shared) :
    viewK c' k q = viewK c k q := by
  rw [viewK_set hths, hs, set_self_of_getElem? (by simp [ht])]; rfl

theorem mHi_set {c c' : Cfg} {tid : Queue.Tid} {t t' : Thread} (hths : c'.ths = c.ths.set tid t')
    (ht : c.ths[tid]? = some t) : mHi c' + tRankA t = mHi c + tRankA t' := by
  unfold mHi; rw [hths]; exact Queue.sum_map_set tRankA ht

theorem tLoSum_set {c c' : Cfg} {tid : Queue.Tid} {t t' : Thread} (hths : c'.ths = c.ths.set tid t')
    (ht : c.ths[tid]? = some t) : (c'.ths.map tLo).sum + tLo t = (c.ths.map tLo).sum + tLo t' := by
  rw [hths]; exact Queue.sum_map_set tLo ht

theorem rn_of_kind {t : Queue.Thread} {kd : Queue.PKind} (hk : pcKind t.pc = some kd) (hne : kd ≠ .batch) : RN t := by
  unfold RN
  intro hm
  have hb : pcKind t.pc = some .batch := by
    cases hp : t.pc <;> simp [hp] at hm <;> rfl
  rw [hb] at hk
  exact absurd (Option.some.inj hk).symm hne

theorem tCarry_le (t : Thread) : tCarry t ≤ tCarryK := by
  unfold tCarry
  split
  · split <;> omega
  · omega

theorem mkReply_exhausted {s : Shared} {g : Nat} {q : Queue.Shared} {e : List Queue.Elem}
    (h : q.exhausted = true) : (mkReply s g q e).1.marker.isNone = false := by
  unfold mkReply
  rw [if_pos h]
  split
  · split <;> rfl
  · rfl

theorem potS_fresh (N : Nat) (x : Bool) (m : Nat) :
    potS N x { prog := .batchLoop m true, pc := .bAcq } = 19 + 2 * Queue.wE := by
  simp [potS, Queue.potT, Queue.basePot, Queue.srcLen, Queue.isProd, Queue.Prog.kind]

/-! ### `XInv` is an invariant -/

theorem xinv_init (p : Nat) (progs : List Prog) : XInv (init p progs) := by
  refine ⟨by intro k q h; simp [init] at h, ?_⟩
  intro tid t ht hpc
  exfalso
  cases tid with
  | zero =>
    simp only [init, List.getElem?_cons_zero, Option.some.injEq] at ht; subst ht; cases hpc
  | succ n =>
    simp only [init, List.getElem?_cons_succ, List.getElem?_map, Option.map_eq_some_iff] at ht
    obtain ⟨p0, -, rfl⟩ := ht
    cases hpc

theorem xinv_step {c c' : Cfg} {tid : Queue.Tid} {lbl : String} (hG : GInv c) (hX : XInv c)
    (h : step c tid = some (lbl, c')) : XInv c' := by
  obtain ⟨t, ht⟩ := step_some_thread h
  obtain ⟨t'', hself, hq⟩ := step_qeff ht h
  have hte := step_teff ht h
  have hlt : tid < c.ths.length := (List.getElem?_eq_some_iff.mp ht).1
  refine ⟨?_, ?_⟩
  · intro k qk hqk
    cases hq with
    | none hqs hnew =>
      rcases hnew k qk hqk with h0 | ⟨-, rfl⟩
      · exact hX.ig k qk h0
      · rfl
    | op q q' qt' lbl0 hq0 hst hq' hqs hnew =>
      by_cases hk : k = t.g
      · subst hk
        rw [hq'] at hqk; obtain rfl := Option.some.inj hqk
        rw [(Queue.stepThread_const lbl0 q' qt' hst).2.2]; exact hX.ig _ _ hq0
      · rcases hnew k qk hk hqk with h0 | ⟨-, rfl⟩
        · exact hX.ig k qk h0
        · rfl
  · have helper : ∀ t', c'.ths = c.ths.set tid t' → XT t' → ∀ (j : Queue.Tid) (u : Thread), c'.ths[j]? = some u → XT u := by
      intro t' hths hx j u hu
      rw [hths] at hu
      by_cases hj : j = tid
      · subst hj
        rw [List.getElem?_set_self hlt] at hu
        obtain rfl := Option.some.inj hu
        exact hx
      · rw [List.getElem?_set_ne (Ne.symm hj)] at hu
        exact hX.th j u hu
    cases hte with
    | once t' hths hr hx => exact helper t' hths hx
    | spawn t' p hths hr hx hxp =>
      intro j u hu
      rw [hths] at hu
      by_cases hjl : j < c.ths.length
      · rw [List.getElem?_append_left (by simpa using hjl)] at hu
        by_cases hj : j = tid
        · subst hj
          rw [List.getElem?_set_self hlt] at hu
          obtain rfl := Option.some.inj hu
          exact hx
        · rw [List.getElem?_set_ne (Ne.symm hj)] at hu
          exact hX.th j u hu
      · rw [List.getElem?_append_right (by simpa using Nat.le_of_not_lt hjl)] at hu
        simp only [List.length_set] at hu
        cases hd : j - c.ths.length with
        | zero =>
          rw [hd] at hu
          simp only [List.getElem?_cons_zero, Option.some.injEq] at hu
          subst hu; exact hxp
        | succ n => rw [hd] at hu; simp at hu
    | quiet t' hths hqs hprog hqt hg hpc hA hlo => exact helper t' hths (fun hh => absurd hh hpc.2.2.1)
    | reenter t' g m hths hqs hn hgen hpc hcar hpc' hg hqt hm hprog hcl =>
      refine helper t' hths (fun _ => ?_)
      rw [hqt]
      exact ⟨by simp [RN], hm⟩
    | op q q' qt' lbl0 t' hq0 hst hths hqs hn hprog hpc hk =>
      refine helper t' hths (fun hpc' => ?_)
      rcases hk with ⟨e1, e2, e3⟩ | ⟨-, e, -⟩
      · have hnb : t.pc = .nbGet := by
          rcases e3 with e3 | ⟨-, e3, -⟩
          · rw [← e3]; exact hpc'
          · rw [e3] at hpc'; cases hpc'
        have hemb := (hG.ths tid t ht).emb
        simp only [EmbOK, hnb] at hemb
        obtain ⟨q1, -, ⟨n, b0, hpr⟩, htok, -⟩ := hemb
        obtain ⟨hrn, hmax⟩ := hX.th tid t ht hnb
        have hig := hX.ig _ _ hq0
        rw [e1]
        refine ⟨Queue.stepThread_rn lbl0 q' qt' hst hig (fun _ => hmax) htok hrn, ?_⟩
        unfold Queue.Thread.batchMax at hmax ⊢
        rw [(Queue.stepThread_data lbl0 q' qt' hst htok).2.1]; exact hmax
      · rw [e] at hpc'; cases hpc'

theorem xinv_reachable {p : Nat} {progs : List Prog} {c : Cfg} (hreq : Requests progs)
    (h : Reachable (init p progs) c) : XInv c := by
  induction h with
  | init => exact xinv_init p progs
  | step hr hs ih => exact xinv_step (ginv_reachable hreq hr) ih hs

/-! ### the decrease -/

/-- the measure decreases (lexicographically) -/
def MDec (N : Nat) (c c' : Cfg) : Prop :=
  mHi c' < mHi c ∨ (mHi c' = mHi c ∧ mLo N c' < mLo N c)

/-- a thread that is in no view before and after its step leaves every view as it is -/
theorem psiAll_same {N : Nat} {c c' : Cfg} {tid : Queue.Tid} {t t' : Thread} (hths : c'.ths = c.ths.set tid t')
    (ht : c.ths[tid]? = some t) (hqs : c'.sh.qs = c.sh.qs) (hs : ∀ k, slot k t' = slot k t) :
    PsiAll N c' = PsiAll N c := by
  unfold PsiAll
  rw [hqs]
  apply sumFrom_congr
  intro k q _
  simp only [Nat.zero_add]
  rw [viewK_same hths ht (hs k)]

/-- an embedded queue-level step -/
theorem mvar_op {N : Nat} {c c' : Cfg} {tid : Queue.Tid} {t t' : Thread} {q q' : Queue.Shared}
    {qt' : Queue.Thread} {lbl0 : String}
    (hG : GInv c) (hS : SInv c) (hV : VInv c) (hX : XInv c) (hN : c.ths.length ≤ N) (ht : c.ths[tid]? = some t)
    (hq : c.sh.qs[t.g]? = some q) (hst : Queue.stepThread q t.qt tid false = some (lbl0, q', qt'))
    (hths : c'.ths = c.ths.set tid t') (hqs : c'.sh.qs = c.sh.qs.set t.g q')
    (hn : c'.sh.shutNotified = c.sh.shutNotified) (hprog : t'.prog = t.prog)
    (hpc : t.pc = .lkStop ∨ t.pc = .nbGet ∨ t.pc = .prod)
    (hk : (t'.qt = qt' ∧ t'.g = t.g ∧ (t'.pc = t.pc ∨ (t.pc = .prod ∧ t'.pc = .done ∧ qt'.pc = .done))) ∨
          (t.pc = .nbGet ∧ t'.pc = .nbTxA ∧ t'.qt = idleQt ∧ (qt'.pc = .bAcq ∨ qt'.pc = .done) ∧
            t'.reply = some (mkReply c'.sh t.g q' qt'.received).1)) : MDec N c c' := by
  have hlt : tid < c.ths.length := (List.getElem?_eq_some_iff.mp ht).1
  have hemb := (hG.ths tid t ht).emb
  have hshape := hS.shapeP tid t
  -- the embedded thread: its kind, the side conditions of the queue measure, the views it is in
  have hfacts : (∃ kd, pcKind t.qt.pc = some kd) ∧ (t.qt.prog.kind = .batch → 0 < t.qt.batchMax) ∧ RN t.qt ∧
      (∀ k, k ≠ t.g → t.prog ≠ .producer k) ∧ (t.pc ≠ .prod → ∀ k, t.prog ≠ .producer k) ∧
      (t.pc = .prod → t.prog = .producer t.g ∧ qt'.pc ≠ .sAcq) := by
    rcases hpc with hpc | hpc | hpc
    · simp only [EmbOK, hpc] at hemb
      obtain ⟨q1, -, ⟨e, hpr⟩, htok⟩ := hemb
      have hkd := (hS.shapeS tid t ht hpc).1
      have hnp : ∀ k, t.prog ≠ .producer k := by
        intro k hp
        rcases hshape k ht hp with ⟨a, -⟩ | ⟨a, -⟩ | a <;> rw [hpc] at a <;> cases a
      refine ⟨⟨_, hkd⟩, ?_, rn_of_kind hkd (by simp), fun k _ => hnp k, fun _ => hnp, ?_⟩
      · intro hb; rw [hpr] at hb; cases hb
      · intro hh; rw [hpc] at hh; cases hh
    · simp only [EmbOK, hpc] at hemb
      obtain ⟨q1, -, ⟨n, b0, hpr⟩, htok, -⟩ := hemb
      have hkd := hS.shapeC tid t ht hpc
      obtain ⟨hrn, hmax⟩ := hX.th tid t ht hpc
      have hnp : ∀ k, t.prog ≠ .producer k := by
        intro k hp
        rcases hshape k ht hp with ⟨a, -⟩ | ⟨a, -⟩ | a <;> rw [hpc] at a <;> cases a
      refine ⟨⟨_, hkd⟩, fun _ => hmax, hrn, fun k _ => hnp k, fun _ => hnp, ?_⟩
      intro hh; rw [hpc] at hh; cases hh
    · simp only [EmbOK, hpc] at hemb
      obtain ⟨q1, -, hprP, ⟨src, r, hpr⟩, htok, -⟩ := hemb
      have hkd : pcKind t.qt.pc = some .producer := by
        rcases hshape t.g ht hprP with ⟨a, -⟩ | ⟨-, -, a⟩ | a
        · rw [hpc] at a; cases a
        · exact a
        · rw [hpc] at a; cases a
      have hns : t.qt.pc ≠ .start := by intro h0; rw [h0] at hkd; cases hkd
      obtain ⟨-, -, -, p0, p1, p2⟩ := (Queue.stepThread_stop lbl0 q' qt' hst hns).2.1 hkd
      have hne' : qt'.pc ≠ .sAcq := by
        intro hh
        have h0 : ph qt'.pc = 0 := by rw [hh]; rfl
        rcases ph_cases t.qt.pc with h6 | h6 | h6
        · rw [(p0 h6).1] at h0; cases h0
        · rcases p1 h6 with h7 | ⟨h7, -⟩ <;> rw [h7] at h0 <;> cases h0
        · rw [p2 h6] at h0; cases h0
      refine ⟨⟨_, hkd⟩, ?_, rn_of_kind hkd (by simp), ?_,
        fun hh => absurd hpc hh, fun _ => ⟨hprP, hne'⟩⟩
      · intro hb; rw [hpr] at hb; cases hb
      intro k hk hp
      rw [hprP] at hp
      exact hk (Prog.producer.inj hp).symm
  obtain ⟨⟨kd, hkd⟩, hmax, hrn, hnpk, hnpo, hprodF⟩ := hfacts
  have hhi := mHi_set hths ht
  by_cases hsa : t.pc = .prod ∧ t.qt.pc = .sAcq
  · -- `_start_enqueue`: a one-time event
    left
    obtain ⟨hp, hs⟩ := hsa
    obtain ⟨-, hne'⟩ := hprodF hp
    have h1 : tRankA t = 1 := by simp [tRankA, hp, hs]
    have h2 : tRankA t' = 0 := by
      rcases hk with ⟨e1, e2, e3 | ⟨-, e3, -⟩⟩ | ⟨e0, -⟩
      · rw [hp] at e3; simp [tRankA, e3, e1, hne']
      · simp [tRankA, e3]
      · rw [hp] at e0; cases e0
    omega
  · right
    have hin : inView t.g t := by
      rcases hpc with hpc | hpc | hpc
      · exact Or.inl ⟨rfl, Or.inr hpc⟩
      · exact Or.inl ⟨rfl, Or.inl hpc⟩
      · exact Or.inr ⟨(hprodF hpc).1, fun hh => hsa ⟨hpc, hh⟩⟩
    have hold : (c.ths.map (slot t.g))[tid]? = some t.qt := by simp [ht, slot_qt hin]
    obtain ⟨hv, hto⟩ := hV.live t.g q hq
    have hstep := view_step hold hst
    have hpsi := Queue.psi_step (N := N) (c := { sh := q, ths := c.ths.map (slot t.g) }) (by simpa using hN)
      hv.live.base hold hkd hmax hrn hstep
    have hv' := Queue.live2_step hto hv hstep
    -- the views of the other queues do not change
    have hother : ∀ k, k ≠ t.g → slot k t' = slot k t := by
      intro k hkg
      have h1 : ¬ inView k t := by
        rintro (⟨a, -⟩ | ⟨a, -⟩)
        · exact hkg a.symm
        · exact hnpk k hkg a
      have h2 : ¬ inView k t' := by
        rintro (⟨a, b⟩ | ⟨a, -⟩)
        · rcases hk with ⟨-, e2, -⟩ | ⟨-, e1, -⟩
          · exact hkg (by rw [← a, e2])
          · rcases b with b | b <;> rw [e1] at b <;> cases b
        · rw [hprog] at a; exact hnpk k hkg a
      rw [slot_inert h1, slot_inert h2]
    have hsum := sumFrom_set_update (f := fun k q => PsiN N (viewK c k q)) (f' := fun k q => PsiN N (viewK c' k q))
      (i := 0) (b := q') hq (by
        intro k qk hkg _
        simp only [Nat.zero_add]
        rw [viewK_same hths ht (hother k hkg)])
    simp only [Nat.zero_add] at hsum
    have hall : PsiAll N c' + PsiN N (viewK c t.g q) = PsiAll N c + PsiN N (viewK c' t.g q') := by
      unfold PsiAll; rw [hqs]; exact hsum
    have hlo := tLoSum_set hths ht
    have htlo : tLo t = 0 := by
      rcases hpc with hpc | hpc | hpc <;> simp [tLo, hpc]
    have hview : viewK c t.g q = { sh := q, ths := c.ths.map (slot t.g) } := rfl
    rcases hk with ⟨e1, e2, e3⟩ | ⟨e0, e1, e2, e3, e4⟩
    · -- the thread stays inside its call (a prefetch thread: or ends)
      have hin' : inView t.g t' := by
        rcases hpc with hpc | hpc | hpc
        · rcases e3 with e3 | ⟨e3, -⟩
          · exact Or.inl ⟨e2, Or.inr (by rw [e3]; exact hpc)⟩
          · rw [hpc] at e3; cases e3
        · rcases e3 with e3 | ⟨e3, -⟩
          · exact Or.inl ⟨e2, Or.inl (by rw [e3]; exact hpc)⟩
          · rw [hpc] at e3; cases e3
        · exact Or.inr ⟨by rw [hprog]; exact (hprodF hpc).1, by rw [e1]; exact (hprodF hpc).2⟩
      have hview' : viewK c' t.g q' = { sh := q', ths := (c.ths.map (slot t.g)).set tid qt' } := by
        rw [viewK_set hths, slot_qt hin', e1]
      have hA : tRankA t' = tRankA t := by
        rcases e3 with e3 | ⟨e3, e4, e5⟩
        · rcases hpc with hpc | hpc | hpc
          · simp [tRankA, hpc, e3 ▸ hpc]
          · simp [tRankA, hpc, e3 ▸ hpc]
          · have hns : t.qt.pc ≠ .sAcq := fun hh => hsa ⟨hpc, hh⟩
            simp [tRankA, hpc, e3 ▸ hpc, hns, e1, (hprodF hpc).2]
        · have hns : t.qt.pc ≠ .sAcq := fun hh => hsa ⟨e3, hh⟩
          simp [tRankA, e3, e4, hns]
      have htlo' : tLo t' = 0 := by
        rcases e3 with e3 | ⟨e3, e4, e5⟩
        · rcases hpc with hpc | hpc | hpc <;> simp [tLo, e3 ▸ hpc]
        · simp [tLo, e4]
      refine ⟨by omega, ?_⟩
      rw [hview', hview] at hall
      unfold mLo
      rw [hn]
      omega
    · -- the last step of `get_batch`: the request leaves the view with its reply
      have hnin' : ¬ inView t.g t' := by
        rintro (⟨-, b⟩ | ⟨a, -⟩)
        · rcases b with b | b <;> rw [e1] at b <;> cases b
        · rw [hprog] at a; exact hnpo (by rw [e0]; simp) _ a
      have hview' : viewK c' t.g q' = { sh := q', ths := ((c.ths.map (slot t.g)).set tid qt').set tid inertT } := by
        rw [viewK_set hths, slot_inert hnin', List.set_set]
      have hset := Queue.psi_set (N := N) (s := q') (l := (c.ths.map (slot t.g)).set tid qt') (i := tid) (a := qt')
        (b := inertT) (by simp [List.getElem?_set_self, hlt])
      rw [Queue.potS_inert] at hset
      have hA : tRankA t' = tRankA t := by simp [tRankA, e0, e1]
      have htlo' : tLo t' = 2 + tCarry t' := by simp [tLo, e1]
      -- the share the client takes along is covered by what its consumer releases
      have hcar : tCarry t' ≤ 3 * potS N (Queue.xEmpty q') qt' := by
        by_cases hex : q'.exhausted = true
        · have : tCarry t' = 0 := by
            unfold tCarry
            rw [e4]
            cases t'.prog <;> simp [mkReply_exhausted hex]
          omega
        · have hb : qt'.pc = .bAcq := by
            rcases e3 with e3 | e3
            · exact e3
            · exfalso
              apply hex
              have hmem : qt' ∈ ((c.ths.map (slot t.g)).set tid qt') :=
                List.mem_of_getElem? (by simp [List.getElem?_set_self, hlt] : ((c.ths.map (slot t.g)).set tid qt')[tid]? = some qt')
              have hx := hv'.live.base.xok qt' hmem
              simp only [EmbOK, e0] at hemb
              obtain ⟨q1, -, ⟨n, b0, hpr⟩, htok, -⟩ := hemb
              have hpr' : qt'.prog = .batchLoop n b0 := by
                rw [(Queue.stepThread_data lbl0 q' qt' hst htok).2.1, hpr]
              have harm : Queue.armed qt' = true := by
                simp [Queue.armed, e3, Queue.isCons, hpr', Queue.Prog.kind]
              have hto' : q'.timeout = false := by
                rw [(Queue.stepThread_const lbl0 q' qt' hst).1]; exact hto
              rcases hx.2.2.2.2.1 harm with h1 | h1
              · exact h1
              · rw [hto'] at h1; cases h1
          have := Queue.potS_bAcq_ge (N := N) (x := Queue.xEmpty q') hb
          have := tCarry_le t'
          unfold tCarryK at *
          omega
      refine ⟨by omega, ?_⟩
      rw [hview', hview] at hall
      unfold mLo
      rw [hn]
      omega

/-- **Variant**: every step of every thread strictly decreases the measure, for every bound `N` with
`c.ths.length + mHi c ≤ N` — and keeps that bound. -/
theorem mvar_step {N : Nat} {c c' : Cfg} {tid : Queue.Tid} {lbl : String}
    (hG : GInv c) (hI : IInv c) (hS : SInv c) (hV : VInv c) (hX : XInv c)
    (hN : c.ths.length + mHi c ≤ N) (h : step c tid = some (lbl, c')) :
    c'.ths.length + mHi c' ≤ N ∧ MDec N c c' := by
  obtain ⟨t, ht⟩ := step_some_thread h
  have hlt : tid < c.ths.length := (List.getElem?_eq_some_iff.mp ht).1
  have hshape := hS.shapeP tid t
  have key : (c'.ths.length = c.ths.length ∨ (c'.ths.length = c.ths.length + 1 ∧ mHi c' < mHi c)) ∧ MDec N c c' := by
    cases step_teff ht h with
    | once t' hths hr hx =>
      have := mHi_set hths ht
      exact ⟨Or.inl (by rw [hths]; simp), Or.inl (by omega)⟩
    | spawn t' p hths hr hx hxp =>
      have h1 : mHi c' + tRankA t = mHi c + tRankA t' + tRankA p := by
        have := Queue.sum_map_set tRankA (b := t') ht
        unfold mHi
        rw [hths]
        simp only [List.map_append, List.sum_append, List.map_cons, List.map_nil, List.sum_cons, List.sum_nil]
        omega
      exact ⟨Or.inr ⟨by rw [hths]; simp, by omega⟩, Or.inl (by omega)⟩
    | quiet t' hths hqs hprog hqt hg hpc hA hlo =>
      have h1 := mHi_set hths ht
      have h2 := tLoSum_set hths ht
      have hs : ∀ k, slot k t' = slot k t := by
        intro k
        have : inView k t' ↔ inView k t := by
          unfold inView
          rw [hprog, hqt, hg]
          simp [hpc.1, hpc.2.1, hpc.2.2.1, hpc.2.2.2]
        unfold slot
        by_cases hi : inView k t
        · rw [if_pos hi, if_pos (this.mpr hi), hqt]
        · rw [if_neg hi, if_neg (fun hh => hi (this.mp hh))]
      have h3 := psiAll_same (N := N) hths ht hqs hs
      refine ⟨Or.inl (by rw [hths]; simp), Or.inr ⟨by omega, ?_⟩⟩
      unfold mLo
      omega
    | reenter t' g m hths hqs hn hgen hpc hcar hpc' hg hqt hm hprog hcl =>
      obtain ⟨gg, b, hcl⟩ := hcl
      have h1 := mHi_set hths ht
      have h2 := tLoSum_set hths ht
      have hA : tRankA t = 0 := by simp [tRankA, hpc]
      have hA' : tRankA t' = 0 := by simp [tRankA, hpc']
      have hl : tLo t = 1 + tCarryK := by simp [tLo, hpc, hcar]
      have hl' : tLo t' = 0 := by simp [tLo, hpc']
      have hglt := hI.genLt g hgen
      obtain ⟨q, hq⟩ : ∃ q, c.sh.qs[g]? = some q := ⟨c.sh.qs[g], List.getElem?_eq_getElem hglt⟩
      have hnin : ∀ k, ¬ inView k t := by
        intro k
        rintro (⟨-, b⟩ | ⟨a, -⟩)
        · rcases b with b | b <;> rw [hpc] at b <;> cases b
        · rw [hcl] at a; cases a
      have hother : ∀ k, k ≠ g → slot k t' = slot k t := by
        intro k hkg
        have h2 : ¬ inView k t' := by
          rintro (⟨a, -⟩ | ⟨a, -⟩)
          · exact hkg (by rw [← a, hg])
          · rw [hprog, hcl] at a; cases a
        rw [slot_inert (hnin k), slot_inert h2]
      have hin' : inView g t' := Or.inl ⟨hg, Or.inl hpc'⟩
      have hsum := sumFrom_update (f := fun k q => PsiN N (viewK c k q)) (f' := fun k q => PsiN N (viewK c' k q))
        (i := 0) hq (by
          intro k qk hkg _
          simp only [Nat.zero_add]
          rw [viewK_same hths ht (hother k hkg)])
      simp only [Nat.zero_add] at hsum
      have hall : PsiAll N c' + PsiN N (viewK c g q) = PsiAll N c + PsiN N (viewK c' g q) := by
        unfold PsiAll; rw [hqs]; exact hsum
      have hset := Queue.psi_set (N := N) (s := q) (l := c.ths.map (slot g)) (i := tid) (a := inertT)
        (b := t'.qt) (by simp [ht, slot_inert (hnin g)])
      rw [Queue.potS_inert, hqt, potS_fresh] at hset
      have hview' : viewK c' g q = { sh := q, ths := (c.ths.map (slot g)).set tid t'.qt } := by
        rw [viewK_set hths, slot_qt hin']
      have hview : viewK c g q = { sh := q, ths := c.ths.map (slot g) } := rfl
      refine ⟨Or.inl (by rw [hths]; simp), Or.inr ⟨by omega, ?_⟩⟩
      rw [hview', hview, hqt] at hall
      unfold mLo
      rw [hn]
      unfold tCarryK at hl
      omega
    | op q q' qt' lbl0 t' hq hst hths hqs hn hprog hpc hk =>
      exact ⟨Or.inl (by rw [hths]; simp),
        mvar_op hG hS hV hX (by omega) ht hq hst hths hqs hn hprog hpc hk⟩
  obtain ⟨hlen, hdec⟩ := key
  refine ⟨?_, hdec⟩
  have hle : mHi c' ≤ mHi c := by
    rcases hdec with h1 | ⟨h1, -⟩ <;> omega
  rcases hlen with h1 | ⟨h1, h2⟩ <;> omega

/-! ### no infinite execution -/

/-- the weight bound: threads + one-time events of the initial configuration -/
def termBound (c : Cfg) : Nat := c.ths.length + mHi c

theorem mlt_of_mdec {N : Nat} {c c' : Cfg} (h : MDec N c c') : MLt (multiMeasure N c') (multiMeasure N c) := by
  unfold multiMeasure
  rcases h with h | ⟨h1, h2⟩
  · exact Prod.Lex.left _ _ h
  · rw [h1]; exact Prod.Lex.right _ h2

theorem bound_reachable {p : Nat} {progs : List Prog} {c : Cfg} (hreq : Requests progs)
    (h : Reachable (init p progs) c) : c.ths.length + mHi c ≤ termBound (init p progs) := by
  induction h with
  | init => exact Nat.le_refl _
  | step hr hs ih =>
    exact (mvar_step (ginv_reachable hreq hr) (iinv_reachable hreq hr) (sinv_reachable hreq hr)
      (vinv_reachable hreq hr) (xinv_reachable hreq hr) ih hs).1

/-- **Variant for any number of concurrent requests**. -/
theorem mvar_reachable {p : Nat} {progs : List Prog} {c c' : Cfg} {tid : Queue.Tid} {lbl : String}
    (hreq : Requests progs) (h : Reachable (init p progs) c) (hs : step c tid = some (lbl, c')) :
    MLt (multiMeasure (termBound (init p progs)) c') (multiMeasure (termBound (init p progs)) c) :=
  mlt_of_mdec (mvar_step (ginv_reachable hreq h) (iinv_reachable hreq h) (sinv_reachable hreq h)
    (vinv_reachable hreq h) (xinv_reachable hreq h) (bound_reachable hreq h) hs).2

/-- **No infinite execution** from a reachable configuration, for any list of concurrent requests (no fairness
assumption, every scheduler). -/
theorem multi_no_infinite_run {p : Nat} {progs : List Prog} {f : Nat → Cfg} (hreq : Requests progs)
    (h0 : Reachable (init p progs) (f 0)) (hrun : IsRun f) : False := by
  have hreach : ∀ n, Reachable (init p progs) (f n) := by
    intro n
    induction n with
    | zero => exact h0
    | succ n ih =>
      obtain ⟨tid, lbl, hs⟩ := hrun n
      exact .step ih hs
  have key : ∀ m : Nat × Nat, ∀ n, multiMeasure (termBound (init p progs)) (f n) = m → False := by
    intro m
    induction m using mlt_wf.induction with
    | _ m ih =>
      intro n hn
      obtain ⟨tid, lbl, hs⟩ := hrun n
      have := mvar_reachable hreq (hreach n) hs
      rw [hn] at this
      exact ih _ this (n + 1) rfl
  exact key _ 0 rfl

end MlModel.Prefetch
