import MlModel.Lemmas.AggText
/-!
# Merge trees, permutations of the rows, and the raw (driver) functions

* the well-formed-state metric (`Metric.mergeableW`) and the raw metric the driver runs
  (`Metric.mergeable`) compute the same states (`val_sharded`);
* `DTree`: an arbitrary binary merge tree whose leaves are accumulators fed batch by batch;
* `STree`: an arbitrary binary merge tree over arbitrary well-formed states;
* both evaluate to a state whose observation is the "sum" of the leaves, which is invariant under
  permutation.
-/
namespace MlModel.Agg.Text

/-! ## raw vs well-formed -/

theorem mergeable_eq (m : Metric) :
    m.mergeable = ⟨FreqState.empty, m.batch, FreqState.merge, m.result⟩ := by
  cases m <;> rfl

theorem val_foldl_add (m : Metric) (bs : List (List Str)) (s : WFState) :
    (bs.foldl m.mergeableW.add s).1 = bs.foldl m.mergeable.add s.1 := by
  induction bs generalizing s with
  | nil => rfl
  | cons b rest ih =>
    simp only [List.foldl_cons]
    rw [ih]
    congr 1
    rw [mergeable_eq]; rfl

theorem val_feed (m : Metric) (bs : List (List Str)) :
    (m.mergeableW.feed bs).1 = m.mergeable.feed bs := by
  unfold Mergeable.feed
  rw [val_foldl_add]
  rw [mergeable_eq]; rfl

theorem val_foldl_merge (m : Metric) (ss : List WFState) (s : WFState) :
    (ss.foldl m.mergeableW.merge s).1 = (ss.map (·.1)).foldl m.mergeable.merge s.1 := by
  induction ss generalizing s with
  | nil => rfl
  | cons b rest ih =>
    simp only [List.foldl_cons, List.map_cons]
    rw [ih]
    congr 1
    rw [mergeable_eq]; rfl

theorem val_sharded (m : Metric) (shards : List (List (List Str))) :
    (m.mergeableW.sharded shards).1 = m.mergeable.sharded shards := by
  unfold Mergeable.sharded
  cases shards with
  | nil => simp only [List.map_nil, Mergeable.mergeStates]; rw [mergeable_eq]; rfl
  | cons sh rest =>
    simp only [List.map_cons, Mergeable.mergeStates]
    rw [val_foldl_merge, val_feed, List.map_map]
    congr 1
    apply List.map_congr_left
    intro b _
    exact val_feed m b

theorem result_mergeable (m : Metric) (s : FreqState Str) : m.mergeable.result s = m.result s := by
  rw [mergeable_eq]

theorem ofBatch_mergeable (m : Metric) (xs : List Str) : m.mergeable.ofBatch xs = m.batch xs := by
  rw [mergeable_eq]

/-- sharding invariance, for the raw functions -/
theorem sharded_result_raw (m : Metric) (shards : List (List (List Str))) :
    m.mergeable.result (m.mergeable.sharded shards)
      = m.result (m.batch (shards.map List.flatten).flatten) := by
  have h := (lawful m).sharded_result shards
  simp only [Metric.mergeableW] at h
  rw [result_mergeable, ← val_sharded]
  exact h

/-- `AggregateFn.__call__`: a fresh accumulator fed one batch reports the batch state's result -/
theorem call_result_raw (m : Metric) (texts : List Str) :
    m.mergeable.result (m.mergeable.add m.mergeable.empty texts) = m.result (m.batch texts) := by
  rw [mergeable_eq]
  exact m.result_congr (FreqState.wf_merge _ FreqState.wf_empty) (wf_batch m texts)
    (FreqState.merge_empty_left _ (wf_batch m texts))

/-! ## the batch state only depends on the multiset of rows -/

theorem batch_perm (m : Metric) {xs ys : List Str} (h : xs.Perm ys) : (m.batch xs).Obs (m.batch ys) := by
  cases m with
  | ngrams cfg =>
    simp only [Metric.batch]
    have hp := List.Perm.flatMap_right (textNGrams cfg) h
    refine ⟨by simp [ngramBatch, h.length_eq], fun k => ?_, fun k => ?_⟩
    · rw [mem_keys_ngramBatch, mem_keys_ngramBatch]; exact hp.mem_iff
    · rw [get_ngramBatch, get_ngramBatch]; exact hp.countP_eq _
  | patterns cfg =>
    simp only [Metric.batch]
    refine ⟨by simp [patBatch, h.length_eq], fun k => ?_, fun k => ?_⟩
    · rw [mem_keys_patBatch, mem_keys_patBatch]
      have : xs ≠ [] ↔ ys ≠ [] := by
        constructor
        · intro hx hy; subst hy; exact hx (List.Perm.eq_nil h)
        · intro hy hx; subst hx; exact hy (List.Perm.eq_nil h.symm)
      rw [this]
    · rw [get_patBatch, get_patBatch]
      unfold patSum
      congr 1
      apply List.map_congr_left
      intro p _
      by_cases hp : p = k
      · simp only [hp, if_true]; exact (h.map _).sum_nat
      · simp [hp]

/-! ## merge trees over data -/

/-- a merge tree: leaves are accumulators fed a list of batches; `node l r` is `l.merge(r)` -/
inductive DTree where
  | leaf (batches : List (List Str))
  | node (l r : DTree)

/-- all rows below a tree, left to right -/
def DTree.rows : DTree → List Str
  | .leaf bs => bs.flatten
  | .node l r => l.rows ++ r.rows

/-- run the tree with the raw (driver) functions -/
def DTree.eval (m : Metric) : DTree → FreqState Str
  | .leaf bs => m.mergeable.feed bs
  | .node l r => (l.eval m).merge (r.eval m)

theorem DTree.eval_spec (m : Metric) (t : DTree) :
    (t.eval m).WF ∧ (t.eval m).Obs (m.batch t.rows) := by
  induction t with
  | leaf bs =>
    have h := (lawful m).feed_eq bs
    simp only [DTree.eval, DTree.rows]
    rw [← val_feed]
    exact ⟨(m.mergeableW.feed bs).2, h⟩
  | node l r ihl ihr =>
    refine ⟨FreqState.wf_merge _ ihl.1, ?_⟩
    exact (FreqState.merge_congr ihr.1 (wf_batch m _) ihl.2 ihr.2).trans (batch_hom m l.rows r.rows)

/-! ## merge trees over states -/

inductive STree where
  | leaf (s : FreqState Str)
  | node (l r : STree)

def STree.leaves : STree → List (FreqState Str)
  | .leaf s => [s]
  | .node l r => l.leaves ++ r.leaves

def STree.eval : STree → FreqState Str
  | .leaf s => s
  | .node l r => l.eval.merge r.eval

/-- the observation of a merged tree is the sum of the observations of its leaves -/
theorem STree.eval_spec (t : STree) (h : ∀ s ∈ t.leaves, s.WF) :
    t.eval.WF ∧ t.eval.count = (t.leaves.map (·.count)).sum ∧
      (∀ k, k ∈ keys t.eval.counter ↔ ∃ s ∈ t.leaves, k ∈ keys s.counter) ∧
      ∀ k, get t.eval.counter k = (t.leaves.map fun s => get s.counter k).sum := by
  induction t with
  | leaf s => simp [STree.eval, STree.leaves] at h ⊢; exact h
  | node l r ihl ihr =>
    have hl := ihl fun s hs => h s (by simp [STree.leaves, hs])
    have hr := ihr fun s hs => h s (by simp [STree.leaves, hs])
    refine ⟨FreqState.wf_merge _ hl.1, ?_, fun k => ?_, fun k => ?_⟩
    · simp [STree.eval, STree.leaves, hl.2.1, hr.2.1]
    · simp only [STree.eval, STree.leaves, FreqState.mem_keys_merge, hl.2.2.1, hr.2.2.1,
        List.mem_append]
      constructor
      · rintro (⟨s, hs, hk⟩ | ⟨s, hs, hk⟩)
        · exact ⟨s, Or.inl hs, hk⟩
        · exact ⟨s, Or.inr hs, hk⟩
      · rintro ⟨s, hs | hs, hk⟩
        · exact Or.inl ⟨s, hs, hk⟩
        · exact Or.inr ⟨s, hs, hk⟩
    · simp [STree.eval, STree.leaves, FreqState.get_merge _ _ hr.1, hl.2.2.2, hr.2.2.2]

theorem STree.eval_perm (t t' : STree) (h : ∀ s ∈ t.leaves, s.WF) (hp : t.leaves.Perm t'.leaves) :
    t.eval.WF ∧ t'.eval.WF ∧ t.eval.Obs t'.eval := by
  have h' : ∀ s ∈ t'.leaves, s.WF := fun s hs => h s (hp.mem_iff.mpr hs)
  obtain ⟨w1, c1, k1, g1⟩ := t.eval_spec h
  obtain ⟨w2, c2, k2, g2⟩ := t'.eval_spec h'
  refine ⟨w1, w2, ?_, fun k => ?_, fun k => ?_⟩
  · rw [c1, c2]; exact (hp.map _).sum_nat
  · rw [k1, k2]
    constructor
    · rintro ⟨s, hs, hk⟩; exact ⟨s, hp.mem_iff.mp hs, hk⟩
    · rintro ⟨s, hs, hk⟩; exact ⟨s, hp.mem_iff.mpr hs, hk⟩
  · rw [g1, g2]; exact (hp.map _).sum_nat

end MlModel.Agg.Text

namespace MlModel.Agg.Text

/-! ## every state a program can build has unique dict keys -/

theorem pmergeInto_wf (ps : List (FreqState Str)) (i : Nat) (o : FreqState Str)
    (h : ∀ s ∈ ps, s.WF) : ∀ s ∈ pmergeInto ps i o, s.WF := by
  unfold pmergeInto
  cases hi : ps[i]? with
  | none => exact h
  | some s0 =>
    intro s hs
    rcases List.mem_or_eq_of_mem_set hs with hs | rfl
    · exact h s hs
    · exact FreqState.wf_merge o (h s0 (List.mem_of_getElem? hi))

theorem pstep_wf (m : Metric) (ps : List (FreqState Str)) (op : Op) (h : ∀ s ∈ ps, s.WF) :
    ∀ s ∈ (pstep m ps op).1, s.WF := by
  cases op with
  | make =>
    intro s hs
    simp only [pstep, List.mem_append, List.mem_singleton] at hs
    rcases hs with hs | rfl
    · exact h s hs
    · exact FreqState.wf_empty
  | add i texts => exact pmergeInto_wf _ _ _ h
  | merge i j =>
    simp only [pstep]
    cases ps[j]? with
    | none => exact h
    | some o => exact pmergeInto_wf _ _ _ h
  | result i =>
    simp only [pstep]
    cases ps[i]? <;> exact h

theorem prun_wf (m : Metric) (prog : List Op) (ps : List (FreqState Str)) (h : ∀ s ∈ ps, s.WF) :
    ∀ s ∈ (prun m ps prog).1, s.WF := by
  induction prog generalizing ps with
  | nil => exact h
  | cons op ops ih => exact ih _ (pstep_wf m ps op h)

end MlModel.Agg.Text
