import MlModel.Model.Shard
import MlModel.Lemmas.Merged
import MlModel.Lemmas.MergedChain
/-! Lemmas about the interval arithmetic of `SequenceDataSource.shard`. -/
namespace MlModel.Shard
open MlModel.Merged

/-- Lower boundary of shard `i`: `start + i * q + min i r`. -/
def bound (start q r : Int) (i : Nat) : Int := start + (i : Int) * q + min (i : Int) r

theorem bound_succ (start q r : Int) (i : Nat) :
    bound start q r (i + 1) = bound start q r i + (if (i : Int) < r then q + 1 else q) := by
  unfold bound
  have : ((i + 1 : Nat) : Int) * q = (i : Int) * q + q := by
    rw [Int.natCast_add, Int.add_mul]; simp
  rw [this]
  split <;> omega

theorem foldl_shardStep_fst (q r : Int) (hr : 0 ≤ r) (i : Nat) (s a0 : Int) (m : Nat) (hm : m ≤ i) :
    ((List.range m).foldl (shardStep q r (i : Int)) (s, a0)).1 = bound s q r m := by
  induction m with
  | zero => simp [bound]; omega
  | succ m ih =>
    rw [List.range_succ, List.foldl_append]
    simp only [List.foldl_cons, List.foldl_nil, shardStep]
    have hlt : (m : Int) < (i : Int) := by omega
    rw [if_pos hlt, ih (by omega), bound_succ]

/-- Closed form of the `for i in range(shard_index + 1)` loop for a non-negative shard index. -/
theorem shardLoop_closed (q r : Int) (hr : 0 ≤ r) (i : Nat) (s : Int) :
    shardLoop q r (i : Int) s = (bound s q r i, if (i : Int) < r then q + 1 else q) := by
  unfold shardLoop
  have : ((i : Int) + 1).toNat = i + 1 := by omega
  rw [this, List.range_succ, List.foldl_append]
  simp only [List.foldl_cons, List.foldl_nil, shardStep]
  rw [if_neg (by omega), foldl_shardStep_fst q r hr i s 0 i (Nat.le_refl _)]

/-- A negative shard index runs no iteration. -/
theorem shardLoop_neg (q r i s : Int) (h : i < 0) : shardLoop q r i s = (s, 0) := by
  unfold shardLoop
  have : (i + 1).toNat = 0 := by omega
  simp [this]

/-- Well-formed data source: `0 <= start <= end <= len(data)`. -/
def DS.WF (d : DS) : Prop := 0 ≤ d.start ∧ d.start ≤ d.end ∧ d.end ≤ (d.dataLen : Int)

instance (d : DS) : Decidable d.WF := by unfold DS.WF; exact inferInstance

/-- Size of shard `i` out of `k` over `n` elements. -/
def shardSize (n : Int) (k : Nat) (i : Nat) : Int := n / (k : Int) + (if (i : Int) < n % (k : Int) then 1 else 0)

theorem emod_nonneg' (n : Int) (k : Nat) (hk : 1 ≤ k) : 0 ≤ n % (k : Int) :=
  Int.emod_nonneg n (by omega)

theorem shardCore_start (d : DS) (i k : Nat) (hk : 1 ≤ k) (off : Int) :
    (d.shardCore i k off).start
      = bound d.start ((d.end - d.start) / (k : Int)) ((d.end - d.start) % (k : Int)) i + off := by
  simp [DS.shardCore, shardLoop_closed _ _ (emod_nonneg' _ k hk)]

theorem shardCore_end (d : DS) (i k : Nat) (hk : 1 ≤ k) (off : Int) :
    (d.shardCore i k off).end
      = bound d.start ((d.end - d.start) / (k : Int)) ((d.end - d.start) % (k : Int)) (i + 1) := by
  simp only [DS.shardCore, shardLoop_closed _ _ (emod_nonneg' _ k hk), DS.end, Option.getD_some, bound_succ]

theorem shardCore_dataLen (d : DS) (i k off : Int) : (d.shardCore i k off).dataLen = d.dataLen := rfl

theorem shardCore_rawLen (d : DS) (i k : Nat) (hk : 1 ≤ k) (off : Int) :
    (d.shardCore i k off).rawLen = shardSize (d.end - d.start) k i - off := by
  unfold DS.rawLen
  rw [shardCore_start d i k hk, shardCore_end d i k hk, bound_succ]
  unfold shardSize
  split <;> omega

/-- `bound` at `k` is the end of the interval: `k * q + r = n`. -/
theorem bound_last (s n : Int) (k : Nat) (hk : 1 ≤ k) :
    bound s (n / (k : Int)) (n % (k : Int)) k = s + n := by
  unfold bound
  have h1 : n % (k : Int) < (k : Int) := Int.emod_lt_of_pos n (by omega)
  have h2 : (k : Int) * (n / (k : Int)) + n % (k : Int) = n := Int.mul_ediv_add_emod n k
  have h3 := Int.mul_comm (k : Int) (n / (k : Int))
  have h4 : 0 ≤ n % (k : Int) := Int.emod_nonneg n (by omega)
  omega

theorem bound_zero (s q r : Int) (hr : 0 ≤ r) : bound s q r 0 = s := by
  unfold bound; simp; omega

theorem bound_mono (s q r : Int) (hq : 0 ≤ q) (i : Nat) : bound s q r i ≤ bound s q r (i + 1) := by
  rw [bound_succ]; split <;> omega

theorem bound_mono_le (s q r : Int) (hq : 0 ≤ q) (i j : Nat) (h : i ≤ j) : bound s q r i ≤ bound s q r j := by
  induction j with
  | zero => have : i = 0 := by omega
            subst this; exact Int.le_refl _
  | succ j ih =>
    by_cases hij : i = j + 1
    · subst hij; exact Int.le_refl _
    · exact Int.le_trans (ih (by omega)) (bound_mono s q r hq j)


/-! ### Elements -/

theorem pySlice_nat {α : Type} (xs : List α) (a b : Int) (ha : 0 ≤ a) (hab : a ≤ b)
    (hb : b ≤ (xs.length : Int)) :
    pySlice xs (some a) (some b) = (xs.drop a.toNat).take (b.toNat - a.toNat) := by
  unfold pySlice clampBound
  have h1 : ¬ a < 0 := by omega
  have h2 : ¬ b < 0 := by omega
  simp only [h1, h2, if_false]
  have h3 : min a.toNat xs.length = a.toNat := by omega
  have h4 : min b.toNat xs.length = b.toNat := by omega
  rw [h3, h4]

theorem take_drop_append {α : Type} (xs : List α) (a m c : Nat) (h1 : a ≤ m) (h2 : m ≤ c) :
    (xs.drop a).take (m - a) ++ (xs.drop m).take (c - m) = (xs.drop a).take (c - a) := by
  have : c - a = (m - a) + (c - m) := by omega
  rw [this, List.take_add, List.drop_drop]
  congr 3
  omega

/-- Consecutive slices along a monotone boundary sequence concatenate to the enclosing slice. -/
theorem flatMap_slices {α : Type} (xs : List α) (b : Nat → Nat) (k : Nat)
    (hmono : ∀ i, i < k → b i ≤ b (i + 1)) :
    (List.range k).flatMap (fun i => (xs.drop (b i)).take (b (i + 1) - b i))
      = (xs.drop (b 0)).take (b k - b 0) := by
  induction k with
  | zero => simp
  | succ k ih =>
    have hle : b 0 ≤ b k := by
      clear ih
      induction k with
      | zero => exact Nat.le_refl _
      | succ j ihj =>
        exact Nat.le_trans (ihj (fun i hi => hmono i (by omega))) (hmono j (by omega))
    rw [List.range_succ, List.flatMap_append, ih (fun i hi => hmono i (by omega))]
    simp only [List.flatMap_cons, List.flatMap_nil, List.append_nil]
    exact take_drop_append xs (b 0) (b k) (b (k + 1)) hle (hmono k (by omega))

/-- The facts about the boundaries of the `k` shards of a well-formed data source. -/
theorem bounds_facts (d : DS) (hwf : d.WF) (k : Nat) (hk : 1 ≤ k) :
    0 ≤ (d.end - d.start) / (k : Int) ∧ 0 ≤ (d.end - d.start) % (k : Int) ∧
    bound d.start ((d.end - d.start) / (k : Int)) ((d.end - d.start) % (k : Int)) 0 = d.start ∧
    bound d.start ((d.end - d.start) / (k : Int)) ((d.end - d.start) % (k : Int)) k = d.end ∧
    (∀ i : Nat, bound d.start ((d.end - d.start) / (k : Int)) ((d.end - d.start) % (k : Int)) i
      ≤ bound d.start ((d.end - d.start) / (k : Int)) ((d.end - d.start) % (k : Int)) (i + 1)) ∧
    (∀ i : Nat, d.start ≤ bound d.start ((d.end - d.start) / (k : Int)) ((d.end - d.start) % (k : Int)) i) ∧
    (∀ i : Nat, i ≤ k →
      bound d.start ((d.end - d.start) / (k : Int)) ((d.end - d.start) % (k : Int)) i ≤ d.end) := by
  obtain ⟨h0, h1, h2⟩ := hwf
  have hq : 0 ≤ (d.end - d.start) / (k : Int) := Int.ediv_nonneg (by omega) (by omega)
  have hr : 0 ≤ (d.end - d.start) % (k : Int) := emod_nonneg' _ k hk
  have hz := bound_zero d.start ((d.end - d.start) / (k : Int)) _ hr
  have hl := bound_last d.start (d.end - d.start) k hk
  refine ⟨hq, hr, hz, by rw [hl]; omega, fun i => bound_mono _ _ _ hq i, fun i => ?_, fun i hi => ?_⟩
  · have := bound_mono_le d.start _ ((d.end - d.start) % (k : Int)) hq 0 i (Nat.zero_le _)
    omega
  · have := bound_mono_le d.start _ ((d.end - d.start) % (k : Int)) hq i k hi
    omega

theorem shardCore_wf (d : DS) (hwf : d.WF) (i k : Nat) (hk : 1 ≤ k) (hi : i < k) (off : Int)
    (hoff : 0 ≤ off) (hoff2 : off ≤ shardSize (d.end - d.start) k i) : (d.shardCore i k off).WF := by
  obtain ⟨hq, hr, hz, hl, hmono, hge, hle⟩ := bounds_facts d hwf k hk
  have hlen := shardCore_rawLen d i k hk off
  unfold DS.rawLen at hlen
  unfold DS.WF
  rw [shardCore_dataLen]
  have hs := shardCore_start d i k hk off
  have he := shardCore_end d i k hk off
  have h1 := hge i
  have h2 := hle (i + 1) (by omega)
  obtain ⟨_, _, h5⟩ := hwf
  refine ⟨by omega, by omega, by omega⟩

theorem elems_wf {α : Type} (d : DS) (hwf : d.WF) (xs : List α) (hlen : xs.length = d.dataLen) :
    d.elems xs = (xs.drop d.start.toNat).take (d.end.toNat - d.start.toNat) := by
  obtain ⟨h0, h1, h2⟩ := hwf
  exact pySlice_nat xs d.start d.end h0 h1 (by omega)

/-- Concatenating the `k` shards (offset 0) of a well-formed data source gives its elements. -/
theorem partition_elems {α : Type} (d : DS) (hwf : d.WF) (xs : List α) (hlen : xs.length = d.dataLen)
    (k : Nat) (hk : 1 ≤ k) :
    (List.range k).flatMap (fun (i : Nat) => (d.shardCore (i : Int) (k : Int) 0).elems xs) = d.elems xs := by
  obtain ⟨hq, hr, hz, hl, hmono, hge, hle⟩ := bounds_facts d hwf k hk
  have hwf' := hwf
  obtain ⟨h0, h1, h2⟩ := hwf
  let b : Nat → Nat := fun i =>
    (bound d.start ((d.end - d.start) / (k : Int)) ((d.end - d.start) % (k : Int)) i).toNat
  have hb : ∀ i, i < k → (d.shardCore (i : Int) (k : Int) 0).elems xs
      = (xs.drop (b i)).take (b (i + 1) - b i) := by
    intro i hi
    have hs := shardCore_start d i k hk 0
    have he := shardCore_end d i k hk 0
    unfold DS.elems
    rw [hs, he, Int.add_zero]
    exact pySlice_nat xs _ _ (by have := hge i; omega) (hmono i) (by have := hle (i + 1) (by omega); omega)
  have hcongr : (List.range k).flatMap (fun (i : Nat) => (d.shardCore (i : Int) (k : Int) 0).elems xs)
      = (List.range k).flatMap (fun i => (xs.drop (b i)).take (b (i + 1) - b i)) := by
    apply MlModel.Merged.flatMap_congr'
    intro i hi
    exact hb i (by simpa using hi)
  rw [hcongr, flatMap_slices xs b k (fun i _ => by
    show (bound _ _ _ i).toNat ≤ (bound _ _ _ (i + 1)).toNat
    have := hmono i
    omega)]
  rw [elems_wf d hwf' xs hlen]
  show (xs.drop (bound _ _ _ 0).toNat).take ((bound _ _ _ k).toNat - (bound _ _ _ 0).toNat) = _
  rw [hz, hl]


theorem shardSize_nonneg (n : Int) (hn : 0 ≤ n) (k i : Nat) (hk : 1 ≤ k) : 0 ≤ shardSize n k i := by
  unfold shardSize
  have : 0 ≤ n / (k : Int) := Int.ediv_nonneg hn (by omega)
  split <;> omega

theorem len_wf {α : Type} (d : DS) (hwf : d.WF) (xs : List α) (hlen : xs.length = d.dataLen) :
    d.len = .ok (d.elems xs).length := by
  rw [elems_wf d hwf xs hlen]
  obtain ⟨h0, h1, h2⟩ := hwf
  unfold DS.len DS.rawLen
  rw [if_neg (by omega)]
  congr 1
  simp only [List.length_take, List.length_drop]
  omega

theorem offset_elems {α : Type} (d : DS) (hwf : d.WF) (xs : List α) (hlen : xs.length = d.dataLen)
    (i k : Nat) (hk : 1 ≤ k) (hi : i < k) (off : Nat)
    (hoff : (off : Int) ≤ shardSize (d.end - d.start) k i) :
    (d.shardCore i k off).elems xs = ((d.shardCore i k 0).elems xs).drop off := by
  have hnn : 0 ≤ d.end - d.start := by obtain ⟨_, h1, _⟩ := hwf; omega
  have w0 := shardCore_wf d hwf i k hk hi 0 (Int.le_refl _) (shardSize_nonneg _ hnn k i hk)
  have w1 := shardCore_wf d hwf i k hk hi off (by omega) hoff
  rw [elems_wf _ w0 xs (by rw [shardCore_dataLen]; exact hlen),
      elems_wf _ w1 xs (by rw [shardCore_dataLen]; exact hlen)]
  have hs0 := shardCore_start d i k hk 0
  have hs1 := shardCore_start d i k hk off
  have he0 := shardCore_end d i k hk 0
  have he1 := shardCore_end d i k hk off
  obtain ⟨a0, _, _⟩ := w0
  rw [List.drop_take, List.drop_drop]
  have e1 : (d.shardCore i k off).start.toNat = (d.shardCore i k 0).start.toNat + off := by omega
  have e2 : (d.shardCore i k off).end = (d.shardCore i k 0).end := by rw [he0, he1]
  rw [e1, e2]
  congr 1
  omega

/-- Shards of shards: the leaves, in order, concatenate to the source and are well-formed. -/
theorem allShards_spec {α : Type} (ks : List Nat) (hks : ∀ k ∈ ks, 1 ≤ k) (d : DS) (hwf : d.WF)
    (xs : List α) (hlen : xs.length = d.dataLen) :
    (d.allShards ks).flatMap (fun s => s.elems xs) = d.elems xs ∧
    ∀ s ∈ d.allShards ks, s.WF ∧ s.dataLen = d.dataLen := by
  induction ks generalizing d with
  | nil => simp [DS.allShards, hwf]
  | cons k ks ih =>
    have hk : 1 ≤ k := hks k (by simp)
    have hks' : ∀ k' ∈ ks, 1 ≤ k' := fun k' h => hks k' (by simp [h])
    have hnn : 0 ≤ d.end - d.start := by obtain ⟨_, h1, _⟩ := hwf; omega
    have hchild : ∀ i, i < k → (d.shardCore (i : Int) (k : Int) 0).WF := fun i hi =>
      shardCore_wf d hwf i k hk hi 0 (Int.le_refl _) (shardSize_nonneg _ hnn k i hk)
    constructor
    · unfold DS.allShards
      rw [List.flatMap_assoc]
      rw [← partition_elems d hwf xs hlen k hk]
      apply MlModel.Merged.flatMap_congr'
      intro i hi
      exact (ih hks' _ (hchild i (by simpa using hi)) (by rw [shardCore_dataLen]; exact hlen)).1
    · intro s hs
      unfold DS.allShards at hs
      simp only [List.mem_flatMap, List.mem_range] at hs
      obtain ⟨i, hi, hs⟩ := hs
      have := (ih hks' _ (hchild i hi) (by rw [shardCore_dataLen]; exact hlen)).2 s hs
      exact ⟨this.1, by rw [this.2, shardCore_dataLen]⟩

/-! ### `from_state` -/

/-- Same interval over the same data. -/
def SameInterval (d d' : DS) : Prop := d'.start = d.start ∧ d'.end = d.end ∧ d'.dataLen = d.dataLen

theorem shard_sameInterval (d d' : DS) (h : SameInterval d d') (i k off : Int) (s : DS)
    (hs : d.shard i k off = .ok s) :
    ∃ s', d'.shard i k off = .ok s' ∧ SameInterval s s' := by
  obtain ⟨h1, h2, h3⟩ := h
  unfold DS.shard at hs ⊢
  split at hs
  · simp at hs
  · rename_i hk
    simp only [Except.ok.injEq] at hs
    subst hs
    rw [if_neg hk]
    refine ⟨_, rfl, ?_⟩
    simp only [SameInterval, DS.shardCore, DS.end, Option.getD_some]
    simp only [DS.end] at h2
    rw [h1, h2, h3]
    exact ⟨rfl, rfl, rfl⟩

theorem fromState_root (n : Nat) : ∃ s', fromState n (DS.root n).state = .ok s' ∧ SameInterval (DS.root n) s' := by
  refine ⟨_, rfl, ?_⟩
  simp [SameInterval, DS.root, DS.shardCore, DS.end, shardLoop, shardStep, List.range_succ]

theorem roundtrip_chain (n : Nat) (chain : List (Int × Int × Int)) (d d0 s : DS)
    (h0 : fromState n d.state = .ok d0) (hi : SameInterval d d0) (hs : d.shardChain chain = .ok s) :
    ∃ s', fromState n s.state = .ok s' ∧ SameInterval s s' := by
  induction chain generalizing d d0 with
  | nil =>
    simp only [DS.shardChain, Except.ok.injEq] at hs
    subst hs
    exact ⟨d0, h0, hi⟩
  | cons c rest ih =>
    obtain ⟨i, k, off⟩ := c
    simp only [DS.shardChain] at hs
    cases h1 : d.shard i k off with
    | error e => rw [h1] at hs; simp [bind, Except.bind] at hs
    | ok s1 =>
      rw [h1] at hs
      simp only [bind, Except.bind] at hs
      obtain ⟨s1', hs1', hi1⟩ := shard_sameInterval d d0 hi i k off s1 h1
      have hstate : s1.state = .child i k off d.state := by
        unfold DS.shard at h1
        split at h1
        · simp at h1
        · simp only [Except.ok.injEq] at h1
          subst h1; rfl
      have hfs : fromState n s1.state = .ok s1' := by
        rw [hstate]
        simp only [fromState, h0, bind, Except.bind]
        exact hs1'
      exact ih s1 s1' hfs hi1 hs

end MlModel.Shard
