import MlModel.Lemmas.Merged
import MlModel.Lemmas.RangeIter
/-! The chain of range iterators built by `MergedSequences.slice` over failure-prone parts. -/
namespace MlModel.Merged

theorem firstErr_ok {α : Type} (xs : List (Except ErrKind α)) (l : List α) (h : firstErr xs = .ok l) :
    xs = l.map .ok := by
  induction xs generalizing l with
  | nil => simp [firstErr] at h; simp [← h]
  | cons x xs ih =>
    cases x with
    | error e => simp [firstErr] at h
    | ok a =>
      simp only [firstErr] at h
      cases hr : firstErr xs with
      | error e => rw [hr] at h; simp [Except.map] at h
      | ok l' =>
        rw [hr] at h
        simp only [Except.map, Except.ok.injEq] at h
        subst h
        simp [ih l' hr]

theorem srcOf_get_lt {α : Type} (outs : List (Except ErrKind α)) (sl : Bool) (j : Nat) (h : j < outs.length) :
    (srcOf outs sl).get j = outs[j] := by
  simp [srcOf, List.getElem?_eq_getElem h]

theorem range'_map_srcOf {α : Type} (outs : List (Except ErrKind α)) (sl : Bool) (i n : Nat)
    (h : i + n ≤ outs.length) :
    (List.range' i n).map (srcOf outs sl).get = (outs.drop i).take n := by
  apply List.ext_getElem
  · simp; omega
  · intro k h1 h2
    simp only [List.length_map, List.length_range'] at h1
    simp only [List.getElem_map, List.getElem_range', Nat.one_mul, List.getElem_take, List.getElem_drop]
    exact srcOf_get_lt outs sl (i + k) (by omega)

theorem srcOf_sliceOK {α : Type} (outs : List (Except ErrKind α)) (sl : Bool) :
    SliceOK (srcOf outs sl) outs.length := by
  intro i j l hj hsl
  by_cases hij : i ≤ j
  · rw [range'_map_srcOf outs sl i (j - i) (by omega)]
    simp only [srcOf] at hsl
    cases sl with
    | false => simp at hsl
    | true => simpa using firstErr_ok _ l hsl
  · have hz : j - i = 0 := by omega
    simp only [srcOf] at hsl
    cases sl with
    | false => simp at hsl
    | true =>
      simp only [if_true, hz, List.take_zero, firstErr, Except.ok.injEq] at hsl
      subst hsl
      simp [hz]

theorem pending_srcOf {α : Type} (outs : List (Except ErrKind α)) (sl : Bool) (stop start : Nat)
    (h : stop ≤ outs.length) :
    pending (srcOf outs sl) stop start = ((outs.drop start).take (stop - start)).map ofExcept := by
  unfold pending
  by_cases hs : start ≤ stop
  · rw [← range'_map_srcOf outs sl start (stop - start) (by omega)]
    simp
  · have : stop - start = 0 := by omega
    simp [this]

/-- Every range produced by a normalised slice stops within its part. -/
theorem rangesBetween_stop_le {α : Type} (parts : List (List α)) (s e : Nat)
    (he : e ≤ parts.flatten.length) (r : Rng) (hr : r ∈ rangesBetween (parts.map List.length) s e) :
    r.stop.getD (parts.getD r.seq []).length ≤ (parts.getD r.seq []).length := by
  cases hst : r.stop with
  | none => simp
  | some k =>
    simp only [Option.getD_some]
    -- a `some` stop can only be the stop location of `e`
    have hkey : (locate (parts.map List.length) e) = (r.seq, some k) := by
      unfold rangesBetween at hr
      simp only [List.length_map] at hr
      split at hr
      · simp at hr
      · split at hr
        · rename_i _ heq
          simp only [List.mem_singleton] at hr
          subst hr
          simp only at hst
          exact Prod.ext heq.symm hst
        · simp only [List.mem_cons, List.mem_append, List.mem_map] at hr
          rcases hr with (hr | ⟨x, _, hr⟩) | hr
          · subst hr; simp at hst
          · subst hr; simp at hst
          · split at hr
            · rename_i k' hk'
              simp only [List.mem_singleton] at hr
              subst hr
              simp only [Option.some.injEq] at hst
              subst hst
              exact Prod.ext rfl hk'
            · simp at hr
    by_cases hlt : e < parts.flatten.length
    · obtain ⟨q, j2, h1, hq, h2, _⟩ := locate_lt parts e hlt
      rw [h1] at hkey
      simp only [Prod.mk.injEq, Option.some.injEq] at hkey
      obtain ⟨hq', hj'⟩ := hkey
      subst hq' hj'
      simp [List.getD_eq_getElem?_getD, List.getElem?_eq_getElem hq]
      omega
    · rw [locate_ge parts e (by omega)] at hkey
      simp at hkey


theorem flatMap_congr' {β γ : Type} (l : List β) (f g : β → List γ) (h : ∀ x ∈ l, f x = g x) :
    l.flatMap f = l.flatMap g := by
  induction l with
  | nil => rfl
  | cons x xs ih =>
    simp only [List.flatMap_cons]
    rw [h x (by simp), ih (fun y hy => h y (by simp [hy]))]

theorem getD_fst {α : Type} (parts : List (List (Except ErrKind α) × Bool)) (k : Nat) :
    (parts.getD k ([], true)).1 = (parts.map (·.1)).getD k [] := by
  simp only [List.getD_eq_getElem?_getD, List.getElem?_map]
  cases parts[k]? <;> simp

theorem sliceRanges_stop_le {α : Type} (parts : List (List α)) (a b : Option Int) (r : Rng)
    (hr : r ∈ sliceRanges (parts.map List.length) a b) :
    r.stop.getD (parts.getD r.seq []).length ≤ (parts.getD r.seq []).length := by
  unfold sliceRanges sliceIndices at hr
  rw [total_map_length] at hr
  simp only [] at hr
  split at hr
  · simp at hr
  · exact rangesBetween_stop_le parts _ _
      (clampBound_le parts.flatten.length parts.flatten.length b (Nat.le_refl _)) r hr

/-- The chain built by `MergedSequences(parts, max_batch)[a:b]` is well-formed and what it still has
to deliver is the Python slice of the concatenated per-index outcomes. -/
theorem mkChain_spec {α : Type} (parts : List (List (Except ErrKind α) × Bool)) (maxBatch : Nat)
    (a b : Option Int) :
    ChainOK (mkChain parts maxBatch a b) ∧
    chainRemaining (mkChain parts maxBatch a b)
      = (pySlice (parts.map (·.1)).flatten a b).map ofExcept := by
  have hlens : parts.map (·.1.length) = (parts.map (·.1)).map List.length := by simp
  constructor
  · intro it hit
    unfold mkChain at hit
    simp only [List.mem_map] at hit
    obtain ⟨r, hr, rfl⟩ := hit
    rw [hlens] at hr
    have hle := sliceRanges_stop_le (parts.map (·.1)) a b r hr
    rw [← getD_fst] at hle
    refine ⟨(parts.getD r.seq ([], true)).1.length, srcOf_sliceOK _ _, hle, ?_⟩
    simp only []
    split <;> omega
  · rw [← sliceElems_eq_pySlice]
    unfold mkChain chainRemaining sliceElems
    rw [hlens, List.flatMap_map, List.map_flatMap]
    apply flatMap_congr'
    intro r hr
    have hle := sliceRanges_stop_le (parts.map (·.1)) a b r hr
    rw [← getD_fst] at hle
    simp only [remaining, List.map_nil, List.nil_append]
    rw [pending_srcOf _ _ _ _ hle]
    unfold rngElems
    rw [← getD_fst]

end MlModel.Merged
