import MlModel.Lemmas.PiterVariant
/-!
# `Psi` strictly decreases on every step of the parallel-iteration LTS (`psi_step`)
-/
namespace MlModel.Piter
open MlModel.Queue

variable {F : Nat → Option (List Nat)}

theorem inputAt_set (c : Cfg) (x : List (List Item)) (sid : Nat) :
    inputAt { c with inputs := x } sid = (x[sid]?).getD [] := rfl

theorem beginIter_measure (c c2 : Cfg) (t : PThread) (N : Nat) (x : Bool) (hp : t.isProd = false)
    (hk : t.q.prog.kind = .batch) (hpc : t.q.pc = .start) (hres : t.q.result = []) :
    potT N x (beginIter c t).q + cRank c2 N (beginIter c t) + 1 ≤ potT N x t.q + 2 + KS N ∧
    (beginIter c t).isProd = false := by
  have h0 : potT N x t.q = 20 + 2 * wE := by
    cases hprog : t.q.prog with
    | batchLoop m bl => simp [potT, basePot, srcLen, hpc, hprog, hres]
    | producer _ _ => rw [hprog] at hk; cases hk
    | getLoop => rw [hprog] at hk; cases hk
    | stopper _ => rw [hprog] at hk; cases hk
  rw [h0]
  unfold beginIter
  split
  · refine ⟨?_, hp⟩
    simp [potT, basePot, srcLen, cRank, KS, hres, isProd, Prog.kind, wD, wE]
    omega
  · refine ⟨?_, hp⟩
    simp [potT, basePot, srcLen, cRank, KS, hres, isProd, hk, wD, wE]
    omega

theorem afterIter_measure (c c2 : Cfg) (pc : Pc) (s' : Shared) (t : PThread) (q' : Queue.Thread) (N : Nat) (x : Bool)
    (hcp : t.cpc = .iter) (hp : t.isProd = false)
    (hA : pc = .bRaise → q'.pc = .done ∧ q'.result = [])
    (hB : pc = .bE3 → q'.pc = .bAcq ∧ q'.result = []) :
    potT N x (afterIter c pc s' { t with q := q' }).2.q + cRank c2 N (afterIter c pc s' { t with q := q' }).2 ≤
      potT N x q' + 2 + KS N ∧
    (∀ ths, Phi { sh := (afterIter c pc s' { t with q := q' }).1, ths := ths } = Phi { sh := s', ths := ths }) ∧
    (afterIter c pc s' { t with q := q' }).2.isProd = false := by
  refine ⟨?_, ?_, ?_⟩
  · unfold afterIter
    split
    · rename_i hb
      obtain ⟨h1, h2⟩ := hA (by simpa using hb)
      have h0 : potT N x q' = 0 := by simp [potT, basePot, srcLen, h1]
      rw [h0]
      split
      · simp [potT, basePot, srcLen, cRank, KS, h2, isProd, Prog.kind, wD, wE]
        omega
      · simp [cRank, h0, KS]
        omega
    · split
      · rename_i hb
        obtain ⟨h1, h2⟩ := hB (by simpa using hb)
        split
        · simp [cRank, hcp]
          omega
        · split
          · simp [potT, basePot, srcLen, cRank, KS, h1, h2, isProd, Prog.kind, wD, wE]
            omega
          · simp [cRank, hcp]
            omega
      · simp [cRank, hcp]
        omega
  · intro ths
    unfold afterIter
    (repeat' split) <;> rfl
  · unfold afterIter
    (repeat' split) <;> exact hp

theorem psi_step {c c' : Cfg} {tid : Tid} {alt : Bool} {lbl : String} {t : PThread}
    (hb : Base c) (hq : QL c) (hc : Ctl c) (hv : VI c) (ht : c.ths[tid]? = some t)
    (hk : StepKind F c tid alt t lbl c') : Psi F c' < Psi F c := by
  have hs := hb.static
  have hmem : t ∈ c.ths := List.mem_of_getElem? ht
  have htok : TOK t.q := hb.data.tok t.q (List.mem_of_getElem? (qcfg_get ht))
  have hsrc := hv.src t hmem
  have hsl := srcLen_q hv hc hmem
  have hlen : ∀ u : PThread, (c.ths.set tid u).length = c.ths.length := fun u => List.length_set
  have hmax' : ∀ u ∈ (qcfg c).ths, u.prog.kind = .batch → 0 < u.batchMax := by
    intro u hu
    simp only [qcfg, List.mem_map] at hu
    obtain ⟨w, hw, rfl⟩ := hu
    exact hv.max w hw
  have hrn' : ∀ u ∈ (qcfg c).ths, RN u := by
    intro u hu
    simp only [qcfg, List.mem_map] at hu
    obtain ⟨w, hw, rfl⟩ := hu
    exact hv.rn w hw
  have qphi : ∀ {lbl : String} {s' : Shared} {q' : Queue.Thread},
      stepThread c.sh t.q tid alt = some (lbl, s', q') →
      Phi { sh := s', ths := (qcfg c).ths.set tid q' } < Phi (qcfg c) := by
    intro lbl s' q' hst
    exact variant_step hq.live.base hq.ig hmax' hrn' (qstep_of ht hst)
  have hwA : wA c.ths.length = wB c.ths.length + 100 := rfl
  cases hk with
  | pstart hp hpc =>
    refine psi_lt ht rfl (fun u _ => extra_same _ u rfl (hlen _) (Nat.le_refl _)) ?_
    obtain ⟨r, hprog⟩ := hv.progP t hmem hp
    have hres : t.q.result = [] := htok.res (by rw [hprog]; simp [Prog.kind])
    have e1 := phi_tweak ht ({ t.q with pc := .sAcq } : Queue.Thread)
    have p1 : potT c.ths.length (xEmpty c.sh) t.q = tA c.ths.length + 4 := by
      rw [potT_eval _ _ _ hsl hres]; simp [basePot, hpc, hprog]
    have p2 : potT c.ths.length (xEmpty c.sh) ({ t.q with pc := .sAcq } : Queue.Thread) = tA c.ths.length + 3 := by
      simp [potT, basePot, srcLen, hsrc, hres]
    rw [extra_prod hp, extra_prod (t := { t with q := { t.q with pc := .sAcq } }) hp]
    have x1 : pullRes t = 3 := by simp [pullRes, hpc, noPull, pastStop]
    have x2 : pullRes ({ t with q := { t.q with pc := .sAcq } } : PThread) = 3 := by simp [pullRes, noPull, pastStop]
    have x3 : handCost F c.ths.length t = 0 := by simp [handCost, hpc]
    have x4 : handCost F c.ths.length ({ t with q := { t.q with pc := .sAcq } } : PThread) = 0 := by simp [handCost]
    rw [x1, x2, x3, x4]
    rw [p1, p2] at e1
    show Phi { sh := c.sh, ths := (qcfg c).ths.set tid ({ t.q with pc := .sAcq } : Queue.Thread) } + _ < _
    show _ + (wA c.ths.length * t.pend.length + 3 + 0 + inputCost F c.ths.length (inputAt c t.sid)) < _
    omega
  | iacq hp hpc hipc =>
    refine psi_lt ht rfl (fun u _ => extra_same _ u rfl (hlen _) (Nat.le_refl _)) ?_
    have e1 := phi_tweak ht t.q
    rw [extra_prod hp, extra_prod (t := { t with ipc := .next }) hp]
    have x1 : pullRes t = 3 := by simp [pullRes, hpc, hipc, ipcPot]
    have x2 : pullRes ({ t with ipc := .next } : PThread) = 2 := by simp [pullRes, hpc, ipcPot]
    have x3 : handCost F c.ths.length t = 0 := by simp [handCost, hipc]
    have x4 : handCost F c.ths.length ({ t with ipc := .next } : PThread) = 0 := by simp [handCost]
    rw [x1, x2, x3, x4]
    show Phi { sh := c.sh, ths := (qcfg c).ths.set tid t.q } + (wA c.ths.length * t.pend.length + 2 + 0 +
      inputCost F c.ths.length (inputAt c t.sid)) < _
    omega
  | inextL hp hpc hipc hul hl =>
    obtain ⟨k1, k2⟩ := pull_cost (F := F) c.ths.length c.inputs t.sid
    refine psi_lt ht rfl (fun u _ => extra_mono _ u (fun sid => k1 sid) (by simp [Cfg.nProd]) (Nat.le_refl _)) ?_
    have e1 := phi_tweak ht t.q
    rw [extra_prod hp, extra_prod (t := { t with hand := (pull c.inputs t.sid).1, ipc := .rel }) hp]
    have x1 : pullRes t = 2 := by simp [pullRes, hpc, hipc, ipcPot]
    have x2 : pullRes ({ t with hand := (pull c.inputs t.sid).1, ipc := .rel } : PThread) = 1 := by
      simp [pullRes, hpc, ipcPot]
    have x3 : handCost F c.ths.length t = 0 := by simp [handCost, hipc]
    have x4 : handCost F c.ths.length ({ t with hand := (pull c.inputs t.sid).1, ipc := .rel } : PThread) =
        resCost F c.ths.length (pull c.inputs t.sid).1 := by simp [handCost, hpc]
    rw [x1, x2, x3, x4]
    show Phi { sh := c.sh, ths := (qcfg c).ths.set tid t.q } + (wA c.ths.length * t.pend.length + 1 +
      resCost F c.ths.length (pull c.inputs t.sid).1 +
      inputCost F c.ths.length (((pull c.inputs t.sid).2[t.sid]?).getD [])) < _
    have k2' : inputCost F c.ths.length (((pull c.inputs t.sid).2[t.sid]?).getD []) +
        resCost F c.ths.length (pull c.inputs t.sid).1 = inputCost F c.ths.length (inputAt c t.sid) := k2
    omega
  | inextU hp hpc hipc hul =>
    obtain ⟨k1, k2⟩ := pull_cost (F := F) c.ths.length c.inputs t.sid
    refine psi_lt ht rfl (fun u _ => extra_mono _ u (fun sid => k1 sid) (by simp [Cfg.nProd]) (Nat.le_refl _)) ?_
    have hres : t.q.result = [] := htok.res (by rw [hs.kindP t hmem hp]; simp)
    have k2' : inputCost F c.ths.length (((pull c.inputs t.sid).2[t.sid]?).getD []) +
        resCost F c.ths.length (pull c.inputs t.sid).1 = inputCost F c.ths.length (inputAt c t.sid) := k2
    have x1 : pullRes t = 2 := by simp [pullRes, hpc, hipc, ipcPot]
    have x3 : handCost F c.ths.length t = 0 := by simp [handCost, hipc]
    rw [extra_prod hp, x1, x3]
    rcases afterPull_sh (F := F) tid c.sh t (pull c.inputs t.sid).1 with hsh | hsh
    · obtain ⟨m1, m2, m3, m4⟩ := afterPull_measure (F := F) tid c.sh t (pull c.inputs t.sid).1 c.ths.length
        (xEmpty c.sh) (xEmpty c.sh) hpc hsrc hres
      have e1 := phi_tweak ht (afterPull F tid c.sh t (pull c.inputs t.sid).1).2.q
      rw [extra_prod (by rw [m3]; exact hp), m4]
      show Phi { sh := (afterPull F tid c.sh t (pull c.inputs t.sid).1).1, ths := _ } + (_ + _ + _ +
        inputCost F c.ths.length (((pull c.inputs t.sid).2[t.sid]?).getD [])) < _
      rw [hsh]
      omega
    · obtain ⟨m1, m2, m3, m4⟩ := afterPull_measure (F := F) tid c.sh t (pull c.inputs t.sid).1 c.ths.length
        false false hpc hsrc hres
      have e1 : Phi ⟨(afterPull F tid c.sh t (pull c.inputs t.sid).1).1,
            (qcfg c).ths.set tid (afterPull F tid c.sh t (pull c.inputs t.sid).1).2.q⟩ +
          potT c.ths.length false t.q ≤
          Phi (qcfg c) + potT c.ths.length false (afterPull F tid c.sh t (pull c.inputs t.sid).1).2.q := by
        rw [hsh]; exact phi_tweak_exc ht _
      rw [extra_prod (by rw [m3]; exact hp), m4]
      show Phi { sh := (afterPull F tid c.sh t (pull c.inputs t.sid).1).1, ths := _ } + (_ + _ + _ +
        inputCost F c.ths.length (((pull c.inputs t.sid).2[t.sid]?).getD [])) < _
      omega
  | irel hp hpc hipc hl =>
    refine psi_lt ht rfl (fun u _ => extra_same _ u rfl (hlen _) (Nat.le_refl _)) ?_
    have hres : t.q.result = [] := htok.res (by rw [hs.kindP t hmem hp]; simp)
    have x1 : pullRes t = 1 := by simp [pullRes, hpc, hipc, ipcPot]
    have x3 : handCost F c.ths.length t = resCost F c.ths.length t.hand := by simp [handCost, hpc, hipc]
    rw [extra_prod hp, x1, x3]
    rcases afterPull_sh (F := F) tid c.sh t t.hand with hsh | hsh
    · obtain ⟨m1, m2, m3, m4⟩ := afterPull_measure (F := F) tid c.sh t t.hand c.ths.length
        (xEmpty c.sh) (xEmpty c.sh) hpc hsrc hres
      have e1 := phi_tweak ht (afterPull F tid c.sh t t.hand).2.q
      rw [extra_prod (by rw [m3]; exact hp), m4]
      show Phi { sh := (afterPull F tid c.sh t t.hand).1, ths := _ } + (_ + _ + _ +
        inputCost F c.ths.length (inputAt c t.sid)) < _
      rw [hsh]
      omega
    · obtain ⟨m1, m2, m3, m4⟩ := afterPull_measure (F := F) tid c.sh t t.hand c.ths.length
        false false hpc hsrc hres
      have e1 : Phi ⟨(afterPull F tid c.sh t t.hand).1,
            (qcfg c).ths.set tid (afterPull F tid c.sh t t.hand).2.q⟩ + potT c.ths.length false t.q ≤
          Phi (qcfg c) + potT c.ths.length false (afterPull F tid c.sh t t.hand).2.q := by
        rw [hsh]; exact phi_tweak_exc ht _
      rw [extra_prod (by rw [m3]; exact hp), m4]
      show Phi { sh := (afterPull F tid c.sh t t.hand).1, ths := _ } + (_ + _ + _ +
        inputCost F c.ths.length (inputAt c t.sid)) < _
      omega
  | @pq lbl s' q' hp hd hs0 hne hst =>
    refine psi_lt ht rfl (fun u _ => extra_same _ u rfl (hlen _) (Nat.le_refl _)) ?_
    have hkp := hs.kindP t hmem hp
    obtain ⟨htok', hprog', -⟩ := stepThread_data lbl s' q' hst htok
    have hres' : q'.result = [] := htok'.res (by rw [hprog', hkp]; simp)
    have hsrc' : q'.src = [] := by rw [stepThread_src lbl s' q' hst hs0 hne]; exact hsrc
    obtain ⟨e1, -, -⟩ := stepThread_end lbl s' q' hst
    obtain ⟨m1, m3, m4⟩ := postProd_measure (F := F) tid t q' c.ths.length (xEmpty s') hne hsrc' hres' e1
      (fun h => noPull_step hst hne h)
    have d1 := qphi hst
    have d2 := phi_deleg_tweak ht s' q' (postProd tid t q').q
    rw [extra_prod hp, extra_prod (by rw [m3]; exact hp), m4]
    show Phi { sh := s', ths := _ } + (_ + _ + _ + inputCost F c.ths.length (inputAt c t.sid)) < _
    omega
  | cboot0 hp hcp hn =>
    refine psi_lt ht rfl (fun u _ => extra_same _ u rfl (hlen _) (Nat.le_refl _)) ?_
    obtain ⟨hkb, hpc0, hr0⟩ := (hs.kindC t hmem hp).1 (Or.inl hcp)
    obtain ⟨m1, m2⟩ := beginIter_measure c (c.setTh tid (beginIter c t)) t c.ths.length (xEmpty c.sh) hp hkb hpc0 hr0
    have e1 := phi_tweak ht (beginIter c t).q
    rw [extra_cons hp, extra_cons m2]
    have r1 : cRank c c.ths.length t = c.nProd + 4 + KS c.ths.length := by simp [cRank, hcp]
    rw [r1]
    show Phi { sh := c.sh, ths := (qcfg c).ths.set tid (beginIter c t).q } + _ < _
    omega
  | cboot hp hcp hn =>
    refine psi_lt ht rfl (fun u _ => extra_same _ u rfl (hlen _) (Nat.le_refl _)) ?_
    have e1 := phi_tweak ht t.q
    rw [extra_cons hp, extra_cons (t := { t with cpc := .submit }) hp]
    have r1 : cRank c c.ths.length t = c.nProd + 4 + KS c.ths.length := by simp [cRank, hcp]
    have r2 : cRank (c.setTh tid { t with cpc := .submit }) c.ths.length ({ t with cpc := .submit } : PThread) =
        (c.nProd - c.nsub) + 2 + KS c.ths.length := by
      simp [cRank, Cfg.setTh, Cfg.nProd]
    rw [r1, r2]
    show Phi { sh := c.sh, ths := (qcfg c).ths.set tid t.q } + _ < _
    omega
  | csubmit hp hcp =>
    refine psi_lt ht rfl (fun u _ => extra_same _ u rfl (hlen _) (Nat.le_succ _)) ?_
    obtain ⟨hkb, hpc0, hr0⟩ := (hs.kindC t hmem hp).1 (Or.inr hcp)
    have r1 : cRank c c.ths.length t = (c.nProd - c.nsub) + 2 + KS c.ths.length := by simp [cRank, hcp]
    rw [extra_cons hp, r1]
    by_cases hge : c.nsub + 1 ≥ c.nProd
    · simp only [hge, if_true]
      obtain ⟨m1, m2⟩ := beginIter_measure c
        { c with nsub := c.nsub + 1, ths := c.ths.set tid (beginIter c t) } t c.ths.length (xEmpty c.sh) hp hkb hpc0 hr0
      have e1 := phi_tweak ht (beginIter c t).q
      rw [extra_cons m2]
      show Phi { sh := c.sh, ths := (qcfg c).ths.set tid (beginIter c t).q } + _ < _
      omega
    · simp only [hge, if_false]
      have e1 := phi_tweak ht t.q
      rw [extra_cons hp]
      have r2 : cRank { c with nsub := c.nsub + 1, ths := c.ths.set tid t } c.ths.length t =
          (c.nProd - (c.nsub + 1)) + 2 + KS c.ths.length := by
        simp [cRank, hcp, Cfg.nProd]
      rw [r2]
      show Phi { sh := c.sh, ths := (qcfg c).ths.set tid t.q } + _ < _
      omega
  | @citer lbl s' q' hp hcp hst =>
    refine psi_lt ht rfl (fun u _ => extra_same _ u rfl (hlen _) (Nat.le_refl _)) ?_
    have hkb : t.q.prog.kind = .batch := (hs.kindC t hmem hp).2.1 hcp
    have hne : t.q.pc ≠ .eNext := by
      intro e; have := htok.kind .producer (by rw [e]; rfl); rw [hkb] at this; cases this
    obtain ⟨-, -, -, -, -, hA, hB, -, -⟩ := stepThread_arm lbl s' q' hst hne
    obtain ⟨m1, m2, m3⟩ := afterIter_measure c
      { c with sh := (afterIter c t.q.pc s' { t with q := q' }).1,
               ths := c.ths.set tid (afterIter c t.q.pc s' { t with q := q' }).2 }
      t.q.pc s' t q' c.ths.length (xEmpty s') hcp hp
      (fun e => ⟨(hA e).1, (hA e).2.2.1⟩) (fun e => ⟨(hB e).1, (hB e).2.2.1⟩)
    have d1 := qphi hst
    have d2 := phi_deleg_tweak ht s' q' (afterIter c t.q.pc s' { t with q := q' }).2.q
    have r1 : cRank c c.ths.length t = 2 + KS c.ths.length := by simp [cRank, hcp]
    rw [extra_cons hp, extra_cons m3, r1]
    show Phi { sh := (afterIter c t.q.pc s' { t with q := q' }).1, ths := _ } + _ < _
    rw [m2]
    omega
  | @cstop lbl s' q' hp hcp hst =>
    refine psi_lt ht rfl (fun u _ => extra_same _ u rfl (hlen _) (Nat.le_refl _)) ?_
    have hip : (postStop t q').isProd = false := by unfold postStop; split <;> exact hp
    have hq' : (postStop t q').q = q' := by unfold postStop; split <;> rfl
    have d1 := qphi hst
    have r1 : cRank c c.ths.length t = 1 := by simp [cRank, hcp]
    have r2 : cRank { c with sh := s', ths := c.ths.set tid (postStop t q') } c.ths.length (postStop t q') = 1 := by
      unfold postStop; split <;> simp [cRank, hcp]
    rw [extra_cons hp, extra_cons hip, r1, r2, hq']
    show Phi { sh := s', ths := _ } + _ < _
    omega
  | cshutdown hp hcp hd =>
    refine psi_lt ht rfl (fun u _ => extra_same _ u rfl (hlen _) (Nat.le_refl _)) ?_
    have e1 := phi_tweak ht t.q
    rw [extra_cons hp, extra_cons (t := { t with cpc := .fin }) hp]
    have r1 : cRank c c.ths.length t = 1 := by simp [cRank, hcp]
    have r2 : cRank (c.setTh tid { t with cpc := .fin }) c.ths.length ({ t with cpc := .fin } : PThread) = 0 := by
      simp [cRank]
    rw [r1, r2]
    show Phi { sh := c.sh, ths := (qcfg c).ths.set tid t.q } + _ < _
    omega

/-! ### executions -/

/-- `n` consecutive steps -/
inductive StepsN (F : Nat → Option (List Nat)) : Cfg → Nat → Cfg → Prop where
  | zero {c : Cfg} : StepsN F c 0 c
  | succ {c c1 c2 : Cfg} {n : Nat} {tid : Tid} {alt : Bool} {lbl : String} :
      step F c tid alt = some (lbl, c1) → StepsN F c1 n c2 → StepsN F c (n + 1) c2

theorem reachable_stepsN {c0 c c' : Cfg} {n : Nat} (h : Reachable F c0 c) (hn : StepsN F c n c') :
    Reachable F c0 c' := by
  induction hn with
  | zero => exact h
  | succ hs _ ih => exact ih (.step h hs)

theorem vi_reachable {c0 c : Cfg} (hb0 : Base c0) (hq0 : QL c0) (hc0 : Ctl c0) (h0 : VI c0)
    (h : Reachable F c0 c) : VI c := by
  induction h with
  | init => exact h0
  | step hr hs ih =>
    obtain ⟨t, ht, hk⟩ := step_inv hs
    exact vi_step (base_reachable hb0 hr) (ql_reachable hb0 hq0 hr) (ctl_reachable hb0 hc0 hr) ih ht hk

/-- the measure decreases along every step from a configuration reachable from `init` -/
theorem psi_step_init {cap bm mw : Nat} {ns : Option Nat} {soe : Bool} {inputs : List (List Item)}
    {prods : List ProdSpec} {c c' : Cfg} {tid : Tid} {alt : Bool} {lbl : String} (hbm : 0 < bm)
    (h : Reachable F (init cap bm mw ns soe inputs prods) c) (hs : step F c tid alt = some (lbl, c')) :
    Psi F c' < Psi F c := by
  obtain ⟨hb, hq, hc, -⟩ := invs_reachable h
  have hv := vi_reachable (base_init cap bm mw ns soe inputs prods) (ql_init cap bm mw ns soe inputs prods)
    (ctl_init cap bm mw ns soe inputs prods) (vi_init cap bm mw ns soe inputs prods hbm) h
  obtain ⟨t, ht, hk⟩ := step_inv hs
  exact psi_step hb hq hc hv ht hk

/-- an execution of `n` steps uses up at least `n` units of the measure -/
theorem stepsN_bound {cap bm mw : Nat} {ns : Option Nat} {soe : Bool} {inputs : List (List Item)}
    {prods : List ProdSpec} {c c' : Cfg} {n : Nat} (hbm : 0 < bm)
    (h : Reachable F (init cap bm mw ns soe inputs prods) c) (hn : StepsN F c n c') :
    n + Psi F c' ≤ Psi F c := by
  induction hn with
  | zero => omega
  | succ hs _ ih =>
    have h1 := psi_step_init hbm h hs
    have h2 := ih (.step h hs)
    omega

end MlModel.Piter
