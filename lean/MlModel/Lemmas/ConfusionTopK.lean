import MlModel.Lemmas.ConfusionEncode
/-!
# Top-k: the confusion matrix reported for `k` is the one of the first `k` predictions

`_apply_vocab_at_k` keeps ONE boolean matrix and switches on, in round `j`, the cell of the
`j`-th prediction of every row; it yields after round `j` when `j + 1 ∈ k_list`.  Closed form:
after round `j` row `i` is the multi-hot encoding of `y_pred[i][:j+1]`.
-/
namespace MlModel.Agg.Confusion

theorem zip_map_self {α β : Type} (g : α → β) : ∀ (l : List α), (l.map g).zip l = l.map fun a => (g a, a)
  | [] => rfl
  | a :: l => by simp [zip_map_self g l]

theorem mark_take_succ (keys : List Label) (hn : keys.Nodup) (row : List Label) (j : Nat)
    (h : ∀ e ∈ row, e ∈ keys) :
    topkCell keys.zipIdx (mark keys (row.take j)) row[j]? = .ok (mark keys (row.take (j + 1))) := by
  cases hj : row[j]? with
  | none =>
    have : row.length ≤ j := by simpa using hj
    simp [topkCell, List.take_of_length_le this, List.take_of_length_le (Nat.le_succ_of_le this)]
  | some e =>
    have hlt : j < row.length := by
      rcases Nat.lt_or_ge j row.length with h | h
      · exact h
      · simp [List.getElem?_eq_none h] at hj
    have he : row[j] = e := by simpa [List.getElem?_eq_getElem hlt] using hj
    have hek : e ∈ keys := by rw [← he]; exact h _ (List.getElem_mem hlt)
    have hidx : keys.idxOf e < (mark keys (row.take j)).length := by
      simpa [mark] using List.idxOf_lt_length_of_mem hek
    simp only [topkCell, vocabStep, vocab_lookup keys e hek, bind, Except.bind, setCell, hidx, ↓reduceIte,
      mark_set keys hn _ e hek]
    rw [List.take_add_one, List.getElem?_eq_getElem hlt, he]
    rfl

/-- one round of the loop (multi-output rows) -/
theorem topkRound_mark (keys : List Label) (hn : keys.Nodup) (rows : List (List Label)) (j : Nat)
    (h : ∀ r ∈ rows, ∀ e ∈ r, e ∈ keys) :
    topkRound keys.zipIdx true j (rows.map fun r => mark keys (r.take j)) rows
      = .ok (rows.map fun r => mark keys (r.take (j + 1))) := by
  unfold topkRound
  rw [zip_map_self, List.mapM_map]
  apply mapM_ok
  intro r hr
  simpa using mark_take_succ keys hn r j (h r hr)

/-- the whole loop: one yield per `k ∈ k_list` in increasing order, each the confusion matrix of the
prediction prefixes of length `k` -/
theorem topkLoop_closed (keys : List Label) (hn : keys.Nodup) (avg : Average) (hb : avg ≠ .binary)
    (axis : Option Nat) (kList : List Int) (td : List (List Bool)) (rows : List (List Label))
    (hl : td.length = rows.length) (h : ∀ r ∈ rows, ∀ e ∈ r, e ∈ keys) :
    ∀ (fuel j : Nat),
      topkLoop keys.zipIdx true avg axis kList td rows fuel j (rows.map fun r => mark keys (r.take j))
        = .ok (((List.range' (j + 1) fuel).filter (kMember kList)).map fun k =>
            (k, countsOf axis keys.length td (rows.map fun r => mark keys (r.take k))))
  | 0, j => by simp [topkLoop]
  | fuel + 1, j => by
    have ih := topkLoop_closed keys hn avg hb axis kList td rows hl h fuel (j + 1)
    simp only [topkLoop, topkRound_mark keys hn rows j h, bind, Except.bind, List.length_zipIdx]
    rw [indicatorCore_dense avg hb axis _ _ _ (by simp [hl])]
    by_cases hk : kMember kList (j + 1) = true
    · simp only [hk, ↓reduceIte, pure, Except.pure, ih, List.range'_succ, List.filter_cons,
        List.map_cons, List.singleton_append]
    · simp only [hk, Bool.false_eq_true, ↓reduceIte, pure, Except.pure, ih, List.range'_succ,
        List.filter_cons, List.nil_append]

end MlModel.Agg.Confusion
