import MlModel.Lemmas.QueueLiveDead
/-!
# The no-lost-wake-up invariant is insensitive to what it does not read

`Live c` (`QueueLiveInv.lean`) reads of a thread only its program point, its program kind, the
exception in flight, whether `_stop_enqueue`'s arguments are set and whether `result` is empty — not
its source, the value in hand, what it received, its outcome.  A layer built on top of the queue LTS
(`Model/Piter.lean`: the producers pull from shared inputs instead of a fixed source, the consumer turns
into a stopper) changes exactly such fields between two queue steps; the lemmas here transfer `Live`
across these changes, so that the invariant proved for the queue LTS is **re-used**, not re-proved.

* `live_set`     — replace one thread by one with the same classification;
* `live_fields`  — … in particular by one that differs only in fields `Live` does not read;
* `live_lost`    — the ghost list `lost` is not read;
* `live_enext_*` — the three possible outcomes of `next(iterator)` (a value, a failure, the end) preserve
  `Live` whatever the thread's recorded source says (the step is simulated by the queue LTS on a
  configuration whose source was adjusted first).
-/
namespace MlModel.Queue

/-- `b` is classified like `a` by everything `Live` reads (except `activeC`, treated apart) -/
structure SameClass (a b : Thread) : Prop where
  hold : ∀ l, holds l b.pc = holds l a.pc
  cw : consWakePc b.pc = consWakePc a.pc
  pw : prodWakePc b.pc = prodWakePc a.pc
  se : sawEmpty b = sawEmpty a
  sf : sawFull b = sawFull a
  dd : debtD b = debtD a
  da : debtDAll b = debtDAll a
  de : debtE b = debtE a
  cp : commitP b = commitP a
  ea : debtEAll b = debtEAll a
  ip : isProd b = isProd a
  ps : pastS b = pastS a
  pt : pastT b = pastT a
  er : early b = early a

theorem getElem?_set_cases {α} {l : List α} {i j : Nat} {a b x : α} (ha : l[i]? = some a)
    (h : (l.set i b)[j]? = some x) : (j = i ∧ x = b) ∨ (j ≠ i ∧ l[j]? = some x) := by
  have hi : i < l.length := (List.getElem?_eq_some_iff.mp ha).1
  by_cases hji : j = i
  · subst hji
    simp only [List.getElem?_set_self hi, Option.some.injEq] at h
    exact Or.inl ⟨rfl, h.symm⟩
  · rw [List.getElem?_set_ne (Ne.symm hji)] at h
    exact Or.inr ⟨hji, h⟩

/-- **Replacing a thread by one of the same class preserves `Live`.**  `hac`: if the replaced thread
was an active consumer and the new one is not, no consumer waits (so J1 has nothing to guarantee). -/
theorem live_set {c : Cfg} {tid : Tid} {a b : Thread} (hv : Live c) (ha : c.ths[tid]? = some a)
    (hc : SameClass a b)
    (hac : activeC a = true → activeC b = true ∨ (c.sh.deqWait = [] ∧ ¬ anyT c sawEmpty))
    (htok : TOK b) (htl : TL b) (hx : XOK c.sh b) :
    Live { sh := c.sh, ths := c.ths.set tid b } := by
  have hb := hv.base
  have htid : tid < c.ths.length := (List.getElem?_eq_some_iff.mp ha).1
  have hself : (c.ths.set tid b)[tid]? = some b := by simp [htid]
  have hbase : Base { sh := c.sh, ths := c.ths.set tid b } := by
    refine ⟨⟨?_, ?_⟩, ?_, ?_, ?_, ?_, ?_, ?_, ?_⟩
    · intro u tu hu l
      rcases getElem?_set_cases ha hu with ⟨rfl, rfl⟩ | ⟨_, hu⟩
      · show c.sh.owner l = some u ↔ _
        rw [hc.hold l]; exact hb.lock.1 u a ha l
      · exact hb.lock.1 u tu hu l
    · intro l u hu
      show u < (c.ths.set tid b).length
      rw [List.length_set]; exact hb.lock.2 l u hu
    · intro u hu
      rcases List.mem_or_eq_of_mem_set hu with hu | rfl
      · exact hb.tok u hu
      · exact htok
    · intro u hu
      rcases List.mem_or_eq_of_mem_set hu with hu | rfl
      · exact hb.tl u hu
      · exact htl
    · intro u hu
      rcases List.mem_or_eq_of_mem_set hu with hu | rfl
      · exact hb.xok u hu
      · exact hx
    · obtain ⟨n1, n2, m1, m2⟩ := hb.wait
      refine ⟨n1, n2, fun x => ?_, fun x => ?_⟩
      · rw [show wlD ({ sh := c.sh, ths := c.ths.set tid b } : Cfg).sh = wlD c.sh from rfl, m1 x]
        constructor
        · rintro ⟨u, hu, hw⟩
          by_cases hxt : x = tid
          · subst hxt; rw [ha] at hu; cases hu
            exact ⟨b, hself, by rw [hc.cw]; exact hw⟩
          · exact ⟨u, by show (c.ths.set tid b)[x]? = some u; rw [List.getElem?_set_ne (Ne.symm hxt)]; exact hu, hw⟩
        · rintro ⟨u, hu, hw⟩
          rcases getElem?_set_cases ha hu with ⟨rfl, rfl⟩ | ⟨_, hu⟩
          · exact ⟨a, ha, by rw [← hc.cw]; exact hw⟩
          · exact ⟨u, hu, hw⟩
      · rw [show wlE ({ sh := c.sh, ths := c.ths.set tid b } : Cfg).sh = wlE c.sh from rfl, m2 x]
        constructor
        · rintro ⟨u, hu, hw⟩
          by_cases hxt : x = tid
          · subst hxt; rw [ha] at hu; cases hu
            exact ⟨b, hself, by rw [hc.pw]; exact hw⟩
          · exact ⟨u, by show (c.ths.set tid b)[x]? = some u; rw [List.getElem?_set_ne (Ne.symm hxt)]; exact hu, hw⟩
        · rintro ⟨u, hu, hw⟩
          rcases getElem?_set_cases ha hu with ⟨rfl, rfl⟩ | ⟨_, hu⟩
          · exact ⟨a, ha, by rw [← hc.pw]; exact hw⟩
          · exact ⟨u, hu, hw⟩
    · intro hsr
      obtain ⟨e1, e2, e3⟩ := hb.cnt hsr
      have c1 := countP_set' isProd (b := b) ha
      have c2 := countP_set' pastS (b := b) ha
      have c3 := countP_set' pastT (b := b) ha
      rw [hc.ip] at c1; rw [hc.ps] at c2; rw [hc.pt] at c3
      refine ⟨?_, ?_, ?_⟩
      · show c.sh.maxEnq = (c.ths.set tid b).countP isProd
        omega
      · show c.sh.start = (c.ths.set tid b).countP pastS
        omega
      · show c.sh.stop = (c.ths.set tid b).countP pastT
        omega
    · intro he
      rw [anyT_set ha, hc.er] at he
      exact hb.early ((anyT_iff ha).mpr he)
    · exact hb.i3
  refine ⟨hbase, ?_, ?_, ?_, ?_⟩
  · have h0 := hv.j1
    unfold J1 at h0 ⊢
    simp only [anyT_iff ha] at h0
    simp only [anyT_set ha, hc.se, hc.dd]
    intro h1 h2
    rcases h0 h1 h2 with h | (h | h) | h | h
    · exact Or.inl h
    · rcases hac h with h | ⟨w1, w2⟩
      · exact Or.inr (Or.inl (Or.inl h))
      · exfalso
        rw [anyT_iff ha] at w2
        rcases h1 with h1 | h1
        · exact h1 w1
        · exact w2 h1
    · exact Or.inr (Or.inl (Or.inr h))
    · exact Or.inr (Or.inr (Or.inl h))
    · exact Or.inr (Or.inr (Or.inr h))
  · have h0 := hv.j2
    unfold J2 at h0 ⊢
    simp only [anyT_iff ha] at h0
    simp only [anyT_set ha, hc.se, hc.da]
    exact h0
  · have h0 := hv.k1
    unfold K1 at h0 ⊢
    simp only [anyT_iff ha] at h0
    simp only [anyT_set ha, hc.sf, hc.de, hc.cp]
    exact h0
  · have h0 := hv.k2
    unfold K2 at h0 ⊢
    simp only [anyT_iff ha] at h0
    simp only [anyT_set ha, hc.sf, hc.ea]
    exact h0

/-- the fields `Live` reads of a thread -/
structure SameFields (a b : Thread) : Prop where
  pc : b.pc = a.pc
  prog : b.prog = a.prog
  x : b.x = a.x
  rets : b.rets.isEmpty = a.rets.isEmpty
  reraise : b.reraise = a.reraise
  result : b.result = a.result

theorem sameFields_class {a b : Thread} (h : SameFields a b) :
    SameClass a b ∧ activeC b = activeC a ∧ (TOK a → TOK b) ∧ (TL a → TL b) ∧ (∀ s, XOK s a → XOK s b) := by
  obtain ⟨h1, h2, h3, h4, h5, h6⟩ := h
  have hk : isProd b = isProd a := by simp [isProd, h2]
  have hco : isCons b = isCons a := by simp [isCons, h2]
  have hso : isStopper b = isStopper a := by simp [isStopper, h2]
  have hst : stopped b = stopped a := by simp [stopped, stoppedOf, h4, h5]
  have harm : armed b = armed a := by simp [armed, h1, h3, hco]
  refine ⟨⟨fun l => by rw [h1], by rw [h1], by rw [h1], ?_, ?_, ?_, ?_, ?_, ?_, ?_, hk, ?_, ?_, ?_⟩, ?_, ?_, ?_, ?_⟩
  · simp [sawEmpty, h1, h3]
  · simp [sawFull, h1]
  · simp [debtD, h1]
  · simp [debtDAll, h1, h5]
  · simp [debtE, h1, h6]
  · simp [commitP, h1]
  · simp [debtEAll, h1, h5]
  · simp [pastS, hk, h1]
  · simp [pastT, hk, h1, hst]
  · simp [early, hk, h1, hst]
  · simp [activeC, h1, h3, hco]
  · intro t; exact ⟨by rw [h1, h2]; exact t.kind, by rw [h2, h6]; exact t.res⟩
  · intro t; unfold TL at t ⊢; rw [h1, hst]; exact t
  · intro s t; unfold XOK at t ⊢; rw [h1, h5, h3, hso, harm]; exact t

/-- **A thread may be replaced by one that differs only in fields `Live` does not read.** -/
theorem live_fields {c : Cfg} {tid : Tid} {a b : Thread} (hv : Live c) (ha : c.ths[tid]? = some a)
    (h : SameFields a b) : Live { sh := c.sh, ths := c.ths.set tid b } := by
  obtain ⟨hc, hac, h1, h2, h3⟩ := sameFields_class h
  have hmem : a ∈ c.ths := List.mem_of_getElem? ha
  exact live_set hv ha hc (fun h => Or.inl (by rw [hac]; exact h)) (h1 (hv.base.tok a hmem))
    (h2 (hv.base.tl a hmem)) (h3 _ (hv.base.xok a hmem))

/-- the ghost list `lost` is not read by `Live` -/
theorem live_lost {s : Shared} {ths : List Thread} (l : List Elem) (hv : Live { sh := s, ths := ths }) :
    Live { sh := { s with lost := l }, ths := ths } := by
  obtain ⟨⟨hl, h1, h2, h3, h4, h5, h6, h7⟩, j1, j2, k1, k2⟩ := hv
  exact ⟨⟨hl, h1, h2, h3, h4, h5, h6, h7⟩, j1, j2, k1, k2⟩

theorem set_set_set {α} (l : List α) (i : Nat) (a b d : α) : ((l.set i a).set i b).set i d = l.set i d := by
  simp [List.set_set]

/-- `next(iterator)` produced a value: whatever the thread's recorded source says -/
theorem live_enext_val {c : Cfg} {tid : Tid} {a b : Thread} (hv : Live c) (hto : c.sh.timeout = false)
    (ha : c.ths[tid]? = some a) (hpc : a.pc = .eNext) (hb : SameFields { a with pc := .pAcq } b) :
    Live { sh := c.sh, ths := c.ths.set tid b } := by
  have htid : tid < c.ths.length := (List.getElem?_eq_some_iff.mp ha).1
  let a1 : Thread := { a with src := [.val 0] }
  have hv1 : Live { sh := c.sh, ths := c.ths.set tid a1 } := live_fields hv ha ⟨rfl, rfl, rfl, rfl, rfl, rfl⟩
  let a2 : Thread := { a1 with pc := .pAcq, v := (tid, 0), src := [] }
  have hs : step { sh := c.sh, ths := c.ths.set tid a1 } tid false =
      some ("next", { sh := c.sh, ths := (c.ths.set tid a1).set tid a2 }) := by
    simp [step, htid, stepThread, a1, a2, hpc]
  have hv2 := live_step (c := { sh := c.sh, ths := c.ths.set tid a1 }) hto hv1 hs
  have := live_fields (tid := tid) (a := a2) (b := b) hv2 (by simp [htid])
    ⟨hb.pc, hb.prog, hb.x, hb.rets, hb.reraise, hb.result⟩
  rw [set_set_set] at this
  exact this

/-- `next(iterator)` raised (with `ignore_error = False`): the exception is recorded and the thread goes
to `_stop_enqueue()` -/
theorem live_enext_fail {c : Cfg} {tid : Tid} {a b : Thread} (hv : Live c) (hto : c.sh.timeout = false)
    (hig : c.sh.ignoreError = false)
    (ha : c.ths[tid]? = some a) (hpc : a.pc = .eNext)
    (hb : SameFields { a with pc := .tAcq, rets := [], reraise := some .value } b) :
    Live { sh := { c.sh with exc := some .value }, ths := c.ths.set tid b } := by
  have htid : tid < c.ths.length := (List.getElem?_eq_some_iff.mp ha).1
  let a1 : Thread := { a with src := [.fail] }
  have hv1 : Live { sh := c.sh, ths := c.ths.set tid a1 } := live_fields hv ha ⟨rfl, rfl, rfl, rfl, rfl, rfl⟩
  let a2 : Thread := { a1 with pc := .tAcq, src := [], rets := [], reraise := some .value }
  have hs : step { sh := c.sh, ths := c.ths.set tid a1 } tid false =
      some ("next", { sh := { c.sh with exc := some .value }, ths := (c.ths.set tid a1).set tid a2 }) := by
    simp [step, htid, stepThread, a1, a2, hpc, hig]
  have hv2 := live_step (c := { sh := c.sh, ths := c.ths.set tid a1 }) hto hv1 hs
  have := live_fields (tid := tid) (a := a2) (b := b) hv2 (by simp [htid])
    ⟨hb.pc, hb.prog, hb.x, hb.rets, hb.reraise, hb.result⟩
  rw [set_set_set] at this
  exact this

/-- `next(iterator)` raised `StopIteration(*args)`: the thread goes to `_stop_enqueue(*args)` -/
theorem live_enext_stop {c : Cfg} {tid : Tid} {a b : Thread} (hv : Live c) (hto : c.sh.timeout = false)
    (ha : c.ths[tid]? = some a) (hpc : a.pc = .eNext)
    (hb : SameFields { a with pc := .tAcq, rets := [0], reraise := none } b) :
    Live { sh := c.sh, ths := c.ths.set tid b } := by
  have htid : tid < c.ths.length := (List.getElem?_eq_some_iff.mp ha).1
  let a1 : Thread := { a with src := [] }
  have hv1 : Live { sh := c.sh, ths := c.ths.set tid a1 } := live_fields hv ha ⟨rfl, rfl, rfl, rfl, rfl, rfl⟩
  let a2 (r : Nat) : Thread := { a1 with pc := .tAcq, rets := [r], reraise := none }
  obtain ⟨r, hs⟩ : ∃ r, step { sh := c.sh, ths := c.ths.set tid a1 } tid false =
      some ("next", { sh := c.sh, ths := (c.ths.set tid a1).set tid (a2 r) }) := by
    cases hp : a.prog with
    | producer src r => exact ⟨r, by simp [step, htid, stepThread, a1, a2, hpc, hp]⟩
    | getLoop => exact ⟨0, by simp [step, htid, stepThread, a1, a2, hpc, hp]⟩
    | batchLoop m bl => exact ⟨0, by simp [step, htid, stepThread, a1, a2, hpc, hp]⟩
    | stopper e => exact ⟨0, by simp [step, htid, stepThread, a1, a2, hpc, hp]⟩
  have hv2 := live_step (c := { sh := c.sh, ths := c.ths.set tid a1 }) hto hv1 hs
  have := live_fields (tid := tid) (a := a2 r) (b := b) hv2
    (by simp [htid]) ⟨hb.pc, hb.prog, hb.x, hb.rets, hb.reraise, hb.result⟩
  rw [set_set_set] at this
  exact this

theorem sawEmpty_kind (u : Thread) (h : sawEmpty u = true) :
    pcKind u.pc = some .get ∨ pcKind u.pc = some .batch := by
  unfold sawEmpty at h
  cases hp : u.pc <;> simp_all [pcKind]

theorem consWake_kind (pc : Pc) (h : consWakePc pc = true) :
    pcKind pc = some .get ∨ pcKind pc = some .batch := by
  cases pc <;> simp_all [consWakePc, pcKind]

/-- if every thread but `tid` is a producer and `tid` neither waits nor has decided to, no consumer waits -/
theorem no_waiting_cons {c : Cfg} {tid : Tid} {a : Thread} (hb : Base c) (ha : c.ths[tid]? = some a)
    (hothers : ∀ (j : Nat) (u : Thread), j ≠ tid → c.ths[j]? = some u → u.prog.kind = .producer)
    (hcw : consWakePc a.pc = false) (hse : sawEmpty a = false) :
    c.sh.deqWait = [] ∧ ¬ anyT c sawEmpty := by
  have key : ∀ (j : Nat) (u : Thread), c.ths[j]? = some u → consWakePc u.pc = false ∧ sawEmpty u = false := by
    intro j u hu
    by_cases hj : j = tid
    · subst hj; rw [ha] at hu; cases hu; exact ⟨hcw, hse⟩
    · have hk := hothers j u hj hu
      have htok := (hb.tok u (List.mem_of_getElem? hu)).kind
      constructor
      · cases hw : consWakePc u.pc with
        | false => rfl
        | true =>
          rcases consWake_kind u.pc hw with h | h <;> (have := htok _ h; rw [hk] at this; cases this)
      · cases hw : sawEmpty u with
        | false => rfl
        | true =>
          rcases sawEmpty_kind u hw with h | h <;> (have := htok _ h; rw [hk] at this; cases this)
  constructor
  · rw [List.eq_nil_iff_forall_not_mem]
    intro x hx
    obtain ⟨u, hu, hw⟩ := (hb.wait.2.2.1 x).mp (by unfold wlD; exact List.mem_append_right _ hx)
    rw [(key x u hu).1] at hw; cases hw
  · rintro ⟨u, hu, hs⟩
    obtain ⟨j, hj⟩ := List.getElem?_of_mem hu
    rw [(key j u hj).2] at hs; cases hs

/-- **The only consumer turns into a stopper** (`DequeueIterator`'s `maybe_stop()` after `num_steps`
deliveries, or before the first one; `MultiplexIterator.maybe_stop()` after the iteration ended): a
`get_batch` consumer that is between two calls (`start`, `bAcq`) or has finished (`done`) is replaced by a
thread about to execute `maybe_stop()`.  `Live` is preserved: the thread holds no lock, owes nothing, and
no other consumer exists that its activity could have been responsible for. -/
theorem live_to_stopper {c : Cfg} {tid : Tid} {a b : Thread} (hv : Live c) (ha : c.ths[tid]? = some a)
    (hothers : ∀ (j : Nat) (u : Thread), j ≠ tid → c.ths[j]? = some u → u.prog.kind = .producer)
    (hpc : a.pc = .start ∨ a.pc = .done ∨ a.pc = .bAcq) (hk : a.prog.kind = .batch)
    (hbpc : b.pc = .mAcq) (hbprog : b.prog = .stopper none) (hbres : b.result = []) :
    Live { sh := c.sh, ths := c.ths.set tid b } := by
  have hipa : isProd a = false := by simp [isProd, hk]
  have hipb : isProd b = false := by simp [isProd, hbprog, Prog.kind]
  have hcw : consWakePc a.pc = false := by rcases hpc with h | h | h <;> simp [h, consWakePc]
  have hse : sawEmpty a = false := by rcases hpc with h | h | h <;> simp [sawEmpty, h]
  refine live_set hv ha ?_ (fun _ => Or.inr (no_waiting_cons hv.base ha hothers hcw hse)) ?_ ?_ ?_
  · refine ⟨fun l => ?_, ?_, ?_, ?_, ?_, ?_, ?_, ?_, ?_, ?_, by rw [hipa, hipb], ?_, ?_, ?_⟩
    · rcases hpc with h | h | h <;> cases l <;> simp [h, hbpc, holds]
    · rw [hcw, hbpc]; rfl
    · rcases hpc with h | h | h <;> simp [h, hbpc, prodWakePc]
    · rw [hse]; simp [sawEmpty, hbpc]
    · rcases hpc with h | h | h <;> simp [sawFull, h, hbpc]
    · rcases hpc with h | h | h <;> simp [debtD, h, hbpc]
    · rcases hpc with h | h | h <;> simp [debtDAll, h, hbpc]
    · rcases hpc with h | h | h <;> simp [debtE, h, hbpc]
    · rcases hpc with h | h | h <;> simp [commitP, h, hbpc]
    · rcases hpc with h | h | h <;> simp [debtEAll, h, hbpc]
    · simp [pastS, hipa, hipb]
    · simp [pastT, hipa, hipb]
    · simp [early, hipa, hipb]
  · exact ⟨fun k hk' => by rw [hbpc] at hk'; simp [pcKind] at hk'; rw [hbprog, ← hk']; rfl, fun _ => hbres⟩
  · unfold TL; rw [hbpc]; trivial
  · unfold XOK; simp [hbpc, armed]

end MlModel.Queue
