import MlModel.Lemmas.Piter2Anat
import MlModel.Lemmas.Piter2Final
/-!
# Two-queue LTS: a failure of the OUTPUT queue reaches the caller (package C13D4)

`ExcStep`: which program points of `Queue.stepThread` can write `_exception` / `_stop_requested` at all
(`maybe_stop`'s state update, the failing `next(iterator)` of a producer, a `put` that timed out) and how a consumer
arms the exception that ends it.  `FS c`: while the caller has not stopped early, the output queue has no stop request,
and the exception the caller's `get_batch` is about to raise / has raised is never `queue.Empty` and, when it is a
`StopIteration`, the output queue is exhausted WITHOUT recorded failure — for good: by producer counting
(`not_done_by_count`) every second-level task is then past its `_stop_enqueue`, so none can fail any more.
-/
namespace MlModel.Queue
set_option linter.unusedSimpArgs false

def ExcStep (s : Shared) (t : Thread) (tid : Tid) (alt : Bool) : Prop :=
  ∀ lbl s' t', stepThread s t tid alt = some (lbl, s', t') →
    (t.pc ≠ .mAcq → s'.stopRequested = s.stopRequested) ∧
    (t.pc ≠ .mAcq → t.pc ≠ .pRaiseT → t.pc ≠ .eNext → s'.exc = s.exc)

set_option hygiene false in
macro "exc_group" : tactic => `(tactic| (
  intro lbl s' t' h
  unfold stepThread at h
  cases hpc : t.pc <;> (try (simp only [hpc, Pc.group] at hg; omega)) <;>
    simp only [hpc] at h <;>
    (try simp only [acquire, release, notify, waitPark, waitWake, goto, enqLoop, putLoop, batchLoop,
      afterRaise, afterValue] at h) <;>
    (repeat' split at h) <;>
    (try simp only [Option.some.injEq, Prod.mk.injEq, reduceCtorEq] at h) <;>
    (try (obtain ⟨-, rfl, rfl⟩ := h)) <;>
    simp_all [Shared.setOwner, Shared.owner]))

theorem exc_g0 {s t tid alt} (hg : t.pc.group = 0) : ExcStep s t tid alt := by exc_group
theorem exc_g1 {s t tid alt} (hg : t.pc.group = 1) : ExcStep s t tid alt := by exc_group
theorem exc_g2 {s t tid alt} (hg : t.pc.group = 2) : ExcStep s t tid alt := by exc_group
theorem exc_g3 {s t tid alt} (hg : t.pc.group = 3) : ExcStep s t tid alt := by exc_group
theorem exc_g4 {s t tid alt} (hg : t.pc.group = 4) : ExcStep s t tid alt := by exc_group
theorem exc_g5 {s t tid alt} (hg : t.pc.group = 5) : ExcStep s t tid alt := by exc_group
theorem exc_g6 {s t tid alt} (hg : t.pc.group = 6) : ExcStep s t tid alt := by exc_group
theorem exc_g7 {s t tid alt} (hg : t.pc.group = 7) : ExcStep s t tid alt := by exc_group

theorem stepThread_exc {s t tid alt} : ExcStep s t tid alt := by
  have h := Pc.group_lt t.pc
  match hg : t.pc.group with
  | 0 => exact exc_g0 hg | 1 => exact exc_g1 hg | 2 => exact exc_g2 hg | 3 => exact exc_g3 hg
  | 4 => exact exc_g4 hg | 5 => exact exc_g5 hg | 6 => exact exc_g6 hg | 7 => exact exc_g7 hg
  | n + 8 => omega

end MlModel.Queue

namespace MlModel.Piter2
open MlModel.Queue

variable {F : Nat → Option (List Nat)}

/-- an acceptable end of the caller's iteration: never `queue.Empty`; a `StopIteration` only from an output queue that
is exhausted without recorded failure; an error only when a failure is recorded -/
def OKR (s : Shared) (r : Raise) : Prop :=
  r ≠ .empty ∧ (r.isErr = false → s.exc = none ∧ s.exhausted = true) ∧ (r.isErr = true → s.exc.isSome = true)

/-- what holds for the caller `t0` (output queue state `s`) while it has not stopped early -/
structure FSt (s : Shared) (t0 : Th) : Prop where
  nostop : s.stopRequested = false
  kind : t0.b.prog.kind = .batch
  c1 : t0.cpc ≠ .stopping
  c2 : t0.cpc ≠ .upstop
  armed : armedX t0.b = true → OKR s t0.b.x
  out : (t0.cpc = .shutdown ∨ t0.cpc = .fin) → ∃ r, t0.iterOutcome = some r ∧ OKR s r

def FS (c : Cfg) : Prop := ∀ t0, c.ths[0]? = some t0 → t0.early = false → FSt c.s2 t0

theorem afterIter_sh (c : Cfg) (pc : Pc) (s : Shared) (t : Th) :
    (afterIter c pc s t).1.exc = s.exc ∧ (afterIter c pc s t).1.stopRequested = s.stopRequested ∧
    (afterIter c pc s t).1.exhausted = s.exhausted := by
  unfold afterIter; (repeat' split) <;> exact ⟨rfl, rfl, rfl⟩

theorem afterIter_cases (c : Cfg) (pc : Pc) (s : Shared) (t : Th) :
    (pc = .bRaise ∧ afterIter c pc s t = (s, { t with iterOutcome := t.b.outcome, cpc := .shutdown })) ∨
    ((afterIter c pc s t).2.early = true) ∨ (pc ≠ .bRaise ∧ afterIter c pc s t = (s, t)) := by
  unfold afterIter
  by_cases h : pc = .bRaise
  · left; simp [h]
  · right
    simp only [beq_iff_eq, h, if_false]
    (repeat' split) <;> first | exact .inl rfl | exact .inr ⟨h, rfl⟩

theorem afterPull_sh (fwd : Bool) (tid : Tid) (s : Shared) (t : Th) (r : Hand) :
    (afterPull F fwd tid s t r).1.stopRequested = s.stopRequested ∧
    (afterPull F fwd tid s t r).1.exhausted = s.exhausted := by
  unfold afterPull failPull; (repeat' split) <;> exact ⟨rfl, rfl⟩

/-- how one step changes `_stop_requested`, `_exhausted`, `_exception` of the OUTPUT queue, unless it is a step of the
caller's `Q2.maybe_stop()`: no stop request appears; exhaustion stays; and once the queue is exhausted without failure
and without stop request no failure is recorded any more (every producer is past `_stop_enqueue`) -/
theorem s2_frame {c c' : Cfg} {tid : Tid} {alt : Bool} {lbl : String} (hg : Good c)
    (h : step F c tid alt = some (lbl, c'))
    (hns : ∀ t, c.ths[tid]? = some t → t.role = .cons → t.cpc ≠ .stopping) :
    c'.s2.stopRequested = c.s2.stopRequested ∧ (c.s2.exhausted = true → c'.s2.exhausted = true) ∧
    (c.s2.stopRequested = false → c.s2.exc = none → c.s2.exhausted = true → c'.s2.exc = none) := by
  obtain ⟨t, ht, hsh⟩ := step_shape h
  have htm := List.mem_of_getElem? ht
  have hti := hg.inv.ti t htm
  have same : c.s2.stopRequested = c.s2.stopRequested ∧ (c.s2.exhausted = true → c.s2.exhausted = true) ∧
    (c.s2.stopRequested = false → c.s2.exc = none → c.s2.exhausted = true → c.s2.exc = none) :=
    ⟨rfl, id, fun _ h _ => h⟩
  rcases hsh with ⟨hr, hsh⟩ | ⟨hr, hsh⟩ | ⟨hr, hsh⟩
  · cases hsh with
    | loc t' ns _ _ hc' => subst hc'; exact same
    | iter l s2' b' hcpc hst hc' =>
      subst hc'
      have hq2 := q2_get ht
      rw [v2_cons hr] at hq2
      have htok := hg.live2.base.tok t.b (List.mem_of_getElem? hq2)
      have hk : t.b.prog.kind = .batch := by unfold TI at hti; simp only [hr, hcpc] at hti; exact hti.2.2.1
      have hne : t.b.pc ≠ .mAcq ∧ t.b.pc ≠ .pRaiseT ∧ t.b.pc ≠ .eNext := by
        refine ⟨fun e => ?_, fun e => ?_, fun e => ?_⟩ <;>
          · have := htok.kind _ (by rw [e]; rfl); rw [hk] at this; cases this
      obtain ⟨e1, e2⟩ := stepThread_exc l s2' b' hst
      obtain ⟨a1, a2, a3⟩ := afterIter_sh c t.b.pc s2' { t with b := b' }
      refine ⟨?_, fun hx => ?_, fun _ hx _ => ?_⟩
      · show (afterIter c t.b.pc s2' { t with b := b' }).1.stopRequested = _
        rw [a2, e1 hne.1]
      · show (afterIter c t.b.pc s2' { t with b := b' }).1.exhausted = _
        rw [a3]; exact (sticky_of_stepThread hst).2.2 hx
      · show (afterIter c t.b.pc s2' { t with b := b' }).1.exc = _
        rw [a1, e2 hne.1 hne.2.1 hne.2.2]; exact hx
    | stopping l s2' b' t' hcpc => exact absurd hcpc (hns t ht hr)
    | upstop l s1' a' _ _ hc' => subst hc'; exact same
  · cases hsh with
    | stop _ _ hc' => subst hc'; exact same
    | qa l s1' a' p e _ _ hc' => subst hc'; exact same
  · have hkp : t.b.prog.kind = .producer := by unfold TI at hti; simp only [hr] at hti; exact hti.1
    have hq2 := q2_get ht
    have hpp := v2_l2_pc hr
    have hip : isProd (v2 t) = true := by simp [isProd, hpp.2, hkp]
    have hcount : c.s2.stopRequested = false → c.s2.exc = none → c.s2.exhausted = true → pastT (v2 t) = false → False :=
      fun h1 h2 h3 h4 => not_done_by_count hg.live2 hq2 hip h4 (hg.live2.base.i3 h3) ⟨h2, h1⟩
    cases hsh with
    | start _ hc' => subst hc'; exact same
    | hit v rest _ _ _ _ hc' => subst hc'; exact same
    | miss _ _ _ _ hc' => subst hc'; exact same
    | deq l s1' a' _ _ _ _ hc' => subst hc'; exact same
    | deqEnd l s1' a' hd cache' _ _ _ _ hc' => subst hc'; exact same
    | up l s1' a' _ _ _ hc' => subst hc'; exact same
    | rel hpc hx hlock hc' =>
      subst hc'
      obtain ⟨a1, a2⟩ := afterPull_sh (F := F) c.fwd tid c.s2 t t.hand
      refine ⟨a1, fun hx => ?_, fun h1 h2 h3 => (hcount h1 h2 h3 (by simp [pastT, hpp.1, hpc])).elim⟩
      show (afterPull F c.fwd tid c.s2 t t.hand).1.exhausted = _
      rw [a2]; exact hx
    | qb l s2' b' h1 h2 h3 hst hc' =>
      subst hc'
      have htok := tok_of_v2 hr (hg.live2.base.tok (v2 t) (List.mem_of_getElem? hq2))
      have hm : t.b.pc ≠ .mAcq := fun e => by
        have := htok.kind _ (by rw [e]; rfl); rw [hkp] at this; cases this
      obtain ⟨e1, e2⟩ := stepThread_exc l s2' b' hst
      refine ⟨e1 hm, (sticky_of_stepThread hst).2.2, fun g1 g2 g3 => ?_⟩
      by_cases hp : t.b.pc = .pRaiseT
      · exact (hcount g1 g2 g3 (by simp [pastT, hpp.1, hp])).elim
      · show s2'.exc = none
        rw [e2 hm hp h2]; exact g2


theorem fst_begin {c : Cfg} {t : Th} {s : Shared} (hf : t.early = false → FSt s t)
    (he : (beginIter c t).early = false) : FSt s (beginIter c t) := by
  unfold beginIter at he ⊢
  split
  · rename_i h; simp [h] at he
  · rename_i h
    simp only [h] at he
    have f := hf he
    exact ⟨f.nostop, f.kind, by simp, by simp, fun ha => by simp [armedX] at ha, fun hc => by simp at hc⟩

/-- a step of the caller's iteration over the output queue -/
theorem fst_iter {c : Cfg} {t : Th} {alt : Bool} {l : String} {s2' : Shared} {b' : Queue.Thread}
    (htok : TOK t.b) (hto : c.s2.timeout = false)
    (hne : t.b.pc ≠ .mAcq ∧ t.b.pc ≠ .pRaiseT ∧ t.b.pc ≠ .eNext) (hcpc : t.cpc = .iter)
    (hst : stepThread c.s2 t.b 0 alt = some (l, s2', b')) (f : FSt c.s2 t)
    (hA : armedX (afterIter c t.b.pc s2' { t with b := b' }).2.b = true →
      (afterIter c t.b.pc s2' { t with b := b' }).1.exhausted = true)
    (he : (afterIter c t.b.pc s2' { t with b := b' }).2.early = false) :
    FSt (afterIter c t.b.pc s2' { t with b := b' }).1 (afterIter c t.b.pc s2' { t with b := b' }).2 := by
  obtain ⟨e1, e2⟩ := stepThread_exc l s2' b' hst
  have hsr : s2'.stopRequested = false := by rw [e1 hne.1]; exact f.nostop
  have hex : s2'.exc = c.s2.exc := e2 hne.1 hne.2.1 hne.2.2
  have hmono : ∀ r, OKR c.s2 r → OKR s2' r := fun r o =>
    ⟨o.1, fun hr => ⟨by rw [hex]; exact (o.2.1 hr).1, (sticky_of_stepThread hst).2.2 (o.2.1 hr).2⟩,
      fun hr => by rw [hex]; exact o.2.2 hr⟩
  have hprog := stepThread_prog hst
  obtain ⟨-, -, -, c4, -, c6, -⟩ := stepThread_close l s2' b' hst htok hto
  rcases afterIter_cases c t.b.pc s2' { t with b := b' } with ⟨hb, e⟩ | e | ⟨hb, e⟩
  · rw [e]
    obtain ⟨d1, d2⟩ := c6 hb
    refine ⟨hsr, ?_, by simp, by simp, fun ha => ?_,
      fun _ => ⟨t.b.x, d2, hmono _ (f.armed (by simp [armedX, hb]))⟩⟩
    · show b'.prog.kind = _
      rw [hprog]; exact f.kind
    · exfalso
      simp [armedX, d1] at ha
  · rw [e] at he; cases he
  · rw [e] at hA ⊢
    refine ⟨hsr, ?_, ?_, ?_, fun ha => ?_, fun hc => ?_⟩
    · show b'.prog.kind = _
      rw [hprog]; exact f.kind
    · show t.cpc ≠ _
      rw [hcpc]; simp
    · show t.cpc ≠ _
      rw [hcpc]; simp
    · show OKR s2' b'.x
      rcases c4 ha with ⟨h1, h2⟩ | h2
      · rw [h2]; exact hmono _ (f.armed h1)
      · rw [h2]
        refine ⟨final_ne_empty _, fun hr => ⟨?_, hA ha⟩, fun hr => by rw [final_isErr] at hr; exact hr⟩
        rw [final_isErr] at hr
        cases hx : s2'.exc with
        | none => rfl
        | some _ => simp [hx] at hr
    · exfalso
      have hc' : t.cpc = .shutdown ∨ t.cpc = .fin := hc
      rw [hcpc] at hc'
      rcases hc' with hc' | hc' <;> cases hc'

set_option maxHeartbeats 400000 in
/-- `FS` is inductive (the successor's `Good` supplies `armed ⇒ exhausted` for the caller's new program point) -/
theorem fs_step {c c' : Cfg} {tid : Tid} {alt : Bool} {lbl : String} (hg : Good c) (hg' : Good c')
    (h : step F c tid alt = some (lbl, c')) (hfs : FS c) : FS c' := by
  intro t0' ht0' hearly
  by_cases h0 : tid = 0
  · subst h0
    obtain ⟨t, -, ht, -, -⟩ := step_set h
    have hr : t.role = .cons := (hg.inv.role0 0 t ht).mpr rfl
    have hlt : 0 < c.ths.length := (List.getElem?_eq_some_iff.mp ht).1
    have ext : ∀ {u : Th} {c'' : Cfg}, c''.ths = c.ths.set 0 u → c''.ths[0]? = some t0' → t0' = u := by
      intro u c'' e1 e2
      rw [e1] at e2
      simpa [hlt] using e2.symm
    have hxok' : armedX t0'.b = true → c'.s2.exhausted = true := by
      intro ha
      have hr' : t0'.role = .cons := (hg'.inv.role0 0 t0' ht0').mpr rfl
      have hq := q2_get ht0'
      rw [v2_cons hr'] at hq
      rcases (hg'.live2.base.xok t0'.b (List.mem_of_getElem? hq)).2.2.2.2.1 (armedX_armed _ ha) with h | h
      · exact h
      · have h' : c'.s2.timeout = true := h
        rw [hg'.inv.to2] at h'; cases h'
    have hti := hg.inv.ti t (List.mem_of_getElem? ht)
    have hs : stepCons c 0 t alt = some (lbl, c') := by simpa [step, ht, hr] using h
    unfold stepCons at hs
    split at hs
    · simp at hs
    · -- boot
      (repeat' split at hs) <;> simp only [Option.some.injEq, Prod.mk.injEq, reduceCtorEq] at hs <;>
        obtain ⟨-, rfl⟩ := hs
      · have e := ext rfl ht0'
        subst e
        exact fst_begin (hfs t ht) hearly
      · have e := ext rfl ht0'
        subst e
        have f := hfs t ht hearly
        exact ⟨f.nostop, f.kind, by simp, by simp, f.armed, fun hc => by simp at hc⟩
    · -- submit
      rename_i hcpc
      split at hs
      · simp at hs
      simp only [Option.some.injEq, Prod.mk.injEq] at hs
      obtain ⟨-, rfl⟩ := hs
      have e := ext rfl ht0'
      subst e
      split
      · rename_i hge
        simp only [hge, if_true] at hearly
        exact fst_begin (hfs t ht) hearly
      · rename_i hge
        simp only [hge, if_false] at hearly
        exact hfs t ht hearly
    · -- iter
      rename_i hcpc
      split at hs
      · simp at hs
      · rename_i l s2' b' hst
        simp only [Option.some.injEq, Prod.mk.injEq] at hs
        obtain ⟨-, rfl⟩ := hs
        have e := ext rfl ht0'
        subst e
        have hq2 := q2_get ht
        rw [v2_cons hr] at hq2
        have htok := hg.live2.base.tok t.b (List.mem_of_getElem? hq2)
        have hk : t.b.prog.kind = .batch := by unfold TI at hti; simp only [hr, hcpc] at hti; exact hti.2.2.1
        have hne : t.b.pc ≠ .mAcq ∧ t.b.pc ≠ .pRaiseT ∧ t.b.pc ≠ .eNext := by
          refine ⟨fun e => ?_, fun e => ?_, fun e => ?_⟩ <;>
            · have := htok.kind _ (by rw [e]; rfl); rw [hk] at this; cases this
        have hearly0 : t.early = false := by
          cases he : t.early with
          | false => rfl
          | true =>
            exfalso
            have : (afterIter c t.b.pc s2' { t with b := b' }).2.early = true := by
              unfold afterIter; (repeat' split) <;> simp [he]
            rw [this] at hearly; cases hearly
        exact fst_iter htok hg.inv.to2 hne hcpc hst (hfs t ht hearly0) hxok' hearly
    · -- stopping
      rename_i hcpc
      split at hs
      · simp at hs
      · simp only [Option.some.injEq, Prod.mk.injEq] at hs
        obtain ⟨-, rfl⟩ := hs
        have e := ext rfl ht0'
        subst e
        have he : t.early = false := by
          rw [← hearly]; (repeat' split) <;> rfl
        exact absurd hcpc (hfs t ht he).c1
    · -- upstop
      rename_i hcpc
      split at hs
      · simp at hs
      · simp only [Option.some.injEq, Prod.mk.injEq] at hs
        obtain ⟨-, rfl⟩ := hs
        have e := ext rfl ht0'
        subst e
        exact absurd hcpc (hfs t ht hearly).c2
    · -- shutdown
      rename_i hcpc
      (repeat' split at hs) <;> simp only [Option.some.injEq, Prod.mk.injEq, reduceCtorEq] at hs
      obtain ⟨-, rfl⟩ := hs
      have e := ext rfl ht0'
      subst e
      have f := hfs t ht hearly
      exact ⟨f.nostop, f.kind, by simp, by simp, f.armed, fun _ => f.out (.inl hcpc)⟩
  · obtain ⟨t, t', ht, hths, -⟩ := step_set h
    have ht0 : c.ths[0]? = some t0' := by
      rw [hths, List.getElem?_set_ne h0] at ht0'; exact ht0'
    have f := hfs t0' ht0 hearly
    obtain ⟨r1, r2, r3⟩ := s2_frame hg h (fun u hu hur => absurd ((hg.inv.role0 tid u hu).mp hur) h0)
    have hstk := (reachable_sticky (Reachable.step Reachable.init h)).2.1
    have hmono : ∀ r, OKR c.s2 r → OKR c'.s2 r := fun r o =>
      ⟨o.1, fun hr => ⟨r3 f.nostop (o.2.1 hr).1 (o.2.1 hr).2, r2 (o.2.1 hr).2⟩, fun hr => hstk (o.2.2 hr)⟩
    exact ⟨by rw [r1]; exact f.nostop, f.kind, f.c1, f.c2, fun ha => hmono _ (f.armed ha),
      fun hc => let ⟨r, e, o⟩ := f.out hc; ⟨r, e, hmono _ o⟩⟩

theorem fs_init (cap1 cap2 bm1 bm2 mw : Nat) (ns : Option Nat) (fwd ff : Bool) (inputs : List InSpec)
    (gens : List Nat) : FS (initF cap1 cap2 bm1 bm2 mw ns fwd ff inputs gens) := by
  intro t0 ht0 _
  simp only [initF, init, List.getElem?_cons_zero, Option.some.injEq] at ht0
  subst ht0
  exact ⟨rfl, rfl, by simp [mkCons], by simp [mkCons], fun ha => by simp [mkCons, armedX] at ha,
    fun hc => by simp [mkCons] at hc⟩

theorem fs_reachable {c0 c : Cfg} (h0 : Good c0) (hf : FS c0) (h : Reachable F c0 c) : FS c := by
  induction h with
  | init => exact hf
  | step hr hs ih => exact fs_step (good_reachable h0 hr) (good_reachable h0 (.step hr hs)) hs ih


/-! ### without `num_steps` the caller never stops early -/

theorem early_step {c c' : Cfg} {tid : Tid} {alt : Bool} {lbl : String} (hg : Good c) (hns : c.numSteps = none)
    (h : step F c tid alt = some (lbl, c')) (he : ∀ t0, c.ths[0]? = some t0 → t0.early = false) :
    ∀ t0, c'.ths[0]? = some t0 → t0.early = false := by
  intro t0' ht0'
  by_cases h0 : tid = 0
  · subst h0
    obtain ⟨t, ht, hsh⟩ := step_shape h
    have hr : t.role = .cons := (hg.inv.role0 0 t ht).mpr rfl
    have he0 := he t ht
    have hlt : 0 < c.ths.length := (List.getElem?_eq_some_iff.mp ht).1
    have ext : ∀ {u : Th} {c'' : Cfg}, c''.ths = c.ths.set 0 u → c''.ths[0]? = some t0' → t0' = u := by
      intro u c'' e1 e2
      rw [e1] at e2
      simpa [hlt] using e2.symm
    rcases hsh with ⟨-, hsh⟩ | ⟨hr1, -⟩ | ⟨hr2, -⟩
    · cases hsh with
      | loc t' ns _ hor hc' =>
        subst hc'
        obtain rfl := ext rfl ht0'
        rcases hor with rfl | ⟨-, -, e3, -⟩
        · unfold beginIter; simp [hns, he0]
        · rw [e3]; exact he0
      | iter l s2' b' _ _ hc' =>
        subst hc'
        obtain rfl := ext rfl ht0'
        unfold afterIter
        simp only [hns]
        (repeat' split) <;> exact he0
      | stopping l s2' b' t' _ _ hor hc' =>
        subst hc'
        obtain rfl := ext rfl ht0'
        rcases hor with rfl | rfl | rfl <;> exact he0
      | upstop l s1' a' _ _ hc' =>
        subst hc'
        obtain rfl := ext rfl ht0'
        exact he0
    · rw [hr] at hr1; cases hr1
    · rw [hr] at hr2; cases hr2
  · obtain ⟨t, t', ht, hths, -⟩ := step_set h
    rw [hths, List.getElem?_set_ne h0] at ht0'
    exact he t0' ht0'

theorem early_reachable {cap1 cap2 bm1 bm2 mw : Nat} {fwd ff : Bool} {inputs : List InSpec} {gens : List Nat} {c : Cfg}
    (h : Reachable F (initF cap1 cap2 bm1 bm2 mw none fwd ff inputs gens) c) :
    ∀ t0, c.ths[0]? = some t0 → t0.early = false := by
  have h0 := good_initF cap1 cap2 bm1 bm2 mw none fwd ff inputs gens
  induction h with
  | init =>
    intro t0 ht0
    simp only [initF, init, List.getElem?_cons_zero, Option.some.injEq] at ht0
    subst ht0; rfl
  | step hr hs ih => exact early_step (good_reachable h0 hr) ((reachable_static hr).ns.trans rfl) hs ih

end MlModel.Piter2
