import MlModel.Lemmas.QueueInv
/-!
# Failure / stop facts of the IteratorQueue LTS, one step at a time

* the recorded exception, the stop request and `exhausted` are never cleared;
* whenever a step *arms* an end-of-iteration exception for a consumer (assigns `t.x` a non-`Empty`
  value), that value is `final` of the state at that moment — the recorded exception if there is
  one, `StopIteration(returned)` only if there is none — or `TimeoutError` from an expired wait.
-/
namespace MlModel.Queue

def FaultStep (s : Shared) (t : Thread) (tid : Tid) (alt : Bool) : Prop :=
  ∀ lbl s' t', stepThread s t tid alt = some (lbl, s', t') →
    (s.exc.isSome = true → s'.exc.isSome = true) ∧
    (s.stopRequested = true → s'.stopRequested = true) ∧
    (s.exhausted = true → s'.exhausted = true) ∧
    (t'.x = t.x ∨ t'.x = .empty ∨ t'.x = s'.final ∨ (alt = true ∧ t'.x = .err .timeout)) ∧
    (t'.outcome = t.outcome ∨ t'.outcome = some t.x ∨ t'.outcome = none ∨
      t'.outcome = t.reraise.map Raise.err ∨ t'.outcome = some (.err .assertion))

set_option hygiene false in
macro "fault_group" : tactic => `(tactic| (
  intro lbl s' t' h
  unfold stepThread at h
  cases hpc : t.pc <;> (try (simp only [hpc, Pc.group] at hg; omega)) <;>
    simp only [hpc] at h <;>
    (try simp only [acquire, release, notify, waitPark, waitWake, goto, enqLoop, putLoop, batchLoop,
      afterRaise, afterValue] at h) <;>
    (repeat' split at h) <;>
    (try simp only [Option.some.injEq, Prod.mk.injEq, reduceCtorEq] at h) <;>
    (try (obtain ⟨-, rfl, rfl⟩ := h)) <;>
    simp_all [Shared.setOwner, Shared.final]))

theorem fault_g0 {s t tid alt} (hg : t.pc.group = 0) : FaultStep s t tid alt := by fault_group
theorem fault_g1 {s t tid alt} (hg : t.pc.group = 1) : FaultStep s t tid alt := by fault_group
theorem fault_g2 {s t tid alt} (hg : t.pc.group = 2) : FaultStep s t tid alt := by fault_group
theorem fault_g3 {s t tid alt} (hg : t.pc.group = 3) : FaultStep s t tid alt := by fault_group
theorem fault_g4 {s t tid alt} (hg : t.pc.group = 4) : FaultStep s t tid alt := by fault_group
theorem fault_g5 {s t tid alt} (hg : t.pc.group = 5) : FaultStep s t tid alt := by fault_group
theorem fault_g6 {s t tid alt} (hg : t.pc.group = 6) : FaultStep s t tid alt := by fault_group
theorem fault_g7 {s t tid alt} (hg : t.pc.group = 7) : FaultStep s t tid alt := by fault_group

theorem stepThread_fault {s t tid alt} : FaultStep s t tid alt := by
  have h := Pc.group_lt t.pc
  match hg : t.pc.group with
  | 0 => exact fault_g0 hg | 1 => exact fault_g1 hg | 2 => exact fault_g2 hg | 3 => exact fault_g3 hg
  | 4 => exact fault_g4 hg | 5 => exact fault_g5 hg | 6 => exact fault_g6 hg | 7 => exact fault_g7 hg
  | n + 8 => omega

end MlModel.Queue
